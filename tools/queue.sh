#!/bin/bash
# sequential queue: lines "name check1 check2..." appended to /tmp/seed/queue.txt are processed in order
touch /tmp/seed/queue.txt
n=0
while true; do
  total=$(wc -l < /tmp/seed/queue.txt)
  if [ $n -lt $total ]; then
    n=$((n+1))
    line=$(sed -n "${n}p" /tmp/seed/queue.txt)
    [ -n "$line" ] && /tmp/seed/process.sh $line
  else
    sleep 15
  fi
done
