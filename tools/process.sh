#!/bin/bash
# process.sh <name> <check ids...>: verify a seed, file it, run the checks against it; results -> /tmp/runlogs/seedproc-<name>.log
name=$1; shift
log=/tmp/runlogs/seedproc-$name.log
cd /verif
git -C /repo worktree remove --force /tmp/seed/wt-$name >/dev/null 2>&1
timeout 4000 bin/seed-verify /tmp/seedout/$name $name > $log 2>&1
if grep -q '"confirmed": true' $log; then
  for c in "$@"; do timeout 4000 bin/seed-run $name $c quick >> $log 2>&1; done
fi
echo DONE >> $log
