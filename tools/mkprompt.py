import json, sys, subprocess, os
pid, k = sys.argv[1], sys.argv[2]
props={json.loads(l)['id']:json.loads(l) for l in open('/verif/properties.jsonl')}
p = props[pid]
wt = "/tmp/seed/wt-%s-%s" % (pid, k)
out = "/tmp/seedout/%s-%s" % (pid, k)
os.makedirs(out, exist_ok=True)
if not os.path.exists(wt):
    subprocess.check_call(["git", "-C", "/repo", "worktree", "add", "-q", "--detach", wt, "HEAD"])
T = open('/tmp/seed/TEMPLATE.txt').read()
extra = sys.argv[3] if len(sys.argv) > 3 else ""
txt = T.format(wt=wt, out=out, prop=json.dumps(p, indent=1), pid=pid, lid=(pid + k).lower())
if extra:
    txt += "\nAdditional direction for this variant: " + extra + "\n"
open("/tmp/seed/prompt-%s-%s.txt" % (pid, k), "w").write(txt)
print(txt)
