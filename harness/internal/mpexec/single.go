package mpexec

import (
	"fmt"
	"sort"
	"strings"

	"github.com/DistCompiler/pgo/distsys"
	"github.com/DistCompiler/pgo/distsys/tla"
	"github.com/DistCompiler/pgo/distsys/trace"
)

// PState is the spec-visible state of one process.
type PState struct {
	PC     string // spec-level pc value
	Label  string // label as the generated Go names it ("Arch.lbl" / "proc.lbl"); "" = Arch.Name + "." + PC
	Locals map[string]tla.Value // resource name -> value (archetype locals, value params, ".stack")
}

// State is a complete state of the specification held in Go values.
type State struct {
	G map[string]Global
	P []PState
}

func (st *State) clone() *State {
	n := &State{G: map[string]Global{}, P: make([]PState, len(st.P))}
	for k, v := range st.G {
		n.G[k] = v.Clone()
	}
	for i, p := range st.P {
		m := make(map[string]tla.Value, len(p.Locals))
		for k, v := range p.Locals {
			m[k] = v
		}
		n.P[i] = PState{PC: p.PC, Label: p.Label, Locals: m}
	}
	return n
}

type onceGate struct {
	p     *Proc
	calls int
}

func (g *onceGate) BeginCriticalSection(pc string) {
	g.calls++
	if g.calls > 1 {
		panic(stopSentinel{})
	}
}
func (g *onceGate) NextFairnessCounter(id string, ceiling uint) uint {
	if ceiling == 0 {
		panic("mpexec: choice with ceiling 0")
	}
	c := g.p.Sys.Oracle.Choose(g.p, id, ceiling)
	g.p.choices = append(g.p.choices, Choice{id, ceiling, c})
	return c
}

// InitialState runs every archetype's preamble in a fresh context and captures the state.
func (s *System) InitialState() (*State, error) {
	st := &State{G: s.W.Snapshot(), P: make([]PState, len(s.Procs))}
	for i, p := range s.Procs {
		p.Sys = s
		if p.Actor != nil {
			m := map[string]tla.Value{}
			for k, v := range p.Actor.Locals {
				m[k] = v
			}
			st.P[i] = PState{PC: p.Actor.PC, Locals: m}
			continue
		}
		// run the context up to its first gate and stop it there
		g := &onceGate{p: p, calls: 1}
		cfg := append([]distsys.MPCalContextConfigFn{}, s.Consts...)
		cfg = append(cfg, p.Config(p)...)
		cfg = append(cfg, distsys.SetFairnessCounter(g))
		ctx := distsys.NewMPCalContext(p.Self, p.Arch, cfg...)
		err := runRecover(ctx)
		if err != errStopped {
			return nil, fmt.Errorf("initial run of %s(%v): %v", p.Arch.Name, p.Self, err)
		}
		ps := PState{PC: p.pcName(p.Arch.Label), Label: p.Arch.Label, Locals: map[string]tla.Value{}}
		for _, l := range p.Locals {
			ps.Locals[l.Res] = ctx.IFace().ReadArchetypeResourceLocal(l.Res)
		}
		ps.Locals[".stack"] = ctx.IFace().ReadArchetypeResourceLocal(".stack")
		st.P[i] = ps
	}
	return st, nil
}

func runRecover(ctx *distsys.MPCalContext) (err error) {
	defer func() {
		if r := recover(); r != nil {
			if _, ok := r.(stopSentinel); ok {
				err = errStopped
				return
			}
			err = fmt.Errorf("panic: %v", r)
		}
	}()
	return ctx.Run()
}

type evRec struct{ ev *trace.Event }

func (r *evRec) RecordEvent(ev trace.Event) { e := ev; r.ev = &e }

// StepFrom performs exactly one attempt of process pi from state st (st is not modified) with
// the system's current Oracle. Returns whether it committed, the successor state, the choices
// consulted and the error with which Run ended (assertion failure etc.), if any.
func (s *System) StepFrom(st *State, pi int) (bool, *State, []Choice, error) {
	p := s.Procs[pi]
	p.Sys = s
	cur := st.clone()
	s.W.Restore(cur.G)
	p.choices = nil
	if p.Actor != nil {
		a := &Actor{PC: cur.P[pi].PC, Locals: cur.P[pi].Locals, Act: p.Actor.Act}
		ok := a.Act(a, p)
		if !ok {
			return false, nil, p.choices, nil
		}
		cur.G = s.W.Snapshot()
		cur.P[pi] = PState{PC: a.PC, Label: a.PC, Locals: a.Locals}
		return true, cur, p.choices, nil
	}
	arch := p.Arch
	arch.Label = cur.P[pi].Label
	if arch.Label == "" {
		arch.Label = arch.Name + "." + cur.P[pi].PC
	}
	orig := p.Arch.PreAmble
	locals := cur.P[pi].Locals
	arch.PreAmble = func(iface distsys.ArchetypeInterface) {
		orig(iface)
		for name, v := range locals {
			iface.EnsureArchetypeResourceLocal(name, v)
		}
	}
	g := &onceGate{p: p}
	rec := &evRec{}
	cfg := append([]distsys.MPCalContextConfigFn{}, s.Consts...)
	cfg = append(cfg, p.Config(p)...)
	cfg = append(cfg, distsys.SetFairnessCounter(g), distsys.SetTraceRecorder(rec))
	ctx := distsys.NewMPCalContext(p.Self, arch, cfg...)
	err := runRecover(ctx)
	if err != errStopped && err != nil {
		return false, nil, p.choices, err
	}
	if rec.ev == nil || rec.ev.IsAbort {
		return false, nil, p.choices, nil
	}
	newLabel := ctx.IFace().ReadArchetypeResourceLocal(".pc").AsString()
	ps := PState{PC: p.pcName(newLabel), Label: newLabel, Locals: map[string]tla.Value{}}
	for name := range locals {
		ps.Locals[name] = ctx.IFace().ReadArchetypeResourceLocal(name)
	}
	cur.G = s.W.Snapshot()
	cur.P[pi] = ps
	return true, cur, p.choices, nil
}

// Dump prints st as a TLA+ record of all spec variables (same format as System.DumpState).
func (s *System) Dump(st *State) string {
	vs := s.DumpVars(st)
	parts := make([]string, len(vs))
	for i, v := range vs {
		parts[i] = v[0] + " |-> " + v[1]
	}
	return "[" + strings.Join(parts, ", ") + "]"
}

// DumpVars returns the spec variables of st as (name, TLA+ text) pairs, in the order Dump prints them.
func (s *System) DumpVars(st *State) [][2]string {
	var parts [][2]string
	pcs := make([]string, 0, len(s.Procs))
	for i, p := range s.Procs {
		pcs = append(pcs, fmt.Sprintf("(%s :> %q)", p.Self.String(), st.P[i].PC))
	}
	parts = append(parts, [2]string{"pc", "(" + strings.Join(pcs, " @@ ") + ")"})
	for _, n := range s.W.Names {
		parts = append(parts, [2]string{n, st.G[n].TLA()})
	}
	type kv struct{ self, val string }
	locals := map[string][]kv{}
	singles := map[string]bool{}
	var names []string
	single := false
	add := func(n, self, val string) {
		if _, ok := locals[n]; !ok {
			names = append(names, n)
		}
		locals[n] = append(locals[n], kv{self, val})
		singles[n] = singles[n] || single
	}
	for i, p := range s.Procs {
		single = p.Single
		if p.Actor != nil {
			for n, v := range st.P[i].Locals {
				add(n, p.Self.String(), v.String())
			}
			continue
		}
		for _, l := range p.Locals {
			// pcal makes only the process-level variables of `process (P = id)` plain; procedure
			// parameters/locals and `stack` stay functions of self
			if l.Spec == "" {
				continue // carried between steps but not a variable of the translation (e.g. a procedure's ref parameter)
			}
			single = p.Single && strings.HasPrefix(l.Res, p.Arch.Name+".")
			add(l.Spec, p.Self.String(), st.P[i].Locals[l.Res].String())
		}
		single = false
		if p.HasStack {
			add("stack", p.Self.String(), StackTLA(st.P[i].Locals[".stack"], p))
		}
		single = p.Single
		for n, v := range p.ConstLocals {
			add(n, p.Self.String(), v)
		}
	}
	sort.Strings(names)
	for _, n := range names {
		if singles[n] {
			parts = append(parts, [2]string{n, locals[n][0].val})
			continue
		}
		var es []string
		for _, e := range locals[n] {
			es = append(es, fmt.Sprintf("(%s :> %s)", e.self, e.val))
		}
		parts = append(parts, [2]string{n, "(" + strings.Join(es, " @@ ") + ")"})
	}
	return parts
}

// StackTLA projects the runtime's .stack (sequence of records resource-name -> saved value, with
// ".pc" holding the return label) to PlusCal's stack-of-records shape.
func StackTLA(stack tla.Value, p *Proc) string {
	if p.StackProj != nil {
		return p.StackProj(stack)
	}
	return stack.String()
}

// Oracle that replays a script and records ceilings (for per-attempt enumeration).
type EnumOracle struct {
	Script []uint
	Taken  []uint
	Ceil   []uint
}

func (o *EnumOracle) Choose(p *Proc, id string, n uint) uint {
	i := len(o.Taken)
	var g uint
	if i < len(o.Script) {
		g = o.Script[i]
		if g >= n {
			g = n - 1
		}
	}
	o.Taken = append(o.Taken, g)
	o.Ceil = append(o.Ceil, n)
	return g
}

// Advance moves to the next choice vector in depth-first order; false when exhausted.
func (o *EnumOracle) Advance() bool {
	for i := len(o.Taken) - 1; i >= 0; i-- {
		if o.Taken[i]+1 < o.Ceil[i] {
			o.Script = append(append([]uint(nil), o.Taken[:i]...), o.Taken[i]+1)
			o.Taken, o.Ceil = nil, nil
			return true
		}
	}
	return false
}

// Succ is one committed successor of a state.
type Succ struct {
	Proc    int
	Label   string
	Choices []Choice
	Next    *State
	Err     error
}

// Successors enumerates every resolution of the choices of one attempt of process pi.
func (s *System) Successors(st *State, pi int) []Succ {
	var out []Succ
	o := &EnumOracle{}
	saved := s.Oracle
	s.Oracle = o
	defer func() { s.Oracle = saved }()
	for {
		ok, nx, ch, err := s.StepFrom(st, pi)
		if err != nil {
			out = append(out, Succ{Proc: pi, Label: st.P[pi].PC, Choices: ch, Err: err})
		} else if ok {
			out = append(out, Succ{Proc: pi, Label: st.P[pi].PC, Choices: ch, Next: nx})
		}
		if !o.Advance() {
			break
		}
	}
	return out
}
