// Package mpexec runs PGo-generated archetypes step by step under a scheduler gate, over
// "spec-state" environment resources that implement the mapping macros of the repository's
// specifications on a shared in-memory world (DESIGN.md 4.3, 4.4). Every committed step can be
// dumped as a TLA+ state of the repository spec, to be validated by TLC.
package mpexec

import (
	"fmt"
	"sort"
	"strings"

	"github.com/DistCompiler/pgo/distsys/tla"
)

// Global is one global variable of a specification (or a component of one).
type Global interface {
	Clone() Global
	TLA() string
}

// Val is a plain TLA+ value.
type Val struct{ V tla.Value }

func (v *Val) Clone() Global { return &Val{v.V} }
func (v *Val) TLA() string   { return v.V.String() }

// Fn is a function from keys to nested globals (e.g. network = [id \in NodeSet |-> ...]).
type Fn struct {
	Keys []tla.Value
	M    map[string]Global
}

func NewFn() *Fn { return &Fn{M: map[string]Global{}} }
func (f *Fn) Set(k tla.Value, g Global) {
	ks := k.String()
	if _, ok := f.M[ks]; !ok {
		f.Keys = append(f.Keys, k)
	}
	f.M[ks] = g
}
func (f *Fn) Get(k tla.Value) Global {
	g, ok := f.M[k.String()]
	if !ok {
		panic(fmt.Sprintf("mpexec: key %v not in domain of function-valued global", k))
	}
	return g
}
func (f *Fn) Has(k tla.Value) bool { _, ok := f.M[k.String()]; return ok }
func (f *Fn) Clone() Global {
	n := &Fn{Keys: append([]tla.Value(nil), f.Keys...), M: make(map[string]Global, len(f.M))}
	for k, v := range f.M {
		n.M[k] = v.Clone()
	}
	return n
}
func (f *Fn) TLA() string {
	if len(f.Keys) == 0 {
		return "<<>>"
	}
	parts := make([]string, 0, len(f.Keys))
	for _, k := range f.Keys {
		parts = append(parts, "("+k.String()+" :> "+f.M[k.String()].TLA()+")")
	}
	return "(" + strings.Join(parts, " @@ ") + ")"
}

// Seq is a sequence of values.
type Seq struct{ Items []tla.Value }

func (s *Seq) Clone() Global { return &Seq{append([]tla.Value(nil), s.Items...)} }
func (s *Seq) TLA() string {
	parts := make([]string, len(s.Items))
	for i, v := range s.Items {
		parts[i] = v.String()
	}
	return "<<" + strings.Join(parts, ", ") + ">>"
}

// Bag is a multiset of values (TLA+ Bags module: a function element -> positive count).
type Bag struct{ Items []tla.Value }

func (b *Bag) Clone() Global { return &Bag{append([]tla.Value(nil), b.Items...)} }

// Distinct returns the distinct elements (BagToSet) in a canonical (sorted by print) order.
func (b *Bag) Distinct() []tla.Value {
	seen := map[string]tla.Value{}
	for _, v := range b.Items {
		seen[v.String()] = v
	}
	keys := make([]string, 0, len(seen))
	for k := range seen {
		keys = append(keys, k)
	}
	sort.Strings(keys)
	out := make([]tla.Value, len(keys))
	for i, k := range keys {
		out[i] = seen[k]
	}
	return out
}
func (b *Bag) RemoveOne(v tla.Value) {
	s := v.String()
	for i, x := range b.Items {
		if x.String() == s {
			b.Items = append(append([]tla.Value(nil), b.Items[:i]...), b.Items[i+1:]...)
			return
		}
	}
	panic("mpexec: bag element not found")
}
func (b *Bag) TLA() string {
	if len(b.Items) == 0 {
		return "<<>>"
	}
	cnt := map[string]int{}
	for _, v := range b.Items {
		cnt[v.String()]++
	}
	keys := make([]string, 0, len(cnt))
	for k := range cnt {
		keys = append(keys, k)
	}
	sort.Strings(keys)
	parts := make([]string, len(keys))
	for i, k := range keys {
		parts[i] = fmt.Sprintf("(%s :> %d)", k, cnt[k])
	}
	return "(" + strings.Join(parts, " @@ ") + ")"
}

// Rec is a record of nested globals.
type Rec struct {
	Names []string
	F     map[string]Global
}

func NewRec() *Rec { return &Rec{F: map[string]Global{}} }
func (r *Rec) Set(n string, g Global) {
	if _, ok := r.F[n]; !ok {
		r.Names = append(r.Names, n)
	}
	r.F[n] = g
}
func (r *Rec) Clone() Global {
	n := &Rec{Names: append([]string(nil), r.Names...), F: map[string]Global{}}
	for k, v := range r.F {
		n.F[k] = v.Clone()
	}
	return n
}
func (r *Rec) TLA() string {
	parts := make([]string, len(r.Names))
	for i, n := range r.Names {
		parts[i] = n + " |-> " + r.F[n].TLA()
	}
	return "[" + strings.Join(parts, ", ") + "]"
}

// World holds the global variables of a specification.
type World struct {
	Names []string
	G     map[string]Global
}

func NewWorld() *World { return &World{G: map[string]Global{}} }
func (w *World) Set(name string, g Global) {
	if _, ok := w.G[name]; !ok {
		w.Names = append(w.Names, name)
	}
	w.G[name] = g
}
func (w *World) Snapshot() map[string]Global {
	s := make(map[string]Global, len(w.G))
	for k, v := range w.G {
		s[k] = v.Clone()
	}
	return s
}
func (w *World) Restore(s map[string]Global) {
	for k, v := range s {
		w.G[k] = v
	}
}
