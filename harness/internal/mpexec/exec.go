package mpexec

import (
	"errors"
	"fmt"
	"math/rand"
	"strings"
	"time"

	"github.com/DistCompiler/pgo/distsys"
	"github.com/DistCompiler/pgo/distsys/tla"
	"github.com/DistCompiler/pgo/distsys/trace"
)

// Local maps a variable of the TLA+ translation to the archetype-local resource holding it.
type Local struct {
	Spec string // variable name in the TLA+ translation (e.g. "msg", "idx0")
	Res  string // resource name in the generated Go (e.g. "AServer.msg")
}

type stopSentinel struct{}

// Choice is one nondeterministic decision taken during an attempt.
type Choice struct {
	ID  string `json:"id"`
	N   uint   `json:"n"`
	Got uint   `json:"got"`
}

// Proc is one process of the specification: either a generated archetype run by the real
// MPCalContext.Run behind the gate, or a model-only actor stepping the world directly.
type Proc struct {
	Sys    *System
	Group  string    // process-set name, used to group locals in the dump
	Node   int       // the node (server) this process belongs to, 0 = none (clients, crashers, model-only actors)
	Self   tla.Value // the process identifier (pc[self])
	Arch   distsys.MPCalArchetype
	Locals []Local
	Config func(p *Proc) []distsys.MPCalContextConfigFn
	// Single: the spec declares this process with `process (P = id)`: its locals (and stack) are plain
	// variables of the translation, not functions of self
	Single bool
	// PCName maps a label of the generated Go ("Arch.lbl", "proc.lbl") to the value pc[self] has in the
	// TLA+ translation (default: the part after the first dot). Needed when pcal renamed duplicate labels.
	PCName func(goLabel string) string
	// ConstLocals: spec-local variables that never change and have no Go counterpart
	// (e.g. a value passed for a mapped ref parameter): spec name -> TLA+ text
	ConstLocals map[string]string
	// HasStack: the spec has a `stack` variable for this process (archetype calls procedures);
	// StackProj projects the runtime's .stack value to the spec's representation.
	HasStack  bool
	StackProj func(stack tla.Value) string

	// model-only actor (no archetype): Labels lists its labels, Act performs one attempt
	Actor *Actor

	ctx      *distsys.MPCalContext
	arrive   chan string
	grant    chan bool // true = run an attempt, false = stop (sentinel panic)
	done     chan error
	event    *trace.Event
	PC       string // spec-level pc value of the label the process is parked at
	Label    string // the label as the generated Go names it
	Finished bool
	RunErr   error
	choices  []Choice
}

// Actor is a model-only process (e.g. a crasher, an UpdateGCntr process).
type Actor struct {
	PC     string
	Locals map[string]tla.Value
	// Act attempts the step at a.PC against the world; returns false if disabled (await fails).
	Act func(a *Actor, p *Proc) bool
}

// Oracle decides every nondeterministic choice (archetype either/with, env macro choices).
type Oracle interface {
	Choose(p *Proc, id string, n uint) uint
}

type RandOracle struct{ R *rand.Rand }

func (o *RandOracle) Choose(p *Proc, id string, n uint) uint { return uint(o.R.Intn(int(n))) }

// ScriptOracle replays a fixed list of choices, then falls back to 0 and records the request.
type ScriptOracle struct {
	Script []uint
	pos    int
	Asked  []Choice
}

func (o *ScriptOracle) Choose(p *Proc, id string, n uint) uint {
	var g uint
	if o.pos < len(o.Script) {
		g = o.Script[o.pos]
		if g >= n {
			g = n - 1
		}
	}
	o.pos++
	o.Asked = append(o.Asked, Choice{id, n, g})
	return g
}

type System struct {
	Name   string
	W      *World
	Procs  []*Proc
	Oracle Oracle
	Consts []distsys.MPCalContextConfigFn
	// Observe, if set, extracts client-visible events from a committed step (gate-based runs)
	Observe func(p *Proc, label, newPC string, local func(res string) tla.Value) interface{}
	Steps   int
	// CrashChoices lists the identifiers (prefixes) of either-choices whose LAST option is a crash of the
	// process (a spec's mayFail macro); the biased policy of sysdrv takes that option with a small seeded rate
	CrashChoices []string
}

// gate implements distsys.FairnessCounter for one process.
type gate struct{ p *Proc }

func (g gate) BeginCriticalSection(pc string) {
	g.p.arrive <- pc
	if !<-g.p.grant {
		panic(stopSentinel{})
	}
}
func (g gate) NextFairnessCounter(id string, ceiling uint) uint {
	if ceiling == 0 {
		panic("mpexec: choice with ceiling 0")
	}
	c := g.p.Sys.Oracle.Choose(g.p, id, ceiling)
	g.p.choices = append(g.p.choices, Choice{id, ceiling, c})
	return c
}

// EnvChoose is used by env resources for the nondeterminism of mapping macros.
func (p *Proc) EnvChoose(id string, n uint) uint {
	c := p.Sys.Oracle.Choose(p, id, n)
	p.choices = append(p.choices, Choice{id, n, c})
	return c
}

type rec struct{ p *Proc }

func (r rec) RecordEvent(ev trace.Event) { e := ev; e.Elements = append([]trace.Element(nil), ev.Elements...); r.p.event = &e }

func (p *Proc) pcName(goLabel string) string {
	if p.PCName != nil {
		return p.PCName(goLabel)
	}
	return stripArch(goLabel)
}

func stripArch(pc string) string {
	if i := strings.IndexByte(pc, '.'); i >= 0 {
		return pc[i+1:]
	}
	return pc
}

const watchdog = 60 * time.Second

// Start creates the contexts and runs every archetype up to its first gate.
func (s *System) Start() error {
	for _, p := range s.Procs {
		p.Sys = s
		if p.Actor != nil {
			p.PC = p.Actor.PC
			continue
		}
		p.arrive = make(chan string)
		p.grant = make(chan bool)
		p.done = make(chan error, 1)
		cfg := append([]distsys.MPCalContextConfigFn{}, s.Consts...)
		cfg = append(cfg, p.Config(p)...)
		cfg = append(cfg, distsys.SetFairnessCounter(gate{p}), distsys.SetTraceRecorder(rec{p}))
		p.ctx = distsys.NewMPCalContext(p.Self, p.Arch, cfg...)
		go func(p *Proc) {
			var err error
			defer func() {
				if r := recover(); r != nil {
					if _, ok := r.(stopSentinel); ok {
						p.done <- errStopped
						return
					}
					p.done <- fmt.Errorf("panic in archetype %s(%v): %v", p.Arch.Name, p.Self, r)
					return
				}
				p.done <- err
			}()
			err = p.ctx.Run()
		}(p)
		if err := p.wait(); err != nil {
			return err
		}
	}
	return nil
}

var errStopped = errors.New("stopped by harness")

// wait blocks until the process parks at the gate again or its Run returns.
func (p *Proc) wait() error {
	select {
	case pc := <-p.arrive:
		p.PC = p.pcName(pc)
		p.Label = pc
		return nil
	case err := <-p.done:
		p.Finished = true
		p.RunErr = err
		if err == nil {
			p.PC = "Done"
		}
		return nil
	case <-time.After(watchdog):
		return fmt.Errorf("watchdog: %s(%v) did not reach the gate", p.Arch.Name, p.Self)
	}
}

// StepResult describes one attempt.
type StepResult struct {
	Proc      *Proc
	Label     string
	Committed bool
	Choices   []Choice
	Err       error // Run returned an error (assertion failure, panic, ...)
}

// Step grants one attempt to p. The world is restored if the attempt aborted.
func (s *System) Step(p *Proc) (StepResult, error) {
	res := StepResult{Proc: p, Label: p.PC}
	if p.Finished {
		return res, nil
	}
	snap := s.W.Snapshot()
	p.choices = nil
	if p.Actor != nil {
		ok := p.Actor.Act(p.Actor, p)
		res.Choices = p.choices
		if ok {
			res.Committed = true
			p.PC = p.Actor.PC
			if p.PC == "Done" {
				p.Finished = true
			}
			s.Steps++
		} else {
			s.W.Restore(snap)
		}
		return res, nil
	}
	p.event = nil
	p.grant <- true
	if err := p.wait(); err != nil {
		return res, err
	}
	res.Choices = p.choices
	if p.Finished && p.RunErr != nil {
		// the attempt ended the run with an error: no commit took place
		res.Err = p.RunErr
		s.W.Restore(snap)
		return res, nil
	}
	if p.event != nil && !p.event.IsAbort {
		res.Committed = true
		s.Steps++
	} else {
		s.W.Restore(snap)
	}
	// a process parked at Done takes no further spec steps: let Run return
	if !p.Finished && p.PC == "Done" {
		p.grant <- true
		if err := p.wait(); err != nil {
			return res, err
		}
	}
	return res, nil
}

// Stop terminates all archetype goroutines.
func (s *System) Stop() {
	for _, p := range s.Procs {
		if p.Actor != nil || p.Finished || p.grant == nil {
			continue
		}
		select {
		case p.grant <- false:
			select {
			case <-p.done:
			case <-time.After(5 * time.Second):
			}
		case <-time.After(5 * time.Second):
		}
		p.Finished = true
	}
}

// Local reads an archetype-local variable of p.
func (p *Proc) Local(res string) tla.Value {
	return p.ctx.IFace().ReadArchetypeResourceLocal(res)
}

// DumpState prints the current state (gate-based execution) as a TLA+ record of all spec variables.
func (s *System) DumpState(extra map[string]string) string {
	st := &State{G: s.W.G, P: make([]PState, len(s.Procs))}
	for i, p := range s.Procs {
		if p.Actor != nil {
			st.P[i] = PState{PC: p.PC, Label: p.PC, Locals: p.Actor.Locals}
			continue
		}
		m := map[string]tla.Value{}
		for _, l := range p.Locals {
			m[l.Res] = p.Local(l.Res)
		}
		if p.HasStack {
			m[".stack"] = p.Local(".stack")
		}
		st.P[i] = PState{PC: p.PC, Label: p.Label, Locals: m}
	}
	return s.Dump(st)
}

// Enabled lists the processes that may still take steps.
func (s *System) Live() []*Proc {
	var out []*Proc
	for _, p := range s.Procs {
		if !p.Finished {
			out = append(out, p)
		}
	}
	return out
}

// BiasOracle resolves choices at random with per-identifier biases: Bias maps an identifier
// prefix to the probability of picking option Pick[prefix] (the remaining mass is uniform).
type BiasOracle struct {
	R    *rand.Rand
	Bias map[string]float64
	Pick map[string]int // option index favoured; -1 = the last option
}

func (o *BiasOracle) Choose(p *Proc, id string, n uint) uint {
	for pre, pr := range o.Bias {
		if strings.HasPrefix(id, pre) {
			k := o.Pick[pre]
			if k < 0 {
				k = int(n) - 1
			}
			if k >= int(n) {
				break
			}
			if o.R.Float64() < pr {
				return uint(k)
			}
			if n == 1 {
				return 0
			}
			// uniform over the other options
			j := o.R.Intn(int(n) - 1)
			if j >= k {
				j++
			}
			return uint(j)
		}
	}
	return uint(o.R.Intn(int(n)))
}

// PhasedOracle alternates calm and stormy phases: the bias of the identifiers in Storm is Lo during calm
// phases and Hi during stormy ones (phases are counted in choices consulted), everything else is Inner's.
type PhasedOracle struct {
	Inner    *BiasOracle
	Storm    []string
	Lo, Hi   float64
	PhaseLen int
	calls    int
}

func (o *PhasedOracle) Choose(p *Proc, id string, n uint) uint {
	o.calls++
	v := o.Lo
	if (o.calls/o.PhaseLen)%2 == 1 {
		v = o.Hi
	}
	for _, k := range o.Storm {
		o.Inner.Bias[k] = v
	}
	return o.Inner.Choose(p, id, n)
}
