package mpexec

import (
	"fmt"

	"github.com/DistCompiler/pgo/distsys"
	"github.com/DistCompiler/pgo/distsys/tla"
)

// Res is a spec-state resource defined by closures; section atomicity is provided by the
// scheduler (world snapshot at grant, restore on abort), so Abort/PreCommit/Commit are no-ops.
type Res struct {
	Read  func(iface distsys.ArchetypeInterface) (tla.Value, error)
	Write func(iface distsys.ArchetypeInterface, v tla.Value) error
	Idx   func(iface distsys.ArchetypeInterface, i tla.Value) (distsys.ArchetypeResource, error)
}

var _ distsys.ArchetypeResource = &Res{}

func (r *Res) Abort(distsys.ArchetypeInterface) chan struct{} { return nil }
func (r *Res) PreCommit(distsys.ArchetypeInterface) chan error { return nil }
func (r *Res) Commit(distsys.ArchetypeInterface) chan struct{} { return nil }
func (r *Res) Close() error                                    { return nil }
func (r *Res) ReadValue(iface distsys.ArchetypeInterface) (tla.Value, error) {
	if r.Read == nil {
		panic("mpexec: read of a resource without read semantics")
	}
	return r.Read(iface)
}
func (r *Res) WriteValue(iface distsys.ArchetypeInterface, v tla.Value) error {
	if r.Write == nil {
		panic("mpexec: write of a resource without write semantics")
	}
	return r.Write(iface, v.StripVClock())
}
func (r *Res) Index(iface distsys.ArchetypeInterface, i tla.Value) (distsys.ArchetypeResource, error) {
	if r.Idx == nil {
		panic("mpexec: index of a leaf resource")
	}
	return r.Idx(iface, i)
}

var Abort = distsys.ErrCriticalSectionAborted

// Mapped builds a resource for `ref x[_]` mapped via a macro: every index yields a leaf whose
// read/write are the macro's read/write sections applied to the cell x[i].
func Mapped(read func(i tla.Value) (tla.Value, error), write func(i tla.Value, v tla.Value) error) *Res {
	return &Res{Idx: func(_ distsys.ArchetypeInterface, i tla.Value) (distsys.ArchetypeResource, error) {
		leaf := &Res{}
		if read != nil {
			leaf.Read = func(distsys.ArchetypeInterface) (tla.Value, error) { return read(i) }
		}
		if write != nil {
			leaf.Write = func(_ distsys.ArchetypeInterface, v tla.Value) error { return write(i, v) }
		}
		return leaf, nil
	}}
}

// Leaf builds a resource for `ref x` mapped via a macro.
func Leaf(read func() (tla.Value, error), write func(v tla.Value) error) *Res {
	r := &Res{}
	if read != nil {
		r.Read = func(distsys.ArchetypeInterface) (tla.Value, error) { return read() }
	}
	if write != nil {
		r.Write = func(_ distsys.ArchetypeInterface, v tla.Value) error { return write(v) }
	}
	return r
}

// PlainFn is an unmapped `ref x[_]` over a function-valued global whose cells are plain values.
func PlainFn(w *World, name string) *Res {
	return Mapped(
		func(i tla.Value) (tla.Value, error) { return w.G[name].(*Fn).Get(i).(*Val).V, nil },
		func(i tla.Value, v tla.Value) error { w.G[name].(*Fn).Set(i, &Val{v}); return nil })
}

// PlainVar is an unmapped `ref x` over a plain global.
func PlainVar(w *World, name string) *Res {
	return Leaf(func() (tla.Value, error) { return w.G[name].(*Val).V, nil },
		func(v tla.Value) error { w.G[name] = &Val{v}; return nil })
}

// BagLink is locksvc/raftkvs "ReliableLink"/"ReliableFIFOLink" over a bag:
//
//	read  { await BagCardinality($variable) > 0; with (readMsg \in BagToSet($variable)) { $variable := $variable (-) SetToBag({readMsg}); yield readMsg; } }
//	write { yield $variable (+) SetToBag({$value}); }
func BagLink(p *Proc, name string) *Res {
	w := p.Sys.W
	cell := func(i tla.Value) *Bag { return w.G[name].(*Fn).Get(i).(*Bag) }
	return Mapped(
		func(i tla.Value) (tla.Value, error) {
			b := cell(i)
			if len(b.Items) == 0 {
				return tla.Value{}, Abort
			}
			d := b.Distinct()
			m := d[p.EnvChoose(fmt.Sprintf("%s.read[%v]", name, i), uint(len(d)))]
			b.RemoveOne(m)
			return m, nil
		},
		func(i tla.Value, v tla.Value) error {
			b := cell(i)
			b.Items = append(b.Items, v)
			return nil
		})
}
