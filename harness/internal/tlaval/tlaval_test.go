package tlaval

import "testing"

func TestCanon(t *testing.T) {
	eq := [][2]string{
		{`<<1, 2>>`, `(1 :> 1 @@ 2 :> 2)`},
		{`[a |-> 1, b |-> "x"]`, `(("b") :> ("x") @@ ("a") :> (1))`},
		{`{3, 1, 2}`, `1..3`},
		{`<<>>`, `[x \in {} |-> x]`},
		{`(0 :> <<>> @@ 1 :> ((3 :> 1)))`, `<<>> @@ (1 :> (3 :> 1)) @@ (0 :> <<>>)`},
		{`[queue |-> <<>>, enabled |-> TRUE]`, `[enabled |-> TRUE, queue |-> [x \in {} |-> x]]`},
		{`{}`, `{}`},
		{`defaultInitValue`, ` defaultInitValue `},
		{`{"a", "b"}`, `{"b", "a", "a"}`},
	}
	for _, e := range eq {
		a, b := MustCanon(e[0]), MustCanon(e[1])
		if a != b {
			t.Errorf("%s vs %s: %s != %s", e[0], e[1], a, b)
		}
	}
	ne := [][2]string{{`<<1>>`, `{1}`}, {`1`, `"1"`}, {`<<1, 2>>`, `<<2, 1>>`}, {`-1`, `1`}}
	for _, e := range ne {
		if MustCanon(e[0]) == MustCanon(e[1]) {
			t.Errorf("%s == %s", e[0], e[1])
		}
	}
}
