// Package tlaval parses TLA+ values as printed by TLC and by distsys/tla's String() into one
// canonical form in the TLA+ semantic domain: tuples, records and functions are all functions
// (a function with domain 1..n equals the tuple), sets are sorted, intervals are expanded.
package tlaval

import (
	"fmt"
	"sort"
	"strconv"
	"strings"
)

type Kind int

const (
	Int Kind = iota
	Str
	Bool
	Model
	Set
	Fn
)

// Node is a parsed value. For Fn, Keys[i] maps to Vals[i], sorted by canonical key.
type Node struct {
	Kind Kind
	I    int64
	S    string
	B    bool
	Elts []*Node // Set
	Keys []*Node // Fn
	Vals []*Node // Fn
	canon string
}

type parser struct {
	s string
	i int
}

func Parse(s string) (n *Node, err error) {
	defer func() {
		if r := recover(); r != nil {
			err = fmt.Errorf("tlaval: %v at offset of %q", r, s)
		}
	}()
	p := &parser{s: s}
	n = p.expr()
	p.ws()
	if p.i != len(p.s) {
		panic(fmt.Sprintf("trailing input at %d", p.i))
	}
	return n, nil
}

func MustCanon(s string) string {
	n, err := Parse(s)
	if err != nil {
		panic(err)
	}
	return n.Canon()
}

func (p *parser) ws() {
	for p.i < len(p.s) && (p.s[p.i] == ' ' || p.s[p.i] == '\n' || p.s[p.i] == '\t' || p.s[p.i] == '\r') {
		p.i++
	}
}
func (p *parser) peek(t string) bool { p.ws(); return strings.HasPrefix(p.s[p.i:], t) }
func (p *parser) eat(t string) bool {
	if p.peek(t) {
		p.i += len(t)
		return true
	}
	return false
}
func (p *parser) must(t string) {
	if !p.eat(t) {
		panic(fmt.Sprintf("expected %q at %d", t, p.i))
	}
}

// expr := item ('@@' item)*
func (p *parser) expr() *Node {
	n := p.item()
	for p.eat("@@") {
		m := p.item()
		n = mergeFn(n, m)
	}
	return n
}

// item := rng (':>' rng)?
func (p *parser) item() *Node {
	a := p.rng()
	if p.eat(":>") {
		b := p.rng()
		return mkFn([]*Node{a}, []*Node{b})
	}
	return a
}

// rng := primary ('..' primary)?
func (p *parser) rng() *Node {
	a := p.primary()
	if p.eat("..") {
		b := p.primary()
		if a.Kind != Int || b.Kind != Int {
			panic("non-integer interval")
		}
		var elts []*Node
		for i := a.I; i <= b.I; i++ {
			elts = append(elts, &Node{Kind: Int, I: i})
		}
		return mkSet(elts)
	}
	return a
}

func (p *parser) list(close string) []*Node {
	var out []*Node
	if p.eat(close) {
		return out
	}
	for {
		out = append(out, p.expr())
		if p.eat(close) {
			return out
		}
		p.must(",")
	}
}

func (p *parser) primary() *Node {
	p.ws()
	if p.i >= len(p.s) {
		panic("unexpected end")
	}
	c := p.s[p.i]
	switch {
	case p.eat("<<"):
		el := p.list(">>")
		keys := make([]*Node, len(el))
		for i := range el {
			keys[i] = &Node{Kind: Int, I: int64(i + 1)}
		}
		return mkFn(keys, el)
	case p.eat("{"):
		return mkSet(p.list("}"))
	case p.eat("["):
		// the empty function as printed by distsys: [x \in {} |-> x]
		save := p.i
		if id := p.ident(); id != "" && p.eat("\\in") {
			p.expr()
			p.must("|->")
			p.expr()
			p.must("]")
			return mkFn(nil, nil)
		}
		p.i = save
		var keys, vals []*Node
		if p.eat("]") {
			return mkFn(nil, nil)
		}
		for {
			id := p.ident()
			if id == "" {
				panic(fmt.Sprintf("record field expected at %d", p.i))
			}
			p.must("|->")
			keys = append(keys, &Node{Kind: Str, S: id})
			vals = append(vals, p.expr())
			if p.eat("]") {
				break
			}
			p.must(",")
		}
		return mkFn(keys, vals)
	case p.eat("("):
		n := p.expr()
		p.must(")")
		return n
	case c == '"':
		j := p.i + 1
		for j < len(p.s) && p.s[j] != '"' {
			if p.s[j] == '\\' {
				j++
			}
			j++
		}
		raw := p.s[p.i : j+1]
		p.i = j + 1
		s, err := strconv.Unquote(raw)
		if err != nil {
			s = raw[1 : len(raw)-1]
		}
		return &Node{Kind: Str, S: s}
	case c == '-' || (c >= '0' && c <= '9'):
		j := p.i + 1
		for j < len(p.s) && p.s[j] >= '0' && p.s[j] <= '9' {
			j++
		}
		v, err := strconv.ParseInt(p.s[p.i:j], 10, 64)
		if err != nil {
			panic(err)
		}
		p.i = j
		return &Node{Kind: Int, I: v}
	}
	id := p.ident()
	switch id {
	case "":
		panic(fmt.Sprintf("unexpected %q at %d", c, p.i))
	case "TRUE":
		return &Node{Kind: Bool, B: true}
	case "FALSE":
		return &Node{Kind: Bool, B: false}
	}
	return &Node{Kind: Model, S: id}
}

func (p *parser) ident() string {
	p.ws()
	j := p.i
	for j < len(p.s) && (p.s[j] == '_' || (p.s[j] >= 'a' && p.s[j] <= 'z') || (p.s[j] >= 'A' && p.s[j] <= 'Z') || (j > p.i && p.s[j] >= '0' && p.s[j] <= '9')) {
		j++
	}
	id := p.s[p.i:j]
	p.i = j
	return id
}

func mkSet(elts []*Node) *Node {
	seen := map[string]bool{}
	var out []*Node
	for _, e := range elts {
		c := e.Canon()
		if !seen[c] {
			seen[c] = true
			out = append(out, e)
		}
	}
	sort.Slice(out, func(i, j int) bool { return out[i].Canon() < out[j].Canon() })
	return &Node{Kind: Set, Elts: out}
}

func mkFn(keys, vals []*Node) *Node {
	idx := make([]int, len(keys))
	for i := range idx {
		idx[i] = i
	}
	sort.SliceStable(idx, func(a, b int) bool { return keys[idx[a]].Canon() < keys[idx[b]].Canon() })
	n := &Node{Kind: Fn}
	for _, i := range idx {
		n.Keys = append(n.Keys, keys[i])
		n.Vals = append(n.Vals, vals[i])
	}
	return n
}

// mergeFn implements f @@ g (f wins on common keys)
func mergeFn(f, g *Node) *Node {
	if f.Kind != Fn || g.Kind != Fn {
		panic("@@ on non-functions")
	}
	keys := append([]*Node{}, f.Keys...)
	vals := append([]*Node{}, f.Vals...)
	have := map[string]bool{}
	for _, k := range f.Keys {
		have[k.Canon()] = true
	}
	for i, k := range g.Keys {
		if !have[k.Canon()] {
			keys = append(keys, k)
			vals = append(vals, g.Vals[i])
		}
	}
	return mkFn(keys, vals)
}

// Canon returns the canonical string of the value.
func (n *Node) Canon() string {
	if n.canon != "" {
		return n.canon
	}
	var s string
	switch n.Kind {
	case Int:
		s = "i" + strconv.FormatInt(n.I, 10)
	case Str:
		s = "s" + strconv.Quote(n.S)
	case Bool:
		if n.B {
			s = "bT"
		} else {
			s = "bF"
		}
	case Model:
		s = "m" + n.S
	case Set:
		parts := make([]string, len(n.Elts))
		for i, e := range n.Elts {
			parts[i] = e.Canon()
		}
		s = "{" + strings.Join(parts, ",") + "}"
	case Fn:
		parts := make([]string, len(n.Keys))
		for i := range n.Keys {
			parts[i] = n.Keys[i].Canon() + ":" + n.Vals[i].Canon()
		}
		s = "(" + strings.Join(parts, ",") + ")"
	}
	n.canon = s
	return s
}

// Field returns the value of record field name (nil if absent).
func (n *Node) Field(name string) *Node {
	if n.Kind != Fn {
		return nil
	}
	for i, k := range n.Keys {
		if k.Kind == Str && k.S == name {
			return n.Vals[i]
		}
	}
	return nil
}
