package sysdefs

import (
	"fmt"

	"github.com/DistCompiler/pgo/distsys"
	"github.com/DistCompiler/pgo/distsys/resources"
	"github.com/DistCompiler/pgo/distsys/tla"
	"github.com/DistCompiler/pgo/systems/nestedcrdtimpl"

	"verifharness/internal/mpexec"
)

// g3Cell is one cell of a SingleCellChannel-mapped variable: EMPTY_CELL (a model value of the spec's
// configuration, which no tla.Value can print) or a value.
type g3Cell struct {
	Full bool
	V    tla.Value
}

func (c *g3Cell) Clone() mpexec.Global { return &g3Cell{c.Full, c.V} }
func (c *g3Cell) TLA() string {
	if !c.Full {
		return "EMPTY_CELL"
	}
	return c.V.String()
}

// NestedCRDTCfg mirrors the CONSTANTS of systems/nestedcrdtimpl/NestedCRDTImpl.tla; NODE_IDS = 1..NumNodes,
// so RESOURCE_IDS = NumNodes+1 .. 2*NumNodes. ZERO_VALUE / COMBINE_FN / UPDATE_FN / VIEW_FN are instantiated
// with the grow-only counter of the shipped test (nestedcrdtimpl_test.go: makeGCounterResource); the table's
// spec_rewrites give TLC the same definitions.
type NestedCRDTCfg struct{ NumNodes, NumOps, BufferSize int }

func NestedCRDTImpl(c NestedCRDTCfg) *mpexec.System {
	n := c.NumNodes
	w := mpexec.NewWorld()
	network, in, out := mpexec.NewFn(), mpexec.NewFn(), mpexec.NewFn()
	for r := n + 1; r <= 2*n; r++ {
		network.Set(num(r), &mpexec.Seq{})
		in.Set(num(r), &g3Cell{})
		out.Set(num(r), &g3Cell{})
	}
	w.Set("network", network)
	w.Set("in", in)
	w.Set("out", out)

	str := tla.MakeString
	rec1 := func(tpe tla.Value) tla.Value { return tla.MakeRecord([]tla.RecordField{{Key: str("tpe"), Value: tpe}}) }
	lookup := func(f tla.Value, k tla.Value) (tla.Value, bool) { return f.AsFunction().Get(k) }
	// COMBINE_FN(a, b) == [k \in DOMAIN a \cup DOMAIN b |-> max of the entries present]
	combine := func(a, b tla.Value) tla.Value {
		dom := tla.ModuleUnionSymbol(tla.ModuleDomainSymbol(a), tla.ModuleDomainSymbol(b))
		if dom.AsSet().Len() == 0 {
			return tla.MakeRecord(nil)
		}
		return g3Canon(tla.MakeFunction([]tla.Value{dom}, func(args []tla.Value) tla.Value {
			x, okx := lookup(a, args[0])
			y, oky := lookup(b, args[0])
			switch {
			case okx && oky:
				if x.AsNumber() > y.AsNumber() {
					return x
				}
				return y
			case okx:
				return x
			}
			return y
		}))
	}
	// UPDATE_FN(s, st, v) == [k \in DOMAIN st \cup {s} |-> IF k = s THEN (IF s \in DOMAIN st THEN st[s] ELSE 0) + v ELSE st[k]]
	update := func(self, st, v tla.Value) tla.Value {
		dom := tla.ModuleUnionSymbol(tla.ModuleDomainSymbol(st), tla.MakeSet(self))
		return g3Canon(tla.MakeFunction([]tla.Value{dom}, func(args []tla.Value) tla.Value {
			old, ok := lookup(st, args[0])
			if args[0].Equal(self) {
				if !ok {
					old = num(0)
				}
				return tla.ModulePlusSymbol(old, v)
			}
			return old
		}))
	}
	// VIEW_FN(st) == sum of st[k] over k \in DOMAIN st
	view := func(st tla.Value) tla.Value {
		sum := num(0)
		it := st.AsFunction().Iterator()
		for !it.Done() {
			_, v, _ := it.Next()
			sum = tla.ModulePlusSymbol(sum, v)
		}
		return sum
	}

	s := &mpexec.System{Name: "nestedcrdtimpl", W: w, Consts: []distsys.MPCalContextConfigFn{
		resources.NestedArchetypeConstantDefs, // READ_REQ = "read_req", ... as shipped
		distsys.DefineConstantValue("NODE_IDS", tla.ModuleDotDotSymbol(num(1), num(n))),
		distsys.DefineConstantValue("BUFFER_SIZE", num(c.BufferSize)),
		distsys.DefineConstantValue("NUM_OPS", num(c.NumOps)),
		distsys.DefineConstantValue("ZERO_VALUE", tla.MakeRecord(nil)),
		distsys.DefineConstantOperator("COMBINE_FN", combine),
		distsys.DefineConstantOperator("UPDATE_FN", update),
		distsys.DefineConstantOperator("VIEW_FN", view),
	}}

	cell := func(name string, i tla.Value) *g3Cell { return w.G[name].(*mpexec.Fn).Get(i).(*g3Cell) }
	// mapping macro SingleCellChannel {
	//   read  { await $variable # EMPTY_CELL; with(v = $variable) { $variable := EMPTY_CELL; yield v; } }
	//   write { await $variable = EMPTY_CELL; yield $value; } }
	singleCell := func(name string) *mpexec.Res {
		return mpexec.Mapped(
			func(i tla.Value) (tla.Value, error) {
				c := cell(name, i)
				if !c.Full {
					return tla.Value{}, mpexec.Abort
				}
				v := c.V
				c.Full, c.V = false, tla.Value{}
				return v, nil
			},
			func(i tla.Value, v tla.Value) error {
				c := cell(name, i)
				if c.Full {
					return mpexec.Abort
				}
				c.Full, c.V = true, v
				return nil
			})
	}
	// mapping macro TCPChannel {
	//   read  { await Len($variable) > 0; with (msg = Head($variable)) { $variable := Tail($variable); yield msg; }; }
	//   write { await Len($variable) < BUFFER_SIZE; yield Append($variable, $value); } }
	queue := func(i tla.Value) *mpexec.Seq { return w.G["network"].(*mpexec.Fn).Get(i).(*mpexec.Seq) }
	tcpChannel := func() *mpexec.Res {
		return mpexec.Mapped(
			func(i tla.Value) (tla.Value, error) {
				q := queue(i)
				if len(q.Items) == 0 {
					return tla.Value{}, mpexec.Abort
				}
				m := q.Items[0]
				q.Items = append([]tla.Value(nil), q.Items[1:]...)
				return m, nil
			},
			func(i tla.Value, v tla.Value) error {
				q := queue(i)
				if len(q.Items) >= c.BufferSize {
					return mpexec.Abort
				}
				q.Items = append(append([]tla.Value(nil), q.Items...), v)
				return nil
			})
	}

	// fair process (Node \in NODE_IDS) -- model-only; it accesses in/out directly (no mapping macro)
	readReq, writeReq, abortReq, preCommitReq, commitReq := str("read_req"), str("write_req"), str("abort_req"), str("precommit_req"), str("commit_req")
	readAck, writeAck, abortAck, preCommitAck, commitAck := str("read_ack"), str("write_ack"), str("abort_ack"), str("precommit_ack"), str("commit_ack")
	nodeAct := func(a *mpexec.Actor, p *mpexec.Proc) bool {
		res := num(n + int(p.Self.AsNumber())) // RESOURCE_OF(self) == MAX_NODE_ID + self
		L := a.Locals
		opsLeft := func() bool { return L["opsDone"].AsNumber() < int32(c.NumOps) }
		incOps := func() { L["opsDone"] = tla.ModulePlusSymbol(L["opsDone"], num(1)) }
		send := func(v tla.Value, next string) bool {
			// in[RESOURCE_OF(self)] := v  (plain assignment: the process does not use the mapping macro)
			ic := cell("in", res)
			ic.Full, ic.V = true, v
			a.PC = next
			return true
		}
		// await out[RESOURCE_OF(self)] # EMPTY_CELL; assert out[RESOURCE_OF(self)].tpe = tpe; out[RESOURCE_OF(self)] := EMPTY_CELL;
		ack := func(tpe tla.Value) bool {
			oc := cell("out", res)
			if !oc.Full {
				return false
			}
			if !oc.V.ApplyFunction(str("tpe")).Equal(tpe) {
				panic(fmt.Sprintf("nestedcrdtimpl: Node(%v) at %s: assertion out[RESOURCE_OF(self)].tpe = %v fails on %v", p.Self, a.PC, tpe, oc.V))
			}
			oc.Full, oc.V = false, tla.Value{}
			return true
		}
		switch a.PC {
		case "criticalSection":
			switch p.EnvChoose("criticalSection.either", 5) {
			case 0:
				if L["shouldCommit"].AsBool() {
					return false
				}
				a.PC = "Done"
			case 1, 3:
				if !opsLeft() {
					return false
				}
				incOps()
				a.PC = "readReq"
			case 2:
				if !opsLeft() {
					return false
				}
				incOps()
				a.PC = "writeReq"
			case 4:
				if !L["shouldCommit"].AsBool() {
					return false
				}
				a.PC = "preCommitReq"
			}
			return true
		case "readReq":
			return send(rec1(readReq), "readAck")
		case "readAck":
			if !ack(readAck) {
				return false
			}
			L["shouldCommit"] = tla.ModuleTRUE
			a.PC = "criticalSection"
			return true
		case "abortReq":
			return send(rec1(abortReq), "abortAck")
		case "abortAck":
			if !ack(abortAck) {
				return false
			}
			L["writesPending"] = num(0)
			L["shouldCommit"] = tla.ModuleFALSE
			a.PC = "criticalSection"
			return true
		case "writeReq":
			L["writesPending"] = tla.ModulePlusSymbol(L["writesPending"], num(1))
			return send(tla.MakeRecord([]tla.RecordField{{Key: str("tpe"), Value: writeReq}, {Key: str("value"), Value: num(1)}}), "writeAck")
		case "writeAck":
			if !ack(writeAck) {
				return false
			}
			L["shouldCommit"] = tla.ModuleTRUE
			a.PC = "criticalSection"
			return true
		case "preCommitReq":
			return send(rec1(preCommitReq), "preCommitAck")
		case "preCommitAck":
			// all awaits of the step are evaluated before any effect: the leading await first (a plain disabled
			// step consults no choice), then the either, whose first branch has an await of its own
			if !cell("out", res).Full {
				return false
			}
			br := p.EnvChoose("preCommitAck.either", 2)
			if br == 0 && !opsLeft() {
				return false
			}
			if !ack(preCommitAck) {
				return false
			}
			if br == 0 {
				incOps()
				a.PC = "abortReq"
			} else {
				a.PC = "commitReq"
			}
			return true
		case "commitReq":
			return send(rec1(commitReq), "commitAck")
		case "commitAck":
			if !ack(commitAck) {
				return false
			}
			L["writesAchieved"] = tla.ModulePlusSymbol(L["writesAchieved"], L["writesPending"])
			L["writesPending"] = num(0)
			L["shouldCommit"] = tla.ModuleFALSE
			a.PC = "criticalSection"
			return true
		}
		return false
	}
	for i := 1; i <= n; i++ {
		s.Procs = append(s.Procs, &mpexec.Proc{Group: "Node", Self: num(i), Actor: &mpexec.Actor{PC: "criticalSection",
			Locals: map[string]tla.Value{"opsDone": num(0), "writesPending": num(0), "writesAchieved": num(0), "shouldCommit": tla.ModuleFALSE},
			Act:    nodeAct}})
	}
	// fair process (CRDTResource \in RESOURCE_IDS) == instance ACRDTResource(ref in[_], ref out[_], ref network[_],
	//     RESOURCE_IDS \ {CRDTResource}, TRUE)  mapping network[_] via TCPChannel, in[_] / out[_] via SingleCellChannel
	for r := n + 1; r <= 2*n; r++ {
		var ps []tla.Value
		for x := n + 1; x <= 2*n; x++ {
			if x != r {
				ps = append(ps, num(x))
			}
		}
		peers := tla.MakeSet(ps...)
		s.Procs = append(s.Procs, &mpexec.Proc{Group: "CRDTResource", Self: num(r), Arch: nestedcrdtimpl.ACRDTResource,
			Locals: []mpexec.Local{
				{Spec: "remainingPeersToUpdate", Res: "ACRDTResource.remainingPeersToUpdate"},
				{Spec: "req", Res: "ACRDTResource.req"},
				{Spec: "criticalSectionInProgress", Res: "ACRDTResource.criticalSectionInProgress"},
				{Spec: "state", Res: "ACRDTResource.state"},
				{Spec: "readState", Res: "ACRDTResource.readState"},
			},
			// `peers` and `timer` are ref parameters bound to expressions: pcal turns them into process-local
			// variables that are never assigned
			ConstLocals: map[string]string{"peers": peers.String(), "timer": "TRUE"},
			Config: func(p *mpexec.Proc) []distsys.MPCalContextConfigFn {
				return []distsys.MPCalContextConfigFn{
					distsys.EnsureArchetypeRefParam("in", singleCell("in")),
					distsys.EnsureArchetypeRefParam("out", singleCell("out")),
					distsys.EnsureArchetypeRefParam("network", tcpChannel()),
					distsys.EnsureArchetypeRefParam("peers", mpexec.Leaf(func() (tla.Value, error) { return peers, nil }, nil)),
					distsys.EnsureArchetypeRefParam("timer", mpexec.Leaf(func() (tla.Value, error) { return tla.ModuleTRUE, nil }, nil)),
				}
			}})
	}
	return s
}

func init() {
	Register("nestedcrdtimpl", func(n int, args map[string]int) *mpexec.System {
		return NestedCRDTImpl(NestedCRDTCfg{NumNodes: n, NumOps: Arg(args, "ops", 2), BufferSize: Arg(args, "buffer", 1)})
	})
}
