package sysdefs

import (
	"github.com/DistCompiler/pgo/distsys"
	"github.com/DistCompiler/pgo/distsys/tla"
	bug2 "github.com/DistCompiler/pgo/test/files/general/bug2_124.tla.gotests"

	"verifharness/internal/mpexec"
)

// Bug2_124 builds pgo/test/files/general/bug2_124.tla (module bug2; PlusCal and TLA+ translation in the
// .expectpcal file):
//
//	global   network = [id \in 1..NUM_NODES, typ \in 1..4 |-> <<>>]   (domain: pairs <<id, typ>>)
//	EchoServer \in 1..NUM_NODES == AEchoServer(ref network[_] via TCPChannel), local msg
//
// In the shipped initial state every queue is empty, so every server blocks at rcvMsg for ever and
// rcvMsg/sndMsg never commit. seed > 0 starts from the initial state of the table's named rewrite
// (constant ZSEED): network[<<1, 1>>] = [k \in 1..ZSEED |-> [from |-> (k % NUM_NODES) + 1, body |-> k,
// typ |-> (k % 2) + 1]], every other queue empty. seed = 0 is the shipped initial state.
func Bug2_124(numNodes, bufferSize, seed int) *mpexec.System {
	w := mpexec.NewWorld()
	network := mpexec.NewFn()
	for id := 1; id <= numNodes; id++ {
		for typ := 1; typ <= 4; typ++ {
			q := &mpexec.Seq{}
			if id == 1 && typ == 1 {
				for k := 1; k <= seed; k++ {
					q.Items = append(q.Items, tla.MakeRecord([]tla.RecordField{
						{Key: tla.MakeString("from"), Value: num(k%numNodes + 1)},
						{Key: tla.MakeString("body"), Value: num(k)},
						{Key: tla.MakeString("typ"), Value: num(k%2 + 1)}}))
				}
			}
			network.Set(tla.MakeTuple(num(id), num(typ)), q)
		}
	}
	w.Set("network", network)
	s := &mpexec.System{Name: "bug2_124", W: w, Consts: []distsys.MPCalContextConfigFn{
		distsys.DefineConstantValue("NUM_NODES", num(numNodes)),
		distsys.DefineConstantValue("BUFFER_SIZE", num(bufferSize)),
	}}
	for i := 1; i <= numNodes; i++ {
		s.Procs = append(s.Procs, &mpexec.Proc{Group: "EchoServer", Self: num(i), Arch: bug2.AEchoServer,
			Locals: []mpexec.Local{{Spec: "msg", Res: "AEchoServer.msg"}},
			Config: func(p *mpexec.Proc) []distsys.MPCalContextConfigFn {
				return []distsys.MPCalContextConfigFn{
					distsys.EnsureArchetypeRefParam("net", g2TCPChannel(w, "network", bufferSize)), // TCPChannel, see dqueue.go
				}
			}})
	}
	return s
}

func init() {
	// n = NUM_NODES; args: buffer (BUFFER_SIZE, default 2), seed (ZSEED: messages initially queued at <<1, 1>>, default 0)
	Register("bug2_124", func(n int, args map[string]int) *mpexec.System {
		return Bug2_124(n, Arg(args, "buffer", 2), Arg(args, "seed", 0))
	})
}
