package sysdefs

import (
	"fmt"

	"github.com/DistCompiler/pgo/distsys"
	"github.com/DistCompiler/pgo/distsys/tla"
	"github.com/DistCompiler/pgo/systems/loadbalancer"

	"verifharness/internal/mpexec"
)

// Loadbalancer builds systems/loadbalancer/load_balancer.tla (pcal's translation of the checked-in
// PlusCal) with LoadBalancerId = 0, GET_PAGE = "GET_PAGE", WEB_PAGE = "WEB_PAGE":
//
//	globals  network = [id \in 0..(NUM_NODES-1) |-> <<>>], in = 0, out = 0, fs = [f \in {in} |-> WEB_PAGE]
//	LoadBalancer = LoadBalancerId (single process: msg, next are plain variables)
//	             == ALoadBalancer(ref network[_] via TCPChannel)
//	Servers \in 1..NUM_SERVERS == AServer(ref network[_] via TCPChannel, ref fs[_] via WebPages)
//	Client \in (NUM_SERVERS+1)..(NUM_SERVERS+NUM_CLIENTS) == AClient(ref network[_] via TCPChannel, ref in, ref out)
func Loadbalancer(numServers, numClients, bufferSize int) *mpexec.System {
	const lbID = 0
	getPage, webPage := tla.MakeString("GET_PAGE"), tla.MakeString("WEB_PAGE")
	w := mpexec.NewWorld()
	network := mpexec.NewFn()
	for id := 0; id <= numServers+numClients; id++ { // 0 .. NUM_NODES-1
		network.Set(num(id), &mpexec.Seq{})
	}
	fs := mpexec.NewFn()
	fs.Set(num(0), &mpexec.Val{V: webPage}) // [f \in {in} |-> WEB_PAGE] with in = 0
	w.Set("network", network)
	w.Set("in", &mpexec.Val{V: num(0)})
	w.Set("out", &mpexec.Val{V: num(0)})
	w.Set("fs", fs)
	s := &mpexec.System{Name: "loadbalancer", W: w, Consts: []distsys.MPCalContextConfigFn{
		distsys.DefineConstantValue("BUFFER_SIZE", num(bufferSize)),
		distsys.DefineConstantValue("LoadBalancerId", num(lbID)),
		distsys.DefineConstantValue("NUM_SERVERS", num(numServers)),
		distsys.DefineConstantValue("NUM_CLIENTS", num(numClients)),
		distsys.DefineConstantValue("GET_PAGE", getPage),
		distsys.DefineConstantValue("WEB_PAGE", webPage),
	}}
	// mapping macro WebPages { read { yield WEB_PAGE; } write { assert(FALSE); yield $value; } }
	webPages := func() *mpexec.Res {
		return mpexec.Mapped(
			func(i tla.Value) (tla.Value, error) { return webPage, nil },
			func(i tla.Value, v tla.Value) error {
				return fmt.Errorf("%w: WebPages write: FALSE", distsys.ErrAssertionFailed)
			})
	}
	mailboxes := func() *mpexec.Res { return g2TCPChannel(w, "network", bufferSize) }

	s.Procs = append(s.Procs, &mpexec.Proc{Group: "LoadBalancer", Self: num(lbID), Arch: loadbalancer.ALoadBalancer, Single: true,
		Locals: []mpexec.Local{{Spec: "msg", Res: "ALoadBalancer.msg"}, {Spec: "next", Res: "ALoadBalancer.next"}},
		Config: func(p *mpexec.Proc) []distsys.MPCalContextConfigFn {
			return []distsys.MPCalContextConfigFn{distsys.EnsureArchetypeRefParam("mailboxes", mailboxes())}
		}})
	for i := 1; i <= numServers; i++ {
		s.Procs = append(s.Procs, &mpexec.Proc{Group: "Servers", Self: num(i), Arch: loadbalancer.AServer,
			Locals: []mpexec.Local{{Spec: "msg0", Res: "AServer.msg"}},
			Config: func(p *mpexec.Proc) []distsys.MPCalContextConfigFn {
				return []distsys.MPCalContextConfigFn{
					distsys.EnsureArchetypeRefParam("mailboxes", mailboxes()),
					distsys.EnsureArchetypeRefParam("file_system", webPages()),
				}
			}})
	}
	for i := numServers + 1; i <= numServers+numClients; i++ {
		s.Procs = append(s.Procs, &mpexec.Proc{Group: "Client", Self: num(i), Arch: loadbalancer.AClient,
			Locals: []mpexec.Local{{Spec: "req", Res: "AClient.req"}, {Spec: "resp", Res: "AClient.resp"}},
			Config: func(p *mpexec.Proc) []distsys.MPCalContextConfigFn {
				return []distsys.MPCalContextConfigFn{
					distsys.EnsureArchetypeRefParam("mailboxes", mailboxes()),
					distsys.EnsureArchetypeRefParam("instream", mpexec.PlainVar(w, "in")),
					distsys.EnsureArchetypeRefParam("outstream", mpexec.PlainVar(w, "out")),
				}
			}})
	}
	return s
}

func init() {
	// n = NUM_SERVERS; args: clients (NUM_CLIENTS, default 1), buffer (BUFFER_SIZE, default 2)
	Register("loadbalancer", func(n int, args map[string]int) *mpexec.System {
		return Loadbalancer(n, Arg(args, "clients", 1), Arg(args, "buffer", 2))
	})
}
