package sysdefs

import (
	"fmt"

	"github.com/DistCompiler/pgo/distsys"
	"github.com/DistCompiler/pgo/distsys/tla"
	"github.com/DistCompiler/pgo/systems/proxy"

	"verifharness/internal/mpexec"
)

// ProxyCfg mirrors the CONSTANTS of systems/proxy/proxy.tla; PerfectFD selects the mapping of fd
// (the shipped MPCal instantiates PracticalFD; PerfectFD is the commented alternative under which
// the invariant ProxyOK holds).
type ProxyCfg struct {
	NumServers, NumClients int
	ExploreFail, ClientRun bool
	PerfectFD              bool
}

// Proxy builds systems/proxy/proxy.tla (pcal's translation of the checked-in PlusCal):
//
//	globals  network = [id \in NODE_SET, typ \in MSG_TYP_SET |-> [queue |-> <<>>, enabled |-> TRUE]]
//	         fd = [id \in NODE_SET |-> FALSE], output = <<>>
//	Proxy = ProxyID (single process: locals are plain variables), Server \in SERVER_SET, Client \in CLIENT_SET
//
// `input` is the PlusCal local the translation creates for the value `0` passed to AClient's `ref input`
// and mapped via Requests; in the Go it is a ref parameter, so it is kept in the world as a function over
// CLIENT_SET (which prints exactly like the process-local variable input = [self \in CLIENT_SET |-> 0]).
func Proxy(c ProxyCfg) *mpexec.System {
	nodes := c.NumServers + c.NumClients + 1
	proxyID := nodes
	w := mpexec.NewWorld()
	network := mpexec.NewFn()
	for id := 1; id <= nodes; id++ {
		for typ := 1; typ <= 4; typ++ {
			r := mpexec.NewRec()
			r.Set("queue", &mpexec.Seq{})
			r.Set("enabled", &mpexec.Val{V: tla.ModuleTRUE})
			network.Set(tla.MakeTuple(num(id), num(typ)), r)
		}
	}
	fd := mpexec.NewFn()
	for id := 1; id <= nodes; id++ {
		fd.Set(num(id), &mpexec.Val{V: tla.ModuleFALSE})
	}
	input := mpexec.NewFn()
	for id := c.NumServers + 1; id <= c.NumServers+c.NumClients; id++ {
		input.Set(num(id), &mpexec.Val{V: num(0)})
	}
	w.Set("network", network)
	w.Set("fd", fd)
	w.Set("output", &mpexec.Val{V: tla.MakeTuple()})
	w.Set("input", input)

	s := &mpexec.System{Name: "proxy", W: w, Consts: []distsys.MPCalContextConfigFn{
		distsys.DefineConstantValue("NUM_SERVERS", num(c.NumServers)),
		distsys.DefineConstantValue("NUM_CLIENTS", num(c.NumClients)),
		distsys.DefineConstantValue("EXPLORE_FAIL", tla.MakeBool(c.ExploreFail)),
		distsys.DefineConstantValue("CLIENT_RUN", tla.MakeBool(c.ClientRun)),
	}}

	cell := func(i tla.Value) *mpexec.Rec { return w.G["network"].(*mpexec.Fn).Get(i).(*mpexec.Rec) }
	enabled := func(r *mpexec.Rec) bool { return r.F["enabled"].(*mpexec.Val).V.AsBool() }

	// mapping macro ReliableFIFOLink {
	//   read  { assert $variable.enabled; await Len($variable.queue) > 0;
	//           with (readMsg = Head($variable.queue)) {
	//             $variable := [queue |-> Tail($variable.queue), enabled |-> $variable.enabled]; yield readMsg; }; }
	//   write { await $variable.enabled;
	//           yield [queue |-> Append($variable.queue, $value), enabled |-> $variable.enabled]; } }
	link := func(p *mpexec.Proc) *mpexec.Res {
		return mpexec.Mapped(
			func(i tla.Value) (tla.Value, error) {
				r := cell(i)
				if !enabled(r) {
					return tla.Value{}, fmt.Errorf("%w: ReliableFIFOLink read: $variable.enabled (network[%v])", distsys.ErrAssertionFailed, i)
				}
				q := r.F["queue"].(*mpexec.Seq)
				if len(q.Items) == 0 {
					return tla.Value{}, mpexec.Abort
				}
				m := q.Items[0]
				r.Set("queue", &mpexec.Seq{Items: append([]tla.Value(nil), q.Items[1:]...)})
				return m, nil
			},
			func(i tla.Value, v tla.Value) error {
				r := cell(i)
				if !enabled(r) {
					return mpexec.Abort
				}
				q := r.F["queue"].(*mpexec.Seq)
				r.Set("queue", &mpexec.Seq{Items: append(append([]tla.Value(nil), q.Items...), v)})
				return nil
			})
	}
	// mapping macro NetworkToggle { read { yield $variable.enabled; }
	//                               write { yield [queue |-> $variable.queue, enabled |-> $value]; } }
	toggle := func(p *mpexec.Proc) *mpexec.Res {
		return mpexec.Mapped(
			func(i tla.Value) (tla.Value, error) { return cell(i).F["enabled"].(*mpexec.Val).V, nil },
			func(i tla.Value, v tla.Value) error { cell(i).Set("enabled", &mpexec.Val{V: v}); return nil })
	}
	fdCell := func(i tla.Value) tla.Value { return w.G["fd"].(*mpexec.Fn).Get(i).(*mpexec.Val).V }
	fdWrite := func(i tla.Value, v tla.Value) error { w.G["fd"].(*mpexec.Fn).Set(i, &mpexec.Val{V: v}); return nil }
	// mapping macro PerfectFD { read { yield $variable; } write { yield $value; } }
	perfectFD := func(p *mpexec.Proc) *mpexec.Res {
		return mpexec.Mapped(func(i tla.Value) (tla.Value, error) { return fdCell(i), nil }, fdWrite)
	}
	// mapping macro PracticalFD {
	//   read  { if ($variable = FALSE) { either { yield TRUE; } or { yield FALSE; }; } else { yield $variable; }; }
	//   write { yield $value; } }
	practicalFD := func(p *mpexec.Proc) *mpexec.Res {
		return mpexec.Mapped(func(i tla.Value) (tla.Value, error) {
			cur := fdCell(i)
			if cur.Equal(tla.ModuleFALSE) {
				return tla.MakeBool(p.EnvChoose(fmt.Sprintf("fd[%v]", i), 2) == 0), nil
			}
			return cur, nil
		}, fdWrite)
	}
	fdRes := practicalFD
	if c.PerfectFD {
		fdRes = perfectFD
	}
	// mapping macro Requests {
	//   read  { with (value = $variable) { $variable := $variable + 1; yield value; } }
	//   write { assert(FALSE); yield $value; } }
	requests := func(p *mpexec.Proc) *mpexec.Res {
		return mpexec.Leaf(
			func() (tla.Value, error) {
				f := w.G["input"].(*mpexec.Fn)
				value := f.Get(p.Self).(*mpexec.Val).V
				f.Set(p.Self, &mpexec.Val{V: tla.ModulePlusSymbol(value, num(1))})
				return value, nil
			},
			func(v tla.Value) error {
				return fmt.Errorf("%w: Requests write: FALSE", distsys.ErrAssertionFailed)
			})
	}

	s.Procs = append(s.Procs, &mpexec.Proc{Group: "Proxy", Self: num(proxyID), Arch: proxy.AProxy, Single: true,
		Locals: []mpexec.Local{{Spec: "msg", Res: "AProxy.msg"}, {Spec: "proxyMsg", Res: "AProxy.proxyMsg"},
			{Spec: "idx", Res: "AProxy.idx"}, {Spec: "resp", Res: "AProxy.resp"}, {Spec: "proxyResp", Res: "AProxy.proxyResp"}},
		Config: func(p *mpexec.Proc) []distsys.MPCalContextConfigFn {
			return []distsys.MPCalContextConfigFn{
				distsys.EnsureArchetypeRefParam("net", link(p)),
				distsys.EnsureArchetypeRefParam("fd", fdRes(p)),
			}
		}})
	for i := 1; i <= c.NumServers; i++ {
		s.Procs = append(s.Procs, &mpexec.Proc{Group: "Server", Self: num(i), Arch: proxy.AServer,
			Locals: []mpexec.Local{{Spec: "msg0", Res: "AServer.msg"}, {Spec: "resp0", Res: "AServer.resp"}},
			Config: func(p *mpexec.Proc) []distsys.MPCalContextConfigFn {
				return []distsys.MPCalContextConfigFn{
					distsys.EnsureArchetypeRefParam("net", link(p)),
					distsys.EnsureArchetypeRefParam("netEnabled", toggle(p)),
					distsys.EnsureArchetypeRefParam("fd", fdRes(p)),
				}
			}})
	}
	for i := c.NumServers + 1; i <= c.NumServers+c.NumClients; i++ {
		s.Procs = append(s.Procs, &mpexec.Proc{Group: "Client", Self: num(i), Arch: proxy.AClient,
			Locals: []mpexec.Local{{Spec: "req", Res: "AClient.req"}, {Spec: "resp1", Res: "AClient.resp"}, {Spec: "reqId", Res: "AClient.reqId"}},
			Config: func(p *mpexec.Proc) []distsys.MPCalContextConfigFn {
				return []distsys.MPCalContextConfigFn{
					distsys.EnsureArchetypeRefParam("net", link(p)),
					distsys.EnsureArchetypeRefParam("input", requests(p)),
					distsys.EnsureArchetypeRefParam("output", mpexec.PlainVar(w, "output")),
				}
			}})
	}
	return s
}

func init() {
	// n = NUM_SERVERS; args: clients (1), fail (EXPLORE_FAIL, 1), run (CLIENT_RUN, 1), fd (0 = PracticalFD as shipped, 1 = PerfectFD)
	Register("proxy", func(n int, args map[string]int) *mpexec.System {
		return Proxy(ProxyCfg{NumServers: n, NumClients: Arg(args, "clients", 1), ExploreFail: Arg(args, "fail", 1) == 1,
			ClientRun: Arg(args, "run", 1) == 1, PerfectFD: Arg(args, "fd", 0) == 1})
	})
}
