package sysdefs

import (
	"github.com/DistCompiler/pgo/distsys"
	"github.com/DistCompiler/pgo/distsys/tla"
	hello "github.com/DistCompiler/pgo/test/files/general/hello.tla.gotests"

	"verifharness/internal/mpexec"
)

// Hello builds pgo/test/files/general/hello.tla: one process Hello = 1 running AHello(ref out),
// `out` unmapped. The higher-order constant MK_HELLO(_,_) is string concatenation (the checked-in
// PlusCal expansion fixes HELLO == "hello"; the table defines MK_HELLO(l, r) == l \o r for TLC).
func Hello() *mpexec.System {
	w := mpexec.NewWorld()
	w.Set("out", &mpexec.Val{V: tla.ModuledefaultInitValue})
	s := &mpexec.System{Name: "hello", W: w,
		Consts: []distsys.MPCalContextConfigFn{
			distsys.DefineConstantOperator("MK_HELLO", func(l, r tla.Value) tla.Value {
				return tla.MakeString(l.AsString() + r.AsString())
			})}}
	s.Procs = append(s.Procs, &mpexec.Proc{Group: "Hello", Self: tla.MakeNumber(1), Arch: hello.AHello,
		Config: func(p *mpexec.Proc) []distsys.MPCalContextConfigFn {
			return []distsys.MPCalContextConfigFn{distsys.EnsureArchetypeRefParam("out", mpexec.PlainVar(p.Sys.W, "out"))}
		}})
	return s
}

func init() {
	Register("hello", func(n int, args map[string]int) *mpexec.System { return Hello() })
}
