package sysdefs

import (
	"fmt"
	"strings"

	"github.com/DistCompiler/pgo/distsys"
	"github.com/DistCompiler/pgo/distsys/tla"
	procedurespaghetti "github.com/DistCompiler/pgo/test/files/general/ProcedureSpaghetti.tla.gotests"

	"verifharness/internal/mpexec"
)

// ProcedureSpaghetti builds pgo/test/files/general/ProcedureSpaghetti.tla.expectpcal as repaired by
// the table's named rewrites (systems/ProcedureSpaghetti.json: initial values, unique labels per
// procedure clone, the clones' parameter name, the parameterless tail call).
//
// PGo expands procedures with ref parameters into one clone per distinct ref argument:
//
//	clone 0: Proc10(b)  variables c0, Proc20  -- V1 through mapping macro M   (Pross1 = 1)
//	clone 1: Proc11(b0) variables c1, Proc21  -- V1 unmapped                  (Pross2 = 2, Pross4's second call)
//	clone 2: Proc12(b1) variables c2, Proc22  -- V2                           (Pross3 = 3, Pross3Bis = 33)
//	clone 3: Proc13(b2) variables c3, Proc23  -- Pross4's local c             (Pross4's first call)
//
// The generated Go has ONE Proc1/Proc2 (variables Proc1.a/.b/.c, Proc2.a_) and ONE Arch1; PCName
// and StackProj translate its labels and frames to the clone the process uses. Pross4 and Pross5 are
// plain PlusCal processes of the MPCal source (no archetype, no Go): model-only actors.
func ProcedureSpaghetti() *mpexec.System {
	w := mpexec.NewWorld()
	w.Set("V1", &mpexec.Val{V: num(0)})
	w.Set("V2", &mpexec.Val{V: num(0)})
	w.Set("c", &mpexec.Val{V: num(0)}) // process-level variable of the single process Pross4 (plain in the translation)
	s := &mpexec.System{Name: "ProcedureSpaghetti", W: w}
	getN := func(name string) tla.Value { return w.G[name].(*mpexec.Val).V }
	setN := func(name string, v tla.Value) { w.G[name] = &mpexec.Val{V: v} }

	bName := []string{"b", "b0", "b1", "b2"}
	cName := []string{"c0", "c1", "c2", "c3"}

	// mapping macro M { read { yield $variable + 1; } write { yield $value - 1; } } over V1
	mappedV1 := func() *mpexec.Res {
		return mpexec.Leaf(
			func() (tla.Value, error) { return tla.ModulePlusSymbol(getN("V1"), num(1)), nil },
			func(v tla.Value) error { setN("V1", tla.ModuleMinusSymbol(v, num(1))); return nil })
	}

	archProc := func(self, clone int, fName string, fVal int, e func(p *mpexec.Proc) *mpexec.Res) *mpexec.Proc {
		suffix := fmt.Sprintf("_%d", clone)
		pcName := func(goLabel string) string {
			switch goLabel {
			case "Arch1.Arch1lbl":
				return fmt.Sprintf("Arch1lbl_%d", self)
			case "Proc1.Proc1lbl1", "Proc1.Proc1lbl2", "Proc2.Proc2lbl1":
				return goLabel[strings.IndexByte(goLabel, '.')+1:] + suffix
			case "Arch1.Done":
				return "Done"
			}
			return goLabel // anything else (RecursiveProcRef.*, *.Error) is not a pc value of this process in the spec
		}
		locals := []mpexec.Local{
			{Spec: fName, Res: "Arch1.f"},
			{Spec: bName[clone], Res: "Proc1.b"}, {Spec: cName[clone], Res: "Proc1.c"},
			{Spec: "", Res: "Proc1.a"}, {Spec: "", Res: "Proc2.a_"}, // names of the resources passed by ref: Go only
		}
		ensure := []string{"Proc1.a", "Proc1.b", "Proc1.c", "Proc2.a_"}
		// the variables of the clones this process never calls exist for every self in ProcSet and keep
		// defaultInitValue: constant, function-shaped, no Go counterpart
		for j := range bName {
			if j != clone {
				locals = append(locals, mpexec.Local{Spec: bName[j], Res: "unused." + bName[j]}, mpexec.Local{Spec: cName[j], Res: "unused." + cName[j]})
				ensure = append(ensure, "unused."+bName[j], "unused."+cName[j])
			}
		}
		return &mpexec.Proc{Group: fmt.Sprintf("Pross%d", self), Self: num(self), Single: true,
			Arch: ensureLocals(procedurespaghetti.Arch1, ensure...), Locals: locals, PCName: pcName, HasStack: true,
			StackProj: func(stack tla.Value) string {
				var fs []string
				for _, fr := range stackFrames(stack) {
					ret := pcName(frameGet(fr, ".pc").AsString())
					switch {
					case frameHas(fr, "Proc1.b"): // frame of a call of Proc1: saved parameter b and local c (and the ref name a, Go only)
						fs = append(fs, fmt.Sprintf("[procedure |-> \"Proc1%d\", pc |-> %q, %s |-> %s, %s |-> %s]", clone, ret,
							cName[clone], frameGet(fr, "Proc1.c").String(), bName[clone], frameGet(fr, "Proc1.b").String()))
					case frameHas(fr, "Proc2.a_"):
						fs = append(fs, fmt.Sprintf("[procedure |-> \"Proc2%d\", pc |-> %q]", clone, ret))
					default:
						fs = append(fs, "[procedure |-> \"?\", unexpected |-> "+fr.String()+"]")
					}
				}
				return "<<" + strings.Join(fs, ", ") + ">>"
			},
			Config: func(p *mpexec.Proc) []distsys.MPCalContextConfigFn {
				return []distsys.MPCalContextConfigFn{
					distsys.EnsureArchetypeRefParam("e", e(p)),
					distsys.EnsureArchetypeValueParam("f", num(fVal)),
				}
			}}
	}

	// ---- model-only processes ----
	str := tla.MakeString
	div := tla.Value{} // defaultInitValue
	frame := func(fields ...tla.RecordField) tla.Value { return tla.MakeRecord(fields) }
	push := func(a *mpexec.Actor, fr tla.Value) {
		a.Locals["stack"] = tla.ModuleOSymbol(tla.MakeTuple(fr), a.Locals["stack"])
	}
	// ret: pc' = Head(stack).pc, restore the listed saved variables, stack' = Tail(stack)
	ret := func(a *mpexec.Actor, restore ...string) {
		head := tla.ModuleHead(a.Locals["stack"])
		a.PC = head.ApplyFunction(str("pc")).AsString()
		for _, n := range restore {
			a.Locals[n] = head.ApplyFunction(str(n))
		}
		a.Locals["stack"] = tla.ModuleTail(a.Locals["stack"])
	}
	actorLocals := func() map[string]tla.Value {
		m := map[string]tla.Value{"stack": tla.MakeTuple()}
		for j := range bName {
			m[bName[j]], m[cName[j]] = div, div
		}
		return m
	}
	pross4 := &mpexec.Actor{PC: "Prosslbl1", Locals: actorLocals(), Act: func(a *mpexec.Actor, p *mpexec.Proc) bool {
		switch a.PC {
		case "Prosslbl1": // call Proc13(10)
			push(a, frame(tla.RecordField{Key: str("procedure"), Value: str("Proc13")}, tla.RecordField{Key: str("pc"), Value: str("Prosslbl2")},
				tla.RecordField{Key: str("c3"), Value: a.Locals["c3"]}, tla.RecordField{Key: str("b2"), Value: a.Locals["b2"]}))
			a.Locals["b2"] = num(10)
			a.Locals["c3"] = div
			a.PC = "Proc1lbl1_3"
		case "Proc1lbl1_3": // call Proc23()
			push(a, frame(tla.RecordField{Key: str("procedure"), Value: str("Proc23")}, tla.RecordField{Key: str("pc"), Value: str("Proc1lbl2_3")}))
			a.PC = "Proc2lbl1_3"
		case "Proc2lbl1_3": // c := c + 1; return
			setN("c", tla.ModulePlusSymbol(getN("c"), num(1)))
			ret(a)
		case "Proc1lbl2_3": // c := c + b2; return
			setN("c", tla.ModulePlusSymbol(getN("c"), a.Locals["b2"]))
			ret(a, "c3", "b2")
		case "Prosslbl2": // call Proc11(20)
			push(a, frame(tla.RecordField{Key: str("procedure"), Value: str("Proc11")}, tla.RecordField{Key: str("pc"), Value: str("Done")},
				tla.RecordField{Key: str("c1"), Value: a.Locals["c1"]}, tla.RecordField{Key: str("b0"), Value: a.Locals["b0"]}))
			a.Locals["b0"] = num(20)
			a.Locals["c1"] = div
			a.PC = "Proc1lbl1_1"
		case "Proc1lbl1_1": // call Proc21()
			push(a, frame(tla.RecordField{Key: str("procedure"), Value: str("Proc21")}, tla.RecordField{Key: str("pc"), Value: str("Proc1lbl2_1")}))
			a.PC = "Proc2lbl1_1"
		case "Proc2lbl1_1": // V1 := V1 + 1; return
			setN("V1", tla.ModulePlusSymbol(getN("V1"), num(1)))
			ret(a)
		case "Proc1lbl2_1": // V1 := V1 + b0; return
			setN("V1", tla.ModulePlusSymbol(getN("V1"), a.Locals["b0"]))
			ret(a, "c1", "b0")
		default:
			return false
		}
		return true
	}}
	pross5 := &mpexec.Actor{PC: "Pross5lbl1", Locals: actorLocals(), Act: func(a *mpexec.Actor, p *mpexec.Proc) bool {
		switch a.PC {
		case "Pross5lbl1": // call RecursiveProcRef0()
			push(a, frame(tla.RecordField{Key: str("procedure"), Value: str("RecursiveProcRef0")}, tla.RecordField{Key: str("pc"), Value: str("Done")}))
			a.PC = "RecursiveProclbl1"
		case "RecursiveProclbl1": // print V1; tail call of itself: the state does not change
		default:
			return false
		}
		return true
	}}

	plain := func(name string) func(p *mpexec.Proc) *mpexec.Res {
		return func(p *mpexec.Proc) *mpexec.Res { return mpexec.PlainVar(w, name) }
	}
	s.Procs = append(s.Procs,
		&mpexec.Proc{Group: "Pross4", Self: num(4), Actor: pross4},
		&mpexec.Proc{Group: "Pross5", Self: num(5), Actor: pross5},
		archProc(1, 0, "f", 30, func(p *mpexec.Proc) *mpexec.Res { return mappedV1() }),
		archProc(2, 1, "f0", 40, plain("V1")),
		archProc(3, 2, "f1", 50, plain("V2")),
		archProc(33, 2, "f2", 60, plain("V2")))
	return s
}

func init() {
	Register("ProcedureSpaghetti", func(n int, args map[string]int) *mpexec.System { return ProcedureSpaghetti() })
}
