package sysdefs

import (
	"fmt"
	"sort"

	"github.com/DistCompiler/pgo/distsys"
	"github.com/DistCompiler/pgo/distsys/tla"
	"github.com/DistCompiler/pgo/systems/gcounter"

	"verifharness/internal/mpexec"
)

// g3Canon rebuilds v so that equal values print identically: the tla library prints sets and functions in
// the iteration order of an immutable map, which for small maps is the insertion order ({a, b} built as
// {a} \cup {b} or {b} \cup {a} prints differently). Elements are re-inserted in the order of their
// (canonical) print. The value itself is unchanged (tla.Value.Equal ignores the order).
func g3Canon(v tla.Value) tla.Value {
	if v == (tla.Value{}) {
		return v
	}
	switch {
	case v.IsSet():
		var es []tla.Value
		it := v.AsSet().Iterator()
		for !it.Done() {
			e, _, _ := it.Next()
			es = append(es, g3Canon(e))
		}
		sort.Slice(es, func(i, j int) bool { return es[i].String() < es[j].String() })
		return tla.MakeSet(es...)
	case v.IsTuple():
		var es []tla.Value
		it := v.AsTuple().Iterator()
		for !it.Done() {
			_, e := it.Next()
			es = append(es, g3Canon(e))
		}
		return tla.MakeTuple(es...)
	case v.IsFunction():
		var fs []tla.RecordField
		it := v.AsFunction().Iterator()
		for !it.Done() {
			k, e, _ := it.Next()
			fs = append(fs, tla.RecordField{Key: g3Canon(k), Value: g3Canon(e)})
		}
		sort.Slice(fs, func(i, j int) bool { return fs[i].Key.String() < fs[j].Key.String() })
		return tla.MakeRecord(fs)
	}
	return v
}

// g3Var is a plain TLA+ value held in canonical print order (see g3Canon).
func g3Var(v tla.Value) *mpexec.Val { return &mpexec.Val{V: g3Canon(v)} }

// Gcounter builds systems/gcounter/gcounter.tla with NUM_NODES = n.
//
//	variables localcntrs = [id1 \in NODE_SET |-> [id2 \in NODE_SET |-> 0]]; c = [id \in NODE_SET |-> {}]; out;
//	fair process (Node \in NODE_SET) == instance ANode(ref localcntrs[_], ref c[_])
//	    mapping localcntrs[_] via LocalGCntr  mapping c[_] via CasualHistory;
//	fair process (UpdateGCntr = 0)   -- model-only, played by an actor
//
// ANodeBench is not instantiated by the shipped spec (its `fair process` line is commented out), so the
// TLA+ translation has no action for its labels; it is not bound here.
func Gcounter(n int, benchRounds int) *mpexec.System {
	w := mpexec.NewWorld()
	nodeSet := tla.ModuleDotDotSymbol(num(1), num(n))
	zeroFn := tla.MakeFunction([]tla.Value{nodeSet}, func([]tla.Value) tla.Value { return num(0) })
	localcntrs := mpexec.NewFn()
	c := mpexec.NewFn()
	for i := 1; i <= n; i++ {
		localcntrs.Set(num(i), g3Var(zeroFn))
		c.Set(num(i), &mpexec.Val{V: tla.MakeSet()})
	}
	w.Set("localcntrs", localcntrs)
	w.Set("c", c)
	w.Set("out", &mpexec.Val{}) // defaultInitValue
	s := &mpexec.System{Name: "gcounter", W: w, Consts: []distsys.MPCalContextConfigFn{
		distsys.DefineConstantValue("NUM_NODES", num(n)),
		distsys.DefineConstantValue("BENCH_NUM_ROUNDS", num(benchRounds)),
	}}
	cell := func(name string, i tla.Value) tla.Value { return w.G[name].(*mpexec.Fn).Get(i).(*mpexec.Val).V }
	set := func(name string, i tla.Value, v tla.Value) { w.G[name].(*mpexec.Fn).Set(i, g3Var(v)) }

	// mapping macro LocalGCntr {
	//   read  { yield SUM($variable, DOMAIN $variable); }
	//   write { assert $value > 0; yield [$variable EXCEPT ![self] = $variable[self] + $value]; } }
	localGCntr := func(p *mpexec.Proc) *mpexec.Res {
		return mpexec.Mapped(
			func(i tla.Value) (tla.Value, error) {
				v := cell("localcntrs", i)
				sum := num(0)
				it := tla.ModuleDomainSymbol(v).AsSet().Iterator()
				for !it.Done() {
					k, _, _ := it.Next()
					sum = tla.ModulePlusSymbol(sum, v.ApplyFunction(k))
				}
				return sum, nil
			},
			func(i tla.Value, val tla.Value) error {
				if !tla.ModuleGreaterThanSymbol(val, num(0)).AsBool() {
					return fmt.Errorf("%w: LocalGCntr write: assert $value > 0 (value %v)", distsys.ErrAssertionFailed, val)
				}
				v := cell("localcntrs", i)
				set("localcntrs", i, tla.FunctionSubstitution(v, []tla.FunctionSubstitutionRecord{
					{Keys: []tla.Value{p.Self}, Value: func(anchor tla.Value) tla.Value { return tla.ModulePlusSymbol(anchor, val) }}}))
				return nil
			})
	}
	// mapping macro CasualHistory { read { yield $variable; } write { yield $variable \cup $value; } }
	casualHistory := func(p *mpexec.Proc) *mpexec.Res {
		return mpexec.Mapped(
			func(i tla.Value) (tla.Value, error) { return cell("c", i), nil },
			func(i tla.Value, val tla.Value) error {
				set("c", i, tla.ModuleUnionSymbol(cell("c", i), val))
				return nil
			})
	}

	// fair process (UpdateGCntr = 0) {
	// l1: while (TRUE) {
	//       with (i1 \in NODE_SET; i2 \in {x \in NODE_SET: localcntrs[x] # localcntrs[i1]}) {
	//           Merge(localcntrs, i1, i2);
	//           with (cn = c[i1] \cup c[i2]) { c[i1] := cn; c[i2] := cn; }; }; }; }
	candidates := func(i1 tla.Value) []tla.Value {
		var out []tla.Value
		for x := 1; x <= n; x++ {
			if !cell("localcntrs", num(x)).Equal(cell("localcntrs", i1)) {
				out = append(out, num(x))
			}
		}
		return out
	}
	s.Procs = append(s.Procs, &mpexec.Proc{Group: "UpdateGCntr", Self: num(0), Actor: &mpexec.Actor{PC: "l1",
		Locals: map[string]tla.Value{},
		Act: func(a *mpexec.Actor, p *mpexec.Proc) bool {
			if a.PC != "l1" {
				return false
			}
			// no i1 has a non-empty candidate set: the `with` is disabled whatever is chosen
			// (decided without consulting the oracle so that schedulers see a plain disabled step)
			any := false
			for x := 1; x <= n && !any; x++ {
				any = len(candidates(num(x))) > 0
			}
			if !any {
				return false
			}
			i1 := num(1 + int(p.EnvChoose("l1.i1", uint(n))))
			cand := candidates(i1)
			if len(cand) == 0 {
				return false
			}
			i2 := cand[p.EnvChoose("l1.i2", uint(len(cand)))]
			a1, a2 := cell("localcntrs", i1), cell("localcntrs", i2)
			res := tla.MakeFunction([]tla.Value{tla.ModuleDomainSymbol(a1)}, func(args []tla.Value) tla.Value {
				x, y := a1.ApplyFunction(args[0]), a2.ApplyFunction(args[0])
				if tla.ModuleGreaterThanSymbol(x, y).AsBool() {
					return x
				}
				return y
			})
			set("localcntrs", i1, res)
			set("localcntrs", i2, res)
			cn := tla.ModuleUnionSymbol(cell("c", i1), cell("c", i2))
			set("c", i1, cn)
			set("c", i2, cn)
			a.PC = "l1"
			return true
		}}})
	for i := 1; i <= n; i++ {
		s.Procs = append(s.Procs, &mpexec.Proc{Group: "Node", Self: num(i), Arch: gcounter.ANode,
			Config: func(p *mpexec.Proc) []distsys.MPCalContextConfigFn {
				return []distsys.MPCalContextConfigFn{
					distsys.EnsureArchetypeRefParam("cntr", localGCntr(p)),
					distsys.EnsureArchetypeRefParam("c", casualHistory(p)),
				}
			}})
	}
	return s
}

func init() {
	Register("gcounter", func(n int, args map[string]int) *mpexec.System { return Gcounter(n, Arg(args, "rounds", 1)) })
}
