package sysdefs

import (
	"github.com/DistCompiler/pgo/distsys"
	"github.com/DistCompiler/pgo/distsys/tla"
	indexinglocals "github.com/DistCompiler/pgo/test/files/general/IndexingLocals.tla.gotests"

	"verifharness/internal/mpexec"
)

// IndexingLocals builds pgo/test/files/general/IndexingLocals.tla.expectpcal: `fair process (node \in
// NodeSet)` with NodeSet == 1..1 (fixed by the spec's define block), each node an ANode() with the
// archetype locals log and p; no globals, no mapping macros, no constants besides defaultInitValue.
func IndexingLocals() *mpexec.System {
	s := &mpexec.System{Name: "IndexingLocals", W: mpexec.NewWorld()}
	s.Procs = append(s.Procs, &mpexec.Proc{Group: "node", Self: tla.MakeNumber(1), Arch: indexinglocals.ANode,
		Locals: []mpexec.Local{{Spec: "log", Res: "ANode.log"}, {Spec: "p", Res: "ANode.p"}},
		Config: func(p *mpexec.Proc) []distsys.MPCalContextConfigFn { return nil }})
	return s
}

func init() {
	Register("IndexingLocals", func(n int, args map[string]int) *mpexec.System { return IndexingLocals() })
}
