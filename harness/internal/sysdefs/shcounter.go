package sysdefs

import (
	"github.com/DistCompiler/pgo/distsys"
	"github.com/DistCompiler/pgo/distsys/tla"
	"github.com/DistCompiler/pgo/systems/shcounter"

	"verifharness/internal/mpexec"
)

// Shcounter builds systems/shcounter/shcounter.tla with NUM_NODES = n.
//
//	variables cntr = 0;
//	fair process (Node \in NODE_SET) == instance ANode(ref cntr);
//
// The spec has no mapping macro: `cntr` is a plain global with the default read/write semantics
// (the shipped wiring backs it with the 2PC resource, which is C11's subject, not this binding's).
func Shcounter(n int) *mpexec.System {
	w := mpexec.NewWorld()
	w.Set("cntr", &mpexec.Val{V: tla.MakeNumber(0)})
	s := &mpexec.System{Name: "shcounter", W: w,
		Consts: []distsys.MPCalContextConfigFn{distsys.DefineConstantValue("NUM_NODES", tla.MakeNumber(int32(n)))}}
	for i := 1; i <= n; i++ {
		s.Procs = append(s.Procs, &mpexec.Proc{Group: "Node", Self: tla.MakeNumber(int32(i)), Arch: shcounter.ANode,
			Config: func(p *mpexec.Proc) []distsys.MPCalContextConfigFn {
				return []distsys.MPCalContextConfigFn{distsys.EnsureArchetypeRefParam("cntr", mpexec.PlainVar(p.Sys.W, "cntr"))}
			}})
	}
	return s
}

func init() {
	Register("shcounter", func(n int, args map[string]int) *mpexec.System { return Shcounter(n) })
}
