// Package sysdefs binds each repository specification to its generated archetypes: processes,
// locals, constants and one env resource per mapping macro.
package sysdefs

import (
	"github.com/DistCompiler/pgo/distsys"
	"github.com/DistCompiler/pgo/distsys/tla"
	"github.com/DistCompiler/pgo/systems/locksvc"

	"verifharness/internal/mpexec"
)

// Locksvc builds systems/locksvc/locksvc.tla with NumClients = n.
func Locksvc(n int) *mpexec.System {
	w := mpexec.NewWorld()
	network := mpexec.NewFn()
	hasLock := mpexec.NewFn()
	for i := 0; i <= n; i++ {
		network.Set(tla.MakeNumber(int32(i)), &mpexec.Bag{})
		hasLock.Set(tla.MakeNumber(int32(i)), &mpexec.Val{V: tla.ModuleFALSE})
	}
	w.Set("network", network)
	w.Set("hasLock", hasLock)
	s := &mpexec.System{Name: "locksvc", W: w,
		Consts: []distsys.MPCalContextConfigFn{distsys.DefineConstantValue("NumClients", tla.MakeNumber(int32(n)))}}
	s.Procs = append(s.Procs, &mpexec.Proc{Group: "Server", Self: tla.MakeNumber(0), Arch: locksvc.AServer,
		Locals: []mpexec.Local{{Spec: "msg", Res: "AServer.msg"}, {Spec: "q", Res: "AServer.q"}},
		Config: func(p *mpexec.Proc) []distsys.MPCalContextConfigFn {
			return []distsys.MPCalContextConfigFn{distsys.EnsureArchetypeRefParam("network", mpexec.BagLink(p, "network"))}
		}})
	for i := 1; i <= n; i++ {
		s.Procs = append(s.Procs, &mpexec.Proc{Group: "client", Self: tla.MakeNumber(int32(i)), Arch: locksvc.AClient,
			Config: func(p *mpexec.Proc) []distsys.MPCalContextConfigFn {
				return []distsys.MPCalContextConfigFn{
					distsys.EnsureArchetypeRefParam("network", mpexec.BagLink(p, "network")),
					distsys.EnsureArchetypeRefParam("hasLock", mpexec.PlainFn(p.Sys.W, "hasLock")),
				}
			}})
	}
	return s
}

func init() {
	Register("locksvc", func(n int, args map[string]int) *mpexec.System { return Locksvc(n) })
}
