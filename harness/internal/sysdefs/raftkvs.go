package sysdefs

import (
	"fmt"

	"github.com/DistCompiler/pgo/distsys"
	"github.com/DistCompiler/pgo/distsys/tla"
	"github.com/DistCompiler/pgo/systems/raftkvs"

	"verifharness/internal/mpexec"
)

// RaftCfg mirrors the CONSTANTS of systems/raftkvs/raftkvs.tla.
type RaftCfg struct {
	NumServers, NumClients, BufferSize, MaxNodeFail int
	ExploreFail                                    bool
	LeaderTimeoutReset                             bool
	AllStrings                                     []string
	FIFO                                           bool // restrict the bag network to per-link FIFO delivery (C08/C09)
	HotKey                                         bool // the environment offers requests on one key only (C09 workloads)
}

func num(i int) tla.Value { return tla.MakeNumber(int32(i)) }

// Raftkvs builds systems/raftkvs/raftkvs.tla.
func Raftkvs(c RaftCfg) *mpexec.System {
	N := c.NumServers
	w := mpexec.NewWorld()
	fnOver := func(lo, hi int, mk func(i int) mpexec.Global) *mpexec.Fn {
		f := mpexec.NewFn()
		for i := lo; i <= hi; i++ {
			f.Set(num(i), mk(i))
		}
		return f
	}
	val := func(v tla.Value) func(int) mpexec.Global { return func(int) mpexec.Global { return &mpexec.Val{V: v} } }
	network := mpexec.NewFn()
	node := func(i int) {
		r := mpexec.NewRec()
		r.Set("queue", &mpexec.Bag{})
		r.Set("enabled", &mpexec.Val{V: tla.ModuleTRUE})
		network.Set(num(i), r)
	}
	for i := 1; i <= N; i++ {
		node(i)
	}
	for i := 6*N + 1; i <= 6*N+c.NumClients; i++ {
		node(i)
	}
	w.Set("network", network)
	w.Set("fd", fnOver(1, N, val(tla.ModuleFALSE)))
	w.Set("state", fnOver(1, N, val(tla.MakeString("follower"))))
	w.Set("currentTerm", fnOver(1, N, val(num(1))))
	w.Set("commitIndex", fnOver(1, N, val(num(0))))
	ones := make([]tla.Value, N)
	zeros := make([]tla.Value, N)
	for i := range ones {
		ones[i], zeros[i] = num(1), num(0)
	}
	srvSet := tla.ModuleDotDotSymbol(num(1), num(N))
	constFn := func(v tla.Value) tla.Value {
		return tla.MakeFunction([]tla.Value{srvSet}, func([]tla.Value) tla.Value { return v })
	}
	w.Set("nextIndex", fnOver(1, N, val(constFn(num(1)))))
	w.Set("matchIndex", fnOver(1, N, val(constFn(num(0)))))
	w.Set("log", fnOver(1, N, val(tla.MakeTuple())))
	w.Set("plog", fnOver(1, N, val(tla.MakeTuple())))
	w.Set("votedFor", fnOver(1, N, val(num(0))))
	w.Set("votesResponded", fnOver(1, N, val(tla.MakeSet())))
	w.Set("votesGranted", fnOver(1, N, val(tla.MakeSet())))
	w.Set("leader", fnOver(1, N, val(num(0))))
	w.Set("sm", fnOver(1, N, val(tla.MakeFunction([]tla.Value{tla.MakeSet()}, func([]tla.Value) tla.Value { return num(0) }))))
	w.Set("smDomain", fnOver(1, N, val(tla.MakeSet())))
	w.Set("leaderTimeout", &mpexec.Val{V: tla.ModuleTRUE})
	w.Set("appendEntriesCh", fnOver(1, N, func(int) mpexec.Global { return &mpexec.Seq{} }))
	w.Set("becomeLeaderCh", fnOver(1, N, func(int) mpexec.Global {
		if N > 1 {
			return &mpexec.Seq{}
		}
		return &mpexec.Seq{Items: []tla.Value{tla.ModuleTRUE}}
	}))
	w.Set("reqCh", &mpexec.Val{})
	w.Set("respCh", &mpexec.Val{})
	w.Set("requestVoteSrvId", fnOver(N+1, 2*N, func(i int) mpexec.Global { return &mpexec.Val{V: num(i - N)} }))
	w.Set("appendEntriesSrvId", fnOver(2*N+1, 3*N, func(i int) mpexec.Global { return &mpexec.Val{V: num(i - 2*N)} }))
	w.Set("advanceCommitIndexSrvId", fnOver(3*N+1, 4*N, func(i int) mpexec.Global { return &mpexec.Val{V: num(i - 3*N)} }))
	w.Set("becomeLeaderSrvId", fnOver(4*N+1, 5*N, func(i int) mpexec.Global { return &mpexec.Val{V: num(i - 4*N)} }))
	nCrash := 0
	if c.ExploreFail {
		nCrash = c.MaxNodeFail
	}
	w.Set("crasherSrvId", fnOver(5*N+1, 5*N+nCrash, func(i int) mpexec.Global { return &mpexec.Val{V: num(i - 5*N)} }))

	strs := make([]tla.Value, len(c.AllStrings))
	for i, s := range c.AllStrings {
		strs[i] = tla.MakeString(s)
	}
	// AllReqs in a fixed order
	var allReqs []tla.Value
	for _, k := range strs {
		for _, v := range strs {
			allReqs = append(allReqs, tla.MakeRecord([]tla.RecordField{
				{Key: tla.MakeString("type"), Value: tla.MakeString("put")},
				{Key: tla.MakeString("key"), Value: k}, {Key: tla.MakeString("value"), Value: v}}))
		}
	}
	for _, k := range strs {
		allReqs = append(allReqs, tla.MakeRecord([]tla.RecordField{
			{Key: tla.MakeString("type"), Value: tla.MakeString("get")}, {Key: tla.MakeString("key"), Value: k}}))
	}

	// the requests the environment offers on reqCh: all of AllReqs, or (HotKey) only those on the first key, so
	// that successive Puts overwrite each other and every Get observes the outcome
	offered := allReqs
	if c.HotKey {
		offered = nil
		for _, r := range allReqs {
			if r.ApplyFunction(tla.MakeString("key")).Equal(strs[0]) {
				offered = append(offered, r)
			}
		}
	}

	s := &mpexec.System{Name: "raftkvs", W: w, Consts: []distsys.MPCalContextConfigFn{
		distsys.DefineConstantValue("NumServers", num(N)),
		distsys.DefineConstantValue("NumClients", num(c.NumClients)),
		distsys.DefineConstantValue("ExploreFail", tla.MakeBool(c.ExploreFail)),
		distsys.DefineConstantValue("Debug", tla.ModuleFALSE),
		distsys.DefineConstantValue("BufferSize", num(c.BufferSize)),
		distsys.DefineConstantValue("MaxNodeFail", num(c.MaxNodeFail)),
		distsys.DefineConstantValue("LogConcat", num(2)),
		distsys.DefineConstantValue("LogPop", num(1)),
		distsys.DefineConstantValue("LeaderTimeoutReset", tla.MakeBool(c.LeaderTimeoutReset)),
		distsys.DefineConstantValue("AllStrings", tla.MakeSet(strs...)),
	}}

	netRec := func(i tla.Value) *mpexec.Rec { return w.G["network"].(*mpexec.Fn).Get(i).(*mpexec.Rec) }
	choosable := func(b *mpexec.Bag) []tla.Value {
		if !c.FIFO {
			return b.Distinct()
		}
		// per-link FIFO: of each sender only the earliest message still queued may be delivered
		seen := map[string]bool{}
		var out []tla.Value
		for _, m := range b.Items {
			src := m.ApplyFunction(tla.MakeString("msource")).String()
			if !seen[src] {
				seen[src] = true
				out = append(out, m)
			}
		}
		return out
	}
	link := func(p *mpexec.Proc) *mpexec.Res {
		return mpexec.Mapped(
			func(i tla.Value) (tla.Value, error) {
				r := netRec(i)
				if !r.F["enabled"].(*mpexec.Val).V.AsBool() {
					return tla.Value{}, fmt.Errorf("%w: ReliableFIFOLink read of a disabled network cell", distsys.ErrAssertionFailed)
				}
				b := r.F["queue"].(*mpexec.Bag)
				if len(b.Items) == 0 {
					return tla.Value{}, mpexec.Abort
				}
				d := choosable(b)
				m := d[p.EnvChoose(fmt.Sprintf("net.read[%v]", i), uint(len(d)))]
				b.RemoveOne(m)
				return m, nil
			},
			func(i tla.Value, v tla.Value) error {
				r := netRec(i)
				if !r.F["enabled"].(*mpexec.Val).V.AsBool() {
					return mpexec.Abort
				}
				b := r.F["queue"].(*mpexec.Bag)
				if len(b.Items) >= c.BufferSize {
					return mpexec.Abort
				}
				b.Items = append(b.Items, v)
				return nil
			})
	}
	netLen := func(p *mpexec.Proc) *mpexec.Res {
		return mpexec.Mapped(func(i tla.Value) (tla.Value, error) {
			n := len(netRec(i).F["queue"].(*mpexec.Bag).Items)
			return num(int(p.EnvChoose(fmt.Sprintf("netLen[%v]", i), uint(n+1)))), nil
		}, nil)
	}
	netEnabled := func(p *mpexec.Proc) *mpexec.Res {
		return mpexec.Mapped(func(i tla.Value) (tla.Value, error) { return netRec(i).F["enabled"].(*mpexec.Val).V, nil },
			func(i tla.Value, v tla.Value) error { netRec(i).Set("enabled", &mpexec.Val{V: v}); return nil })
	}
	unreliableFD := func(p *mpexec.Proc) *mpexec.Res {
		return mpexec.Mapped(func(i tla.Value) (tla.Value, error) {
			// either { yield FALSE; } or { yield TRUE; }
			return tla.MakeBool(p.EnvChoose(fmt.Sprintf("fd[%v]", i), 2) == 1), nil
		}, func(i tla.Value, v tla.Value) error { w.G["fd"].(*mpexec.Fn).Set(i, &mpexec.Val{V: v}); return nil })
	}
	plog := func(p *mpexec.Proc) *mpexec.Res {
		return mpexec.Mapped(func(i tla.Value) (tla.Value, error) { return w.G["plog"].(*mpexec.Fn).Get(i).(*mpexec.Val).V, nil },
			func(i tla.Value, v tla.Value) error {
				cur := w.G["plog"].(*mpexec.Fn).Get(i).(*mpexec.Val).V
				cmd := v.ApplyFunction(tla.MakeString("cmd"))
				switch {
				case cmd.Equal(num(2)): // LogConcat
					cur = tla.ModuleOSymbol(cur, v.ApplyFunction(tla.MakeString("entries")))
				case cmd.Equal(num(1)): // LogPop
					cur = tla.ModuleSubSeq(cur, num(1), tla.ModuleMinusSymbol(tla.ModuleLen(cur), v.ApplyFunction(tla.MakeString("cnt"))))
				default:
					return nil // neither branch of the macro: no yield, variable unchanged
				}
				w.G["plog"].(*mpexec.Fn).Set(i, &mpexec.Val{V: cur})
				return nil
			})
	}
	channel := func(p *mpexec.Proc, name string) *mpexec.Res {
		return mpexec.Mapped(func(i tla.Value) (tla.Value, error) {
			q := w.G[name].(*mpexec.Fn).Get(i).(*mpexec.Seq)
			if len(q.Items) > 0 {
				h := q.Items[0]
				q.Items = append([]tla.Value(nil), q.Items[1:]...)
				return h, nil
			}
			return tla.ModuleTRUE, nil
		}, func(i tla.Value, v tla.Value) error {
			q := w.G[name].(*mpexec.Fn).Get(i).(*mpexec.Seq)
			q.Items = append(q.Items, v)
			return nil
		})
	}
	leaderTimeout := func(p *mpexec.Proc) *mpexec.Res {
		return mpexec.Leaf(func() (tla.Value, error) { return tla.MakeBool(p.EnvChoose("leaderTimeout", 2) == 0), nil },
			func(v tla.Value) error { w.G["leaderTimeout"] = &mpexec.Val{V: v}; return nil })
	}
	serverCfg := func(srv int) func(p *mpexec.Proc) []distsys.MPCalContextConfigFn {
		return func(p *mpexec.Proc) []distsys.MPCalContextConfigFn {
			cfg := []distsys.MPCalContextConfigFn{
				distsys.EnsureArchetypeValueParam("srvId", num(srv)),
				distsys.EnsureArchetypeRefParam("net", link(p)),
				distsys.EnsureArchetypeRefParam("netLen", netLen(p)),
				distsys.EnsureArchetypeRefParam("netEnabled", netEnabled(p)),
				distsys.EnsureArchetypeRefParam("fd", unreliableFD(p)),
				distsys.EnsureArchetypeRefParam("plog", plog(p)),
				distsys.EnsureArchetypeRefParam("leaderTimeout", leaderTimeout(p)),
				distsys.EnsureArchetypeRefParam("appendEntriesCh", channel(p, "appendEntriesCh")),
				distsys.EnsureArchetypeRefParam("becomeLeaderCh", channel(p, "becomeLeaderCh")),
			}
			for _, n := range []string{"state", "currentTerm", "log", "commitIndex", "nextIndex", "matchIndex", "votedFor",
				"votesResponded", "votesGranted", "leader", "sm", "smDomain"} {
				cfg = append(cfg, distsys.EnsureArchetypeRefParam(n, mpexec.PlainFn(w, n)))
			}
			return cfg
		}
	}
	type arch struct {
		a      distsys.MPCalArchetype
		group  string
		locals []mpexec.Local
	}
	archs := []arch{
		{raftkvs.AServer, "s0", []mpexec.Local{{Spec: "idx", Res: "AServer.idx"}, {Spec: "m", Res: "AServer.m"}, {Spec: "srvId", Res: "AServer.srvId"}}},
		{raftkvs.AServerRequestVote, "s1", []mpexec.Local{{Spec: "idx0", Res: "AServerRequestVote.idx"}, {Spec: "srvId0", Res: "AServerRequestVote.srvId"}}},
		{raftkvs.AServerAppendEntries, "s2", []mpexec.Local{{Spec: "idx1", Res: "AServerAppendEntries.idx"}, {Spec: "srvId1", Res: "AServerAppendEntries.srvId"}}},
		{raftkvs.AServerAdvanceCommitIndex, "s3", []mpexec.Local{{Spec: "newCommitIndex", Res: "AServerAdvanceCommitIndex.newCommitIndex"}, {Spec: "srvId2", Res: "AServerAdvanceCommitIndex.srvId"}}},
		{raftkvs.AServerBecomeLeader, "s4", []mpexec.Local{{Spec: "srvId3", Res: "AServerBecomeLeader.srvId"}}},
	}
	for k, a := range archs {
		for i := 1; i <= N; i++ {
			s.Procs = append(s.Procs, &mpexec.Proc{Group: a.group, Node: i, Self: num(k*N + i), Arch: a.a, Locals: a.locals, Config: serverCfg(i)})
		}
	}
	for i := 1; i <= nCrash; i++ {
		srv := i
		s.Procs = append(s.Procs, &mpexec.Proc{Group: "crasher", Self: num(5*N + i), Arch: raftkvs.AServerCrasher,
			Locals: []mpexec.Local{{Spec: "srvId4", Res: "AServerCrasher.srvId"}},
			Config: func(p *mpexec.Proc) []distsys.MPCalContextConfigFn {
				return []distsys.MPCalContextConfigFn{
					distsys.EnsureArchetypeValueParam("srvId", num(srv)),
					distsys.EnsureArchetypeRefParam("netEnabled", netEnabled(p)),
					distsys.EnsureArchetypeRefParam("fd", unreliableFD(p)),
				}
			}})
	}
	for i := 1; i <= c.NumClients; i++ {
		s.Procs = append(s.Procs, &mpexec.Proc{Group: "client", Self: num(6*N + i), Arch: raftkvs.AClient,
			Locals: []mpexec.Local{{Spec: "leader0", Res: "AClient.leader"}, {Spec: "req", Res: "AClient.req"},
				{Spec: "resp", Res: "AClient.resp"}, {Spec: "reqIdx", Res: "AClient.reqIdx"}},
			ConstLocals: map[string]string{"timeout": "FALSE"},
			Config: func(p *mpexec.Proc) []distsys.MPCalContextConfigFn {
				return []distsys.MPCalContextConfigFn{
					distsys.EnsureArchetypeRefParam("net", link(p)),
					distsys.EnsureArchetypeRefParam("netLen", netLen(p)),
					distsys.EnsureArchetypeRefParam("fd", unreliableFD(p)),
					distsys.EnsureArchetypeRefParam("reqCh", mpexec.Leaf(func() (tla.Value, error) {
						return offered[p.EnvChoose("reqCh", uint(len(offered)))], nil
					}, nil)),
					distsys.EnsureArchetypeRefParam("respCh", mpexec.PlainVar(w, "respCh")),
					distsys.EnsureArchetypeRefParam("timeout", mpexec.Leaf(func() (tla.Value, error) {
						return tla.MakeBool(p.EnvChoose("timeout", 2) == 0), nil
					}, nil)),
				}
			}})
	}
	// client-visible history (C09): invocation when a client takes a request from reqCh, response when it
	// hands the server's answer to respCh
	s.Observe = func(p *mpexec.Proc, label, newPC string, local func(res string) tla.Value) interface{} {
		if p.Group != "client" {
			return nil
		}
		str := func(v tla.Value, f string) string {
			x := v.ApplyFunction(tla.MakeString(f))
			if x.IsString() {
				return x.AsString()
			}
			return x.String()
		}
		switch {
		case label == "clientLoop":
			req := local("AClient.req")
			ev := map[string]interface{}{"op": "inv", "client": p.Self.String(), "kind": str(req, "type"), "key": str(req, "key"),
				"idx": local("AClient.reqIdx").String()}
			if str(req, "type") == "put" {
				ev["val"] = str(req, "value")
			}
			return ev
		case label == "rcvResp" && newPC == "clientLoop":
			resp := local("AClient.resp")
			mr := resp.ApplyFunction(tla.MakeString("mresponse"))
			return map[string]interface{}{"op": "ret", "client": p.Self.String(), "idx": str(mr, "idx"), "key": str(mr, "key"),
				"rval": str(mr, "value"), "ok": mr.ApplyFunction(tla.MakeString("ok")).AsBool(), "mtype": str(resp, "mtype")}
		}
		return nil
	}
	return s
}

func init() {
	Register("raftkvs", func(n int, args map[string]int) *mpexec.System {
		return Raftkvs(RaftCfg{NumServers: n, NumClients: Arg(args, "clients", 1), BufferSize: Arg(args, "buffer", 3),
			MaxNodeFail: Arg(args, "maxfail", 1), ExploreFail: Arg(args, "fail", 1) == 1, LeaderTimeoutReset: Arg(args, "ltreset", 1) == 1,
			AllStrings: []string{"s1", "s2", "s3"}[:Arg(args, "strings", 2)], FIFO: Arg(args, "fifo", 0) == 1, HotKey: Arg(args, "hotkey", 0) == 1})
	})
}
