package sysdefs

import (
	"errors"
	"strings"

	"github.com/DistCompiler/pgo/distsys"
	"github.com/DistCompiler/pgo/distsys/tla"
	nondetexploration "github.com/DistCompiler/pgo/test/files/general/NonDetExploration.tla.gotests"

	"verifharness/internal/mpexec"
)

// assertMarker returns a copy of archetype a in which a critical section of a that ends with
// distsys.ErrAssertionFailed instead moves the archetype to the label "<a.Name>.AssertionFailed"
// (a section that is never enabled). The generated bodies run unchanged; only the *outcome*
// "assertion failed" is turned into an observable pc value, so that it can be compared with the
// specification, where the table rewrites `Assert(P, msg) /\ pc' = X` of the same label to
// `pc' = IF P THEN X ELSE "AssertionFailed"`. (TLC stops at a failing Assert and the stock driver
// reports any Go error as a violation; without the marker a spec whose own behaviours reach a
// failing assert -- NonDetExploration: mark = {1} at i = 20 -- could not be compared at all.)
// Sound only for labels in which the assert precedes every write (true for AComplex.loop: the
// failing branch writes nothing before the assert); a write before a failing assert would show up
// as a state mismatch, not be hidden.
func assertMarker(a distsys.MPCalArchetype) distsys.MPCalArchetype {
	marker := a.Name + ".AssertionFailed"
	jt := distsys.MPCalJumpTable{}
	for name, cs := range a.JumpTable {
		if strings.HasPrefix(name, a.Name+".") {
			body := cs.Body
			cs.Body = func(iface distsys.ArchetypeInterface) error {
				err := body(iface)
				if err != nil && errors.Is(err, distsys.ErrAssertionFailed) {
					return iface.Goto(marker)
				}
				return err
			}
		}
		jt[name] = cs
	}
	jt[marker] = distsys.MPCalCriticalSection{Name: marker, Body: func(distsys.ArchetypeInterface) error {
		return distsys.ErrCriticalSectionAborted
	}}
	a.JumpTable = jt
	return a
}

// NonDetExploration builds pgo/test/files/general/NonDetExploration.tla.expectpcal: three single
// processes Coverage = 1 (ACoverage), Coincidence = 2 (ACoincidence), Complex = 3 (AComplex with
// the plain variables i and mark). No globals, mapping macros or constants; all nondeterminism is
// `with x \in TheSet` inside the archetypes (resolved by the oracle through NextFairnessCounter).
func NonDetExploration() *mpexec.System {
	s := &mpexec.System{Name: "NonDetExploration", W: mpexec.NewWorld()}
	none := func(p *mpexec.Proc) []distsys.MPCalContextConfigFn { return nil }
	s.Procs = append(s.Procs,
		&mpexec.Proc{Group: "Coverage", Self: tla.MakeNumber(1), Arch: nondetexploration.ACoverage, Single: true, Config: none},
		&mpexec.Proc{Group: "Coincidence", Self: tla.MakeNumber(2), Arch: nondetexploration.ACoincidence, Single: true, Config: none},
		&mpexec.Proc{Group: "Complex", Self: tla.MakeNumber(3), Arch: assertMarker(nondetexploration.AComplex), Single: true,
			Locals: []mpexec.Local{{Spec: "i", Res: "AComplex.i"}, {Spec: "mark", Res: "AComplex.mark"}}, Config: none})
	return s
}

func init() {
	Register("NonDetExploration", func(n int, args map[string]int) *mpexec.System { return NonDetExploration() })
}
