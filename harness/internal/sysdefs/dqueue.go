package sysdefs

import (
	"github.com/DistCompiler/pgo/distsys"
	"github.com/DistCompiler/pgo/distsys/tla"
	"github.com/DistCompiler/pgo/systems/dqueue"

	"verifharness/internal/mpexec"
)

// g2TCPChannel is the mapping macro TCPChannel of dqueue.tla, load_balancer.tla and bug2_124.tla (the
// three texts are identical) over the function-valued global `name` whose cells are sequences:
//
//	read  { await Len($variable) > 0; with (msg = Head($variable)) { $variable := Tail($variable); yield msg; }; }
//	write { await Len($variable) < BUFFER_SIZE; yield Append($variable, $value); }
func g2TCPChannel(w *mpexec.World, name string, bufferSize int) *mpexec.Res {
	cell := func(i tla.Value) *mpexec.Seq { return w.G[name].(*mpexec.Fn).Get(i).(*mpexec.Seq) }
	return mpexec.Mapped(
		func(i tla.Value) (tla.Value, error) {
			q := cell(i)
			if !(len(q.Items) > 0) {
				return tla.Value{}, mpexec.Abort
			}
			msg := q.Items[0]
			w.G[name].(*mpexec.Fn).Set(i, &mpexec.Seq{Items: append([]tla.Value(nil), q.Items[1:]...)})
			return msg, nil
		},
		func(i tla.Value, v tla.Value) error {
			q := cell(i)
			if !(len(q.Items) < bufferSize) {
				return mpexec.Abort
			}
			w.G[name].(*mpexec.Fn).Set(i, &mpexec.Seq{Items: append(append([]tla.Value(nil), q.Items...), v)})
			return nil
		})
}

// Dqueue builds systems/dqueue/dqueue.tla with PRODUCER = 0:
//
//	globals  network = [id \in 0..NUM_NODES-1 |-> <<>>], processor = 0, stream = 0
//	Consumer \in 1..NUM_CONSUMERS == AConsumer(ref network[_] via TCPChannel, ref processor)
//	Producer \in {PRODUCER}       == AProducer(ref network[_] via TCPChannel, ref stream via CyclicReads)
func Dqueue(numConsumers, bufferSize int) *mpexec.System {
	const producer = 0
	w := mpexec.NewWorld()
	network := mpexec.NewFn()
	for id := 0; id <= numConsumers; id++ { // 0 .. NUM_NODES-1, NUM_NODES == NUM_CONSUMERS + 1
		network.Set(num(id), &mpexec.Seq{})
	}
	w.Set("network", network)
	w.Set("processor", &mpexec.Val{V: num(0)})
	w.Set("stream", &mpexec.Val{V: num(0)})
	s := &mpexec.System{Name: "dqueue", W: w, Consts: []distsys.MPCalContextConfigFn{
		distsys.DefineConstantValue("BUFFER_SIZE", num(bufferSize)),
		distsys.DefineConstantValue("NUM_CONSUMERS", num(numConsumers)),
		distsys.DefineConstantValue("PRODUCER", num(producer)),
	}}
	// mapping macro CyclicReads {
	//   read  { $variable := ($variable + 1) % BUFFER_SIZE; yield $variable; }
	//   write { yield $variable } }
	cyclicReads := func() *mpexec.Res {
		return mpexec.Leaf(
			func() (tla.Value, error) {
				cur := w.G["stream"].(*mpexec.Val).V
				nv := tla.ModulePercentSymbol(tla.ModulePlusSymbol(cur, num(1)), num(bufferSize))
				w.G["stream"] = &mpexec.Val{V: nv}
				return nv, nil
			},
			func(v tla.Value) error { return nil }) // yield $variable: the variable keeps its value
	}
	for i := 1; i <= numConsumers; i++ {
		s.Procs = append(s.Procs, &mpexec.Proc{Group: "Consumer", Self: num(i), Arch: dqueue.AConsumer,
			Config: func(p *mpexec.Proc) []distsys.MPCalContextConfigFn {
				return []distsys.MPCalContextConfigFn{
					distsys.EnsureArchetypeRefParam("net", g2TCPChannel(w, "network", bufferSize)),
					distsys.EnsureArchetypeRefParam("proc", mpexec.PlainVar(w, "processor")),
				}
			}})
	}
	s.Procs = append(s.Procs, &mpexec.Proc{Group: "Producer", Self: num(producer), Arch: dqueue.AProducer,
		Locals: []mpexec.Local{{Spec: "requester", Res: "AProducer.requester"}},
		Config: func(p *mpexec.Proc) []distsys.MPCalContextConfigFn {
			return []distsys.MPCalContextConfigFn{
				distsys.EnsureArchetypeRefParam("net", g2TCPChannel(w, "network", bufferSize)),
				distsys.EnsureArchetypeRefParam("s", cyclicReads()),
			}
		}})
	return s
}

func init() {
	// n = NUM_CONSUMERS; args: buffer (BUFFER_SIZE, default 3)
	Register("dqueue", func(n int, args map[string]int) *mpexec.System { return Dqueue(n, Arg(args, "buffer", 3)) })
}
