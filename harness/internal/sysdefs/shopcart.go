package sysdefs

import (
	"fmt"

	"github.com/DistCompiler/pgo/distsys"
	"github.com/DistCompiler/pgo/distsys/tla"
	"github.com/DistCompiler/pgo/systems/shopcart"

	"verifharness/internal/mpexec"
)

// Shopcart builds systems/shopcart/shopcart.tla with NumNodes = n, BenchNumRounds = rounds and
// ElemSet = 0 .. n*rounds-1 (exactly the values GetVal(self, r) the bench archetype adds; the table rows give
// TLC the same set through consts_override).
//
//	variable crdt = [nid \in NodeSet |-> [addMap |-> [eid \in ElemSet |-> Null], remMap |-> [eid \in ElemSet |-> Null]]];
//	         in = << ... four fixed requests ... >>; out; c = [id \in NodeSet |-> {}];
//	fair process (Node \in NodeSet) == instance ANodeBench(ref crdt[_], ref out, ref c[_]) mapping crdt[_] via AWORSet;
//	fair process (UpdateCRDT = 0)   -- model-only, played by an actor
//
// Archetype ANode and mapping macro InputQueue are not instantiated by the shipped spec (the `fair process`
// lines are commented out), so the TLA+ translation has no action for them; they are not bound.
func Shopcart(n, rounds int) *mpexec.System {
	w := mpexec.NewWorld()
	str := tla.MakeString
	nodeSet := tla.ModuleDotDotSymbol(num(1), num(n))
	null := g3Canon(tla.MakeFunction([]tla.Value{nodeSet}, func([]tla.Value) tla.Value { return num(0) }))
	var elems []tla.Value
	for e := 0; e < n*rounds; e++ {
		elems = append(elems, num(e))
	}
	elemSet := tla.MakeSet(elems...)
	nullMap := tla.MakeRecord(nil)
	if len(elems) > 0 {
		nullMap = g3Canon(tla.MakeFunction([]tla.Value{elemSet}, func([]tla.Value) tla.Value { return null }))
	}
	mkState := func(add, rem tla.Value) tla.Value {
		return tla.MakeRecord([]tla.RecordField{{Key: str("addMap"), Value: add}, {Key: str("remMap"), Value: rem}})
	}
	crdt, c := mpexec.NewFn(), mpexec.NewFn()
	for i := 1; i <= n; i++ {
		crdt.Set(num(i), g3Var(mkState(nullMap, nullMap)))
		c.Set(num(i), g3Var(tla.MakeSet()))
	}
	req := func(cmd int, elem string) tla.Value {
		return tla.MakeRecord([]tla.RecordField{{Key: str("cmd"), Value: num(cmd)}, {Key: str("elem"), Value: str(elem)}})
	}
	w.Set("crdt", crdt)
	w.Set("in", g3Var(tla.MakeTuple(req(1, "1"), req(2, "2"), req(1, "2"), req(2, "1"))))
	w.Set("out", &mpexec.Val{}) // defaultInitValue
	w.Set("c", c)
	s := &mpexec.System{Name: "shopcart", W: w, Consts: []distsys.MPCalContextConfigFn{
		distsys.DefineConstantValue("NumNodes", num(n)),
		distsys.DefineConstantValue("BenchNumRounds", num(rounds)),
		distsys.DefineConstantValue("ElemSet", elemSet),
	}}
	cell := func(name string, i tla.Value) tla.Value { return w.G[name].(*mpexec.Fn).Get(i).(*mpexec.Val).V }
	set := func(name string, i tla.Value, v tla.Value) { w.G[name].(*mpexec.Fn).Set(i, g3Var(v)) }

	// the spec's define-block operators, on values
	// CompareVectorClock(v1, v2) == IF \A i \in DOMAIN v1: v1[i] <= v2[i] THEN TRUE ELSE FALSE
	compareVC := func(v1, v2 tla.Value) bool {
		it := tla.ModuleDomainSymbol(v1).AsSet().Iterator()
		for !it.Done() {
			i, _, _ := it.Next()
			if !tla.ModuleLessThanOrEqualSymbol(v1.ApplyFunction(i), v2.ApplyFunction(i)).AsBool() {
				return false
			}
		}
		return true
	}
	// MergeVectorClock(v1, v2) == [i \in DOMAIN v1 |-> Max(v1[i], v2[i])]
	mergeVC := func(v1, v2 tla.Value) tla.Value {
		return tla.MakeFunction([]tla.Value{tla.ModuleDomainSymbol(v1)}, func(a []tla.Value) tla.Value {
			x, y := v1.ApplyFunction(a[0]), v2.ApplyFunction(a[0])
			if tla.ModuleGreaterThanSymbol(x, y).AsBool() {
				return x
			}
			return y
		})
	}
	// fnOver builds [k \in DOMAIN a |-> f(k)] (the empty function when DOMAIN a = {})
	fnOver := func(a tla.Value, f func(k tla.Value) tla.Value) tla.Value {
		dom := tla.ModuleDomainSymbol(a)
		if dom.AsSet().Len() == 0 {
			return tla.MakeRecord(nil)
		}
		return tla.MakeFunction([]tla.Value{dom}, func(args []tla.Value) tla.Value { return f(args[0]) })
	}
	// MergeKeys(a, b) == [k \in DOMAIN a |-> MergeVectorClock(a[k], b[k])]
	mergeKeys := func(a, b tla.Value) tla.Value {
		return fnOver(a, func(k tla.Value) tla.Value { return mergeVC(a.ApplyFunction(k), b.ApplyFunction(k)) })
	}
	addMap := func(r tla.Value) tla.Value { return r.ApplyFunction(str("addMap")) }
	remMap := func(r tla.Value) tla.Value { return r.ApplyFunction(str("remMap")) }
	// Query(r) == {elem \in DOMAIN r.addMap: ~CompareVectorClock(r.addMap[elem], r.remMap[elem])}
	query := func(r tla.Value) tla.Value {
		return tla.SetRefinement(tla.ModuleDomainSymbol(addMap(r)), func(e tla.Value) bool {
			return !compareVC(addMap(r).ApplyFunction(e), remMap(r).ApplyFunction(e))
		})
	}
	subst := func(v tla.Value, val func(old tla.Value) tla.Value, path ...tla.Value) tla.Value {
		return tla.FunctionSubstitution(v, []tla.FunctionSubstitutionRecord{{Keys: path, Value: val}})
	}
	constant := func(x tla.Value) func(tla.Value) tla.Value { return func(tla.Value) tla.Value { return x } }

	// mapping macro AWORSet {
	//   read  { yield Query($variable); }
	//   write { if ($value.cmd = AddCmd) {
	//               if ($variable.addMap[$value.elem] # Null) {
	//                   $variable.addMap[$value.elem][self] := $variable.addMap[$value.elem][self] + 1;
	//                   $variable.remMap[$value.elem]       := Null;
	//               } else if ($variable.remMap[$value.elem] # Null) {
	//                   $variable.addMap[$value.elem][self] := $variable.remMap[$value.elem][self] + 1;
	//                   $variable.remMap[$value.elem]       := Null;
	//               } else { $variable.addMap[$value.elem][self] := 1; };
	//           } else if ($value.cmd = RemoveCmd) { ... the same with addMap and remMap exchanged ... }; } }
	aworSet := func(p *mpexec.Proc) *mpexec.Res {
		self := p.Self
		return mpexec.Mapped(
			func(i tla.Value) (tla.Value, error) { return query(cell("crdt", i)), nil },
			func(i tla.Value, val tla.Value) error {
				v := cell("crdt", i)
				cmd, elem := val.ApplyFunction(str("cmd")), val.ApplyFunction(str("elem"))
				var mine, other tla.Value // the map the command counts in, and the opposite one
				switch {
				case cmd.Equal(num(1)): // AddCmd
					mine, other = str("addMap"), str("remMap")
				case cmd.Equal(num(2)): // RemoveCmd
					mine, other = str("remMap"), str("addMap")
				default:
					return nil // neither branch: $variable unchanged
				}
				switch {
				case !v.ApplyFunction(mine).ApplyFunction(elem).Equal(null):
					v = subst(v, func(old tla.Value) tla.Value { return tla.ModulePlusSymbol(old, num(1)) }, mine, elem, self)
					v = subst(v, constant(null), other, elem)
				case !v.ApplyFunction(other).ApplyFunction(elem).Equal(null):
					nv := tla.ModulePlusSymbol(v.ApplyFunction(other).ApplyFunction(elem).ApplyFunction(self), num(1))
					v = subst(v, constant(nv), mine, elem, self)
					v = subst(v, constant(null), other, elem)
				default:
					v = subst(v, constant(num(1)), mine, elem, self)
				}
				set("crdt", i, v)
				return nil
			})
	}

	// fair process (UpdateCRDT = 0) {
	// l1: while (TRUE) {
	//       with (i1 \in NodeSet; i2 \in {x \in NodeSet: crdt[x] # crdt[i1]}) {
	//           Merge(crdt, i1, i2);
	//           with (cn = c[i1] \cup c[i2]) { c[i1] := cn; c[i2] := cn; }; }; }; }
	candidates := func(i1 tla.Value) []tla.Value {
		var out []tla.Value
		for x := 1; x <= n; x++ {
			if !cell("crdt", num(x)).Equal(cell("crdt", i1)) {
				out = append(out, num(x))
			}
		}
		return out
	}
	s.Procs = append(s.Procs, &mpexec.Proc{Group: "UpdateCRDT", Self: num(0), Actor: &mpexec.Actor{PC: "l1",
		Locals: map[string]tla.Value{},
		Act: func(a *mpexec.Actor, p *mpexec.Proc) bool {
			if a.PC != "l1" {
				return false
			}
			// no i1 has a non-empty candidate set: the `with` is disabled whatever is chosen
			any := false
			for x := 1; x <= n && !any; x++ {
				any = len(candidates(num(x))) > 0
			}
			if !any {
				return false
			}
			i1 := num(1 + int(p.EnvChoose("l1.i1", uint(n))))
			cand := candidates(i1)
			if len(cand) == 0 {
				return false
			}
			i2 := cand[p.EnvChoose("l1.i2", uint(len(cand)))]
			// macro Merge(crdt, i1, i2)
			r1, r2 := cell("crdt", i1), cell("crdt", i2)
			if r1.Equal(r2) {
				panic("shopcart: UpdateCRDT: assert crdt[i1] # crdt[i2] fails")
			}
			addk := mergeKeys(addMap(r1), addMap(r2))
			remk := mergeKeys(remMap(r1), remMap(r2))
			add := fnOver(addk, func(k tla.Value) tla.Value {
				if compareVC(addk.ApplyFunction(k), remk.ApplyFunction(k)) {
					return null
				}
				return addk.ApplyFunction(k)
			})
			rem := fnOver(remk, func(k tla.Value) tla.Value {
				if compareVC(addk.ApplyFunction(k), remk.ApplyFunction(k)) {
					return remk.ApplyFunction(k)
				}
				return null
			})
			n1 := subst(subst(r1, constant(add), str("addMap")), constant(rem), str("remMap"))
			n2 := subst(subst(r2, constant(add), str("addMap")), constant(rem), str("remMap"))
			if !n1.Equal(n2) {
				panic(fmt.Sprintf("shopcart: UpdateCRDT: assert crdt[i1] = crdt[i2] fails: %v vs %v", n1, n2))
			}
			set("crdt", i1, n1)
			set("crdt", i2, n2)
			cn := tla.ModuleUnionSymbol(cell("c", i1), cell("c", i2))
			set("c", i1, cn)
			set("c", i2, cn)
			a.PC = "l1"
			return true
		}}})
	for i := 1; i <= n; i++ {
		s.Procs = append(s.Procs, &mpexec.Proc{Group: "Node", Self: num(i), Arch: shopcart.ANodeBench,
			Locals: []mpexec.Local{{Spec: "r", Res: "ANodeBench.r"}},
			Config: func(p *mpexec.Proc) []distsys.MPCalContextConfigFn {
				return []distsys.MPCalContextConfigFn{
					distsys.EnsureArchetypeRefParam("crdt", aworSet(p)),
					distsys.EnsureArchetypeRefParam("out", mpexec.PlainVar(w, "out")),
					// c[_] is passed unmapped: plain function-valued global
					distsys.EnsureArchetypeRefParam("c", mpexec.Mapped(
						func(i tla.Value) (tla.Value, error) { return cell("c", i), nil },
						func(i tla.Value, v tla.Value) error { set("c", i, v); return nil })),
				}
			}})
	}
	return s
}

func init() {
	Register("shopcart", func(n int, args map[string]int) *mpexec.System { return Shopcart(n, Arg(args, "rounds", 1)) })
}
