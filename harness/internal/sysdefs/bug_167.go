package sysdefs

import (
	"github.com/DistCompiler/pgo/distsys"
	"github.com/DistCompiler/pgo/distsys/tla"
	bug167 "github.com/DistCompiler/pgo/test/files/gogen/bug_167.tla.gotests"

	"verifharness/internal/mpexec"
)

// Bug167Cfg mirrors the CONSTANTS of pgo/test/files/gogen/bug_167.tla (an early pbkvs: separate
// put and get clients that loop while PUT_CLIENT_RUN / GET_CLIENT_RUN).
type Bug167Cfg struct {
	NumReplicas, NumPutClients, NumGetClients int
	ExploreFail, PutClientRun, GetClientRun   bool
}

// Bug167 builds pgo/test/files/gogen/bug_167.tla. Its mapping macros (ReliableFIFOLink,
// NetworkToggle, PerfectFD, FileSystem, LeaderElection, NetworkBufferLength) have the same text as
// those of systems/pbkvs/pbkvs.tla, so the env resources of pbkvs.go (pbWorld) are shared.
func Bug167(c Bug167Cfg) *mpexec.System {
	w := mpexec.NewWorld()
	// network, fd, fs exactly as in pbkvs.tla, with NODE_SET = 1..(NUM_REPLICAS + NUM_PUT_CLIENTS + NUM_GET_CLIENTS)
	pbGlobals(w, PBCfg{NumReplicas: c.NumReplicas, NumClients: c.NumPutClients + c.NumGetClients})
	// primary = REPLICA_SET
	w.Set("primary", &mpexec.Val{V: tla.ModuleDotDotSymbol(num(1), num(c.NumReplicas))})

	e := pbWorld{w}
	s := &mpexec.System{Name: "bug_167", W: w, Consts: []distsys.MPCalContextConfigFn{
		distsys.DefineConstantValue("NUM_REPLICAS", num(c.NumReplicas)),
		distsys.DefineConstantValue("NUM_PUT_CLIENTS", num(c.NumPutClients)),
		distsys.DefineConstantValue("NUM_GET_CLIENTS", num(c.NumGetClients)),
		distsys.DefineConstantValue("EXPLORE_FAIL", tla.MakeBool(c.ExploreFail)),
		distsys.DefineConstantValue("PUT_CLIENT_RUN", tla.MakeBool(c.PutClientRun)),
		distsys.DefineConstantValue("GET_CLIENT_RUN", tla.MakeBool(c.GetClientRun)),
	}}
	// fair process (Replica \in REPLICA_SET) == instance AReplica(ref network[_], ref fs[_][_], ref fd[_], ref network[_], ref primary, ref network[_])
	//   mapping @1[_] via ReliableFIFOLink  @2[_][_] via FileSystem  @3[_] via PerfectFD
	//   mapping @4[_] via NetworkToggle     @5 via LeaderElection    @6[_] via NetworkBufferLength
	for i := 1; i <= c.NumReplicas; i++ {
		s.Procs = append(s.Procs, &mpexec.Proc{Group: "Replica", Self: num(i), Arch: bug167.AReplica,
			Locals: []mpexec.Local{
				{Spec: "req", Res: "AReplica.req"}, {Spec: "respBody", Res: "AReplica.respBody"}, {Spec: "respTyp", Res: "AReplica.respTyp"},
				{Spec: "idx", Res: "AReplica.idx"}, {Spec: "repReq", Res: "AReplica.repReq"}, {Spec: "repResp", Res: "AReplica.repResp"},
				{Spec: "resp", Res: "AReplica.resp"}, {Spec: "replicaSet", Res: "AReplica.replicaSet"}, {Spec: "shouldSync", Res: "AReplica.shouldSync"},
				{Spec: "lastPutBody", Res: "AReplica.lastPutBody"}, {Spec: "replica", Res: "AReplica.replica"}},
			Config: func(p *mpexec.Proc) []distsys.MPCalContextConfigFn {
				return []distsys.MPCalContextConfigFn{
					distsys.EnsureArchetypeRefParam("net", e.reliableFIFOLink("network")),
					distsys.EnsureArchetypeRefParam("fs", e.fileSystem("fs")),
					distsys.EnsureArchetypeRefParam("fd", e.perfectFD("fd")),
					distsys.EnsureArchetypeRefParam("netEnabled", e.networkToggle("network")),
					distsys.EnsureArchetypeRefParam("primary", e.leaderElection("primary")),
					distsys.EnsureArchetypeRefParam("netLen", e.networkBufferLength("network")),
				}
			}})
	}
	// fair process (PutClient \in PUT_CLIENT_SET) / (GetClient \in GET_CLIENT_SET)
	//   == instance A{Put,Get}Client(ref network[_], ref fd[_], ref primary, ref network[_])
	//   mapping @1[_] via ReliableFIFOLink  @2[_] via PerfectFD  @3 via LeaderElection  @4[_] via NetworkBufferLength
	clientCfg := func(p *mpexec.Proc) []distsys.MPCalContextConfigFn {
		return []distsys.MPCalContextConfigFn{
			distsys.EnsureArchetypeRefParam("net", e.reliableFIFOLink("network")),
			distsys.EnsureArchetypeRefParam("fd", e.perfectFD("fd")),
			distsys.EnsureArchetypeRefParam("primary", e.leaderElection("primary")),
			distsys.EnsureArchetypeRefParam("netLen", e.networkBufferLength("network")),
		}
	}
	for i := c.NumReplicas + 1; i <= c.NumReplicas+c.NumPutClients; i++ {
		s.Procs = append(s.Procs, &mpexec.Proc{Group: "PutClient", Self: num(i), Arch: bug167.APutClient,
			Locals: []mpexec.Local{
				{Spec: "req0", Res: "APutClient.req"}, {Spec: "resp0", Res: "APutClient.resp"},
				{Spec: "body", Res: "APutClient.body"}, {Spec: "replica0", Res: "APutClient.replica"}},
			Config: clientCfg})
	}
	for i := c.NumReplicas + c.NumPutClients + 1; i <= c.NumReplicas+c.NumPutClients+c.NumGetClients; i++ {
		s.Procs = append(s.Procs, &mpexec.Proc{Group: "GetClient", Self: num(i), Arch: bug167.AGetClient,
			Locals: []mpexec.Local{
				{Spec: "req1", Res: "AGetClient.req"}, {Spec: "resp1", Res: "AGetClient.resp"},
				{Spec: "body0", Res: "AGetClient.body"}, {Spec: "replica1", Res: "AGetClient.replica"}},
			Config: clientCfg})
	}
	return s
}

func init() {
	Register("bug_167", func(n int, args map[string]int) *mpexec.System {
		return Bug167(Bug167Cfg{NumReplicas: n, NumPutClients: Arg(args, "puts", 1), NumGetClients: Arg(args, "gets", 1),
			ExploreFail: Arg(args, "fail", 1) == 1, PutClientRun: Arg(args, "putrun", 1) == 1, GetClientRun: Arg(args, "getrun", 1) == 1})
	})
}
