package sysdefs

import (
	"sort"

	"verifharness/internal/mpexec"
)

// Builder constructs a system of instance size n with extra integer parameters.
type Builder func(n int, args map[string]int) *mpexec.System

var registry = map[string]Builder{}

// Register makes a system available to cmd/sysdrv under name (call from init()).
func Register(name string, b Builder) { registry[name] = b }

func Lookup(name string) (Builder, bool) { b, ok := registry[name]; return b, ok }

func Names() []string {
	var out []string
	for k := range registry {
		out = append(out, k)
	}
	sort.Strings(out)
	return out
}

// Arg returns args[k] or d.
func Arg(args map[string]int, k string, d int) int {
	if v, ok := args[k]; ok {
		return v
	}
	return d
}
