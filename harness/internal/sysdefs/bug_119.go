package sysdefs

import (
	"strings"

	"github.com/DistCompiler/pgo/distsys"
	"github.com/DistCompiler/pgo/distsys/tla"
	bug119 "github.com/DistCompiler/pgo/test/files/general/bug_119.tla.gotests"

	"verifharness/internal/mpexec"
)

// stackFrames returns the records of the runtime's .stack (top of stack first).
func stackFrames(stack tla.Value) []tla.Value {
	n := int(tla.ModuleLen(stack).AsNumber())
	out := make([]tla.Value, 0, n)
	for i := 1; i <= n; i++ {
		out = append(out, stack.ApplyFunction(tla.MakeNumber(int32(i))))
	}
	return out
}

// frameHas reports whether the saved-state record of a frame has an entry for resource name.
func frameHas(fr tla.Value, name string) bool {
	return tla.ModuleInSymbol(tla.MakeString(name), tla.ModuleDomainSymbol(fr)).AsBool()
}

func frameGet(fr tla.Value, name string) tla.Value { return fr.ApplyFunction(tla.MakeString(name)) }

// ensureLocals returns a copy of archetype a whose preamble also creates the named procedure
// variables with the zero tla.Value (= defaultInitValue, exactly what Call's ensure-with-default
// creates on first use), so that they can be read for the state dump before the first call.
func ensureLocals(a distsys.MPCalArchetype, names ...string) distsys.MPCalArchetype {
	orig := a.PreAmble
	a.PreAmble = func(iface distsys.ArchetypeInterface) {
		orig(iface)
		for _, n := range names {
			iface.EnsureArchetypeResourceLocal(n, tla.Value{})
		}
	}
	return a
}

// Bug119 builds pgo/test/files/general/bug_119.tla.expectpcal (module `test`): the single process
// Server = "1" runs Counter(ref out), which calls procedure inc(self_, ref counter) with
// `ref value`. In the PlusCal expansion the ref parameter is substituted (procedure inc0(self_)
// works on `value` directly), so the Go-only local inc.counter (holding the name of the resource
// passed by reference) is carried between steps but is not a spec variable.
func Bug119() *mpexec.System {
	w := mpexec.NewWorld()
	w.Set("out", &mpexec.Val{V: tla.ModuledefaultInitValue})
	s := &mpexec.System{Name: "bug_119", W: w}
	s.Procs = append(s.Procs, &mpexec.Proc{Group: "Server", Self: tla.MakeString("1"), Single: true,
		Arch: ensureLocals(bug119.Counter, "inc.self_", "inc.counter"),
		Locals: []mpexec.Local{{Spec: "value", Res: "Counter.value"}, {Spec: "self_", Res: "inc.self_"},
			{Spec: "", Res: "inc.counter"}},
		HasStack: true,
		// PlusCal frame of a call of inc0: [procedure |-> "inc0", pc |-> <return label>, self_ |-> <saved self_>]
		StackProj: func(stack tla.Value) string {
			var fs []string
			for _, fr := range stackFrames(stack) {
				if !frameHas(fr, "inc.self_") {
					fs = append(fs, "[procedure |-> \"?\", unexpected |-> "+fr.String()+"]")
					continue
				}
				ret := frameGet(fr, ".pc").AsString()
				if i := strings.IndexByte(ret, '.'); i >= 0 {
					ret = ret[i+1:]
				}
				fs = append(fs, "[procedure |-> \"inc0\", pc |-> \""+ret+"\", self_ |-> "+frameGet(fr, "inc.self_").String()+"]")
			}
			return "<<" + strings.Join(fs, ", ") + ">>"
		},
		Config: func(p *mpexec.Proc) []distsys.MPCalContextConfigFn {
			return []distsys.MPCalContextConfigFn{distsys.EnsureArchetypeRefParam("out", mpexec.PlainVar(p.Sys.W, "out"))}
		}})
	return s
}

func init() {
	Register("bug_119", func(n int, args map[string]int) *mpexec.System { return Bug119() })
}
