package sysdefs

import (
	"fmt"

	"github.com/DistCompiler/pgo/distsys"
	"github.com/DistCompiler/pgo/distsys/tla"
	"github.com/DistCompiler/pgo/systems/pbkvs"

	"verifharness/internal/mpexec"
)

// PBCfg mirrors the CONSTANTS of the primary-backup key-value store specifications
// (systems/pbkvs/pbkvs.tla and its ancestor pgo/test/files/gogen/bug_167.tla).
type PBCfg struct {
	NumReplicas, NumClients int
	ExploreFail             bool
}

// pbWorld holds the mapping macros of pbkvs.tla / bug_167.tla over the world's globals. Each
// function implements the TEXT of one mapping macro; `net` names the global the macro is applied to.
type pbWorld struct {
	w *mpexec.World
}

func (e pbWorld) cell(net string, i tla.Value) *mpexec.Rec {
	return e.w.G[net].(*mpexec.Fn).Get(i).(*mpexec.Rec)
}

// ReliableFIFOLink
//
//	read  { assert $variable.enabled; await Len($variable.queue) > 0;
//	        with (readMsg = Head($variable.queue)) {
//	          $variable := [queue |-> Tail($variable.queue), enabled |-> $variable.enabled]; yield readMsg; } }
//	write { await $variable.enabled; yield [queue |-> Append($variable.queue, $value), enabled |-> $variable.enabled]; }
func (e pbWorld) reliableFIFOLink(net string) *mpexec.Res {
	return mpexec.Mapped(
		func(i tla.Value) (tla.Value, error) {
			r := e.cell(net, i)
			if !r.F["enabled"].(*mpexec.Val).V.AsBool() {
				return tla.Value{}, fmt.Errorf("%w: ReliableFIFOLink read of %s[%v] while it is disabled", distsys.ErrAssertionFailed, net, i)
			}
			q := r.F["queue"].(*mpexec.Seq)
			if len(q.Items) == 0 {
				return tla.Value{}, mpexec.Abort
			}
			m := q.Items[0]
			q.Items = append([]tla.Value(nil), q.Items[1:]...)
			return m, nil
		},
		func(i tla.Value, v tla.Value) error {
			r := e.cell(net, i)
			if !r.F["enabled"].(*mpexec.Val).V.AsBool() {
				return mpexec.Abort
			}
			q := r.F["queue"].(*mpexec.Seq)
			q.Items = append(q.Items, v)
			return nil
		})
}

// NetworkToggle
//
//	read  { yield $variable.enabled; }
//	write { yield [queue |-> $variable.queue, enabled |-> $value]; }
func (e pbWorld) networkToggle(net string) *mpexec.Res {
	return mpexec.Mapped(
		func(i tla.Value) (tla.Value, error) { return e.cell(net, i).F["enabled"].(*mpexec.Val).V, nil },
		func(i tla.Value, v tla.Value) error { e.cell(net, i).Set("enabled", &mpexec.Val{V: v}); return nil })
}

// NetworkBufferLength
//
//	read  { yield Len($variable.queue); }
//	write { assert FALSE; yield $value; }
func (e pbWorld) networkBufferLength(net string) *mpexec.Res {
	return mpexec.Mapped(
		func(i tla.Value) (tla.Value, error) {
			return num(len(e.cell(net, i).F["queue"].(*mpexec.Seq).Items)), nil
		},
		func(i tla.Value, v tla.Value) error {
			return fmt.Errorf("%w: NetworkBufferLength write (assert FALSE)", distsys.ErrAssertionFailed)
		})
}

// PerfectFD
//
//	read  { yield $variable; }
//	write { yield $value; }
func (e pbWorld) perfectFD(fd string) *mpexec.Res { return mpexec.PlainFn(e.w, fd) }

// PracticalFD (declared by the specifications, not used by any instance of pbkvs.tla / bug_167.tla)
//
//	read  { if ($variable = FALSE) { either { yield TRUE; } or { yield FALSE; }; } else { yield $variable; }; }
//	write { yield $value; }
func (e pbWorld) practicalFD(p *mpexec.Proc, fd string) *mpexec.Res {
	return mpexec.Mapped(
		func(i tla.Value) (tla.Value, error) {
			cur := e.w.G[fd].(*mpexec.Fn).Get(i).(*mpexec.Val).V
			if cur.Equal(tla.ModuleFALSE) {
				return tla.MakeBool(p.EnvChoose(fmt.Sprintf("%s[%v]", fd, i), 2) == 0), nil
			}
			return cur, nil
		},
		func(i tla.Value, v tla.Value) error { e.w.G[fd].(*mpexec.Fn).Set(i, &mpexec.Val{V: v}); return nil })
}

// FileSystem applied to `ref fs[_][_]`
//
//	read  { yield $variable; }
//	write { yield $value; }
func (e pbWorld) fileSystem(fs string) *mpexec.Res {
	return &mpexec.Res{Idx: func(_ distsys.ArchetypeInterface, i tla.Value) (distsys.ArchetypeResource, error) {
		return mpexec.Mapped(
			func(k tla.Value) (tla.Value, error) {
				return e.w.G[fs].(*mpexec.Fn).Get(i).(*mpexec.Fn).Get(k).(*mpexec.Val).V, nil
			},
			func(k tla.Value, v tla.Value) error {
				e.w.G[fs].(*mpexec.Fn).Get(i).(*mpexec.Fn).Set(k, &mpexec.Val{V: v})
				return nil
			}), nil
	}}
}

// LeaderElection
//
//	read  { if (Cardinality($variable) > 0) { yield CHOOSE x \in $variable: \A r \in $variable: x =< r; } else { yield NULL; } }
//	write { yield $variable \ {$value}; }
//
// The CHOOSE is determined (the least element), so it is computed, not chosen.
func (e pbWorld) leaderElection(primary string) *mpexec.Res {
	return mpexec.Leaf(
		func() (tla.Value, error) {
			set := e.w.G[primary].(*mpexec.Val).V
			if set.AsSet().Len() == 0 {
				return num(0), nil // NULL == 0
			}
			var least tla.Value
			first := true
			it := set.AsSet().Iterator()
			for !it.Done() {
				x, _, _ := it.Next()
				if first || tla.ModuleLessThanSymbol(x, least).AsBool() {
					least, first = x, false
				}
			}
			return least, nil
		},
		func(v tla.Value) error {
			set := e.w.G[primary].(*mpexec.Val).V
			e.w.G[primary] = &mpexec.Val{V: tla.ModuleBackslashSymbol(set, tla.MakeSet(v))}
			return nil
		})
}

// Channel
//
//	read  { await Len($variable) > 0; with (res = Head($variable)) { $variable := Tail($variable); yield res; }; }
//	write { yield Append($variable, $value); }
func (e pbWorld) channel(name string) *mpexec.Res {
	return mpexec.Leaf(
		func() (tla.Value, error) {
			q := e.w.G[name].(*mpexec.Seq)
			if len(q.Items) == 0 {
				return tla.Value{}, mpexec.Abort
			}
			h := q.Items[0]
			q.Items = append([]tla.Value(nil), q.Items[1:]...)
			return h, nil
		},
		func(v tla.Value) error {
			q := e.w.G[name].(*mpexec.Seq)
			q.Items = append(q.Items, v)
			return nil
		})
}

func pbRec(kv ...interface{}) tla.Value {
	var fs []tla.RecordField
	for i := 0; i < len(kv); i += 2 {
		fs = append(fs, tla.RecordField{Key: tla.MakeString(kv[i].(string)), Value: kv[i+1].(tla.Value)})
	}
	return tla.MakeRecord(fs)
}

// pbGlobals sets the global variables shared by pbkvs.tla and bug_167.tla as in their Init:
//
//	network = [id \in NODE_SET, typ \in MSG_INDEX_SET |-> [queue |-> <<>>, enabled |-> TRUE]]
//	fd = [id \in REPLICA_SET |-> FALSE]
//	fs = [id \in REPLICA_SET |-> [key \in KEY_SET |-> ""]]
func pbGlobals(w *mpexec.World, c PBCfg) {
	network := mpexec.NewFn()
	for id := 1; id <= c.NumReplicas+c.NumClients; id++ {
		for typ := 1; typ <= 2; typ++ {
			r := mpexec.NewRec()
			r.Set("queue", &mpexec.Seq{})
			r.Set("enabled", &mpexec.Val{V: tla.ModuleTRUE})
			network.Set(tla.MakeTuple(num(id), num(typ)), r)
		}
	}
	w.Set("network", network)
	fd := mpexec.NewFn()
	fs := mpexec.NewFn()
	for id := 1; id <= c.NumReplicas; id++ {
		fd.Set(num(id), &mpexec.Val{V: tla.ModuleFALSE})
		f := mpexec.NewFn()
		f.Set(tla.MakeString("KEY1"), &mpexec.Val{V: tla.MakeString("")})
		fs.Set(num(id), f)
	}
	w.Set("fd", fd)
	w.Set("fs", fs)
}

// Pbkvs builds systems/pbkvs/pbkvs.tla.
func Pbkvs(c PBCfg) *mpexec.System {
	w := mpexec.NewWorld()
	pbGlobals(w, c)
	// primary = REPLICA_SET
	w.Set("primary", &mpexec.Val{V: tla.ModuleDotDotSymbol(num(1), num(c.NumReplicas))})
	// clientInput = <<[typ |-> PUT_REQ, body |-> [key |-> KEY1, value |-> VALUE1]],
	//                 [typ |-> PUT_REQ, body |-> [key |-> KEY1, value |-> VALUE2]],
	//                 [typ |-> GET_REQ, body |-> [key |-> KEY1]]>>
	key1 := tla.MakeString("KEY1")
	w.Set("clientInput", &mpexec.Seq{Items: []tla.Value{
		pbRec("typ", num(3), "body", pbRec("key", key1, "value", tla.MakeString("VALUE1"))),
		pbRec("typ", num(3), "body", pbRec("key", key1, "value", tla.MakeString("VALUE2"))),
		pbRec("typ", num(1), "body", pbRec("key", key1)),
	}})
	// clientOutput = defaultInitValue
	w.Set("clientOutput", &mpexec.Val{})

	e := pbWorld{w}
	s := &mpexec.System{Name: "pbkvs", W: w, Consts: []distsys.MPCalContextConfigFn{
		distsys.DefineConstantValue("NUM_REPLICAS", num(c.NumReplicas)),
		distsys.DefineConstantValue("NUM_CLIENTS", num(c.NumClients)),
		distsys.DefineConstantValue("EXPLORE_FAIL", tla.MakeBool(c.ExploreFail)),
		distsys.DefineConstantValue("DEBUG", tla.ModuleFALSE),
	}}
	// fair process (Replica \in REPLICA_SET) == instance AReplica(ref network[_], ref fs[_][_], ref fd[_], ref network[_], ref primary, ref network[_])
	//   mapping @1[_] via ReliableFIFOLink  @2[_][_] via FileSystem  @3[_] via PerfectFD
	//   mapping @4[_] via NetworkToggle     @5 via LeaderElection    @6[_] via NetworkBufferLength
	for i := 1; i <= c.NumReplicas; i++ {
		s.Procs = append(s.Procs, &mpexec.Proc{Group: "Replica", Self: num(i), Arch: pbkvs.AReplica,
			Locals: []mpexec.Local{
				{Spec: "req", Res: "AReplica.req"}, {Spec: "respBody", Res: "AReplica.respBody"}, {Spec: "respTyp", Res: "AReplica.respTyp"},
				{Spec: "idx", Res: "AReplica.idx"}, {Spec: "repReq", Res: "AReplica.repReq"}, {Spec: "repResp", Res: "AReplica.repResp"},
				{Spec: "resp", Res: "AReplica.resp"}, {Spec: "replicaSet", Res: "AReplica.replicaSet"}, {Spec: "shouldSync", Res: "AReplica.shouldSync"},
				{Spec: "lastPutBody", Res: "AReplica.lastPutBody"}, {Spec: "replica", Res: "AReplica.replica"}},
			Config: func(p *mpexec.Proc) []distsys.MPCalContextConfigFn {
				return []distsys.MPCalContextConfigFn{
					distsys.EnsureArchetypeRefParam("net", e.reliableFIFOLink("network")),
					distsys.EnsureArchetypeRefParam("fs", e.fileSystem("fs")),
					distsys.EnsureArchetypeRefParam("fd", e.perfectFD("fd")),
					distsys.EnsureArchetypeRefParam("netEnabled", e.networkToggle("network")),
					distsys.EnsureArchetypeRefParam("primary", e.leaderElection("primary")),
					distsys.EnsureArchetypeRefParam("netLen", e.networkBufferLength("network")),
				}
			}})
	}
	// fair process (Client \in CLIENT_SET) == instance AClient(ref network[_], ref fd[_], ref primary, ref network[_], ref clientInput, ref clientOutput)
	//   mapping @1[_] via ReliableFIFOLink  @2[_] via PerfectFD  @3 via LeaderElection
	//   mapping @4[_] via NetworkBufferLength  @5 via Channel    (clientOutput is not mapped)
	for i := c.NumReplicas + 1; i <= c.NumReplicas+c.NumClients; i++ {
		s.Procs = append(s.Procs, &mpexec.Proc{Group: "Client", Self: num(i), Arch: pbkvs.AClient,
			Locals: []mpexec.Local{
				{Spec: "req0", Res: "AClient.req"}, {Spec: "resp0", Res: "AClient.resp"}, {Spec: "msg", Res: "AClient.msg"},
				{Spec: "replica0", Res: "AClient.replica"}, {Spec: "idx0", Res: "AClient.idx"}},
			Config: func(p *mpexec.Proc) []distsys.MPCalContextConfigFn {
				return []distsys.MPCalContextConfigFn{
					distsys.EnsureArchetypeRefParam("net", e.reliableFIFOLink("network")),
					distsys.EnsureArchetypeRefParam("fd", e.perfectFD("fd")),
					distsys.EnsureArchetypeRefParam("primary", e.leaderElection("primary")),
					distsys.EnsureArchetypeRefParam("netLen", e.networkBufferLength("network")),
					distsys.EnsureArchetypeRefParam("input", e.channel("clientInput")),
					distsys.EnsureArchetypeRefParam("output", mpexec.PlainVar(w, "clientOutput")),
				}
			}})
	}
	// the mayFail macro: second choice point of these labels (first of replicaLoop), last option = crash
	s.CrashChoices = []string{"AReplica.replicaLoop.0", "AReplica.sndSyncReqLoop.1", "AReplica.sndReplicaReqLoop.1", "AReplica.rcvReplicaRespLoop.1"}
	// client-visible history (C14): invocation when a client takes a request from the input channel
	// (clientLoop commits), response when it accepts the answer carrying its request id (rcvResp
	// commits with the next label clientLoop) and hands the content to the output
	s.Observe = func(p *mpexec.Proc, label, newPC string, local func(res string) tla.Value) interface{} {
		if p.Group != "Client" {
			return nil
		}
		f := func(v tla.Value, name string) tla.Value { return v.ApplyFunction(tla.MakeString(name)) }
		str := func(v tla.Value) string {
			if v.IsString() {
				return v.AsString()
			}
			return v.String()
		}
		switch {
		case label == "clientLoop" && newPC == "sndReq":
			msg := local("AClient.msg")
			body := f(msg, "body")
			ev := map[string]interface{}{"op": "inv", "client": p.Self.String(), "key": str(f(body, "key")), "idx": local("AClient.idx").String()}
			if f(msg, "typ").Equal(num(3)) {
				ev["kind"] = "put"
				ev["val"] = str(f(body, "value"))
			} else {
				ev["kind"] = "get"
			}
			return ev
		case label == "rcvResp" && newPC == "clientLoop":
			resp := local("AClient.resp")
			msg := local("AClient.msg")
			content := str(f(f(resp, "body"), "content"))
			ev := map[string]interface{}{"op": "ret", "client": p.Self.String(), "idx": f(resp, "id").String(), "from": f(resp, "from").String()}
			if f(msg, "typ").Equal(num(3)) {
				// a Put is acknowledged with ACK_MSG_BODY; the history records the value it installed
				ev["ok"] = content == "ack-body"
				ev["rval"] = str(f(f(msg, "body"), "value"))
				ev["ack"] = content
			} else {
				ev["ok"] = content != "" // fs[_][key] = "" is the store's "no value"
				ev["rval"] = content
			}
			return ev
		}
		return nil
	}
	return s
}

func init() {
	Register("pbkvs", func(n int, args map[string]int) *mpexec.System {
		return Pbkvs(PBCfg{NumReplicas: n, NumClients: Arg(args, "clients", 1), ExploreFail: Arg(args, "fail", 1) == 1})
	})
}
