// Package c03val is the value bridge of the C03/C05 drivers: it builds distsys/tla values from the
// constructor terms exported by TLC (spec/C03/ValTerms.tla) using only the public constructors
// of the library, and prints library values as TLA+ expressions by walking them through the
// public inspection API (IsSet/AsSet/...), independently of Value.String().
package c03val

import (
	"bufio"
	"fmt"
	"os"
	"strconv"
	"strings"

	"github.com/DistCompiler/pgo/distsys/tla"
)

// Term mirrors the term records of ValTerms.tla.
type Term struct {
	K string `json:"k"`
	S string `json:"s"`
	N int64  `json:"n"`
	A []Term `json:"a"`
}

// Build constructs the value a term denotes, honouring the insertion order of the term.
func Build(t Term) tla.Value {
	switch t.K {
	case "bool":
		return tla.MakeBool(t.N == 1)
	case "int":
		return tla.MakeNumber(int32(t.N))
	case "str":
		return tla.MakeString(t.S)
	case "set":
		ms := make([]tla.Value, 0, len(t.A))
		for _, c := range t.A {
			ms = append(ms, Build(c))
		}
		return tla.MakeSet(ms...)
	case "tup":
		ms := make([]tla.Value, 0, len(t.A))
		for _, c := range t.A {
			ms = append(ms, Build(c))
		}
		return tla.MakeTuple(ms...)
	case "fn":
		var fs []tla.RecordField
		for i := 0; i+1 < len(t.A); i += 2 {
			fs = append(fs, tla.RecordField{Key: Build(t.A[i]), Value: Build(t.A[i+1])})
		}
		return tla.MakeRecord(fs)
	}
	panic("c03val: unknown term kind " + t.K)
}

// BuildAlt constructs the same value through other public routes of the library (set union of
// singletons, Append chains, :> / @@ chains), used by C05 as additional construction orders.
func BuildAlt(t Term) tla.Value {
	switch t.K {
	case "set":
		acc := tla.MakeSet()
		for _, c := range t.A {
			acc = tla.ModuleUnionSymbol(acc, tla.MakeSet(BuildAlt(c)))
		}
		return acc
	case "tup":
		acc := tla.MakeTuple()
		for _, c := range t.A {
			acc = tla.ModuleAppend(acc, BuildAlt(c))
		}
		return acc
	case "fn":
		acc := tla.MakeRecord(nil)
		for i := 0; i+1 < len(t.A); i += 2 {
			// later bindings win: the LEFT operand of @@ has priority
			acc = tla.ModuleDoubleAtSignSymbol(tla.ModuleColonGreaterThanSymbol(BuildAlt(t.A[i]), BuildAlt(t.A[i+1])), acc)
		}
		return acc
	}
	return Build(t)
}

const minIntTxt = "((-2147483647) - 1)"

// Print renders a library value as a TLA+ expression TLC can evaluate.
func Print(v tla.Value) string {
	var b strings.Builder
	print1(&b, v)
	return b.String()
}

func print1(b *strings.Builder, v tla.Value) {
	switch {
	case v.IsBool():
		if v.AsBool() {
			b.WriteString("TRUE")
		} else {
			b.WriteString("FALSE")
		}
	case v.IsNumber():
		n := v.AsNumber()
		switch {
		case n == -2147483648:
			b.WriteString(minIntTxt)
		case n < 0:
			b.WriteString("(" + strconv.Itoa(int(n)) + ")")
		default:
			b.WriteString(strconv.Itoa(int(n)))
		}
	case v.IsString():
		b.WriteString(QuoteTLA(v.AsString()))
	case v.IsSet():
		b.WriteString("{")
		it := v.AsSet().Iterator()
		first := true
		for !it.Done() {
			e, _, _ := it.Next()
			if !first {
				b.WriteString(", ")
			}
			first = false
			print1(b, e)
		}
		b.WriteString("}")
	case v.IsTuple():
		b.WriteString("<<")
		it := v.AsTuple().Iterator()
		first := true
		for !it.Done() {
			_, e := it.Next()
			if !first {
				b.WriteString(", ")
			}
			first = false
			print1(b, e)
		}
		b.WriteString(">>")
	case v.IsFunction():
		f := v.AsFunction()
		if f.Len() == 0 {
			b.WriteString("<<>>")
			return
		}
		b.WriteString("(")
		it := f.Iterator()
		first := true
		for !it.Done() {
			k, val, _ := it.Next()
			if !first {
				b.WriteString(" @@ ")
			}
			first = false
			b.WriteString("(")
			print1(b, k)
			b.WriteString(" :> ")
			print1(b, val)
			b.WriteString(")")
		}
		b.WriteString(")")
	default:
		// the zero Value (defaultInitValue) or an unknown kind: not a value of the universe
		b.WriteString("\"<<not-a-tla-value:" + strings.ReplaceAll(fmt.Sprint(v), "\"", "'") + ">>\"")
	}
}

// QuoteTLA quotes a printable-ASCII string as a TLA+ string literal.
func QuoteTLA(s string) string {
	var b strings.Builder
	b.WriteByte('"')
	for _, c := range []byte(s) {
		switch c {
		case '"':
			b.WriteString("\\\"")
		case '\\':
			b.WriteString("\\\\")
		default:
			b.WriteByte(c)
		}
	}
	b.WriteByte('"')
	return b.String()
}

// FixMinInt rewrites the literal -2147483648 (which TLC's parser cannot read although it denotes
// a 32-bit integer) inside text printed by the library, so TLC can evaluate the text.
func FixMinInt(s string) string {
	return strings.ReplaceAll(s, "-2147483648", minIntTxt)
}

// ReadLines calls f on every non-empty line of a file.
func ReadLines(path string, f func([]byte)) {
	fh, err := os.Open(path)
	if err != nil {
		panic(err)
	}
	defer fh.Close()
	sc := bufio.NewScanner(fh)
	sc.Buffer(make([]byte, 1<<20), 1<<27)
	for sc.Scan() {
		if len(strings.TrimSpace(sc.Text())) > 0 {
			f(sc.Bytes())
		}
	}
}
