module verifharness

go 1.23.0

toolchain go1.24.0
