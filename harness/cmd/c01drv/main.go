// c01drv: replays TLC-generated walks of spec/C01/CritSec.tla on hand-built archetypes bound
// to REAL archetype resources under the real MPCalContext.Run, and records what the code did.
//
// A case (one line of -cases) is: a set of resource instances (abstract kind + concrete
// implementation), and a list of steps: "feed" (the environment delivers messages to an input
// stream) and "att" (one attempt of a critical section: operations, optionally one injected
// refusal of an operation, and how the attempt ends: commit, the body fails (false await), or
// a resource's PreCommit is refused).
//
// Every resource passed to the archetype by reference is wrapped in a transparent
// fault-injecting decorator (type faulty). Recorded per attempt, as ndjson events (see
// spec/C01/CritSecObs.tla): begin, op (with the value the code returned), fail, end (commit or
// abort as reported by the context's own TraceRecorder), calls (which resource methods Run
// invoked, for the M-level conformance spec CritSecProto.tla), and obs: the committed state
// observed OUT OF BAND after the attempt (Persistable.GetState, ReadArchetypeResourceLocal,
// files on disk, the database, the Go channel, the peer's mailbox, the 2PC receiver's state).
//
// The driver does not judge anything: TLC folds the events into CritSecObs.tla.
package main

import (
	"bufio"
	"bytes"
	"encoding/gob"
	"encoding/json"
	"errors"
	"flag"
	"fmt"
	"io"
	"log"
	"net"
	"os"
	"os/exec"
	"path/filepath"
	"strconv"
	"strings"
	"sync"
	"time"

	"github.com/DistCompiler/pgo/distsys"
	"github.com/DistCompiler/pgo/distsys/hashmap"
	"github.com/DistCompiler/pgo/distsys/resources"
	"github.com/DistCompiler/pgo/distsys/tla"
	"github.com/DistCompiler/pgo/distsys/trace"
	"github.com/DistCompiler/pgo/systems/raftkvs"
	"github.com/dgraph-io/badger/v3"
)

// ---------------------------------------------------------------- case format

type ResSpec struct {
	Name string `json:"name"`
	Kind string `json:"kind"`
	Impl string `json:"impl"`
	Init []int  `json:"init"`
	Grp  string `json:"grp"` // archetype parameter holding the instance (several instances may share a map resource)
	Idx  int    `json:"idx"` // index of the instance inside Grp (0: the parameter itself)
}
type OpSpec struct {
	R   string `json:"r"`
	O   string `json:"o"`
	I   int    `json:"i"`
	A   []int  `json:"a"`
	Inj string `json:"inj"` // "", "pre", "post"
}
type Step struct {
	T     string   `json:"t"` // "feed" | "att"
	R     string   `json:"r"`
	A     []int    `json:"a"`
	Ops   []OpSpec `json:"ops"`
	End   string   `json:"end"` // "commit" | "body" | "pre"
	PR    string   `json:"pr"`  // resource whose PreCommit is refused
	PM    string   `json:"pm"`  // "pre" (before the resource's own PreCommit), "post" (after it succeeded), "real" (the resource itself refuses)
	Probe bool     `json:"probe"`
}
type Case struct {
	ID    string    `json:"id"`
	Cfg   string    `json:"cfg"`
	Inst  string    `json:"inst"`
	Res   []ResSpec `json:"res"`
	Steps []Step    `json:"steps"`
}

type rec map[string]interface{}

var iface0 = distsys.ArchetypeInterface{}

func ints(xs []int) []int {
	if xs == nil {
		return []int{}
	}
	return xs
}

// ---------------------------------------------------------------- values

func toVal(rs ResSpec, a []int) tla.Value {
	if rs.Impl == "file" {
		return tla.MakeString(strconv.Itoa(a[0]))
	}
	if rs.Kind == "fn" && len(a) != 1 {
		vs := make([]tla.Value, len(a))
		for i, x := range a {
			vs[i] = tla.MakeNumber(int32(x))
		}
		return tla.MakeTuple(vs...)
	}
	return tla.MakeNumber(int32(a[0]))
}

func wholeVal(rs ResSpec, a []int) tla.Value {
	if rs.Kind == "fn" {
		vs := make([]tla.Value, len(a))
		for i, x := range a {
			vs[i] = tla.MakeNumber(int32(x))
		}
		return tla.MakeTuple(vs...)
	}
	return toVal(rs, a)
}

// fromVal flattens a value into the integer sequences of the abstract store.
func fromVal(v tla.Value) (out []int) {
	defer func() {
		if recover() != nil {
			out = []int{-9}
		}
	}()
	v = v.StripVClock()
	switch {
	case v.Equal(tla.Value{}):
		return []int{-3}
	case v.IsNumber():
		return []int{int(v.AsNumber())}
	case v.IsString():
		n, err := strconv.Atoi(v.AsString())
		if err != nil {
			return []int{-4}
		}
		return []int{n}
	case v.IsBool():
		if v.AsBool() {
			return []int{-1}
		}
		return []int{-2}
	case v.IsTuple():
		out = []int{}
		it := v.AsTuple().Iterator()
		for !it.Done() {
			_, e := it.Next()
			out = append(out, fromVal(e)...)
		}
		return out
	}
	return []int{-5}
}

// ---------------------------------------------------------------- one case

type armed struct {
	param string
	mode  string
}

type inst struct {
	spec  ResSpec
	param string
	path  []tla.Value
	obs   func() ([]int, bool)                     // out-of-band view of the committed state; nil: none
	feed  func(vs []int) error                     // input streams
	drain func(want int, final bool) ([]int, bool) // output streams: messages that left since the last call; complete?
}

type caseRun struct {
	c     Case
	mu    sync.Mutex
	ev    []rec
	insts map[string]*inst
	order []string
	// archetype parameters
	params  map[string]distsys.ArchetypeResource
	plist   []string
	alocals []*inst
	ctx     *distsys.MPCalContext

	armedOp  *armed
	armedPre *armed
	realPre  map[string]bool          // the resource itself must refuse its next PreCommit
	latePre  map[string]chan struct{} // ... and answer only after the resource's own timeout has expired
	lateAck  map[string]bool          // the late answer is the ordinary ack, not "aborted"
	slowAbt  map[string]bool          // delay the next Abort of this parameter a little
	calls    map[string][]string

	atts      []Step
	pos       int
	attSends  map[string]int
	expected  map[string]int
	got       map[string]int
	closers   []func()
	dir       string
	timeouts  int
	inAttempt bool
	cur       rec // the attempt being recorded (emitted once its outcome and the observation after it are known)
	curOps    []rec
	built     bool
	first     bool
	stop      bool // a watchdog fired: the rest of the case would only wait again
}

func (cr *caseRun) emit(r rec) {
	cr.mu.Lock()
	cr.ev = append(cr.ev, r)
	cr.mu.Unlock()
}

func (cr *caseRun) setFail(at, param, mode string) {
	cr.mu.Lock()
	if cr.cur != nil && cr.cur["fail"] == "" {
		cr.cur["fail"], cr.cur["failr"], cr.cur["failm"] = at, param, mode
	}
	cr.mu.Unlock()
}

func (cr *caseRun) call(param, what string) {
	cr.mu.Lock()
	cr.calls[param] = append(cr.calls[param], what)
	cr.mu.Unlock()
}

func (cr *caseRun) takeOp(param string) string {
	cr.mu.Lock()
	defer cr.mu.Unlock()
	if cr.armedOp != nil && cr.armedOp.param == param {
		m := cr.armedOp.mode
		return m
	}
	return ""
}
func (cr *caseRun) clearOp() {
	cr.mu.Lock()
	cr.armedOp = nil
	cr.mu.Unlock()
}
func (cr *caseRun) takePre(param string) string {
	cr.mu.Lock()
	defer cr.mu.Unlock()
	if cr.armedPre != nil && cr.armedPre.param == param {
		m := cr.armedPre.mode
		cr.armedPre = nil
		return m
	}
	return ""
}
func (cr *caseRun) takeLate(param string) chan struct{} {
	cr.mu.Lock()
	defer cr.mu.Unlock()
	ch := cr.latePre[param]
	return ch
}

// lateDone tells a nested archetype that is holding back its answer that the resource has
// stopped waiting for it (the resource's PreCommit returned).
func (cr *caseRun) lateDone(param string) {
	cr.mu.Lock()
	if ch := cr.latePre[param]; ch != nil {
		close(ch)
		delete(cr.latePre, param)
		cr.slowAbt[param] = true
	}
	cr.mu.Unlock()
}

func (cr *caseRun) takeReal(param string) bool {
	cr.mu.Lock()
	defer cr.mu.Unlock()
	if cr.realPre[param] {
		delete(cr.realPre, param)
		return true
	}
	return false
}

// ---------------------------------------------------------------- the fault-injecting decorator

type faulty struct {
	cr    *caseRun
	param string
	inner distsys.ArchetypeResource
	top   bool
	idxd  bool // reached through Index
}

var _ distsys.ArchetypeResource = &faulty{}

func (f *faulty) ReadValue(iface distsys.ArchetypeInterface) (tla.Value, error) {
	f.cr.call(f.param, "R")
	m := f.cr.takeOp(f.param)
	if m == "pre" && !f.idxd {
		return tla.Value{}, distsys.ErrCriticalSectionAborted
	}
	v, err := f.inner.ReadValue(iface)
	if m == "post" && err == nil {
		return tla.Value{}, distsys.ErrCriticalSectionAborted
	}
	return v, err
}

func (f *faulty) WriteValue(iface distsys.ArchetypeInterface, value tla.Value) error {
	f.cr.call(f.param, "W")
	m := f.cr.takeOp(f.param)
	if m == "pre" && !f.idxd {
		return distsys.ErrCriticalSectionAborted
	}
	err := f.inner.WriteValue(iface, value)
	if m == "post" && err == nil {
		return distsys.ErrCriticalSectionAborted
	}
	return err
}

func (f *faulty) Index(iface distsys.ArchetypeInterface, index tla.Value) (distsys.ArchetypeResource, error) {
	f.cr.call(f.param, "I")
	// an indexed operation is refused "pre" at the Index call itself, before the element is realised
	if f.cr.takeOp(f.param) == "pre" {
		return nil, distsys.ErrCriticalSectionAborted
	}
	sub, err := f.inner.Index(iface, index)
	if err != nil {
		return nil, err
	}
	return &faulty{cr: f.cr, param: f.param, inner: sub, idxd: true}, nil
}

func (f *faulty) PreCommit(iface distsys.ArchetypeInterface) chan error {
	f.cr.call(f.param, "P")
	m := f.cr.takePre(f.param)
	if m == "pre" {
		f.cr.setFail("pre", f.param, "pre")
		ch := make(chan error, 1)
		ch <- distsys.ErrCriticalSectionAborted
		return ch
	}
	ch := f.inner.PreCommit(iface)
	if m == "post" {
		out := make(chan error, 1)
		go func() {
			if ch != nil {
				<-ch
			}
			f.cr.setFail("pre", f.param, "post")
			out <- distsys.ErrCriticalSectionAborted
		}()
		return out
	}
	if ch == nil {
		return nil
	}
	out := make(chan error, 1)
	go func() {
		e := <-ch
		if e != nil {
			f.cr.setFail("pre", f.param, "real")
		}
		f.cr.lateDone(f.param)
		out <- e
	}()
	return out
}

func (f *faulty) Commit(iface distsys.ArchetypeInterface) chan struct{} {
	f.cr.call(f.param, "C")
	return f.inner.Commit(iface)
}

func (f *faulty) Abort(iface distsys.ArchetypeInterface) chan struct{} {
	f.cr.call(f.param, "A")
	f.cr.mu.Lock()
	slow := f.cr.slowAbt[f.param]
	delete(f.cr.slowAbt, f.param)
	f.cr.mu.Unlock()
	if slow {
		// let the late answer of the nested archetype be published before Abort starts, so that the
		// answer and the nested archetype's next receive are both ready when Abort looks
		time.Sleep(30 * time.Millisecond)
	}
	return f.inner.Abort(iface)
}

func (f *faulty) Close() error { return f.inner.Close() }

// ---------------------------------------------------------------- helpers for building resources

func freeAddr() string {
	l, err := net.Listen("tcp", "127.0.0.1:0")
	if err != nil {
		panic(err)
	}
	a := l.Addr().String()
	l.Close()
	return a
}

func decodeState(p resources.Persistable) ([]int, bool) {
	done := make(chan []int, 1)
	go func() {
		b, err := p.GetState()
		if err != nil {
			done <- []int{-7}
			return
		}
		var v tla.Value
		if err := gob.NewDecoder(bytes.NewReader(b)).Decode(&v); err != nil {
			done <- []int{-8}
			return
		}
		done <- fromVal(v)
	}()
	select {
	case r := <-done:
		return r, true
	case <-time.After(20 * time.Second):
		return nil, false // e.g. a lock that was never released; reported as a watchdog event
	}
}

// drainChan waits for the want messages already committed (never concludes from a delay that a
// message is lost) and then takes whatever else is there without waiting.
func drainChan(ch chan tla.Value, want int) ([]int, bool) {
	got := []int{}
	deadline := time.After(30 * time.Second)
	for len(got) < want {
		select {
		case v := <-ch:
			got = append(got, fromVal(v)...)
		case <-deadline:
			return got, false
		}
	}
	for {
		select {
		case v := <-ch:
			got = append(got, fromVal(v)...)
		default:
			return got, true
		}
	}
}

func openDB() *badger.DB {
	opts := badger.DefaultOptions("").WithInMemory(true).WithLogger(nil).
		WithMemTableSize(1 << 20).WithNumMemtables(2).WithBlockCacheSize(1 << 20).WithIndexCacheSize(0).
		WithNumCompactors(2).WithValueThreshold(1 << 10).WithValueLogFileSize(1 << 20)
	db, err := badger.Open(opts)
	if err != nil {
		panic(err)
	}
	return db
}

func initVal(rs ResSpec) tla.Value {
	if rs.Kind == "pcell" {
		return toVal(rs, rs.Init[:1])
	}
	return wholeVal(rs, rs.Init)
}

// spy is the single 2PC replica of a TwoPC resource: an always-accepting acceptor played by the
// driver (public ReplicaHandle interface), which can be told to refuse one PreCommit.
type spy struct {
	cr    *caseRun
	param string
}

func (s *spy) Send(req resources.TwoPCRequest, reply *resources.TwoPCResponse) chan error {
	ch := make(chan error, 1)
	if req.RequestType == resources.PreCommit && s.cr.takeReal(s.param) {
		*reply = resources.TwoPCResponse{Accept: false, Version: req.Version - 1}
	} else {
		*reply = resources.TwoPCResponse{Accept: true}
	}
	ch <- nil
	return ch
}
func (s *spy) Close() error { return nil }

// the nested archetype: a one-cell transactional store speaking the nestedarch.go protocol,
// written the way PGo emits archetypes (one label, Read/Write through the interface).
func cellArchetype(cr *caseRun, param string, init tla.Value) distsys.MPCalArchetype {
	str := tla.MakeString
	ack := func(tpe string, extra ...tla.RecordField) tla.Value {
		return tla.MakeRecord(append([]tla.RecordField{{Key: str("tpe"), Value: str(tpe)}}, extra...))
	}
	return distsys.MPCalArchetype{
		Name:              "Cell",
		Label:             "Cell.loop",
		RequiredRefParams: []string{"Cell.in", "Cell.out"},
		JumpTable: distsys.MakeMPCalJumpTable(
			distsys.MPCalCriticalSection{Name: "Cell.loop", Body: func(iface distsys.ArchetypeInterface) error {
				in, err := iface.RequireArchetypeResourceRef("Cell.in")
				if err != nil {
					return err
				}
				out, err := iface.RequireArchetypeResourceRef("Cell.out")
				if err != nil {
					return err
				}
				cur := iface.RequireArchetypeResource("Cell.cur")
				com := iface.RequireArchetypeResource("Cell.com")
				req, err := iface.Read(in, nil)
				if err != nil {
					return err
				}
				var resp tla.Value
				switch req.ApplyFunction(str("tpe")).AsString() {
				case "read_req":
					v, err := iface.Read(cur, nil)
					if err != nil {
						return err
					}
					resp = ack("read_ack", tla.RecordField{Key: str("value"), Value: v})
				case "write_req":
					if err := iface.Write(cur, nil, req.ApplyFunction(str("value"))); err != nil {
						return err
					}
					resp = ack("write_ack")
				case "precommit_req":
					if late := cr.takeLate(param); late != nil {
						// refuse, but only once the resource has given up waiting (its 100 ms timeout)
						select {
						case <-late:
						case <-time.After(20 * time.Second):
						}
						cr.mu.Lock()
						plain := cr.lateAck[param]
						delete(cr.lateAck, param)
						cr.mu.Unlock()
						if plain {
							resp = ack("precommit_ack")
						} else {
							resp = ack("aborted")
						}
					} else if cr.takeReal(param) {
						resp = ack("aborted")
					} else {
						resp = ack("precommit_ack")
					}
				case "abort_req":
					v, err := iface.Read(com, nil)
					if err != nil {
						return err
					}
					if err := iface.Write(cur, nil, v); err != nil {
						return err
					}
					resp = ack("abort_ack")
				case "commit_req":
					v, err := iface.Read(cur, nil)
					if err != nil {
						return err
					}
					if err := iface.Write(com, nil, v); err != nil {
						return err
					}
					resp = ack("commit_ack")
				default:
					panic("cell: unknown request " + req.String())
				}
				if err := iface.Write(out, nil, resp); err != nil {
					return err
				}
				return iface.Goto("Cell.loop")
			}},
		),
		ProcTable: distsys.MakeMPCalProcTable(),
		PreAmble: func(iface distsys.ArchetypeInterface) {
			iface.EnsureArchetypeResourceLocal("Cell.cur", init)
			iface.EnsureArchetypeResourceLocal("Cell.com", init)
		},
	}
}

// mailbox pair: the archetype's Mailboxes resource (index 1 = its own local mailbox, index 2 =
// the peer's) and the peer's Mailboxes resource, which the driver operates through the resource API.
type netPair struct {
	mine, peer       *resources.Mailboxes
	mineLen, peerLen distsys.ArchetypeResource
	relaxed          bool
}

func mkNet(relaxed bool) *netPair {
	a, b := freeAddr(), freeAddr()
	mk := resources.NewTCPMailboxes
	if relaxed {
		mk = resources.NewRelaxedMailboxes
	}
	one, two := tla.MakeNumber(1), tla.MakeNumber(2)
	mine := mk(func(idx tla.Value) (resources.MailboxKind, string) {
		if idx.Equal(one) {
			return resources.MailboxesLocal, a
		}
		return resources.MailboxesRemote, b
	}, resources.WithMailboxesReadTimeout(40*time.Millisecond), resources.WithMailboxesDialTimeout(3*time.Second),
		resources.WithMailboxesWriteTimeout(5*time.Second))
	peer := mk(func(idx tla.Value) (resources.MailboxKind, string) {
		if idx.Equal(two) {
			return resources.MailboxesLocal, b
		}
		return resources.MailboxesRemote, a
	}, resources.WithMailboxesReadTimeout(25*time.Millisecond), resources.WithMailboxesDialTimeout(3*time.Second),
		resources.WithMailboxesWriteTimeout(5*time.Second))
	// start both listeners now
	if _, err := mine.Index(iface0, one); err != nil {
		panic(err)
	}
	if _, err := peer.Index(iface0, two); err != nil {
		panic(err)
	}
	return &netPair{mine: mine, peer: peer, mineLen: resources.NewMailboxesLength(mine), peerLen: resources.NewMailboxesLength(peer), relaxed: relaxed}
}

func lengthOf(lenRes distsys.ArchetypeResource, idx int) int {
	r, err := lenRes.Index(iface0, tla.MakeNumber(int32(idx)))
	if err != nil {
		return 0
	}
	v, err := r.ReadValue(iface0)
	if err != nil {
		return 0
	}
	return int(v.AsNumber())
}

func (np *netPair) feed(vs []int) error {
	r, err := np.peer.Index(iface0, tla.MakeNumber(1))
	if err != nil {
		return err
	}
	before := lengthOf(np.mineLen, 1)
	for _, v := range vs {
		if err := r.WriteValue(iface0, tla.MakeNumber(int32(v))); err != nil {
			return fmt.Errorf("feeding the mailbox: %w", err)
		}
	}
	if ch := r.PreCommit(iface0); ch != nil {
		if err := <-ch; err != nil {
			return fmt.Errorf("feeding the mailbox (precommit): %w", err)
		}
	}
	if ch := r.Commit(iface0); ch != nil {
		<-ch
	}
	// wait for the batch to be published at the receiver (an event, not a verdict)
	if before == 0 {
		for i := 0; i < 400 && lengthOf(np.mineLen, 1) == 0; i++ {
			time.Sleep(time.Millisecond)
		}
	} else {
		time.Sleep(3 * time.Millisecond)
	}
	return nil
}

func (np *netPair) drain(want int, final bool) ([]int, bool) {
	r, err := np.peer.Index(iface0, tla.MakeNumber(2))
	if err != nil {
		return []int{}, false
	}
	got := []int{}
	deadline := time.Now().Add(30 * time.Second)
	for len(got) < want && time.Now().Before(deadline) {
		v, err := r.ReadValue(iface0)
		if err == nil {
			got = append(got, fromVal(v)...)
			r.Commit(iface0)
		}
	}
	complete := len(got) >= want
	// anything beyond what was committed (non-blocking look; one timed look at the very end)
	for lengthOf(np.peerLen, 2) > 0 {
		v, err := r.ReadValue(iface0)
		if err != nil {
			break
		}
		got = append(got, fromVal(v)...)
		r.Commit(iface0)
	}
	if final {
		if v, err := r.ReadValue(iface0); err == nil {
			got = append(got, fromVal(v)...)
			r.Commit(iface0)
		}
	}
	return got, complete
}

// ---------------------------------------------------------------- building a case

func (cr *caseRun) build() {
	cr.insts = map[string]*inst{}
	cr.params = map[string]distsys.ArchetypeResource{}
	cr.calls = map[string][]string{}
	cr.realPre = map[string]bool{}
	cr.latePre = map[string]chan struct{}{}
	cr.lateAck, cr.slowAbt = map[string]bool{}, map[string]bool{}
	cr.attSends, cr.expected, cr.got = map[string]int{}, map[string]int{}, map[string]int{}
	var np *netPair
	var db *badger.DB
	getDB := func() *badger.DB {
		if db == nil {
			db = openDB()
			d := db
			cr.closers = append(cr.closers, func() { d.Close() })
		}
		return db
	}
	groups := map[string][]ResSpec{}
	for _, rs := range cr.c.Res {
		p := rs.Name
		if rs.Grp != "" {
			p = rs.Grp
		}
		groups[p] = append(groups[p], rs)
		in := &inst{spec: rs, param: p}
		cr.insts[rs.Name] = in
		cr.order = append(cr.order, rs.Name)
	}
	bind := func(param string, res distsys.ArchetypeResource) {
		cr.params[param] = &faulty{cr: cr, param: param, inner: res, top: true}
		cr.plist = append(cr.plist, param)
		cr.calls[param] = nil
	}
	for _, rs := range cr.c.Res {
		rs := rs
		in := cr.insts[rs.Name]
		p := in.param
		switch rs.Impl {
		case "alocal":
			cr.alocals = append(cr.alocals, in)
			in.obs = func() ([]int, bool) {
				return fromVal(cr.ctx.IFace().ReadArchetypeResourceLocal("A." + rs.Name)), true
			}
		case "local":
			l := distsys.NewLocalArchetypeResource(initVal(rs))
			bind(p, l)
			in.obs = func() ([]int, bool) { return decodeState(l) }
		case "incmap", "hashmap":
			if _, done := cr.params[p]; !done {
				cells := map[int]*distsys.LocalArchetypeResource{}
				inits := map[int]tla.Value{}
				for _, g := range groups[p] {
					inits[g.Idx] = initVal(g)
				}
				if rs.Impl == "incmap" {
					bind(p, resources.NewIncMap(func(index tla.Value) distsys.ArchetypeResource {
						l := distsys.NewLocalArchetypeResource(inits[int(index.AsNumber())])
						cr.mu.Lock()
						cells[int(index.AsNumber())] = l
						cr.mu.Unlock()
						return l
					}))
				} else {
					hm := hashmap.New[distsys.ArchetypeResource]()
					for i, v := range inits {
						cells[i] = distsys.NewLocalArchetypeResource(v)
						hm.Set(tla.MakeNumber(int32(i)), cells[i])
					}
					bind(p, resources.NewHashMap(hm))
				}
				for _, g := range groups[p] {
					g := g
					gi := cr.insts[g.Name]
					gi.path = []tla.Value{tla.MakeNumber(int32(g.Idx))}
					gi.obs = func() ([]int, bool) {
						cr.mu.Lock()
						l := cells[g.Idx]
						cr.mu.Unlock()
						if l == nil { // element not realised yet
							return ints(g.Init), true
						}
						return decodeState(l)
					}
				}
			}
		case "inchan", "custin":
			ch := make(chan tla.Value, 256)
			if rs.Impl == "inchan" {
				bind(p, resources.NewInputChan(ch, resources.WithInputChanReadTimeout(15*time.Millisecond)))
			} else {
				bind(p, raftkvs.NewCustomInChan(ch, 15*time.Millisecond))
			}
			in.feed = func(vs []int) error {
				for _, v := range vs {
					ch <- tla.MakeNumber(int32(v))
				}
				return nil
			}
		case "outchan":
			ch := make(chan tla.Value, 4096)
			bind(p, resources.NewOutputChan(ch))
			in.drain = func(want int, _ bool) ([]int, bool) { return drainChan(ch, want) }
		case "singleout", "singleout0":
			// SingleOutputChan sends at once (like a relaxed mailbox). "singleout0": nobody ever
			// receives, so every write is refused by the resource itself after its timeout.
			n := 4096
			if rs.Impl == "singleout0" {
				n = 0
			}
			ch := make(chan tla.Value, n)
			bind(p, resources.NewSingleOutputChan(ch))
			in.drain = func(want int, _ bool) ([]int, bool) { return drainChan(ch, want) }
		case "tcpin", "tcpout", "rlxin", "rlxout":
			if np == nil {
				np = mkNet(strings.HasPrefix(rs.Impl, "rlx"))
				bind(p, np.mine)
				peer := np.peer
				cr.closers = append(cr.closers, func() { peer.Close() })
			}
			in.path = []tla.Value{tla.MakeNumber(int32(rs.Idx))}
			if strings.HasSuffix(rs.Impl, "in") {
				in.feed = np.feed
			} else {
				in.drain = np.drain
			}
		case "shared":
			mgr := resources.NewLocalSharedManager(initVal(rs), resources.WithLocalSharedResourceTimeout(30*time.Millisecond))
			bind(p, mgr.MakeLocalShared())
			watcher := mgr.MakeLocalShared()
			in.obs = func() ([]int, bool) { return decodeState(watcher) }
		case "pers-local", "pers-shared":
			var inner resources.Persistable
			var watcher resources.Persistable
			if rs.Impl == "pers-local" {
				l := distsys.NewLocalArchetypeResource(initVal(rs))
				inner, watcher = l, l
			} else {
				mgr := resources.NewLocalSharedManager(initVal(rs), resources.WithLocalSharedResourceTimeout(30*time.Millisecond))
				inner, watcher = mgr.MakeLocalShared(), mgr.MakeLocalShared()
			}
			d := getDB()
			bind(p, resources.MakePersistent(rs.Name, d, inner))
			in.obs = func() ([]int, bool) {
				v, ok := decodeState(watcher)
				if !ok {
					return nil, false
				}
				pv := rs.Init[1:] // nothing persisted yet: the initial (never persisted) value
				_ = d.View(func(txn *badger.Txn) error {
					item, err := txn.Get([]byte("pres-" + rs.Name))
					if err != nil {
						return nil
					}
					return item.Value(func(b []byte) error {
						var x tla.Value
						if err := gob.NewDecoder(bytes.NewReader(b)).Decode(&x); err != nil {
							pv = []int{-8}
						} else {
							pv = fromVal(x)
						}
						return nil
					})
				})
				return append(append([]int{}, v...), pv...), true
			}
		case "file":
			if _, done := cr.params[p]; !done {
				bind(p, resources.NewFileSystem(cr.dir))
			}
			path := filepath.Join(cr.dir, rs.Name)
			if err := os.WriteFile(path, []byte(strconv.Itoa(rs.Init[0])), 0o644); err != nil {
				panic(err)
			}
			in.path = []tla.Value{tla.MakeString(rs.Name)}
			in.obs = func() ([]int, bool) {
				b, err := os.ReadFile(path)
				if err != nil {
					return []int{-7}, true
				}
				n, err := strconv.Atoi(string(b))
				if err != nil {
					return []int{-4}, true
				}
				return []int{n}, true
			}
		case "crdt":
			addr := freeAddr()
			id := tla.MakeString("n1")
			c := resources.NewCRDT(id, []tla.Value{}, func(tla.Value) string { return addr }, resources.GCounter{},
				resources.WithCRDTBroadcastInterval(5*time.Millisecond))
			bind(p, c)
			in.obs = func() ([]int, bool) {
				v, err := c.ReadValue(iface0)
				if err != nil {
					return []int{-7}, true
				}
				return fromVal(v), true
			}
		case "twopc":
			var rcv *resources.TwoPCReceiver
			t := resources.NewTwoPC(initVal(rs), "127.0.0.1:0", []resources.ReplicaHandle{&spy{cr: cr, param: p}},
				tla.MakeString("A-"+rs.Name), func(r *resources.TwoPCReceiver) { rcv = r })
			bind(p, t)
			cr.closers = append(cr.closers, func() { _ = resources.CloseTwoPCReceiver(rcv) })
			in.obs = func() ([]int, bool) {
				var reply resources.TwoPCResponse
				if err := rcv.Receive(resources.TwoPCRequest{RequestType: resources.GetState, Sender: tla.MakeString("observer")}, &reply); err != nil {
					return []int{-7}, true
				}
				return fromVal(reply.Value), true
			}
		case "nested":
			bind(p, resources.NewNested(func(sendCh chan<- tla.Value, receiveCh <-chan tla.Value) []*distsys.MPCalContext {
				return []*distsys.MPCalContext{distsys.NewMPCalContext(tla.MakeString("cell-"+rs.Name), cellArchetype(cr, p, initVal(rs)),
					distsys.EnsureArchetypeRefParam("in", resources.NewInputChan(receiveCh, resources.WithInputChanReadTimeout(5*time.Millisecond))),
					distsys.EnsureArchetypeRefParam("out", resources.NewOutputChan(sendCh)))}
			}))
		case "plog":
			l := raftkvs.NewPersistentLog(rs.Name, getDB())
			bind(p, l)
			in.obs = func() ([]int, bool) {
				v, err := l.ReadValue(iface0)
				if err != nil {
					return []int{-7}, true
				}
				return fromVal(v), true
			}
		default:
			panic("unknown impl " + rs.Impl)
		}
	}
}

// ---------------------------------------------------------------- running a case

type gate struct {
	cr    *caseRun
	inner distsys.FairnessCounter
}

func (g *gate) BeginCriticalSection(pc string) {
	g.cr.observe(false)
	g.inner.BeginCriticalSection(pc)
}
func (g *gate) NextFairnessCounter(id string, c uint) uint { return g.inner.NextFairnessCounter(id, c) }

type recorder struct{ cr *caseRun }

func (r recorder) RecordEvent(ev trace.Event) {
	cr := r.cr
	if !cr.inAttempt { // the Done label, or the jump to it
		return
	}
	cr.inAttempt = false
	out := "commit"
	if ev.IsAbort {
		out = "abort"
	} else {
		for k, n := range cr.attSends {
			cr.expected[k] += n
		}
	}
	cr.mu.Lock()
	calls := rec{}
	for _, p := range cr.plist {
		c := cr.calls[p]
		if c == nil {
			c = []string{}
		}
		calls[p] = c
		cr.calls[p] = nil
	}
	cr.cur["out"] = out
	cr.cur["calls"] = calls
	cr.cur["ops"] = cr.curOps
	cr.mu.Unlock()
}

func (cr *caseRun) observe(final bool) {
	s := rec{}
	sync := true
	for _, name := range cr.order {
		in := cr.insts[name]
		if in.drain != nil {
			got, complete := in.drain(cr.expected[name]-cr.got[name], final)
			cr.got[name] += len(got)
			if !complete {
				sync = false
				cr.timeouts++
				cr.stop = true
				cr.emit(rec{"e": "watchdog", "what": "committed messages of " + name + " did not arrive within 30 s"})
			}
			s[name] = ints(got)
		} else if in.obs != nil {
			v, ok := in.obs()
			if !ok {
				cr.timeouts++
				cr.stop = true
				in.obs = nil
				cr.emit(rec{"e": "watchdog", "what": "state of " + name + " could not be observed within 20 s"})
				continue
			}
			s[name] = ints(v)
		}
	}
	cr.mu.Lock()
	cur := cr.cur
	cr.cur = nil
	cr.mu.Unlock()
	if cur != nil && cur["out"] != "" {
		cur["obs"], cur["sync"] = s, sync
		cr.emit(cur)
	} else if !cr.first || final {
		cr.first = true
		cr.emit(rec{"e": "obs", "obs": s, "sync": sync})
	}
}

func (cr *caseRun) handle(iface distsys.ArchetypeInterface, param string, isLocal bool) (distsys.ArchetypeResourceHandle, error) {
	if isLocal {
		return iface.RequireArchetypeResource("A." + param), nil
	}
	return iface.RequireArchetypeResourceRef("A." + param)
}

func (cr *caseRun) body(iface distsys.ArchetypeInterface) error {
	// the environment acts between attempts
	for cr.pos < len(cr.c.Steps) && cr.c.Steps[cr.pos].T == "feed" {
		st := cr.c.Steps[cr.pos]
		cr.pos++
		if err := cr.insts[st.R].feed(st.A); err != nil {
			panic(err)
		}
		cr.emit(rec{"e": "feed", "r": st.R, "a": ints(st.A)})
	}
	if cr.pos >= len(cr.c.Steps) || cr.stop {
		return iface.Goto("A.Done")
	}
	att := cr.c.Steps[cr.pos]
	cr.pos++
	cr.inAttempt = true
	cr.attSends = map[string]int{}
	cr.mu.Lock()
	cr.cur = rec{"e": "att", "n": cr.pos, "fail": "", "failr": "", "failm": "", "out": "", "probe": att.Probe}
	cr.curOps = []rec{}
	cr.mu.Unlock()
	for _, op := range att.Ops {
		in := cr.insts[op.R]
		h, err := cr.handle(iface, in.param, in.spec.Impl == "alocal")
		if err != nil {
			return err
		}
		idx := append([]tla.Value{}, in.path...)
		if op.I > 0 {
			idx = append(idx, tla.MakeNumber(int32(op.I)))
		}
		if op.Inj != "" {
			cr.mu.Lock()
			cr.armedOp = &armed{param: in.param, mode: op.Inj}
			cr.mu.Unlock()
		}
		e := rec{"r": op.R, "o": op.O, "i": op.I, "a": ints(op.A), "res": []int{}, "inj": op.Inj}
		switch {
		case op.O == "rd":
			var v tla.Value
			v, err = iface.Read(h, idx)
			if err == nil {
				e["res"] = fromVal(v)
			}
		case in.spec.Kind == "log":
			var v tla.Value
			if op.O == "wr" {
				es := make([]tla.Value, len(op.A))
				for i, x := range op.A {
					es[i] = tla.MakeNumber(int32(x))
				}
				v = tla.MakeRecord([]tla.RecordField{{Key: tla.MakeString("cmd"), Value: tla.MakeString("log_concat")},
					{Key: tla.MakeString("entries"), Value: tla.MakeTuple(es...)}})
			} else {
				v = tla.MakeRecord([]tla.RecordField{{Key: tla.MakeString("cmd"), Value: tla.MakeString("log_pop")},
					{Key: tla.MakeString("cnt"), Value: tla.MakeNumber(int32(op.A[0]))}})
			}
			err = iface.Write(h, idx, v)
		default:
			var v tla.Value
			if op.I == 0 {
				v = wholeVal(in.spec, op.A)
			} else {
				v = toVal(in.spec, op.A)
			}
			err = iface.Write(h, idx, v)
			if err == nil && in.drain != nil {
				cr.attSends[op.R]++
			}
		}
		cr.clearOp()
		e["ok"] = err == nil
		cr.mu.Lock()
		cr.curOps = append(cr.curOps, e)
		cr.mu.Unlock()
		if err != nil {
			if errors.Is(err, distsys.ErrCriticalSectionAborted) {
				return distsys.ErrCriticalSectionAborted
			}
			panic(fmt.Errorf("resource error in %s %s: %w", op.O, op.R, err))
		}
	}
	switch att.End {
	case "body":
		cr.setFail("body", "", "")
		return distsys.ErrCriticalSectionAborted
	case "pre":
		p := cr.insts[att.PR].param
		cr.mu.Lock()
		if att.PM == "real" {
			cr.realPre[p] = true
		} else if att.PM == "late" || att.PM == "lateack" {
			cr.latePre[p] = make(chan struct{})
			cr.lateAck[p] = att.PM == "lateack"
		} else {
			cr.armedPre = &armed{param: p, mode: att.PM}
		}
		cr.mu.Unlock()
	}
	return iface.Goto("A.step")
}

func (cr *caseRun) runOnce() {
	var err error
	cr.dir, err = os.MkdirTemp("", "c01case.")
	if err != nil {
		panic(err)
	}
	finished := false
	defer func() {
		if finished { // a case that hangs may still have goroutines writing there
			os.RemoveAll(cr.dir)
		}
	}()
	cr.emit(caseHeader(cr.c))

	done := make(chan interface{}, 1)
	go func() {
		defer func() {
			p := recover()
			for _, f := range cr.closers {
				func() {
					defer func() { recover() }()
					f()
				}()
			}
			done <- p
		}()
		cr.build()
		cr.built = true
		arch := distsys.MPCalArchetype{
			Name:  "A",
			Label: "A.step",
			JumpTable: distsys.MakeMPCalJumpTable(
				distsys.MPCalCriticalSection{Name: "A.step", Body: cr.body},
				distsys.MPCalCriticalSection{Name: "A.Done", Body: func(distsys.ArchetypeInterface) error { return distsys.ErrDone }},
			),
			ProcTable: distsys.MakeMPCalProcTable(),
			PreAmble: func(iface distsys.ArchetypeInterface) {
				for _, in := range cr.alocals {
					iface.EnsureArchetypeResourceLocal("A."+in.spec.Name, initVal(in.spec))
				}
			},
		}
		for _, p := range cr.plist {
			arch.RequiredRefParams = append(arch.RequiredRefParams, "A."+p)
		}
		cfg := []distsys.MPCalContextConfigFn{
			distsys.SetFairnessCounter(&gate{cr: cr, inner: distsys.MakeRoundRobinFairnessCounter()}),
			distsys.SetTraceRecorder(recorder{cr}),
		}
		for _, p := range cr.plist {
			cfg = append(cfg, distsys.EnsureArchetypeRefParam(p, cr.params[p]))
		}
		cr.ctx = distsys.NewMPCalContext(tla.MakeString("A1"), arch, cfg...)
		if err := cr.ctx.Run(); err != nil {
			panic(fmt.Errorf("Run returned: %w", err))
		}
		cr.observe(true) // last look, after Run returned and closed the archetype's resources
	}()
	select {
	case p := <-done:
		finished = true
		if p != nil {
			cr.mu.Lock()
			cur := cr.cur
			cr.mu.Unlock()
			if cur != nil {
				cur["e"], cur["ops"] = "partial", cr.curOps
				cr.emit(cur)
			}
			if cr.built {
				cr.emit(rec{"e": "panic", "msg": fmt.Sprint(p), "pos": cr.pos})
			} else { // the harness could not set the case up (port in use, ...): never a verdict
				cr.emit(rec{"e": "setup", "msg": fmt.Sprint(p)})
			}
		}
	case <-time.After(600 * time.Second):
		cr.timeouts++
		cr.emit(rec{"e": "watchdog", "what": "case did not finish within 600 s", "pos": cr.pos})
	}
}

// runCase executes the case; a case whose set-up failed (a port taken by another process, ...)
// is set up again, a few times, before it is reported as not executed.
func caseHeader(c Case) rec {
	kinds, inits, impls := rec{}, rec{}, rec{}
	for _, rs := range c.Res {
		kinds[rs.Name] = rs.Kind
		inits[rs.Name] = ints(rs.Init)
		impls[rs.Name] = rs.Impl
	}
	return rec{"e": "case", "id": c.ID, "cfg": c.Cfg, "inst": c.Inst, "kinds": kinds, "init": inits, "impl": impls}
}

func runCase(c Case) []rec {
	for try := 0; ; try++ {
		cr := &caseRun{c: c}
		cr.runOnce()
		failed := false
		for _, e := range cr.ev {
			if e["e"] == "setup" {
				failed = true
			}
		}
		if !failed || try >= 2 {
			cr.mu.Lock()
			defer cr.mu.Unlock()
			return append([]rec{}, cr.ev...)
		}
		time.Sleep(200 * time.Millisecond)
	}
}

func main() {
	casesF := flag.String("cases", "cases.ndjson", "")
	outF := flag.String("out", "trace.ndjson", "")
	par := flag.Int("par", 8, "cases run concurrently")
	child := flag.Bool("child", false, "internal: run the cases in this process")
	flag.Parse()
	log.SetOutput(io.Discard)

	var cases []Case
	fh, err := os.Open(*casesF)
	if err != nil {
		panic(err)
	}
	sc := bufio.NewScanner(fh)
	sc.Buffer(make([]byte, 1<<20), 1<<28)
	for sc.Scan() {
		if len(strings.TrimSpace(sc.Text())) == 0 {
			continue
		}
		var c Case
		if err := json.Unmarshal(sc.Bytes(), &c); err != nil {
			panic(err)
		}
		cases = append(cases, c)
	}
	fh.Close()

	if *child {
		runChild(cases, *outF, *par)
		return
	}

	// Parent: the cases run in child processes, so that a panic on a goroutine started by the code
	// under test (which nothing can recover) costs one case, not the run. Cases a dead child did
	// not finish are executed again, each alone; a case that kills its own process is recorded as
	// a panic of the code under test.
	dir, err := os.MkdirTemp("", "c01drv.")
	if err != nil {
		panic(err)
	}
	defer os.RemoveAll(dir)
	nchild := 4
	if len(cases) < nchild {
		nchild = len(cases)
	}
	per := (*par + nchild - 1) / max(nchild, 1)
	shards := make([][]Case, nchild)
	for i, c := range cases {
		shards[i%nchild] = append(shards[i%nchild], c)
	}
	results := map[string][]json.RawMessage{}
	var rmu sync.Mutex
	launch := func(name string, cs []Case, k int) string {
		cf, of, ef := filepath.Join(dir, name+".cases"), filepath.Join(dir, name+".out"), filepath.Join(dir, name+".err")
		f, err := os.Create(cf)
		if err != nil {
			panic(err)
		}
		for _, c := range cs {
			b, _ := json.Marshal(c)
			f.Write(b)
			f.Write([]byte("\n"))
		}
		f.Close()
		eh, _ := os.Create(ef)
		cmd := exec.Command(os.Args[0], "-child", "-cases", cf, "-out", of, "-par", strconv.Itoa(k))
		cmd.Stderr = eh
		_ = cmd.Run()
		eh.Close()
		// collect the cases the child completed
		if oh, err := os.Open(of); err == nil {
			sc := bufio.NewScanner(oh)
			sc.Buffer(make([]byte, 1<<20), 1<<28)
			var cur []json.RawMessage
			for sc.Scan() {
				var e struct {
					E  string `json:"e"`
					ID string `json:"id"`
				}
				if json.Unmarshal(sc.Bytes(), &e) != nil {
					continue
				}
				if e.E == "done" {
					rmu.Lock()
					results[e.ID] = cur
					rmu.Unlock()
					cur = nil
					continue
				}
				cur = append(cur, append(json.RawMessage{}, sc.Bytes()...))
			}
			oh.Close()
		}
		b, _ := os.ReadFile(ef)
		return string(b)
	}
	var wg sync.WaitGroup
	for i := range shards {
		wg.Add(1)
		go func(i int) {
			defer wg.Done()
			launch(fmt.Sprintf("shard%d", i), shards[i], per)
		}(i)
	}
	wg.Wait()
	sem := make(chan struct{}, 4)
	for i := range cases {
		rmu.Lock()
		_, ok := results[cases[i].ID]
		rmu.Unlock()
		if ok {
			continue
		}
		wg.Add(1)
		sem <- struct{}{}
		go func(i int) {
			defer wg.Done()
			defer func() { <-sem }()
			stderr := launch(fmt.Sprintf("single%d", i), []Case{cases[i]}, 1)
			rmu.Lock()
			defer rmu.Unlock()
			if _, ok := results[cases[i].ID]; !ok {
				msg := "the process died"
				for _, ln := range strings.Split(stderr, "\n") {
					if strings.HasPrefix(ln, "panic: ") || strings.HasPrefix(ln, "fatal error: ") {
						msg = ln
						break
					}
				}
				if len(msg) > 400 {
					msg = msg[:400]
				}
				h, _ := json.Marshal(caseHeader(cases[i]))
				pe, _ := json.Marshal(rec{"e": "panic", "msg": msg, "crash": true})
				results[cases[i].ID] = []json.RawMessage{h, pe}
			}
		}(i)
	}
	wg.Wait()

	oh, err := os.Create(*outF)
	if err != nil {
		panic(err)
	}
	w := bufio.NewWriter(oh)
	for _, c := range cases {
		for _, e := range results[c.ID] {
			w.Write(e)
			w.WriteByte('\n')
		}
	}
	w.Flush()
	oh.Close()
}

// runChild executes cases in this process, k at a time, appending each finished case to the
// output (followed by a "done" marker) so that the parent knows what was completed if we die.
func runChild(cases []Case, outF string, k int) {
	oh, err := os.Create(outF)
	if err != nil {
		panic(err)
	}
	var omu sync.Mutex
	if k < 1 {
		k = 1
	}
	sem := make(chan struct{}, k)
	var wg sync.WaitGroup
	for i := range cases {
		wg.Add(1)
		sem <- struct{}{}
		go func(i int) {
			defer wg.Done()
			defer func() { <-sem }()
			ev := runCase(cases[i])
			var buf bytes.Buffer
			for _, e := range ev {
				b, err := json.Marshal(e)
				if err != nil {
					panic(err)
				}
				buf.Write(b)
				buf.WriteByte('\n')
			}
			b, _ := json.Marshal(rec{"e": "done", "id": cases[i].ID})
			buf.Write(b)
			buf.WriteByte('\n')
			omu.Lock()
			oh.Write(buf.Bytes())
			omu.Unlock()
		}(i)
	}
	wg.Wait()
	oh.Close()
}
