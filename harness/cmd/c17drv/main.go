// c17drv: drives the real distsys.MPCalContext (Run / Stop / cleanupResources) and the real
// map / nested / failure-detector / TCP-mailbox resources through lifecycle cases and records
// what happened as ndjson events (see spec/C17/LifecycleObs.tla for the event vocabulary).
//
// No hook in /repo is used. Control and observation come from
//   - a FairnessCounter whose BeginCriticalSection is a gate (Run is past its exit poll there),
//   - hand-built section bodies that park on a gate and end the way the case prescribes,
//   - instrumented resources (count Close, gate Close = "slow clean-up", fail on demand),
//   - goroutine states read from runtime.Stack: a Stop call parked on the mutex, on the channel
//     send or on the channel receive is told apart without touching the code,
//   - the Go runtime's own deadlock detector: every final wait is timer-free, so if calls are
//     outstanding and nothing can run the runtime aborts the child process with
//     "all goroutines are asleep - deadlock!"; the supervisor turns that into an "end deadlock"
//     event. Wall-clock time is never a verdict; watchdogs end in exit code 3 (inconclusive).
//
// modes:
//
//	sup    supervisor: runs the cases file in child processes, restarting after a deadlock
//	child  executes cases [from, ...) sequentially, appending events to -out
//
// case modes: proto (TLC walks of MCLifecycleGen, command by command), free (races), nproto (TLC walks
// of MCNestedGen: the outer context holds a resources.NewNested resource around 2-3 inner contexts, each
// gated like the outer one; commands ienter:<i> / ifinish:<i>:<kind> move inner context i).
package main

import (
	"bufio"
	"bytes"
	"encoding/json"
	"errors"
	"flag"
	"fmt"
	"io"
	"log"
	"net"
	"os"
	"os/exec"
	"regexp"
	"runtime"
	"strconv"
	"strings"
	"sync"
	"sync/atomic"
	"time"

	"github.com/DistCompiler/pgo/distsys"
	"github.com/DistCompiler/pgo/distsys/hashmap"
	"github.com/DistCompiler/pgo/distsys/resources"
	"github.com/DistCompiler/pgo/distsys/tla"
)

// ------------------------------------------------------------------ cases

type stopSpec struct {
	When  string `json:"when"` // pre | begin | close | post
	K     int    `json:"k"`    // for "begin": launched when attempt K begins
	Yield int    `json:"yield"`
}

type caseSpec struct {
	ID         int        `json:"id"`
	Mode       string     `json:"mode"`  // proto | free | nproto
	Mix        string     `json:"mix"`   // proto: always "maps"; free: leaf | maps | nested | fd | tcp; nproto: nested2 | nested3
	Inner      int        `json:"inner"` // nproto: number of inner contexts of the nested resource
	CloseErr   bool       `json:"closeerr"`
	Bound      int        `json:"bound"`
	Steps      []string   `json:"steps"`  // proto: run | stop | enter | finish:<kind> | closeopen; nproto: + ienter:<i> | ifinish:<i>:<kind>
	Script     []string   `json:"script"` // free: kinds of the sections in order, then "done"
	Stops      []stopSpec `json:"stops"`
	Rerun      bool       `json:"rerun"`
	CloseYield int        `json:"closeyield"`
}

// ------------------------------------------------------------------ event log

type rec map[string]interface{}

var (
	outMu sync.Mutex
	outFh *os.File
)

func emit(r rec) {
	b, _ := json.Marshal(r)
	b = append(b, '\n')
	outMu.Lock()
	outFh.Write(b)
	outMu.Unlock()
}

// emitWith runs f under the log lock so that numbering and logging are one step
func emitWith(f func() rec) {
	outMu.Lock()
	b, _ := json.Marshal(f())
	outFh.Write(append(b, '\n'))
	outMu.Unlock()
}

// ------------------------------------------------------------------ goroutine observation

var hdrRe = regexp.MustCompile(`^goroutine (\d+) \[([^\]]+)\]:$`)

func gid() int64 {
	var buf [64]byte
	n := runtime.Stack(buf[:], false)
	f := strings.Fields(string(buf[:n]))
	id, _ := strconv.ParseInt(f[1], 10, 64)
	return id
}

type ginfo struct {
	status string
	frames []string
}

func snapshot() map[int64]ginfo {
	buf := make([]byte, 1<<20)
	for {
		n := runtime.Stack(buf, true)
		if n < len(buf) {
			buf = buf[:n]
			break
		}
		buf = make([]byte, 2*len(buf))
	}
	out := map[int64]ginfo{}
	var cur int64 = -1
	for _, ln := range strings.Split(string(buf), "\n") {
		if m := hdrRe.FindStringSubmatch(ln); m != nil {
			cur, _ = strconv.ParseInt(m[1], 10, 64)
			st := strings.TrimSpace(strings.Split(m[2], ",")[0])
			out[cur] = ginfo{status: st}
			continue
		}
		if cur >= 0 && ln != "" && !strings.HasPrefix(ln, "\t") && !strings.HasPrefix(ln, "created by") {
			g := out[cur]
			g.frames = append(g.frames, ln)
			out[cur] = g
		}
	}
	return out
}

// class of a parked goroutine; "" = not (yet) parked on something only another goroutine can undo
func blockedClass(st string) string {
	switch {
	case st == "sync.Mutex.Lock" || st == "sync.RWMutex.Lock" || st == "sync.RWMutex.RLock":
		return "mutex"
	case strings.HasPrefix(st, "chan send"):
		return "send"
	case strings.HasPrefix(st, "chan receive"):
		return "recv"
	case st == "sync.Cond.Wait" || st == "sync.WaitGroup.Wait":
		return "wait"
	}
	// running, runnable, syscall, sleep, IO wait, select (may hide a timer): not settled. Plain "semacquire"
	// is also not settled: a goroutine that wants to start a GC cycle parks on the runtime's world semaphore
	// while runtime.Stack(all) holds it, and resumes by itself.
	return ""
}

// ------------------------------------------------------------------ gates

type gate struct {
	name   string
	parked atomic.Bool
	auto   atomic.Bool
	ch     chan string
	autoV  func() string
}

func newGate(name string) *gate { return &gate{name: name, ch: make(chan string)} }

// wait is called by the code under test's goroutine
func (g *gate) wait() string {
	if g.auto.Load() {
		return g.autoV()
	}
	g.parked.Store(true)
	v := <-g.ch
	if v == "\x00auto" {
		return g.autoV()
	}
	return v
}

func (g *gate) release(v string) bool {
	if !g.parked.CompareAndSwap(true, false) {
		return false
	}
	g.ch <- v
	return true
}

func (g *gate) setAuto() {
	g.auto.Store(true)
	if g.parked.CompareAndSwap(true, false) {
		g.ch <- "\x00auto"
	}
}

// ------------------------------------------------------------------ harness state of one case

var errRes = errors.New("c17: injected resource error")
var errClose = errors.New("c17: injected close error")

type sentinel struct{}

type thread struct {
	done     chan struct{}
	gid      atomic.Int64
	returned atomic.Bool
	blocked  bool // stopblocked already logged
}

// one inner context of the nested resource (nproto mode)
type innerCtx struct {
	i               int
	gateB, gateBody *gate
	attempts        atomic.Int64
	budget          int // sections the drain phase still grants this context
}

type harness struct {
	cs     caseSpec
	ctx    *distsys.MPCalContext
	proto  bool
	nested bool // nproto mode
	quiet  bool // drain phase: settle does not log its observation (parked Stop calls are still logged)
	inner  []*innerCtx

	gateB, gateBody, gateC *gate

	mu      sync.Mutex
	runs    []*thread
	stops   []*thread
	byGid   map[int64]int // gid -> run index
	pending sync.WaitGroup
	allDone chan struct{}

	attempts      atomic.Int64
	scriptPos     atomic.Int64
	stopWaiting   atomic.Bool // a Stop call was seen parked and has not returned
	beginsAfter   atomic.Int64
	launched      []bool
	launchMu      sync.Mutex
	failWriteNext atomic.Bool
	failPreNext   atomic.Bool
	cfg           []string
	extraClose    []func()
}

func (h *harness) runIndex() int {
	id := gid()
	h.mu.Lock()
	defer h.mu.Unlock()
	return h.byGid[id]
}

// ------------------------------------------------------------------ instrumented resources

type leaf struct {
	distsys.ArchetypeResourceLeafMixin
	h        *harness
	name     string
	val      tla.Value
	gated    bool
	commits  bool
	closeErr bool
	lazy     bool // announce as "created" on first use (resources of nested contexts)
	inner    int  // > 0: resource of inner context <inner> (nproto); its commits are logged as "icommit"
	used     atomic.Bool
	failPre  bool
}

func (l *leaf) touch() {
	if l.lazy && l.used.CompareAndSwap(false, true) {
		emit(rec{"e": "create", "res": l.name})
	}
}
func (l *leaf) Abort(distsys.ArchetypeInterface) chan struct{} { l.failPre = false; return nil }
func (l *leaf) PreCommit(distsys.ArchetypeInterface) chan error {
	if l.failPre {
		l.failPre = false
		ch := make(chan error, 1)
		ch <- errRes
		return ch
	}
	return nil
}
func (l *leaf) Commit(distsys.ArchetypeInterface) chan struct{} {
	if l.inner > 0 {
		emit(rec{"e": "icommit", "i": l.inner, "res": l.name})
	} else if l.commits {
		emit(rec{"e": "commit", "res": l.name})
	}
	return nil
}
func (l *leaf) ReadValue(distsys.ArchetypeInterface) (tla.Value, error) {
	l.touch()
	return l.val, nil
}
func (l *leaf) WriteValue(_ distsys.ArchetypeInterface, v tla.Value) error {
	l.touch()
	if l.name == "y" && l.h.failWriteNext.CompareAndSwap(true, false) {
		return errRes
	}
	if l.name == "y" && l.h.failPreNext.CompareAndSwap(true, false) {
		l.failPre = true
	}
	l.val = v
	return nil
}
func (l *leaf) Close() error {
	emit(rec{"e": "close", "res": l.name, "err": l.closeErr})
	if l.gated {
		h := l.h
		h.launchStops("close", 0)
		emit(rec{"e": "closegate"})
		h.gateC.wait()
		for i := 0; i < h.cs.CloseYield; i++ {
			runtime.Gosched()
		}
		emit(rec{"e": "closeopen"})
	}
	if l.closeErr {
		return errClose
	}
	return nil
}

// counted decorates a real resource: counts Close, passes everything else through
type counted struct {
	inner distsys.ArchetypeResource
	name  string
}

func (c *counted) Abort(i distsys.ArchetypeInterface) chan struct{}  { return c.inner.Abort(i) }
func (c *counted) PreCommit(i distsys.ArchetypeInterface) chan error { return c.inner.PreCommit(i) }
func (c *counted) Commit(i distsys.ArchetypeInterface) chan struct{} { return c.inner.Commit(i) }
func (c *counted) ReadValue(i distsys.ArchetypeInterface) (tla.Value, error) {
	return c.inner.ReadValue(i)
}
func (c *counted) WriteValue(i distsys.ArchetypeInterface, v tla.Value) error {
	return c.inner.WriteValue(i, v)
}
func (c *counted) Index(i distsys.ArchetypeInterface, idx tla.Value) (distsys.ArchetypeResource, error) {
	return c.inner.Index(i, idx)
}
func (c *counted) Close() error {
	err := c.inner.Close()
	emit(rec{"e": "close", "res": c.name, "err": err != nil})
	if err != nil {
		return fmt.Errorf("%w: %v", errClose, err)
	}
	return nil
}

// ------------------------------------------------------------------ the gate as FairnessCounter

type gateCounter struct {
	h     *harness
	inner distsys.FairnessCounter
}

func (g *gateCounter) BeginCriticalSection(pc string) {
	h := g.h
	g.inner.BeginCriticalSection(pc)
	r := h.runIndex()
	n := h.attempts.Add(1)
	emit(rec{"e": "begin", "r": r, "n": n})
	if h.stopWaiting.Load() {
		if h.beginsAfter.Add(1) > int64(h.cs.Bound)+1 {
			// a Stop call is waiting and the run keeps starting sections: end the experiment
			panic(sentinel{})
		}
	}
	h.launchStops("begin", int(n))
	h.gateB.wait()
	h.yield()
}
func (g *gateCounter) NextFairnessCounter(id string, c uint) uint {
	return g.inner.NextFairnessCounter(id, c)
}

// ------------------------------------------------------------------ the archetype

func one() []tla.Value { return []tla.Value{tla.MakeNumber(1)} }

func (h *harness) body(iface distsys.ArchetypeInterface) error {
	r := h.runIndex()
	emit(rec{"e": "enter", "r": r})
	kind := h.gateBody.wait()
	h.yield()
	fin := func(err error) error {
		emit(rec{"e": "secend", "r": r, "kind": kind})
		return err
	}
	switch kind {
	case "done": // the Done label of generated code
		return fin(distsys.ErrDone)
	case "errlabel": // the Error label of generated code
		return fin(distsys.ErrProcedureFallthrough)
	}
	n := tla.MakeNumber(int32(h.attempts.Load()))
	x, err := iface.RequireArchetypeResourceRef("A.x")
	if err != nil {
		return fin(err)
	}
	if err = iface.Write(x, nil, n); err != nil {
		return fin(err)
	}
	if h.hasRes("m") {
		m, _ := iface.RequireArchetypeResourceRef("A.m")
		idx := tla.MakeNumber(int32(h.attempts.Load()%2 + 1))
		if err = iface.Write(m, []tla.Value{idx}, n); err != nil {
			return fin(err)
		}
		hm, _ := iface.RequireArchetypeResourceRef("A.h")
		if _, err = iface.Read(hm, one()); err != nil {
			return fin(err)
		}
	}
	switch h.cs.Mix {
	case "nested":
		nst, _ := iface.RequireArchetypeResourceRef("A.nst")
		if err = iface.Write(nst, nil, n); err != nil {
			if err == distsys.ErrCriticalSectionAborted {
				kind = "abort"
			} else {
				kind = "reserr"
				err = fmt.Errorf("%w: %v", errRes, err)
			}
			return fin(err)
		}
	case "fd":
		fd, _ := iface.RequireArchetypeResourceRef("A.fd")
		if _, err = iface.Read(fd, one()); err != nil {
			if err == distsys.ErrCriticalSectionAborted {
				kind = "abort"
			}
			return fin(err)
		}
	case "tcp":
		// odd attempts read the local mailbox (realising the listener), even attempts send to it
		nw, _ := iface.RequireArchetypeResourceRef("A.net")
		if h.attempts.Load()%2 == 1 {
			_, err = iface.Read(nw, one())
		} else {
			err = iface.Write(nw, []tla.Value{tla.MakeNumber(2)}, n)
		}
		if err != nil {
			if err == distsys.ErrCriticalSectionAborted {
				kind = "abort"
			}
			return fin(err)
		}
	}
	y, _ := iface.RequireArchetypeResourceRef("A.y")
	switch kind {
	case "reserr":
		h.failWriteNext.Store(true)
	case "preerr":
		h.failPreNext.Store(true)
	}
	if err = iface.Write(y, nil, n); err != nil {
		return fin(err)
	}
	switch kind {
	case "abort":
		return fin(distsys.ErrCriticalSectionAborted)
	case "assert":
		return fin(fmt.Errorf("%w: (x) = (0)", distsys.ErrAssertionFailed))
	}
	return fin(iface.Goto("A.loop"))
}

// free mode: give the goroutines the run has just launched a chance to overlap with it
func (h *harness) yield() {
	if !h.proto {
		for i := 0; i < 3; i++ {
			runtime.Gosched()
		}
	}
}

func (h *harness) hasRes(name string) bool {
	for _, c := range h.cfg {
		if c == name {
			return true
		}
	}
	return false
}

func freePort() string {
	l, err := net.Listen("tcp", "127.0.0.1:0")
	if err != nil {
		fatal(3, "no port: %v", err)
	}
	a := l.Addr().String()
	l.Close()
	return a
}

// inner archetype of the nested resource: serves the nested-archetype protocol
func nestedInner(h *harness, sendCh chan<- tla.Value, receiveCh <-chan tla.Value) []*distsys.MPCalContext {
	tpe := tla.MakeString("tpe")
	val := tla.MakeString("value")
	ack := map[string]string{"read_req": "read_ack", "write_req": "write_ack", "precommit_req": "precommit_ack",
		"commit_req": "commit_ack", "abort_req": "abort_ack"}
	body := func(iface distsys.ArchetypeInterface) error {
		in, err := iface.RequireArchetypeResourceRef("N.in")
		if err != nil {
			return err
		}
		out, _ := iface.RequireArchetypeResourceRef("N.out")
		c, _ := iface.RequireArchetypeResourceRef("N.c")
		req, err := iface.Read(in, nil)
		if err != nil {
			return err
		}
		t := req.ApplyFunction(tpe).AsString()
		fields := []tla.RecordField{{Key: tpe, Value: tla.MakeString(ack[t])}}
		switch t {
		case "read_req":
			v, err := iface.Read(c, nil)
			if err != nil {
				return err
			}
			fields = append(fields, tla.RecordField{Key: val, Value: v})
		case "write_req":
			if err = iface.Write(c, nil, req.ApplyFunction(val)); err != nil {
				return err
			}
		default:
			if _, err = iface.Read(c, nil); err != nil {
				return err
			}
		}
		if err = iface.Write(out, nil, tla.MakeRecord(fields)); err != nil {
			return err
		}
		return iface.Goto("N.loop")
	}
	arch := distsys.MPCalArchetype{
		Name: "N", Label: "N.loop",
		RequiredRefParams: []string{"N.in", "N.out", "N.c"},
		JumpTable:         distsys.MakeMPCalJumpTable(distsys.MPCalCriticalSection{Name: "N.loop", Body: body}),
		ProcTable:         distsys.MakeMPCalProcTable(),
		PreAmble:          func(distsys.ArchetypeInterface) {},
	}
	return []*distsys.MPCalContext{distsys.NewMPCalContext(tla.MakeNumber(7), arch,
		distsys.EnsureArchetypeRefParam("in", resources.NewInputChan(receiveCh)),
		distsys.EnsureArchetypeRefParam("out", resources.NewOutputChan(sendCh)),
		distsys.EnsureArchetypeRefParam("c", &leaf{h: h, name: "in.c", val: tla.MakeNumber(0), lazy: true}),
	)}
}

// ------------------------------------------------------------------ nproto: gated inner contexts

// the FairnessCounter of inner context i is its gate at the loop head, as for the outer context
type innerCounter struct {
	h     *harness
	in    *innerCtx
	inner distsys.FairnessCounter
}

func (g *innerCounter) BeginCriticalSection(pc string) {
	g.inner.BeginCriticalSection(pc)
	emit(rec{"e": "ibegin", "i": g.in.i, "n": g.in.attempts.Add(1)})
	g.in.gateB.wait()
}
func (g *innerCounter) NextFairnessCounter(id string, c uint) uint {
	return g.inner.NextFairnessCounter(id, c)
}

// inner contexts of the nproto cases: one looping label whose body parks on a gate and then commits a write
// to its resource "c" (kind commit), reaches Done (kind done) or fails an assertion (kind err). They do not
// serve the nested-archetype request protocol (the outer sections do not use the nested resource), so no
// timer is ever armed and a hang is visible to the Go runtime's deadlock detector.
func nestedGated(h *harness, k int) []*distsys.MPCalContext {
	var out []*distsys.MPCalContext
	for i := 1; i <= k; i++ {
		in := &innerCtx{i: i, gateB: newGate(fmt.Sprintf("ibegin%d", i)), gateBody: newGate(fmt.Sprintf("ibody%d", i)),
			budget: h.cs.Bound + 1}
		h.inner = append(h.inner, in)
		body := func(iface distsys.ArchetypeInterface) error {
			emit(rec{"e": "ienter", "i": in.i})
			kind := in.gateBody.wait()
			fin := func(err error) error {
				emit(rec{"e": "isecend", "i": in.i, "kind": kind})
				return err
			}
			switch kind {
			case "done":
				return fin(distsys.ErrDone)
			case "err":
				return fin(fmt.Errorf("%w: inner context %d", distsys.ErrAssertionFailed, in.i))
			}
			c, err := iface.RequireArchetypeResourceRef("N.c")
			if err != nil {
				return fin(err)
			}
			if err = iface.Write(c, nil, tla.MakeNumber(int32(in.attempts.Load()))); err != nil {
				return fin(err)
			}
			return fin(iface.Goto("N.loop"))
		}
		arch := distsys.MPCalArchetype{
			Name: "N", Label: "N.loop",
			RequiredRefParams: []string{"N.c", "N.d"},
			JumpTable:         distsys.MakeMPCalJumpTable(distsys.MPCalCriticalSection{Name: "N.loop", Body: body}),
			ProcTable:         distsys.MakeMPCalProcTable(),
			PreAmble:          func(distsys.ArchetypeInterface) {},
		}
		out = append(out, distsys.NewMPCalContext(tla.MakeNumber(int32(10+i)), arch,
			distsys.SetFairnessCounter(&innerCounter{h: h, in: in, inner: distsys.MakeRoundRobinFairnessCounter()}),
			distsys.EnsureArchetypeRefParam("c", &leaf{h: h, name: fmt.Sprintf("in%d.c", i), val: tla.MakeNumber(0), inner: i}),
			distsys.EnsureArchetypeRefParam("d", &leaf{h: h, name: fmt.Sprintf("in%d.d", i), val: tla.MakeNumber(0), inner: i}),
		))
	}
	return out
}

func (h *harness) emitCase() {
	emit(rec{"e": "case", "id": h.cs.ID, "mode": h.cs.Mode, "mix": h.cs.Mix, "cfg": h.cfg, "bound": h.cs.Bound})
}

func newHarness(cs caseSpec) *harness {
	h := &harness{cs: cs, proto: cs.Mode == "proto" || cs.Mode == "nproto", nested: cs.Mode == "nproto",
		byGid: map[int64]int{}, allDone: make(chan struct{}),
		gateB: newGate("begin"), gateBody: newGate("body"), gateC: newGate("close"),
		launched: make([]bool, len(cs.Stops))}
	h.gateB.autoV = func() string { return "" }
	h.gateC.autoV = func() string { return "" }
	h.gateBody.autoV = func() string {
		if !h.proto {
			i := int(h.scriptPos.Add(1)) - 1
			if i < len(cs.Script) {
				return cs.Script[i]
			}
			return "done"
		}
		if h.stopWaiting.Load() {
			return "commit" // a Stop call is waiting: a correct Run leaves at the next poll
		}
		return "done"
	}
	if !h.proto {
		h.gateB.auto.Store(true)
		h.gateBody.auto.Store(true)
		h.gateC.auto.Store(true)
	}
	x := &leaf{h: h, name: "x", val: tla.MakeNumber(0), gated: !h.nested, commits: true}
	y := &leaf{h: h, name: "y", val: tla.MakeNumber(0), closeErr: cs.CloseErr}
	cfgs := []distsys.MPCalContextConfigFn{
		distsys.SetFairnessCounter(&gateCounter{h: h, inner: distsys.MakeRoundRobinFairnessCounter()}),
		distsys.EnsureArchetypeRefParam("x", x),
		distsys.EnsureArchetypeRefParam("y", y),
	}
	h.cfg = []string{"x", "y"}
	req := []string{"A.x", "A.y"}
	if cs.Mix != "leaf" && !h.nested {
		m := resources.NewIncMap(func(idx tla.Value) distsys.ArchetypeResource {
			name := "m[" + idx.String() + "]"
			emit(rec{"e": "create", "res": name})
			return &leaf{h: h, name: name, val: tla.MakeNumber(0)}
		})
		hmap := hashmap.New[distsys.ArchetypeResource]()
		for i := 1; i <= 2; i++ {
			name := fmt.Sprintf("h[%d]", i)
			hmap.Set(tla.MakeNumber(int32(i)), &leaf{h: h, name: name, val: tla.MakeNumber(0)})
			h.cfg = append(h.cfg, name)
		}
		cfgs = append(cfgs, distsys.EnsureArchetypeRefParam("m", &counted{inner: m, name: "m"}),
			distsys.EnsureArchetypeRefParam("h", &counted{inner: resources.NewHashMap(hmap), name: "h"}))
		h.cfg = append(h.cfg, "m", "h")
		req = append(req, "A.m", "A.h")
	}
	if h.nested {
		// the inner contexts start running inside NewNested: the case header must be in the log before their events
		k := cs.Inner
		if k < 1 {
			fatal(3, "nproto case %d without inner contexts", cs.ID)
		}
		h.cfg = append(h.cfg, "nst")
		for i := 1; i <= k; i++ {
			h.cfg = append(h.cfg, fmt.Sprintf("in%d.c", i), fmt.Sprintf("in%d.d", i))
		}
		req = append(req, "A.nst")
		h.emitCase()
		nst := resources.NewNested(func(chan<- tla.Value, <-chan tla.Value) []*distsys.MPCalContext {
			return nestedGated(h, k)
		})
		cfgs = append(cfgs, distsys.EnsureArchetypeRefParam("nst", &counted{inner: nst, name: "nst"}))
	}
	switch cs.Mix {
	case "nested":
		nst := resources.NewNested(func(sendCh chan<- tla.Value, receiveCh <-chan tla.Value) []*distsys.MPCalContext {
			return nestedInner(h, sendCh, receiveCh)
		})
		cfgs = append(cfgs, distsys.EnsureArchetypeRefParam("nst", &counted{inner: nst, name: "nst"}))
		h.cfg = append(h.cfg, "nst")
		req = append(req, "A.nst")
	case "fd":
		addr := freePort()
		mon := resources.NewMonitor(addr)
		go mon.ListenAndServe()
		h.extraClose = append(h.extraClose, func() { mon.Close() })
		fd := resources.NewIncMap(func(idx tla.Value) distsys.ArchetypeResource {
			name := "fd[" + idx.String() + "]"
			emit(rec{"e": "create", "res": name})
			return &counted{name: name, inner: resources.NewSingleFailureDetector(idx, addr,
				resources.WithFailureDetectorPullInterval(15*time.Millisecond),
				resources.WithFailureDetectorTimeout(200*time.Millisecond))}
		})
		cfgs = append(cfgs, distsys.EnsureArchetypeRefParam("fd", &counted{inner: fd, name: "fd"}))
		h.cfg = append(h.cfg, "fd")
		req = append(req, "A.fd")
	case "tcp":
		addr := freePort()
		nw := resources.NewTCPMailboxes(func(idx tla.Value) (resources.MailboxKind, string) {
			if idx.Equal(tla.MakeNumber(1)) {
				return resources.MailboxesLocal, addr
			}
			return resources.MailboxesRemote, addr
		})
		cfgs = append(cfgs, distsys.EnsureArchetypeRefParam("net", &counted{inner: nw, name: "net"}))
		h.cfg = append(h.cfg, "net")
		req = append(req, "A.net")
	}
	arch := distsys.MPCalArchetype{
		Name: "A", Label: "A.loop",
		RequiredRefParams: req,
		JumpTable:         distsys.MakeMPCalJumpTable(distsys.MPCalCriticalSection{Name: "A.loop", Body: h.body}),
		ProcTable:         distsys.MakeMPCalProcTable(),
		PreAmble:          func(distsys.ArchetypeInterface) {},
	}
	h.ctx = distsys.NewMPCalContext(tla.MakeNumber(1), arch, cfgs...)
	return h
}

// ------------------------------------------------------------------ calls into the code under test

func (h *harness) startRun() {
	th := &thread{done: make(chan struct{})}
	var r int
	h.pending.Add(1)
	emitWith(func() rec {
		h.mu.Lock()
		h.runs = append(h.runs, th)
		r = len(h.runs)
		h.mu.Unlock()
		return rec{"e": "runcall", "r": r}
	})
	ready := make(chan struct{})
	go func() {
		defer h.pending.Done()
		id := gid()
		th.gid.Store(id)
		h.mu.Lock()
		h.byGid[id] = r
		h.mu.Unlock()
		close(ready)
		out := rec{"e": "runret", "r": r, "isnil": false, "assert": false, "fall": false, "reserr": false,
			"closeerr": false, "other": false, "panic": "none", "msg": ""}
		func() {
			defer func() {
				if p := recover(); p != nil {
					msg := fmt.Sprint(p)
					out["msg"] = msg
					_, isRuntime := p.(runtime.Error)
					switch {
					case p == (sentinel{}):
						out["panic"] = "sentinel"
					case strings.Contains(msg, "already been run"):
						out["panic"] = "already" // the documented refusal
					case strings.Contains(msg, "could not listen on address"):
						fatal(3, "port taken between allocation and use (not a verdict): %s", msg)
					case isRuntime:
						out["panic"] = "other" // e.g. close of closed channel
					default:
						out["panic"] = "refused" // a deliberate panic(error) with another wording
					}
				}
			}()
			err := h.ctx.Run()
			if err == nil {
				out["isnil"] = true
				return
			}
			out["msg"] = err.Error()
			out["assert"] = errors.Is(err, distsys.ErrAssertionFailed)
			out["fall"] = errors.Is(err, distsys.ErrProcedureFallthrough)
			out["reserr"] = errors.Is(err, errRes)
			out["closeerr"] = errors.Is(err, errClose)
			out["other"] = !(out["assert"].(bool) || out["fall"].(bool) || out["reserr"].(bool) || out["closeerr"].(bool))
		}()
		th.returned.Store(true)
		emit(out)
		close(th.done)
	}()
	<-ready
}

func (h *harness) startStop(yield int) {
	th := &thread{done: make(chan struct{})}
	var t int
	h.pending.Add(1)
	ready := make(chan struct{})
	go func() {
		defer h.pending.Done()
		th.gid.Store(gid())
		for i := 0; i < yield; i++ {
			runtime.Gosched()
		}
		emitWith(func() rec {
			h.mu.Lock()
			h.stops = append(h.stops, th)
			t = len(h.stops)
			h.mu.Unlock()
			return rec{"e": "stopcall", "t": t}
		})
		close(ready)
		func() {
			defer func() {
				if p := recover(); p != nil {
					emit(rec{"e": "note", "what": "Stop panicked", "t": t, "msg": fmt.Sprint(p)})
				}
			}()
			h.ctx.Stop()
		}()
		th.returned.Store(true)
		emit(rec{"e": "stopret", "t": t})
	}()
	if h.proto {
		<-ready
	}
}

// free mode: stops tied to a point of the run
func (h *harness) launchStops(when string, k int) {
	if h.proto {
		return
	}
	h.launchMu.Lock()
	var todo []stopSpec
	for i, s := range h.cs.Stops {
		if !h.launched[i] && (when == "post" || (s.When == when && (when != "begin" || s.K == k))) {
			h.launched[i] = true
			todo = append(todo, s)
		}
	}
	h.launchMu.Unlock()
	for _, s := range todo {
		h.startStop(s.Yield)
	}
}

// ------------------------------------------------------------------ proto mode: commands and quiescence

// settle waits until every goroutine of the process other than the caller is parked on a
// synchronisation primitive (or has ended); then logs newly parked Stop calls and the observation.
func (h *harness) settle() {
	me := gid()
	deadline := time.Now().Add(150 * time.Second)
	var snap map[int64]ginfo
	for i := 0; ; i++ {
		snap = snapshot()
		ok := true
		for id, g := range snap {
			if id != me && blockedClass(g.status) == "" {
				ok = false
				break
			}
		}
		if ok {
			break
		}
		if time.Now().After(deadline) {
			fatal(3, "watchdog: the code under test did not become quiescent (case %d)", h.cs.ID)
		}
		if i < 50 {
			runtime.Gosched()
		} else {
			time.Sleep(time.Duration(20*(1+i/50)) * time.Microsecond)
		}
	}
	h.mu.Lock()
	stops := append([]*thread(nil), h.stops...)
	runs := append([]*thread(nil), h.runs...)
	h.mu.Unlock()
	sv := []string{}
	waiting := false
	for i, th := range stops {
		if th.returned.Load() {
			sv = append(sv, "ret")
			continue
		}
		g, ok := snap[th.gid.Load()]
		if !ok { // ended between the flag and the snapshot cannot happen (flag is set first); be safe
			sv = append(sv, "ret")
			continue
		}
		c := blockedClass(g.status)
		sv = append(sv, c)
		waiting = true
		if !th.blocked {
			th.blocked = true
			emit(rec{"e": "stopblocked", "t": i + 1, "how": c, "where": site(g)})
		}
	}
	h.stopWaiting.Store(waiting)
	if !waiting {
		h.beginsAfter.Store(0)
	}
	rv := []string{}
	rw := []string{}
	for _, th := range runs {
		if th.returned.Load() {
			rv = append(rv, "ret")
			continue
		}
		g := snap[th.gid.Load()]
		switch {
		case h.gateB.parked.Load() && inFrames(g, "gateCounter).BeginCriticalSection"):
			rv = append(rv, "gateB")
		case h.gateBody.parked.Load() && inFrames(g, "harness).body"):
			rv = append(rv, "body")
		case h.gateC.parked.Load() && inFrames(g, "leaf).Close"):
			rv = append(rv, "gateC")
		case h.nested && blockedClass(g.status) == "recv" && inFrames(g, "nestedArchetype).Close"):
			rv = append(rv, "nclose") // Close of the nested resource waits for the results of its inner contexts
		default:
			rv = append(rv, blockedClass(g.status))
			rw = append(rw, g.status+"@"+site(g))
		}
	}
	if h.quiet {
		return
	}
	if h.nested {
		iv := []string{}
		for _, in := range h.inner {
			switch {
			case in.gateB.parked.Load():
				iv = append(iv, "gateB")
			case in.gateBody.parked.Load():
				iv = append(iv, "body")
			default:
				iv = append(iv, "gone") // everything is parked and it is at none of its gates: its Run has returned
			}
		}
		emit(rec{"e": "obs", "s": sv, "r": rv, "rwhere": rw, "i": iv})
		return
	}
	emit(rec{"e": "obs", "s": sv, "r": rv, "rwhere": rw})
}

func inFrames(g ginfo, s string) bool {
	for _, f := range g.frames {
		if strings.Contains(f, s) {
			return true
		}
	}
	return false
}

// first frame that is not runtime / sync internals
func site(g ginfo) string {
	for _, f := range g.frames {
		if strings.HasPrefix(f, "runtime.") || strings.HasPrefix(f, "sync.") || strings.HasPrefix(f, "internal/") {
			continue
		}
		if i := strings.LastIndex(f, "("); i > 0 {
			f = f[:i]
		}
		return f
	}
	return ""
}

func (h *harness) exec(cmd string) bool {
	switch {
	case cmd == "run":
		h.startRun()
	case cmd == "stop":
		h.startStop(0)
	case cmd == "enter":
		return h.gateB.release("")
	case strings.HasPrefix(cmd, "finish:"):
		return h.gateBody.release(strings.TrimPrefix(cmd, "finish:"))
	case cmd == "closeopen":
		return h.gateC.release("")
	case strings.HasPrefix(cmd, "ienter:"), strings.HasPrefix(cmd, "ifinish:"):
		f := strings.Split(cmd, ":")
		i, err := strconv.Atoi(f[1])
		if !h.nested || err != nil || i < 1 || i > len(h.inner) {
			fatal(3, "bad command %q", cmd)
		}
		if f[0] == "ienter" {
			return h.inner[i-1].gateB.release("")
		}
		return h.inner[i-1].gateBody.release(f[2])
	default:
		fatal(3, "unknown command %q", cmd)
	}
	return true
}

func (h *harness) finishCase() {
	// everything the case started must return; the wait is timer-free so that the Go runtime's
	// deadlock detector fires if it cannot
	go func() { h.pending.Wait(); close(h.allDone) }()
	<-h.allDone
	for _, f := range h.extraClose {
		f()
	}
	emit(rec{"e": "end", "why": "complete"})
}

// drain ends an nproto case without handing control to the code: one gate at a time, and only when every
// goroutine is parked. The outer context is let go as in proto mode (a section ends with "commit" while a
// Stop call waits, else with "done"). Once the outer run has begun, every inner context that is still
// running is granted Bound+1 further sections: a context that was asked to stop leaves at its next loop
// head, so on a correct tree one section suffices and the budget is never used up. What is still parked
// afterwards can only be moved by the code under test; the final wait is timer-free, so if calls are
// outstanding then the Go runtime reports the deadlock.
func (h *harness) drain() {
	h.quiet = true
	for n := 0; ; n++ {
		if n > 400 {
			fatal(3, "watchdog: drain of case %d does not end", h.cs.ID)
		}
		h.settle()
		moved := false
		switch {
		case h.gateB.parked.Load():
			moved = h.gateB.release("")
		case h.gateBody.parked.Load():
			moved = h.gateBody.release(h.gateBody.autoV())
		case h.attempts.Load() > 0:
			for _, in := range h.inner {
				if in.gateBody.parked.Load() {
					moved = in.gateBody.release("commit")
				} else if in.gateB.parked.Load() && in.budget > 0 {
					in.budget--
					moved = in.gateB.release("")
				}
				if moved {
					break
				}
			}
		}
		if !moved {
			return
		}
	}
}

func runCase(cs caseSpec) {
	h := newHarness(cs)
	if h.nested {
		h.settle() // the inner contexts run from construction: wait until each is parked at its first gate
		for i, cmd := range cs.Steps {
			if !h.exec(cmd) {
				emit(rec{"e": "note", "what": "drift: command not applicable to the code's state", "cmd": cmd, "step": i})
				break
			}
			h.settle()
		}
		h.drain()
		h.finishCase()
		return
	}
	h.emitCase()
	if h.proto {
		for i, cmd := range cs.Steps {
			if !h.exec(cmd) {
				emit(rec{"e": "note", "what": "drift: command not applicable to the code's state", "cmd": cmd, "step": i})
				break
			}
			h.settle()
		}
		h.gateBody.setAuto()
		h.gateB.setAuto()
		h.gateC.setAuto()
		h.finishCase()
		return
	}
	// free mode
	for i, s := range cs.Stops {
		if s.When == "pre" {
			h.launched[i] = true
			h.startStop(s.Yield)
		}
	}
	h.startRun()
	h.mu.Lock()
	first := h.runs[0]
	h.mu.Unlock()
	// timer-free wait for the first run (a Stop that deadlocks the run is found by the runtime)
	waitRet(first)
	h.launchStops("post", 0)
	if cs.Rerun {
		h.startRun()
	}
	h.finishCase()
}

// timer-free wait: if the run can never return the Go runtime reports the deadlock
func waitRet(th *thread) { <-th.done }

// ------------------------------------------------------------------ main / supervisor

func fatal(code int, f string, a ...interface{}) {
	fmt.Fprintf(os.Stderr, "c17drv: "+f+"\n", a...)
	os.Exit(code)
}

func readCases(path string) []caseSpec {
	fh, err := os.Open(path)
	if err != nil {
		fatal(3, "%v", err)
	}
	defer fh.Close()
	var out []caseSpec
	sc := bufio.NewScanner(fh)
	sc.Buffer(make([]byte, 1<<20), 1<<26)
	for sc.Scan() {
		if len(bytes.TrimSpace(sc.Bytes())) == 0 {
			continue
		}
		var c caseSpec
		if err := json.Unmarshal(sc.Bytes(), &c); err != nil {
			fatal(3, "bad case: %v", err)
		}
		out = append(out, c)
	}
	return out
}

// summarise the runtime's goroutine dump: "status@function" of goroutines parked inside distsys
func summarise(stderr string) []string {
	var out []string
	for _, blk := range strings.Split(stderr, "\n\n") {
		lines := strings.Split(strings.TrimSpace(blk), "\n")
		m := hdrRe.FindStringSubmatch(lines[0])
		if m == nil {
			continue
		}
		for _, ln := range lines[1:] {
			if strings.HasPrefix(ln, "\t") || strings.HasPrefix(ln, "created by") {
				continue
			}
			if strings.Contains(ln, "pgo/distsys") {
				if i := strings.LastIndex(ln, "("); i > 0 {
					ln = ln[:i]
				}
				out = append(out, strings.Split(m[2], ",")[0]+"@"+ln)
				break
			}
		}
	}
	return out
}

// crashSite: the child died of a panic. If the panicking goroutine's innermost frame outside the Go runtime is
// code of /repo's distsys (a goroutine of the code under test that nobody can guard with recover, e.g. the ones
// NewNested starts), returns the panic message and that frame; otherwise ok is false (harness problem).
func crashSite(stderr string) (msg, where string, ok bool) {
	i := strings.Index(stderr, "panic: ")
	if i < 0 {
		return "", "", false
	}
	rest := stderr[i:]
	lines := strings.Split(rest, "\n")
	msg = strings.TrimPrefix(lines[0], "panic: ")
	inG := false
	for _, ln := range lines[1:] {
		if hdrRe.MatchString(ln) {
			if inG {
				break
			}
			inG = true
			continue
		}
		if !inG || ln == "" || strings.HasPrefix(ln, "\t") || strings.HasPrefix(ln, "created by") {
			continue
		}
		if strings.HasPrefix(ln, "runtime.") || strings.HasPrefix(ln, "panic(") || strings.HasPrefix(ln, "sync.") ||
			strings.HasPrefix(ln, "internal/") {
			continue
		}
		if j := strings.LastIndex(ln, "("); j > 0 {
			ln = ln[:j]
		}
		return msg, ln, strings.Contains(ln, "pgo/distsys")
	}
	return msg, "", false
}

func tail(s string, n int) string {
	if len(s) > n {
		return s[len(s)-n:]
	}
	return s
}

func supervise(casesPath, outPath string, n int, stall int, maxDeadlocks int) {
	self, err := os.Executable()
	if err != nil {
		fatal(3, "%v", err)
	}
	from := 0
	deadlocks := 0
	watchdogs := 0
	crashes := 0
	for from < n {
		cmd := exec.Command(self, "-mode", "child", "-cases", casesPath, "-out", outPath, "-from", strconv.Itoa(from))
		cmd.Env = append(os.Environ(), "GOTRACEBACK=all")
		var stderr bytes.Buffer
		cmd.Stderr = &stderr
		stdout, _ := cmd.StdoutPipe()
		if err := cmd.Start(); err != nil {
			fatal(3, "cannot start child: %v", err)
		}
		var last atomic.Int64
		last.Store(int64(from) - 1)
		var progress atomic.Int64
		progress.Store(time.Now().UnixNano())
		rdDone := make(chan struct{})
		go func() {
			defer close(rdDone)
			br := bufio.NewReader(stdout)
			for {
				ln, err := br.ReadString('\n')
				if strings.HasPrefix(ln, "CASE ") {
					v, _ := strconv.Atoi(strings.TrimSpace(ln[5:]))
					last.Store(int64(v))
					progress.Store(time.Now().UnixNano())
				}
				if err != nil {
					return
				}
			}
		}()
		waitCh := make(chan error, 1)
		go func() { <-rdDone; waitCh <- cmd.Wait() }()
		var werr error
		killed := false
	wait:
		for {
			select {
			case werr = <-waitCh:
				break wait
			case <-time.After(2 * time.Second):
				if time.Since(time.Unix(0, progress.Load())) > time.Duration(stall)*time.Second {
					cmd.Process.Kill()
					killed = true
				}
			}
		}
		if killed {
			// not a verdict: the case is marked and the batch goes on (twice at most)
			emit(rec{"e": "end", "why": "watchdog", "stderr": tail(stderr.String(), 1500)})
			watchdogs++
			from = int(last.Load()) + 1
			if watchdogs >= 2 {
				break
			}
			continue
		}
		if werr == nil {
			from = n
			break
		}
		se := stderr.String()
		if strings.Contains(se, "all goroutines are asleep - deadlock!") {
			// the Go runtime established that no goroutine can ever run again while calls are outstanding
			emit(rec{"e": "end", "why": "deadlock", "where": summarise(se)})
			deadlocks++
			from = int(last.Load()) + 1
			if maxDeadlocks > 0 && deadlocks >= maxDeadlocks && from < n {
				// every deadlock costs a process and the runtime's detection latency; the batch has made its point
				fmt.Printf("cases=%d executed=%d deadlocks=%d watchdogs=%d skipped=%d\n", n, from, deadlocks, watchdogs, n-from)
				return
			}
			continue
		}
		if msg, where, ok := crashSite(se); ok && crashes < 10 {
			// an unguardable goroutine of the code under test panicked and took the process down
			emit(rec{"e": "end", "why": "crash", "msg": msg, "where": []string{"panic: " + msg + " @" + where}})
			crashes++
			deadlocks++ // counts against -maxdeadlocks as well
			from = int(last.Load()) + 1
			if maxDeadlocks > 0 && deadlocks >= maxDeadlocks && from < n {
				fmt.Printf("cases=%d executed=%d deadlocks=%d watchdogs=%d skipped=%d\n", n, from, deadlocks, watchdogs, n-from)
				return
			}
			continue
		}
		io.WriteString(os.Stderr, se)
		fatal(3, "child failed in case index %d: %v", last.Load(), werr)
	}
	fmt.Printf("cases=%d executed=%d deadlocks=%d watchdogs=%d skipped=0\n", n, from, deadlocks, watchdogs)
}

func main() {
	mode := flag.String("mode", "sup", "sup | child")
	casesF := flag.String("cases", "cases.ndjson", "")
	outF := flag.String("out", "trace.ndjson", "")
	from := flag.Int("from", 0, "")
	stall := flag.Int("stall", 240, "seconds without progress after which a child is given up (never a verdict)")
	maxDl := flag.Int("maxdeadlocks", 0, "sup: stop the batch after this many runtime-confirmed deadlocks (0 = never)")
	flag.Parse()
	var err error
	outFh, err = os.OpenFile(*outF, os.O_APPEND|os.O_CREATE|os.O_WRONLY, 0644)
	if err != nil {
		fatal(3, "%v", err)
	}
	cases := readCases(*casesF)
	switch *mode {
	case "sup":
		supervise(*casesF, *outF, len(cases), *stall, *maxDl)
	case "child":
		log.SetOutput(io.Discard)
		for i := *from; i < len(cases); i++ {
			fmt.Printf("CASE %d\n", i)
			runCase(cases[i])
		}
	default:
		fatal(3, "unknown mode")
	}
}
