// c06drv -- binding of the C06 specifications (spec/C06) to the real link resources of
// distsys/resources: TCP mailboxes, relaxed mailboxes, Go-channel resources (InputChan,
// OutputChan, raftkvs.CustomInChan), IncMap and the mailbox length resource.
//
// Every node of a case is a hand-built MPCal archetype run by the real MPCalContext.Run. Its
// single critical section interprets commands (write / read / length / abort / commit / commit
// with a vetoing sibling resource) against the real resources, which are wrapped in a logging
// decorator: every call into the public ArchetypeResource API (Index, ReadValue, WriteValue,
// PreCommit, Commit, Abort) is logged with its arguments and result, in one global order. The
// log is judged by TLC (spec/C06/LinksObs.tla); this program never decides a verdict.
//
// Modes:
//
//	sched    commands are issued one at a time, following behaviours TLC generated from the
//	         M-specs (S->I); the result of every command is reported next to the M-spec's
//	         expectation (a mismatch is model drift, decided by checks/C06.py, never a verdict)
//	stress   every node runs its own seeded random script concurrently
//	reorder  the write-timeout scenario of DESIGN section 8 #15 (stalled receiver, large payloads)
//	dqueue   the shipped systems/dqueue archetypes over real TCP mailboxes
//	twodest  one section writing to two stalled receivers: two pre-commit time-outs, immediate retry
package main

import (
	"bufio"
	"encoding/json"
	"flag"
	"fmt"
	"io"
	"log"
	"math/rand"
	"net"
	"os"
	"strconv"
	"strings"
	"sync"
	"sync/atomic"
	"time"

	"github.com/DistCompiler/pgo/distsys"
	"github.com/DistCompiler/pgo/distsys/resources"
	"github.com/DistCompiler/pgo/distsys/tla"
	"github.com/DistCompiler/pgo/distsys/trace"
	"github.com/DistCompiler/pgo/systems/dqueue"
	"github.com/DistCompiler/pgo/systems/raftkvs"
)

// ------------------------------------------------------------------------------------ cases

type Cmd struct {
	N  int    `json:"n"`            // node
	Op string `json:"op"`           // W RD LN A C V L
	To int    `json:"to,omitempty"` // destination of W
}

type Case struct {
	ID      string   `json:"case"`
	Fl      string   `json:"fl"`               // tcp | relaxed | chan
	Custom  bool     `json:"custom,omitempty"` // chan flavour: receivers use raftkvs.CustomInChan
	Senders []int    `json:"senders"`
	Recvs   []int    `json:"recvs"`
	Cap     int      `json:"cap"`
	Cmds    []Cmd    `json:"cmds,omitempty"`
	Exp     []string `json:"exp,omitempty"`
	// stress
	Sections int   `json:"sections,omitempty"`
	Seed     int64 `json:"seed,omitempty"`
	Pad      int   `json:"pad,omitempty"` // payload padding (bytes)
	RT       int   `json:"rt,omitempty"`  // read timeout ms
	WT       int   `json:"wt,omitempty"`  // write timeout ms
	Late     bool  `json:"late,omitempty"`
	Consumers int  `json:"consumers,omitempty"` // dqueue
	Items     int  `json:"items,omitempty"`
	SlowPre   int  `json:"slowpre,omitempty"` // twodest: the first PreCommit of the element for this destination starts late
	SlowMs    int  `json:"slowms,omitempty"`
}

type Msg struct {
	S int `json:"s"`
	Q int `json:"q"`
}

type Event map[string]interface{}

// ------------------------------------------------------------------------------------ case run

type caseRun struct {
	c      Case
	mu     sync.Mutex
	events []Event
	nodes  map[int]*node
	addrs  map[int]string
	chans  map[int]chan tla.Value // chan flavour: the Go channel read by node r
	rt, wt time.Duration
	// bookkeeping for the drain rule (driver knowledge, not an oracle): committed traffic per receiver
	sentC map[int]int
	gotC  map[int]int
	dead  atomic.Bool
}

func (cr *caseRun) log(e Event) {
	cr.mu.Lock()
	cr.events = append(cr.events, e)
	cr.mu.Unlock()
}

func mj(m Msg) map[string]int { return map[string]int{"s": m.S, "q": m.Q} }

var closers sync.WaitGroup

func freeAddr() string {
	l, err := net.Listen("tcp", "127.0.0.1:0")
	if err != nil {
		panic(err)
	}
	a := l.Addr().String()
	l.Close()
	return a
}

// ------------------------------------------------------------------------------------ payloads

func payload(m Msg, pad int) tla.Value {
	if pad > 0 {
		return tla.MakeTuple(tla.MakeNumber(int32(m.S)), tla.MakeNumber(int32(m.Q)), tla.MakeString(strings.Repeat("x", pad)))
	}
	return tla.MakeTuple(tla.MakeNumber(int32(m.S)), tla.MakeNumber(int32(m.Q)))
}

func parseMsg(v tla.Value) (m Msg, ok bool) {
	defer func() {
		if recover() != nil {
			m, ok = Msg{-1, -1}, false
		}
	}()
	v = v.StripVClock()
	if !v.IsTuple() {
		return Msg{-1, -1}, false
	}
	t := v.AsTuple()
	if t.Len() < 2 {
		return Msg{-1, -1}, false
	}
	return Msg{int(t.Get(0).AsNumber()), int(t.Get(1).AsNumber())}, true
}

// msgOfWrite / msgOfRead: payloads written by this driver are tuples <<sender, seq, ...>>. The shipped
// dqueue consumers send their bare id as a request: such payloads are numbered by the decorator
// (k-th request of that consumer in committed sections; the numbering is rolled back when the
// section aborts, since the retry sends / re-reads the same request), which keeps loss and
// duplication observable by count.
func (n *node) msgOfWrite(v tla.Value, to int) Msg {
	if m, ok := parseMsg(v); ok {
		return m
	}
	if v.StripVClock().IsNumber() {
		n.wseq[to]++
		n.secW[to]++
		return Msg{n.id, n.wseq[to]}
	}
	return Msg{-1, -1}
}

func (n *node) msgOfRead(v tla.Value) Msg {
	if m, ok := parseMsg(v); ok {
		return m
	}
	if sv := v.StripVClock(); sv.IsNumber() {
		s := int(sv.AsNumber())
		n.rseq[s]++
		n.secR[s]++
		return Msg{s, n.rseq[s]}
	}
	return Msg{-1, -1}
}

// ------------------------------------------------------------------------------------ decorators

// decoMap wraps the map resource of a link end-point (Mailboxes / IncMap of channel resources).
type decoMap struct {
	distsys.ArchetypeResourceMapMixin
	inner  distsys.ArchetypeResource
	n      *node
	leaves map[int]*decoLeaf
}

func (d *decoMap) Index(iface distsys.ArchetypeInterface, index tla.Value) (distsys.ArchetypeResource, error) {
	sub, err := d.inner.Index(iface, index)
	if err != nil {
		return nil, err
	}
	i := int(index.AsNumber())
	if l, ok := d.leaves[i]; ok && l.inner == sub {
		return l, nil
	}
	l := &decoLeaf{inner: sub, n: d.n, idx: i}
	d.leaves[i] = l
	return l, nil
}

func (d *decoMap) PreCommit(iface distsys.ArchetypeInterface) chan error {
	d.n.cr.log(Event{"e": "pc", "p": d.n.id})
	return d.inner.PreCommit(iface)
}

func (d *decoMap) Commit(iface distsys.ArchetypeInterface) chan struct{} {
	d.n.cr.log(Event{"e": "cs", "p": d.n.id})
	d.n.commitStarted()
	ch := d.inner.Commit(iface)
	if ch == nil {
		d.n.cr.log(Event{"e": "ce", "p": d.n.id})
		return nil
	}
	out := make(chan struct{}, 1)
	go func() {
		<-ch
		d.n.cr.log(Event{"e": "ce", "p": d.n.id})
		out <- struct{}{}
	}()
	return out
}

func (d *decoMap) Abort(iface distsys.ArchetypeInterface) chan struct{} {
	d.n.cr.log(Event{"e": "ab", "p": d.n.id})
	d.n.aborted()
	return d.inner.Abort(iface)
}

func (d *decoMap) Close() error {
	closers.Add(1)
	go func() {
		defer closers.Done()
		defer func() { recover() }()
		d.inner.Close()
	}()
	return nil
}

type decoLeaf struct {
	distsys.ArchetypeResourceLeafMixin
	inner    distsys.ArchetypeResource
	n        *node
	idx      int
	slowDone bool
}

func (l *decoLeaf) Abort(iface distsys.ArchetypeInterface) chan struct{} { return l.inner.Abort(iface) }

// PreCommit forwards. In the twodest scenario the element of one destination is slow once: its
// PreCommit starts SlowMs late (as a goroutine that is scheduled late would), which the API allows:
// PreCommit is asynchronous and the caller has to wait for the channel.
func (l *decoLeaf) PreCommit(iface distsys.ArchetypeInterface) chan error {
	c := l.n.cr.c
	if c.SlowPre == 0 || c.SlowPre != l.idx || l.slowDone {
		return l.inner.PreCommit(iface)
	}
	l.slowDone = true
	out := make(chan error, 1)
	go func() {
		time.Sleep(time.Duration(c.SlowMs) * time.Millisecond)
		ch := l.inner.PreCommit(iface)
		if ch == nil {
			out <- nil
			return
		}
		out <- <-ch
	}()
	return out
}
func (l *decoLeaf) Commit(iface distsys.ArchetypeInterface) chan struct{} { return l.inner.Commit(iface) }
func (l *decoLeaf) Close() error                                          { return l.inner.Close() }

func (l *decoLeaf) ReadValue(iface distsys.ArchetypeInterface) (tla.Value, error) {
	v, err := l.inner.ReadValue(iface)
	if err != nil {
		l.n.cr.log(Event{"e": "rt", "p": l.n.id, "err": err.Error()})
		return v, err
	}
	if l.n.cr.c.Custom && v.StripVClock().IsBool() {
		// raftkvs.CustomInChan: the time-out value, not a message
		l.n.cr.log(Event{"e": "tk", "p": l.n.id})
		return v, nil
	}
	m := l.n.msgOfRead(v)
	l.n.cr.log(Event{"e": "rd", "p": l.n.id, "m": mj(m)})
	l.n.reads = append(l.n.reads, m)
	return v, nil
}

func (l *decoLeaf) WriteValue(iface distsys.ArchetypeInterface, value tla.Value) error {
	m := l.n.msgOfWrite(value, l.idx)
	l.n.cr.log(Event{"e": "ws", "p": l.n.id, "to": l.idx, "m": mj(m)})
	err := l.inner.WriteValue(iface, value)
	if err != nil {
		l.n.cr.log(Event{"e": "wf", "p": l.n.id, "to": l.idx, "m": mj(m), "err": err.Error()})
		return err
	}
	l.n.cr.log(Event{"e": "wk", "p": l.n.id, "to": l.idx, "m": mj(m)})
	l.n.writes = append(l.n.writes, l.idx)
	return nil
}

// decoLen wraps resources.NewMailboxesLength.
type decoLen struct {
	distsys.ArchetypeResourceMapMixin
	inner distsys.ArchetypeResource
	n     *node
}

type decoLenLeaf struct {
	distsys.ArchetypeResourceLeafMixin
	inner distsys.ArchetypeResource
	n     *node
}

func (d *decoLen) Index(iface distsys.ArchetypeInterface, index tla.Value) (distsys.ArchetypeResource, error) {
	sub, err := d.inner.Index(iface, index)
	if err != nil {
		return nil, err
	}
	return &decoLenLeaf{inner: sub, n: d.n}, nil
}
func (d *decoLen) PreCommit(iface distsys.ArchetypeInterface) chan error { return d.inner.PreCommit(iface) }
func (d *decoLen) Commit(iface distsys.ArchetypeInterface) chan struct{} { return d.inner.Commit(iface) }
func (d *decoLen) Abort(iface distsys.ArchetypeInterface) chan struct{}  { return d.inner.Abort(iface) }
func (d *decoLen) Close() error                                          { return d.inner.Close() }

func (l *decoLenLeaf) Abort(iface distsys.ArchetypeInterface) chan struct{}  { return l.inner.Abort(iface) }
func (l *decoLenLeaf) PreCommit(iface distsys.ArchetypeInterface) chan error { return l.inner.PreCommit(iface) }
func (l *decoLenLeaf) Commit(iface distsys.ArchetypeInterface) chan struct{} { return l.inner.Commit(iface) }
func (l *decoLenLeaf) Close() error                                          { return l.inner.Close() }
func (l *decoLenLeaf) WriteValue(iface distsys.ArchetypeInterface, v tla.Value) error {
	return l.inner.WriteValue(iface, v)
}
func (l *decoLenLeaf) ReadValue(iface distsys.ArchetypeInterface) (tla.Value, error) {
	v, err := l.inner.ReadValue(iface)
	if err == nil {
		l.n.cr.log(Event{"e": "ln", "p": l.n.id, "n": int(v.StripVClock().AsNumber())})
	}
	return v, err
}

// vetoRes is a sibling resource of the section whose PreCommit fails on demand: the section then
// aborts although the mailbox's own PreCommit handshake has succeeded.
type vetoRes struct {
	distsys.ArchetypeResourceLeafMixin
	armed bool
}

func (v *vetoRes) Abort(distsys.ArchetypeInterface) chan struct{} { v.armed = false; return nil }
func (v *vetoRes) PreCommit(distsys.ArchetypeInterface) chan error {
	if !v.armed {
		return nil
	}
	ch := make(chan error, 1)
	// answer late, so that the mailbox's handshake has normally completed when the veto arrives
	go func() { time.Sleep(5 * time.Millisecond); ch <- distsys.ErrCriticalSectionAborted }()
	return ch
}
func (v *vetoRes) Commit(distsys.ArchetypeInterface) chan struct{}        { return nil }
func (v *vetoRes) ReadValue(distsys.ArchetypeInterface) (tla.Value, error) { return tla.ModuleTRUE, nil }
func (v *vetoRes) WriteValue(distsys.ArchetypeInterface, tla.Value) error  { return nil }
func (v *vetoRes) Close() error                                            { return nil }

// ------------------------------------------------------------------------------------ node

type node struct {
	id   int
	cr   *caseRun
	cmds chan Cmd
	res  chan string
	seq  int
	ctx  *distsys.MPCalContext
	veto *vetoRes
	done chan struct{}
	// current attempt
	pending string
	reads   []Msg
	writes  []int
	free    bool // dqueue mode: nobody waits for replies
	wseq    map[int]int
	rseq    map[int]int
	secW    map[int]int
	secR    map[int]int
	runErr  error
}

func (n *node) reply(s string) {
	if n.free {
		return
	}
	n.res <- s
}

// bookkeeping of committed traffic (for the drain rule)
func (n *node) commitStarted() {
	n.cr.mu.Lock()
	for _, to := range n.writes {
		n.cr.sentC[to]++
	}
	n.cr.gotC[n.id] += len(n.reads)
	n.cr.mu.Unlock()
	n.writes, n.reads = nil, nil
	n.secW, n.secR = map[int]int{}, map[int]int{}
}
func (n *node) aborted() {
	n.writes, n.reads = nil, nil
	for to, k := range n.secW {
		n.wseq[to] -= k
	}
	for s, k := range n.secR {
		n.rseq[s] -= k
	}
	n.secW, n.secR = map[int]int{}, map[int]int{}
}

// RecordEvent is called by the context at the end of every attempt (commit or abort).
func (n *node) RecordEvent(ev trace.Event) {
	// sections whose resources were all clean do not reach the decorator: account them here
	if ev.IsAbort {
		n.aborted()
	}
	p := n.pending
	n.pending = ""
	switch p {
	case "":
		return
	case "C", "V":
		if ev.IsAbort {
			if p == "V" {
				n.reply("v")
			} else {
				n.reply("t")
			}
		} else {
			n.reply("c")
		}
	default:
		n.reply(p)
	}
}

func (n *node) body(iface distsys.ArchetypeInterface) error {
	netH, err := iface.RequireArchetypeResourceRef("N.net")
	if err != nil {
		return err
	}
	for {
		var c Cmd
		select {
		case c = <-n.cmds:
		case <-n.done:
			return iface.Goto("N.Done")
		}
		switch c.Op {
		case "W":
			n.seq++
			m := Msg{n.id, n.seq}
			err := iface.Write(netH, []tla.Value{tla.MakeNumber(int32(c.To))}, payload(m, n.cr.c.Pad))
			if err != nil {
				n.pending = "fail"
				return err
			}
			n.reply("ok")
		case "RD":
			v, err := iface.Read(netH, []tla.Value{tla.MakeNumber(int32(n.id))})
			if err != nil {
				n.pending = "to"
				return err
			}
			if n.cr.c.Custom && v.IsBool() {
				// CustomInChan yields TRUE on a time-out instead of aborting; the archetype aborts itself
				n.pending = "to"
				return distsys.ErrCriticalSectionAborted
			}
			m, _ := parseMsg(v)
			n.reply(fmt.Sprintf("%d.%d", m.S, m.Q))
		case "LN", "L":
			lenH, err := iface.RequireArchetypeResourceRef("N.netlen")
			if err != nil {
				return err
			}
			v, err := iface.Read(lenH, []tla.Value{tla.MakeNumber(int32(n.id))})
			if err != nil {
				n.pending = "to"
				return err
			}
			n.reply(strconv.Itoa(int(v.AsNumber())))
		case "A":
			n.pending = "a"
			return distsys.ErrCriticalSectionAborted
		case "C":
			n.pending = "C"
			return iface.Goto("N.step")
		case "V":
			vh, err := iface.RequireArchetypeResourceRef("N.veto")
			if err != nil {
				return err
			}
			n.veto.armed = true
			if err := iface.Write(vh, nil, tla.ModuleTRUE); err != nil {
				return err
			}
			n.pending = "V"
			return iface.Goto("N.step")
		case "X":
			return iface.Goto("N.Done")
		default:
			panic("unknown op " + c.Op)
		}
	}
}

func (cr *caseRun) mailboxOpts() []resources.MailboxesOption {
	return []resources.MailboxesOption{
		resources.WithMailboxesReceiveChanSize(cr.c.Cap),
		resources.WithMailboxesDialTimeout(cr.wt),
		resources.WithMailboxesReadTimeout(cr.rt),
		resources.WithMailboxesWriteTimeout(cr.wt),
	}
}

func (cr *caseRun) newNode(id int) *node {
	n := &node{id: id, cr: cr, cmds: make(chan Cmd, 4096), res: make(chan string, 4096), veto: &vetoRes{},
		done: make(chan struct{}), wseq: map[int]int{}, rseq: map[int]int{}, secW: map[int]int{}, secR: map[int]int{}}
	var inner, lenInner distsys.ArchetypeResource
	amf := func(index tla.Value) (resources.MailboxKind, string) {
		i := int(index.AsNumber())
		a, ok := cr.addrs[i]
		if !ok {
			panic(fmt.Errorf("no address for node %d", i))
		}
		if i == id {
			return resources.MailboxesLocal, a
		}
		return resources.MailboxesRemote, a
	}
	switch cr.c.Fl {
	case "tcp":
		mb := resources.NewTCPMailboxes(amf, cr.mailboxOpts()...)
		inner, lenInner = mb, resources.NewMailboxesLength(mb)
	case "relaxed":
		mb := resources.NewRelaxedMailboxes(amf, cr.mailboxOpts()...)
		inner, lenInner = mb, resources.NewMailboxesLength(mb)
	case "chan":
		inner = resources.NewIncMap(func(index tla.Value) distsys.ArchetypeResource {
			i := int(index.AsNumber())
			if i == id {
				if cr.c.Custom {
					return raftkvs.NewCustomInChan(cr.chans[i], cr.rt)
				}
				return resources.NewInputChan(cr.chans[i], resources.WithInputChanReadTimeout(cr.rt))
			}
			return resources.NewOutputChan(cr.chans[i])
		})
		lenInner = resources.NewIncMap(func(index tla.Value) distsys.ArchetypeResource {
			return distsys.NewLocalArchetypeResource(tla.MakeNumber(0))
		})
	default:
		panic("unknown flavour " + cr.c.Fl)
	}
	arch := distsys.MPCalArchetype{
		Name:              "N",
		Label:             "N.step",
		RequiredRefParams: []string{"N.net", "N.netlen", "N.veto"},
		JumpTable: distsys.MakeMPCalJumpTable(
			distsys.MPCalCriticalSection{Name: "N.step", Body: n.body},
			distsys.MPCalCriticalSection{Name: "N.Done", Body: func(distsys.ArchetypeInterface) error { return distsys.ErrDone }},
		),
		ProcTable: distsys.MakeMPCalProcTable(),
		PreAmble:  func(distsys.ArchetypeInterface) {},
	}
	n.ctx = distsys.NewMPCalContext(tla.MakeNumber(int32(id)), arch,
		distsys.EnsureArchetypeRefParam("net", &decoMap{inner: inner, n: n, leaves: map[int]*decoLeaf{}}),
		distsys.EnsureArchetypeRefParam("netlen", &decoLen{inner: lenInner, n: n}),
		distsys.EnsureArchetypeRefParam("veto", n.veto),
		distsys.SetTraceRecorder(n))
	cr.nodes[id] = n
	return n
}

func (n *node) start() {
	go func() {
		defer func() {
			if r := recover(); r != nil {
				n.cr.log(Event{"e": "panic", "p": n.id, "msg": fmt.Sprint(r)})
				n.cr.dead.Store(true)
			}
			close(n.res)
		}()
		n.runErr = n.ctx.Run()
	}()
}

// do issues one command and waits for its result (sched mode).
func (n *node) do(c Cmd, wd time.Duration) (string, bool) {
	n.cmds <- c
	select {
	case r, ok := <-n.res:
		if !ok {
			return "dead", false
		}
		return r, true
	case <-time.After(wd):
		return "hang", false
	}
}

func newCaseRun(c Case) *caseRun {
	cr := &caseRun{c: c, nodes: map[int]*node{}, addrs: map[int]string{}, chans: map[int]chan tla.Value{},
		sentC: map[int]int{}, gotC: map[int]int{}}
	cr.rt = time.Duration(c.RT) * time.Millisecond
	cr.wt = time.Duration(c.WT) * time.Millisecond
	if cr.rt == 0 {
		cr.rt = 60 * time.Millisecond
	}
	if cr.wt == 0 {
		cr.wt = 60 * time.Millisecond
	}
	if cr.c.Cap == 0 {
		cr.c.Cap = 1
	}
	all := append(append([]int{}, c.Senders...), c.Recvs...)
	for _, i := range all {
		cr.addrs[i] = freeAddr()
		cr.chans[i] = make(chan tla.Value, cr.c.Cap)
	}
	return cr
}

func (cr *caseRun) header(mode string) Event {
	if cr.c.Senders == nil {
		cr.c.Senders = []int{}
	}
	if cr.c.Recvs == nil {
		cr.c.Recvs = []int{}
	}
	return Event{"e": "case", "case": cr.c.ID, "fl": cr.c.Fl, "mode": mode, "custom": cr.c.Custom, "cap": cr.c.Cap,
		"senders": cr.c.Senders, "recvs": cr.c.Recvs}
}

func (cr *caseRun) stopAll() {
	for _, n := range cr.nodes {
		close(n.done)
	}
	for _, n := range cr.nodes {
		nn := n
		closers.Add(1)
		go func() {
			defer closers.Done()
			defer func() { recover() }()
			nn.ctx.Stop()
		}()
	}
}

const watchdog = 60 * time.Second

// drain: the receiver reads (committing every message) until it has obtained every message of
// the committed sections (count known to the driver), or the resource has reported K consecutive
// read time-outs after every sender finished; then quiescence is logged and the P-spec decides
// whether anything is missing.
func (cr *caseRun) drain(r *node, K int) bool {
	idle := 0
	for {
		cr.mu.Lock()
		left := cr.sentC[r.id] - cr.gotC[r.id]
		cr.mu.Unlock()
		if left <= 0 || idle >= K {
			break
		}
		res, ok := r.do(Cmd{N: r.id, Op: "RD"}, watchdog)
		if !ok {
			cr.log(Event{"e": "hang", "p": r.id, "what": "drain read: " + res})
			return false
		}
		if res == "to" {
			idle++
			continue
		}
		idle = 0
		if res2, ok := r.do(Cmd{N: r.id, Op: "C"}, watchdog); !ok {
			cr.log(Event{"e": "hang", "p": r.id, "what": "drain commit: " + res2})
			return false
		}
	}
	cr.log(Event{"e": "qs", "p": r.id, "idle": idle})
	return true
}

// ------------------------------------------------------------------------------------ sched mode

func runSched(c Case) []Event {
	cr := newCaseRun(c)
	cr.log(cr.header("sched"))
	for _, i := range append(append([]int{}, c.Senders...), c.Recvs...) {
		cr.newNode(i).start()
	}
	open := map[int]bool{}
	ok := true
	for i, cmd := range c.Cmds {
		n := cr.nodes[cmd.N]
		res, alive := n.do(cmd, watchdog)
		if cmd.Op == "L" && alive { // first use of the own mailbox (starts the listener), as a section of its own
			_, alive = n.do(Cmd{N: cmd.N, Op: "C"}, watchdog)
		}
		exp := ""
		if i < len(c.Exp) {
			exp = c.Exp[i]
		}
		cr.log(Event{"e": "res", "i": i, "n": cmd.N, "op": cmd.Op, "got": res, "exp": exp})
		if !alive {
			cr.log(Event{"e": "hang", "p": cmd.N, "what": fmt.Sprintf("command %d %s: %s", i, cmd.Op, res)})
			ok = false
			break
		}
		switch cmd.Op {
		case "W", "RD":
			open[cmd.N] = res != "fail" && res != "to"
		case "LN":
			open[cmd.N] = true
		case "L":
			open[cmd.N] = false
		case "A", "C", "V":
			open[cmd.N] = false
			if res == "c" {
				time.Sleep(2 * time.Millisecond) // let the handler publish (affects drift only)
			}
		}
		if cr.dead.Load() {
			ok = false
			break
		}
	}
	if ok {
		// epilogue: close open sections, make sure the receivers listen, drain, quiescence
		for _, s := range c.Senders {
			if open[s] {
				op := "A"
				if c.Fl == "relaxed" {
					op = "C"
				}
				if res, alive := cr.nodes[s].do(Cmd{N: s, Op: op}, watchdog); !alive {
					cr.log(Event{"e": "hang", "p": s, "what": "epilogue: " + res})
					ok = false
				}
			}
		}
		for _, r := range c.Recvs {
			if !ok {
				break
			}
			if open[r] {
				if res, alive := cr.nodes[r].do(Cmd{N: r, Op: "A"}, watchdog); !alive {
					cr.log(Event{"e": "hang", "p": r, "what": "epilogue: " + res})
					ok = false
					break
				}
			}
			ok = cr.drain(cr.nodes[r], 40)
		}
	}
	cr.stopAll()
	return cr.events
}

// ------------------------------------------------------------------------------------ stress mode

func runStress(c Case) []Event {
	cr := newCaseRun(c)
	cr.log(cr.header("stress"))
	rng := rand.New(rand.NewSource(c.Seed))
	for _, i := range append(append([]int{}, c.Senders...), c.Recvs...) {
		cr.newNode(i)
	}
	// receivers first (unless the case asks for late listeners: dial failures)
	startRecv := func() {
		for _, r := range c.Recvs {
			n := cr.nodes[r]
			n.start()
			if c.Fl != "chan" {
				n.do(Cmd{N: r, Op: "L"}, watchdog)
				n.do(Cmd{N: r, Op: "C"}, watchdog)
			}
		}
	}
	if !c.Late {
		startRecv()
	}
	// sender scripts
	var wg sync.WaitGroup
	for _, s := range c.Senders {
		n := cr.nodes[s]
		srng := rand.New(rand.NewSource(rng.Int63()))
		wg.Add(1)
		go func() {
			defer wg.Done()
			n.start()
			for sec := 0; sec < c.Sections; sec++ {
				nw := 1 + srng.Intn(3)
				if c.Fl == "relaxed" {
					nw = 1
				}
				failed := false
				for w := 0; w < nw && !failed; w++ {
					to := c.Recvs[srng.Intn(len(c.Recvs))]
					res, alive := n.do(Cmd{N: n.id, Op: "W", To: to}, watchdog)
					if !alive {
						cr.log(Event{"e": "hang", "p": n.id, "what": "stress write: " + res})
						return
					}
					failed = res == "fail"
				}
				if failed {
					continue
				}
				op := "C"
				if c.Fl != "relaxed" {
					switch x := srng.Intn(10); {
					case x < 2:
						op = "A"
					case x < 3:
						op = "V"
					}
				}
				if res, alive := n.do(Cmd{N: n.id, Op: op}, watchdog); !alive {
					cr.log(Event{"e": "hang", "p": n.id, "what": "stress end of section: " + res})
					return
				}
			}
		}()
	}
	if c.Late {
		time.Sleep(time.Duration(20+rng.Intn(60)) * time.Millisecond)
		startRecv()
	}
	// receivers: random sections until every sender is done, then drain
	sendersDone := make(chan struct{})
	go func() { wg.Wait(); close(sendersDone) }()
	var rg sync.WaitGroup
	for _, r := range c.Recvs {
		n := cr.nodes[r]
		rrng := rand.New(rand.NewSource(rng.Int63()))
		rg.Add(1)
		go func() {
			defer rg.Done()
			for {
				select {
				case <-sendersDone:
					cr.drain(n, 100)
					return
				default:
				}
				if rrng.Intn(6) == 0 { // the receiver stalls for a while: buffers fill, senders time out
					time.Sleep(time.Duration(rrng.Intn(3*int(cr.wt/time.Millisecond)+1)) * time.Millisecond)
				}
				nr := 1 + rrng.Intn(3)
				aborted := false
				for k := 0; k < nr && !aborted; k++ {
					if c.Fl != "chan" && rrng.Intn(4) == 0 {
						n.do(Cmd{N: n.id, Op: "LN"}, watchdog)
					}
					res, alive := n.do(Cmd{N: n.id, Op: "RD"}, watchdog)
					if !alive {
						cr.log(Event{"e": "hang", "p": n.id, "what": "stress read: " + res})
						return
					}
					aborted = res == "to"
				}
				if aborted {
					continue
				}
				op := "C"
				if rrng.Intn(4) == 0 {
					op = "A"
				}
				if res, alive := n.do(Cmd{N: n.id, Op: op}, watchdog); !alive {
					cr.log(Event{"e": "hang", "p": n.id, "what": "stress end of section: " + res})
					return
				}
			}
		}()
	}
	rg.Wait()
	cr.stopAll()
	return cr.events
}

// ------------------------------------------------------------------------------------ reorder mode

// The scenario of DESIGN section 8 #15 (stalled receiver, write time-out, re-dial):
//  1. the receiver does not read; the sender commits one-message sections until a write (or, for the
//     transactional flavour, the pre-commit handshake) times out: channel, handler and socket buffers are full;
//  2. the sender keeps trying (the resource re-dials);
//  3. receiver and sender alternate (a few reads, a few sends) until the sender has committed Items
//     further messages;  4. the receiver drains. TLC judges the receiver's sequence.
func runReorder(c Case) []Event {
	cr := newCaseRun(c)
	cr.log(cr.header("reorder"))
	s := cr.newNode(c.Senders[0])
	r := cr.newNode(c.Recvs[0])
	s.start()
	r.start()
	r.do(Cmd{N: r.id, Op: "L"}, watchdog)
	r.do(Cmd{N: r.id, Op: "C"}, watchdog)
	hang := func(what, res string) []Event {
		cr.log(Event{"e": "hang", "p": s.id, "what": what + ": " + res})
		cr.stopAll()
		return cr.events
	}
	send := func() (bool, bool) { // committed, alive
		res, alive := s.do(Cmd{N: s.id, Op: "W", To: r.id}, watchdog)
		if !alive {
			return false, false
		}
		if res == "fail" {
			return false, true
		}
		res, alive = s.do(Cmd{N: s.id, Op: "C"}, watchdog)
		return res == "c", alive
	}
	sent, fails, after := 0, 0, 0
	for i := 0; i < c.Sections && fails == 0; i++ {
		ok, alive := send()
		if !alive {
			return hang("reorder", "fill")
		}
		if ok {
			sent++
		} else {
			fails++
		}
	}
	for i := 0; i < 2*c.Items && fails > 0; i++ {
		ok, alive := send()
		if !alive {
			return hang("reorder", "retry")
		}
		if ok {
			after++
		} else {
			fails++
		}
	}
	for round := 0; round < 200 && after < 2*c.Items && fails > 0; round++ {
		for k := 0; k < 3; k++ {
			if res, alive := r.do(Cmd{N: r.id, Op: "RD"}, watchdog); !alive {
				return hang("reorder read", res)
			} else if res != "to" {
				r.do(Cmd{N: r.id, Op: "C"}, watchdog)
			}
		}
		for k := 0; k < 3; k++ {
			ok, alive := send()
			if !alive {
				return hang("reorder", "alternate")
			}
			if ok {
				after++
			} else {
				fails++
			}
		}
	}
	cr.log(Event{"e": "note", "filled_after": sent, "failed_attempts": fails, "committed_after_first_failure": after})
	cr.drain(r, 40)
	cr.stopAll()
	return cr.events
}

// ------------------------------------------------------------------------------------ twodest mode

// One section writes to two stalled receivers (both connection handlers parked on their full
// msgChannel), so both pre-commit handshakes time out, one of them (SlowPre) a little later than the
// other; the section aborts and is retried at once. Time-outs may only abort the section.
func runTwoDest(c Case) []Event {
	cr := newCaseRun(c)
	cr.log(cr.header("twodest"))
	s := cr.newNode(c.Senders[0])
	s.start()
	for _, r := range c.Recvs {
		n := cr.newNode(r)
		n.start()
		n.do(Cmd{N: r, Op: "L"}, watchdog)
		n.do(Cmd{N: r, Op: "C"}, watchdog)
	}
	for _, r := range c.Recvs { // first batch fills the channel, the second parks the handler
		for k := 0; k < 2; k++ {
			s.do(Cmd{N: s.id, Op: "W", To: r}, watchdog)
			res, _ := s.do(Cmd{N: s.id, Op: "C"}, watchdog)
			cr.log(Event{"e": "res", "i": k, "n": s.id, "op": "C", "got": res, "exp": "c"})
		}
	}
	// the section to both destinations and its immediate retry, queued ahead so that nothing waits for the driver
	script := []Cmd{{N: s.id, Op: "W", To: c.Recvs[0]}, {N: s.id, Op: "W", To: c.Recvs[1]}, {N: s.id, Op: "C"},
		{N: s.id, Op: "W", To: c.SlowPre}, {N: s.id, Op: "C"}}
	for _, cmd := range script {
		s.cmds <- cmd
	}
	for i, cmd := range script {
		select {
		case res, ok := <-s.res:
			if !ok {
				res = "dead"
			}
			cr.log(Event{"e": "res", "i": 10 + i, "n": s.id, "op": cmd.Op, "got": res, "exp": ""})
		case <-time.After(watchdog):
			cr.log(Event{"e": "hang", "p": s.id, "what": "twodest script"})
			cr.stopAll()
			return cr.events
		}
	}
	time.Sleep(time.Duration(2*c.WT+c.SlowMs) * time.Millisecond) // any straggling handshake goroutine ends (or crashes) here
	for _, r := range c.Recvs {
		cr.drain(cr.nodes[r], 40)
	}
	cr.stopAll()
	return cr.events
}

// ------------------------------------------------------------------------------------ dqueue mode

// The shipped dqueue archetypes (generated code) over real TCP mailboxes: the producer reads its
// input channel and answers consumers' requests; observation through the same decorator.
func runDqueue(c Case) []Event {
	cr := newCaseRun(Case{ID: c.ID, Fl: "tcp", Senders: []int{0}, Recvs: nil, Cap: c.Cap, RT: c.RT, WT: c.WT})
	cr.c.Consumers = c.Consumers
	ids := []int{0}
	for i := 1; i <= c.Consumers; i++ {
		ids = append(ids, i)
	}
	cr.c.Senders, cr.c.Recvs = ids, []int{}
	for _, i := range ids {
		cr.addrs[i] = freeAddr()
	}
	cr.log(cr.header("dqueue"))
	mk := func(id int) (*node, distsys.ArchetypeResource) {
		n := &node{id: id, cr: cr, free: true, veto: &vetoRes{}, done: make(chan struct{}), wseq: map[int]int{}, rseq: map[int]int{}, secW: map[int]int{}, secR: map[int]int{}}
		cr.nodes[id] = n
		mb := resources.NewTCPMailboxes(func(index tla.Value) (resources.MailboxKind, string) {
			i := int(index.AsNumber())
			if i == id {
				return resources.MailboxesLocal, cr.addrs[i]
			}
			return resources.MailboxesRemote, cr.addrs[i]
		}, cr.mailboxOpts()...)
		return n, &decoMap{inner: mb, n: n, leaves: map[int]*decoLeaf{}}
	}
	in := make(chan tla.Value, c.Items)
	out := make(chan tla.Value, c.Items)
	pn, pnet := mk(0)
	pn.ctx = distsys.NewMPCalContext(tla.MakeNumber(0), dqueue.AProducer,
		distsys.DefineConstantValue("PRODUCER", tla.MakeNumber(0)),
		distsys.EnsureArchetypeRefParam("net", pnet),
		distsys.EnsureArchetypeRefParam("s", resources.NewInputChan(in, resources.WithInputChanReadTimeout(cr.rt))))
	for i := 1; i <= c.Consumers; i++ {
		n, cnet := mk(i)
		n.ctx = distsys.NewMPCalContext(tla.MakeNumber(int32(i)), dqueue.AConsumer,
			distsys.DefineConstantValue("PRODUCER", tla.MakeNumber(0)),
			distsys.EnsureArchetypeRefParam("net", cnet),
			distsys.EnsureArchetypeRefParam("proc", resources.NewOutputChan(out)))
	}
	for _, n := range cr.nodes {
		nn := n
		go func() {
			defer func() {
				if r := recover(); r != nil {
					cr.log(Event{"e": "panic", "p": nn.id, "msg": fmt.Sprint(r)})
				}
			}()
			nn.ctx.Run()
		}()
	}
	// items are tuples <<0, k>>: the producer's k-th answer; requests are the consumers' ids (not tuples)
	for k := 1; k <= c.Items; k++ {
		in <- payload(Msg{0, k}, 0)
	}
	got := 0
	to := time.After(watchdog)
loop:
	for got < c.Items {
		select {
		case v := <-out:
			m, _ := parseMsg(v)
			cr.log(Event{"e": "out", "m": mj(m)})
			got++
		case <-to:
			cr.log(Event{"e": "hang", "p": 0, "what": fmt.Sprintf("dqueue: %d of %d items came out", got, c.Items)})
			break loop
		}
	}
	for _, n := range cr.nodes {
		nn := n
		closers.Add(1)
		go func() { defer closers.Done(); defer func() { recover() }(); nn.ctx.Stop() }()
	}
	return cr.events
}

// ------------------------------------------------------------------------------------ main

func runCase(mode string, c Case) (evs []Event) {
	for attempt := 0; ; attempt++ {
		retry := false
		func() {
			defer func() {
				if r := recover(); r != nil {
					msg := fmt.Sprint(r)
					if strings.Contains(msg, "address already in use") && attempt < 3 {
						retry = true
						return
					}
					evs = []Event{{"e": "case", "case": c.ID, "fl": c.Fl, "mode": mode}, {"e": "panic", "p": 0, "msg": msg}}
				}
			}()
			switch mode {
			case "sched":
				evs = runSched(c)
			case "stress":
				evs = runStress(c)
			case "reorder":
				evs = runReorder(c)
			case "dqueue":
				evs = runDqueue(c)
			case "twodest":
				evs = runTwoDest(c)
			default:
				panic("unknown mode " + mode)
			}
		}()
		if !retry {
			return evs
		}
	}
}

func main() {
	mode := flag.String("mode", "sched", "sched | stress | reorder | dqueue | twodest")
	casesF := flag.String("cases", "", "ndjson file of cases")
	outF := flag.String("out", "", "ndjson output (events)")
	par := flag.Int("par", 8, "cases run concurrently")
	flag.Parse()
	log.SetOutput(io.Discard)

	fh, err := os.Open(*casesF)
	if err != nil {
		panic(err)
	}
	var cases []Case
	sc := bufio.NewScanner(fh)
	sc.Buffer(make([]byte, 1<<20), 1<<26)
	for sc.Scan() {
		if strings.TrimSpace(sc.Text()) == "" {
			continue
		}
		var c Case
		if err := json.Unmarshal(sc.Bytes(), &c); err != nil {
			panic(err)
		}
		cases = append(cases, c)
	}
	fh.Close()

	results := make([][]Event, len(cases))
	sem := make(chan struct{}, *par)
	var wg sync.WaitGroup
	for i := range cases {
		wg.Add(1)
		sem <- struct{}{}
		go func(i int) {
			defer wg.Done()
			defer func() { <-sem }()
			results[i] = runCase(*mode, cases[i])
		}(i)
	}
	wg.Wait()

	of, err := os.Create(*outF)
	if err != nil {
		panic(err)
	}
	w := bufio.NewWriter(of)
	enc := json.NewEncoder(w)
	for _, evs := range results {
		for _, e := range evs {
			if err := enc.Encode(e); err != nil {
				panic(err)
			}
		}
	}
	w.Flush()
	of.Close()
	// let the listeners close (tcpMailboxesLocal.Close sleeps 500 ms); bounded wait
	done := make(chan struct{})
	go func() { closers.Wait(); close(done) }()
	select {
	case <-done:
	case <-time.After(5 * time.Second):
	}
}
