// c12drv: replays TLC-generated CRDT histories (spec/C12/CRDTTypes.tla: local updates,
// pairwise merges, snapshots = messages in flight, stale / duplicated deliveries) on the real
// resources.GCounter / AWORSet / LWWSet values, through the public CRDTValue interface
// (Init/Read/Write/Merge) and encoding/gob, and records every value that came into existence
// as one ndjson line: how it was made (init / write / merge / gob round trip, operand indices),
// what Read() returned and a canonical dump of its state. The verdicts are TLC's
// (spec/C12/CRDTObs.tla, CRDTImplTrace.tla); this program judges nothing.
//
// After the history of a case, "law probes" compute further values from the ones reached:
// a⊔b and b⊔a, a⊔a, (a⊔b)⊔c and a⊔(b⊔c), s⊔w and w⊔s for every write w of state s, and the gob
// round trip of every value (as the RPC argument struct the CRDT resource sends).
package main

import (
	"bufio"
	"bytes"
	"encoding/gob"
	"encoding/json"
	"flag"
	"fmt"
	"math/rand"
	"os"
	"sort"
	"strings"
	"time"

	"github.com/DistCompiler/pgo/distsys/resources"
	"github.com/DistCompiler/pgo/distsys/tla"
)

type step struct {
	A   string `json:"a"` // upd | merge | snap | deliver
	R   int    `json:"r"`
	Q   int    `json:"q"`
	Op  string `json:"op"`
	E   int    `json:"e"`
	Amt int    `json:"amt"`
}

type kase struct {
	Case   string `json:"case"`
	Kind   string `json:"kind"` // gcounter | aworset | lww
	NRep   int    `json:"nrep"`
	NElem  int    `json:"nelem"`
	NSlot  int    `json:"nslot"`
	Uni    int    `json:"uni"`
	Probes int    `json:"probes"` // max number of values taking part in the law probes (0 = none)
	Trip   int    `json:"trip"`   // number of sampled triples for associativity
	Steps  []step `json:"steps"`
}

type rec map[string]interface{}

func (w *world) emit(r rec) {
	b, err := json.Marshal(r)
	if err != nil {
		panic(err)
	}
	w.buf.Write(b)
	w.buf.WriteByte('\n')
}

// ---------------------------------------------------------------- identifier / element universes

func str(s string) tla.Value { return tla.MakeString(s) }
func num(n int32) tla.Value  { return tla.MakeNumber(n) }
func recd(k string, v tla.Value) tla.Value {
	return tla.MakeRecord([]tla.RecordField{{Key: str(k), Value: v}})
}

// universes of replica identifiers (index i-1 = replica i); 6 replicas at most
var idUniverses = [][]tla.Value{
	{str("A"), str("B"), str("C"), str("D"), str("E"), str("F")},
	{num(1), num(2), num(3), num(4), num(5), num(6)},
	{tla.MakeTuple(num(1), str("n")), tla.MakeTuple(num(2), str("n")), tla.MakeTuple(num(3), str("n")), tla.MakeTuple(num(4), str("n")), tla.MakeTuple(num(5), str("n")), tla.MakeTuple(num(6), str("n"))},
	{recd("node", num(1)), recd("node", num(2)), recd("node", num(3)), recd("node", num(4)), recd("node", num(5)), recd("node", num(6))},
	{tla.MakeSet(), tla.MakeSet(num(1)), tla.MakeSet(num(1), num(2)), tla.MakeSet(str("x")), tla.MakeSet(tla.MakeSet()), tla.MakeSet(num(2))},
	{str(""), num(0), tla.MakeBool(true), tla.MakeTuple(), num(-1), str("0")},
}

// universes of set elements (index i-1 = element i); 4 elements at most
var elemUniverses = [][]tla.Value{
	{num(5), num(6), num(7), num(8)},
	{str("a"), str("b"), str("c"), str("d")},
	{tla.MakeTuple(num(1), num(2)), tla.MakeTuple(num(2), num(1)), tla.MakeTuple(), tla.MakeTuple(str("x"))},
	{recd("k", num(1)), recd("k", num(2)), recd("j", num(1)), recd("k", str("1"))},
	{tla.MakeSet(), tla.MakeSet(num(1)), tla.MakeSet(tla.MakeSet()), tla.MakeSet(num(1), num(2))},
	{str("A"), num(1), tla.MakeBool(false), tla.MakeSet()}, // overlaps with identifiers on purpose
}

type world struct {
	buf      bytes.Buffer // ndjson lines of this case
	k        kase
	ids      []tla.Value
	elems    []tla.Value
	vals     []resources.CRDTValue
	nid      int           // number of writes so far (= event id = logical LWW stamp)
	stampID  map[int64]int // LWW: wall-clock nanoseconds -> id of the update that produced them
	lastWall time.Time
	writes   [][2]int // (state index, written value index) of every update of the history
}

func (w *world) idIndex(v tla.Value) int {
	for i, x := range w.ids {
		if x.Equal(v) {
			return i + 1
		}
	}
	return 0
}
func (w *world) elemIndex(v tla.Value) int {
	for i, x := range w.elems {
		if x.Equal(v) {
			return i + 1
		}
	}
	return 0
}

func (w *world) proto() resources.CRDTValue {
	switch w.k.Kind {
	case "gcounter":
		return resources.GCounter{}
	case "aworset":
		return resources.AWORSet{}
	case "lww":
		return resources.LWWSet{}
	}
	panic("unknown kind " + w.k.Kind)
}

// ---------------------------------------------------------------- canonical dumps

func (w *world) vclockDump(g resources.GCounter, x *int) []int {
	res := make([]int, w.k.NRep)
	if g.Map == nil {
		return res
	}
	it := g.Iterator()
	for !it.Done() {
		k, v, _ := it.Next()
		i := w.idIndex(k)
		if i == 0 || i > w.k.NRep {
			if v != 0 {
				*x++
			}
			continue
		}
		res[i-1] += int(v)
	}
	return res
}

type awEntry struct {
	Add []int `json:"add"`
	Rem []int `json:"rem"`
}
type lwwEntry struct {
	Add int `json:"add"`
	Rem int `json:"rem"`
}

// dump returns (structure, number of entries that could not be mapped, ok)
func (w *world) dump(v resources.CRDTValue) (s interface{}, x int, ok bool) {
	defer func() {
		if p := recover(); p != nil {
			s, x, ok = 0, 0, false
		}
	}()
	switch w.k.Kind {
	case "gcounter":
		g, isG := v.(resources.GCounter)
		if !isG {
			return 0, 0, false
		}
		d := w.vclockDump(g, &x)
		return d, x, true
	case "aworset":
		a, isA := v.(resources.AWORSet)
		if !isA {
			return 0, 0, false
		}
		b, err := a.GobEncode()
		if err != nil {
			return 0, 0, false
		}
		var maps resources.AddRemMaps
		if err := gob.NewDecoder(bytes.NewBuffer(b)).Decode(&maps); err != nil {
			return 0, 0, false
		}
		es := make([]awEntry, w.k.NElem)
		for i := range es {
			es[i] = awEntry{Add: make([]int, w.k.NRep), Rem: make([]int, w.k.NRep)}
		}
		for _, kv := range maps.AddMap {
			i := w.elemIndex(kv.K)
			if i == 0 || i > w.k.NElem {
				x++
				continue
			}
			d := w.vclockDump(kv.V, &x)
			for j := range d {
				es[i-1].Add[j] += d[j]
			}
		}
		for _, kv := range maps.RemMap {
			i := w.elemIndex(kv.K)
			if i == 0 || i > w.k.NElem {
				x++
				continue
			}
			d := w.vclockDump(kv.V, &x)
			for j := range d {
				es[i-1].Rem[j] += d[j]
			}
		}
		return es, x, true
	case "lww":
		l, isL := v.(resources.LWWSet)
		if !isL {
			return 0, 0, false
		}
		b, err := l.GobEncode()
		if err != nil {
			return 0, 0, false
		}
		dec := gob.NewDecoder(bytes.NewBuffer(b))
		es := make([]lwwEntry, w.k.NElem)
		for pass := 0; pass < 2; pass++ {
			var n int
			if err := dec.Decode(&n); err != nil {
				return 0, 0, false
			}
			for j := 0; j < n; j++ {
				var e tla.Value
				var t time.Time
				if err := dec.Decode(&e); err != nil {
					return 0, 0, false
				}
				if err := dec.Decode(&t); err != nil {
					return 0, 0, false
				}
				i := w.elemIndex(e)
				id, known := w.stampID[t.UnixNano()]
				if i == 0 || i > w.k.NElem || !known {
					x++
					continue
				}
				if pass == 0 {
					es[i-1].Add = id
				} else {
					es[i-1].Rem = id
				}
			}
		}
		return es, x, true
	}
	return 0, 0, false
}

// lwwStamp returns the wall-clock nanoseconds stored for (op, elem) in an LWWSet
func (w *world) lwwStamp(v resources.CRDTValue, op string, e tla.Value) (ns int64, found bool) {
	defer func() {
		if recover() != nil {
			found = false
		}
	}()
	l, isL := v.(resources.LWWSet)
	if !isL {
		return 0, false
	}
	b, err := l.GobEncode()
	if err != nil {
		return 0, false
	}
	dec := gob.NewDecoder(bytes.NewBuffer(b))
	for pass := 0; pass < 2; pass++ {
		var n int
		if dec.Decode(&n) != nil {
			return 0, false
		}
		for j := 0; j < n; j++ {
			var k tla.Value
			var t time.Time
			if dec.Decode(&k) != nil || dec.Decode(&t) != nil {
				return 0, false
			}
			if ((pass == 0 && op == "add") || (pass == 1 && op == "rem")) && k.Equal(e) {
				return t.UnixNano(), true
			}
		}
	}
	return 0, false
}

// ---------------------------------------------------------------- recording values

type caseAbort struct{ why string }

// newVal appends a value and emits its line
func (w *world) newVal(v resources.CRDTValue, f string, a, b int, st *step, law string, p int) int {
	w.vals = append(w.vals, v)
	idx := len(w.vals)
	r := rec{"e": "val", "v": idx, "f": f, "a": a, "b": b, "r": 0, "op": "", "el": 0, "amt": 0, "law": law, "p": p}
	if st != nil {
		r["r"], r["op"], r["el"], r["amt"] = st.R, st.Op, st.E, st.Amt
	}
	// Read()
	rk, rn, rs := "other", 0, []int{}
	func() {
		defer func() {
			if p := recover(); p != nil {
				w.emit(rec{"e": "panic", "what": "Read", "msg": fmt.Sprint(p)})
				panic(caseAbort{"panic in Read"})
			}
		}()
		rv := v.Read()
		switch {
		case rv.IsNumber():
			rk, rn = "num", int(rv.AsNumber())
		case rv.IsSet():
			rk = "set"
			it := rv.AsSet().Iterator()
			for !it.Done() {
				k, _, _ := it.Next()
				rs = append(rs, w.elemIndex(k))
			}
			sort.Ints(rs)
		}
	}()
	r["rk"], r["rn"], r["rs"] = rk, rn, rs
	s, x, ok := w.dump(v)
	r["dok"] = ok
	r["d"] = rec{"s": s, "x": x}
	w.emit(r)
	return idx
}

func (w *world) guard(what string, f func() resources.CRDTValue) resources.CRDTValue {
	var res resources.CRDTValue
	func() {
		defer func() {
			if p := recover(); p != nil {
				if ca, isAbort := p.(caseAbort); isAbort {
					panic(ca)
				}
				w.emit(rec{"e": "panic", "what": what, "msg": fmt.Sprint(p)})
				panic(caseAbort{"panic in " + what})
			}
		}()
		res = f()
	}()
	if res == nil {
		w.emit(rec{"e": "panic", "what": what, "msg": "returned nil"})
		panic(caseAbort{"nil from " + what})
	}
	return res
}

func (w *world) merge(a, b int, law string, p int) int {
	v := w.guard("Merge", func() resources.CRDTValue { return w.vals[a-1].Merge(w.vals[b-1]) })
	return w.newVal(v, "merge", a, b, nil, law, p)
}

// gob round trip as the CRDT resource ships values: inside the RPC argument struct
func gobBytes(v resources.CRDTValue) ([]byte, error) {
	var buf bytes.Buffer
	if err := gob.NewEncoder(&buf).Encode(resources.ReceiveValueArgs{Value: v}); err != nil {
		return nil, err
	}
	return buf.Bytes(), nil
}
func gobValue(b []byte) (resources.CRDTValue, error) {
	var args resources.ReceiveValueArgs
	if err := gob.NewDecoder(bytes.NewBuffer(b)).Decode(&args); err != nil {
		return nil, err
	}
	if args.Value == nil {
		return nil, fmt.Errorf("decoded value is nil")
	}
	return args.Value, nil
}

func (w *world) gobTrip(a int, law string) int {
	v := w.guard("gob", func() resources.CRDTValue {
		b, err := gobBytes(w.vals[a-1])
		if err != nil {
			w.emit(rec{"e": "goberr", "what": "encode", "a": a, "msg": err.Error()})
			panic(caseAbort{"gob encode error"})
		}
		d, err := gobValue(b)
		if err != nil {
			w.emit(rec{"e": "goberr", "what": "decode", "a": a, "msg": err.Error()})
			panic(caseAbort{"gob decode error"})
		}
		return d
	})
	return w.newVal(v, "gob", a, 0, nil, law, a)
}

func request(op string, e tla.Value) tla.Value {
	cmd := int32(1)
	if op == "rem" {
		cmd = 2
	}
	return tla.MakeRecord([]tla.RecordField{{Key: str("cmd"), Value: num(cmd)}, {Key: str("elem"), Value: e}})
}

func (w *world) write(a int, st *step) int {
	id := w.ids[st.R-1]
	var arg tla.Value
	var e tla.Value
	if w.k.Kind == "gcounter" {
		arg = num(int32(st.Amt))
	} else {
		e = w.elems[st.E-1]
		arg = request(st.Op, e)
	}
	if w.k.Kind == "lww" {
		// LWW stamps are time.Now(): make sure the wall clock has visibly advanced since the previous
		// write, so that stamp order = update order also after gob dropped the monotonic reading
		for {
			now := time.Now().Round(0)
			if now.Sub(w.lastWall) >= 2*time.Microsecond {
				break
			}
			if now.Before(w.lastWall) {
				w.emit(rec{"e": "clockstep", "msg": "wall clock went backwards"})
				panic(caseAbort{"clock step"})
			}
		}
	}
	v := w.guard("Write", func() resources.CRDTValue { return w.vals[a-1].Write(id, arg) })
	w.nid++
	if w.k.Kind == "lww" {
		after := time.Now().Round(0)
		if after.Before(w.lastWall) {
			w.emit(rec{"e": "clockstep", "msg": "wall clock went backwards"})
			panic(caseAbort{"clock step"})
		}
		w.lastWall = after
		if ns, found := w.lwwStamp(v, st.Op, e); found {
			if _, dup := w.stampID[ns]; !dup {
				w.stampID[ns] = w.nid
			}
		}
	}
	idx := w.newVal(v, "write", a, 0, st, "", 0)
	w.writes = append(w.writes, [2]int{a, idx})
	return idx
}

// ---------------------------------------------------------------- one case

func runCase(k kase, seed int64) []byte {
	w := &world{k: k, stampID: map[int64]int{}}
	runCaseIn(w, k, seed)
	return w.buf.Bytes()
}

func runCaseIn(w *world, k kase, seed int64) {
	w.ids = idUniverses[k.Uni%len(idUniverses)][:k.NRep]
	w.elems = elemUniverses[k.Uni%len(elemUniverses)]
	if k.NElem < len(w.elems) {
		w.elems = w.elems[:max(k.NElem, 1)]
	}
	idStr := make([]string, len(w.ids))
	for i, v := range w.ids {
		idStr[i] = v.String()
	}
	elStr := make([]string, len(w.elems))
	for i, v := range w.elems {
		elStr[i] = v.String()
	}
	w.emit(rec{"e": "case", "case": k.Case, "kind": k.Kind, "nrep": k.NRep, "nelem": max(k.NElem, 1), "uni": k.Uni,
		"ids": idStr, "elems": elStr, "input": k})
	if k.NElem < 1 {
		w.k.NElem = 1
	}
	defer func() {
		if p := recover(); p != nil {
			if _, isAbort := p.(caseAbort); isAbort {
				return
			}
			w.emit(rec{"e": "panic", "what": "driver", "msg": fmt.Sprint(p)})
		}
	}()
	rng := rand.New(rand.NewSource(seed))
	cur := make([]int, k.NRep+1)
	for r := 1; r <= k.NRep; r++ {
		v := w.guard("Init", func() resources.CRDTValue { return w.proto().Init() })
		cur[r] = w.newVal(v, "init", 0, 0, nil, "", 0)
	}
	// slots hold gob bytes of a captured state (a message in flight); initially the initial state
	slotBytes := make([][]byte, k.NSlot+1)
	slotSrc := make([]int, k.NSlot+1)
	for s := 1; s <= k.NSlot; s++ {
		b, err := gobBytes(w.vals[cur[1]-1])
		if err != nil {
			w.emit(rec{"e": "goberr", "what": "encode", "a": cur[1], "msg": err.Error()})
			return
		}
		slotBytes[s], slotSrc[s] = b, cur[1]
	}
	reached := map[int]bool{}
	for i := range k.Steps {
		st := &k.Steps[i]
		switch st.A {
		case "upd":
			cur[st.R] = w.write(cur[st.R], st)
		case "merge":
			cur[st.R] = w.merge(cur[st.R], cur[st.Q], "", 0)
		case "snap":
			b, err := gobBytes(w.vals[cur[st.R]-1])
			if err != nil {
				w.emit(rec{"e": "goberr", "what": "encode", "a": cur[st.R], "msg": err.Error()})
				return
			}
			slotBytes[st.Q], slotSrc[st.Q] = b, cur[st.R]
			reached[cur[st.R]] = true
		case "deliver":
			src := slotSrc[st.Q]
			b := slotBytes[st.Q]
			v := w.guard("gob", func() resources.CRDTValue {
				d, err := gobValue(b)
				if err != nil {
					w.emit(rec{"e": "goberr", "what": "decode", "a": src, "msg": err.Error()})
					panic(caseAbort{"gob decode error"})
				}
				return d
			})
			g := w.newVal(v, "gob", src, 0, nil, "transport", src)
			cur[st.R] = w.merge(cur[st.R], g, "", 0)
		default:
			panic("unknown step " + st.A)
		}
		reached[cur[st.R]] = true
	}
	if k.Probes <= 0 {
		return
	}
	// ---- law probes
	// inflation: every write w of state s satisfies s ⊔ w = w ⊔ s = w
	for _, sw := range w.writes {
		w.merge(sw[0], sw[1], "inflation", sw[1])
		w.merge(sw[1], sw[0], "inflation", sw[1])
	}
	// the values taking part: final replica states first, then a seeded sample of the others
	var sel []int
	seen := map[int]bool{}
	for r := 1; r <= k.NRep; r++ {
		if !seen[cur[r]] {
			sel = append(sel, cur[r])
			seen[cur[r]] = true
		}
	}
	var rest []int
	for v := range reached {
		if !seen[v] {
			rest = append(rest, v)
		}
	}
	sort.Ints(rest)
	rng.Shuffle(len(rest), func(i, j int) { rest[i], rest[j] = rest[j], rest[i] })
	for _, v := range rest {
		if len(sel) >= k.Probes {
			break
		}
		sel = append(sel, v)
	}
	pair := map[[2]int]int{}
	for _, a := range sel {
		w.gobTrip(a, "gob")
		w.merge(a, a, "idempotent", a)
	}
	for i, a := range sel {
		for j, b := range sel {
			if i < j {
				ab := w.merge(a, b, "commutative", 0)
				ba := w.merge(b, a, "commutative", ab)
				pair[[2]int{a, b}], pair[[2]int{b, a}] = ab, ba
				w.merge(ab, b, "absorption", ab)
				w.merge(a, ab, "absorption", ab)
			}
		}
	}
	if len(sel) >= 3 {
		for t := 0; t < k.Trip; t++ {
			p := rng.Perm(len(sel))
			a, b, c := sel[p[0]], sel[p[1]], sel[p[2]]
			l := w.merge(pair[[2]int{a, b}], c, "associative", 0)
			w.merge(a, pair[[2]int{b, c}], "associative", l)
		}
	}
}

func main() {
	cases := flag.String("cases", "", "ndjson file of cases")
	outp := flag.String("out", "", "ndjson trace output")
	seed := flag.Int64("seed", 1, "seed for the sampled law probes")
	par := flag.Int("par", 8, "cases run concurrently (each case is sequential)")
	flag.Parse()
	fh, err := os.Open(*cases)
	if err != nil {
		fmt.Fprintln(os.Stderr, err)
		os.Exit(2)
	}
	defer fh.Close()
	of, err := os.Create(*outp)
	if err != nil {
		fmt.Fprintln(os.Stderr, err)
		os.Exit(2)
	}
	out := bufio.NewWriterSize(of, 1<<20)
	sc := bufio.NewScanner(fh)
	sc.Buffer(make([]byte, 1<<20), 1<<26)
	var ks []kase
	for sc.Scan() {
		line := strings.TrimSpace(sc.Text())
		if line == "" {
			continue
		}
		var k kase
		if err := json.Unmarshal([]byte(line), &k); err != nil {
			fmt.Fprintln(os.Stderr, "bad case:", err)
			os.Exit(2)
		}
		if k.NRep < 1 || k.NRep > 6 || k.NElem > 4 {
			fmt.Fprintln(os.Stderr, "case out of the driver's universe:", k.Case)
			os.Exit(2)
		}
		ks = append(ks, k)
	}
	// cases run concurrently, each one sequentially; output is written in input order.
	// A case that does not finish is reported as a hang (never judged here) by the watchdog.
	results := make([]chan []byte, len(ks))
	for i := range results {
		results[i] = make(chan []byte, 1)
	}
	sem := make(chan struct{}, max(*par, 1))
	go func() {
		for i := range ks {
			sem <- struct{}{}
			go func(i int) {
				defer func() { <-sem }()
				results[i] <- runCase(ks[i], *seed+int64(i)+1)
			}(i)
		}
	}()
	for i := range ks {
		select {
		case b := <-results[i]:
			out.Write(b)
		case <-time.After(600 * time.Second):
			b, _ := json.Marshal(rec{"e": "case", "case": ks[i].Case, "kind": ks[i].Kind, "nrep": ks[i].NRep, "nelem": max(ks[i].NElem, 1),
				"ids": []string{}, "elems": []string{}, "input": ks[i]})
			out.Write(b)
			out.WriteByte('\n')
			b, _ = json.Marshal(rec{"e": "hang", "case": ks[i].Case})
			out.Write(b)
			out.WriteByte('\n')
			out.Flush()
			of.Close()
			os.Exit(3)
		}
	}
	out.Flush()
	of.Close()
	fmt.Printf("cases=%d\n", len(ks))
}
