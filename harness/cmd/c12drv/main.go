package main

import (
	"bytes"
	"encoding/gob"
	"fmt"

	"github.com/DistCompiler/pgo/distsys/resources"
	"github.com/DistCompiler/pgo/distsys/tla"
)

func req(cmd int32, e tla.Value) tla.Value {
	return tla.MakeRecord([]tla.RecordField{{Key: tla.MakeString("cmd"), Value: tla.MakeNumber(cmd)}, {Key: tla.MakeString("elem"), Value: e}})
}

type box struct{ V resources.CRDTValue }

func rt(v resources.CRDTValue) resources.CRDTValue {
	var buf bytes.Buffer
	if err := gob.NewEncoder(&buf).Encode(box{v}); err != nil {
		panic(err)
	}
	var b box
	if err := gob.NewDecoder(&buf).Decode(&b); err != nil {
		panic(err)
	}
	return b.V
}

func main() {
	A, B, C, D := tla.MakeString("A"), tla.MakeString("B"), tla.MakeString("C"), tla.MakeString("D")
	e := tla.MakeNumber(5)
	_ = C
	_ = D
	a := resources.AWORSet{}.Init()
	b := resources.AWORSet{}.Init()
	c := resources.AWORSet{}.Init()
	a = a.Write(A, req(1, e))
	a1 := a
	b = b.Write(B, req(1, e))
	a = a.Write(A, req(2, e))
	c = c.Merge(b).Merge(a)
	fmt.Println("c", c, c.Read())
	c = c.Merge(a1)
	fmt.Println("c+stale a1", c, c.Read())
	b = b.Write(B, req(2, e))
	c = c.Merge(b)
	fmt.Println("c final", c, c.Read())
	d := resources.AWORSet{}.Init().Merge(a).Merge(b)
	fmt.Println("d", d, d.Read())
	g := resources.GCounter{}.Init()
	fmt.Println("gob empty gcounter", rt(g), rt(g).Read())
	g = g.Write(A, tla.MakeNumber(3))
	fmt.Println("gob gcounter", rt(g), rt(g).Read())
	fmt.Println("gob aworset", rt(c), rt(c).Read(), rt(resources.AWORSet{}.Init()).Read())
	l := resources.LWWSet{}.Init()
	fmt.Println("gob lww empty", rt(l).Read())
	l = l.Write(A, req(1, e))
	l2 := resources.LWWSet{}.Init().Merge(l)
	l2 = l2.Write(B, req(2, e))
	l = l.Merge(l2)
	fmt.Println("lww", l.Read(), l2.Read(), rt(l2).Read())
}
