// c19drv: binds spec/C19/FD.tla to the real resources.Monitor / SingleFailureDetector /
// NewFailureDetector of distsys/resources/fd.go.
//
// Gated mode (S->I and I->S). Every case is a list of harness commands generated from TLC's
// state graph of MCFDGen.tla (checks/C19.py). The driver owns the network between each
// detector and its monitor:
//
//   - the detector's monitor address is a host name ("d1-c17.c19.invalid.:port") that only the
//     driver can resolve (net.DefaultResolver is replaced by an in-process DNS responder), so
//     every dial attempt of ensureClient is SEEN and HELD at the name lookup;
//   - the address leads to a relay (an rpc server registered as "MonitorRPCReceiver") in front
//     of the real Monitor (real ListenAndServe, real RPC): every IsAlive request is seen and held
//     on arrival ("ask") and again after the real Monitor has answered ("srv");
//   - the relay's listener is open exactly while the Monitor's listener is up and the "network"
//     of that detector is up, so a dial succeeds exactly when it would succeed without the relay;
//     cutting the network closes the listener and every connection (process-death equivalent).
//
// A detector therefore moves one hold point at a time, on command; polls are counted as events,
// never timed. Archetypes are real MPCalContexts run through Monitor.RunArchetype whose body ends
// normally, with an error, or with a panic on command. ReadValue calls are made while the detector
// is parked, so their result is deterministic. Everything is logged as ndjson and judged by TLC
// (FDObs.tla = property level, FDTrace.tla = conformance to FD.tla).
//
// Timers: the detector's RPC/dial timeout T still runs while a request is held. The driver never
// races it: a hold event that arrives T or more after the release that preceded the iteration, or
// before the release of the previous hold, MAY mean a timer fired by itself (loaded machine); the
// case is then abandoned as "disturbed" (never judged). A deliberate time-out is produced by not
// answering and is recognised by the next request arriving while the previous one is unanswered.
//
// Direct mode: no relay, no gating; the detector talks to the Monitor directly. Only statements
// that no delay can falsify are logged for judgement (see FDObs.tla, "direct" events).
package main

import (
	"bufio"
	"context"
	"encoding/binary"
	"encoding/json"
	"errors"
	"flag"
	"fmt"
	"io"
	"log"
	"net"
	"net/rpc"
	"os"
	"os/exec"
	"runtime"
	"strconv"
	"strings"
	"sync"
	"sync/atomic"
	"time"

	"github.com/DistCompiler/pgo/distsys"
	"github.com/DistCompiler/pgo/distsys/resources"
	"github.com/DistCompiler/pgo/distsys/tla"
)

type rec map[string]interface{}

type caseSpec struct {
	ID    int      `json:"id"`
	Mode  string   `json:"mode"` // "gated" | "direct"
	ND    int      `json:"nd"`
	NA    int      `json:"na"`
	Watch []int    `json:"watch"` // Watch[d-1] = archetype watched by detector d
	IV    int      `json:"iv"`    // pull interval, ms
	T     int      `json:"T"`     // timeout, ms
	IDs   string   `json:"ids"`   // "num" | "str"
	Via   string   `json:"via"`   // "map" (NewFailureDetector) | "single"
	Cmds  []string `json:"cmds"`
	How   string   `json:"how"` // direct mode: how the archetype ends
}

var (
	watchdog = 40 * time.Second
	errStuck = errors.New("stuck")
)

// ------------------------------------------------------------------ name service (dial attempts)

var registry sync.Map // host name (lower case, with trailing dot) -> *det

func serveDNS(c net.Conn) {
	defer c.Close()
	for {
		var lb [2]byte
		if _, err := io.ReadFull(c, lb[:]); err != nil {
			return
		}
		q := make([]byte, binary.BigEndian.Uint16(lb[:]))
		if _, err := io.ReadFull(c, q); err != nil {
			return
		}
		if len(q) < 17 {
			return
		}
		i := 12
		name := ""
		for i < len(q) && q[i] != 0 {
			n := int(q[i])
			if i+1+n > len(q) {
				return
			}
			name += strings.ToLower(string(q[i+1:i+1+n])) + "."
			i += 1 + n
		}
		i++
		if i+4 > len(q) {
			return
		}
		qtype := binary.BigEndian.Uint16(q[i:])
		qend := i + 4
		answer := false
		if v, ok := registry.Load(name); ok && qtype == 1 {
			d := v.(*det)
			answer = true
			if !d.auto.Load() {
				h := &hold{kind: "dial", at: time.Now(), rel: make(chan string, 1)}
				d.events <- h
				select {
				case <-h.rel:
				case <-time.After(2 * watchdog):
				}
			}
		}
		resp := []byte{q[0], q[1], 0x81, 0x80, 0, 1, 0, 0, 0, 0, 0, 0}
		if answer {
			resp[7] = 1
		}
		resp = append(resp, q[12:qend]...)
		if answer {
			resp = append(resp, 0xc0, 12, 0, 1, 0, 1, 0, 0, 0, 0, 0, 4, 127, 0, 0, 1)
		}
		var out [2]byte
		binary.BigEndian.PutUint16(out[:], uint16(len(resp)))
		if _, err := c.Write(append(out[:], resp...)); err != nil {
			return
		}
	}
}

func installResolver() {
	net.DefaultResolver = &net.Resolver{PreferGo: true, Dial: func(ctx context.Context, network, address string) (net.Conn, error) {
		a, b := net.Pipe()
		go serveDNS(b)
		return a, nil
	}}
}

// ------------------------------------------------------------------ relay

type hold struct {
	kind string // "dial" | "ask" | "srv"
	nc   bool   // ask: first request on a new connection
	o    string // srv: what the real monitor answered
	arg  string // ask: the archetype id asked for
	at   time.Time
	rel  chan string // "go" | "drop"
}

type lconn struct {
	d     *det
	down  net.Conn
	up    *rpc.Client
	first atomic.Bool
}

type det struct {
	c      *caseRun
	id     int
	host   string
	port   int
	ln     net.Listener
	mu     sync.Mutex
	conns  map[*lconn]struct{}
	netUp  bool
	stall  bool
	auto   atomic.Bool
	events chan *hold
	cur    *hold
	stale  []*hold
	pollLB time.Time // no timer of the iteration in progress was armed before this instant
	lastRl time.Time
	res    distsys.ArchetypeResource
	closer func() error
	T, iv  time.Duration
}

type relay struct{ lc *lconn }

func outcome(st resources.ArchetypeState, err error) string {
	if err != nil {
		if strings.Contains(err.Error(), "archetype not found") {
			return "notfound"
		}
		return "err"
	}
	return st.String()
}

// IsAlive relays one poll of the detector to the real monitor.
func (r *relay) IsAlive(arg tla.Value, reply *resources.ArchetypeState) error {
	d := r.lc.d
	nc := r.lc.first.CompareAndSwap(false, true)
	if !d.auto.Load() {
		h := &hold{kind: "ask", nc: nc, arg: arg.String(), at: time.Now(), rel: make(chan string, 1)}
		d.events <- h
		select {
		case act := <-h.rel:
			if act == "drop" {
				return errors.New("c19: request dropped")
			}
		case <-time.After(2 * watchdog):
			return errors.New("c19: request abandoned")
		}
	}
	var up resources.ArchetypeState
	call := r.lc.up.Go("MonitorRPCReceiver.IsAlive", &arg, &up, make(chan *rpc.Call, 1))
	var err error
	select {
	case <-call.Done:
		err = call.Error
	case <-time.After(watchdog):
		err = errors.New("c19: real monitor did not answer")
	}
	if !d.auto.Load() {
		h := &hold{kind: "srv", o: outcome(up, err), at: time.Now(), rel: make(chan string, 1)}
		d.events <- h
		select {
		case act := <-h.rel:
			if act == "drop" {
				return errors.New("c19: reply dropped")
			}
		case <-time.After(2 * watchdog):
			return errors.New("c19: reply abandoned")
		}
	}
	if err != nil {
		return errors.New(err.Error())
	}
	*reply = up
	return nil
}

func (d *det) openListener() error {
	if d.ln != nil {
		return nil
	}
	var ln net.Listener
	var err error
	for try := 0; try < 50; try++ {
		ln, err = net.Listen("tcp", "127.0.0.1:"+strconv.Itoa(d.port))
		if err == nil {
			break
		}
		time.Sleep(20 * time.Millisecond)
	}
	if err != nil {
		return err
	}
	d.ln = ln
	monAddr := d.c.monAddr
	go func() {
		for {
			conn, err := ln.Accept()
			if err != nil {
				return
			}
			up, err := rpc.Dial("tcp", monAddr)
			if err != nil {
				d.c.harness("relay could not reach the real monitor: " + err.Error())
				conn.Close()
				continue
			}
			lc := &lconn{d: d, down: conn, up: up}
			d.mu.Lock()
			d.conns[lc] = struct{}{}
			d.mu.Unlock()
			srv := rpc.NewServer()
			if err := srv.RegisterName("MonitorRPCReceiver", &relay{lc: lc}); err != nil {
				panic(err)
			}
			go srv.ServeConn(conn)
		}
	}()
	return nil
}

func (d *det) closeListener() {
	if d.ln != nil {
		d.ln.Close()
		d.ln = nil
	}
}

func (d *det) cutConns() {
	d.mu.Lock()
	for lc := range d.conns {
		lc.down.Close()
		lc.up.Close()
		delete(d.conns, lc)
	}
	d.mu.Unlock()
}

// ------------------------------------------------------------------ archetypes

type cmdRes struct {
	distsys.ArchetypeResourceLeafMixin
	ch chan string
}

func (r *cmdRes) Abort(distsys.ArchetypeInterface) chan struct{}  { return nil }
func (r *cmdRes) PreCommit(distsys.ArchetypeInterface) chan error { return nil }
func (r *cmdRes) Commit(distsys.ArchetypeInterface) chan struct{} { return nil }
func (r *cmdRes) Close() error                                    { return nil }
func (r *cmdRes) WriteValue(distsys.ArchetypeInterface, tla.Value) error {
	return errors.New("c19: cmd is read-only")
}

// ReadValue blocks like a mailbox read: a command, or an abort after a short wait (so that Stop
// pre-empts the archetype at the next retry).
func (r *cmdRes) ReadValue(distsys.ArchetypeInterface) (tla.Value, error) {
	select {
	case c := <-r.ch:
		return tla.MakeString(c), nil
	case <-time.After(20 * time.Millisecond):
		return tla.Value{}, distsys.ErrCriticalSectionAborted
	}
}

type arch struct {
	id      int
	self    tla.Value
	ctx     *distsys.MPCalContext
	cmd     *cmdRes
	entered chan struct{}
	done    chan error
	running bool
}

func archID(kind string, a int) tla.Value {
	if kind == "str" {
		return tla.MakeString("arch-" + strconv.Itoa(a))
	}
	return tla.MakeNumber(int32(a))
}

func newArch(kind string, a int) *arch {
	ar := &arch{id: a, self: archID(kind, a), cmd: &cmdRes{ch: make(chan string, 1)}, entered: make(chan struct{}), done: make(chan error, 1)}
	var once sync.Once
	body := func(iface distsys.ArchetypeInterface) error {
		once.Do(func() { close(ar.entered) })
		cmd, err := iface.RequireArchetypeResourceRef("AWorker.cmd")
		if err != nil {
			return err
		}
		v, err := iface.Read(cmd, nil)
		if err != nil {
			return err
		}
		switch v.AsString() {
		case "finish":
			return iface.Goto("AWorker.Done")
		case "error":
			return errors.New("c19: the archetype failed on command")
		case "panic":
			panic("c19: the archetype panicked on command")
		}
		return iface.Goto("AWorker.work")
	}
	at := distsys.MPCalArchetype{
		Name: "AWorker", Label: "AWorker.work",
		RequiredRefParams: []string{"AWorker.cmd"},
		JumpTable: distsys.MakeMPCalJumpTable(
			distsys.MPCalCriticalSection{Name: "AWorker.work", Body: body},
			distsys.MPCalCriticalSection{Name: "AWorker.Done", Body: func(distsys.ArchetypeInterface) error { return distsys.ErrDone }},
		),
		ProcTable: distsys.MakeMPCalProcTable(),
		PreAmble:  func(distsys.ArchetypeInterface) {},
	}
	ar.ctx = distsys.NewMPCalContext(ar.self, at, distsys.EnsureArchetypeRefParam("cmd", ar.cmd))
	return ar
}

// ------------------------------------------------------------------ one case

type caseRun struct {
	cs       caseSpec
	lines    []rec
	mon      *resources.Monitor
	monAddr  string
	monDone  chan error
	lsnUp    bool
	archs    map[int]*arch
	dets     map[int]*det
	hmu      sync.Mutex
	hnotes   []string
	addrUsed bool // direct mode: a detector was given the monitor's address
	monGid   string
}

func (c *caseRun) emit(r rec) { c.lines = append(c.lines, r) }
func (c *caseRun) harness(s string) {
	c.hmu.Lock()
	c.hnotes = append(c.hnotes, s)
	c.hmu.Unlock()
}

type abandon struct{ why, detail string }

func (c *caseRun) giveUp(why, detail string) { panic(abandon{why, detail}) }

// serving reports whether the monitor at addr answers an RPC: only then is its accept loop known to
// be running (a successful TCP connect only proves that the kernel queues connections).
func serving(addr string) bool {
	conn, err := net.DialTimeout("tcp", addr, time.Second)
	if err != nil {
		return false
	}
	cl := rpc.NewClient(conn)
	defer cl.Close()
	var st resources.ArchetypeState
	arg := tla.MakeString("c19-probe")
	call := cl.Go("MonitorRPCReceiver.IsAlive", &arg, &st, make(chan *rpc.Call, 1))
	select {
	case <-call.Done:
		_, isServerErr := call.Error.(rpc.ServerError)
		return call.Error == nil || isServerErr
	case <-time.After(2 * time.Second):
		return false
	}
}

// goid returns the id of the calling goroutine ("goroutine 12 [running]:" -> "12").
func goid() string {
	buf := make([]byte, 64)
	buf = buf[:runtime.Stack(buf, false)]
	f := strings.Fields(string(buf))
	if len(f) > 1 {
		return f[1]
	}
	return ""
}

// fdStacks returns the stacks of the goroutines that are inside fd.go (diagnostics of a stuck case).
func fdStacks() string {
	buf := make([]byte, 1<<22)
	n := runtime.Stack(buf, true)
	var out []string
	for _, g := range strings.Split(string(buf[:n]), "\n\n") {
		if strings.Contains(g, "resources.(*SingleFailureDetector)") {
			if len(g) > 700 {
				g = g[:700]
			}
			out = append(out, strings.ReplaceAll(g, "\n", " | "))
		}
		if len(out) >= 4 {
			break
		}
	}
	return strings.Join(out, " ## ")
}

// waitAccepting waits until the monitor's accept loop is parked inside Accept. On the pinned tree
// Monitor.Close races with a loop that is between two Accept calls (it resets m.listener, the loop
// then calls Accept on a nil listener and the process dies; findings/C19.md, closerace mode). The
// lifecycle cases must not die of that, so Close is only called on a quiescent accept loop.
func (c *caseRun) waitAccepting() {
	if c.monGid == "" {
		return
	}
	hdr := "goroutine " + c.monGid + " ["
	buf := make([]byte, 1<<22)
	for i := 0; i < 2000; i++ {
		n := runtime.Stack(buf, true)
		st := string(buf[:n])
		k := strings.Index(st, hdr)
		if k < 0 || n == len(buf) {
			return
		}
		rest := st[k+len(hdr):]
		if strings.HasPrefix(rest, "IO wait") {
			return
		}
		time.Sleep(time.Millisecond)
	}
}

// freePort hands out ports that no other case of this process has been given and that lie outside
// the kernel's ephemeral range (32768-60999), so that neither another case nor a client socket of
// another process can own the port while this case's relay listener is deliberately closed (a
// detector would then talk to a foreign server and never reach a hold point).
var portCtr atomic.Int64
var stuckCases atomic.Int64

func freePort() int {
	for i := 0; i < 12000; i++ {
		p := 20000 + int((int64(os.Getpid())*977+portCtr.Add(1))%12000)
		l, err := net.Listen("tcp", "127.0.0.1:"+strconv.Itoa(p))
		if err == nil {
			l.Close()
			return p
		}
	}
	panic("c19drv: no free port in 20000-31999")
}

func (c *caseRun) detOf(i int) *det {
	d, ok := c.dets[i]
	if !ok {
		d = &det{c: c, id: i, port: freePort(), conns: map[*lconn]struct{}{}, netUp: true, events: make(chan *hold, 256),
			T: time.Duration(c.cs.T) * time.Millisecond, iv: time.Duration(c.cs.IV) * time.Millisecond}
		d.host = fmt.Sprintf("d%d-c%d-p%d.c19.invalid.", i, c.cs.ID, os.Getpid())
		registry.Store(d.host, d)
		c.dets[i] = d
		if c.lsnUp && c.cs.Mode != "direct" {
			if err := d.openListener(); err != nil {
				c.giveUp("harness", "relay listen: "+err.Error())
			}
		}
	}
	return d
}

func (c *caseRun) archOf(a int) *arch {
	ar, ok := c.archs[a]
	if !ok {
		ar = newArch(c.cs.IDs, a)
		c.archs[a] = ar
	}
	return ar
}

// waitHold waits for the next hold point of d. deliberate: the caller expects the detector's own
// time-out to have fired (no disturbance test).
func (c *caseRun) waitHold(d *det, deliberate bool) *hold {
	var h *hold
	select {
	case h = <-d.events:
	case <-time.After(watchdog + d.T):
		c.giveUp("stuck", fmt.Sprintf("detector %d reached no hold point within %v; detector goroutines: %s", d.id, watchdog+d.T, fdStacks()))
	}
	if !deliberate {
		if h.at.Before(d.lastRl) {
			c.giveUp("disturbed", fmt.Sprintf("detector %d: a %s event arrived before the previous hold was released (a timer fired by itself)", d.id, h.kind))
		}
		if h.at.Sub(d.pollLB) >= d.T {
			c.giveUp("disturbed", fmt.Sprintf("detector %d: %s event %v after the iteration could start, timeout %v (a timer may have fired by itself)", d.id, h.kind, h.at.Sub(d.pollLB), d.T))
		}
	}
	begin := h.kind == "dial" || (h.kind == "ask" && !h.nc)
	if begin {
		if deliberate {
			d.pollLB = d.pollLB.Add(d.T)
		} else {
			d.pollLB = d.lastRl
		}
	}
	d.cur = h
	return h
}

func (d *det) release(act string) {
	if d.cur != nil {
		now := time.Now()
		d.cur.rel <- act
		d.cur = nil
		d.lastRl = now
	}
}

func obsRec(r rec, h *hold, c *caseRun) rec {
	r["obs"] = h.kind
	r["nc"] = h.nc
	r["o"] = "-"
	r["asked"] = 0
	if h.kind == "srv" {
		r["o"] = h.o
	}
	if h.kind == "ask" {
		for a := 1; a <= c.cs.NA; a++ {
			if archID(c.cs.IDs, a).String() == h.arg {
				r["asked"] = a
			}
		}
	}
	return r
}

func (c *caseRun) monUp() {
	for try := 0; ; try++ {
		if try > 0 {
			if c.addrUsed {
				c.giveUp("harness", "the monitor's port was taken and a detector already knows the address")
			}
			c.monAddr = "127.0.0.1:" + strconv.Itoa(freePort())
			c.mon.ListenAddr = c.monAddr
		}
		c.monDone = make(chan error, 1)
		mon, done := c.mon, c.monDone
		gidCh := make(chan string, 1)
		go func() { gidCh <- goid(); done <- mon.ListenAndServe() }()
		c.monGid = <-gidCh
		ok := false
		deadline := time.Now().Add(watchdog)
		for time.Now().Before(deadline) {
			select {
			case err := <-done:
				deadline = time.Now()
				c.harness(fmt.Sprintf("ListenAndServe returned early: %v", err))
				continue
			default:
			}
			if serving(c.monAddr) {
				ok = true
				break
			}
			time.Sleep(2 * time.Millisecond)
		}
		if ok {
			break
		}
		if try >= 4 {
			c.giveUp("harness", "the monitor never started listening")
		}
	}
	c.lsnUp = true
	for _, d := range c.dets {
		if d.netUp {
			if err := d.openListener(); err != nil {
				c.giveUp("harness", "relay listen: "+err.Error())
			}
		}
	}
}

func (c *caseRun) monClose() string {
	for _, d := range c.dets {
		d.closeListener()
	}
	c.lsnUp = false
	ret := "nil"
	c.waitAccepting()
	if err := c.mon.Close(); err != nil {
		ret = "err"
	}
	select {
	case err := <-c.monDone:
		if err != nil {
			ret = "lserr"
		}
	case <-time.After(watchdog):
		c.giveUp("stuck", "ListenAndServe did not return after Close")
	}
	return ret
}

func (c *caseRun) startArch(a int) {
	ar := c.archOf(a)
	mon := c.mon
	go func() { ar.done <- mon.RunArchetype(ar.ctx) }()
	ar.running = true
	select {
	case <-ar.entered:
	case err := <-ar.done:
		ar.done <- err
		c.giveUp("harness", fmt.Sprintf("archetype %d ended before its first critical section: %v", a, err))
	case <-time.After(watchdog):
		c.giveUp("stuck", "archetype did not start")
	}
}

func (c *caseRun) endArch(a int, how string) (via, ret string) {
	ar := c.archOf(a)
	via = how
	switch how {
	case "normal":
		if (c.cs.ID+a)%2 == 0 {
			via = "stop"
			go ar.ctx.Stop()
		} else {
			via = "finish"
			ar.cmd.ch <- "finish"
		}
	default:
		ar.cmd.ch <- how
	}
	select {
	case err := <-ar.done:
		ar.running = false
		switch {
		case err == nil:
			ret = "nil"
		case strings.Contains(err.Error(), "recovered from panic"):
			ret = "panic"
		default:
			ret = "err"
		}
	case <-time.After(watchdog):
		c.giveUp("stuck", "RunArchetype did not return")
	}
	return
}

func (c *caseRun) newDetector(d *det) {
	a := c.cs.Watch[d.id-1]
	addr := d.host + ":" + strconv.Itoa(d.port)
	if c.cs.Mode == "direct" {
		addr = c.monAddr
	}
	opts := []resources.FailureDetectorOption{
		resources.WithFailureDetectorPullInterval(d.iv), resources.WithFailureDetectorTimeout(d.T)}
	d.pollLB = time.Now()
	d.lastRl = d.pollLB
	if c.cs.Via == "single" {
		s := resources.NewSingleFailureDetector(archID(c.cs.IDs, a), addr, opts...)
		d.res, d.closer = s, s.Close
	} else {
		m := resources.NewFailureDetector(func(idx tla.Value) string { return addr }, opts...)
		r, err := m.Index(distsys.ArchetypeInterface{}, archID(c.cs.IDs, a))
		if err != nil {
			c.giveUp("harness", "FailureDetector.Index: "+err.Error())
		}
		d.res, d.closer = r, m.Close
	}
}

// read calls the real ReadValue. v: "T" | "F" | "A" (ErrCriticalSectionAborted) | "E" (anything else)
func (c *caseRun) read(d *det) (string, int64, string) {
	type rr struct {
		v   string
		us  int64
		msg string
	}
	ch := make(chan rr, 1)
	res := d.res
	go func() {
		out := rr{v: "E"}
		t0 := time.Now()
		defer func() {
			if p := recover(); p != nil {
				out = rr{v: "E", msg: fmt.Sprint("panic: ", p)}
			}
			out.us = time.Since(t0).Microseconds()
			ch <- out
		}()
		v, err := res.ReadValue(distsys.ArchetypeInterface{})
		switch {
		case err == distsys.ErrCriticalSectionAborted:
			out.v = "A"
		case err != nil:
			out.msg = err.Error()
		case v.Equal(tla.ModuleTRUE):
			out.v = "T"
		case v.Equal(tla.ModuleFALSE):
			out.v = "F"
		default:
			out.msg = "value " + v.String()
		}
	}()
	select {
	case r := <-ch:
		return r.v, r.us, r.msg
	case <-time.After(watchdog):
		c.giveUp("stuck", fmt.Sprintf("ReadValue of detector %d did not return within %v", d.id, watchdog))
	}
	return "", 0, ""
}

func (c *caseRun) gatedCmd(cmd string) {
	p := strings.Split(cmd, ":")
	n := 0
	if len(p) > 1 {
		n, _ = strconv.Atoi(p[1])
	}
	switch p[0] {
	case "monup":
		c.monUp()
		c.emit(rec{"e": "monup"})
	case "monclose":
		c.emit(rec{"e": "monclose", "ret": c.monClose()})
	case "netdown":
		d := c.detOf(n)
		d.closeListener()
		d.cutConns()
		d.netUp = false
		r := rec{"e": "netdown", "d": n, "obs": "-", "nc": false, "o": "-", "asked": 0}
		infl := d.cur != nil && d.cur.kind != "dial"
		for _, h := range d.stale {
			h.rel <- "drop"
		}
		d.stale = nil
		if infl {
			d.release("drop")
			obsRec(r, c.waitHold(d, false), c)
		}
		c.emit(r)
	case "netup":
		d := c.detOf(n)
		d.netUp = true
		if c.lsnUp {
			if err := d.openListener(); err != nil {
				c.giveUp("harness", "relay listen: "+err.Error())
			}
		}
		c.emit(rec{"e": "netup", "d": n})
	case "stall":
		c.detOf(n).stall = true
		c.emit(rec{"e": "stall", "d": n})
	case "unstall":
		d := c.detOf(n)
		d.stall = false
		for _, h := range d.stale {
			h.rel <- "drop"
		}
		d.stale = nil
		c.emit(rec{"e": "unstall", "d": n})
	case "start":
		c.startArch(n)
		c.emit(rec{"e": "start", "a": n})
	case "end":
		via, ret := c.endArch(n, p[2])
		c.emit(rec{"e": "end", "a": n, "how": p[2], "via": via, "ret": ret})
	case "det":
		d := c.detOf(n)
		c.newDetector(d)
		c.emit(obsRec(rec{"e": "det", "d": n}, c.waitHold(d, false), c))
	case "step":
		d := c.detOf(n)
		if d.cur == nil || d.stall && d.cur.kind != "dial" {
			c.giveUp("harness", "step without a releasable hold")
		}
		d.release("go")
		c.emit(obsRec(rec{"e": "step", "d": n}, c.waitHold(d, false), c))
	case "timeout":
		d := c.detOf(n)
		if d.cur == nil || !d.stall {
			c.giveUp("harness", "timeout without a stalled request")
		}
		prev := d.cur
		h := c.waitHold(d, true)
		d.stale = append(d.stale, prev)
		c.emit(obsRec(rec{"e": "timeout", "d": n}, h, c))
	case "read":
		d := c.detOf(n)
		// a read is only judged if no timer of the parked iteration can have fired before it returned
		if time.Since(d.pollLB) >= d.T {
			c.giveUp("disturbed", fmt.Sprintf("detector %d parked for %v, timeout %v: a timer may have fired by itself", n, time.Since(d.pollLB), d.T))
		}
		v, us, msg := c.read(d)
		if time.Since(d.pollLB) >= d.T || len(d.events) > 0 {
			c.giveUp("disturbed", fmt.Sprintf("detector %d: a timer may have fired during a read", n))
		}
		c.emit(rec{"e": "read", "d": n, "v": v, "us": us, "pm": us / int64(c.cs.IV), "msg": msg})
	default:
		c.giveUp("harness", "unknown command "+cmd)
	}
}

func (c *caseRun) teardown() {
	for _, d := range c.dets {
		d.auto.Store(true)
		if d.cur != nil {
			d.cur.rel <- "go"
			d.cur = nil
		}
		for _, h := range d.stale {
			h.rel <- "drop"
		}
		d.stale = nil
	}
	for _, d := range c.dets {
		// late events of a detector that was between hold points
		go func(d *det) {
			for {
				select {
				case h := <-d.events:
					h.rel <- "go"
				case <-time.After(3 * time.Second):
					return
				}
			}
		}(d)
		if d.closer != nil {
			done := make(chan error, 1)
			cl := d.closer
			go func() { done <- cl() }()
			select {
			case <-done:
			case <-time.After(watchdog):
				c.harness(fmt.Sprintf("Close of detector %d did not return", d.id))
			}
		}
	}
	for _, ar := range c.archs {
		if ar.running {
			go ar.ctx.Stop()
			select {
			case <-ar.done:
			case <-time.After(watchdog):
				c.harness("archetype did not stop at teardown")
			}
		}
	}
	if c.lsnUp {
		c.waitAccepting()
		c.mon.Close()
	}
	for _, d := range c.dets {
		d.closeListener()
		d.cutConns()
		registry.Delete(d.host)
	}
}

func (c *caseRun) header() rec {
	return rec{"e": "case", "id": c.cs.ID, "mode": c.cs.Mode, "nd": c.cs.ND, "na": c.cs.NA, "watch": c.cs.Watch,
		"iv": c.cs.IV, "T": c.cs.T, "ids": c.cs.IDs, "via": c.cs.Via, "how": c.cs.How, "cmds": c.cs.Cmds}
}

func (c *caseRun) run() {
	c.emit(c.header())
	// one Monitor per "process": it exists before ListenAndServe / RunArchetype are called
	c.monAddr = "127.0.0.1:" + strconv.Itoa(freePort())
	c.mon = resources.NewMonitor(c.monAddr)
	why, detail := "complete", ""
	func() {
		defer func() {
			if p := recover(); p != nil {
				if a, ok := p.(abandon); ok {
					why, detail = a.why, a.detail
					return
				}
				why, detail = "driverpanic", fmt.Sprint(p)
			}
		}()
		if c.cs.Mode == "direct" {
			c.direct()
			return
		}
		for _, cmd := range c.cs.Cmds {
			c.gatedCmd(cmd)
		}
	}()
	c.teardown()
	c.hmu.Lock()
	notes := strings.Join(c.hnotes, "; ")
	c.hmu.Unlock()
	if notes != "" && why == "complete" {
		why, detail = "harness", notes
	}
	if why == "stuck" {
		stuckCases.Add(1)
	}
	c.emit(rec{"e": "endcase", "why": why, "detail": detail, "notes": notes})
}

// ------------------------------------------------------------------ direct mode

// direct: detector <-> real monitor with nothing in between. Logged for judgement:
//
//	dread v phase   one ReadValue result; phase "run" (archetype running, monitor up) or "ended"
//	                (RunArchetype has returned / the monitor process equivalent is gone)
//
// FDObs judges only what no scheduling delay can falsify: after the archetype has ended, once a
// read has returned TRUE every later read returns TRUE, and no read aborts after a read returned
// a boolean. Waiting (for the first FALSE while running, for the first TRUE after the end) is
// bounded by the watchdog only, expiry is "stuck" (inconclusive).
func (c *caseRun) direct() {
	d := c.detOf(1)
	a := c.cs.Watch[0]
	order := c.cs.Cmds // permutation of monup / start / det
	for _, cmd := range order {
		switch cmd {
		case "monup":
			c.monUp()
			c.emit(rec{"e": "monup"})
		case "start":
			c.startArch(a)
			c.emit(rec{"e": "start", "a": a})
		case "det":
			d.auto.Store(true)
			c.addrUsed = true
			c.newDetector(d)
			c.emit(rec{"e": "det", "d": 1, "obs": "-", "nc": false, "o": "-", "asked": 0})
		}
	}
	readUntil := func(want, phase string) {
		deadline := time.Now().Add(watchdog)
		for {
			v, us, msg := c.read(d)
			c.emit(rec{"e": "dread", "d": 1, "v": v, "us": us, "pm": us / int64(c.cs.IV), "msg": msg, "phase": phase})
			if v == want {
				return
			}
			if time.Now().After(deadline) {
				c.giveUp("stuck", fmt.Sprintf("direct mode: no read returned %s within %v (phase %s)", want, watchdog, phase))
			}
			time.Sleep(d.iv / 2)
		}
	}
	readUntil("F", "run")
	for i := 0; i < 6; i++ {
		v, us, msg := c.read(d)
		c.emit(rec{"e": "dread", "d": 1, "v": v, "us": us, "pm": us / int64(c.cs.IV), "msg": msg, "phase": "run"})
		time.Sleep(d.iv / 2)
	}
	if c.cs.How == "monclose" {
		// Monitor.Close with the connection established: the archetype keeps being served
		c.emit(rec{"e": "monclose", "ret": c.monClose()})
		for i := 0; i < 6; i++ {
			v, us, msg := c.read(d)
			c.emit(rec{"e": "dread", "d": 1, "v": v, "us": us, "pm": us / int64(c.cs.IV), "msg": msg, "phase": "run"})
			time.Sleep(d.iv)
		}
		via, ret := c.endArch(a, "normal")
		c.emit(rec{"e": "end", "a": a, "how": "normal", "via": via, "ret": ret})
	} else {
		via, ret := c.endArch(a, c.cs.How)
		c.emit(rec{"e": "end", "a": a, "how": c.cs.How, "via": via, "ret": ret})
	}
	readUntil("T", "ended")
	for i := 0; i < 12; i++ {
		v, us, msg := c.read(d)
		c.emit(rec{"e": "dread", "d": 1, "v": v, "us": us, "pm": us / int64(c.cs.IV), "msg": msg, "phase": "ended"})
		time.Sleep(d.iv / 2)
	}
}

// ------------------------------------------------------------------ closerace mode

// closeRaceChild: Monitor.Close while connections keep arriving. Survival prints "survived".
func closeRaceChild(rounds int) {
	for r := 0; r < rounds; r++ {
		addr := "127.0.0.1:" + strconv.Itoa(freePort())
		mon := resources.NewMonitor(addr)
		done := make(chan error, 1)
		go func() { done <- mon.ListenAndServe() }()
		up := false
		for i := 0; i < 5000 && !up; i++ {
			if serving(addr) {
				up = true
			} else {
				time.Sleep(time.Millisecond)
			}
		}
		if !up {
			continue
		}
		stop := make(chan struct{})
		var wg sync.WaitGroup
		for k := 0; k < 8; k++ {
			wg.Add(1)
			go func() {
				defer wg.Done()
				for {
					select {
					case <-stop:
						return
					default:
					}
					if conn, err := net.DialTimeout("tcp", addr, time.Second); err == nil {
						conn.Close()
					}
				}
			}()
		}
		time.Sleep(time.Duration(1+r%5) * time.Millisecond)
		mon.Close()
		select {
		case <-done:
		case <-time.After(watchdog):
			fmt.Println("stuck")
			os.Exit(3)
		}
		close(stop)
		wg.Wait()
	}
	fmt.Println("survived")
}

// closeRace runs the child and records what happened to it as a case.
func closeRace(out string, rounds int) {
	cmd := exec.Command(os.Args[0], "-mode", "closerace-child", "-rounds", strconv.Itoa(rounds))
	b, err := cmd.CombinedOutput()
	txt := string(b)
	r := rec{"e": "closerace", "rounds": rounds, "crashed": false, "where": "", "what": ""}
	why := "complete"
	switch {
	case err == nil && strings.Contains(txt, "survived"):
	case strings.Contains(txt, "resources.(*Monitor)") && (strings.Contains(txt, "SIGSEGV") || strings.Contains(txt, "panic:")):
		r["crashed"] = true
		r["where"] = "Monitor"
		lines := strings.Split(txt, "\n")
		if len(lines) > 14 {
			lines = lines[:14]
		}
		r["what"] = strings.Join(lines, " | ")
	default:
		why = "harness"
		if len(txt) > 600 {
			txt = txt[:600]
		}
		r["what"] = txt
	}
	f, ferr := os.Create(out)
	if ferr != nil {
		panic(ferr)
	}
	for _, x := range []rec{{"e": "case", "id": 0, "mode": "closerace", "nd": 1, "na": 1, "watch": []int{1}, "iv": 1, "T": 1, "cmds": []string{}}, r,
		{"e": "endcase", "why": why, "detail": r["what"], "notes": ""}} {
		b, _ := json.Marshal(x)
		f.Write(append(b, '\n'))
	}
	f.Close()
}

// ------------------------------------------------------------------ main

func main() {
	casesPath := flag.String("cases", "", "ndjson file of cases")
	outPath := flag.String("out", "", "ndjson output")
	par := flag.Int("par", 8, "cases run concurrently")
	wd := flag.Int("watchdog", 40, "watchdog, seconds")
	mode := flag.String("mode", "cases", "cases | closerace | closerace-child")
	rounds := flag.Int("rounds", 300, "closerace: rounds")
	maxStuck := flag.Int("maxstuck", 6, "after this many stuck cases the remaining ones are skipped")
	flag.Parse()
	watchdog = time.Duration(*wd) * time.Second
	log.SetOutput(io.Discard) // fd.go logs every state change; nothing is derived from it
	if *mode == "closerace-child" {
		closeRaceChild(*rounds)
		return
	}
	if *mode == "closerace" {
		closeRace(*outPath, *rounds)
		return
	}
	installResolver()
	// warm up the resolver (it reads its configuration on first use)
	warm := &det{events: make(chan *hold, 1)}
	warm.auto.Store(true)
	registry.Store("warmup.c19.invalid.", warm)
	for i := 0; i < 3; i++ {
		if conn, err := net.DialTimeout("tcp", "warmup.c19.invalid.:1", 5*time.Second); err == nil {
			conn.Close()
		}
	}

	fh, err := os.Open(*casesPath)
	if err != nil {
		panic(err)
	}
	var cases []caseSpec
	sc := bufio.NewScanner(fh)
	sc.Buffer(make([]byte, 1<<20), 1<<26)
	for sc.Scan() {
		if len(strings.TrimSpace(sc.Text())) == 0 {
			continue
		}
		var cs caseSpec
		if err := json.Unmarshal(sc.Bytes(), &cs); err != nil {
			panic(err)
		}
		cases = append(cases, cs)
	}
	fh.Close()
	of, err := os.Create(*outPath)
	if err != nil {
		panic(err)
	}
	w := bufio.NewWriterSize(of, 1<<20)
	var wmu sync.Mutex
	sem := make(chan struct{}, *par)
	var wg sync.WaitGroup
	for _, cs := range cases {
		wg.Add(1)
		sem <- struct{}{}
		go func(cs caseSpec) {
			defer wg.Done()
			defer func() { <-sem }()
			c := &caseRun{cs: cs, archs: map[int]*arch{}, dets: map[int]*det{}}
			if int(stuckCases.Load()) >= *maxStuck {
				// every stuck case costs a watchdog period; a systematic hang is reported once
				c.emit(c.header())
				c.emit(rec{"e": "endcase", "why": "skipped", "detail": "too many stuck cases before this one", "notes": ""})
			} else {
				c.run()
			}
			wmu.Lock()
			for _, r := range c.lines {
				b, _ := json.Marshal(r)
				w.Write(b)
				w.WriteByte('\n')
			}
			w.Flush()
			wmu.Unlock()
		}(cs)
	}
	wg.Wait()
	w.Flush()
	of.Close()
}
