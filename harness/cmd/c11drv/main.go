// c11drv: drives real distsys/resources two-phase-commit replicas (NewTwoPC) through a gating
// ReplicaHandle and records everything that crosses the public surface as ndjson, to be judged
// by TLC (spec/C11/OneCopyObs.tla = property level, spec/C11/TwoPCTrace.tla = conformance to the
// implementation-shaped model).
//
// Every node gets, for every peer, a gate wrapping the real transport: resources.RPCReplicaHandle
// (net/rpc over 127.0.0.1, ports from :0) or resources.LocalReplicaHandle (in process). A Send
// blocks in the gate until the scheduler delivers it (calls the real handle), drops it (error to
// the proposer, before or after the replica processed it), or duplicates it; the response is held
// until the scheduler releases it. Local steps (ReadValue, WriteValue, PreCommit, Commit, Abort)
// are issued the way MPCalContext.Run issues them.
//
// Case kinds (one JSON object per line of -cases):
//
//	script  follow a schedule exported by TLC from TwoPC.tla (the model's action labels), waiting
//	        for every expected consequence (requests arriving at the gates, operations returning);
//	        an expectation that does not come true is model drift: the rest of the case is drained
//	free    seeded random schedule (deliver / delay / reorder / drop / duplicate / voluntary abort)
//
// Every case ends with a drain (everything delivered, sections finished), observations of every
// replica, and optionally a solo phase: one writer retries alone from the quiet state.
// During a case a replica is observed (GetState: version + committed value) whenever it may have
// installed a version: after a Commit reached it and after it was handed a reject reply (a proposer
// that has fallen behind catches up from the version and value in the reply).
//
// No hook in /repo is needed: LocalReplicaHandle's unexported field and the state projection are
// reached by reflection, guarded by type checks; if the fields change shape the projection is
// reported as unavailable (a gap), never as a verdict.
package main

import (
	"bufio"
	"encoding/json"
	"errors"
	"flag"
	"fmt"
	"math/rand"
	"net"
	"os"
	"reflect"
	"sort"
	"strings"
	"sync"
	"time"
	"unsafe"

	"github.com/DistCompiler/pgo/distsys"
	"github.com/DistCompiler/pgo/distsys/resources"
	"github.com/DistCompiler/pgo/distsys/tla"
)

type rec map[string]interface{}

const (
	stGate = iota
	stProcessing
	stProcessed
	stReleased
)

var errDropped = errors.New("verif: message dropped by the gating transport")

type pend struct {
	id       int
	from, to int
	g        *gate
	req      resources.TwoPCRequest
	typ      string
	ver, val int
	stRaw    int64
	tick     int
	state    int
	kind     string
	cmd      chan string
	resp     resources.TwoPCResponse
	err      error
}

type node struct {
	id    int
	aid   tla.Value
	addr  string
	res   distsys.ArchetypeResource
	rcv   *resources.TwoPCReceiver
	gates map[int]*gate
	op    string // idle rd insect pcwait prepared failed commitwait abortwait
	sect  int
	ticks map[int64]int
	// reflection
	elem    reflect.Value
	mutex   *sync.RWMutex
	inflOff unsafe.Pointer
}

type kase struct {
	Case    string          `json:"case"`
	Mode    string          `json:"mode"`
	Tr      string          `json:"tr"`
	N       int             `json:"n"`
	Writers []int           `json:"writers"`
	Steps   [][]interface{} `json:"steps"`
	NSteps  int             `json:"nsteps"`
	MaxSect int             `json:"maxsect"`
	Drops   int             `json:"drops"`
	Dups    int             `json:"dups"`
	Seed    int64           `json:"seed"`
	Solo    int             `json:"solo"` // writer for the solo phase (0 = none, -1 = seeded choice)
	SoloTry int             `json:"solotries"`
	VAbort  float64         `json:"vabort"` // probability weight of voluntary aborts in free mode
	Lag     int             `json:"lag"`    // free mode: requests to and from this replica are delivered late (it falls behind)
}

// a broadcast goroutine of the library that got an error for an Abort/Commit request sleeps one second
// before it looks at the version again (and then sends the request again or gives up)
type sleeper struct {
	from, to int
	typ      string
	stRaw    int64
	since    time.Time
}

type world struct {
	mu      sync.Mutex
	sleep   []sleeper
	k       *kase
	nodes   map[int]*node
	ids     []int
	pends   []*pend
	events  []rec
	nextID  int
	reflOK  bool
	reflWhy string
	rng     *rand.Rand
	drops   int
	dups    int
	sched   [][]interface{}
	hang    string
	drift   string
	obsT    int64
	obsID   tla.Value
	wd      time.Duration
}

var iface = distsys.ArchetypeInterface{}

// ---------------------------------------------------------------- gate

type gate struct {
	w        *world
	from, to int
	inner    resources.ReplicaHandle
}

func (g *gate) Close() error {
	if g.inner != nil {
		return g.inner.Close()
	}
	return nil
}

func (g *gate) Send(request resources.TwoPCRequest, reply *resources.TwoPCResponse) chan error {
	ch := make(chan error, 1)
	p := g.w.arrive(g, request)
	c := <-p.cmd
	if c == "dropreq" {
		// the request is lost: the replica sees nothing, the proposer gets an error once the scheduler releases it
		g.w.processed(p, resources.TwoPCResponse{}, errDropped)
		<-p.cmd
		g.w.setState(p, stReleased)
		ch <- errDropped
		return ch
	}
	var tmp resources.TwoPCResponse
	g.w.logDlv(p, c)
	err := <-g.inner.Send(request, &tmp)
	g.w.processed(p, tmp, err)
	c2 := <-p.cmd
	if c2 == "dropresp" {
		ch <- errDropped
	} else {
		if err == nil {
			*reply = tmp
		}
		ch <- err
	}
	g.w.setState(p, stReleased)
	return ch
}

func num(v tla.Value) (r int) {
	defer func() {
		if recover() != nil {
			r = -1
		}
	}()
	return int(v.AsNumber())
}

func (w *world) tagOf(p *pend) rec {
	return rec{"id": p.id, "from": p.from, "to": p.to, "t": p.typ, "ver": p.ver, "val": p.val, "_p": p}
}

func (w *world) log(r rec) {
	w.events = append(w.events, r)
}

func (w *world) arrive(g *gate, request resources.TwoPCRequest) *pend {
	w.mu.Lock()
	defer w.mu.Unlock()
	w.nextID++
	p := &pend{id: w.nextID, from: g.from, to: g.to, g: g, req: request, typ: request.RequestType.String(),
		ver: request.Version, stRaw: request.SenderTime, cmd: make(chan string, 2), state: stGate}
	if p.typ != "Abort" {
		p.val = num(request.Value)
	}
	n := w.nodes[g.from]
	if t, ok := n.ticks[p.stRaw]; ok {
		p.tick = t
	} else {
		p.tick = len(n.ticks) + 1
		n.ticks[p.stRaw] = p.tick
	}
	for i, sl := range w.sleep {
		if sl.from == p.from && sl.to == p.to && sl.typ == p.typ && sl.stRaw == p.stRaw {
			w.sleep = append(w.sleep[:i], w.sleep[i+1:]...)
			break
		}
	}
	w.pends = append(w.pends, p)
	r := w.tagOf(p)
	r["e"] = "req"
	w.log(r)
	return p
}

func (w *world) logDlv(p *pend, kind string) {
	w.mu.Lock()
	defer w.mu.Unlock()
	p.state = stProcessing
	p.kind = kind
	r := w.tagOf(p)
	r["e"] = "dlv"
	r["kind"] = kind
	w.log(r)
}

func (w *world) respRec(p *pend, kind string, resp resources.TwoPCResponse, err error) rec {
	r := w.tagOf(p)
	r["e"] = "rsp"
	r["kind"] = kind
	r["err"] = err != nil
	r["acc"] = err == nil && resp.Accept
	r["rver"] = 0
	r["rval"] = 0
	if err == nil && !resp.Accept {
		r["rver"] = resp.Version
		r["rval"] = num(resp.Value)
	}
	if err != nil {
		r["errtext"] = err.Error()
	}
	return r
}

func (w *world) processed(p *pend, resp resources.TwoPCResponse, err error) {
	w.mu.Lock()
	defer w.mu.Unlock()
	p.resp, p.err = resp, err
	p.state = stProcessed
	if err != errDropped {
		w.log(w.respRec(p, p.kind, resp, err))
	}
}

func (w *world) setState(p *pend, s int) {
	w.mu.Lock()
	defer w.mu.Unlock()
	p.state = s
}

// ---------------------------------------------------------------- reflection helpers

func (w *world) setupRefl(n *node) {
	defer func() {
		if r := recover(); r != nil {
			w.reflOK = false
			w.reflWhy = fmt.Sprint("reflection failed: ", r)
		}
	}()
	v := reflect.ValueOf(n.res)
	if v.Kind() != reflect.Ptr || v.Elem().Kind() != reflect.Struct {
		w.reflOK, w.reflWhy = false, "NewTwoPC no longer returns a pointer to a struct"
		return
	}
	n.elem = v.Elem()
	mf := n.elem.FieldByName("mutex")
	inf := n.elem.FieldByName("numInFlightRequests")
	if !mf.IsValid() || mf.Type() != reflect.TypeOf(sync.RWMutex{}) || !inf.IsValid() || inf.Kind() != reflect.Int {
		w.reflOK, w.reflWhy = false, "fields mutex/numInFlightRequests not found"
		return
	}
	n.mutex = (*sync.RWMutex)(unsafe.Pointer(mf.UnsafeAddr()))
	n.inflOff = unsafe.Pointer(inf.UnsafeAddr())
	for _, f := range []string{"value", "oldValue", "version", "criticalSectionState", "twoPCState", "acceptedPreCommit"} {
		if !n.elem.FieldByName(f).IsValid() {
			w.reflOK, w.reflWhy = false, "field "+f+" not found"
			return
		}
	}
}

func (n *node) inflight() int {
	n.mutex.RLock()
	defer n.mutex.RUnlock()
	return *(*int)(n.inflOff)
}

func fieldIface(v reflect.Value, name string) interface{} {
	f := v.FieldByName(name)
	return reflect.NewAt(f.Type(), unsafe.Pointer(f.UnsafeAddr())).Elem().Interface()
}

var csNames = map[string]string{
	"inUninterruptedCriticalSection": "inCS", "acceptedNewValueInCriticalSection": "acceptedNew",
	"notInCriticalSection": "notInCS", "inPreCommit": "inPC", "hasPreCommitted": "hasPC", "failedPreCommit": "failedPC",
}

func (w *world) whoIs(v tla.Value) (r int) {
	defer func() {
		if recover() != nil {
			r = 0
		}
	}()
	s := v.String()
	for _, n := range w.nodes {
		if n.aid.String() == s {
			return n.id
		}
	}
	return 0
}

// projection of the Go fields onto the variables of TwoPC.tla
func (w *world) project(n *node) (r rec) {
	defer func() {
		if x := recover(); x != nil {
			r = nil
		}
	}()
	n.mutex.RLock()
	defer n.mutex.RUnlock()
	r = rec{"e": "st", "n": n.id}
	r["value"] = num(fieldIface(n.elem, "value").(tla.Value))
	r["oldValue"] = num(fieldIface(n.elem, "oldValue").(tla.Value))
	r["version"] = fieldIface(n.elem, "version").(int)
	cs := fieldIface(n.elem, "criticalSectionState").(fmt.Stringer).String()
	if m, ok := csNames[cs]; ok {
		r["cs"] = m
	} else {
		r["cs"] = cs
	}
	t := fieldIface(n.elem, "twoPCState").(fmt.Stringer).String()
	if t == "acceptedPreCommit" {
		t = "accepted"
	}
	r["tpc"] = t
	a := fieldIface(n.elem, "acceptedPreCommit").(resources.TwoPCRequest)
	r["accFrom"] = w.whoIs(a.Sender)
	r["accVer"] = a.Version
	return r
}

func makeLocalHandle(res distsys.ArchetypeResource) (h resources.ReplicaHandle, err error) {
	defer func() {
		if r := recover(); r != nil {
			err = fmt.Errorf("cannot build a LocalReplicaHandle: %v", r)
		}
	}()
	v := reflect.New(reflect.TypeOf(resources.LocalReplicaHandle{})).Elem()
	f := v.FieldByName("receiver")
	if !f.IsValid() || f.Type() != reflect.TypeOf(res) {
		return nil, fmt.Errorf("LocalReplicaHandle.receiver not found or of unexpected type")
	}
	reflect.NewAt(f.Type(), unsafe.Pointer(f.UnsafeAddr())).Elem().Set(reflect.ValueOf(res))
	return v.Interface().(resources.ReplicaHandle), nil
}

// ---------------------------------------------------------------- set-up / tear-down

func freeAddr() (string, error) {
	l, err := net.Listen("tcp", "127.0.0.1:0")
	if err != nil {
		return "", err
	}
	a := l.Addr().String()
	l.Close()
	return a, nil
}

// NewTwoPC listens on the address it is given and ignores a failure to do so. The port comes from freeAddr (bound
// to :0, released, bound again by NewTwoPC): in between another process of this shared machine - e.g. a second
// c11drv - can take it. Then our replica does not listen at all and an RPC handle for that address talks to a
// foreign replica (seen once: an idle replica "refused" the first PreCommit of a case). The receiver's listener is
// nil in that case: the world is thrown away and built again on fresh ports.
func listens(rcv *resources.TwoPCReceiver) (ok bool) {
	defer func() {
		if recover() != nil {
			ok = true // the field changed shape: no check
		}
	}()
	f := reflect.ValueOf(rcv).Elem().FieldByName("listener")
	if !f.IsValid() {
		return true
	}
	return !f.IsNil()
}

func newWorld(k *kase, wd time.Duration) (w *world, err error) {
	for attempt := 0; attempt < 8; attempt++ {
		w, err = newWorldOnce(k, wd)
		if err != nil {
			continue
		}
		stolen := 0
		for _, n := range w.nodes {
			if !listens(n.rcv) {
				stolen = n.id
			}
		}
		if stolen == 0 {
			return w, nil
		}
		w.teardown()
		err = fmt.Errorf("replica %d could not listen on its port (taken by another process) in 8 attempts", stolen)
	}
	return nil, err
}

func newWorldOnce(k *kase, wd time.Duration) (*world, error) {
	w := &world{k: k, nodes: map[int]*node{}, reflOK: true, rng: rand.New(rand.NewSource(k.Seed)), wd: wd,
		obsID: tla.MakeString("verif-observer")}
	for i := 1; i <= k.N; i++ {
		a, err := freeAddr()
		if err != nil {
			return nil, err
		}
		w.nodes[i] = &node{id: i, aid: tla.MakeString(fmt.Sprintf("n%d", i)), addr: a, gates: map[int]*gate{}, op: "idle",
			ticks: map[int64]int{}}
		w.ids = append(w.ids, i)
	}
	for _, n := range w.nodes {
		var reps []resources.ReplicaHandle
		for _, j := range w.ids {
			if j == n.id {
				continue
			}
			g := &gate{w: w, from: n.id, to: j}
			n.gates[j] = g
			reps = append(reps, g)
		}
		nn := n
		n.res = resources.NewTwoPC(tla.MakeNumber(0), n.addr, reps, n.aid, func(r *resources.TwoPCReceiver) { nn.rcv = r })
		if n.rcv == nil {
			return nil, fmt.Errorf("NewTwoPC did not hand out its receiver")
		}
		w.setupRefl(n)
	}
	for _, n := range w.nodes {
		for j, g := range n.gates {
			if k.Tr == "local" {
				h, err := makeLocalHandle(w.nodes[j].res)
				if err != nil {
					return nil, err
				}
				g.inner = h
			} else {
				h := resources.MakeRPCReplicaHandle(w.nodes[j].addr, w.nodes[j].aid)
				g.inner = &h
			}
		}
	}
	if k.Tr != "local" {
		// make sure every listener is really up (NewTwoPC ignores the error of listenAndServe)
		for _, n := range w.nodes {
			c, err := net.DialTimeout("tcp", n.addr, 5*time.Second)
			if err != nil {
				return nil, fmt.Errorf("replica %d does not listen on %s: %v", n.id, n.addr, err)
			}
			c.Close()
		}
	}
	return w, nil
}

func (w *world) teardown() {
	for _, n := range w.nodes {
		func() {
			defer func() { recover() }()
			n.res.Close()
		}()
		func() {
			defer func() { recover() }()
			resources.CloseTwoPCReceiver(n.rcv)
		}()
	}
}

// ---------------------------------------------------------------- waiting

func (w *world) waitFor(cond func() bool, d time.Duration) bool {
	deadline := time.Now().Add(d)
	sl := 50 * time.Microsecond
	for {
		w.mu.Lock()
		ok := cond()
		w.mu.Unlock()
		if ok {
			return true
		}
		if time.Now().After(deadline) {
			return false
		}
		time.Sleep(sl)
		if sl < 2*time.Millisecond {
			sl *= 2
		}
	}
}

// waiting for something a schedule prescribes (a request at the gates, an operation returning). Like waitFor, but
// gives up early when nothing can happen any more unless the scheduler acts: every broadcast goroutine is parked at
// a gate or finished, no retry sleep is pending and nothing was recorded for a while. A miss is schedule drift,
// never a verdict, so being wrong here under extreme load only costs the rest of that schedule.
const calmGrace = 5 * time.Second

func (w *world) waitExpect(cond func() bool) bool {
	deadline := time.Now().Add(w.wd)
	lastN, lastChange := -1, time.Now()
	sl := 50 * time.Microsecond
	for {
		w.mu.Lock()
		ok := cond()
		n := len(w.events) + len(w.pends)
		calm := w.reflOK && w.settledNow()
		for _, x := range w.sleep {
			if time.Since(x.since) < 3*time.Second {
				calm = false
			}
		}
		w.mu.Unlock()
		if ok {
			return true
		}
		now := time.Now()
		if n != lastN || !calm {
			lastN, lastChange = n, now
		}
		if now.After(deadline) || now.Sub(lastChange) > calmGrace {
			return false
		}
		time.Sleep(sl)
		if sl < 2*time.Millisecond {
			sl *= 2
		}
	}
}

func (w *world) held(from int) int {
	c := 0
	for _, p := range w.pends {
		if p.from == from && p.state != stReleased {
			c++
		}
	}
	return c
}

// all broadcast goroutines of every node are blocked in a gate (or finished)
func (w *world) settledNow() bool {
	if !w.reflOK {
		return true
	}
	for _, n := range w.nodes {
		h, inf, sl := w.held(n.id), n.inflight(), 0
		for _, x := range w.sleep {
			if x.from == n.id && time.Since(x.since) < 3*time.Second {
				sl++
			}
		}
		if inf < h || inf > h+sl {
			return false
		}
	}
	return true
}

func (w *world) settle() bool {
	if !w.reflOK {
		time.Sleep(3 * time.Millisecond)
		return true
	}
	if !w.waitFor(w.settledNow, w.wd) {
		w.hang = "broadcast goroutines neither arrived at a gate nor finished"
		return false
	}
	return true
}

func (w *world) quietNow() bool {
	for _, n := range w.nodes {
		if n.op != "idle" {
			return false
		}
		if w.held(n.id) != 0 {
			return false
		}
		if w.reflOK && n.inflight() != 0 {
			return false
		}
	}
	return true
}

// ---------------------------------------------------------------- local steps

func (w *world) record(step ...interface{}) {
	w.sched = append(w.sched, step)
}

func (w *world) guard(n *node, what string) {
	if r := recover(); r != nil {
		w.mu.Lock()
		w.log(rec{"e": "panic", "p": n.id, "what": what, "msg": fmt.Sprint(r)})
		n.op = "dead"
		w.mu.Unlock()
	}
}

func (w *world) doRead(n *node) {
	defer w.guard(n, "ReadValue")
	v0 := resources.GetVersion(n.rcv)
	val, err := n.res.ReadValue(iface)
	v1 := resources.GetVersion(n.rcv)
	w.mu.Lock()
	defer w.mu.Unlock()
	ver := v0
	if v0 != v1 {
		ver = -1
	}
	n.sect++
	r := rec{"e": "read", "p": n.id, "ok": err == nil, "ver": ver, "val": 0}
	if err == nil {
		r["val"] = num(val)
		n.op = "rd"
	} else {
		n.op = "failed"
	}
	w.log(r)
}

func (w *world) doWrite(n *node) {
	defer w.guard(n, "WriteValue")
	val := n.id*100 + n.sect
	err := n.res.WriteValue(iface, tla.MakeNumber(int32(val)))
	w.mu.Lock()
	defer w.mu.Unlock()
	w.log(rec{"e": "write", "p": n.id, "val": val, "ok": err == nil})
	if err == nil {
		n.op = "insect"
	} else {
		n.op = "failed"
	}
}

func (w *world) doPCStart(n *node) {
	w.mu.Lock()
	w.log(rec{"e": "pcstart", "p": n.id})
	n.op = "pcwait"
	w.mu.Unlock()
	go func() {
		defer w.guard(n, "PreCommit")
		err := <-n.res.PreCommit(iface)
		w.mu.Lock()
		defer w.mu.Unlock()
		w.log(rec{"e": "pc", "p": n.id, "ok": err == nil})
		if err == nil {
			n.op = "prepared"
		} else {
			n.op = "failed"
		}
	}()
}

func (w *world) doCommit(n *node) {
	w.mu.Lock()
	w.log(rec{"e": "commitstart", "p": n.id})
	n.op = "commitwait"
	w.mu.Unlock()
	go func() {
		defer w.guard(n, "Commit")
		if ch := n.res.Commit(iface); ch != nil {
			<-ch
		}
		w.mu.Lock()
		defer w.mu.Unlock()
		w.log(rec{"e": "commit", "p": n.id})
		n.op = "idle"
	}()
}

func (w *world) doAbort(n *node) {
	w.mu.Lock()
	w.log(rec{"e": "abortstart", "p": n.id})
	n.op = "abortwait"
	w.mu.Unlock()
	go func() {
		defer w.guard(n, "Abort")
		if ch := n.res.Abort(iface); ch != nil {
			<-ch
		}
		w.mu.Lock()
		defer w.mu.Unlock()
		w.log(rec{"e": "abort", "p": n.id})
		n.op = "idle"
	}()
}

// observation through the public surface: a GetState request to the receiver (version + committed value)
func (w *world) observe(n *node) {
	var reply resources.TwoPCResponse
	w.obsT++
	func() {
		defer w.guard(n, "GetState")
		n.rcv.Receive(resources.TwoPCRequest{RequestType: resources.GetState, Sender: w.obsID, SenderTime: w.obsT}, &reply)
	}()
	w.mu.Lock()
	defer w.mu.Unlock()
	w.log(rec{"e": "obs", "n": n.id, "ver": reply.Version, "val": num(reply.Value), "gv": resources.GetVersion(n.rcv)})
}

func (w *world) logState(ids ...int) {
	if !w.reflOK {
		return
	}
	for _, i := range ids {
		if r := w.project(w.nodes[i]); r != nil {
			w.mu.Lock()
			w.log(r)
			w.mu.Unlock()
		}
	}
}

// ---------------------------------------------------------------- network steps

func (w *world) deliver(p *pend, kind string) bool {
	p.cmd <- kind
	if !w.waitFor(func() bool { return p.state == stProcessed }, w.wd) {
		w.hang = fmt.Sprintf("replica %d did not answer %s from %d", p.to, p.typ, p.from)
		return false
	}
	w.logState(p.to)
	if p.typ == "Commit" {
		// the replica may have installed a version: what does it report for it now?
		w.observe(w.nodes[p.to])
	}
	return true
}

func (w *world) release(p *pend, how string) bool {
	w.mu.Lock()
	res := "acc"
	if how == "dropresp" || p.err != nil {
		res = "err"
	} else if !p.resp.Accept {
		res = "rej"
	}
	r := w.tagOf(p)
	r["e"] = "rel"
	r["res"] = res
	w.log(r)
	if res == "err" && p.typ != "PreCommit" {
		w.sleep = append(w.sleep, sleeper{p.from, p.to, p.typ, p.stRaw, time.Now()})
	}
	w.mu.Unlock()
	p.cmd <- how
	if !w.waitFor(func() bool { return p.state == stReleased }, w.wd) {
		w.hang = "gate did not return"
		return false
	}
	ok := w.settle()
	w.logState(p.from)
	if ok && res == "rej" {
		// a proposer that has fallen behind catches up from a reject reply: what does it report now?
		w.observe(w.nodes[p.from])
	}
	return ok
}

func (w *world) dropReq(p *pend) bool {
	w.mu.Lock()
	r := w.tagOf(p)
	r["e"] = "dropreq"
	w.log(r)
	p.kind = "dropreq"
	w.mu.Unlock()
	p.cmd <- "dropreq"
	if !w.waitFor(func() bool { return p.state == stProcessed }, w.wd) {
		w.hang = "gate did not return"
		return false
	}
	return true
}

// an extra copy of the request reaches the replica; its response is discarded
func (w *world) duplicate(p *pend) bool {
	w.mu.Lock()
	r := w.tagOf(p)
	r["e"] = "dlv"
	r["kind"] = "dup"
	w.log(r)
	w.mu.Unlock()
	var tmp resources.TwoPCResponse
	done := make(chan error, 1)
	go func() { done <- <-p.g.inner.Send(p.req, &tmp) }()
	select {
	case err := <-done:
		w.mu.Lock()
		w.log(w.respRec(p, "dup", tmp, err))
		w.mu.Unlock()
	case <-time.After(w.wd):
		w.hang = "duplicate delivery did not return"
		return false
	}
	w.logState(p.to)
	if p.typ == "Commit" {
		w.observe(w.nodes[p.to])
	}
	return true
}

func resOf(p *pend) string {
	if p.err != nil {
		return "err"
	}
	if p.resp.Accept {
		return "acc"
	}
	return "rej"
}

// ---------------------------------------------------------------- drain, observations, solo phase

func (w *world) snapshotPends(state int) []*pend {
	w.mu.Lock()
	defer w.mu.Unlock()
	var out []*pend
	for _, p := range w.pends {
		if p.state == state {
			out = append(out, p)
		}
	}
	return out
}

func (w *world) opOf(n *node) string {
	w.mu.Lock()
	defer w.mu.Unlock()
	return n.op
}

// deliver and release everything, finish every section; returns true when the system is quiet
func (w *world) drain(commitPrepared bool) bool {
	deadline := time.Now().Add(4 * w.wd)
	for time.Now().Before(deadline) {
		if !w.settle() {
			return false
		}
		progress := false
		for _, p := range w.snapshotPends(stGate) {
			if !w.deliver(p, "dlv") {
				return false
			}
			progress = true
		}
		for _, p := range w.snapshotPends(stProcessed) {
			if !w.release(p, "rel") {
				return false
			}
			progress = true
		}
		for _, i := range w.k.Writers {
			n := w.nodes[i]
			switch w.opOf(n) {
			case "rd", "insect", "failed":
				w.doAbort(n)
				progress = true
			case "prepared":
				if commitPrepared {
					w.doCommit(n)
				} else {
					w.doAbort(n)
				}
				progress = true
			case "dead":
				return false
			}
		}
		if progress {
			deadline = time.Now().Add(4 * w.wd)
			continue
		}
		w.mu.Lock()
		q := w.quietNow()
		w.mu.Unlock()
		if q {
			return true
		}
		time.Sleep(200 * time.Microsecond)
	}
	w.hang = "the system did not come to rest with every message delivered"
	return false
}

func (w *world) observeAll() {
	for _, i := range w.ids {
		w.observe(w.nodes[i])
	}
	w.logState(w.ids...)
}

// one writer retries alone from the quiet state; every message is delivered in arrival order
func (w *world) soloPhase(p int, tries int) bool {
	n := w.nodes[p]
	w.mu.Lock()
	w.log(rec{"e": "solo", "p": p, "tries": tries})
	w.mu.Unlock()
	w.record("solo", p)
	for t := 0; t < tries; t++ {
		w.doRead(n)
		if w.opOf(n) == "rd" {
			w.doWrite(n)
		}
		if w.opOf(n) == "insect" {
			w.doPCStart(n)
		}
		if !w.drain(true) {
			return false
		}
		committed := false
		w.mu.Lock()
		for i := len(w.events) - 1; i >= 0; i-- {
			e := w.events[i]
			if e["e"] == "solo" {
				break
			}
			if e["e"] == "commit" && e["p"] == p {
				committed = true
			}
		}
		w.mu.Unlock()
		if committed {
			break
		}
	}
	w.mu.Lock()
	w.log(rec{"e": "soloend", "p": p})
	w.mu.Unlock()
	return true
}

// ---------------------------------------------------------------- free (seeded random) schedules

type choice struct {
	w float64
	f func() bool
}

func isWriter(k *kase, i int) bool {
	for _, x := range k.Writers {
		if x == i {
			return true
		}
	}
	return false
}

func (w *world) tag(p *pend) []interface{} {
	return []interface{}{p.from, p.to, p.typ, p.ver, p.tick}
}

func (w *world) runFree() bool {
	k := w.k
	for step := 0; step < k.NSteps; step++ {
		if !w.settle() {
			return false
		}
		var cs []choice
		for _, i := range k.Writers {
			n := w.nodes[i]
			switch w.opOf(n) {
			case "idle":
				if n.sect < k.MaxSect {
					cs = append(cs, choice{1.5, func() bool { w.record("read", n.id); w.doRead(n); w.logState(n.id); return true }})
				}
			case "rd":
				cs = append(cs, choice{3, func() bool { w.record("write", n.id); w.doWrite(n); w.logState(n.id); return true }})
				cs = append(cs, choice{k.VAbort, func() bool { w.record("abort", n.id); w.doAbort(n); return true }})
			case "insect":
				wt := 2.0
				if k.Lag != 0 && n.id != k.Lag {
					wt = 0.7 // the others stay a while in their sections with an uncommitted write
				}
				cs = append(cs, choice{wt, func() bool { w.record("pcstart", n.id); w.doPCStart(n); return true }})
				cs = append(cs, choice{k.VAbort, func() bool { w.record("abort", n.id); w.doAbort(n); return true }})
			case "failed":
				cs = append(cs, choice{3, func() bool { w.record("abort", n.id); w.doAbort(n); return true }})
			case "prepared":
				cs = append(cs, choice{2.5, func() bool { w.record("commit", n.id); w.doCommit(n); return true }})
				cs = append(cs, choice{2 * k.VAbort, func() bool { w.record("abort", n.id); w.doAbort(n); return true }})
			case "dead":
				return false
			}
		}
		for _, p := range w.snapshotPends(stGate) {
			p := p
			wt := 2.0
			if k.Lag != 0 && (p.to == k.Lag || p.from == k.Lag) {
				wt = 0.12 // this replica hears from the others late: it falls behind and its own requests become stale
			}
			cs = append(cs, choice{wt, func() bool {
				ok := w.deliver(p, "dlv")
				w.record(append(append([]interface{}{"dlv"}, w.tag(p)...), resOf(p))...)
				return ok
			}})
			if w.drops < k.Drops {
				cs = append(cs, choice{0.25, func() bool {
					w.drops++
					w.record(append([]interface{}{"dropreq"}, w.tag(p)...)...)
					return w.dropReq(p)
				}})
				cs = append(cs, choice{0.25, func() bool {
					w.drops++
					w.record(append([]interface{}{"dropresp"}, w.tag(p)...)...)
					return w.deliver(p, "dropresp")
				}})
			}
			if w.dups < k.Dups {
				cs = append(cs, choice{0.3, func() bool {
					w.dups++
					w.record(append([]interface{}{"dup"}, w.tag(p)...)...)
					return w.duplicate(p)
				}})
			}
		}
		for _, p := range w.snapshotPends(stProcessed) {
			p := p
			cs = append(cs, choice{2.5, func() bool {
				how := "rel"
				if p.kind == "dropresp" {
					how = "dropresp"
				}
				w.record(append(append([]interface{}{"rel"}, w.tag(p)...), resOf(p))...)
				return w.release(p, how)
			}})
		}
		if len(cs) == 0 {
			// nothing enabled right now: either everything is finished or an operation is still running
			w.mu.Lock()
			q := w.quietNow()
			w.mu.Unlock()
			if q {
				done := true
				for _, i := range k.Writers {
					if w.nodes[i].sect < k.MaxSect {
						done = false
					}
				}
				if done {
					break
				}
			}
			time.Sleep(300 * time.Microsecond)
			continue
		}
		tot := 0.0
		for _, c := range cs {
			tot += c.w
		}
		x := w.rng.Float64() * tot
		pick := cs[len(cs)-1]
		for _, c := range cs {
			if x < c.w {
				pick = c
				break
			}
			x -= c.w
		}
		if !pick.f() {
			return false
		}
		if w.rng.Intn(4) == 0 {
			w.observe(w.nodes[w.ids[w.rng.Intn(len(w.ids))]])
		}
	}
	return true
}

// ---------------------------------------------------------------- scripted schedules (exported by TLC)

func asInt(x interface{}) int {
	switch v := x.(type) {
	case float64:
		return int(v)
	case int:
		return v
	}
	return 0
}
func asStr(x interface{}) string {
	s, _ := x.(string)
	return s
}

func (w *world) driftf(format string, a ...interface{}) bool {
	w.drift = fmt.Sprintf(format, a...)
	w.mu.Lock()
	w.log(rec{"e": "drift", "what": w.drift})
	w.mu.Unlock()
	return false
}

// wait until cnt requests of `from` carrying a not yet numbered sender time are at the gates; give them tick st
func (w *world) expectNew(from, cnt, st int, typ string) bool {
	if cnt == 0 {
		return true
	}
	ok := w.waitExpect(func() bool {
		c := 0
		for _, p := range w.pends {
			if p.from == from && p.state == stGate && p.tick == st && p.typ == typ {
				c++
			}
		}
		return c >= cnt
	})
	if !ok {
		return w.driftf("expected %d %s requests (sender time #%d) of node %d at the gates", cnt, typ, st, from)
	}
	return true
}

func (w *world) find(state int, from, to int, typ string, ver, st int) *pend {
	var found *pend
	w.waitExpect(func() bool {
		for _, p := range w.pends {
			if p.state == state && p.from == from && p.to == to && p.typ == typ && p.ver == ver && p.tick == st {
				found = p
				return true
			}
		}
		return false
	})
	return found
}

func (w *world) waitOp(n *node, want ...string) bool {
	ok := w.waitExpect(func() bool {
		for _, x := range want {
			if n.op == x {
				return true
			}
		}
		return n.op == "dead"
	})
	return ok && w.opOf(n) != "dead"
}

func (w *world) runScript() bool {
	for _, s := range w.k.Steps {
		if len(s) == 0 {
			continue
		}
		if w.hang != "" {
			return false
		}
		a := asStr(s[0])
		w.record(s...)
		switch a {
		case "init":
		case "read":
			n := w.nodes[asInt(s[1])]
			if w.opOf(n) != "idle" {
				return w.driftf("read %d: the writer is %s", n.id, n.op)
			}
			w.doRead(n)
			w.logState(n.id)
		case "write":
			n := w.nodes[asInt(s[1])]
			if w.opOf(n) != "rd" {
				return w.driftf("write %d: the writer is %s", n.id, n.op)
			}
			w.doWrite(n)
			w.logState(n.id)
			if (w.opOf(n) == "insect") != (asStr(s[2]) == "ok") {
				return w.driftf("write %d: expected %s", n.id, asStr(s[2]))
			}
		case "pcstart":
			n := w.nodes[asInt(s[1])]
			if w.opOf(n) != "insect" {
				return w.driftf("pcstart %d: the writer is %s", n.id, n.op)
			}
			w.doPCStart(n)
			if asInt(s[2]) == 0 {
				if !w.waitOp(n, "failed") {
					return w.driftf("pcstart %d: expected a local abort", n.id)
				}
			} else if !w.expectNew(n.id, asInt(s[2]), asInt(s[3]), "PreCommit") {
				return false
			}
			w.logState(n.id)
		case "commit":
			n := w.nodes[asInt(s[1])]
			if w.opOf(n) != "prepared" {
				return w.driftf("commit %d: the writer is %s", n.id, n.op)
			}
			w.doCommit(n)
			if !w.expectNew(n.id, asInt(s[2]), asInt(s[3]), "Commit") {
				return false
			}
		case "abort":
			n := w.nodes[asInt(s[1])]
			o := w.opOf(n)
			if o != "rd" && o != "insect" && o != "failed" && o != "prepared" {
				return w.driftf("abort %d: the writer is %s", n.id, o)
			}
			w.doAbort(n)
			if asInt(s[2]) == 0 {
				if !w.waitOp(n, "idle") {
					return w.driftf("abort %d: expected to return at once", n.id)
				}
				w.logState(n.id)
			} else if !w.expectNew(n.id, asInt(s[2]), asInt(s[3]), "Abort") {
				return false
			}
		case "int":
			n := w.nodes[asInt(s[1])]
			switch asStr(s[2]) {
			case "rollback":
				if !w.expectNew(n.id, asInt(s[3]), asInt(s[4]), "Abort") {
					return false
				}
			case "prepared":
				if !w.waitOp(n, "prepared") {
					return w.driftf("node %d: PreCommit did not succeed as the model prescribes (%s)", n.id, n.op)
				}
			case "pcfailed":
				if !w.waitOp(n, "failed") {
					return w.driftf("node %d: PreCommit did not fail as the model prescribes (%s)", n.id, n.op)
				}
			case "aborted", "committed":
				if !w.waitOp(n, "idle") {
					return w.driftf("node %d: operation did not return (%s)", n.id, n.op)
				}
			}
			w.logState(n.id)
		case "dlv", "dropresp", "dup", "dropreq":
			p := w.find(stGate, asInt(s[1]), asInt(s[2]), asStr(s[3]), asInt(s[4]), asInt(s[5]))
			if p == nil {
				return w.driftf("%s: no such request at the gates: %v", a, s[1:])
			}
			switch a {
			case "dlv":
				if !w.deliver(p, "dlv") {
					return false
				}
				if len(s) > 6 && resOf(p) != asStr(s[6]) {
					return w.driftf("replica %d answered %s to %v, the model prescribes %s", p.to, resOf(p), s[1:6], asStr(s[6]))
				}
			case "dropresp":
				if !w.deliver(p, "dropresp") {
					return false
				}
			case "dup":
				if !w.duplicate(p) {
					return false
				}
			case "dropreq":
				if !w.dropReq(p) {
					return false
				}
			}
		case "rel":
			from, to, typ, ver, st := asInt(s[1]), asInt(s[2]), asStr(s[3]), asInt(s[4]), asInt(s[5])
			p := w.find(stProcessed, from, to, typ, ver, st)
			if p == nil {
				return w.driftf("rel: no such held response: %v", s[1:])
			}
			how := "rel"
			if p.kind == "dropresp" {
				how = "dropresp"
			}
			if !w.release(p, how) {
				return false
			}
		case "wake":
			if asStr(s[6]) == "resend" {
				if w.find(stGate, asInt(s[1]), asInt(s[2]), asStr(s[3]), asInt(s[4]), asInt(s[5])) == nil {
					return w.driftf("wake: the request was not sent again: %v", s[1:])
				}
			} else if !w.settle() {
				return false
			}
		case "solo":
			// handled by the common epilogue (the script's solo steps are replayed by soloPhase)
			return true
		default:
			return w.driftf("unknown step %v", s)
		}
	}
	return true
}

// ---------------------------------------------------------------- one case

func (w *world) flush(out *bufio.Writer) {
	// sender times -> dense ranks per sender (TLC integers are 32 bit)
	per := map[int][]int64{}
	for _, e := range w.events {
		if p, ok := e["_p"].(*pend); ok {
			per[p.from] = append(per[p.from], p.stRaw)
		}
	}
	rank := map[int]map[int64]int{}
	for f, l := range per {
		sort.Slice(l, func(i, j int) bool { return l[i] < l[j] })
		rank[f] = map[int64]int{}
		for _, x := range l {
			if _, ok := rank[f][x]; !ok {
				rank[f][x] = len(rank[f]) + 1
			}
		}
	}
	for _, e := range w.events {
		if p, ok := e["_p"].(*pend); ok {
			e["st"] = rank[p.from][p.stRaw]
			delete(e, "_p")
		}
		b, _ := json.Marshal(e)
		out.Write(b)
		out.WriteByte('\n')
	}
	out.Flush()
}

func runCase(k *kase, out *bufio.Writer, wd time.Duration) (status rec) {
	status = rec{"case": k.Case, "ok": false}
	w, err := newWorld(k, wd)
	if err != nil {
		status["setup_error"] = err.Error()
		return
	}
	w.log(rec{"e": "case", "case": k.Case, "mode": k.Mode, "tr": k.Tr, "n": k.N, "writers": k.Writers,
		"refl": w.reflOK, "solotries": k.SoloTry})
	ok := true
	if k.Mode == "script" {
		ok = w.runScript()
	} else {
		ok = w.runFree()
	}
	if w.hang == "" {
		ok = w.drain(true)
	}
	if w.hang == "" && ok {
		w.observeAll()
		solo := k.Solo
		if solo < 0 {
			solo = k.Writers[w.rng.Intn(len(k.Writers))]
		}
		if solo > 0 && w.reflOK && k.SoloTry > 0 {
			if w.soloPhase(solo, k.SoloTry) {
				w.observeAll()
			}
		}
	}
	w.mu.Lock()
	if w.hang != "" {
		w.log(rec{"e": "hang", "what": w.hang})
	}
	w.log(rec{"e": "end"})
	w.mu.Unlock()
	if w.hang == "" {
		// Close() waits for the broadcast goroutines of the resource. After a panic inside the library (node "dead")
		// some of them are parked at the gates for ever: the recorded events (with the panic) must still be handed
		// over, so the tear-down is bounded; the goroutines left behind are blocked on channels of this case only
		wait := wd
		w.mu.Lock()
		if !w.quietNow() {
			wait = 3 * time.Second
		}
		w.mu.Unlock()
		done := make(chan struct{})
		go func() { w.teardown(); close(done) }()
		select {
		case <-done:
		case <-time.After(wait):
			status["teardown"] = "blocked"
			if wait == wd {
				w.hang = "Close() did not return although the system was quiet"
			}
		}
	}
	w.mu.Lock()
	w.flush(out)
	w.mu.Unlock()
	status["ok"] = w.hang == ""
	status["hang"] = w.hang
	status["drift"] = w.drift
	status["refl"] = w.reflOK
	status["reflwhy"] = w.reflWhy
	status["sched"] = w.sched
	status["events"] = len(w.events)
	return
}

func main() {
	cases := flag.String("cases", "", "ndjson file of cases")
	outp := flag.String("out", "", "ndjson trace output")
	statp := flag.String("status", "", "ndjson status output (one line per finished case)")
	cur := flag.String("current", "", "file receiving the descriptor of the case being run (crash diagnosis)")
	wdms := flag.Int("watchdog", 30000, "watchdog in ms for any single expected event")
	skip := flag.Int("skip", 0, "number of leading cases to skip")
	flag.Parse()
	fh, err := os.Open(*cases)
	if err != nil {
		fmt.Fprintln(os.Stderr, err)
		os.Exit(2)
	}
	of, err := os.OpenFile(*outp, os.O_APPEND|os.O_CREATE|os.O_WRONLY, 0644)
	if err != nil {
		fmt.Fprintln(os.Stderr, err)
		os.Exit(2)
	}
	sf, err := os.OpenFile(*statp, os.O_APPEND|os.O_CREATE|os.O_WRONLY, 0644)
	if err != nil {
		fmt.Fprintln(os.Stderr, err)
		os.Exit(2)
	}
	out := bufio.NewWriterSize(of, 1<<20)
	sc := bufio.NewScanner(fh)
	sc.Buffer(make([]byte, 1<<20), 1<<26)
	i := 0
	for sc.Scan() {
		line := strings.TrimSpace(sc.Text())
		if line == "" {
			continue
		}
		i++
		if i <= *skip {
			continue
		}
		var k kase
		if err := json.Unmarshal([]byte(line), &k); err != nil {
			fmt.Fprintln(os.Stderr, "bad case:", err)
			os.Exit(2)
		}
		if *cur != "" {
			os.WriteFile(*cur, []byte(line), 0644)
		}
		st := runCase(&k, out, time.Duration(*wdms)*time.Millisecond)
		st["index"] = i
		b, _ := json.Marshal(st)
		sf.Write(append(b, '\n'))
		if st["ok"] != true {
			// a hung case leaves goroutines of the library blocked: stop, the check restarts the driver after it
			out.Flush()
			os.Exit(3)
		}
	}
	out.Flush()
	if *cur != "" {
		os.Remove(*cur)
	}
}
