// The shipped pair pgo/test/files/general/ProcedureSpaghetti.tla(.expectpcal) /
// ProcedureSpaghetti.tla.gotests/ProcedureSpaghetti.go: the generated archetype Arch1 is run as
// the instance `process (Pross1 = 1) == instance Arch1(ref V1, 30) mapping V1 via M`, the only
// instance whose PlusCal expansion (.expectpcal) is self-consistent (see findings/C04.md).
package main

import (
	"fmt"
	"math/rand"

	"github.com/DistCompiler/pgo/distsys"
	"github.com/DistCompiler/pgo/distsys/tla"
	ps "github.com/DistCompiler/pgo/test/files/general/ProcedureSpaghetti.tla.gotests"
)

// cellM is a local cell seen through the mapping macro M of ProcedureSpaghetti.tla:
//
//	read { yield $variable + 1; }   write { yield $value - 1; }
type cellM struct {
	distsys.ArchetypeResourceLeafMixin
	value, old tla.Value
}

func (c *cellM) Abort(distsys.ArchetypeInterface) chan struct{} { c.value = c.old; return nil }
func (c *cellM) PreCommit(distsys.ArchetypeInterface) chan error { return nil }
func (c *cellM) Commit(distsys.ArchetypeInterface) chan struct{} { c.old = c.value; return nil }
func (c *cellM) Close() error                                    { return nil }
func (c *cellM) ReadValue(distsys.ArchetypeInterface) (tla.Value, error) {
	return tla.ModulePlusSymbol(c.value, tla.MakeNumber(1)), nil
}
func (c *cellM) WriteValue(_ distsys.ArchetypeInterface, v tla.Value) error {
	c.value = tla.ModuleMinusSymbol(v.StripVClock(), tla.MakeNumber(1))
	return nil
}

// names of the PlusCal expansion (Proc10 = Proc1 specialised for Pross1): Proc1.c is c0 there
func psRename(name string) string {
	switch name {
	case "Proc1.c":
		return "c0"
	}
	return short(name)
}

func runPS(arg int32, mode string, rep int, seed int64) {
	id := fmt.Sprintf("ps:%d:%s:%d", arg, mode, rep)
	emit(rec{"e": "case", "id": id, "suite": "ps", "prog": "ps", "V1": arg, "arg": arg, "mode": mode, "rep": rep, "seed": seed})
	rng := rand.New(rand.NewSource(seed*1000003 + int64(rep)*7919 + int64(arg)*31 + 5))
	rs := &runState{plan: planFor(mode, rng), limit: 400, inner: distsys.MakeRoundRobinFairnessCounter()}
	arch := ps.Arch1
	arch.JumpTable, arch.ProcTable = wrapTables(ps.Arch1.JumpTable, ps.Arch1.ProcTable, "&Arch1.gate")
	cell := &cellM{value: tla.MakeNumber(arg), old: tla.MakeNumber(arg)}
	ctx := distsys.NewMPCalContext(tla.MakeNumber(1), arch,
		distsys.EnsureArchetypeRefParam("e", cell),
		distsys.EnsureArchetypeValueParam("f", tla.MakeNumber(30)),
		distsys.EnsureArchetypeRefParam("gate", &gate{rs: rs}),
		distsys.SetFairnessCounter(rs),
		distsys.SetTraceRecorder(rs),
	)
	iface := ctx.IFace()
	rs.snap = func() rec {
		get := func(name string) string {
			v, _ := readLocal(iface, name)
			return valstr(v, "\x00")
		}
		pcv, _ := readLocal(iface, ".pc")
		g := map[string]string{"V1": cell.value.String(), "f": get("Arch1.f")}
		v := map[string]string{"b": get("Proc1.b"), "c0": get("Proc1.c")}
		ptr := map[string]string{"a": get("Proc1.a"), "a_": get("Proc2.a_")}
		frames, problem := snapStack(iface, psRename, "\x00")
		st := rec{"pc": label(pcv), "g": g, "v": v, "ptr": ptr, "stack": frames}
		if problem != "" {
			st["stackerr"] = problem
		}
		return st
	}
	st := rs.snap()
	st["e"] = "init"
	emit(st)
	status, msg := guarded(rs, ctx.Run)
	emit(rec{"e": "end", "status": status, "msg": msg, "attempts": rs.attempts})
}
