// c04drv: runs the hand-built twins of spec/C04/Procs.tla (progs.go) and the shipped
// ProcedureSpaghetti archetype under the REAL distsys.MPCalContext.Run, on the input family
// exported by TLC, and records the state after every attempt of every critical section as
// ndjson (one execution = one "case" segment).  TLC judges the recording (ProcTrace.tla.in).
//
// Aborts are injected at every position of a call/return by a resource (the "gate") that every
// section -- and every procedure preamble -- reads first:
//
//	e  the read at the start of the section fails            (nothing happened yet)
//	m  the read at the start of the callee's preamble fails  (frame pushed, arguments bound,
//	   locals not yet initialised, no jump yet); sections without a call abort late instead
//	l  PreCommit fails                                       (Call/TailCall/Return fully executed)
//
// No wall-clock verdicts: executions are bounded by a count of attempts; a watchdog only turns
// a silent driver into status "hang" (inconclusive).
package main

import (
	"bufio"
	"encoding/json"
	"flag"
	"fmt"
	"math/rand"
	"os"
	"strconv"
	"strings"
	"time"

	"github.com/DistCompiler/pgo/distsys"
	"github.com/DistCompiler/pgo/distsys/tla"
	"github.com/DistCompiler/pgo/distsys/trace"
)

type rec map[string]interface{}

var out *bufio.Writer

func emit(r rec) {
	enc := json.NewEncoder(out) // Encode terminates the value with a newline
	enc.SetEscapeHTML(false)
	if err := enc.Encode(r); err != nil {
		panic(err)
	}
}

// ------------------------------------------------------------------ input family (from TLC)

type tree struct {
	Kids [][]int32 `json:"kids"`
	Tail []bool    `json:"tail"`
}
type family struct {
	Ints   map[string][]int32 `json:"ints"`
	NTrees int                `json:"ntrees"`
	Trees  []tree             `json:"trees"`
}

// ------------------------------------------------------------------ abort plans

// a plan maps (number of consecutive aborts of the current section so far) to the fate of the
// next attempt: 'c' commit, 'e' early abort, 'm' mid abort, 'l' late abort.
func planFor(mode string, rng *rand.Rand) func(streak int) byte {
	switch mode {
	case "none":
		return func(int) byte { return 'c' }
	case "early", "mid", "late":
		return func(streak int) byte {
			if streak == 0 {
				return mode[0]
			}
			return 'c'
		}
	case "mix":
		return func(streak int) byte {
			if streak < 4 {
				return "emll"[streak]
			}
			return 'c'
		}
	case "rand":
		return func(streak int) byte {
			if streak >= 3 {
				return 'c'
			}
			return "cccceml"[rng.Intn(7)]
		}
	}
	panic("unknown mode " + mode)
}

// ------------------------------------------------------------------ run state: gate + hooks

type limitReached struct{}

type runState struct {
	plan     func(streak int) byte
	mode     byte
	streak   int
	reads    int
	attempts int
	limit    int
	tooDeep  bool
	snap     func() rec
	inner    distsys.FairnessCounter
	lastBeat time.Time
}

// FairnessCounter: Run calls BeginCriticalSection at the start of every attempt
func (rs *runState) BeginCriticalSection(pc string) {
	rs.attempts++
	if rs.attempts > rs.limit || rs.tooDeep {
		// the PlusCal programs of the family terminate within a few hundred attempts and a stack
		// of a few dozen frames; an execution beyond that has already diverged from the model
		panic(limitReached{})
	}
	rs.reads = 0
	rs.mode = rs.plan(rs.streak)
	rs.inner.BeginCriticalSection(pc)
}
func (rs *runState) NextFairnessCounter(id string, ceiling uint) uint {
	return rs.inner.NextFairnessCounter(id, ceiling)
}

// trace.Recorder: one event per attempt, after the resources committed / aborted
func (rs *runState) RecordEvent(ev trace.Event) {
	if ev.IsAbort {
		rs.streak++
	} else {
		rs.streak = 0
	}
	st := rs.snap()
	if fr, ok := st["stack"].([]interface{}); ok && len(fr) > 200 {
		rs.tooDeep = true
	}
	st["e"] = "step"
	st["abort"] = ev.IsAbort
	st["inj"] = string(rs.mode)
	emit(st)
}

// the gate resource
type gate struct {
	distsys.ArchetypeResourceLeafMixin
	rs *runState
}

func (g *gate) Abort(distsys.ArchetypeInterface) chan struct{}  { return nil }
func (g *gate) Commit(distsys.ArchetypeInterface) chan struct{} { return nil }
func (g *gate) Close() error                                     { return nil }
func (g *gate) PreCommit(distsys.ArchetypeInterface) chan error {
	if g.rs.mode == 'l' || g.rs.mode == 'm' {
		ch := make(chan error, 1)
		ch <- distsys.ErrCriticalSectionAborted
		return ch
	}
	return nil
}
func (g *gate) ReadValue(distsys.ArchetypeInterface) (tla.Value, error) {
	g.rs.reads++
	if (g.rs.mode == 'e' && g.rs.reads == 1) || (g.rs.mode == 'm' && g.rs.reads == 2) {
		return tla.Value{}, distsys.ErrCriticalSectionAborted
	}
	return tla.ModuleTRUE, nil
}
func (g *gate) WriteValue(distsys.ArchetypeInterface, tla.Value) error {
	return fmt.Errorf("the gate is read-only")
}

// wrapTables returns copies of the tables in which every section body and every procedure
// preamble first reads the gate resource.
func wrapTables(jt distsys.MPCalJumpTable, pt distsys.MPCalProcTable, gateHandle string) (distsys.MPCalJumpTable, distsys.MPCalProcTable) {
	readGate := func(iface distsys.ArchetypeInterface) error {
		_, err := iface.Read(iface.RequireArchetypeResource(gateHandle), nil)
		return err
	}
	jt2 := make(distsys.MPCalJumpTable)
	for name, cs := range jt {
		body := cs.Body
		jt2[name] = distsys.MPCalCriticalSection{Name: cs.Name, Body: func(iface distsys.ArchetypeInterface) error {
			if err := readGate(iface); err != nil {
				return err
			}
			return body(iface)
		}}
	}
	pt2 := make(distsys.MPCalProcTable)
	for name, p := range pt {
		pre := p.PreAmble
		p2 := p
		p2.PreAmble = func(iface distsys.ArchetypeInterface) error {
			if err := readGate(iface); err != nil {
				return err
			}
			return pre(iface)
		}
		pt2[name] = p2
	}
	return jt2, pt2
}

// ------------------------------------------------------------------ state projection

func short(name string) string {
	if i := strings.Index(name, "."); i >= 0 {
		return name[i+1:]
	}
	return name
}

// readLocal reads a local state variable; a variable that was never created holds, like in
// PlusCal's initial state, defaultInitValue (which is also the library's zero Value).
func readLocal(iface distsys.ArchetypeInterface, name string) (v tla.Value, present bool) {
	defer func() {
		if recover() != nil {
			v, present = tla.Value{}, false
		}
	}()
	return iface.ReadArchetypeResourceLocal(name), true
}

// valstr prints a value in TLA+ syntax; a reference (the name of a resource "&Arch.x", or the
// name of a procedure variable "Lend.da" of the Procs family) is printed as the PlusCal-level
// name "x" / "da".
func valstr(v tla.Value, refPrefix string) (s string) {
	defer func() {
		if r := recover(); r != nil {
			s = fmt.Sprintf("<unprintable: %v>", r)
		}
	}()
	if v.IsString() && strings.HasPrefix(v.AsString(), refPrefix) {
		return strconv.Quote(v.AsString()[len(refPrefix):])
	}
	if v.IsString() && refPrefix == "&Main." && procVarSet[v.AsString()] {
		return strconv.Quote(short(v.AsString()))
	}
	return v.String()
}

func label(v tla.Value) string {
	if !v.IsString() {
		return "<not a label: " + v.String() + ">"
	}
	return strconv.Quote(short(v.AsString()))
}

// snapStack projects `.stack` (sequence of records name -> saved value, plus ".pc")
func snapStack(iface distsys.ArchetypeInterface, rename func(string) string, refPrefix string) (frames []interface{}, problem string) {
	frames = []interface{}{}
	defer func() {
		if r := recover(); r != nil {
			problem = fmt.Sprint(r)
		}
	}()
	st, ok := readLocal(iface, ".stack")
	if !ok {
		return frames, "no .stack resource"
	}
	it := st.AsTuple().Iterator()
	for !it.Done() {
		_, fr := it.Next()
		vars := map[string]string{}
		pc := "<no .pc>"
		fit := fr.AsFunction().Iterator()
		for !fit.Done() {
			k, v, _ := fit.Next()
			if k.AsString() == ".pc" {
				pc = label(v)
			} else {
				vars[rename(k.AsString())] = valstr(v, refPrefix)
			}
		}
		frames = append(frames, rec{"pc": pc, "vars": vars})
	}
	return frames, ""
}

// ------------------------------------------------------------------ guarded execution

func guarded(rs *runState, f func() error) (status, msg string) {
	type res struct {
		p   interface{}
		err error
	}
	done := make(chan res, 1)
	go func() {
		var r res
		defer func() {
			if p := recover(); p != nil {
				r.p = p
			}
			done <- r
		}()
		r.err = f()
	}()
	for {
		select {
		case r := <-done:
			if r.p != nil {
				if _, ok := r.p.(limitReached); ok {
					return "limit", fmt.Sprintf("more than %d attempts or more than 200 frames", rs.limit)
				}
				return "panic", fmt.Sprint(r.p)
			}
			if r.err != nil {
				return "error", r.err.Error()
			}
			return "done", ""
		case <-time.After(300 * time.Second):
			return "hang", "no result for 300 s"
		}
	}
}

// ------------------------------------------------------------------ Procs family

var procVarNames = func() []string {
	var names []string
	for _, p := range []string{"Fact", "Even", "Odd", "Sum", "Outer", "A", "B", "N1", "N2", "N3", "N4", "Inc", "Both", "Both2", "Node", "Lend", "Borrow"} {
		names = append(names, procsProcTable[p].StateVars...)
	}
	return names
}()

// names of the procedure variables of the Procs family (a string value equal to one of them is a
// reference to that variable)
var procVarSet = func() map[string]bool {
	m := map[string]bool{}
	for _, n := range procVarNames {
		m[n] = true
	}
	return m
}()

func runProcs(fam *family, prog string, arg int32, mode string, rep int, seed int64) {
	id := fmt.Sprintf("%s:%d:%s:%d", prog, arg, mode, rep)
	emit(rec{"e": "case", "id": id, "suite": "procs", "prog": prog, "arg": arg, "mode": mode, "rep": rep, "seed": seed})
	rng := rand.New(rand.NewSource(seed*1000003 + int64(rep)*7919 + int64(arg)*31 + int64(len(prog))))
	rs := &runState{plan: planFor(mode, rng), limit: 4000, inner: distsys.MakeRoundRobinFairnessCounter()}
	jt, pt := wrapTables(procsJumpTable, procsProcTable, "&Main.gate")
	arch := mainArchetype
	arch.JumpTable, arch.ProcTable = jt, pt

	kids := func(tr, id tla.Value) tla.Value {
		ks := fam.Trees[tr.AsNumber()-1].Kids[id.AsNumber()-1]
		vs := make([]tla.Value, len(ks))
		for i, k := range ks {
			vs[i] = tla.MakeNumber(k)
		}
		return tla.MakeTuple(vs...)
	}
	tailOf := func(tr, id tla.Value) tla.Value {
		return tla.MakeBool(fam.Trees[tr.AsNumber()-1].Tail[id.AsNumber()-1])
	}
	ctx := distsys.NewMPCalContext(tla.MakeNumber(1), arch,
		distsys.EnsureArchetypeValueParam("prog", tla.MakeString(prog)),
		distsys.EnsureArchetypeValueParam("arg", tla.MakeNumber(arg)),
		distsys.EnsureArchetypeRefParam("res", distsys.NewLocalArchetypeResource(tla.MakeNumber(1))),
		distsys.EnsureArchetypeRefParam("out", distsys.NewLocalArchetypeResource(tla.MakeTuple())),
		distsys.EnsureArchetypeRefParam("g1", distsys.NewLocalArchetypeResource(tla.MakeNumber(0))),
		distsys.EnsureArchetypeRefParam("g2", distsys.NewLocalArchetypeResource(tla.MakeNumber(0))),
		distsys.EnsureArchetypeRefParam("gate", &gate{rs: rs}),
		distsys.DefineConstantOperator("Kids", kids),
		distsys.DefineConstantOperator("TailOf", tailOf),
		distsys.SetFairnessCounter(rs),
		distsys.SetTraceRecorder(rs),
	)
	iface := ctx.IFace()
	rs.snap = func() rec {
		get := func(name string) string {
			v, _ := readLocal(iface, name)
			return valstr(v, "&Main.")
		}
		pcv, _ := readLocal(iface, ".pc")
		g := map[string]string{
			"prog": get("Main.prog"), "arg": get("Main.arg"), "res": get("&Main.res"), "out": get("&Main.out"),
			"mem": fmt.Sprintf("[g1 |-> %s, g2 |-> %s]", get("&Main.g1"), get("&Main.g2")),
		}
		v := map[string]string{}
		for _, name := range procVarNames {
			// a variable not listed holds defaultInitValue (ProcTrace!ValOf)
			if s := get(name); s != "defaultInitValue" {
				v[short(name)] = s
			}
		}
		frames, problem := snapStack(iface, short, "&Main.")
		st := rec{"pc": label(pcv), "g": g, "v": v, "stack": frames}
		if problem != "" {
			st["stackerr"] = problem
		}
		return st
	}
	st := rs.snap()
	st["e"] = "init"
	emit(st)
	status, msg := guarded(rs, ctx.Run)
	emit(rec{"e": "end", "status": status, "msg": msg, "attempts": rs.attempts})
}

// ------------------------------------------------------------------ main

func main() {
	famF := flag.String("family", "family.ndjson", "input family exported by TLC (MCProcs!Export)")
	outF := flag.String("out", "trace.ndjson", "")
	modesF := flag.String("modes", "none,early,mid,late,mix", "abort plans to run for every input")
	randReps := flag.Int("rand", 1, "number of random abort plans per input (mode rand)")
	seed := flag.Int64("seed", 1, "")
	psArgs := flag.String("psargs", "0,7,13", "initial values of V1 for the ProcedureSpaghetti pair")
	only := flag.String("only", "", "run a single case: suite:prog:arg:mode:rep")
	flag.Parse()

	var fam family
	fb, err := os.ReadFile(*famF)
	if err != nil {
		panic(err)
	}
	if err := json.Unmarshal([]byte(strings.SplitN(strings.TrimSpace(string(fb)), "\n", 2)[0]), &fam); err != nil {
		panic(err)
	}
	fh, err := os.Create(*outF)
	if err != nil {
		panic(err)
	}
	out = bufio.NewWriterSize(fh, 1<<20)
	defer func() { out.Flush(); fh.Close() }()

	if *only != "" {
		p := strings.Split(*only, ":")
		if len(p) != 5 {
			panic("-only wants suite:prog:arg:mode:rep")
		}
		a, _ := strconv.Atoi(p[2])
		r, _ := strconv.Atoi(p[4])
		if p[0] == "ps" {
			runPS(int32(a), p[3], r, *seed)
		} else {
			runProcs(&fam, p[1], int32(a), p[3], r, *seed)
		}
		return
	}

	modes := strings.Split(*modesF, ",")
	type inp struct {
		prog string
		arg  int32
	}
	var inputs []inp
	for _, prog := range []string{"fact", "evenodd", "sum", "tail", "nest", "ref", "lend", "lendt"} {
		for _, a := range fam.Ints[prog] {
			inputs = append(inputs, inp{prog, a})
		}
	}
	for t := 1; t <= fam.NTrees; t++ {
		inputs = append(inputs, inp{"tree", int32(t)})
	}
	for _, in := range inputs {
		for _, m := range modes {
			if m != "" {
				runProcs(&fam, in.prog, in.arg, m, 0, *seed)
			}
		}
		for r := 0; r < *randReps; r++ {
			runProcs(&fam, in.prog, in.arg, "rand", r, *seed)
		}
	}
	for _, s := range strings.Split(*psArgs, ",") {
		a, err := strconv.Atoi(strings.TrimSpace(s))
		if err != nil {
			continue
		}
		for _, m := range modes {
			if m != "" {
				runPS(int32(a), m, 0, *seed)
			}
		}
		for r := 0; r < *randReps; r++ {
			runPS(int32(a), "rand", r, *seed)
		}
	}
}
