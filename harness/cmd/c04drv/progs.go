// Hand-built twins of the PlusCal programs of /verif/spec/C04/Procs.tla, written in the shapes
// the PGo code generator emits (compare pgo/test/files/general/ProcedureSpaghetti.tla.gotests):
//
//   - one MPCalProc per procedure: StateVars = parameters then locals (fully qualified),
//     PreAmble writes every local's initial value (defaultInitValue when it has none), in
//     declaration order, reading the already bound parameters;
//   - `call P(a, b)` followed by a label L  ==> return iface.Call("P", "<Here>.L", a, b)
//   - `call P(a, b); return;`               ==> return iface.TailCall("P", a, b)
//   - `return;`                             ==> return iface.Return()
//   - a ref argument is passed as the NAME of the resource (ReadArchetypeResourceLocal of the
//     caller's own ref parameter, or a literal name), the callee dereferences it with
//     RequireArchetypeResourceRef;
//   - a procedure's OWN parameter or local lent by reference (`call Borrow(ref da, ref dw, ..)`
//     inside Lend) is passed as the literal name of the state variable ("Lend.da"), the shape
//     the generator emits for a ref to a local (bug_119.go: tla.MakeString("Counter.value"));
//   - all reads/writes of state variables go through iface.Read / iface.Write.
//
// The only liberty taken: the globals res/out are reached by their fixed resource names
// ("&Main.res", "&Main.out") instead of being threaded through every procedure as ref
// parameters (the compiler's PlusCal back end specialises such refs away, too).
package main

import (
	"github.com/DistCompiler/pgo/distsys"
	"github.com/DistCompiler/pgo/distsys/tla"
)

// sx gives the section bodies a compact way to say iface.Read / iface.Write; an error of a
// resource operation (only the abort gate can fail) unwinds the body and is returned from it,
// exactly as the generated `if err != nil { return err }` chains do.
type sx struct{ iface distsys.ArchetypeInterface }
type bail struct{ err error }

func (s sx) rd(name string) tla.Value {
	h := s.iface.RequireArchetypeResource(name)
	v, err := s.iface.Read(h, nil)
	if err != nil {
		panic(bail{err})
	}
	return v
}
func (s sx) wr(name string, v tla.Value) {
	h := s.iface.RequireArchetypeResource(name)
	if err := s.iface.Write(h, nil, v); err != nil {
		panic(bail{err})
	}
}

// deref: read / write through a ref parameter (the parameter holds the resource name)
func (s sx) rdRef(param string) tla.Value {
	h, err := s.iface.RequireArchetypeResourceRef(param)
	if err != nil {
		panic(bail{err})
	}
	v, err := s.iface.Read(h, nil)
	if err != nil {
		panic(bail{err})
	}
	return v
}
func (s sx) wrRef(param string, v tla.Value) {
	h, err := s.iface.RequireArchetypeResourceRef(param)
	if err != nil {
		panic(bail{err})
	}
	if err := s.iface.Write(h, nil, v); err != nil {
		panic(bail{err})
	}
}
func (s sx) ptr(param string) tla.Value { return s.iface.ReadArchetypeResourceLocal(param) }
func (s sx) appendOut(elems ...tla.Value) {
	s.wr("&Main.out", tla.ModuleAppend(s.rd("&Main.out"), tla.MakeTuple(elems...)))
}

func catch(err *error) {
	if r := recover(); r != nil {
		if b, ok := r.(bail); ok {
			*err = b.err
			return
		}
		panic(r)
	}
}

func section(name string, f func(s sx) error) distsys.MPCalCriticalSection {
	return distsys.MPCalCriticalSection{Name: name, Body: func(iface distsys.ArchetypeInterface) (err error) {
		defer catch(&err)
		return f(sx{iface})
	}}
}
func preamble(f func(s sx)) func(distsys.ArchetypeInterface) error {
	return func(iface distsys.ArchetypeInterface) (err error) {
		defer catch(&err)
		f(sx{iface})
		return nil
	}
}
func errorSection(proc string) distsys.MPCalCriticalSection {
	return distsys.MPCalCriticalSection{Name: proc + ".Error", Body: func(distsys.ArchetypeInterface) error {
		return distsys.ErrProcedureFallthrough
	}}
}

func num(n int32) tla.Value         { return tla.MakeNumber(n) }
func str(s string) tla.Value        { return tla.MakeString(s) }
func plus(a, b tla.Value) tla.Value  { return tla.ModulePlusSymbol(a, b) }
func minus(a, b tla.Value) tla.Value { return tla.ModuleMinusSymbol(a, b) }
func times(a, b tla.Value) tla.Value { return tla.ModuleAsteriskSymbol(a, b) }
func eq(a, b tla.Value) bool         { return tla.ModuleEqualsSymbol(a, b).AsBool() }
func gt(a, b tla.Value) bool         { return tla.ModuleGreaterThanSymbol(a, b).AsBool() }

var dflt = tla.ModuledefaultInitValue

var procsProcTable = distsys.MakeMPCalProcTable(
	distsys.MPCalProc{Name: "Fact", Label: "Fact.f1", StateVars: []string{"Fact.n", "Fact.fk", "Fact.fj"},
		PreAmble: preamble(func(s sx) {
			s.wr("Fact.fk", plus(s.rd("Fact.n"), num(100)))
			s.wr("Fact.fj", dflt)
		})},
	distsys.MPCalProc{Name: "Even", Label: "Even.e1", StateVars: []string{"Even.ex", "Even.el"},
		PreAmble: preamble(func(s sx) { s.wr("Even.el", times(s.rd("Even.ex"), num(3))) })},
	distsys.MPCalProc{Name: "Odd", Label: "Odd.o1", StateVars: []string{"Odd.ox", "Odd.ol"},
		PreAmble: preamble(func(s sx) { s.wr("Odd.ol", times(s.rd("Odd.ox"), num(5))) })},
	distsys.MPCalProc{Name: "Sum", Label: "Sum.s1", StateVars: []string{"Sum.m", "Sum.acc", "Sum.sl"},
		PreAmble: preamble(func(s sx) { s.wr("Sum.sl", plus(s.rd("Sum.m"), s.rd("Sum.acc"))) })},
	distsys.MPCalProc{Name: "Outer", Label: "Outer.u1", StateVars: []string{"Outer.oa", "Outer.ov"},
		PreAmble: preamble(func(s sx) { s.wr("Outer.ov", plus(s.rd("Outer.oa"), num(7))) })},
	distsys.MPCalProc{Name: "A", Label: "A.ta1", StateVars: []string{"A.x", "A.t"},
		PreAmble: preamble(func(s sx) { s.wr("A.t", num(5)) })},
	distsys.MPCalProc{Name: "B", Label: "B.b1", StateVars: []string{"B.p", "B.q"},
		PreAmble: preamble(func(s sx) {})},
	distsys.MPCalProc{Name: "N1", Label: "N1.n1", StateVars: []string{"N1.a1", "N1.l1"},
		PreAmble: preamble(func(s sx) { s.wr("N1.l1", plus(s.rd("N1.a1"), num(1))) })},
	distsys.MPCalProc{Name: "N2", Label: "N2.n2", StateVars: []string{"N2.a2", "N2.b2", "N2.l2"},
		PreAmble: preamble(func(s sx) { s.wr("N2.l2", times(s.rd("N2.a2"), num(2))) })},
	distsys.MPCalProc{Name: "N3", Label: "N3.n3", StateVars: []string{"N3.a3", "N3.b3", "N3.c3", "N3.l3"},
		PreAmble: preamble(func(s sx) { s.wr("N3.l3", dflt) })},
	distsys.MPCalProc{Name: "N4", Label: "N4.n4", StateVars: []string{"N4.a4", "N4.b4", "N4.l4"},
		PreAmble: preamble(func(s sx) { s.wr("N4.l4", minus(s.rd("N4.b4"), s.rd("N4.a4"))) })},
	distsys.MPCalProc{Name: "Inc", Label: "Inc.i1", StateVars: []string{"Inc.r", "Inc.d"},
		PreAmble: preamble(func(s sx) {})},
	distsys.MPCalProc{Name: "Both", Label: "Both.r1", StateVars: []string{"Both.rp", "Both.rq", "Both.bn", "Both.bt"},
		PreAmble: preamble(func(s sx) { s.wr("Both.bt", plus(times(s.rd("Both.bn"), num(2)), num(1))) })},
	distsys.MPCalProc{Name: "Both2", Label: "Both2.q1", StateVars: []string{"Both2.sp", "Both2.sq"},
		PreAmble: preamble(func(s sx) {})},
	distsys.MPCalProc{Name: "Node", Label: "Node.t1", StateVars: []string{"Node.tr", "Node.id", "Node.i", "Node.loc"},
		PreAmble: preamble(func(s sx) {
			s.wr("Node.i", num(1))
			s.wr("Node.loc", plus(times(s.rd("Node.id"), num(7)), s.rd("Node.tr")))
		})},
	distsys.MPCalProc{Name: "Lend", Label: "Lend.d1", StateVars: []string{"Lend.dn", "Lend.dw", "Lend.dt", "Lend.da"},
		PreAmble: preamble(func(s sx) { s.wr("Lend.da", times(s.rd("Lend.dn"), num(10))) })},
	distsys.MPCalProc{Name: "Borrow", Label: "Borrow.w1", StateVars: []string{"Borrow.wx", "Borrow.wy", "Borrow.wm", "Borrow.wt"},
		PreAmble: preamble(func(s sx) {})},
)

var procsJumpTable = distsys.MakeMPCalJumpTable(
	// ------------------------------------------------------------------ fact
	section("Fact.f1", func(s sx) error {
		if eq(s.rd("Fact.n"), num(0)) {
			return s.iface.Return()
		}
		s.wr("Fact.fj", times(s.rd("Fact.n"), num(2)))
		return s.iface.Goto("Fact.f2")
	}),
	section("Fact.f2", func(s sx) error {
		return s.iface.Call("Fact", "Fact.f3", minus(s.rd("Fact.n"), num(1)))
	}),
	section("Fact.f3", func(s sx) error {
		n, fj, fk := s.rd("Fact.n"), s.rd("Fact.fj"), s.rd("Fact.fk")
		s.wr("&Main.res", plus(plus(times(s.rd("&Main.res"), n), minus(fj, times(num(2), n))), minus(minus(fk, n), num(100))))
		s.appendOut(s.rd("Fact.n"), s.rd("Fact.fj"), s.rd("Fact.fk"))
		return s.iface.Return()
	}),
	errorSection("Fact"),
	// ------------------------------------------------------------------ evenodd
	section("Even.e1", func(s sx) error {
		if eq(s.rd("Even.ex"), num(0)) {
			s.wr("&Main.res", num(1))
			return s.iface.Return()
		}
		return s.iface.Call("Odd", "Even.e2", minus(s.rd("Even.ex"), num(1)))
	}),
	section("Even.e2", func(s sx) error {
		s.appendOut(str("even"), s.rd("Even.ex"), s.rd("Even.el"))
		return s.iface.Return()
	}),
	errorSection("Even"),
	section("Odd.o1", func(s sx) error {
		if eq(s.rd("Odd.ox"), num(0)) {
			s.wr("&Main.res", num(0))
			return s.iface.Return()
		}
		return s.iface.Call("Even", "Odd.o2", minus(s.rd("Odd.ox"), num(1)))
	}),
	section("Odd.o2", func(s sx) error {
		s.appendOut(str("odd"), s.rd("Odd.ox"), s.rd("Odd.ol"))
		return s.iface.Return()
	}),
	errorSection("Odd"),
	// ------------------------------------------------------------------ sum
	section("Sum.s1", func(s sx) error {
		if eq(s.rd("Sum.m"), num(0)) {
			s.wr("&Main.res", s.rd("Sum.acc"))
			s.wr("&Main.out", tla.ModuleAppend(s.rd("&Main.out"), s.rd("Sum.sl")))
			return s.iface.Return()
		}
		s.wr("&Main.out", tla.ModuleAppend(s.rd("&Main.out"), s.rd("Sum.sl")))
		return s.iface.TailCall("Sum", minus(s.rd("Sum.m"), num(1)), plus(s.rd("Sum.acc"), s.rd("Sum.m")))
	}),
	errorSection("Sum"),
	// ------------------------------------------------------------------ tail
	section("Outer.u1", func(s sx) error {
		return s.iface.Call("A", "Outer.u2", plus(s.rd("Outer.oa"), num(1)))
	}),
	section("Outer.u2", func(s sx) error {
		s.wr("&Main.res", plus(plus(s.rd("&Main.res"), times(s.rd("Outer.ov"), num(100))), s.rd("Outer.oa")))
		return s.iface.Call("A", "Outer.u3", s.rd("Outer.ov"))
	}),
	section("Outer.u3", func(s sx) error {
		s.wr("&Main.res", plus(plus(s.rd("&Main.res"), times(s.rd("Outer.ov"), num(1000))), s.rd("Outer.oa")))
		return s.iface.Return()
	}),
	errorSection("Outer"),
	section("A.ta1", func(s sx) error {
		s.wr("A.t", plus(s.rd("A.t"), s.rd("A.x")))
		return s.iface.Goto("A.ta2")
	}),
	section("A.ta2", func(s sx) error {
		return s.iface.TailCall("B", s.rd("A.t"), s.rd("A.x"))
	}),
	errorSection("A"),
	section("B.b1", func(s sx) error {
		s.wr("&Main.res", plus(plus(times(s.rd("&Main.res"), num(2)), times(s.rd("B.p"), num(10))), s.rd("B.q")))
		return s.iface.Return()
	}),
	errorSection("B"),
	// ------------------------------------------------------------------ nest
	section("N1.n1", func(s sx) error {
		return s.iface.Call("N2", "N1.n1r", plus(s.rd("N1.l1"), num(1)), s.rd("N1.a1"))
	}),
	section("N1.n1r", func(s sx) error {
		s.appendOut(num(1), s.rd("N1.a1"), s.rd("N1.l1"))
		return s.iface.Return()
	}),
	errorSection("N1"),
	section("N2.n2", func(s sx) error {
		return s.iface.Call("N3", "N2.n2r", s.rd("N2.b2"), s.rd("N2.l2"), s.rd("N2.a2"))
	}),
	section("N2.n2r", func(s sx) error {
		s.appendOut(num(2), s.rd("N2.a2"), s.rd("N2.b2"), s.rd("N2.l2"))
		return s.iface.Return()
	}),
	errorSection("N2"),
	section("N3.n3", func(s sx) error {
		s.wr("N3.l3", plus(plus(s.rd("N3.a3"), s.rd("N3.b3")), s.rd("N3.c3")))
		return s.iface.Goto("N3.n3c")
	}),
	section("N3.n3c", func(s sx) error {
		return s.iface.Call("N4", "N3.n3r", s.rd("N3.c3"), s.rd("N3.a3"))
	}),
	section("N3.n3r", func(s sx) error {
		s.appendOut(num(3), s.rd("N3.a3"), s.rd("N3.b3"), s.rd("N3.c3"), s.rd("N3.l3"))
		if gt(s.rd("N3.a3"), num(0)) {
			return s.iface.Call("N1", "N3.n3s", minus(s.rd("N3.a3"), num(1)))
		}
		return s.iface.Return()
	}),
	section("N3.n3s", func(s sx) error {
		s.appendOut(num(33), s.rd("N3.a3"), s.rd("N3.b3"), s.rd("N3.c3"), s.rd("N3.l3"))
		return s.iface.Return()
	}),
	errorSection("N3"),
	section("N4.n4", func(s sx) error {
		s.appendOut(num(4), s.rd("N4.a4"), s.rd("N4.b4"), s.rd("N4.l4"))
		return s.iface.Return()
	}),
	errorSection("N4"),
	// ------------------------------------------------------------------ ref
	section("Inc.i1", func(s sx) error {
		s.wrRef("Inc.r", plus(s.rdRef("Inc.r"), s.rd("Inc.d")))
		return s.iface.Return()
	}),
	errorSection("Inc"),
	section("Both.r1", func(s sx) error {
		return s.iface.Call("Inc", "Both.r2", s.ptr("Both.rp"), s.rd("Both.bn"))
	}),
	section("Both.r2", func(s sx) error {
		return s.iface.Call("Inc", "Both.r3", s.ptr("Both.rq"), s.rd("Both.bt"))
	}),
	section("Both.r3", func(s sx) error {
		if gt(s.rd("Both.bn"), num(0)) {
			return s.iface.Call("Both", "Both.r4", s.ptr("Both.rq"), s.ptr("Both.rp"), minus(s.rd("Both.bn"), num(1)))
		}
		return s.iface.Call("Both2", "Both.r4", s.ptr("Both.rp"), s.ptr("Both.rp"))
	}),
	section("Both.r4", func(s sx) error {
		s.wrRef("Both.rp", plus(times(s.rdRef("Both.rp"), num(2)), s.rd("Both.bt")))
		s.appendOut(s.rd("Both.bn"), s.rd("Both.bt"), s.rdRef("Both.rp"), s.rdRef("Both.rq"))
		return s.iface.Return()
	}),
	errorSection("Both"),
	section("Both2.q1", func(s sx) error {
		return s.iface.Call("Inc", "Both2.q2", s.ptr("Both2.sp"), num(100))
	}),
	section("Both2.q2", func(s sx) error {
		return s.iface.TailCall("Inc", s.ptr("Both2.sq"), num(1000))
	}),
	errorSection("Both2"),
	// ------------------------------------------------------------------ tree
	section("Node.t1", func(s sx) error {
		kids := s.iface.GetConstant("Kids")(s.rd("Node.tr"), s.rd("Node.id"))
		i := s.rd("Node.i")
		if gt(i, tla.ModuleLen(kids)) {
			s.appendOut(s.rd("Node.id"), s.rd("Node.loc"), s.rd("Node.i"))
			return s.iface.Return()
		}
		if eq(i, tla.ModuleLen(kids)) && s.iface.GetConstant("TailOf")(s.rd("Node.tr"), s.rd("Node.id")).AsBool() {
			s.appendOut(s.rd("Node.id"), s.rd("Node.loc"), tla.ModuleNegationSymbol(s.rd("Node.i")))
			return s.iface.TailCall("Node", s.rd("Node.tr"), kids.ApplyFunction(i))
		}
		return s.iface.Call("Node", "Node.t2", s.rd("Node.tr"), kids.ApplyFunction(i))
	}),
	section("Node.t2", func(s sx) error {
		s.wr("Node.i", plus(s.rd("Node.i"), num(1)))
		return s.iface.Goto("Node.t1")
	}),
	errorSection("Node"),
	// ------------------------------------------------------------------ lend, lendt
	// Lend lends its own local da and its own parameter dw by reference; Borrow reads and writes
	// them through its ref parameters wx, wy and re-enters Lend (call / tail call).
	section("Lend.d1", func(s sx) error {
		if eq(s.rd("Lend.dn"), num(0)) {
			s.appendOut(num(0), s.rd("Lend.dw"), s.rd("Lend.da"))
			return s.iface.Return()
		}
		if eq(tla.ModulePercentSymbol(s.rd("Lend.dn"), num(2)), num(1)) {
			return s.iface.Call("Borrow", "Lend.d2", str("Lend.da"), str("Lend.dw"), s.rd("Lend.dn"), s.rd("Lend.dt"))
		}
		return s.iface.Call("Borrow", "Lend.d2", str("Lend.dw"), str("Lend.da"), s.rd("Lend.dn"), s.rd("Lend.dt"))
	}),
	section("Lend.d2", func(s sx) error {
		s.appendOut(s.rd("Lend.dn"), s.rd("Lend.dw"), s.rd("Lend.da"))
		return s.iface.Return()
	}),
	errorSection("Lend"),
	section("Borrow.w1", func(s sx) error {
		s.wrRef("Borrow.wx", plus(s.rdRef("Borrow.wx"), s.rd("Borrow.wm")))
		return s.iface.Goto("Borrow.w2")
	}),
	section("Borrow.w2", func(s sx) error {
		s.wrRef("Borrow.wy", plus(times(s.rdRef("Borrow.wy"), num(2)), s.rdRef("Borrow.wx")))
		return s.iface.Goto("Borrow.w3")
	}),
	section("Borrow.w3", func(s sx) error {
		if s.rd("Borrow.wt").AsBool() {
			return s.iface.TailCall("Lend", minus(s.rd("Borrow.wm"), num(1)), plus(s.rdRef("Borrow.wy"), num(1)), s.rd("Borrow.wt"))
		}
		return s.iface.Call("Lend", "Borrow.w4", minus(s.rd("Borrow.wm"), num(1)), plus(s.rdRef("Borrow.wy"), num(1)), s.rd("Borrow.wt"))
	}),
	section("Borrow.w4", func(s sx) error {
		s.appendOut(tla.ModuleNegationSymbol(s.rd("Borrow.wm")), s.rdRef("Borrow.wx"), s.rdRef("Borrow.wy"))
		return s.iface.Return()
	}),
	errorSection("Borrow"),
	// ------------------------------------------------------------------ main
	section("Main.m0", func(s sx) error {
		prog, arg := s.rd("Main.prog").AsString(), s.rd("Main.arg")
		switch prog {
		case "fact":
			return s.iface.Call("Fact", "Main.m1", arg)
		case "evenodd":
			return s.iface.Call("Even", "Main.m1", arg)
		case "sum":
			return s.iface.Call("Sum", "Main.m1", arg, num(0))
		case "tail":
			return s.iface.Call("Outer", "Main.m1", arg)
		case "nest":
			return s.iface.Call("N1", "Main.m1", arg)
		case "ref":
			return s.iface.Call("Both", "Main.m1", str("&Main.g1"), str("&Main.g2"), arg)
		case "lend":
			return s.iface.Call("Lend", "Main.m1", arg, num(7), tla.ModuleFALSE)
		case "lendt":
			return s.iface.Call("Lend", "Main.m1", arg, num(7), tla.ModuleTRUE)
		default:
			return s.iface.Call("Node", "Main.m1", arg, num(1))
		}
	}),
	section("Main.m1", func(s sx) error {
		s.wr("&Main.res", plus(s.rd("&Main.res"), num(1)))
		return s.iface.Goto("Main.Done")
	}),
	distsys.MPCalCriticalSection{Name: "Main.Done", Body: func(distsys.ArchetypeInterface) error { return distsys.ErrDone }},
)

var mainArchetype = distsys.MPCalArchetype{
	Name:              "Main",
	Label:             "Main.m0",
	RequiredRefParams: []string{"Main.res", "Main.out", "Main.g1", "Main.g2"},
	RequiredValParams: []string{"Main.prog", "Main.arg"},
	JumpTable:         procsJumpTable,
	ProcTable:         procsProcTable,
	PreAmble:          func(distsys.ArchetypeInterface) {},
}
