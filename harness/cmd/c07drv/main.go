// c07drv: binds spec/C07 (TxnSer.tla, LocalShared.tla) to the real shared-variable manager
// distsys/resources/localshared.go.
//
// A case builds NA hand-made archetypes (shaped like PGo output: RequireArchetypeResourceRef,
// iface.Read / iface.Write with index lists, Goto) that share LocalSharedManager variables the
// way systems/raftkvs/bootstrap/server.go does: plain MakeLocalShared(), wrapped in
// resources.MakePersistent, reached through Index (function-valued variable), reached through
// the bootstrap's toMap (an IncMap that returns the shared resource for the archetype's own
// index). Every archetype runs under the REAL MPCalContext.Run.
//
// mode "gated": the steps of a walk of TLC's state graph of LocalShared.tla (S->I) are forced
//   exactly: a gate in BeginCriticalSection parks every archetype between attempts, and the
//   section body performs one access per command of the driver, so opposite acquisition orders,
//   a reader between a writer's two writes, a commit handing the lock to a waiter, a waiter
//   timing out while the holder sits in its section ... happen in the order TLC chose. The walk
//   gives INTENTS only; whether the driver waits for an access to return is decided from what the
//   code did so far (who was observed to obtain which variable), and outcomes are recorded when
//   and as they happen, so the recording is truthful whatever the code does.
// mode "stress": the archetypes run freely (random sections, unique written values or
//   bank transfers, random voluntary aborts, random pauses inside sections).
//
// Every case ends with an epilogue in which, one sharer at a time and with all others parked
// between sections, a probe section reads every cell (up to K attempts), followed by GetState()
// of every manager through an extra sharer.
//
// Output (ndjson): -hist  committed sections / observations with stamps from one atomic
//                         counter (judged by TLC with TxnSer.tla: the verdicts);
//                  -trace gated cases as event sequences (conformance to LocalShared.tla);
//                  -ev    hang / panic / drift / setup events.
// The driver judges nothing.
package main

import (
	"bufio"
	"bytes"
	"encoding/gob"
	"encoding/json"
	"errors"
	"flag"
	"fmt"
	"math/rand"
	"os"
	"reflect"
	"sort"
	"sync"
	"sync/atomic"
	"time"

	"github.com/DistCompiler/pgo/distsys"
	"github.com/DistCompiler/pgo/distsys/resources"
	"github.com/DistCompiler/pgo/distsys/tla"
	"github.com/DistCompiler/pgo/distsys/trace"
	"github.com/dgraph-io/badger/v3"
)

// ---------------------------------------------------------------- case format

type Step struct {
	T   string `json:"t"` // begin | acc | block | grant | timeout | end | die | obs | obsa
	A   int    `json:"a"`
	K   string `json:"k"`
	C   int    `json:"c"`
	V   int    `json:"v"`
	How string `json:"how"`
	M   int    `json:"m"`
}

type Stress struct {
	Commits  int   `json:"commits"`   // committed sections per sharer
	MaxAtt   int   `json:"max_att"`   // attempts per sharer
	MaxOps   int   `json:"max_ops"`   // accesses per section (unique mode)
	AbortPct int   `json:"abort_pct"` // voluntary aborts
	HoldPct  int   `json:"hold_pct"`  // probability of a pause between two accesses
	HoldUs   int   `json:"hold_us"`   // maximal pause
	Seed     int64 `json:"seed"`
	Bank     bool  `json:"bank"`
	DiePct   int   `json:"die_pct"` // a section that has written ends in a fatal error (the archetype is gone)
	MaxDie   int   `json:"max_die"` // at most this many sharers of the case die (default 1)
}

type Case struct {
	ID        string   `json:"id"`
	Mode      string   `json:"mode"`
	Fam       string   `json:"fam"`
	NA        int      `json:"na"`
	LockOf    []int    `json:"lockof"` // manager (1-based) of cell c (1-based position)
	Kinds     []string `json:"kinds"`  // per manager: plain | pers | fn | persfn | map | mapfn | mappers
	Init      []int    `json:"init"`   // per cell
	TimeoutMs int      `json:"timeout_ms"`
	Steps     []Step   `json:"steps"`
	Stress    *Stress  `json:"stress"`
	Probes    int      `json:"probes"` // K
	Bank      bool     `json:"bank"`   // gated: every section keeps the sum of the cells (SumPreserved is judged)
}

type rec map[string]interface{}


// ---------------------------------------------------------------- values

func toInt(v tla.Value) (out int) {
	defer func() {
		if recover() != nil {
			out = -9
		}
	}()
	v = v.StripVClock()
	if v.IsNumber() {
		return int(v.AsNumber())
	}
	return -5
}

func tupleInts(v tla.Value) (out []int) {
	defer func() {
		if recover() != nil {
			out = []int{-9}
		}
	}()
	v = v.StripVClock()
	if v.IsNumber() {
		return []int{int(v.AsNumber())}
	}
	if v.IsTuple() {
		out = []int{}
		it := v.AsTuple().Iterator()
		for !it.Done() {
			_, e := it.Next()
			out = append(out, toInt(e))
		}
		return out
	}
	return []int{-5}
}

// ---------------------------------------------------------------- managers

type manager struct {
	id    int
	kind  string
	cells []int // cells guarded by this manager, increasing; cell cells[i] is index i+1 of a function value
	mgr    *resources.LocalSharedManager
	watch  resources.Persistable
	watch2 resources.Persistable // for observations made while a section holds the variable
}

func (m *manager) isFn() bool  { return m.kind == "fn" || m.kind == "persfn" || m.kind == "mapfn" }
func (m *manager) isMap() bool { return m.kind == "map" || m.kind == "mapfn" || m.kind == "mappers" }
func (m *manager) isPers() bool {
	return m.kind == "pers" || m.kind == "persfn" || m.kind == "mappers"
}

// lockLen reads len(lockCh) of the manager by reflection (M-level projection only); -1 if the
// field is not there any more.
func (m *manager) lockLen() (n int) {
	defer func() {
		if recover() != nil {
			n = -1
		}
	}()
	f := reflect.ValueOf(m.mgr).Elem().FieldByName("lockCh")
	if !f.IsValid() || f.Kind() != reflect.Chan {
		return -1
	}
	return f.Len()
}

var (
	dbOnce sync.Once
	db     *badger.DB
)

func getDB() *badger.DB {
	dbOnce.Do(func() {
		opts := badger.DefaultOptions("").WithInMemory(true).WithLogger(nil).
			WithMemTableSize(1 << 20).WithNumMemtables(2).WithBlockCacheSize(1 << 20).WithIndexCacheSize(0).
			WithNumCompactors(2).WithValueThreshold(1 << 10).WithValueLogFileSize(1 << 20)
		d, err := badger.Open(opts)
		if err != nil {
			panic(err)
		}
		db = d
	})
	return db
}

// toMap is the wrapper of systems/raftkvs/bootstrap/server.go.
func toMap(self tla.Value, res distsys.ArchetypeResource) distsys.ArchetypeResource {
	return resources.NewIncMap(func(index tla.Value) distsys.ArchetypeResource {
		if index.Equal(self) {
			return res
		}
		panic("wrong index")
	})
}

// ---------------------------------------------------------------- sharers

type command struct {
	t string // op | commit | abort | die
	k string
	c int
	v int
}

type result struct {
	a     int
	res   string // ok | timeout | error
	v     int
	msg   string
	stamp int64
}

type arrival struct {
	out string // "" (first arrival) | commit | abort
	end int64
}

type opRec struct {
	K string `json:"k"`
	C int    `json:"c"`
	V int    `json:"v"`
}

type sharer struct {
	cr   *caseRun
	id   int
	self tla.Value
	ctx  *distsys.MPCalContext

	cmd    chan command
	res    chan result
	arrive chan arrival
	goCh   chan struct{}
	exited chan interface{}

	// written by the archetype's goroutine; read by the driver only while the goroutine is
	// parked (channel operations order the accesses)
	mode     string // cmd | stress | probe | finish
	ops      []opRec
	lastOut  string
	lastEnd  int64
	start    int64
	attempts int
	commits  int
	nwrites  int
	rng      *rand.Rand
	probeRes string // outcome detail of the last probe attempt
	probeCells []int // cells the probe section reads

	// a sharer that died: its body returned a fatal error inside a section (on purpose), Run
	// returned it without Commit/Abort and closed the resources. Written by the archetype's
	// goroutine before it returns the error, read by the driver after `exited` fired.
	died     bool
	deadHeld []int   // managers the dying section had accessed
	deadW    []opRec // what it had written
	free     bool   // stress: the gate lets the sharer through until its quota is reached

	// driver's view
	state string // idle | open | wait | dead
	pend  command
}

type gate struct{ s *sharer }

func (g gate) BeginCriticalSection(pc string) {
	s := g.s
	if pc != "A.sec" {
		return
	}
	if s.free {
		st := s.cr.c.Stress
		if s.commits < st.Commits && s.attempts < st.MaxAtt {
			s.start = s.cr.stamp()
			return
		}
		s.free = false
	}
	s.arrive <- arrival{out: s.lastOut, end: s.lastEnd}
	<-s.goCh
}

func (g gate) NextFairnessCounter(id string, ceiling uint) uint { return 0 }

type recorder struct{ s *sharer }

func (r recorder) RecordEvent(ev trace.Event) {
	s := r.s
	s.lastEnd = s.cr.stamp()
	if ev.IsAbort {
		s.lastOut = "abort"
	} else {
		s.lastOut = "commit"
	}
	if s.mode == "stress" {
		s.attempts++
		if !ev.IsAbort {
			s.commits++
			s.cr.addTxn(s.id, s.start, s.lastEnd, s.ops)
		}
	}
}

func (s *sharer) access(iface distsys.ArchetypeInterface, k string, c int, v int) (int, error) {
	cr := s.cr
	m := cr.mgrs[cr.c.LockOf[c-1]-1]
	h, err := iface.RequireArchetypeResourceRef(fmt.Sprintf("A.m%d", m.id))
	if err != nil {
		return 0, err
	}
	var idx []tla.Value
	if m.isMap() {
		idx = append(idx, s.self)
	}
	if m.isFn() {
		pos := 0
		for i, cc := range m.cells {
			if cc == c {
				pos = i + 1
			}
		}
		idx = append(idx, tla.MakeNumber(int32(pos)))
	}
	if k == "r" {
		val, err := iface.Read(h, idx)
		if err != nil {
			return 0, err
		}
		return toInt(val), nil
	}
	return v, iface.Write(h, idx, tla.MakeNumber(int32(v)))
}

func (s *sharer) body(iface distsys.ArchetypeInterface) error {
	s.ops = nil
	switch s.mode {
	case "finish":
		return iface.Goto("A.Done")
	case "probe":
		s.probeRes = ""
		for _, c := range s.probeCells {
			v, err := s.access(iface, "r", c, 0)
			if err != nil {
				if errors.Is(err, distsys.ErrCriticalSectionAborted) {
					s.probeRes = "timeout"
				} else {
					s.probeRes = "error: " + err.Error()
				}
				return err
			}
			s.ops = append(s.ops, opRec{"r", c, v})
		}
		return iface.Goto("A.sec")
	case "stress":
		return s.stressBody(iface)
	}
	for {
		cmd := <-s.cmd
		switch cmd.t {
		case "op":
			v, err := s.access(iface, cmd.k, cmd.c, cmd.v)
			st := s.cr.stamp()
			if err != nil {
				if errors.Is(err, distsys.ErrCriticalSectionAborted) {
					s.res <- result{a: s.id, res: "timeout", stamp: st}
				} else {
					s.res <- result{a: s.id, res: "error", msg: err.Error(), stamp: st}
				}
				return err
			}
			s.ops = append(s.ops, opRec{cmd.k, cmd.c, v})
			s.res <- result{a: s.id, res: "ok", v: v, stamp: st}
		case "commit":
			return iface.Goto("A.sec")
		case "abort":
			return distsys.ErrCriticalSectionAborted
		case "die":
			return s.die()
		}
	}
}

// die ends the section the way a failed MPCal assertion does: the body returns an error that is
// not ErrCriticalSectionAborted; MPCalContext.Run returns it (no Commit, no Abort) and closes
// the archetype's resources.
func (s *sharer) die() error {
	s.died = true
	seen := map[int]bool{}
	for _, o := range s.ops {
		m := s.cr.mgrOf(o.C)
		if !seen[m] {
			seen[m] = true
			s.deadHeld = append(s.deadHeld, m)
		}
		if o.K == "w" {
			s.deadW = append(s.deadW, o)
		}
	}
	return fmt.Errorf("c07drv: sharer %d dies inside its section: %w", s.id, distsys.ErrAssertionFailed)
}

func (s *sharer) wrote() bool {
	for _, o := range s.ops {
		if o.K == "w" {
			return true
		}
	}
	return false
}

// mayDie: stress mode, decided after a write; at most MaxDie sharers of a case die.
func (s *sharer) mayDie() bool {
	st := s.cr.c.Stress
	if st.DiePct <= 0 || !s.wrote() || s.rng.Intn(100) >= st.DiePct {
		return false
	}
	max := st.MaxDie
	if max <= 0 {
		max = 1
	}
	if int(s.cr.deaths.Add(1)) > max {
		return false
	}
	return true
}

func (s *sharer) stressBody(iface distsys.ArchetypeInterface) error {
	st := s.cr.c.Stress
	nc := len(s.cr.c.LockOf)
	pause := func() {
		if st.HoldPct > 0 && s.rng.Intn(100) < st.HoldPct {
			time.Sleep(time.Duration(s.rng.Intn(st.HoldUs+1)) * time.Microsecond)
		}
	}
	do := func(k string, c, v int) (int, error) {
		got, err := s.access(iface, k, c, v)
		if err == nil {
			s.ops = append(s.ops, opRec{k, c, got})
		}
		return got, err
	}
	if st.Bank {
		if s.rng.Intn(100) < 30 || nc < 2 { // audit: read every cell, random order
			for _, i := range s.rng.Perm(nc) {
				if _, err := do("r", i+1, 0); err != nil {
					return err
				}
				pause()
			}
		} else { // transfer
			p := s.rng.Perm(nc)
			c1, c2 := p[0]+1, p[1]+1
			d := 1 + s.rng.Intn(3)
			v1, err := do("r", c1, 0)
			if err != nil {
				return err
			}
			pause()
			v2, err := do("r", c2, 0)
			if err != nil {
				return err
			}
			pause()
			if _, err = do("w", c1, v1-d); err != nil {
				return err
			}
			pause()
			if s.rng.Intn(2) == 0 && s.mayDie() { // the amount has left c1 and not reached c2
				return s.die()
			}
			if _, err = do("w", c2, v2+d); err != nil {
				return err
			}
		}
	} else {
		n := 1 + s.rng.Intn(st.MaxOps)
		for i := 0; i < n; i++ {
			c := 1 + s.rng.Intn(nc)
			k := "r"
			v := 0
			if s.rng.Intn(2) == 0 {
				k = "w"
				s.nwrites++
				v = s.id*1000000 + s.nwrites
			}
			if _, err := do(k, c, v); err != nil {
				return err
			}
			pause()
		}
	}
	if s.mayDie() {
		pause()
		return s.die()
	}
	if s.rng.Intn(100) < st.AbortPct {
		return distsys.ErrCriticalSectionAborted
	}
	return iface.Goto("A.sec")
}

// ---------------------------------------------------------------- one case

type caseRun struct {
	clk     atomic.Int64 // the one counter all stamps of the case come from
	c       Case
	mgrs    []*manager
	sh      []*sharer // index a-1
	holder  []int     // driver's mirror: sharer observed to hold manager m (index m-1), 0 = nobody
	timeout time.Duration
	wd      time.Duration // hang watchdog

	asyncObs sync.WaitGroup
	nAsync   atomic.Int32 // GetState() calls in flight (they hold a lock for an instant: no lc sampling then)
	asyncOn  []*asyncSlot // per manager: the observation that is queued (guarded by mu)
	deaths   atomic.Int32 // stress: sharers that decided to die
	deadw    []opRec      // writes of the sections that ended in a fatal error

	mu    sync.Mutex
	items []rec // P-level items of the case
	tr    []rec // M-level events
	ev    []rec // hang / panic / drift / setup
	hung  bool
	drift int
	built bool
}

// asyncSlot: a GetState() queued behind a section. orphan: the section's sharer died, the call
// is not waited for any more (on the pinned tree it never returns).
type asyncSlot struct{ orphan bool }

func (cr *caseRun) stamp() int64 { return cr.clk.Add(1) }

// deadHeld: manager m (1-based) was last obtained by a sharer that then died inside its section.
func (cr *caseRun) deadHeld(m int) bool {
	h := cr.holder[m-1]
	return h > 0 && cr.sh[h-1].died
}

func (cr *caseRun) addTxn(a int, s, t int64, ops []opRec) {
	o := make([]opRec, len(ops))
	copy(o, ops)
	cr.mu.Lock()
	cr.items = append(cr.items, rec{"e": "txn", "a": a, "s": s, "t": t, "ops": o})
	cr.mu.Unlock()
}

func (cr *caseRun) event(r rec) {
	r["case"] = cr.c.ID
	cr.mu.Lock()
	cr.ev = append(cr.ev, r)
	cr.mu.Unlock()
}

func (cr *caseRun) driftEv(what string, st Step) {
	cr.drift++
	cr.event(rec{"e": "deviation", "what": what, "step": st})
}

// lc samples the occupancy of every manager's lock; only meaningful (and only emitted) while no
// access is pending.
func (cr *caseRun) lc() []int {
	for _, s := range cr.sh {
		if s.state == "wait" {
			return []int{}
		}
	}
	if cr.nAsync.Load() != 0 {
		return []int{}
	}
	out := make([]int, len(cr.mgrs))
	for i, m := range cr.mgrs {
		n := m.lockLen()
		if n < 0 {
			return []int{}
		}
		out[i] = n
	}
	return out
}

func (cr *caseRun) temit(r rec) {
	if cr.c.Mode == "gated" {
		cr.tr = append(cr.tr, r)
	}
}

func (cr *caseRun) build() {
	c := cr.c
	nm := 0
	for _, m := range c.LockOf {
		if m > nm {
			nm = m
		}
	}
	cr.holder = make([]int, nm)
	cr.asyncOn = make([]*asyncSlot, nm)
	for m := 1; m <= nm; m++ {
		mg := &manager{id: m, kind: c.Kinds[m-1]}
		for ci, mm := range c.LockOf {
			if mm == m {
				mg.cells = append(mg.cells, ci+1)
			}
		}
		var init tla.Value
		if mg.isFn() {
			vs := []tla.Value{}
			for _, cc := range mg.cells {
				vs = append(vs, tla.MakeNumber(int32(c.Init[cc-1])))
			}
			for len(vs) < 2 {
				vs = append(vs, tla.MakeNumber(-77)) // an element nobody touches
			}
			init = tla.MakeTuple(vs...)
		} else {
			if len(mg.cells) != 1 {
				panic(fmt.Sprintf("manager %d of kind %s must guard exactly one cell", m, mg.kind))
			}
			init = tla.MakeNumber(int32(c.Init[mg.cells[0]-1]))
		}
		if c.TimeoutMs > 0 {
			mg.mgr = resources.NewLocalSharedManager(init, resources.WithLocalSharedResourceTimeout(time.Duration(c.TimeoutMs)*time.Millisecond))
		} else {
			mg.mgr = resources.NewLocalSharedManager(init) // the default (50 ms)
		}
		mg.watch = mg.mgr.MakeLocalShared()
		mg.watch2 = mg.mgr.MakeLocalShared()
		cr.mgrs = append(cr.mgrs, mg)
	}
	arch := func(s *sharer) distsys.MPCalArchetype {
		a := distsys.MPCalArchetype{
			Name:  "A",
			Label: "A.sec",
			JumpTable: distsys.MakeMPCalJumpTable(
				distsys.MPCalCriticalSection{Name: "A.sec", Body: s.body},
				distsys.MPCalCriticalSection{Name: "A.Done", Body: func(distsys.ArchetypeInterface) error { return distsys.ErrDone }},
			),
			ProcTable: distsys.MakeMPCalProcTable(),
			PreAmble:  func(distsys.ArchetypeInterface) {},
		}
		for _, m := range cr.mgrs {
			a.RequiredRefParams = append(a.RequiredRefParams, fmt.Sprintf("A.m%d", m.id))
		}
		return a
	}
	for a := 1; a <= c.NA; a++ {
		s := &sharer{cr: cr, id: a, self: tla.MakeNumber(int32(a)), cmd: make(chan command, 1), res: make(chan result, 4),
			arrive: make(chan arrival, 1), goCh: make(chan struct{}, 1), exited: make(chan interface{}, 1), mode: "cmd", state: "idle"}
		if c.Mode == "stress" {
			s.mode, s.free = "stress", true
			s.rng = rand.New(rand.NewSource(c.Stress.Seed*131 + int64(a)))
		}
		cfg := []distsys.MPCalContextConfigFn{distsys.SetFairnessCounter(gate{s}), distsys.SetTraceRecorder(recorder{s})}
		for _, m := range cr.mgrs {
			var r distsys.ArchetypeResource
			sh := m.mgr.MakeLocalShared()
			r = sh
			if m.isPers() {
				r = resources.MakePersistent(fmt.Sprintf("%s.a%d.m%d", c.ID, a, m.id), getDB(), sh)
			}
			if m.isMap() {
				r = toMap(s.self, r)
			}
			cfg = append(cfg, distsys.EnsureArchetypeRefParam(fmt.Sprintf("m%d", m.id), r))
		}
		s.ctx = distsys.NewMPCalContext(s.self, arch(s), cfg...)
		cr.sh = append(cr.sh, s)
	}
}

func (cr *caseRun) start() {
	for _, s := range cr.sh {
		s := s
		go func() {
			defer func() {
				if p := recover(); p != nil {
					s.exited <- fmt.Sprint(p)
				}
			}()
			err := s.ctx.Run()
			if err != nil {
				s.exited <- "Run returned: " + err.Error()
			} else {
				s.exited <- nil
			}
		}()
	}
}

// confirm is called when a watchdog expired: a hang is reported only if five further timers of
// the lock timeout's own length, created one after the other, fire while `got` stays false, and
// the global event counter does not move during that time.
func (cr *caseRun) confirm(got func() bool) bool {
	d := cr.timeout
	if d < 200*time.Millisecond {
		d = 200 * time.Millisecond
	}
	quiet := 0
	for round := 0; round < 100 && quiet < 5; round++ {
		before := cr.clk.Load()
		<-time.After(d)
		if got() {
			return false
		}
		if cr.clk.Load() != before {
			quiet = 0 // something in this case still moves: not a standstill
		} else {
			quiet++
		}
	}
	return quiet >= 5
}

// waitRes waits for sharer a's pending access to return. ok=false: hang (reported).
func (cr *caseRun) waitRes(s *sharer, what string) (result, bool) {
	var r result
	have := false
	died := false
	try := func() bool {
		if have || died {
			return true
		}
		select {
		case r = <-s.res:
			have = true
		case p := <-s.exited:
			died = true
			s.state = "dead"
			cr.event(rec{"e": "panic", "a": s.id, "what": what, "msg": fmt.Sprint(p)})
		default:
		}
		return have || died
	}
	select {
	case r = <-s.res:
		return r, true
	case p := <-s.exited:
		s.state = "dead"
		cr.event(rec{"e": "panic", "a": s.id, "what": what, "msg": fmt.Sprint(p)})
		return r, false
	case <-time.After(cr.wd):
	}
	if !cr.confirm(try) {
		if have {
			return r, true
		}
		if !died {
			cr.event(rec{"e": "watchdog", "a": s.id, "what": what})
			cr.hung = true
		}
		return r, false
	}
	cr.reportHang(s, what)
	return r, false
}

func (cr *caseRun) waitArrive(s *sharer, what string) (arrival, bool) {
	var ar arrival
	have := false
	died := false
	try := func() bool {
		if have || died {
			return true
		}
		select {
		case ar = <-s.arrive:
			have = true
		case p := <-s.exited:
			died = true
			s.state = "dead"
			cr.event(rec{"e": "panic", "a": s.id, "what": what, "msg": fmt.Sprint(p)})
		default:
		}
		return have || died
	}
	select {
	case ar = <-s.arrive:
		return ar, true
	case p := <-s.exited:
		s.state = "dead"
		cr.event(rec{"e": "panic", "a": s.id, "what": what, "msg": fmt.Sprint(p)})
		return ar, false
	case <-time.After(cr.wd):
	}
	if !cr.confirm(try) {
		if have {
			return ar, true
		}
		if !died {
			cr.event(rec{"e": "watchdog", "a": s.id, "what": what})
			cr.hung = true
		}
		return ar, false
	}
	cr.reportHang(s, what)
	return ar, false
}

func (cr *caseRun) reportHang(s *sharer, what string) {
	cr.hung = true
	states := []rec{}
	for _, o := range cr.sh {
		r := rec{"a": o.id, "state": o.state}
		if o.state == "wait" {
			r["pending"] = rec{"k": o.pend.k, "c": o.pend.c}
		}
		states = append(states, r)
	}
	locks := []int{}
	for _, m := range cr.mgrs {
		locks = append(locks, m.lockLen())
	}
	a := 0
	if s != nil {
		a = s.id
		s.state = "dead"
	}
	cr.event(rec{"e": "hang", "a": a, "what": what, "sharers": states, "holder": cr.holder, "lockch": locks,
		"timeout_ms": cr.timeout.Milliseconds(), "waited_ms": cr.wd.Milliseconds(), "mode": cr.c.Mode, "fam": cr.c.Fam,
		"kinds": cr.c.Kinds, "lockof": cr.c.LockOf})
}

// waitersOn: sharers whose pending access needs manager m (1-based).
func (cr *caseRun) waitersOn(m int) int {
	n := 0
	for _, o := range cr.sh {
		if o.state == "wait" && cr.mgrOf(o.pend.c) == m {
			n++
		}
	}
	return n
}

// release updates the driver's mirror when sharer a was seen to end a section: a released
// variable with pending requests goes to one of the requesters at once (-1: "one of them, not
// known yet which"), as the channel does.
func (cr *caseRun) release(a int) {
	for i := range cr.holder {
		if cr.holder[i] == a {
			if cr.waitersOn(i+1) > 0 {
				cr.holder[i] = -1
			} else {
				cr.holder[i] = 0
			}
		}
	}
}

func (cr *caseRun) fixUnknown() {
	for i := range cr.holder {
		if cr.holder[i] == -1 && cr.waitersOn(i+1) == 0 {
			cr.holder[i] = 0
		}
	}
}

func (cr *caseRun) mgrOf(c int) int { return cr.c.LockOf[c-1] }

// resolveUnknown: manager m was released while sharers were waiting for it, and it is not known
// yet whether one of them was handed it (its access then returns at once) or every waiter's
// select had already chosen its timer (they return a refusal at once, the variable is free).
// Before another sharer's access to m is issued the waiters' outcomes are collected, so that
// the driver's view ("held by another sharer" or not) is a fact and not a guess.
func (cr *caseRun) resolveUnknown(s *sharer, m int) {
	for cr.holder[m-1] == -1 && !cr.hung {
		var w *sharer
		for _, o := range cr.sh {
			if o != s && o.state == "wait" && cr.mgrOf(o.pend.c) == m {
				w = o
				break
			}
		}
		if w == nil {
			cr.fixUnknown()
			if cr.holder[m-1] == -1 {
				cr.holder[m-1] = 0
			}
			return
		}
		cr.await(w)
	}
}

// letObserverThrough: a GetState() queued behind a section that has ended takes the free lock
// for an instant; an access issued in that instant would wait for the observer (and, with a
// short timeout on a loaded machine, be refused), which the model of the sharers does not
// describe. Sequencing only, nothing is decided here.
func (cr *caseRun) letObserverThrough(m int) {
	deadline := time.Now().Add(cr.wd)
	for {
		cr.mu.Lock()
		busy := cr.asyncOn[m-1] != nil
		cr.mu.Unlock()
		if !busy || time.Now().After(deadline) {
			return
		}
		time.Sleep(100 * time.Microsecond)
	}
}

// settle records the outcome of sharer s's access r.
func (cr *caseRun) settle(s *sharer, r result, immediate bool) {
	switch r.res {
	case "ok":
		cr.holder[cr.mgrOf(s.pend.c)-1] = s.id
		s.state = "open"
		if immediate {
			cr.temit(rec{"e": "acc", "a": s.id, "k": s.pend.k, "c": s.pend.c, "v": r.v, "lc": cr.lc()})
		} else {
			cr.temit(rec{"e": "grant", "a": s.id, "v": r.v, "lc": cr.lc()})
		}
	case "timeout":
		// the body returned the error; Run aborts the section and comes back to the gate
		ar, ok := cr.waitArrive(s, "abort after a refused access")
		if !ok {
			return
		}
		if immediate {
			cr.temit(rec{"e": "block", "a": s.id, "k": s.pend.k, "c": s.pend.c, "v": s.pend.v})
		}
		s.state = "idle"
		cr.release(s.id)
		cr.fixUnknown()
		_ = ar
		cr.temit(rec{"e": "timeout", "a": s.id, "lc": cr.lc()})
	default:
		s.state = "dead"
		cr.event(rec{"e": "panic", "a": s.id, "what": "access returned an unexpected error", "msg": r.msg})
	}
}

// await waits for s's pending access; results of other pending accesses that are already
// there are settled first, in the order in which the accesses returned.
func (cr *caseRun) await(s *sharer) {
	r, ok := cr.waitRes(s, fmt.Sprintf("access %s cell %d (pending)", s.pend.k, s.pend.c))
	if !ok {
		return
	}
	all := []result{r}
	for _, o := range cr.sh {
		if o != s && o.state == "wait" {
			select {
			case x := <-o.res:
				all = append(all, x)
			default:
			}
		}
	}
	sort.Slice(all, func(i, j int) bool { return all[i].stamp < all[j].stamp })
	for _, x := range all {
		cr.settle(cr.sh[x.a-1], x, false)
	}
}

func (cr *caseRun) doEnd(s *sharer, how string) {
	s.cmd <- command{t: how}
	ar, ok := cr.waitArrive(s, "end of section ("+how+")")
	if !ok {
		return
	}
	s.state = "idle"
	cr.release(s.id)
	if ar.out == "commit" {
		cr.addTxn(s.id, s.start, ar.end, s.ops)
	}
	cr.temit(rec{"e": "end", "a": s.id, "how": ar.out, "lc": cr.lc()})
}

func (cr *caseRun) observe(m *manager) bool {
	type st struct {
		b   []byte
		err error
	}
	ch := make(chan st, 1)
	s0 := cr.stamp()
	go func() {
		b, err := m.watch.GetState()
		ch <- st{b, err}
	}()
	var got st
	have := false
	try := func() bool {
		if have {
			return true
		}
		select {
		case got = <-ch:
			have = true
		default:
		}
		return have
	}
	select {
	case got = <-ch:
		have = true
	case <-time.After(cr.wd):
		if cr.confirm(try) {
			cr.reportHang(nil, fmt.Sprintf("GetState() of manager %d with every sharer between sections", m.id))
			return false
		}
		if !have {
			cr.event(rec{"e": "watchdog", "what": "GetState"})
			cr.hung = true
			return false
		}
	}
	s1 := cr.stamp()
	ops := decodeObs(m, got.b, got.err)
	tv := []int{}
	for _, o := range ops {
		tv = append(tv, o.V)
	}
	cr.addTxn(0, s0, s1, ops)
	cr.temit(rec{"e": "obs", "m": m.id, "vals": tv, "lc": cr.lc()})
	return true
}

// observeAsync calls GetState() of a manager whose variable is held by a section in flight: the
// call must wait for the section to end (and then show committed values only). It completes on
// its own; the item carries the stamps of call and return. P-level only.
func (cr *caseRun) observeAsync(m *manager) {
	sl := &asyncSlot{}
	cr.mu.Lock()
	busy := cr.asyncOn[m.id-1] != nil
	if !busy {
		cr.asyncOn[m.id-1] = sl
	}
	cr.mu.Unlock()
	if busy {
		return
	}
	cr.asyncObs.Add(1)
	cr.nAsync.Add(1)
	h := m.mgr.MakeLocalShared()
	s0 := cr.stamp()
	go func() {
		b, err := h.GetState()
		s1 := cr.stamp()
		cr.mu.Lock()
		orphan := sl.orphan
		if !orphan {
			cr.asyncOn[m.id-1] = nil
		}
		cr.mu.Unlock()
		if !orphan {
			cr.nAsync.Add(-1)
		}
		// whenever it returns it is an observation (after the holder died it returns only if the
		// lock was given up: it must then show committed values)
		cr.addTxn(0, s0, s1, decodeObs(m, b, err))
		if !orphan {
			cr.asyncObs.Done()
		}
	}()
}

// orphanAsync: the sharer holding manager m died; a GetState() queued behind its section is
// not waited for any more.
func (cr *caseRun) orphanAsync(m int) {
	cr.mu.Lock()
	sl := cr.asyncOn[m-1]
	if sl != nil {
		sl.orphan = true
		cr.asyncOn[m-1] = nil
	}
	cr.mu.Unlock()
	if sl != nil {
		cr.nAsync.Add(-1)
		cr.asyncObs.Done()
	}
}

// observeDead calls GetState() of a manager whose variable a dead sharer took with it. On the
// pinned tree the call never returns (documented; not C07's business): it is left behind after
// a short wait and nothing is recorded. If it does return, what it shows is an observation like
// any other. The wait decides nothing.
func (cr *caseRun) observeDead(m *manager) {
	h := m.mgr.MakeLocalShared()
	ch := make(chan struct{})
	s0 := cr.stamp()
	go func() {
		b, err := h.GetState()
		s1 := cr.stamp()
		cr.addTxn(0, s0, s1, decodeObs(m, b, err))
		close(ch)
	}()
	d := 4 * cr.timeout
	if d < 100*time.Millisecond {
		d = 100 * time.Millisecond
	}
	if d > 400*time.Millisecond {
		d = 400 * time.Millisecond
	}
	select {
	case <-ch:
	case <-time.After(d):
	}
}

// noteDeath updates the driver's view after sharer s died on purpose: the variables its section
// had obtained stay with it (mirror: holder keeps s.id), its writes are listed in the header.
func (cr *caseRun) noteDeath(s *sharer) {
	s.state = "dead"
	for _, m := range s.deadHeld {
		cr.holder[m-1] = s.id
		cr.orphanAsync(m)
	}
	if !(cr.c.Stress != nil && cr.c.Stress.Bank) {
		cr.mu.Lock()
		cr.deadw = append(cr.deadw, s.deadW...)
		cr.mu.Unlock()
	}
}

// doDie: the open section of s ends in a fatal error; Run must return it.
func (cr *caseRun) doDie(s *sharer) {
	what := "end of section (die: the body returns a failed assertion)"
	s.cmd <- command{t: "die"}
	var p interface{}
	have := false
	try := func() bool {
		if !have {
			select {
			case p = <-s.exited:
				have = true
			default:
			}
		}
		return have
	}
	select {
	case p = <-s.exited:
		have = true
	case <-time.After(cr.wd):
		if cr.confirm(try) {
			cr.reportHang(s, what)
			return
		}
		if !have {
			cr.event(rec{"e": "watchdog", "a": s.id, "what": what})
			cr.hung = true
			return
		}
	}
	msg := fmt.Sprint(p)
	if p == nil || !s.died || len(msg) < 13 || msg[:13] != "Run returned:" {
		s.state = "dead"
		s.died = false
		if p == nil { // Run swallowed the error and ended normally: not what the model says, not C07's business
			cr.driftEv("Run returned nil although the body returned a failed assertion", Step{T: "die", A: s.id})
		} else {
			cr.event(rec{"e": "panic", "a": s.id, "what": what, "msg": msg})
		}
		return
	}
	cr.noteDeath(s)
	cr.temit(rec{"e": "die", "a": s.id, "lc": cr.lc()})
}

func decodeObs(m *manager, b []byte, err error) []opRec {
	var v tla.Value
	vals := []int{-7}
	if err == nil {
		if err := gob.NewDecoder(bytes.NewReader(b)).Decode(&v); err == nil {
			vals = tupleInts(v)
		} else {
			vals = []int{-8}
		}
	}
	ops := []opRec{}
	for i, c := range m.cells {
		x := -6
		if i < len(vals) {
			x = vals[i]
		}
		ops = append(ops, opRec{"r", c, x})
	}
	return ops
}

func (cr *caseRun) gated() {
	for _, st := range cr.c.Steps {
		if cr.hung {
			return
		}
		var s *sharer
		if st.A >= 1 && st.A <= len(cr.sh) {
			s = cr.sh[st.A-1]
			if s.state == "dead" {
				continue
			}
		}
		switch st.T {
		case "begin":
			if s.state == "wait" {
				cr.driftEv("begin while an access is pending: waiting for it", st)
				cr.await(s)
			}
			if s.state == "open" {
				cr.driftEv("begin while the previous section is open: committing it", st)
				cr.doEnd(s, "commit")
			}
			if s.state != "idle" {
				continue
			}
			s.start = cr.stamp()
			s.state = "open"
			s.goCh <- struct{}{}
			cr.temit(rec{"e": "begin", "a": s.id})
		case "acc", "block":
			if s.state != "open" {
				cr.driftEv("access skipped: no open section", st)
				continue
			}
			s.pend = command{t: "op", k: st.K, c: st.C, v: st.V}
			cr.resolveUnknown(s, cr.mgrOf(st.C))
			h := cr.holder[cr.mgrOf(st.C)-1]
			if h == 0 {
				cr.letObserverThrough(cr.mgrOf(st.C))
			}
			if h != 0 && h != s.id && cr.c.Fam == "fin" {
				// all timers of a case have the same length: the sharer that started waiting first is
				// refused first. Start this wait well after the previous one, so that a variable the
				// earlier waiter gives up on its refusal reaches this one before its own timer fires.
				for _, o := range cr.sh {
					if o.state == "wait" {
						time.Sleep(cr.timeout / 2)
						break
					}
				}
			}
			s.cmd <- s.pend
			if h == 0 || h == s.id {
				if st.T == "block" {
					cr.driftEv("planned to block, but nobody was observed to hold the variable", st)
				}
				r, ok := cr.waitRes(s, fmt.Sprintf("access %s cell %d (variable not held by another sharer)", st.K, st.C))
				if !ok {
					continue
				}
				if r.res == "timeout" {
					cr.driftEv("access refused although nobody was observed to hold the variable", st)
				}
				cr.settle(s, r, true)
			} else {
				if st.T == "acc" {
					cr.driftEv("planned to succeed at once, but another sharer was observed to hold the variable", st)
				}
				s.state = "wait"
				cr.temit(rec{"e": "block", "a": s.id, "k": st.K, "c": st.C, "v": st.V})
			}
		case "grant", "timeout":
			if s.state != "wait" {
				continue // already settled together with another sharer's result
			}
			cr.await(s)
		case "end":
			if s.state == "wait" {
				cr.driftEv("end while an access is pending: waiting for it", st)
				cr.await(s)
			}
			if s.state != "open" {
				cr.driftEv("end skipped: no open section", st)
				continue
			}
			cr.doEnd(s, st.How)
		case "die":
			if s.state == "wait" {
				cr.driftEv("die while an access is pending: waiting for it", st)
				cr.await(s)
			}
			if s.state != "open" {
				cr.driftEv("die skipped: no open section", st)
				continue
			}
			cr.doDie(s)
		case "obs":
			if cr.holder[st.M-1] != 0 {
				continue
			}
			if cr.nAsync.Load() != 0 { // keep the blocking observer out of the way of a queued one
				continue
			}
			cr.observe(cr.mgrs[st.M-1])
		case "obsa":
			if cr.holder[st.M-1] == 0 || cr.deadHeld(st.M) {
				continue
			}
			cr.observeAsync(cr.mgrs[st.M-1])
		}
	}
	// close whatever the walk left open
	for _, s := range cr.sh {
		if cr.hung {
			return
		}
		if s.state == "wait" {
			cr.await(s)
		}
	}
	for _, s := range cr.sh {
		if cr.hung {
			return
		}
		if s.state == "open" {
			cr.doEnd(s, "commit")
		}
	}
}

func (cr *caseRun) stress() {
	// observers (one per manager) call GetState() while the sharers run
	var stop atomic.Bool
	obsDone := make([]chan struct{}, len(cr.mgrs))
	for i, m := range cr.mgrs {
		m := m
		done := make(chan struct{})
		obsDone[i] = done
		go func() {
			defer close(done)
			for !stop.Load() {
				s0 := cr.stamp()
				b, err := m.watch2.GetState()
				s1 := cr.stamp()
				cr.addTxn(0, s0, s1, decodeObs(m, b, err))
				time.Sleep(time.Duration(300*len(cr.mgrs)) * time.Microsecond)
			}
		}()
	}
	defer func() {
		stop.Store(true)
		for i, m := range cr.mgrs {
			if cr.hung {
				break
			}
			if cr.deadHeld(m.id) {
				// the observer of a variable a dead sharer took with it sits in GetState() for ever
				// (pinned tree): it is left behind; whatever it saw before is on record
				continue
			}
			select {
			case <-obsDone[i]:
			case <-time.After(cr.wd):
				cr.event(rec{"e": "watchdog", "what": "stress observer did not stop"})
				cr.hung = true
			}
		}
	}()
	// every sharer runs freely until its quota is reached; then it parks at the gate
	deadline := time.After(cr.wd * 6)
	for _, s := range cr.sh {
		select {
		case <-s.arrive:
		case p := <-s.exited:
			if msg := fmt.Sprint(p); s.died && p != nil && len(msg) >= 13 && msg[:13] == "Run returned:" {
				cr.noteDeath(s)
				continue
			}
			s.state = "dead"
			s.died = false
			cr.event(rec{"e": "panic", "a": s.id, "what": "stress", "msg": fmt.Sprint(p)})
		case <-deadline:
			// standstill (no stamp taken anywhere in the case for five rounds) = deadlock; otherwise only slow
			arrived := false
			got := func() bool {
				if !arrived {
					select {
					case <-s.arrive:
						arrived = true
					default:
					}
				}
				return arrived
			}
			if cr.confirm(got) {
				cr.reportHang(s, "free-running sharers stopped taking any step before reaching their quota")
				return
			}
			if !arrived {
				cr.event(rec{"e": "watchdog", "a": s.id, "what": "stress quota not reached in time"})
				cr.hung = true
				return
			}
		}
	}
}

func (cr *caseRun) epilogue() {
	k := cr.c.Probes
	if k <= 0 {
		k = 3
	}
	// observations queued behind a section complete now that every section has ended
	if cr.nAsync.Load() != 0 {
		done := make(chan struct{})
		go func() { cr.asyncObs.Wait(); close(done) }()
		select {
		case <-done:
		case <-time.After(cr.wd):
			if cr.confirm(func() bool { return cr.nAsync.Load() == 0 }) {
				cr.reportHang(nil, "GetState() called during a section did not return after every section had ended")
				return
			}
		}
	}
	// variables a dead sharer took with it are probed apart: no progress is demanded there (the
	// attempt has to RETURN, which the watchdog of waitArrive sees to); what a probe that does
	// get through reads is judged like any committed section
	var liveCells, deadCells []int
	for c := 1; c <= len(cr.c.LockOf); c++ {
		if cr.deadHeld(cr.mgrOf(c)) {
			deadCells = append(deadCells, c)
		} else {
			liveCells = append(liveCells, c)
		}
	}
	soloFailed := false
	probe := func(s *sharer, cells []int, k int, dh int) bool {
		outs := []string{}
		s0 := cr.stamp()
		for i := 0; i < k; i++ {
			s.mode = "probe"
			s.probeCells = cells
			s.start = cr.stamp()
			s.goCh <- struct{}{}
			ar, ok := cr.waitArrive(s, "probe section")
			if !ok {
				return false
			}
			if ar.out == "commit" {
				outs = append(outs, "commit")
				cr.addTxn(s.id, s.start, ar.end, s.ops)
				cr.temit(rec{"e": "begin", "a": s.id})
				for _, o := range s.ops {
					cr.temit(rec{"e": "acc", "a": s.id, "k": "r", "c": o.C, "v": o.V, "lc": []int{}})
				}
				cr.temit(rec{"e": "end", "a": s.id, "how": "commit", "lc": cr.lc()})
				break
			}
			if s.probeRes == "" {
				s.probeRes = "abort"
			}
			outs = append(outs, s.probeRes)
			if dh == 1 && s.probeRes == "timeout" && len(s.ops) == 0 {
				// the model's view of it: the first read waited for the dead holder and was refused
				cr.temit(rec{"e": "begin", "a": s.id})
				cr.temit(rec{"e": "block", "a": s.id, "k": "r", "c": cells[0], "v": 0})
				cr.temit(rec{"e": "timeout", "a": s.id, "lc": cr.lc()})
			} else {
				cr.temit(rec{"e": "probe-failed", "a": s.id, "res": s.probeRes})
			}
		}
		cr.mu.Lock()
		cr.items = append(cr.items, rec{"e": "solo", "a": s.id, "s": s0, "t": cr.stamp(), "outs": outs, "dh": dh, "ops": []opRec{}})
		cr.mu.Unlock()
		if dh == 0 && outs[len(outs)-1] != "commit" {
			soloFailed = true
		}
		return true
	}
	for _, s := range cr.sh {
		if cr.hung {
			return
		}
		if s.state != "idle" {
			continue
		}
		if len(liveCells) > 0 || len(deadCells) == 0 {
			if !probe(s, liveCells, k, 0) {
				return
			}
		}
		if len(deadCells) > 0 && !cr.hung {
			if !probe(s, deadCells, 1, 1) {
				return
			}
		}
	}
	// let every archetype run to Done
	for _, s := range cr.sh {
		if s.state != "idle" {
			continue
		}
		s.mode = "finish"
		s.goCh <- struct{}{}
		select {
		case p := <-s.exited:
			if p != nil {
				cr.event(rec{"e": "panic", "a": s.id, "what": "finishing", "msg": fmt.Sprint(p)})
			}
		case <-time.After(cr.wd):
			cr.event(rec{"e": "watchdog", "a": s.id, "what": "archetype did not reach Done"})
			cr.hung = true
			return
		}
	}
	if soloFailed {
		return // a blocking GetState() could only hang now; the refusal is already on record
	}
	for _, m := range cr.mgrs {
		if cr.deadHeld(m.id) {
			cr.observeDead(m)
			continue
		}
		if !cr.observe(m) {
			return
		}
	}
}

func (cr *caseRun) run() {
	c := cr.c
	cr.timeout = time.Duration(c.TimeoutMs) * time.Millisecond
	if c.TimeoutMs == 0 {
		cr.timeout = 50 * time.Millisecond
	}
	cr.wd = 300 * cr.timeout
	if cr.wd < 20*time.Second {
		cr.wd = 20 * time.Second
	}
	if cr.wd > 90*time.Second {
		cr.wd = 90 * time.Second
	}
	func() {
		defer func() {
			if p := recover(); p != nil {
				cr.event(rec{"e": "setup", "msg": fmt.Sprint(p)})
			}
		}()
		cr.build()
		cr.built = true
	}()
	if !cr.built {
		return
	}
	sum := 0
	for _, v := range c.Init {
		sum += v
	}
	cr.temit(rec{"e": "case", "id": c.ID, "fam": c.Fam, "lockof": c.LockOf, "init": c.Init, "kinds": c.Kinds, "timeout_ms": c.TimeoutMs})
	cr.start()
	if c.Mode == "gated" {
		// first arrival of every sharer at the gate
		for _, s := range cr.sh {
			if _, ok := cr.waitArrive(s, "first arrival at the gate"); !ok {
				return
			}
		}
		cr.gated()
	} else {
		cr.stress()
	}
	if !cr.hung {
		cr.epilogue()
	}
	_ = sum
}

func (cr *caseRun) header() rec {
	c := cr.c
	sum := 0
	for _, v := range c.Init {
		sum += v
	}
	bank := 0
	if c.Bank || (c.Stress != nil && c.Stress.Bank) {
		bank = 1
	}
	dead := []int{}
	for _, s := range cr.sh {
		if s.died {
			dead = append(dead, s.id)
		}
	}
	deadw := []rec{}
	for _, o := range cr.deadw {
		deadw = append(deadw, rec{"c": o.C, "v": o.V})
	}
	return rec{"e": "case", "id": c.ID, "mode": c.Mode, "fam": c.Fam, "na": c.NA, "n": len(cr.items), "init": c.Init,
		"bank": bank, "sum": sum, "lockof": c.LockOf, "kinds": c.Kinds, "timeout_ms": c.TimeoutMs,
		"complete": !cr.hung, "drift": cr.drift, "dead": dead, "deadw": deadw}
}

func main() {
	casesPath := flag.String("cases", "", "ndjson file of cases")
	histPath := flag.String("hist", "", "output: P-level items")
	tracePath := flag.String("trace", "", "output: M-level events of gated cases")
	evPath := flag.String("ev", "", "output: hang / panic / drift events")
	par := flag.Int("par", 4, "cases run concurrently")
	maxHang := flag.Int("maxhang", 2, "stop starting cases after this many hangs")
	flag.Parse()

	f, err := os.Open(*casesPath)
	if err != nil {
		fmt.Fprintln(os.Stderr, err)
		os.Exit(3)
	}
	var cases []Case
	sc := bufio.NewScanner(f)
	sc.Buffer(make([]byte, 1<<20), 1<<28)
	for sc.Scan() {
		if len(bytes.TrimSpace(sc.Bytes())) == 0 {
			continue
		}
		var c Case
		if err := json.Unmarshal(sc.Bytes(), &c); err != nil {
			fmt.Fprintln(os.Stderr, "bad case:", err)
			os.Exit(3)
		}
		cases = append(cases, c)
	}
	f.Close()

	runs := make([]*caseRun, len(cases))
	var hangs atomic.Int32
	var wg sync.WaitGroup
	sem := make(chan struct{}, *par)
	for i := range cases {
		if int(hangs.Load()) >= *maxHang {
			break
		}
		i := i
		sem <- struct{}{}
		wg.Add(1)
		go func() {
			defer wg.Done()
			defer func() { <-sem }()
			if int(hangs.Load()) >= *maxHang {
				return
			}
			cr := &caseRun{c: cases[i]}
			runs[i] = cr
			cr.run()
			for _, e := range cr.ev {
				if e["e"] == "hang" {
					hangs.Add(1)
				}
			}
		}()
	}
	wg.Wait()

	open := func(p string) *bufio.Writer {
		f, err := os.Create(p)
		if err != nil {
			fmt.Fprintln(os.Stderr, err)
			os.Exit(3)
		}
		return bufio.NewWriterSize(f, 1<<20)
	}
	hw, tw, ew := open(*histPath), open(*tracePath), open(*evPath)
	enc := func(w *bufio.Writer, r rec) {
		b, err := json.Marshal(r)
		if err != nil {
			panic(err)
		}
		w.Write(b)
		w.WriteByte('\n')
	}
	ran := 0
	for _, cr := range runs {
		if cr == nil {
			continue
		}
		ran++
		cr.mu.Lock()
		if cr.built {
			// listed by increasing end stamp (TxnSer.tla checks the order, it does not trust it)
			sort.SliceStable(cr.items, func(i, j int) bool { return cr.items[i]["t"].(int64) < cr.items[j]["t"].(int64) })
			enc(hw, cr.header())
			for _, it := range cr.items {
				enc(hw, it)
			}
			if cr.c.Mode == "gated" && !cr.hung {
				for _, e := range cr.tr {
					enc(tw, e)
				}
			}
		}
		for _, e := range cr.ev {
			enc(ew, e)
		}
		cr.mu.Unlock()
	}
	enc(ew, rec{"e": "summary", "cases": len(cases), "ran": ran, "hangs": hangs.Load()})
	hw.Flush()
	tw.Flush()
	ew.Flush()
	os.Exit(0)
}
