// c10drv: replays the TLC-exported program/case family (spec/C10/FairnessCases.tla) on the
// real choice oracle of distsys and records every call and returned digit as ndjson.
//
// modes:
//
//	direct  calls BeginCriticalSection / NextFairnessCounter on a fresh MakeRoundRobinFairnessCounter()
//	ctx     runs each case as a hand-built archetype under the real MPCalContext.Run, the real
//	        counter wrapped by a recording FairnessCounter installed with SetFairnessCounter
//	nondet  runs the generated NonDetExploration archetypes under Run with the same wrapper
package main

import (
	"bufio"
	"encoding/json"
	"flag"
	"fmt"
	"os"
	"strings"
	"time"

	"github.com/DistCompiler/pgo/distsys"
	"github.com/DistCompiler/pgo/distsys/tla"
	nondet "github.com/DistCompiler/pgo/test/files/general/NonDetExploration.tla.gotests"
)

type node struct {
	Path []int  `json:"path"`
	ID   string `json:"id"`
	C    uint   `json:"c"`
}
type prog struct {
	Nodes []node `json:"nodes"`
	byKey map[string]node
}
type att struct {
	PC string `json:"pc"`
	P  int    `json:"p"`
}
type kase struct {
	Atts []att `json:"atts"`
}

func key(p []int) string { return fmt.Sprint(p) }

func readLines(path string, f func([]byte)) {
	fh, err := os.Open(path)
	if err != nil {
		panic(err)
	}
	defer fh.Close()
	sc := bufio.NewScanner(fh)
	sc.Buffer(make([]byte, 1<<20), 1<<26)
	for sc.Scan() {
		if len(strings.TrimSpace(sc.Text())) > 0 {
			f(sc.Bytes())
		}
	}
}

type rec map[string]interface{}

var out *bufio.Writer

func emit(r rec) {
	b, _ := json.Marshal(r)
	out.Write(b)
	out.WriteByte('\n')
}

// walk one attempt of program p through next(), returning the digits
func walk(p *prog, next func(id string, c uint) uint) {
	var path []int
	for {
		n, ok := p.byKey[key(path)]
		if !ok {
			return
		}
		d := next(n.ID, n.C)
		path = append(path, int(d))
	}
}

// recorder wraps the real counter and logs what the caller (driver or MPCalContext.Run) does
type recorder struct {
	inner  distsys.FairnessCounter
	open   bool
	pOf    func(pc string) (string, int, bool)
	panics *int
}

func (r *recorder) closeOpen() {
	if r.open {
		emit(rec{"e": "end"})
		r.open = false
	}
}
func (r *recorder) BeginCriticalSection(pc string) {
	r.closeOpen()
	r.inner.BeginCriticalSection(pc)
	if lbl, p, ok := r.pOf(pc); ok {
		emit(rec{"e": "begin", "pc": lbl, "p": p})
		r.open = true
	}
}
func (r *recorder) NextFairnessCounter(id string, c uint) uint {
	d := r.inner.NextFairnessCounter(id, c)
	if r.open {
		emit(rec{"e": "next", "id": id, "c": c, "r": d})
	}
	return d
}

func guarded(what string, f func()) (ok bool) {
	done := make(chan interface{}, 1)
	go func() {
		defer func() { done <- recover() }()
		f()
	}()
	select {
	case p := <-done:
		if p != nil {
			emit(rec{"e": "panic", "what": what, "msg": fmt.Sprint(p)})
			return false
		}
		return true
	case <-time.After(20 * time.Second):
		emit(rec{"e": "hang", "what": what})
		return false
	}
}

func main() {
	mode := flag.String("mode", "direct", "")
	progsF := flag.String("progs", "progs.ndjson", "")
	casesF := flag.String("cases", "cases.ndjson", "")
	outF := flag.String("out", "trace.ndjson", "")
	reps := flag.Int("reps", 10, "repetitions of every case (fresh counter, fresh random digits)")
	flag.Parse()

	var progs []*prog
	readLines(*progsF, func(b []byte) {
		p := &prog{byKey: map[string]node{}}
		if err := json.Unmarshal(b, p); err != nil {
			panic(err)
		}
		for _, n := range p.Nodes {
			if n.Path == nil {
				n.Path = []int{}
			}
			p.byKey[key(n.Path)] = n
		}
		progs = append(progs, p)
	})
	var cases []kase
	readLines(*casesF, func(b []byte) {
		var k kase
		if err := json.Unmarshal(b, &k); err != nil {
			panic(err)
		}
		cases = append(cases, k)
	})
	fh, err := os.Create(*outF)
	if err != nil {
		panic(err)
	}
	out = bufio.NewWriter(fh)
	defer func() { out.Flush(); fh.Close() }()

	switch *mode {
	case "direct":
		for rep := 0; rep < *reps; rep++ {
			for ci, k := range cases {
				emit(rec{"e": "case", "case": ci + 1, "mode": "direct"})
				cnt := distsys.MakeRoundRobinFairnessCounter()
				if !guarded(fmt.Sprintf("case %d", ci+1), func() {
					for _, a := range k.Atts {
						cnt.BeginCriticalSection(a.PC)
						emit(rec{"e": "begin", "pc": a.PC, "p": a.P})
						walk(progs[a.P-1], func(id string, c uint) uint {
							d := cnt.NextFairnessCounter(id, c)
							emit(rec{"e": "next", "id": id, "c": c, "r": d})
							return d
						})
						emit(rec{"e": "end"})
					}
				}) {
					// close the open attempt so the trace stays well-formed
					emit(rec{"e": "abandon"})
				}
			}
		}
	case "ctx":
		for rep := 0; rep < *reps; rep++ {
			for ci, k := range cases {
				runCtxCase(ci, k, progs)
			}
		}
	case "nondet":
		for rep := 0; rep < *reps; rep++ {
			runNonDet()
		}
	default:
		panic("unknown mode")
	}
}

// runCtxCase executes a case under the real MPCalContext.Run: label "A.<pc>" retries (aborts)
// until the last attempt of its stay, then commits a Goto to the next label.
func runCtxCase(ci int, k kase, progs []*prog) {
	emit(rec{"e": "case", "case": ci + 1, "mode": "ctx"})
	pos := 0 // index of the attempt about to run
	labels := map[string]bool{}
	for _, a := range k.Atts {
		labels[a.PC] = true
	}
	var sections []distsys.MPCalCriticalSection
	var iface0 *recorder
	for lbl := range labels {
		lbl := lbl
		sections = append(sections, distsys.MPCalCriticalSection{
			Name: "A." + lbl,
			Body: func(iface distsys.ArchetypeInterface) error {
				if pos >= len(k.Atts) || k.Atts[pos].PC != lbl {
					panic(fmt.Sprintf("driver out of step: pos %d label %s", pos, lbl))
				}
				a := k.Atts[pos]
				walk(progs[a.P-1], func(id string, c uint) uint { return iface.NextFairnessCounter(id, c) })
				pos++
				if pos >= len(k.Atts) {
					return iface.Goto("A.Done")
				}
				if k.Atts[pos].PC != lbl {
					return iface.Goto("A." + k.Atts[pos].PC)
				}
				return distsys.ErrCriticalSectionAborted
			},
		})
	}
	sections = append(sections, distsys.MPCalCriticalSection{
		Name: "A.Done",
		Body: func(distsys.ArchetypeInterface) error { return distsys.ErrDone },
	})
	arch := distsys.MPCalArchetype{
		Name:      "A",
		Label:     "A." + k.Atts[0].PC,
		JumpTable: distsys.MakeMPCalJumpTable(sections...),
		ProcTable: distsys.MakeMPCalProcTable(),
		PreAmble:  func(distsys.ArchetypeInterface) {},
	}
	iface0 = &recorder{inner: distsys.MakeRoundRobinFairnessCounter(), pOf: func(pc string) (string, int, bool) {
		lbl := strings.TrimPrefix(pc, "A.")
		if lbl == "Done" || pos >= len(k.Atts) {
			return lbl, leafProg, true
		}
		return lbl, k.Atts[pos].P, true
	}}
	ctx := distsys.NewMPCalContext(tla.MakeNumber(1), arch, distsys.SetFairnessCounter(iface0))
	if guarded(fmt.Sprintf("ctx case %d", ci+1), func() {
		if err := ctx.Run(); err != nil {
			panic(err)
		}
	}) {
		iface0.closeOpen()
	} else {
		emit(rec{"e": "abandon"})
	}
}

// index (1-based) of the program without choice points in FairnessCases!MCProgs
const leafProg = 11

var nondetProg = map[string]int{
	"ACoverage.l1": 14, "ACoverage.l2": 15, "ACoverage.l3": 16, "ACoverage.l4": 17,
	"ACoincidence.lbl": 18, "AComplex.lbl1": 19,
}

func runNonDet() {
	for i, arch := range []distsys.MPCalArchetype{nondet.ACoverage, nondet.ACoincidence, nondet.AComplex} {
		emit(rec{"e": "case", "case": arch.Name, "mode": "nondet"})
		r := &recorder{inner: distsys.MakeRoundRobinFairnessCounter(), pOf: func(pc string) (string, int, bool) {
			if p, ok := nondetProg[pc]; ok {
				return pc, p, true
			}
			return pc, leafProg, true // labels without choice points: logged so that label changes are visible
		}}
		ctx := distsys.NewMPCalContext(tla.MakeNumber(int32(i+1)), arch, distsys.SetFairnessCounter(r))
		if guarded("nondet "+arch.Name, func() {
			if err := ctx.Run(); err != nil {
				panic(err)
			}
		}) {
			r.closeOpen()
		} else {
			emit(rec{"e": "abandon"})
		}
	}
}
