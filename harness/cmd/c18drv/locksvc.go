package main

import "math/rand"

func runLockSvc(traceRoot string, seq int, clients int, rng *rand.Rand) []rec {
	return nil
}
