package main

// locksvc mode: the GENERATED locksvc archetypes (systems/locksvc/locksvc.go: one AServer, n
// AClient) over real TCP mailboxes with tracing enabled, scheduled one attempt at a time by the
// gate in a seeded random order. Ground truth:
//   - operations on the resources (network, hasLock) are recorded by a decorator around the real
//     resource (what the generated code really asked the resource to do);
//   - every message written to network[j] gets a token; a read of network[j] returning the same
//     value takes the oldest such token (per destination and value: one sender per client mailbox,
//     distinct values per sender in the server's mailbox), which names the writer attempt;
//   - operations on archetype locals have no independent ground truth here (the generated body
//     performs them itself): for those the logged element is taken as the operation, so
//     ExactElements only binds the resource operations, while hints / ReplayLocals / OwnClock /
//     OncePerAttempt / Causal are checked in full.

import (
	"encoding/json"
	"fmt"
	"math/rand"
	"os"
	"path/filepath"
	"strings"
	"time"

	"github.com/DistCompiler/pgo/distsys"
	"github.com/DistCompiler/pgo/distsys/resources"
	"github.com/DistCompiler/pgo/distsys/tla"
	"github.com/DistCompiler/pgo/systems/locksvc"
)

type resCall struct {
	read bool
	name string
	ix   []tla.Value
	v    tla.Value
}

// tap records the leaf operations performed through a (possibly indexed) resource
type tap struct {
	inner distsys.ArchetypeResource
	name  string
	ix    []tla.Value
	calls *[]resCall
	c     *cctx
}

func (t *tap) Abort(i distsys.ArchetypeInterface) chan struct{} {
	if len(t.ix) == 0 {
		t.c.aborts++
	}
	return t.inner.Abort(i)
}
func (t *tap) PreCommit(i distsys.ArchetypeInterface) chan error { return t.inner.PreCommit(i) }
func (t *tap) Commit(i distsys.ArchetypeInterface) chan struct{} {
	if len(t.ix) == 0 {
		t.c.commits++
	}
	return t.inner.Commit(i)
}
func (t *tap) ReadValue(i distsys.ArchetypeInterface) (tla.Value, error) {
	v, err := t.inner.ReadValue(i)
	if err == nil {
		*t.calls = append(*t.calls, resCall{true, t.name, t.ix, v})
	}
	return v, err
}
func (t *tap) WriteValue(i distsys.ArchetypeInterface, v tla.Value) error {
	err := t.inner.WriteValue(i, v)
	if err == nil {
		*t.calls = append(*t.calls, resCall{false, t.name, t.ix, v})
	}
	return err
}
func (t *tap) Index(i distsys.ArchetypeInterface, x tla.Value) (distsys.ArchetypeResource, error) {
	r, err := t.inner.Index(i, x)
	if err != nil {
		return nil, err
	}
	return &tap{inner: r, name: t.name, ix: append(append([]tla.Value{}, t.ix...), x), calls: t.calls, c: t.c}, nil
}
func (t *tap) Close() error { return t.inner.Close() }

// boolCell: the hasLock[self] resource of a client (a plain transactional cell)
type boolCell struct {
	distsys.ArchetypeResourceLeafMixin
	v, old tla.Value
}

func (b *boolCell) Abort(distsys.ArchetypeInterface) chan struct{}  { b.v = b.old; return nil }
func (b *boolCell) PreCommit(distsys.ArchetypeInterface) chan error { return nil }
func (b *boolCell) Commit(distsys.ArchetypeInterface) chan struct{} { b.old = b.v; return nil }
func (b *boolCell) ReadValue(distsys.ArchetypeInterface) (tla.Value, error) {
	return b.v, nil
}
func (b *boolCell) WriteValue(_ distsys.ArchetypeInterface, v tla.Value) error {
	b.v = v.StripVClock()
	return nil
}
func (b *boolCell) Close() error { return nil }

type logEvent struct {
	CsElements []struct {
		Tag  string `json:"tag"`
		Name struct {
			Prefix string `json:"prefix"`
			Name   string `json:"name"`
		} `json:"name"`
		Indices  []string `json:"indices"`
		Value    string   `json:"value"`
		OldValue *string  `json:"oldValue"`
	} `json:"csElements"`
}

func runLockSvc(traceRoot string, seq int, nClients int, rng *rand.Rand) (lines []rec) {
	caseDir := filepath.Join(traceRoot, fmt.Sprintf("locksvc%06d", seq))
	n := nClients + 1 // context i (1-based) has self = i-1; the server is self 0
	addrs, err := freeAddrs(n)
	if err != nil {
		return []rec{{"e": "case", "id": "locksvc", "seq": seq}, {"e": "infra", "what": "no free port: " + err.Error()}}
	}
	var ctxs []*cctx
	calls := make([][]resCall, n)
	ctxDescr := []rec{}
	initStore := map[string]string{}
	recMode := []string{"file", "mem"}[seq%2]

	envMu.Lock()
	os.Setenv("PGO_TRACE_DIR", caseDir)
	for i := 1; i <= n; i++ {
		self := tla.MakeNumber(int32(i - 1))
		arch := locksvc.AClient
		if i == 1 {
			arch = locksvc.AServer
		}
		c := &cctx{idx: i, arch: arch.Name, self: self, g: &gate{arrive: make(chan string), grant: make(chan bool)}, done: make(chan error, 1)}
		me := i - 1
		mb := resources.NewTCPMailboxes(func(idx tla.Value) (resources.MailboxKind, string) {
			j := int(idx.AsNumber())
			if j == me {
				return resources.MailboxesLocal, addrs[j]
			}
			return resources.MailboxesRemote, addrs[j]
		}, resources.WithMailboxesDialTimeout(watchdog), resources.WithMailboxesReadTimeout(300*time.Millisecond), resources.WithMailboxesWriteTimeout(watchdog))
		func() {
			defer func() {
				if r := recover(); r != nil {
					lines = append(lines, rec{"e": "infra", "what": fmt.Sprint(r)})
				}
			}()
			mb.Index(distsys.ArchetypeInterface{}, self)
		}()
		cfg := []distsys.MPCalContextConfigFn{
			distsys.DefineConstantValue("NumClients", tla.MakeNumber(int32(nClients))),
			distsys.SetFairnessCounter(c.g),
			distsys.EnsureArchetypeRefParam("network", &tap{inner: mb, name: "network", calls: &calls[i-1], c: c}),
		}
		if i > 1 {
			cells := resources.NewIncMap(func(tla.Value) distsys.ArchetypeResource {
				return &boolCell{v: tla.ModuleFALSE, old: tla.ModuleFALSE}
			})
			cfg = append(cfg, distsys.EnsureArchetypeRefParam("hasLock", &tap{inner: cells, name: "hasLock", calls: &calls[i-1], c: c}))
		}
		if recMode == "mem" {
			c.mem = &memRecorder{}
			cfg = append(cfg, distsys.SetTraceRecorder(c.mem))
		} else {
			c.tail = &fileTail{dir: caseDir, self: strings.ReplaceAll(self.String(), "\"", "")}
		}
		c.ctx = distsys.NewMPCalContext(self, arch, cfg...)
		ctxs = append(ctxs, c)
		ctxDescr = append(ctxDescr, rec{"a": arch.Name, "s": self.String()})
		initStore[fmt.Sprintf("c%d..pc", i)] = tla.MakeString(arch.Label).String()
	}
	envMu.Unlock()
	// initial values of the archetype locals (from the generated PreAmble)
	initStore["c1.msg"] = tla.Value{}.String()
	initStore["c1.q"] = tla.MakeTuple().String()
	if len(lines) > 0 {
		return append([]rec{{"e": "case", "id": "locksvc", "seq": seq}}, lines...)
	}
	lines = append(lines, rec{"e": "case", "id": fmt.Sprintf("locksvc:%d-clients", nClients), "seq": seq, "rec": recMode, "ctxs": ctxDescr, "init": initStore, "n": n})

	takeLogs := func(c *cctx) ([]json.RawMessage, error) {
		if c.mem != nil {
			return c.mem.take(), nil
		}
		return c.tail.take()
	}
	wait := func(c *cctx) error {
		select {
		case pc := <-c.g.arrive:
			c.parked = pc
			return nil
		case err := <-c.done:
			c.ended = true
			c.runErr = err
			return nil
		case <-time.After(watchdog):
			return fmt.Errorf("watchdog: context %d did not come back to the gate", c.idx)
		}
	}
	for _, c := range ctxs {
		go func(c *cctx) {
			var err error
			defer func() {
				if r := recover(); r != nil {
					if _, ok := r.(stopSentinel); ok {
						c.done <- errStopped
						return
					}
					c.done <- fmt.Errorf("panic: %v", r)
					return
				}
				c.done <- err
			}()
			err = c.ctx.Run()
		}(c)
	}
	okStart := true
	for _, c := range ctxs {
		if err := wait(c); err != nil {
			lines = append(lines, rec{"e": "infra", "what": err.Error()})
			okStart = false
		}
	}
	// message tokens
	tok := 0
	type key struct {
		dst int
		v   string
	}
	inflight := map[key][]int{}
	pending := make([]int, n) // committed, unread messages per mailbox (index = self)
	readsAt := map[string]bool{"AServer.serverReceive": true, "AClient.criticalSection": true}

	steps := 0
	for okStart && steps < 400 {
		var cand []*cctx
		allClientsDone := true
		for _, c := range ctxs[1:] {
			if !c.ended {
				allClientsDone = false
			}
		}
		for _, c := range ctxs {
			if c.ended {
				continue
			}
			if strings.HasSuffix(c.parked, ".Done") {
				cand = append(cand, c) // lets Run return
				continue
			}
			if readsAt[c.parked] && pending[c.idx-1] == 0 {
				if rng.Intn(12) != 0 || (allClientsDone && c.idx == 1) { // rarely: attempt a read of an empty mailbox (aborts)
					continue
				}
			}
			cand = append(cand, c)
		}
		if len(cand) == 0 {
			break
		}
		c := cand[rng.Intn(len(cand))]
		if strings.HasSuffix(c.parked, ".Done") {
			c.g.grant <- true
			if err := wait(c); err != nil {
				lines = append(lines, rec{"e": "infra", "what": err.Error()})
				break
			}
			continue
		}
		steps++
		label := c.parked
		c.k++
		c.commits, c.aborts = 0, 0
		calls[c.idx-1] = nil
		c.g.grant <- true
		if err := wait(c); err != nil {
			lines = append(lines, rec{"e": "infra", "what": err.Error()})
			break
		}
		logs, err := takeLogs(c)
		if err != nil {
			lines = append(lines, rec{"e": "infra", "what": err.Error()})
			break
		}
		if logs == nil {
			logs = []json.RawMessage{}
		}
		// the attempt's own verdict on commit/abort: what the runtime did to the resources. Every
		// section of locksvc touches .pc only or a tapped resource; sections that touch no tapped
		// resource (serverLoop) cannot abort.
		aborted := c.aborts > 0
		if c.ended && c.runErr != nil && c.runErr != errStopped {
			lines = append(lines, rec{"e": "infra", "what": fmt.Sprintf("Run of context %d returned %v", c.idx, c.runErr)})
			break
		}
		// ground-truth operations: resource calls as recorded by the taps, locals as logged
		ops := []gtOp{}
		rc := calls[c.idx-1]
		ri := 0
		var writesNow []key
		var writeToks []int
		if len(logs) == 1 {
			var ev logEvent
			if err := json.Unmarshal(logs[0], &ev); err != nil {
				lines = append(lines, rec{"e": "infra", "what": "unparsable event: " + err.Error()})
				break
			}
			for _, e := range ev.CsElements {
				if e.Name.Name == "network" || e.Name.Name == "hasLock" {
					if ri >= len(rc) {
						// logged but never performed: keep an impossible operation so that ExactElements fails
						ops = append(ops, gtOp{T: "none", P: c.arch, N: e.Name.Name, Ix: []string{}, V: "", Ch: []int{}, Kind: "other"})
						continue
					}
					call := rc[ri]
					ri++
					op := gtOp{T: "write", P: c.arch, N: call.name, Ix: ixStrings(call.ix), V: call.v.String(), Ch: []int{}, Kind: "other"}
					if call.read {
						op.T = "read"
					}
					if call.name == "network" && len(call.ix) == 1 {
						op.Kind = "tcp"
						dst := int(call.ix[0].AsNumber())
						kk := key{dst, call.v.String()}
						if call.read {
							if q := inflight[kk]; len(q) > 0 {
								op.Ch = []int{q[0]}
								if !aborted {
									inflight[kk] = q[1:]
									pending[dst]--
								}
							}
						} else {
							tok++
							op.Ch = []int{tok}
							writesNow = append(writesNow, kk)
							writeToks = append(writeToks, tok)
						}
					}
					ops = append(ops, op)
				} else {
					kk := fmt.Sprintf("c%d.%s", c.idx, e.Name.Name)
					ck := kk
					if len(e.Indices) > 0 {
						kk += "[" + strings.Join(e.Indices, ",") + "]"
					}
					ops = append(ops, gtOp{T: e.Tag, P: e.Name.Prefix, N: e.Name.Name, Ix: e.Indices, V: e.Value, Ch: []int{}, Kind: "local", Key: kk, Ck: ck})
				}
			}
		}
		for ; ri < len(rc); ri++ { // performed but not logged
			call := rc[ri]
			t := "write"
			if call.read {
				t = "read"
			}
			ops = append(ops, gtOp{T: t, P: c.arch, N: call.name, Ix: ixStrings(call.ix), V: call.v.String(), Ch: []int{}, Kind: "other"})
		}
		if !aborted {
			for i, kk := range writesNow {
				inflight[kk] = append(inflight[kk], writeToks[i])
				pending[kk.dst]++
			}
		}
		lines = append(lines, rec{"e": "att", "c": c.idx, "k": c.k, "sec": 0, "label": label, "ab": aborted, "ops": ops, "logs": logs})
	}
	for _, c := range ctxs {
		if c.ended {
			continue
		}
		select {
		case c.g.grant <- strings.HasSuffix(c.parked, ".Done"): // Done: let Run return; otherwise stop it
		case <-time.After(watchdog):
		}
	}
	for _, c := range ctxs {
		if c.ended {
			continue
		}
		select {
		case err := <-c.done:
			c.ended = true
			c.runErr = err
		case <-time.After(watchdog):
			lines = append(lines, rec{"e": "infra", "what": fmt.Sprintf("watchdog: context %d did not terminate", c.idx)})
		}
	}
	extra := []int{}
	for _, c := range ctxs {
		logs, _ := takeLogs(c)
		extra = append(extra, len(logs))
		if c.tail != nil {
			c.tail.close()
		}
	}
	clientsDone := 0
	for _, c := range ctxs[1:] {
		if c.runErr == nil {
			clientsDone++
		}
	}
	lines = append(lines, rec{"e": "end", "extra": extra, "steps": steps, "clients_done": clientsDone})
	os.RemoveAll(caseDir)
	return lines
}
