// c18drv: runs small communication patterns (spec/C18/TracePatterns.tla, exported or simulated by
// TLC) as hand-built archetypes under the real MPCalContext.Run with tracing enabled, over real
// resources (archetype locals, LocalShared, Output/InputChan, TCP mailboxes), one critical-section
// attempt at a time (scheduler gate = a distsys.FairnessCounter). For every attempt it writes one
// ndjson line holding
//
//	gt    the ground truth: the iface.Read / iface.Write calls the body really performed (resource,
//	      indices, value returned / written), whether the attempt committed, the chain of writer
//	      tokens of every value (values are tuples of unique tokens, a relay appends its own token)
//	logs  the raw JSON lines the runtime's trace recorder produced during that attempt
//
// TLC (spec/C18/Tracing.tla) is the judge. Vector clocks exist only if PGO_TRACE_DIR is set when the
// process starts, so the driver re-executes itself with the variable set.
//
// modes: -mode patterns (default)   cases from -cases
//
//	-mode locksvc            the generated locksvc (server + clients) over real TCP mailboxes
package main

import (
	"bufio"
	"bytes"
	"encoding/json"
	"errors"
	"flag"
	"fmt"
	"io"
	"log"
	"math/rand"
	"net"
	"os"
	"path/filepath"
	"strings"
	"sync"
	"syscall"
	"time"

	"github.com/DistCompiler/pgo/distsys"
	"github.com/DistCompiler/pgo/distsys/resources"
	"github.com/DistCompiler/pgo/distsys/tla"
	"github.com/DistCompiler/pgo/distsys/trace"
)

// ---------------------------------------------------------------------------------- case format

type Op struct {
	O   string `json:"o"`   // rl wl (local R) | rf wf (local f[I]) | rs ws (shared R) | rm wm (shared m[I]) | so ri (chan peer I) | st (tcp to I) rt (tcp own mailbox)
	R   string `json:"r"`   // variable name
	I   int    `json:"i"`   // index / peer
	Rel int    `json:"rel"` // for writes: 1-based position of an earlier read op of this attempt whose value is relayed (0 = fresh)
}
type Att struct {
	C    int  `json:"c"`
	Sec  int  `json:"sec"`
	Ops  []Op `json:"ops"`
	Ab   bool `json:"ab"`   // the body returns ErrCriticalSectionAborted after its ops
	Next int  `json:"next"` // section to go to on commit (0 = Done)
}
type Case struct {
	ID   string `json:"id"`
	N    int    `json:"n"`
	Atts []Att  `json:"atts"`
}

// ---------------------------------------------------------------------------------- output

type rec map[string]interface{}

var (
	outMu sync.Mutex
	outW  *bufio.Writer
)

func emitAll(lines []rec) {
	outMu.Lock()
	defer outMu.Unlock()
	for _, r := range lines {
		b, err := json.Marshal(r)
		if err != nil {
			panic(err)
		}
		outW.Write(b)
		outW.WriteByte('\n')
	}
	outW.Flush()
}

// ---------------------------------------------------------------------------------- gate

type stopSentinel struct{}

type gate struct {
	arrive chan string
	grant  chan bool
}

func (g *gate) BeginCriticalSection(pc string) {
	g.arrive <- pc
	if !<-g.grant {
		panic(stopSentinel{})
	}
}
func (g *gate) NextFairnessCounter(id string, ceiling uint) uint { return 0 }

// spy forwards to a real resource and counts what the runtime does with it at the end of a section
type spy struct {
	inner            distsys.ArchetypeResource
	commits, aborts  *int
	precommitFailure *int
}

func (s *spy) Abort(i distsys.ArchetypeInterface) chan struct{} { *s.aborts++; return s.inner.Abort(i) }
func (s *spy) PreCommit(i distsys.ArchetypeInterface) chan error { return s.inner.PreCommit(i) }
func (s *spy) Commit(i distsys.ArchetypeInterface) chan struct{} {
	*s.commits++
	return s.inner.Commit(i)
}
func (s *spy) ReadValue(i distsys.ArchetypeInterface) (tla.Value, error) { return s.inner.ReadValue(i) }
func (s *spy) WriteValue(i distsys.ArchetypeInterface, v tla.Value) error {
	return s.inner.WriteValue(i, v)
}
func (s *spy) Index(i distsys.ArchetypeInterface, x tla.Value) (distsys.ArchetypeResource, error) {
	return s.inner.Index(i, x)
}
func (s *spy) Close() error { return s.inner.Close() }

// memRecorder: the SetTraceRecorder path; events are serialised with the runtime's own MarshalJSON
type memRecorder struct {
	mu    sync.Mutex
	lines []json.RawMessage
}

func (m *memRecorder) RecordEvent(ev trace.Event) {
	b, err := json.Marshal(ev)
	if err != nil {
		panic(err)
	}
	m.mu.Lock()
	m.lines = append(m.lines, b)
	m.mu.Unlock()
}
func (m *memRecorder) take() []json.RawMessage {
	m.mu.Lock()
	defer m.mu.Unlock()
	l := m.lines
	m.lines = nil
	return l
}

// fileTail reads the lines the file recorder appended to trace-<self>-*.log
type fileTail struct {
	dir, self string
	f         *os.File
	rest      []byte
}

func (t *fileTail) take() ([]json.RawMessage, error) {
	if t.f == nil {
		m, _ := filepath.Glob(filepath.Join(t.dir, "trace-"+t.self+"-*.log"))
		if len(m) == 0 {
			return nil, nil
		}
		if len(m) > 1 {
			return nil, fmt.Errorf("more than one trace file for self %s in %s", t.self, t.dir)
		}
		f, err := os.Open(m[0])
		if err != nil {
			return nil, err
		}
		t.f = f
	}
	b, err := io.ReadAll(t.f)
	if err != nil {
		return nil, err
	}
	t.rest = append(t.rest, b...)
	var out []json.RawMessage
	for {
		i := bytes.IndexByte(t.rest, '\n')
		if i < 0 {
			break
		}
		ln := bytes.TrimSpace(t.rest[:i])
		t.rest = t.rest[i+1:]
		if len(ln) > 0 {
			out = append(out, json.RawMessage(append([]byte(nil), ln...)))
		}
	}
	return out, nil
}
func (t *fileTail) close() {
	if t.f != nil {
		t.f.Close()
	}
}

// ---------------------------------------------------------------------------------- one context

type gtOp struct {
	T    string   `json:"t"`
	P    string   `json:"p"`
	N    string   `json:"n"`
	Ix   []string `json:"ix"`
	V    string   `json:"v"`
	Ch   []int    `json:"ch"`
	Kind string   `json:"kind"` // local | shared | chan | tcp
	Key  string   `json:"key"`  // identity of the variable cell (locals and shared variables)
	Ck   string   `json:"ck"`   // the variable owning the cell's clock (all cells of a function-valued variable share one clock)
}

type cctx struct {
	idx    int // 1-based
	arch   string
	self   tla.Value
	g      *gate
	ctx    *distsys.MPCalContext
	done   chan error
	mem    *memRecorder
	tail   *fileTail
	k      int // attempts granted so far
	parked string
	ended  bool
	runErr error

	cur     *Att
	ops     []gtOp
	bodyErr error
	commits int
	aborts  int
}

type world struct {
	cs      *Case
	ctxs    []*cctx
	tok     int
	tokMu   sync.Mutex
	recMode string
}

func (w *world) fresh() int {
	w.tokMu.Lock()
	defer w.tokMu.Unlock()
	w.tok++
	return w.tok
}

func chainOf(v tla.Value) []int {
	out := []int{}
	if !v.IsTuple() {
		return out
	}
	it := v.AsTuple().Iterator()
	for !it.Done() {
		_, e := it.Next()
		if e.IsNumber() {
			out = append(out, int(e.AsNumber()))
		}
	}
	return out
}

func tokVal(chain []int) tla.Value {
	vs := make([]tla.Value, len(chain))
	for i, c := range chain {
		vs[i] = tla.MakeNumber(int32(c))
	}
	return tla.MakeTuple(vs...)
}

func archOf(i int) string {
	if i <= 2 {
		return "A"
	}
	return "B"
}

var watchdog = 180 * time.Second

func ixStrings(ix []tla.Value) []string {
	out := []string{}
	for _, v := range ix {
		out = append(out, v.String())
	}
	return out
}

// body of every section of context c: performs the ops of the attempt the harness selected
func (w *world) body(c *cctx) func(iface distsys.ArchetypeInterface) error {
	return func(iface distsys.ArchetypeInterface) (err error) {
		att := c.cur
		if att == nil {
			panic("c18drv: attempt without a program")
		}
		defer func() { c.bodyErr = err }()
		var reads []tla.Value // values returned by the read ops, by op position (zero Value for writes)
		local := func(name string) distsys.ArchetypeResourceHandle {
			return iface.RequireArchetypeResource(c.arch + "." + name)
		}
		ref := func(name string) (distsys.ArchetypeResourceHandle, error) {
			return iface.RequireArchetypeResourceRef(c.arch + "." + name)
		}
		for _, op := range att.Ops {
			var h distsys.ArchetypeResourceHandle
			var ix []tla.Value
			var name, kind, key, ck string
			isRead := false
			switch op.O {
			case "rl", "wl":
				name, kind = op.R, "local"
				h = local(name)
				key = fmt.Sprintf("c%d.%s", c.idx, name)
				ck = key
				isRead = op.O == "rl"
			case "rf", "wf":
				name, kind = "f", "local"
				h = local(name)
				ix = []tla.Value{tla.MakeNumber(int32(op.I))}
				key = fmt.Sprintf("c%d.f[%d]", c.idx, op.I)
				ck = fmt.Sprintf("c%d.f", c.idx)
				isRead = op.O == "rf"
			case "rs", "ws":
				name, kind = op.R, "shared"
				if h, err = ref(name); err != nil {
					return err
				}
				key = "sh." + name
				ck = key
				isRead = op.O == "rs"
			case "rm", "wm":
				name, kind = "m", "shared"
				if h, err = ref(name); err != nil {
					return err
				}
				ix = []tla.Value{tla.MakeNumber(int32(op.I))}
				key = fmt.Sprintf("sh.m[%d]", op.I)
				ck = "sh.m"
				isRead = op.O == "rm"
			case "so":
				name, kind = fmt.Sprintf("o%d", op.I), "chan"
				if h, err = ref(name); err != nil {
					return err
				}
				key = fmt.Sprintf("ch.%d.%d", c.idx, op.I)
			case "ri":
				name, kind = fmt.Sprintf("i%d", op.I), "chan"
				if h, err = ref(name); err != nil {
					return err
				}
				key = fmt.Sprintf("ch.%d.%d", op.I, c.idx)
				isRead = true
			case "st":
				name, kind = "net", "tcp"
				if h, err = ref(name); err != nil {
					return err
				}
				ix = []tla.Value{tla.MakeNumber(int32(op.I))}
				key = fmt.Sprintf("tcp.%d", op.I)
			case "rt":
				name, kind = "net", "tcp"
				if h, err = ref(name); err != nil {
					return err
				}
				ix = []tla.Value{iface.Self()}
				key = fmt.Sprintf("tcp.%d", c.idx)
				isRead = true
			default:
				panic("c18drv: unknown op " + op.O)
			}
			if isRead {
				var v tla.Value
				v, err = iface.Read(h, ix)
				if err != nil {
					return err
				}
				reads = append(reads, v)
				c.ops = append(c.ops, gtOp{T: "read", P: c.arch, N: name, Ix: ixStrings(ix), V: v.String(), Ch: chainOf(v), Kind: kind, Key: key, Ck: ck})
			} else {
				chain := []int{}
				if op.Rel > 0 && op.Rel <= len(reads) && reads[op.Rel-1].IsTuple() {
					chain = append(chain, chainOf(reads[op.Rel-1])...)
				}
				chain = append(chain, w.fresh())
				v := tokVal(chain)
				err = iface.Write(h, ix, v)
				if err != nil {
					return err
				}
				reads = append(reads, tla.Value{})
				c.ops = append(c.ops, gtOp{T: "write", P: c.arch, N: name, Ix: ixStrings(ix), V: v.String(), Ch: chain, Kind: kind, Key: key, Ck: ck})
			}
		}
		if att.Ab {
			return distsys.ErrCriticalSectionAborted
		}
		target := c.arch + ".Done"
		if att.Next > 0 {
			target = fmt.Sprintf("%s.s%d", c.arch, att.Next)
		}
		err = iface.Goto(target)
		if err == nil {
			c.ops = append(c.ops, gtOp{T: "write", P: "", N: ".pc", Ix: []string{}, V: tla.MakeString(target).String(), Ch: []int{}, Kind: "local", Key: fmt.Sprintf("c%d..pc", c.idx), Ck: fmt.Sprintf("c%d..pc", c.idx)})
		}
		return err
	}
}

var envMu sync.Mutex

func freeAddrs(n int) ([]string, error) {
	var ls []net.Listener
	var out []string
	for i := 0; i < n; i++ {
		l, err := net.Listen("tcp", "127.0.0.1:0")
		if err != nil {
			return nil, err
		}
		ls = append(ls, l)
		out = append(out, l.Addr().String())
	}
	for _, l := range ls {
		l.Close()
	}
	return out, nil
}

// runCase executes one pattern and returns its lines
func runCase(cs *Case, traceRoot string, seq int, recMode string) (lines []rec) {
	w := &world{cs: cs, recMode: recMode}
	caseDir := filepath.Join(traceRoot, fmt.Sprintf("case%06d", seq))
	uses := map[string]bool{}
	maxSec := map[int]int{}
	for _, a := range cs.Atts {
		if a.Sec > maxSec[a.C] {
			maxSec[a.C] = a.Sec
		}
		if a.Next > maxSec[a.C] {
			maxSec[a.C] = a.Next
		}
		for _, op := range a.Ops {
			switch op.O {
			case "rs", "ws":
				uses["sh."+op.R] = true
			case "rm", "wm":
				uses["sh.m"] = true
			case "so":
				uses[fmt.Sprintf("ch.%d.%d", a.C, op.I)] = true
			case "ri":
				uses[fmt.Sprintf("ch.%d.%d", op.I, a.C)] = true
			case "st", "rt":
				uses["tcp"] = true
			}
		}
	}
	zero := tokVal([]int{0})
	shared := map[string]*resources.LocalSharedManager{}
	for _, n := range []string{"x", "y"} {
		if uses["sh."+n] {
			shared[n] = resources.NewLocalSharedManager(zero, resources.WithLocalSharedResourceTimeout(watchdog))
		}
	}
	if uses["sh.m"] {
		shared["m"] = resources.NewLocalSharedManager(tla.MakeTuple(zero, zero), resources.WithLocalSharedResourceTimeout(watchdog))
	}
	chans := map[string]chan tla.Value{}
	for i := 1; i <= cs.N; i++ {
		for j := 1; j <= cs.N; j++ {
			k := fmt.Sprintf("ch.%d.%d", i, j)
			if uses[k] {
				chans[k] = make(chan tla.Value, 256)
			}
		}
	}
	var addrs []string
	if uses["tcp"] {
		var err error
		if addrs, err = freeAddrs(cs.N); err != nil {
			return []rec{{"e": "case", "id": cs.ID, "seq": seq}, {"e": "infra", "what": "no free port: " + err.Error()}}
		}
	}
	initStore := map[string]string{}
	ctxDescr := []rec{}

	envMu.Lock()
	// every context creates its log file in PGO_TRACE_DIR (also when SetTraceRecorder replaces the recorder)
	os.Setenv("PGO_TRACE_DIR", caseDir)
	for i := 1; i <= cs.N; i++ {
		c := &cctx{idx: i, arch: archOf(i), self: tla.MakeNumber(int32(i)), g: &gate{arrive: make(chan string), grant: make(chan bool)}, done: make(chan error, 1)}
		var secs []distsys.MPCalCriticalSection
		for s := 1; s <= maxSec[i]; s++ {
			secs = append(secs, distsys.MPCalCriticalSection{Name: fmt.Sprintf("%s.s%d", c.arch, s), Body: w.body(c)})
		}
		secs = append(secs, distsys.MPCalCriticalSection{Name: c.arch + ".Done", Body: func(distsys.ArchetypeInterface) error { return distsys.ErrDone }})
		first := c.arch + ".Done"
		for _, a := range cs.Atts {
			if a.C == i {
				first = fmt.Sprintf("%s.s%d", c.arch, a.Sec)
				break
			}
		}
		arch := c.arch
		archetype := distsys.MPCalArchetype{
			Name: arch, Label: first,
			JumpTable: distsys.MakeMPCalJumpTable(secs...), ProcTable: distsys.MakeMPCalProcTable(),
			PreAmble: func(iface distsys.ArchetypeInterface) {
				iface.EnsureArchetypeResourceLocal(arch+".v", zero)
				iface.EnsureArchetypeResourceLocal(arch+".w", zero)
				iface.EnsureArchetypeResourceLocal(arch+".f", tla.MakeTuple(zero, zero))
			},
		}
		initStore[fmt.Sprintf("c%d..pc", i)] = tla.MakeString(first).String()
		initStore[fmt.Sprintf("c%d.v", i)] = zero.String()
		initStore[fmt.Sprintf("c%d.w", i)] = zero.String()
		initStore[fmt.Sprintf("c%d.f[1]", i)] = zero.String()
		initStore[fmt.Sprintf("c%d.f[2]", i)] = zero.String()
		cfg := []distsys.MPCalContextConfigFn{distsys.SetFairnessCounter(c.g)}
		wrap := func(r distsys.ArchetypeResource) distsys.ArchetypeResource {
			return &spy{inner: r, commits: &c.commits, aborts: &c.aborts}
		}
		for n, m := range shared {
			cfg = append(cfg, distsys.EnsureArchetypeRefParam(n, wrap(m.MakeLocalShared())))
		}
		for j := 1; j <= cs.N; j++ {
			if ch, ok := chans[fmt.Sprintf("ch.%d.%d", i, j)]; ok {
				cfg = append(cfg, distsys.EnsureArchetypeRefParam(fmt.Sprintf("o%d", j), wrap(resources.NewOutputChan(ch))))
			}
			if ch, ok := chans[fmt.Sprintf("ch.%d.%d", j, i)]; ok {
				cfg = append(cfg, distsys.EnsureArchetypeRefParam(fmt.Sprintf("i%d", j), wrap(resources.NewInputChan(ch, resources.WithInputChanReadTimeout(150*time.Millisecond)))))
			}
		}
		if uses["tcp"] {
			me := i
			mb := resources.NewTCPMailboxes(func(idx tla.Value) (resources.MailboxKind, string) {
				j := int(idx.AsNumber())
				if j == me {
					return resources.MailboxesLocal, addrs[j-1]
				}
				return resources.MailboxesRemote, addrs[j-1]
			}, resources.WithMailboxesDialTimeout(watchdog), resources.WithMailboxesReadTimeout(watchdog), resources.WithMailboxesWriteTimeout(watchdog))
			// realise the local mailbox now, so that peers can dial it before its owner first reads
			func() {
				defer func() {
					if r := recover(); r != nil {
						lines = append(lines, rec{"e": "infra", "what": fmt.Sprint(r)})
					}
				}()
				mb.Index(distsys.ArchetypeInterface{}, c.self)
			}()
			cfg = append(cfg, distsys.EnsureArchetypeRefParam("net", wrap(mb)))
		}
		if recMode == "mem" {
			c.mem = &memRecorder{}
			cfg = append(cfg, distsys.SetTraceRecorder(c.mem))
		} else {
			c.tail = &fileTail{dir: caseDir, self: strings.ReplaceAll(c.self.String(), "\"", "")}
		}
		c.ctx = distsys.NewMPCalContext(c.self, archetype, cfg...)
		w.ctxs = append(w.ctxs, c)
		ctxDescr = append(ctxDescr, rec{"a": c.arch, "s": c.self.String()})
		shared0 := map[string]string{"sh.x": zero.String(), "sh.y": zero.String(), "sh.m[1]": zero.String(), "sh.m[2]": zero.String()}
		for k, v := range shared0 {
			initStore[k] = v
		}
	}
	envMu.Unlock()
	if len(lines) > 0 { // infra failure while setting up
		return append([]rec{{"e": "case", "id": cs.ID, "seq": seq, "prog": cs}}, lines...)
	}
	lines = append(lines, rec{"e": "case", "id": cs.ID, "seq": seq, "rec": recMode, "ctxs": ctxDescr, "init": initStore, "n": cs.N, "prog": cs})

	takeLogs := func(c *cctx) ([]json.RawMessage, error) {
		if c.mem != nil {
			return c.mem.take(), nil
		}
		return c.tail.take()
	}
	wait := func(c *cctx) error {
		select {
		case pc := <-c.g.arrive:
			c.parked = pc
			return nil
		case err := <-c.done:
			c.ended = true
			c.runErr = err
			return nil
		case <-time.After(watchdog):
			return fmt.Errorf("watchdog: context %d did not come back to the gate", c.idx)
		}
	}
	// start all contexts: each runs up to its first gate
	for _, c := range w.ctxs {
		go func(c *cctx) {
			var err error
			defer func() {
				if r := recover(); r != nil {
					if _, ok := r.(stopSentinel); ok {
						c.done <- errStopped
						return
					}
					c.done <- fmt.Errorf("panic: %v", r)
					return
				}
				c.done <- err
			}()
			err = c.ctx.Run()
		}(c)
	}
	abandon := func(what string) {
		lines = append(lines, rec{"e": "infra", "what": what})
	}
	started := true
	for _, c := range w.ctxs {
		if err := wait(c); err != nil {
			abandon(err.Error())
			started = false
		}
	}
	diverged := ""
	if started {
		for ai := range cs.Atts {
			att := &cs.Atts[ai]
			c := w.ctxs[att.C-1]
			want := fmt.Sprintf("%s.s%d", c.arch, att.Sec)
			if c.ended || c.parked != want {
				diverged = fmt.Sprintf("attempt %d: context %d is at %q (ended=%v), the pattern expects %q", ai+1, att.C, c.parked, c.ended, want)
				break
			}
			c.cur, c.ops, c.bodyErr, c.commits, c.aborts = att, nil, nil, 0, 0
			c.ops = append(c.ops, gtOp{T: "read", P: "", N: ".pc", Ix: []string{}, V: tla.MakeString(want).String(), Ch: []int{}, Kind: "local", Key: fmt.Sprintf("c%d..pc", c.idx), Ck: fmt.Sprintf("c%d..pc", c.idx)})
			c.k++
			c.g.grant <- true
			if err := wait(c); err != nil {
				abandon(err.Error())
				diverged = "hang"
				break
			}
			logs, err := takeLogs(c)
			if err != nil {
				abandon(err.Error())
				break
			}
			if logs == nil {
				logs = []json.RawMessage{}
			}
			aborted := c.bodyErr != nil || c.aborts > 0
			l := rec{"e": "att", "c": c.idx, "k": c.k, "sec": att.Sec, "ab": aborted, "ops": c.ops, "logs": logs}
			if c.bodyErr != nil && !errors.Is(c.bodyErr, distsys.ErrCriticalSectionAborted) {
				l["bodyerr"] = c.bodyErr.Error()
			}
			if c.ended && c.runErr != nil {
				l["runerr"] = c.runErr.Error()
			}
			lines = append(lines, l)
			if aborted != att.Ab {
				diverged = fmt.Sprintf("attempt %d of the pattern: outcome abort=%v, the pattern expects abort=%v (%v)", ai+1, aborted, att.Ab, c.bodyErr)
				break
			}
		}
	}
	// let every context finish: contexts parked at Done return from Run, the others are stopped
	for _, c := range w.ctxs {
		if c.ended {
			continue
		}
		if c.parked == c.arch+".Done" {
			c.g.grant <- true
		} else {
			select {
			case c.g.grant <- false:
			case <-time.After(watchdog):
			}
		}
	}
	for _, c := range w.ctxs {
		if c.ended {
			continue
		}
		select {
		case err := <-c.done:
			c.ended = true
			c.runErr = err
		case <-time.After(watchdog):
			abandon(fmt.Sprintf("watchdog: context %d did not terminate", c.idx))
		}
	}
	extra := []int{}
	for _, c := range w.ctxs {
		logs, _ := takeLogs(c)
		extra = append(extra, len(logs))
		if c.tail != nil {
			c.tail.close()
		}
	}
	end := rec{"e": "end", "extra": extra}
	if diverged != "" {
		end["diverged"] = diverged
	}
	lines = append(lines, end)
	os.RemoveAll(caseDir)
	return lines
}

var errStopped = errors.New("stopped by harness")

func main() {
	mode := flag.String("mode", "patterns", "")
	casesF := flag.String("cases", "cases.ndjson", "")
	outF := flag.String("out", "trace.ndjson", "")
	traceRoot := flag.String("tracedir", "", "scratch directory for PGO_TRACE_DIR")
	recMode := flag.String("rec", "file", "file (PGO_TRACE_DIR recorder) | mem (SetTraceRecorder) | alt (alternate)")
	workers := flag.Int("workers", 4, "")
	seed := flag.Int64("seed", 1, "")
	reps := flag.Int("reps", 1, "")
	clients := flag.Int("clients", 2, "")
	flag.Parse()
	if *traceRoot == "" {
		fmt.Fprintln(os.Stderr, "c18drv: -tracedir required")
		os.Exit(2)
	}
	if os.Getenv("PGO_TRACE_DIR") == "" {
		// vector clocks are enabled by a package-level init reading PGO_TRACE_DIR: start over with it set
		os.MkdirAll(*traceRoot, 0750)
		os.Setenv("PGO_TRACE_DIR", *traceRoot)
		exe, err := os.Executable()
		if err != nil {
			panic(err)
		}
		if err := syscall.Exec(exe, os.Args, os.Environ()); err != nil {
			panic(err)
		}
	}
	log.SetOutput(os.Stderr)
	fh, err := os.Create(*outF)
	if err != nil {
		panic(err)
	}
	outW = bufio.NewWriterSize(fh, 1<<20)
	defer func() { outW.Flush(); fh.Close() }()

	switch *mode {
	case "patterns":
		var cases []*Case
		cf, err := os.Open(*casesF)
		if err != nil {
			panic(err)
		}
		sc := bufio.NewScanner(cf)
		sc.Buffer(make([]byte, 1<<20), 1<<26)
		for sc.Scan() {
			if len(strings.TrimSpace(sc.Text())) == 0 {
				continue
			}
			c := &Case{}
			if err := json.Unmarshal(sc.Bytes(), c); err != nil {
				panic(fmt.Errorf("bad case line: %v: %s", err, sc.Text()))
			}
			cases = append(cases, c)
		}
		cf.Close()
		type job struct {
			cs  *Case
			seq int
			rec string
		}
		jobs := make(chan job)
		var wg sync.WaitGroup
		for i := 0; i < *workers; i++ {
			wg.Add(1)
			go func() {
				defer wg.Done()
				for j := range jobs {
					emitAll(runCase(j.cs, *traceRoot, j.seq, j.rec))
				}
			}()
		}
		seq := 0
		for r := 0; r < *reps; r++ {
			for ci, c := range cases {
				seq++
				rm := *recMode
				if rm == "alt" { // every case meets both recorders when reps >= 2
					rm = []string{"file", "mem"}[(ci+r)%2]
				}
				jobs <- job{c, seq, rm}
			}
		}
		close(jobs)
		wg.Wait()
	case "locksvc":
		rng := rand.New(rand.NewSource(*seed))
		for r := 0; r < *reps; r++ {
			emitAll(runLockSvc(*traceRoot, r+1, *clients, rng))
		}
	default:
		panic("unknown mode")
	}
}
