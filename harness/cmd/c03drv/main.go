// c03drv: evaluates the operator table exported by TLC (spec/C03/OpsOracle.tla, rows.ndjson) on the
// real runtime library distsys/tla and records, per row, what the library did:
//
//	out = "value"   the call returned; str = the result printed as a TLA+ expression
//	out = "tlaerr"  the call panicked with an error wrapping tla.ErrTLAType (a loud TLA+ type error)
//	out = "panic"   the call panicked with anything else
//	out = "hang"    the call consumed more than -cpu seconds of CPU (or -heap MiB) on a tiny value;
//	                the process then exits with status 3 and the check restarts it after that row
//
// The arguments are built with the public constructors only, the functions are called the way the
// code generator calls them (MPCalGoCodegenPass), every call is guarded by recover. No verdict is
// taken here: TLC (spec/C03/OpsJudge.tla) compares each recorded result with its own.
package main

import (
	"bufio"
	"encoding/json"
	"errors"
	"flag"
	"fmt"
	"os"
	"runtime"
	"syscall"
	"time"

	"github.com/DistCompiler/pgo/distsys/tla"
	"verifharness/internal/c03val"
)

type row struct {
	ID   int           `json:"id"`
	Op   string        `json:"op"`
	Lam  string        `json:"lam"`
	Cls  string        `json:"cls"`
	Args []c03val.Term `json:"args"`
}

type result struct {
	ID  int    `json:"id"`
	Out string `json:"out"`
	Str string `json:"str"`
	Msg string `json:"msg"`
}

func num(n int32) tla.Value { return tla.MakeNumber(n) }

// ---- the named lambdas of OpsOracle.tla, built from library calls as generated code would

func pred1(lam string, x tla.Value) bool {
	switch lam {
	case "true":
		return tla.ModuleTRUE.AsBool()
	case "false":
		return tla.ModuleFALSE.AsBool()
	case "gt1":
		return tla.ModuleGreaterThanSymbol(x, num(1)).AsBool()
	case "even":
		return tla.ModuleEqualsSymbol(tla.ModulePercentSymbol(x, num(2)), num(0)).AsBool()
	case "in12":
		return tla.ModuleInSymbol(x, tla.MakeSet(num(1), num(2))).AsBool()
	case "eq2":
		return tla.ModuleEqualsSymbol(x, num(2)).AsBool()
	case "card1":
		return tla.ModuleEqualsSymbol(tla.ModuleCardinality(x), num(1)).AsBool()
	case "len2":
		return tla.ModuleEqualsSymbol(tla.ModuleLen(x), num(2)).AsBool()
	case "isa":
		return tla.ModuleEqualsSymbol(x, tla.MakeString("a")).AsBool()
	}
	panic("c03drv: unknown predicate " + lam)
}

func pred2(lam string, x, y tla.Value) bool {
	switch lam {
	case "lt":
		return tla.ModuleLessThanSymbol(x, y).AsBool()
	case "sum3":
		return tla.ModuleEqualsSymbol(tla.ModulePlusSymbol(x, y), num(3)).AsBool()
	case "neq":
		return tla.ModuleNotEqualsSymbol(x, y).AsBool()
	}
	panic("c03drv: unknown predicate " + lam)
}

func body1(lam string, x tla.Value) tla.Value {
	switch lam {
	case "inc":
		return tla.ModulePlusSymbol(x, num(1))
	case "pair":
		return tla.MakeTuple(x, x)
	case "sing":
		return tla.MakeSet(x)
	case "mod2":
		return tla.ModulePercentSymbol(x, num(2))
	case "id":
		return x
	case "const7":
		return num(7)
	}
	panic("c03drv: unknown body " + lam)
}

func body2(lam string, x, y tla.Value) tla.Value {
	switch lam {
	case "add":
		return tla.ModulePlusSymbol(x, y)
	case "tup":
		return tla.MakeTuple(x, y)
	}
	panic("c03drv: unknown body " + lam)
}

func anchor(lam string) func(tla.Value) tla.Value {
	return func(at tla.Value) tla.Value {
		switch lam {
		case "set9":
			return num(9)
		case "inc":
			return tla.ModulePlusSymbol(at, num(1))
		case "id":
			return at
		case "app0":
			return tla.ModuleAppend(at, num(0))
		}
		panic("c03drv: unknown anchor body " + lam)
	}
}

type V = tla.Value

func bin(f func(a, b V) V) func(string, []V) V {
	return func(_ string, a []V) V { return f(a[0], a[1]) }
}
func un(f func(a V) V) func(string, []V) V {
	return func(_ string, a []V) V { return f(a[0]) }
}

var ops = map[string]func(lam string, a []V) V{
	"TRUE":        func(string, []V) V { return tla.ModuleTRUE },
	"FALSE":       func(string, []V) V { return tla.ModuleFALSE },
	"BOOLEAN":     func(string, []V) V { return tla.ModuleBOOLEAN },
	"Zero":        func(string, []V) V { return tla.ModuleZero },
	"Assert":      bin(tla.ModuleAssert),
	"ToString":    un(tla.ModuleToString),
	"Eq":          bin(tla.ModuleEqualsSymbol),
	"Neq":         bin(tla.ModuleNotEqualsSymbol),
	"Not":         un(tla.ModuleLogicalNotSymbol),
	"Equiv":       bin(tla.ModuleEquivSymbol),
	"Plus":        bin(tla.ModulePlusSymbol),
	"Minus":       bin(tla.ModuleMinusSymbol),
	"Times":       bin(tla.ModuleAsteriskSymbol),
	"Exp":         bin(tla.ModuleSuperscriptSymbol),
	"Le":          bin(tla.ModuleLessThanOrEqualSymbol),
	"Ge":          bin(tla.ModuleGreaterThanOrEqualSymbol),
	"Lt":          bin(tla.ModuleLessThanSymbol),
	"Gt":          bin(tla.ModuleGreaterThanSymbol),
	"DotDot":      bin(tla.ModuleDotDotSymbol),
	"Div":         bin(tla.ModuleDivSymbol),
	"Mod":         bin(tla.ModulePercentSymbol),
	"Neg":         un(tla.ModuleNegationSymbol),
	"In":          bin(tla.ModuleInSymbol),
	"NotIn":       bin(tla.ModuleNotInSymbol),
	"Intersect":   bin(tla.ModuleIntersectSymbol),
	"Union":       bin(tla.ModuleUnionSymbol),
	"SubsetEq":    bin(tla.ModuleSubsetOrEqualSymbol),
	"SetMinus":    bin(tla.ModuleBackslashSymbol),
	"SUBSET":      un(tla.ModulePrefixSubsetSymbol),
	"UNION":       un(tla.ModulePrefixUnionSymbol),
	"IsFiniteSet": un(tla.ModuleIsFiniteSet),
	"Cardinality": un(tla.ModuleCardinality),
	"InSeq":       func(_ string, a []V) V { return tla.ModuleInSymbol(a[0], tla.ModuleSeq(a[1])) },
	"Len":         un(tla.ModuleLen),
	"Concat":      bin(tla.ModuleOSymbol),
	"Append":      bin(tla.ModuleAppend),
	"Head":        un(tla.ModuleHead),
	"Tail":        un(tla.ModuleTail),
	"SubSeq":      func(_ string, a []V) V { return tla.ModuleSubSeq(a[0], a[1], a[2]) },
	"MapsTo":      bin(tla.ModuleColonGreaterThanSymbol),
	"AtAt":        bin(tla.ModuleDoubleAtSignSymbol),
	"DOMAIN":      un(tla.ModuleDomainSymbol),
	"Apply":       func(_ string, a []V) V { return a[0].ApplyFunction(a[1]) },
	"Apply2":      func(_ string, a []V) V { return a[0].ApplyFunction(tla.MakeTuple(a[1], a[2])) },
	"Except1": func(lam string, a []V) V {
		return tla.FunctionSubstitution(a[0], []tla.FunctionSubstitutionRecord{{Keys: []V{a[1]}, Value: anchor(lam)}})
	},
	"Except2": func(lam string, a []V) V {
		return tla.FunctionSubstitution(a[0], []tla.FunctionSubstitutionRecord{{Keys: []V{a[1], a[2]}, Value: anchor(lam)}})
	},
	"ExceptTwo": func(lam string, a []V) V {
		return tla.FunctionSubstitution(a[0], []tla.FunctionSubstitutionRecord{
			{Keys: []V{a[1]}, Value: anchor(lam)}, {Keys: []V{a[2]}, Value: anchor(lam)}})
	},
	"ExceptT": func(lam string, a []V) V {
		return tla.FunctionSubstitution(a[0], []tla.FunctionSubstitutionRecord{{Keys: []V{tla.MakeTuple(a[1], a[2])}, Value: anchor(lam)}})
	},
	"Forall1": func(lam string, a []V) V {
		return tla.QuantifiedUniversal([]V{a[0]}, func(x []V) bool { return pred1(lam, x[0]) })
	},
	"Exists1": func(lam string, a []V) V {
		return tla.QuantifiedExistential([]V{a[0]}, func(x []V) bool { return pred1(lam, x[0]) })
	},
	"Forall2": func(lam string, a []V) V {
		return tla.QuantifiedUniversal([]V{a[0], a[1]}, func(x []V) bool { return pred2(lam, x[0], x[1]) })
	},
	"Exists2": func(lam string, a []V) V {
		return tla.QuantifiedExistential([]V{a[0], a[1]}, func(x []V) bool { return pred2(lam, x[0], x[1]) })
	},
	"Refine": func(lam string, a []V) V {
		return tla.SetRefinement(a[0], func(x V) bool { return pred1(lam, x) })
	},
	"Compr1": func(lam string, a []V) V {
		return tla.SetComprehension([]V{a[0]}, func(x []V) V { return body1(lam, x[0]) })
	},
	"Compr2": func(lam string, a []V) V {
		return tla.SetComprehension([]V{a[0], a[1]}, func(x []V) V { return body2(lam, x[0], x[1]) })
	},
	"Cross2": func(_ string, a []V) V { return tla.CrossProduct(a[0], a[1]) },
	"Cross3": func(_ string, a []V) V { return tla.CrossProduct(a[0], a[1], a[2]) },
	"Choose": func(lam string, a []V) V {
		return tla.Choose(a[0], func(x V) bool { return pred1(lam, x) })
	},
	// the same set under three insertion orders: all three choices are reported
	"ChooseAny": func(lam string, a []V) V {
		var cs []V
		for _, s := range a {
			cs = append(cs, tla.Choose(s, func(x V) bool { return pred1(lam, x) }))
		}
		return tla.MakeTuple(cs...)
	},
	"MkFn1": func(lam string, a []V) V {
		return tla.MakeFunction([]V{a[0]}, func(x []V) V { return body1(lam, x[0]) })
	},
	"MkFn2": func(lam string, a []V) V {
		return tla.MakeFunction([]V{a[0], a[1]}, func(x []V) V { return body2(lam, x[0], x[1]) })
	},
	"RecSet2": func(_ string, a []V) V {
		return tla.MakeRecordSet([]tla.RecordField{{Key: tla.MakeString("a"), Value: a[0]}, {Key: tla.MakeString("b"), Value: a[1]}})
	},
	"FnSet": func(_ string, a []V) V { return tla.MakeFunctionSet(a[0], a[1]) },
	// `with x \in S`: every index below the cardinality selects a member
	"SelectAll": func(_ string, a []V) V {
		n := a[0].AsSet().Len()
		var es []V
		for i := 0; i < n; i++ {
			es = append(es, a[0].SelectElement(uint(i)))
		}
		return tla.MakeTuple(es...)
	},
	"SelectOOR": func(_ string, a []V) V { return a[0].SelectElement(uint(a[0].AsSet().Len())) },
}

func cpuSeconds() float64 {
	var ru syscall.Rusage
	if err := syscall.Getrusage(syscall.RUSAGE_SELF, &ru); err != nil {
		return 0
	}
	return float64(ru.Utime.Sec) + float64(ru.Utime.Usec)/1e6 + float64(ru.Stime.Sec) + float64(ru.Stime.Usec)/1e6
}

func evalRow(r row) (res result) {
	res.ID = r.ID
	defer func() {
		if p := recover(); p != nil {
			res.Str = ""
			res.Msg = fmt.Sprint(p)
			if len(res.Msg) > 300 {
				res.Msg = res.Msg[:300]
			}
			if err, ok := p.(error); ok && errors.Is(err, tla.ErrTLAType) {
				res.Out = "tlaerr"
			} else {
				res.Out = "panic"
			}
		}
	}()
	f, ok := ops[r.Op]
	if !ok {
		res.Out, res.Msg = "unsupported", "driver has no binding for operator "+r.Op
		return
	}
	args := make([]V, len(r.Args))
	for i, t := range r.Args {
		args[i] = c03val.Build(t)
	}
	v := f(r.Lam, args)
	res.Out = "value"
	if r.Op == "ToString" && v.IsString() {
		// ToString(v) is *some* string in TLA+; the property C03 shares with C05 is that the
		// string is a TLA+ expression denoting v: report the text itself for TLC to evaluate
		res.Str = c03val.FixMinInt(v.AsString())
	} else {
		res.Str = c03val.Print(v)
	}
	return
}

func main() {
	rowsPath := flag.String("rows", "rows.ndjson", "rows exported by TLC")
	outPath := flag.String("out", "results.ndjson", "results (appended)")
	from := flag.Int("from", 1, "first row id to evaluate")
	only := flag.Int("only", 0, "evaluate only this row id")
	cpuLimit := flag.Float64("cpu", 6, "CPU seconds one call may consume before it is recorded as a hang")
	heapLimit := flag.Uint64("heap", 1536, "MiB of heap one call may reach before it is recorded as a hang")
	stall := flag.Duration("stall", 10*time.Minute, "wall-clock backstop per row (exit 4, inconclusive)")
	flag.Parse()

	var rows []row
	c03val.ReadLines(*rowsPath, func(b []byte) {
		var r row
		if err := json.Unmarshal(b, &r); err != nil {
			fmt.Fprintln(os.Stderr, "bad row:", err)
			os.Exit(2)
		}
		if (*only == 0 && r.ID >= *from) || r.ID == *only {
			rows = append(rows, r)
		}
	})
	fh, err := os.OpenFile(*outPath, os.O_CREATE|os.O_APPEND|os.O_WRONLY, 0o644)
	if err != nil {
		panic(err)
	}
	w := bufio.NewWriter(fh)
	emit := func(res result) {
		b, _ := json.Marshal(res)
		w.Write(b)
		w.WriteByte('\n')
	}
	for _, r := range rows {
		done := make(chan result, 1)
		cpu0 := cpuSeconds()
		t0 := time.Now()
		go func(r row) { done <- evalRow(r) }(r)
		tick := time.NewTicker(200 * time.Millisecond)
	wait:
		for {
			select {
			case res := <-done:
				emit(res)
				break wait
			case <-tick.C:
				var ms runtime.MemStats
				used := cpuSeconds() - cpu0
				if used > 1 {
					runtime.ReadMemStats(&ms)
				}
				if used > *cpuLimit || ms.HeapAlloc > *heapLimit<<20 {
					emit(result{ID: r.ID, Out: "hang", Msg: fmt.Sprintf("no result after %.1f CPU-seconds (heap %d MiB)", used, ms.HeapAlloc>>20)})
					w.Flush()
					fh.Close()
					os.Exit(3)
				}
				if time.Since(t0) > *stall {
					w.Flush()
					fh.Close()
					fmt.Fprintf(os.Stderr, "row %d: stalled for %v using %.1f CPU-seconds\n", r.ID, time.Since(t0), used)
					os.Exit(4)
				}
			}
		}
		tick.Stop()
	}
	w.Flush()
	fh.Close()
}
