// c05drv: exercises equality, hashing, container lookup, printing and gob transport of the real
// distsys/tla values on the universe exported by TLC (spec/C05/ValueLaws.tla: vals.ndjson,
// pairs.ndjson) and records plain observations; every law is evaluated by TLC afterwards
// (spec/C05/ValueLawsObs.tla), nothing is judged here.
//
//	-mode plain   pair observations (Equal both ways, Hash, set membership, function lookup,
//	              hashmap.HashMap, immutable.Map with ValueHasher), per-value observations
//	              (String(), gob round trip through one long-lived encoder/decoder pair on a
//	              pipe as the mailboxes use it, alternative construction routes), per-class
//	              observations (size of a set / hashmap holding every value of the class)
//	-mode causal  the same values wrapped with vector clocks (tla.WrapCausal at top level and at
//	              every nesting level); the driver must run with PGO_TRACE_DIR set because the
//	              library reads it at package initialisation (the check re-executes the driver)
package main

import (
	"bufio"
	"encoding/gob"
	"encoding/json"
	"flag"
	"fmt"
	"net"
	"os"
	"sort"
	"time"

	"github.com/DistCompiler/pgo/distsys/hashmap"
	"github.com/DistCompiler/pgo/distsys/tla"
	"verifharness/internal/c03val"
)

type valRow struct {
	ID   int         `json:"id"`
	Cls  string      `json:"cls"`
	Term c03val.Term `json:"term"`
}
type pairRow struct {
	P int `json:"p"`
	I int `json:"i"`
	J int `json:"j"`
}

type rec map[string]interface{}

type V = tla.Value

// guard runs f and reports a panic message instead of propagating it
func guard(f func()) (msg string) {
	defer func() {
		if p := recover(); p != nil {
			msg = fmt.Sprint(p)
			if len(msg) > 200 {
				msg = msg[:200]
			}
			if msg == "" {
				msg = "panic"
			}
		}
	}()
	f()
	return ""
}

func found(f func() bool) (ok bool) {
	defer func() {
		if recover() != nil {
			ok = false
		}
	}()
	return f()
}

// ---- gob transport: one encoder and one decoder over a pipe, a tag before every value (tcpmailboxes.go)

type wire struct {
	a, b net.Conn
	enc  *gob.Encoder
	dec  *gob.Decoder
}

func newWire() *wire {
	a, b := net.Pipe()
	return &wire{a: a, b: b, enc: gob.NewEncoder(a), dec: gob.NewDecoder(b)}
}

// roundTrip returns the decoded value, or an error text ("encode: ..." / "decode: ..." / "stall")
func (w *wire) roundTrip(v V) (out V, errText string) {
	encErr := make(chan error, 1)
	type decRes struct {
		v   V
		err error
	}
	decCh := make(chan decRes, 1)
	go func() {
		defer func() {
			if p := recover(); p != nil {
				encErr <- fmt.Errorf("panic: %v", p)
			}
		}()
		if err := w.enc.Encode(7); err != nil {
			encErr <- err
			return
		}
		encErr <- w.enc.Encode(&v)
	}()
	go func() {
		defer func() {
			if p := recover(); p != nil {
				decCh <- decRes{err: fmt.Errorf("panic: %v", p)}
			}
		}()
		var tag int
		if err := w.dec.Decode(&tag); err != nil {
			decCh <- decRes{err: err}
			return
		}
		var got V
		err := w.dec.Decode(&got)
		decCh <- decRes{v: got, err: err}
	}()
	timeout := time.After(5 * time.Minute)
	var eDone, dDone bool
	var res decRes
	for !(eDone && dDone) {
		select {
		case err := <-encErr:
			eDone = true
			if err != nil {
				w.a.Close()
				w.b.Close()
				return V{}, "encode: " + err.Error()
			}
		case res = <-decCh:
			dDone = true
			if res.err != nil {
				w.a.Close()
				w.b.Close()
				return V{}, "decode: " + res.err.Error()
			}
		case <-timeout:
			w.a.Close()
			w.b.Close()
			return V{}, "stall"
		}
	}
	return res.v, ""
}

func clockList(c *tla.VClock, keys [][2]interface{}) []string {
	// a clock is observed through its public Get on every key used by the driver
	var out []string
	if c == nil {
		return []string{"<nil>"}
	}
	for _, k := range keys {
		out = append(out, fmt.Sprintf("%s/%s=%d", k[0].(string), c03val.Print(k[1].(V)), c.Get(k[0].(string), k[1].(V))))
	}
	sort.Strings(out)
	return out
}

func sameStrings(a, b []string) bool {
	if len(a) != len(b) {
		return false
	}
	for i := range a {
		if a[i] != b[i] {
			return false
		}
	}
	return true
}

var clockKeys = [][2]interface{}{{"AServer", tla.MakeNumber(1)}, {"AClient", tla.MakeNumber(2)}, {"AClient", tla.MakeString("c1")},
	{"ANode", tla.MakeTuple(tla.MakeNumber(1), tla.MakeString("x"))}, {"Nobody", tla.MakeNumber(0)}}

func mkClock(seed int) tla.VClock {
	var c tla.VClock
	n := seed%4 + 1
	for i := 0; i < n; i++ {
		k := clockKeys[(seed+i)%4]
		for j := 0; j <= (seed+i)%3; j++ {
			c = c.Inc(k[0].(string), k[1].(V))
		}
	}
	return c
}

// deepWrap wraps the value and every nested member with a clock
func deepWrap(t c03val.Term, clk tla.VClock) V {
	var v V
	switch t.K {
	case "set":
		var ms []V
		for _, c := range t.A {
			ms = append(ms, deepWrap(c, clk))
		}
		v = tla.MakeSet(ms...)
	case "tup":
		var ms []V
		for _, c := range t.A {
			ms = append(ms, deepWrap(c, clk))
		}
		v = tla.MakeTuple(ms...)
	case "fn":
		var fs []tla.RecordField
		for i := 0; i+1 < len(t.A); i += 2 {
			fs = append(fs, tla.RecordField{Key: deepWrap(t.A[i], clk), Value: deepWrap(t.A[i+1], clk)})
		}
		v = tla.MakeRecord(fs)
	default:
		v = c03val.Build(t)
	}
	return tla.WrapCausal(v, clk)
}

func main() {
	valsPath := flag.String("vals", "vals.ndjson", "")
	pairsPath := flag.String("pairs", "pairs.ndjson", "")
	outDir := flag.String("out", ".", "output directory")
	mode := flag.String("mode", "plain", "plain | causal")
	flag.Parse()

	var vals []valRow
	c03val.ReadLines(*valsPath, func(b []byte) {
		var r valRow
		if err := json.Unmarshal(b, &r); err != nil {
			panic(err)
		}
		vals = append(vals, r)
	})
	byID := map[int]valRow{}
	for _, r := range vals {
		byID[r.ID] = r
	}
	open := func(name string) (*bufio.Writer, func()) {
		fh, err := os.Create(*outDir + "/" + name)
		if err != nil {
			panic(err)
		}
		w := bufio.NewWriter(fh)
		return w, func() { w.Flush(); fh.Close() }
	}
	emit := func(w *bufio.Writer, r rec) {
		b, _ := json.Marshal(r)
		w.Write(b)
		w.WriteByte('\n')
	}

	if *mode == "causal" {
		if os.Getenv("PGO_TRACE_DIR") == "" {
			fmt.Fprintln(os.Stderr, "c05drv -mode causal needs PGO_TRACE_DIR")
			os.Exit(2)
		}
		w, done := open("causal_go.ndjson")
		defer done()
		wr := newWire()
		for n, r := range vals {
			clk := mkClock(n)
			out := rec{"id": r.ID, "panic": ""}
			out["panic"] = guard(func() {
				p := c03val.Build(r.Term)
				wv := tla.WrapCausal(p, clk)
				dv := deepWrap(r.Term, clk)
				out["wrapped"] = wv.GetVClock() != nil
				out["weq"] = wv.Equal(p) && p.Equal(wv) && wv.Equal(wv)
				out["whe"] = wv.Hash() == p.Hash()
				out["deq"] = dv.Equal(p) && p.Equal(dv) && dv.Equal(wv)
				out["dhe"] = dv.Hash() == p.Hash()
				out["wstr"] = c03val.FixMinInt(wv.String())
				out["dstr"] = c03val.FixMinInt(dv.String())
				out["strip"] = wv.StripVClock().Equal(p) && wv.StripVClock().GetVClock() == nil
				// lookups of the plain value among wrapped members and vice versa
				out["wins"] = found(func() bool { return tla.ModuleInSymbol(p, tla.MakeSet(wv)).AsBool() && tla.ModuleInSymbol(wv, tla.MakeSet(p)).AsBool() })
				out["whm"] = found(func() bool {
					h := hashmap.New[int]()
					h.Set(wv, 1)
					_, ok := h.Get(p)
					h.Set(p, 2)
					return ok && len(h.Keys()) == 1
				})
				cb := clockList(wv.GetVClock(), clockKeys)
				out["clock"] = sameStrings(cb, clockList(&clk, clockKeys))
				// re-wrapping merges clocks
				clk2 := mkClock(n + 1)
				rw := tla.WrapCausal(wv, clk2)
				merged := clk.Merge(clk2)
				out["rewrap"] = rw.Equal(p) && sameStrings(clockList(rw.GetVClock(), clockKeys), clockList(&merged, clockKeys))
				for _, x := range []struct {
					name string
					v    V
				}{{"gw", wv}, {"gd", dv}} {
					got, e := wr.roundTrip(x.v)
					out[x.name+"err"] = e
					if e != "" {
						wr = newWire()
						continue
					}
					out[x.name+"dec"] = c03val.Print(got)
					out[x.name+"eq"] = got.Equal(p) && p.Equal(got) && got.Equal(x.v)
					out[x.name+"he"] = got.Hash() == p.Hash()
					out[x.name+"clock"] = sameStrings(clockList(got.GetVClock(), clockKeys), cb)
				}
			})
			emit(w, out)
		}
		// vector clocks on their own: gob round trip through the same wire (as a struct field value)
		wc, donec := open("clocks_go.ndjson")
		defer donec()
		for n := 0; n < 24; n++ {
			clk := mkClock(n)
			out := rec{"n": n}
			out["panic"] = guard(func() {
				v := tla.WrapCausal(tla.MakeNumber(int32(n)), clk)
				got, e := wr.roundTrip(v)
				out["err"] = e
				if e != "" {
					wr = newWire()
					return
				}
				out["same"] = sameStrings(clockList(got.GetVClock(), clockKeys), clockList(&clk, clockKeys))
				m1, m2 := clk.Merge(mkClock(n+5)), mkClock(n+5).Merge(clk)
				out["merge_comm"] = sameStrings(clockList(&m1, clockKeys), clockList(&m2, clockKeys))
			})
			emit(wc, out)
		}
		return
	}

	// ---------------------------------------------------------------- plain mode
	built := map[int]V{}
	for _, r := range vals {
		built[r.ID] = c03val.Build(r.Term)
	}
	wp, donep := open("pairs_go.ndjson")
	c03val.ReadLines(*pairsPath, func(b []byte) {
		var pr pairRow
		if err := json.Unmarshal(b, &pr); err != nil {
			panic(err)
		}
		x, y := built[pr.I], built[pr.J]
		out := rec{"p": pr.P}
		out["panic"] = guard(func() {
			out["eq"] = x.Equal(y)
			out["eqr"] = y.Equal(x)
			out["he"] = x.Hash() == y.Hash()
			out["ins"] = found(func() bool { return tla.ModuleInSymbol(y, tla.MakeSet(x)).AsBool() })
			out["fn"] = found(func() bool {
				f := tla.MakeRecord([]tla.RecordField{{Key: x, Value: tla.MakeNumber(1)}})
				return f.ApplyFunction(y).Equal(tla.MakeNumber(1))
			})
			out["hm"] = found(func() bool {
				h := hashmap.New[int]()
				h.Set(x, 1)
				_, ok := h.Get(y)
				return ok
			})
			out["im"] = found(func() bool { _, ok := tla.MakeSet(x).AsSet().Get(y); return ok })
		})
		emit(wp, out)
	})
	donep()

	wv, donev := open("vals_go.ndjson")
	wr := newWire()
	for _, r := range vals {
		x := built[r.ID]
		out := rec{"id": r.ID}
		out["panic"] = guard(func() {
			out["str"] = c03val.FixMinInt(x.String())
			out["mine"] = c03val.Print(x)
			alt := c03val.BuildAlt(r.Term)
			out["alteq"] = alt.Equal(x) && x.Equal(alt)
			out["althe"] = alt.Hash() == x.Hash()
			got, e := wr.roundTrip(x)
			out["gerr"] = e
			if e != "" {
				wr = newWire()
				return
			}
			out["gdec"] = c03val.Print(got)
			out["geq"] = got.Equal(x) && x.Equal(got)
			out["ghe"] = got.Hash() == x.Hash()
			out["gstr"] = c03val.FixMinInt(got.String())
		})
		emit(wv, out)
	}
	donev()

	// per class: a set and a hashmap holding every value of the class
	wc, donec := open("classes_go.ndjson")
	var order []string
	groups := map[string][]valRow{}
	for _, r := range vals {
		if _, ok := groups[r.Cls]; !ok {
			order = append(order, r.Cls)
		}
		groups[r.Cls] = append(groups[r.Cls], r)
	}
	for _, c := range order {
		out := rec{"cls": c}
		out["panic"] = guard(func() {
			var ms []V
			h := hashmap.New[int]()
			for _, r := range groups[c] {
				ms = append(ms, built[r.ID])
				h.Set(built[r.ID], r.ID)
			}
			s := tla.MakeSet(ms...)
			out["setlen"] = s.AsSet().Len()
			out["card"] = int(tla.ModuleCardinality(s).AsNumber())
			out["hmkeys"] = len(h.Keys())
			all := true
			for _, r := range groups[c] {
				alt := c03val.BuildAlt(r.Term)
				_, ok := h.Get(alt)
				all = all && ok && tla.ModuleInSymbol(alt, s).AsBool()
			}
			out["allfound"] = all
			// the set of all members survives the wire with the same size
			got, e := wr.roundTrip(s)
			out["gerr"] = e
			if e != "" {
				wr = newWire()
				return
			}
			out["gsetlen"] = got.AsSet().Len()
			out["gseteq"] = got.Equal(s) && s.Equal(got) && got.Hash() == s.Hash()
		})
		emit(wc, out)
	}
	donec()
}
