// sysdrv: runs a generated system (archetypes from /repo, spec-state env resources) under the
// scheduler gate and writes every committed step with the full TLA+ state as ndjson.
package main

import (
	"bufio"
	"encoding/json"
	"flag"
	"fmt"
	"math/rand"
	"os"
	"sort"
	"strings"

	"github.com/DistCompiler/pgo/distsys/tla"

	"verifharness/internal/mpexec"
	"verifharness/internal/tlaval"
	"verifharness/internal/sysdefs"
)

type line struct {
	E       string          `json:"e"` // "case" | "step" | "abort" | "error" | "end"
	Run     int             `json:"run,omitempty"`
	Sys     string          `json:"sys,omitempty"`
	Proc    string          `json:"proc,omitempty"`
	Label   string          `json:"label,omitempty"`
	State   string          `json:"state,omitempty"`
	Choices []mpexec.Choice `json:"choices,omitempty"`
	Msg     string          `json:"msg,omitempty"`
	Obs     interface{}     `json:"obs,omitempty"`
	Policy  string          `json:"policy,omitempty"`
	D       map[string]string `json:"d,omitempty"` // walk policy: variables changed by the step, new values
	U       map[string]string `json:"u,omitempty"` // walk policy: the same variables, values before the step
	Seed    int64           `json:"seed,omitempty"`
}

var out *bufio.Writer

var quiet bool // suppress output (replaying a walk to one of its states)

func emit(l line) {
	if quiet {
		return
	}
	b, _ := json.Marshal(l)
	out.Write(b)
	out.WriteByte('\n')
}

func build(name string, n int, args map[string]int) *mpexec.System {
	b, ok := sysdefs.Lookup(name)
	if !ok {
		panic(fmt.Sprintf("unknown system %s (known: %v)", name, sysdefs.Names()))
	}
	return b(n, args)
}

// runOne executes one behaviour: the scheduler picks a live process at random (or per policy),
// every committed step is dumped. Ends when all processes finished, nothing is enabled
// (every live process aborted since the last commit) or maxSteps is reached.
func runOne(run int, sysName string, n int, seed int64, maxSteps int, policy string, args map[string]int) {
	r := rand.New(rand.NewSource(seed))
	s := build(sysName, n, args)
	crashW, policy := setOracle(s, r, policy)
	emit(line{E: "case", Run: run, Sys: sysName, Policy: policy, Seed: seed})
	runBody(s, r, maxSteps, crashW)
}

// setOracle installs the choice oracle of a policy ("random" | "biased"); returns the weight with which
// crasher processes are scheduled and the policy's description.
func setOracle(s *mpexec.System, r *rand.Rand, policy string) (float64, string) {
	s.Oracle = &mpexec.RandOracle{R: r}
	crashW := 1.0
	if policy == "biased" {
		// rare timeouts / suspicions so that the system makes progress; the rates vary per run
		rates := []float64{0.01, 0.03, 0.1, 0.3}
		pT, pC, pF := rates[r.Intn(4)], rates[r.Intn(4)], rates[r.Intn(4)]
		s.Oracle = &mpexec.BiasOracle{R: r,
			Bias: map[string]float64{"leaderTimeout": pT, "timeout": pC, "fd[": pF, "netLen[": 0.9},
			Pick: map[string]int{"leaderTimeout": 0, "timeout": 0, "fd[": 1, "netLen[": -1}}
		crashW = []float64{0.0, 0.02, 0.1}[r.Intn(3)]
		if len(s.CrashChoices) > 0 {
			// crashes written as either-branches of the archetypes themselves (mayFail): rare, rate varies per run
			pX := []float64{0.0, 0.01, 0.03, 0.1, 0.25}[r.Intn(5)]
			o := s.Oracle.(*mpexec.BiasOracle)
			for _, id := range s.CrashChoices {
				o.Bias[id], o.Pick[id] = pX, -1
			}
			crashW = pX
		}
		policy = fmt.Sprintf("biased pT=%v pC=%v pF=%v crash=%v", pT, pC, pF, crashW)
		if r.Intn(2) == 1 {
			// every second run alternates calm phases (progress) with stormy ones (election time-outs fire often):
			// leader changes right after client operations completed
			ph := []int{150, 400, 900}[r.Intn(3)]
			s.Oracle = &mpexec.PhasedOracle{Inner: s.Oracle.(*mpexec.BiasOracle), Storm: []string{"leaderTimeout"}, Lo: 0.005, Hi: 0.4, PhaseLen: ph}
			policy += fmt.Sprintf(" phased(%d)", ph)
		}
	}
	return crashW, policy
}

func runBody(s *mpexec.System, r *rand.Rand, maxSteps int, crashW float64) {
	if err := s.Start(); err != nil {
		emit(line{E: "error", Msg: err.Error()})
		s.Stop()
		return
	}
	emit(line{E: "step", Proc: "", Label: "Init", State: s.DumpState(nil)})
	failedSince := map[*mpexec.Proc]bool{}
	attempts := 0
	for s.Steps < maxSteps && attempts < 30*maxSteps {
		attempts++
		live := s.Live()
		var cand []*mpexec.Proc
		for _, p := range live {
			if !failedSince[p] {
				cand = append(cand, p)
			}
		}
		if len(cand) == 0 {
			break // quiescent: all done, or every live process is disabled (deterministic bodies aside from choices: retried below)
		}
		p := cand[r.Intn(len(cand))]
		if p.Group == "crasher" && r.Float64() >= crashW {
			if len(cand) == 1 {
				break
			}
			continue
		}
		res, err := s.Step(p)
		if err != nil {
			emit(line{E: "error", Msg: err.Error()})
			break
		}
		if res.Err != nil {
			emit(line{E: "error", Proc: p.Self.String(), Label: res.Label, Msg: res.Err.Error(), Choices: res.Choices})
			break
		}
		if res.Committed {
			var obs interface{}
			if s.Observe != nil {
				obs = s.Observe(p, res.Label, p.PC, p.Local)
			}
			emit(line{E: "step", Proc: p.Self.String(), Label: res.Label, State: s.DumpState(nil), Choices: res.Choices, Obs: obs})
			failedSince = map[*mpexec.Proc]bool{}
		} else {
			emit(line{E: "abort", Proc: p.Self.String(), Label: res.Label, Choices: res.Choices})
			// an aborted attempt that consulted choices may succeed under another resolution;
			// one without choices is disabled until some other process commits
			if len(res.Choices) == 0 {
				failedSince[p] = true
			}
		}
	}
	emit(line{E: "end"})
	s.Stop()
}

// ---- exhaustive exploration of all schedules and choices (stateless DFS with an odometer) ----

type odometer struct {
	script []uint // decisions to replay
	ceil   []uint // ceilings observed in the current run
	taken  []uint
}

func (o *odometer) next(n uint) uint {
	i := len(o.taken)
	var g uint
	if i < len(o.script) {
		g = o.script[i]
		if g >= n {
			g = n - 1
		}
	}
	o.taken = append(o.taken, g)
	o.ceil = append(o.ceil, n)
	return g
}
func (o *odometer) Choose(p *mpexec.Proc, id string, n uint) uint { return o.next(n) }

// advance computes the next script in depth-first order; false when the tree is exhausted
func (o *odometer) advance() bool {
	for i := len(o.taken) - 1; i >= 0; i-- {
		if o.taken[i]+1 < o.ceil[i] {
			o.script = append(append([]uint(nil), o.taken[:i]...), o.taken[i]+1)
			o.taken, o.ceil = nil, nil
			return true
		}
	}
	return false
}

func runDFS(sysName string, n int, maxSteps int, maxRuns int, args map[string]int) {
	od := &odometer{}
	seenEdge := map[string]bool{}
	seenState := map[string]bool{}
	runs, emitted, truncated := 0, 0, 0
	for {
		runs++
		s := build(sysName, n, args)
		s.Oracle = od
		if err := s.Start(); err != nil {
			emit(line{E: "case", Run: runs, Sys: sysName, Policy: "dfs"})
			emit(line{E: "error", Msg: err.Error()})
			s.Stop()
			break
		}
		var lines []line
		prev := s.DumpState(nil)
		seenState[prev] = true
		lines = append(lines, line{E: "step", Label: "Init", State: prev})
		fresh := false
		failed := map[*mpexec.Proc]bool{}
		for s.Steps < maxSteps {
			var cand []*mpexec.Proc
			for _, p := range s.Live() {
				if !failed[p] {
					cand = append(cand, p)
				}
			}
			if len(cand) == 0 {
				break
			}
			p := cand[od.next(uint(len(cand)))]
			res, err := s.Step(p)
			if err != nil {
				lines = append(lines, line{E: "error", Msg: err.Error()})
				fresh = true
				break
			}
			if res.Err != nil {
				lines = append(lines, line{E: "error", Proc: p.Self.String(), Label: res.Label, Msg: res.Err.Error(), Choices: res.Choices})
				fresh = true
				break
			}
			if res.Committed {
				st := s.DumpState(nil)
				e := prev + " -> " + st
				if !seenEdge[e] {
					seenEdge[e] = true
					fresh = true
				}
				seenState[st] = true
				prev = st
				lines = append(lines, line{E: "step", Proc: p.Self.String(), Label: res.Label, State: st, Choices: res.Choices})
				failed = map[*mpexec.Proc]bool{}
			} else {
				failed[p] = true
			}
		}
		if s.Steps >= maxSteps {
			truncated++
		}
		s.Stop()
		if fresh {
			emitted++
			emit(line{E: "case", Run: runs, Sys: sysName, Policy: "dfs"})
			for _, l := range lines {
				emit(l)
			}
			emit(line{E: "end"})
		}
		if !od.advance() || (maxRuns > 0 && runs >= maxRuns) {
			break
		}
	}
	b, _ := json.Marshal(map[string]interface{}{"e": "dfs-summary", "runs": runs, "emitted": emitted, "distinct_states": len(seenState),
		"distinct_edges": len(seenEdge), "truncated": truncated, "exhausted": od.script == nil || !(maxRuns > 0 && runs >= maxRuns)})
	out.Write(b)
	out.WriteByte('\n')
}

// ---- guided replay of TLC behaviours (S->I): the Go must be able to follow every spec step ----

type behaviour struct {
	ID     string   `json:"id"`
	States []string `json:"states"`
}

func runGuided(sysName string, n int, traceFile string, args map[string]int) {
	fh, err := os.Open(traceFile)
	if err != nil {
		panic(err)
	}
	defer fh.Close()
	sc := bufio.NewScanner(fh)
	sc.Buffer(make([]byte, 1<<20), 1<<28)
	run := 0
	for sc.Scan() {
		if len(strings.TrimSpace(sc.Text())) == 0 {
			continue
		}
		var b behaviour
		if err := json.Unmarshal(sc.Bytes(), &b); err != nil {
			panic(err)
		}
		run++
		s := build(sysName, n, args)
		emit(line{E: "case", Run: run, Sys: sysName, Policy: "guided", Msg: b.ID})
		cur, err := s.InitialState()
		if err != nil {
			emit(line{E: "error", Msg: err.Error()})
			continue
		}
		d := s.Dump(cur)
		if len(b.States) == 0 {
			continue
		}
		if tlaval.MustCanon(d) != tlaval.MustCanon(b.States[0]) {
			emit(line{E: "diverge", Label: "Init", Msg: "initial state of the Go system differs from the behaviour's first state", State: d})
			emit(line{E: "end"})
			continue
		}
		emit(line{E: "step", Label: "Init", State: d})
		curCanon := tlaval.MustCanon(d)
		pos := 0 // index of the step line that holds the current state
		for i := 1; i < len(b.States); i++ {
			want := tlaval.MustCanon(b.States[i])
			if want == curCanon {
				continue // stuttering step of the spec (e.g. Terminating)
			}
			found := false
			var tried []string
			if fanout > 0 {
				// every committed successor of the state reached so far (all processes, all choice
				// resolutions): each must be a step of the specification (validated by TLC as a
				// jump back to this state followed by the successor)
				emitFanout(s, cur, pos, want)
			}
			pos++
			for pi := range s.Procs {
				if cur.P[pi].PC == "Done" {
					continue
				}
				for _, sc := range s.Successors(cur, pi) {
					if sc.Err != nil {
						tried = append(tried, fmt.Sprintf("%v@%s: error %v", s.Procs[pi].Self, sc.Label, sc.Err))
						continue
					}
					dd := s.Dump(sc.Next)
					if tlaval.MustCanon(dd) == want {
						cur, curCanon, found = sc.Next, want, true
						var obs interface{}
						if s.Observe != nil {
							nx := sc.Next.P[pi]
							obs = s.Observe(s.Procs[pi], sc.Label, nx.PC, func(r string) tla.Value { return nx.Locals[r] })
						}
						emit(line{E: "step", Proc: s.Procs[pi].Self.String(), Label: sc.Label, State: dd, Choices: sc.Choices, Obs: obs})
						break
					}
				}
				if found {
					break
				}
				tried = append(tried, fmt.Sprintf("%v@%s", s.Procs[pi].Self, cur.P[pi].PC))
			}
			if !found {
				emit(line{E: "diverge", Run: i, Msg: "no attempt of any generated archetype reaches the spec's successor state; tried " + strings.Join(tried, ", "),
					State: b.States[i]})
				break
			}
		}
		emit(line{E: "end"})
	}
}

var lightStates = 0 // walk policy without fan-out: write the full state only every lightStates-th step (0 = always)

var (
	fanout     int // max. number of extra successors emitted per visited state (guided policy); 0 = off
	fanoutSeen = map[string]bool{}
)

// emitFanout writes every committed successor of cur (other than the behaviour's own next state,
// which is emitted as a step) as a "succ" line anchored at step line `at` of the current case.
func emitFanout(s *mpexec.System, cur *mpexec.State, at int, skip string) {
	n := 0
	for pi := range s.Procs {
		if cur.P[pi].PC == "Done" {
			continue
		}
		for _, sc := range s.Successors(cur, pi) {
			if sc.Err != nil {
				emit(line{E: "succ-error", Run: at, Proc: s.Procs[pi].Self.String(), Label: sc.Label, Msg: sc.Err.Error(), Choices: sc.Choices})
				continue
			}
			dd := s.Dump(sc.Next)
			c := tlaval.MustCanon(dd)
			if c == skip {
				continue
			}
			if n >= fanout {
				return
			}
			// the same (label, process, local effect) in many global contexts is still a distinct edge;
			// only exact repetitions of a (pre, post) pair are dropped
			key := tlaval.MustCanon(s.Dump(cur)) + " -> " + c
			if fanoutSeen[key] {
				continue
			}
			fanoutSeen[key] = true
			n++
			emit(line{E: "succ", Run: at, Proc: s.Procs[pi].Self.String(), Label: sc.Label, State: dd, Choices: sc.Choices})
		}
	}
}

// ---- seeded walks of the fresh-context executor with the successors of every visited state (I->S) ----

// runWalk performs a seeded (random / biased) walk from the initial state with one fresh context per
// step. At every visited state all committed successors (every process, every choice resolution) are
// computed; a label-balanced sample of them (reservoir per label, so that rarely enabled labels are
// kept in full) is written as "succ" lines: TLC validates each as a step of the specification.
func runWalk(run int, sysName string, n int, seed int64, maxSteps int, policy string, args map[string]int, maxEdges int) {
	runWalkTo(run, sysName, n, seed, maxSteps, policy, args, maxEdges, -1)
}

// runWalkTo is runWalk; with stopAt >= 0 it returns the system and the state the walk holds after stopAt steps
// (the walk is deterministic in its seed and parameters), without finishing the walk.
func runWalkTo(run int, sysName string, n int, seed int64, maxSteps int, policy string, args map[string]int, maxEdges int, stopAt int) (*mpexec.System, *mpexec.State) {
	r := rand.New(rand.NewSource(seed))
	rs := rand.New(rand.NewSource(seed ^ 0x5eed)) // sampling of successors: must not disturb the walk's own choices
	s := build(sysName, n, args)
	crashW, pol := setOracle(s, r, policy)
	walkOracle := s.Oracle
	emit(line{E: "case", Run: run, Sys: sysName, Policy: "walk " + pol, Seed: seed})
	cur, err := s.InitialState()
	if err != nil {
		emit(line{E: "error", Msg: err.Error()})
		return s, nil
	}
	emit(line{E: "step", Label: "Init", State: s.Dump(cur)})
	pos := 0
	type cand struct{ l line }
	res := map[string][]line{} // label -> reservoir
	seen := map[string]int{}   // label -> number of candidates seen
	perLabel := maxEdges / 12
	if perLabel < 8 {
		perLabel = 8
	}
	failed := map[int]bool{}
	for steps := 0; steps < maxSteps; {
		if pos == stopAt {
			return s, cur
		}
		var live []int
		for pi := range s.Procs {
			if cur.P[pi].PC != "Done" && !failed[pi] {
				live = append(live, pi)
			}
		}
		if len(live) == 0 {
			break
		}
		// successors of the current state, sampled per label
		curVars := s.DumpVars(cur)
		curCanon := ""
		if maxEdges > 0 {
			curCanon = tlaval.MustCanon(s.Dump(cur))
		}
		if maxEdges > 0 && !fanoutSeen[curCanon] {
			fanoutSeen[curCanon] = true
			for pi := range s.Procs {
				if cur.P[pi].PC == "Done" {
					continue
				}
				for _, sc := range s.Successors(cur, pi) {
					if sc.Err != nil {
						emit(line{E: "succ-error", Run: pos, Proc: s.Procs[pi].Self.String(), Label: sc.Label, Msg: sc.Err.Error(), Choices: sc.Choices})
						continue
					}
					d, u := diffVars(curVars, s.DumpVars(sc.Next))
					l := line{E: "succ", Run: pos, Proc: s.Procs[pi].Self.String(), Label: sc.Label, Choices: sc.Choices, D: d, U: u}
					seen[sc.Label]++
					if len(res[sc.Label]) < perLabel {
						res[sc.Label] = append(res[sc.Label], l)
					} else if j := rs.Intn(seen[sc.Label]); j < perLabel {
						res[sc.Label][j] = l
					}
				}
			}
		}
		s.Oracle = walkOracle
		pi := live[r.Intn(len(live))]
		if s.Procs[pi].Group == "crasher" && r.Float64() >= crashW {
			if len(live) == 1 {
				break
			}
			continue
		}
		ok, nx, ch, err := s.StepFrom(cur, pi)
		if err != nil {
			emit(line{E: "error", Proc: s.Procs[pi].Self.String(), Label: cur.P[pi].PC, Msg: err.Error(), Choices: ch})
			break
		}
		if !ok {
			if len(ch) == 0 {
				failed[pi] = true
			}
			continue
		}
		failed = map[int]bool{}
		steps++
		pos++
		d, _ := diffVars(curVars, s.DumpVars(nx))
		var obs interface{}
		if s.Observe != nil {
			np := nx.P[pi]
			obs = s.Observe(s.Procs[pi], cur.P[pi].PC, np.PC, func(r string) tla.Value { return np.Locals[r] })
		}
		st := ""
		if maxEdges > 0 || lightStates == 0 || steps%lightStates == 0 {
			st = s.Dump(nx)
		}
		emit(line{E: "step", Proc: s.Procs[pi].Self.String(), Label: cur.P[pi].PC, State: st, Choices: ch, D: d, Obs: obs})
		cur = nx
	}
	var labels []string
	for lb := range res {
		labels = append(labels, lb)
	}
	sort.Strings(labels)
	total := 0
	for _, lb := range labels {
		for _, l := range res[lb] {
			if total >= maxEdges {
				break
			}
			total++
			emit(l)
		}
	}
	emit(line{E: "end"})
	if pos == stopAt {
		return s, cur
	}
	return s, nil
}

// ---- confirmation of a look-ahead alarm: directed continuations from a state of a walk ----

// contOracle resolves choices at random, except that election time-outs fire only on the favoured node.
type contOracle struct {
	r      *rand.Rand
	favour int
}

func (o *contOracle) Choose(p *mpexec.Proc, id string, n uint) uint {
	if strings.HasPrefix(id, "leaderTimeout") && n == 2 {
		if p.Node == o.favour && o.r.Float64() < 0.7 {
			return 0 // the time-out fires
		}
		return 1
	}
	return uint(o.r.Intn(int(n)))
}

// runCont replays walk `run` to its state after `step` steps, optionally takes the successor edge
// (proc, label, choices) from there, and then performs, for every node, `walks` random continuations of at
// most `maxLen` steps in which only processes that belong to a node are scheduled and only the favoured
// node's election timer fires. Every continuation is written as a walk (steps with changed variables).
func runCont(sysName string, n int, baseSeed int64, maxSteps int, policy string, args map[string]int, maxEdges int,
	run, step int, proc, label string, choices []uint, expect string, walks, maxLen int) {
	quiet = true
	s, st := runWalkTo(run, sysName, n, baseSeed*100000+int64(run-1)*7919+3, maxSteps, policy, args, maxEdges, step)
	quiet = false
	if st == nil {
		emit(line{E: "cont-fail", Msg: "the walk does not reach that step when replayed"})
		return
	}
	if proc != "" {
		pi := -1
		for i, p := range s.Procs {
			if p.Self.String() == proc {
				pi = i
			}
		}
		if pi < 0 {
			emit(line{E: "cont-fail", Msg: "unknown process " + proc})
			return
		}
		s.Oracle = &mpexec.EnumOracle{Script: choices}
		ok, nx, _, err := s.StepFrom(st, pi)
		if err != nil || !ok {
			emit(line{E: "cont-fail", Msg: fmt.Sprintf("the successor edge could not be taken again (committed=%v err=%v)", ok, err)})
			return
		}
		st = nx
	}
	if expect != "" && tlaval.MustCanon(s.Dump(st)) != tlaval.MustCanon(expect) {
		emit(line{E: "cont-fail", Msg: "the replayed state differs from the recorded one", State: s.Dump(st)})
		return
	}
	nodes := map[int]bool{}
	for _, p := range s.Procs {
		if p.Node > 0 {
			nodes[p.Node] = true
		}
	}
	caseNo := 0
	for node := range nodes {
		for w := 0; w < walks; w++ {
			caseNo++
			r := rand.New(rand.NewSource(baseSeed*7777 + int64(node)*131 + int64(w)))
			s.Oracle = &contOracle{r: r, favour: node}
			emit(line{E: "case", Run: caseNo, Sys: sysName, Policy: fmt.Sprintf("continuation favour=%d", node), Seed: int64(w)})
			cur := st
			curVars := s.DumpVars(cur)
			emit(line{E: "step", Label: "Init", State: s.Dump(cur)})
			failed := map[int]bool{}
			for steps := 0; steps < maxLen; {
				var live []int
				for pi, p := range s.Procs {
					if p.Node > 0 && cur.P[pi].PC != "Done" && !failed[pi] {
						live = append(live, pi)
					}
				}
				if len(live) == 0 {
					break
				}
				pi := live[r.Intn(len(live))]
				ok, nx, ch, err := s.StepFrom(cur, pi)
				if err != nil {
					emit(line{E: "error", Proc: s.Procs[pi].Self.String(), Label: cur.P[pi].PC, Msg: err.Error(), Choices: ch})
					break
				}
				if !ok {
					if len(ch) == 0 {
						failed[pi] = true
					}
					continue
				}
				failed = map[int]bool{}
				steps++
				nv := s.DumpVars(nx)
				d, _ := diffVars(curVars, nv)
				emit(line{E: "step", Proc: s.Procs[pi].Self.String(), Label: cur.P[pi].PC, State: s.Dump(nx), Choices: ch, D: d})
				cur, curVars = nx, nv
			}
			emit(line{E: "end"})
		}
	}
}

// diffVars returns the variables whose text differs between two DumpVars results: new values and old values.
func diffVars(a, b [][2]string) (map[string]string, map[string]string) {
	d, u := map[string]string{}, map[string]string{}
	old := map[string]string{}
	for _, v := range a {
		old[v[0]] = v[1]
	}
	for _, v := range b {
		if o, ok := old[v[0]]; !ok || o != v[1] {
			d[v[0]] = v[1]
			u[v[0]] = o
		}
	}
	return d, u
}

// ---- stateful exploration of the complete state graph (fresh context per step) ----

func runBFS(sysName string, n int, maxStates int, args map[string]int) {
	s := build(sysName, n, args)
	init, err := s.InitialState()
	emit(line{E: "case", Run: 1, Sys: sysName, Policy: "bfs"})
	if err != nil {
		emit(line{E: "error", Msg: err.Error()})
		return
	}
	ids := map[string]int{}
	var queue []*mpexec.State
	d0 := s.Dump(init)
	ids[tlaval.MustCanon(d0)] = 0
	queue = append(queue, init)
	w := func(m map[string]interface{}) {
		b, _ := json.Marshal(m)
		out.Write(b)
		out.WriteByte('\n')
	}
	w(map[string]interface{}{"e": "g-init", "id": 0, "state": d0})
	edges := map[[2]int]bool{}
	complete := true
	for qi := 0; qi < len(queue); qi++ {
		st := queue[qi]
		from := qi
		for pi := range s.Procs {
			if st.P[pi].PC == "Done" {
				continue
			}
			for _, sc := range s.Successors(st, pi) {
				if sc.Err != nil {
					w(map[string]interface{}{"e": "g-error", "from": from, "proc": s.Procs[pi].Self.String(), "label": sc.Label,
						"msg": sc.Err.Error(), "choices": sc.Choices})
					continue
				}
				d := s.Dump(sc.Next)
				key := tlaval.MustCanon(d) // equal TLA+ values may print differently (insertion order of sets/functions)
				id, ok := ids[key]
				if !ok {
					if len(queue) >= maxStates {
						complete = false
						continue
					}
					id = len(queue)
					ids[key] = id
					queue = append(queue, sc.Next)
				}
				if !edges[[2]int{from, id}] {
					edges[[2]int{from, id}] = true
					w(map[string]interface{}{"e": "g-edge", "from": from, "to": id, "new": !ok, "proc": s.Procs[pi].Self.String(),
						"label": sc.Label, "state": d, "choices": sc.Choices})
				}
			}
		}
	}
	w(map[string]interface{}{"e": "g-summary", "states": len(queue), "edges": len(edges), "complete": complete})
}

func main() {
	sysName := flag.String("system", "locksvc", "")
	n := flag.Int("n", 2, "instance size")
	runs := flag.Int("runs", 10, "")
	seed := flag.Int64("seed", 1, "")
	maxSteps := flag.Int("max-steps", 400, "")
	policy := flag.String("policy", "random", "")
	outF := flag.String("out", "steps.ndjson", "")
	extra := flag.String("args", "", "k=v,k=v extra integer parameters")
	traceF := flag.String("trace", "", "ndjson of TLC behaviours for -policy guided")
	flag.IntVar(&fanout, "fanout", 0, "guided policy: also emit up to this many other successors of every visited state")
	flag.IntVar(&lightStates, "light", 0, "walk policies without fan-out: full state only every n-th step")
	contF := flag.String("cont", "", "walk-* policies: JSON {run, step, proc, label, choices, state, walks, len}: replay that walk to that state and explore directed continuations")
	flag.Parse()
	args := map[string]int{}
	for _, kv := range strings.Split(*extra, ",") {
		if kv == "" {
			continue
		}
		var k string
		var v int
		parts := strings.SplitN(kv, "=", 2)
		k = parts[0]
		fmt.Sscan(parts[1], &v)
		args[k] = v
	}
	fh, err := os.Create(*outF)
	if err != nil {
		panic(err)
	}
	out = bufio.NewWriter(fh)
	defer func() { out.Flush(); fh.Close() }()
	if *policy == "guided" {
		runGuided(*sysName, *n, *traceF, args)
		return
	}
	if strings.HasPrefix(*policy, "walk-") && *contF != "" {
		var c struct {
			Run, Step, Walks, Len int
			Proc, Label, State    string
			Choices               []uint
		}
		if err := json.Unmarshal([]byte(*contF), &c); err != nil {
			panic(err)
		}
		runCont(*sysName, *n, *seed, *maxSteps, strings.TrimPrefix(*policy, "walk-"), args, fanout, c.Run, c.Step, c.Proc, c.Label, c.Choices, c.State, c.Walks, c.Len)
		return
	}
	if strings.HasPrefix(*policy, "walk-") {
		for i := 0; i < *runs; i++ {
			runWalk(i+1, *sysName, *n, *seed*100000+int64(i)*7919+3, *maxSteps, strings.TrimPrefix(*policy, "walk-"), args, fanout)
		}
		return
	}
	if *policy == "bfs" {
		runBFS(*sysName, *n, *maxSteps, args)
		return
	}
	if *policy == "dfs" {
		runDFS(*sysName, *n, *maxSteps, *runs, args)
		return
	}
	for i := 0; i < *runs; i++ {
		runOne(i+1, *sysName, *n, *seed*100003+int64(i), *maxSteps, *policy, args)
	}
}
