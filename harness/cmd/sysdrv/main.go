// sysdrv: runs a generated system (archetypes from /repo, spec-state env resources) under the
// scheduler gate and writes every committed step with the full TLA+ state as ndjson.
package main

import (
	"bufio"
	"encoding/json"
	"flag"
	"fmt"
	"math/rand"
	"os"
	"strings"

	"verifharness/internal/mpexec"
	"verifharness/internal/sysdefs"
)

type line struct {
	E       string          `json:"e"` // "case" | "step" | "abort" | "error" | "end"
	Run     int             `json:"run,omitempty"`
	Sys     string          `json:"sys,omitempty"`
	Proc    string          `json:"proc,omitempty"`
	Label   string          `json:"label,omitempty"`
	State   string          `json:"state,omitempty"`
	Choices []mpexec.Choice `json:"choices,omitempty"`
	Msg     string          `json:"msg,omitempty"`
	Policy  string          `json:"policy,omitempty"`
	Seed    int64           `json:"seed,omitempty"`
}

var out *bufio.Writer

func emit(l line) {
	b, _ := json.Marshal(l)
	out.Write(b)
	out.WriteByte('\n')
}

func build(name string, n int, args map[string]int) *mpexec.System {
	switch name {
	case "locksvc":
		return sysdefs.Locksvc(n)
	case "raftkvs":
		get := func(k string, d int) int {
			if v, ok := args[k]; ok {
				return v
			}
			return d
		}
		return sysdefs.Raftkvs(sysdefs.RaftCfg{NumServers: n, NumClients: get("clients", 1), BufferSize: get("buffer", 3),
			MaxNodeFail: get("maxfail", 1), ExploreFail: get("fail", 1) == 1, LeaderTimeoutReset: get("ltreset", 1) == 1,
			AllStrings: []string{"s1", "s2", "s3"}[:get("strings", 2)], FIFO: get("fifo", 0) == 1})
	}
	panic("unknown system " + name)
}

// runOne executes one behaviour: the scheduler picks a live process at random (or per policy),
// every committed step is dumped. Ends when all processes finished, nothing is enabled
// (every live process aborted since the last commit) or maxSteps is reached.
func runOne(run int, sysName string, n int, seed int64, maxSteps int, policy string, args map[string]int) {
	r := rand.New(rand.NewSource(seed))
	s := build(sysName, n, args)
	s.Oracle = &mpexec.RandOracle{R: r}
	emit(line{E: "case", Run: run, Sys: sysName, Policy: policy, Seed: seed})
	if err := s.Start(); err != nil {
		emit(line{E: "error", Msg: err.Error()})
		s.Stop()
		return
	}
	emit(line{E: "step", Proc: "", Label: "Init", State: s.DumpState(nil)})
	failedSince := map[*mpexec.Proc]bool{}
	for s.Steps < maxSteps {
		live := s.Live()
		var cand []*mpexec.Proc
		for _, p := range live {
			if !failedSince[p] {
				cand = append(cand, p)
			}
		}
		if len(cand) == 0 {
			break // quiescent: all done, or every live process is disabled (deterministic bodies aside from choices: retried below)
		}
		p := cand[r.Intn(len(cand))]
		res, err := s.Step(p)
		if err != nil {
			emit(line{E: "error", Msg: err.Error()})
			break
		}
		if res.Err != nil {
			emit(line{E: "error", Proc: p.Self.String(), Label: res.Label, Msg: res.Err.Error(), Choices: res.Choices})
			break
		}
		if res.Committed {
			emit(line{E: "step", Proc: p.Self.String(), Label: res.Label, State: s.DumpState(nil), Choices: res.Choices})
			failedSince = map[*mpexec.Proc]bool{}
		} else {
			emit(line{E: "abort", Proc: p.Self.String(), Label: res.Label, Choices: res.Choices})
			// an aborted attempt with choices may succeed under another resolution: retry a few times
			if len(res.Choices) == 0 || r.Intn(4) == 0 {
				failedSince[p] = true
			}
		}
	}
	emit(line{E: "end"})
	s.Stop()
}

// ---- exhaustive exploration of all schedules and choices (stateless DFS with an odometer) ----

type odometer struct {
	script []uint // decisions to replay
	ceil   []uint // ceilings observed in the current run
	taken  []uint
}

func (o *odometer) next(n uint) uint {
	i := len(o.taken)
	var g uint
	if i < len(o.script) {
		g = o.script[i]
		if g >= n {
			g = n - 1
		}
	}
	o.taken = append(o.taken, g)
	o.ceil = append(o.ceil, n)
	return g
}
func (o *odometer) Choose(p *mpexec.Proc, id string, n uint) uint { return o.next(n) }

// advance computes the next script in depth-first order; false when the tree is exhausted
func (o *odometer) advance() bool {
	for i := len(o.taken) - 1; i >= 0; i-- {
		if o.taken[i]+1 < o.ceil[i] {
			o.script = append(append([]uint(nil), o.taken[:i]...), o.taken[i]+1)
			o.taken, o.ceil = nil, nil
			return true
		}
	}
	return false
}

func runDFS(sysName string, n int, maxSteps int, maxRuns int, args map[string]int) {
	od := &odometer{}
	seenEdge := map[string]bool{}
	seenState := map[string]bool{}
	runs, emitted, truncated := 0, 0, 0
	for {
		runs++
		s := build(sysName, n, args)
		s.Oracle = od
		if err := s.Start(); err != nil {
			emit(line{E: "case", Run: runs, Sys: sysName, Policy: "dfs"})
			emit(line{E: "error", Msg: err.Error()})
			s.Stop()
			break
		}
		var lines []line
		prev := s.DumpState(nil)
		seenState[prev] = true
		lines = append(lines, line{E: "step", Label: "Init", State: prev})
		fresh := false
		failed := map[*mpexec.Proc]bool{}
		for s.Steps < maxSteps {
			var cand []*mpexec.Proc
			for _, p := range s.Live() {
				if !failed[p] {
					cand = append(cand, p)
				}
			}
			if len(cand) == 0 {
				break
			}
			p := cand[od.next(uint(len(cand)))]
			res, err := s.Step(p)
			if err != nil {
				lines = append(lines, line{E: "error", Msg: err.Error()})
				fresh = true
				break
			}
			if res.Err != nil {
				lines = append(lines, line{E: "error", Proc: p.Self.String(), Label: res.Label, Msg: res.Err.Error(), Choices: res.Choices})
				fresh = true
				break
			}
			if res.Committed {
				st := s.DumpState(nil)
				e := prev + " -> " + st
				if !seenEdge[e] {
					seenEdge[e] = true
					fresh = true
				}
				seenState[st] = true
				prev = st
				lines = append(lines, line{E: "step", Proc: p.Self.String(), Label: res.Label, State: st, Choices: res.Choices})
				failed = map[*mpexec.Proc]bool{}
			} else {
				failed[p] = true
			}
		}
		if s.Steps >= maxSteps {
			truncated++
		}
		s.Stop()
		if fresh {
			emitted++
			emit(line{E: "case", Run: runs, Sys: sysName, Policy: "dfs"})
			for _, l := range lines {
				emit(l)
			}
			emit(line{E: "end"})
		}
		if !od.advance() || (maxRuns > 0 && runs >= maxRuns) {
			break
		}
	}
	b, _ := json.Marshal(map[string]interface{}{"e": "dfs-summary", "runs": runs, "emitted": emitted, "distinct_states": len(seenState),
		"distinct_edges": len(seenEdge), "truncated": truncated, "exhausted": od.script == nil || !(maxRuns > 0 && runs >= maxRuns)})
	out.Write(b)
	out.WriteByte('\n')
}

// ---- stateful exploration of the complete state graph (fresh context per step) ----

func runBFS(sysName string, n int, maxStates int, args map[string]int) {
	s := build(sysName, n, args)
	init, err := s.InitialState()
	emit(line{E: "case", Run: 1, Sys: sysName, Policy: "bfs"})
	if err != nil {
		emit(line{E: "error", Msg: err.Error()})
		return
	}
	ids := map[string]int{}
	var queue []*mpexec.State
	d0 := s.Dump(init)
	ids[d0] = 0
	queue = append(queue, init)
	w := func(m map[string]interface{}) {
		b, _ := json.Marshal(m)
		out.Write(b)
		out.WriteByte('\n')
	}
	w(map[string]interface{}{"e": "g-init", "id": 0, "state": d0})
	edges := map[[2]int]bool{}
	complete := true
	for qi := 0; qi < len(queue); qi++ {
		st := queue[qi]
		from := qi
		for pi := range s.Procs {
			if st.P[pi].PC == "Done" {
				continue
			}
			for _, sc := range s.Successors(st, pi) {
				if sc.Err != nil {
					w(map[string]interface{}{"e": "g-error", "from": from, "proc": s.Procs[pi].Self.String(), "label": sc.Label,
						"msg": sc.Err.Error(), "choices": sc.Choices})
					continue
				}
				d := s.Dump(sc.Next)
				id, ok := ids[d]
				if !ok {
					if len(queue) >= maxStates {
						complete = false
						continue
					}
					id = len(queue)
					ids[d] = id
					queue = append(queue, sc.Next)
				}
				if !edges[[2]int{from, id}] {
					edges[[2]int{from, id}] = true
					w(map[string]interface{}{"e": "g-edge", "from": from, "to": id, "new": !ok, "proc": s.Procs[pi].Self.String(),
						"label": sc.Label, "state": d, "choices": sc.Choices})
				}
			}
		}
	}
	w(map[string]interface{}{"e": "g-summary", "states": len(queue), "edges": len(edges), "complete": complete})
}

func main() {
	sysName := flag.String("system", "locksvc", "")
	n := flag.Int("n", 2, "instance size")
	runs := flag.Int("runs", 10, "")
	seed := flag.Int64("seed", 1, "")
	maxSteps := flag.Int("max-steps", 400, "")
	policy := flag.String("policy", "random", "")
	outF := flag.String("out", "steps.ndjson", "")
	extra := flag.String("args", "", "k=v,k=v extra integer parameters")
	flag.Parse()
	args := map[string]int{}
	for _, kv := range strings.Split(*extra, ",") {
		if kv == "" {
			continue
		}
		var k string
		var v int
		parts := strings.SplitN(kv, "=", 2)
		k = parts[0]
		fmt.Sscan(parts[1], &v)
		args[k] = v
	}
	fh, err := os.Create(*outF)
	if err != nil {
		panic(err)
	}
	out = bufio.NewWriter(fh)
	defer func() { out.Flush(); fh.Close() }()
	if *policy == "bfs" {
		runBFS(*sysName, *n, *maxSteps, args)
		return
	}
	if *policy == "dfs" {
		runDFS(*sysName, *n, *maxSteps, *runs, args)
		return
	}
	for i := 0; i < *runs; i++ {
		runOne(i+1, *sysName, *n, *seed*100003+int64(i), *maxSteps, *policy, args)
	}
}
