//go:build verifh3

package main

import (
	"github.com/DistCompiler/pgo/distsys/resources"
	"github.com/DistCompiler/pgo/distsys/tla"
)

// Built only when /repo carries hook H3 (patches/C13-hook-crdt.diff): the
// check passes -tags verif,verifh3 when distsys/resources/crdt_verif_on.go exists.
const hookAvailable = true

func installHook() {
	resources.VerifCRDTHook = func(id tla.Value, point string, v resources.CRDTValue) {
		hookDispatch(id, point, v)
	}
}
