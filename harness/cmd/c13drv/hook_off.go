//go:build !verifh3

package main

// /repo does not carry hook H3: ticks and merges of the CRDT resource can be
// neither gated nor counted. Only the free-running mode is available and the
// bounded-liveness verdicts (Delivered / Converged) are not decided.
const hookAvailable = false

func installHook() {}
