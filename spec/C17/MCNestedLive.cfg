CONSTANTS
  NInner = 2
  NStop = 1
  Budget = 2
  Variant = "ok"
SPECIFICATION FairSpec
INVARIANTS TypeOK
PROPERTIES EveryStopReturns CleanupCompletes InnerStopsReturn
