------------------------------ MODULE MCNestedGen ------------------------------
(* Generator configuration for the nested cases (TLC, -dump dot): as MCLifecycleGen, the *)
(* harness issues one command at a time and only when the code is quiescent; "last"      *)
(* names the command that led to a state. Commands: run, stop, enter, finish:<kind>      *)
(* (outer context), ienter:<i>, ifinish:<i>:<kind> (inner context i). "finish:end"       *)
(* stands for every ending of the outer run (Done, assertion, Error label, resource      *)
(* error in the body / in PreCommit); checks/C17.py substitutes them in turn.            *)
EXTENDS NestedLifecycle, TLC

VARIABLE last
gvars == <<vars, last>>

IName(i) == CASE i = 1 -> "1" [] i = 2 -> "2" [] i = 3 -> "3" [] OTHER -> "4"
GKinds == {"commit", "abort", "done"}

GInit == Init /\ last = "init"
GEnv == /\ Quiescent
        /\ \/ RunCall /\ last' = "run"
           \/ \E t \in Stops : StopCall(t) /\ last' = "stop"
           \/ Enter /\ last' = "enter"
           \/ \E k \in GKinds : Finish(k) /\ last' = "finish:" \o (IF k = "done" THEN "end" ELSE k)
           \/ \E i \in Inner : IEnter(i) /\ last' = "ienter:" \o IName(i)
           \/ \E i \in Inner : \E k \in IKinds : IFinish(i, k) /\ last' = "ifinish:" \o IName(i) \o ":" \o k
GTau == Tau /\ last' = "tau"
GNext == GEnv \/ GTau
=============================================================================
