CONSTANTS
  NStop = 3
  NRun = 2
  Variant = "fixA"
SPECIFICATION Spec
INVARIANTS TypeOK NoLateCommit SendNeverBlocks RunsAtMostOnce
