CONSTANTS
  NStop = 3
  NRun = 2
  Variant = "fixed"
SPECIFICATION FairSpec
INVARIANTS TypeOK RunsAtMostOnce NoLateCommit ClosedAtMostOnce ClosedOnReturn StopMeansStopped SendNeverBlocks
PROPERTIES EveryStopReturns
