CONSTANTS
  NStop = 3
  NRun = 2
  Variant = "fixB"
SPECIFICATION Spec
INVARIANTS TypeOK RunsAtMostOnce NoLateCommit ClosedAtMostOnce
