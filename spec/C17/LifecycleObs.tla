------------------------------ MODULE LifecycleObs ------------------------------
(* P-spec for C17 (property level): folds the events recorded from the REAL            *)
(* MPCalContext (Run / Stop calls and returns, section begins, commits and Close calls  *)
(* seen by instrumented resources) and evaluates the property on them. It knows nothing *)
(* about locks or channels, so the verdict does not depend on how Run/Stop are written. *)
(*                                                                                      *)
(* Event lines (ndjson, written by harness/cmd/c17drv):                                 *)
(*   case      id, mode, cfg (configured instrumented resources), bound                 *)
(*   runcall r / runret r + outcome flags     (logged before the call / after the return)*)
(*   stopcall t / stopret t                   (idem)                                    *)
(*   stopblocked t   the harness saw Stop call t parked on a synchronisation primitive  *)
(*   begin r n       Run call r reached BeginCriticalSection (attempt n of the context)  *)
(*   secend r kind   the section body of Run call r ended with kind                     *)
(*   commit          Commit() of an instrumented resource was called                    *)
(*   create res      a map resource realised element res                                *)
(*   close res err   Close() of res was called (err: it returned an error)              *)
(*   end why         "complete": every call returned; "deadlock": the Go runtime found  *)
(*                   every goroutine blocked with calls outstanding                     *)
(*                   "crash": a goroutine of the code under test that no caller can     *)
(*                   guard (e.g. started by NewNested) panicked and ended the process   *)
(*   other lines (obs, enter, closegate, closeopen) belong to the M-level trace spec    *)
(* Nested cases (mode nproto: the outer context holds a resources.NewNested resource    *)
(* around 2-3 gated inner contexts; cfg also lists the resources of every inner         *)
(* context, which count for ClosedExactlyOnce like any configured resource):            *)
(*   ibegin i n / ienter i / isecend i kind   inner context i at its gates              *)
(*   icommit i res   Commit() of a resource of inner context i was called               *)
EXTENDS Naturals, Sequences, FiniteSets, TLC, Json

Trace == ndJsonDeserialize("trace.ndjson")

VARIABLES l,            \* next line
          caseLine,     \* line of the current case header
          cfg, created, \* configured resources / realised map elements of the case
          closes,       \* res -> number of Close calls
          runCalled, runRet, began, stopCalled, stopRet,
          ending,       \* r -> kind of the last section end of Run call r ("none" if none)
          closeErr,     \* some Close returned an error
          blocked,      \* a Stop call was seen parked while unreturned
          beginsAfter,  \* section begins since then
          bound,
          lateCommit,   \* a section committed after a Stop call had returned
          lateInner,    \* a section of an inner context committed after the (started) outer Run had returned
          closedOK, outcomeOK, endOK
ovars == <<l, caseLine, cfg, created, closes, runCalled, runRet, began, stopCalled, stopRet, ending, closeErr,
           blocked, beginsAfter, bound, lateCommit, lateInner, closedOK, outcomeOK, endOK>>

ToSet(s) == {s[i] : i \in 1..Len(s)}

OInit == /\ l = 1 /\ caseLine = 0 /\ cfg = {} /\ created = {} /\ closes = <<>> /\ runCalled = {} /\ runRet = {}
         /\ began = {} /\ stopCalled = {} /\ stopRet = {} /\ ending = <<>> /\ closeErr = FALSE
         /\ blocked = FALSE /\ beginsAfter = 0 /\ bound = 0
         /\ lateCommit = FALSE /\ lateInner = FALSE /\ closedOK = TRUE /\ outcomeOK = TRUE /\ endOK = TRUE

Ev(e) == l <= Len(Trace) /\ Trace[l].e = e /\ l' = l + 1
T == Trace[l]

Count(res) == IF res \in DOMAIN closes THEN closes[res] ELSE 0
AllClosedOnce == \A x \in cfg \cup created : Count(x) = 1
EndingOf(r) == IF r \in DOMAIN ending THEN ending[r] ELSE "none"

OCase == /\ Ev("case") /\ caseLine' = l
         /\ cfg' = ToSet(T.cfg) /\ created' = {} /\ closes' = <<>> /\ runCalled' = {} /\ runRet' = {}
         /\ began' = {} /\ stopCalled' = {} /\ stopRet' = {} /\ ending' = <<>> /\ closeErr' = FALSE
         /\ blocked' = FALSE /\ beginsAfter' = 0 /\ bound' = T.bound
         /\ lateCommit' = FALSE /\ lateInner' = FALSE /\ closedOK' = TRUE /\ outcomeOK' = TRUE /\ endOK' = TRUE

ORunCall == /\ Ev("runcall") /\ runCalled' = runCalled \cup {T.r}
            /\ UNCHANGED <<caseLine, cfg, created, closes, runRet, began, stopCalled, stopRet, ending, closeErr,
                           blocked, beginsAfter, bound, lateCommit, lateInner, closedOK, outcomeOK, endOK>>

(* what Run may report, given how the run ended (Run's documented outcomes) *)
OutcomeOK(r, o) ==
    LET k == EndingOf(r)
        started == r \in began \/ k # "none"
    IN IF o.panic \in {"already", "refused"} THEN r \notin began /\ Cardinality(runCalled) > 1
       ELSE IF o.panic = "sentinel" THEN TRUE          \* the harness itself killed a runaway run
       ELSE IF o.panic # "none" THEN FALSE             \* Run must not crash on a well-formed context
       ELSE IF ~started THEN TRUE                      \* returned without running
       ELSE /\ o.assert <=> (k = "assert")
            /\ o.fall <=> (k = "errlabel")
            /\ o.reserr <=> (k \in {"reserr", "preerr"})
            /\ o.closeerr <=> closeErr
            /\ (k = "done" /\ ~closeErr) => o.isnil
            /\ o.isnil => (k \in {"done", "none", "commit", "abort"} /\ ~closeErr)

ORunRet == /\ Ev("runret") /\ runRet' = runRet \cup {T.r}
           /\ outcomeOK' = (outcomeOK /\ OutcomeOK(T.r, T))
           /\ closedOK' = (closedOK /\ (T.r \in began => AllClosedOnce))
           /\ UNCHANGED <<caseLine, cfg, created, closes, runCalled, began, stopCalled, stopRet, ending, closeErr,
                          blocked, beginsAfter, bound, lateCommit, lateInner, endOK>>

OStopCall == /\ Ev("stopcall") /\ stopCalled' = stopCalled \cup {T.t}
             /\ UNCHANGED <<caseLine, cfg, created, closes, runCalled, runRet, began, stopRet, ending, closeErr,
                            blocked, beginsAfter, bound, lateCommit, lateInner, closedOK, outcomeOK, endOK>>
OStopRet == /\ Ev("stopret") /\ stopRet' = stopRet \cup {T.t}
            /\ blocked' = (blocked /\ stopCalled # stopRet')      \* nobody is waiting any more
            /\ beginsAfter' = IF blocked' THEN beginsAfter ELSE 0
            /\ UNCHANGED <<caseLine, cfg, created, closes, runCalled, runRet, began, stopCalled, ending, closeErr,
                           bound, lateCommit, lateInner, closedOK, outcomeOK, endOK>>
OStopBlocked == /\ Ev("stopblocked")
                /\ blocked' = (blocked \/ (T.t \notin stopRet /\ runCalled # runRet))
                /\ UNCHANGED <<caseLine, cfg, created, closes, runCalled, runRet, began, stopCalled, stopRet, ending,
                               closeErr, beginsAfter, bound, lateCommit, lateInner, closedOK, outcomeOK, endOK>>

OBegin == /\ Ev("begin") /\ began' = began \cup {T.r}
          /\ beginsAfter' = IF blocked THEN beginsAfter + 1 ELSE beginsAfter
          /\ UNCHANGED <<caseLine, cfg, created, closes, runCalled, runRet, stopCalled, stopRet, ending, closeErr,
                         blocked, bound, lateCommit, lateInner, closedOK, outcomeOK, endOK>>
OSecEnd == /\ Ev("secend")
           /\ ending' = [x \in DOMAIN ending \cup {T.r} |-> IF x = T.r THEN T.kind ELSE ending[x]]
           /\ UNCHANGED <<caseLine, cfg, created, closes, runCalled, runRet, began, stopCalled, stopRet, closeErr,
                          blocked, beginsAfter, bound, lateCommit, lateInner, closedOK, outcomeOK, endOK>>
OCommit == /\ Ev("commit") /\ lateCommit' = (lateCommit \/ stopRet # {})
           /\ UNCHANGED <<caseLine, cfg, created, closes, runCalled, runRet, began, stopCalled, stopRet, ending,
                          closeErr, blocked, beginsAfter, bound, lateInner, closedOK, outcomeOK, endOK>>
(* a commit inside the nested system: it is late if a Stop call on the (started) outer context has returned, *)
(* or if the started outer Run has returned -- both promise that the clean-up, which stops and awaits every  *)
(* inner context, is complete                                                                                *)
OICommit == /\ Ev("icommit")
            /\ lateCommit' = (lateCommit \/ (stopRet # {} /\ began # {}))
            /\ lateInner' = (lateInner \/ (began \cap runRet # {}))
            /\ UNCHANGED <<caseLine, cfg, created, closes, runCalled, runRet, began, stopCalled, stopRet, ending,
                           closeErr, blocked, beginsAfter, bound, closedOK, outcomeOK, endOK>>
OCreate == /\ Ev("create") /\ created' = created \cup {T.res}
           /\ UNCHANGED <<caseLine, cfg, closes, runCalled, runRet, began, stopCalled, stopRet, ending, closeErr,
                          blocked, beginsAfter, bound, lateCommit, lateInner, closedOK, outcomeOK, endOK>>
OClose == /\ Ev("close")
          /\ closes' = [x \in DOMAIN closes \cup {T.res} |-> IF x = T.res THEN Count(x) + 1 ELSE closes[x]]
          /\ closeErr' = (closeErr \/ T.err)
          /\ UNCHANGED <<caseLine, cfg, created, runCalled, runRet, began, stopCalled, stopRet, ending,
                         blocked, beginsAfter, bound, lateCommit, lateInner, closedOK, outcomeOK, endOK>>
OEnd == /\ Ev("end")
        /\ endOK' = (endOK /\ T.why = "complete" /\ stopCalled = stopRet /\ runCalled = runRet)
        /\ UNCHANGED <<caseLine, cfg, created, closes, runCalled, runRet, began, stopCalled, stopRet, ending, closeErr,
                       blocked, beginsAfter, bound, lateCommit, lateInner, closedOK, outcomeOK>>
OSkip == /\ l <= Len(Trace) /\ Trace[l].e \in {"obs", "enter", "closegate", "closeopen", "note", "ibegin", "ienter", "isecend"}
         /\ l' = l + 1
         /\ UNCHANGED <<caseLine, cfg, created, closes, runCalled, runRet, began, stopCalled, stopRet, ending, closeErr,
                        blocked, beginsAfter, bound, lateCommit, lateInner, closedOK, outcomeOK, endOK>>

ONext == OCase \/ ORunCall \/ ORunRet \/ OStopCall \/ OStopRet \/ OStopBlocked \/ OBegin \/ OSecEnd
         \/ OCommit \/ OICommit \/ OCreate \/ OClose \/ OEnd \/ OSkip

(* ------------------------------------------------------------------ the property *)
(* An archetype context runs at most once. *)
RunsAtMostOnce == Cardinality(began) <= 1
(* After Stop returns no further critical section commits. *)
NoCommitAfterStopReturned == ~lateCommit
(* No section of an inner context of a nested resource commits after the started outer Run returned. *)
NoInnerCommitAfterRunReturned == ~lateInner
(* When a started run ends every configured resource and every realised map element has *)
(* been closed exactly once; nothing is ever closed twice.                              *)
ClosedExactlyOnce == closedOK /\ \A x \in DOMAIN closes : closes[x] <= 1
(* Run reports normal termination / assertion failure / Error label / resource error distinctly. *)
DistinctOutcomes == outcomeOK
(* Every Stop call (and the run) returns: no deadlock with calls outstanding. *)
EveryStopReturns == endOK
(* ... once the archetype has stopped at a label boundary: counted in section begins after *)
(* a Stop call was seen waiting, never in time.                                            *)
StopsAtLabelBoundary == beginsAfter <= bound

(* The judge: evaluated by TLC on every state of the folded trace. It never stops the fold (so one *)
(* pass judges every recorded case) and reports <<"VIOLATED", case header line, line, names>>.     *)
Violated == SelectSeq(<<"RunsAtMostOnce", "NoCommitAfterStopReturned", "ClosedExactlyOnce",
                        "DistinctOutcomes", "EveryStopReturns", "NoInnerCommitAfterRunReturned", "StopsAtLabelBoundary">>,
                      LAMBDA n : ~(CASE n = "RunsAtMostOnce" -> RunsAtMostOnce
                                     [] n = "NoCommitAfterStopReturned" -> NoCommitAfterStopReturned
                                     [] n = "ClosedExactlyOnce" -> ClosedExactlyOnce
                                     [] n = "DistinctOutcomes" -> DistinctOutcomes
                                     [] n = "EveryStopReturns" -> EveryStopReturns
                                     [] n = "NoInnerCommitAfterRunReturned" -> NoInnerCommitAfterRunReturned
                                     [] OTHER -> StopsAtLabelBoundary))
Judge == IF Violated # <<>> THEN PrintT(<<"VIOLATED", caseLine, l - 1, Violated>>) ELSE TRUE
=============================================================================
