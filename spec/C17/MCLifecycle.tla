------------------------------ MODULE MCLifecycle ------------------------------
(* Exhaustive design-level check of Lifecycle.tla (TLC, deadlock check ON).          *)
(* MCLifecycle.cfg        Variant = "fixed": all invariants, liveness, no deadlock   *)
(* MCLifecyclePinned.cfg  Variant = "pinned": TLC is EXPECTED to find the deadlock   *)
(* MCLifecycleFixA.cfg    Variant = "fixA": no deadlock, but RunsAtMostOnce fails    *)
(* MCLifecycleFixB.cfg    Variant = "fixB": runs at most once, but still deadlocks   *)
EXTENDS Lifecycle, TLC
=============================================================================
