CONSTANTS
  NStop = 5
  NRun = 3
  Variant = "fixed"
INIT TInit
NEXT TNext
INVARIANTS Accepted
CHECK_DEADLOCK FALSE
