------------------------------ MODULE NestedLifecycle ------------------------------
(* M-spec for C17, nested resources: an outer MPCalContext one of whose resources is   *)
(* resources.NewNested around NInner >= 2 inner MPCalContexts                          *)
(* (distsys/resources/nestedarch.go: NewNested, nestedArchetype.Close).                *)
(*                                                                                    *)
(* The Run/Stop lock protocol of ONE context is Lifecycle.tla (checked there); here    *)
(* each context's protocol is reduced to what the repaired protocol guarantees (a Stop *)
(* call's lock region is one step: leave at most one token / mark "exit requested",    *)
(* then wait for awaitExit), and the subject is the composition:                       *)
(*                                                                                    *)
(*   NewNested     every inner context is Run by its own goroutine from construction;  *)
(*                 when that Run returns the goroutine closes ctxHasStopped (if nobody *)
(*                 has) and puts the result into ctxErrCh (capacity NInner)  -> IExit   *)
(*   Close         `go inner.Stop()` for every inner context   -> NCloseStart, IStop..  *)
(*                 then receives NInner results from ctxErrCh  -> NRecv                *)
(*   cleanupResources of the outer Run calls Close of the nested resource; awaitExit   *)
(*                 of the outer context is closed only afterwards -> ONotify           *)
(*                                                                                    *)
(* An inner context may end by itself (Done / error) at any time: before the outer     *)
(* Run, while it runs, during the outer clean-up. The harness gates every context at   *)
(* BeginCriticalSection ("gateB") and in the section body ("body"): Enter / Finish     *)
(* (outer) and IEnter / IFinish (inner) are environment actions.                       *)
(*                                                                                    *)
(* Confirmed hangs instead of livelocks: once the outer clean-up has begun, the        *)
(* harness lets every inner context begin at most Budget further sections, and only    *)
(* when the code is quiescent (a context that was asked to stop leaves at its next     *)
(* loop head, so one section suffices). A nested Close that does not stop some inner   *)
(* context therefore ends in a state without successor: TLC reports a DEADLOCK, the    *)
(* driver sees every goroutine parked and the Go runtime aborts the process.           *)
(*                                                                                    *)
(* Variant: "ok"       the tree as checked out                                         *)
(*          "seed"     Close only stops the inner contexts if none has ended yet       *)
(*                     (`select { case <-ctxHasStopped: default: go Stop()... }`)      *)
(*          "firsterr" Close stops all, but stops receiving at the first inner error   *)
(*          "noawait"  Close stops all, but does not receive their results             *)
(* The last three are deliberately broken and must be rejected (vacuity).              *)
EXTENDS Naturals, FiniteSets, Sequences

CONSTANTS NInner, NStop, Budget, Variant

Inner == 1..NInner
Stops == 1..NStop
Nil   == 0 - 1

OEndKinds == {"done", "assert", "errlabel", "reserr", "preerr"}
OKinds    == {"commit", "abort"} \cup OEndKinds
IKinds    == {"commit", "done", "err"}

VARIABLES opc, oreq, oexit, oawait,      \* outer context: Run's control state, requestExit, exitRequested, awaitExit closed
          spc,                           \* outer Stop calls
          ipc, ireq, iexit, iawait,      \* the same four for every inner context
          istop,                         \* the `go inner.Stop()` goroutine started by Close
          ierr,                          \* inner Run's result is an error
          hasStopped,                    \* ctxHasStopped is closed
          errq,                          \* contents of ctxErrCh (TRUE = non-nil error)
          awaited,                       \* results received by Close so far
          left,                          \* sections the harness still grants inner i once the outer clean-up has begun
          oclosed, nclosed, iclosed,     \* Close calls: outer leaf resources / the nested resource / resources of inner i
          obegan, oret, stopRet, lateInner
vars == <<opc, oreq, oexit, oawait, spc, ipc, ireq, iexit, iawait, istop, ierr, hasStopped, errq, awaited, left,
          oclosed, nclosed, iclosed, obegan, oret, stopRet, lateInner>>

Init == /\ opc = "idle" /\ oreq = Nil /\ oexit = FALSE /\ oawait = FALSE
        /\ spc = [t \in Stops |-> "idle"]
        /\ ipc = [i \in Inner |-> "gateB"]        \* NewNested has started them; the harness waits until they are parked
        /\ ireq = [i \in Inner |-> 0] /\ iexit = [i \in Inner |-> FALSE] /\ iawait = [i \in Inner |-> FALSE]
        /\ istop = [i \in Inner |-> "none"] /\ ierr = [i \in Inner |-> FALSE]
        /\ hasStopped = FALSE /\ errq = <<>> /\ awaited = 0
        /\ left = [i \in Inner |-> Budget]
        /\ oclosed = 0 /\ nclosed = 0 /\ iclosed = [i \in Inner |-> 0]
        /\ obegan = FALSE /\ oret = FALSE /\ stopRet = FALSE /\ lateInner = FALSE

ovars == <<opc, oreq, oexit, oawait>>
ivars == <<ipc, ireq, iexit, iawait, ierr>>
nvars == <<istop, hasStopped, errq, awaited>>
cvars == <<oclosed, nclosed, iclosed>>
hvars == <<obegan, oret, stopRet, lateInner>>

(* ------------------------------------------------------------------ guards of the code's own steps *)
TauEnabled ==
    \/ opc \in {"start", "poll", "commit", "cleanup", "notify"}
    \/ (opc = "nwait" /\ errq # <<>>)
    \/ \E t \in Stops : spc[t] = "lock" \/ (spc[t] = "wait" /\ oawait)
    \/ \E i \in Inner : \/ ipc[i] \in {"poll", "commit", "cleanup", "notify", "exit"}
                        \/ istop[i] = "lock" \/ (istop[i] = "wait" /\ iawait[i])
Quiescent == ~TauEnabled

(* the outer run has begun its clean-up (or is past it) *)
Draining == opc \in {"cleanup", "nwait", "notify"} \/ oret

(* ------------------------------------------------------------------ outer Run *)
RunCall == /\ opc = "idle" /\ opc' = "start"
           /\ UNCHANGED <<oreq, oexit, oawait, spc, ivars, nvars, left, cvars, hvars>>

OStart == /\ opc = "start"
          /\ IF oexit THEN opc' = "returned" /\ UNCHANGED oreq          \* Stop case 2a came first: does not run
             ELSE opc' = "poll" /\ oreq' = 0
          /\ UNCHANGED <<oexit, oawait, spc, ivars, nvars, left, cvars, hvars>>

OPoll == /\ opc = "poll"
         /\ IF oreq = 1 THEN opc' = "cleanup" /\ oreq' = 0 /\ UNCHANGED obegan
            ELSE opc' = "gateB" /\ obegan' = TRUE /\ UNCHANGED oreq
         /\ UNCHANGED <<oexit, oawait, spc, ivars, nvars, left, cvars, oret, stopRet, lateInner>>

Enter == /\ opc = "gateB" /\ opc' = "body"
         /\ UNCHANGED <<oreq, oexit, oawait, spc, ivars, nvars, left, cvars, hvars>>

Finish(k) == /\ opc = "body" /\ k \in OKinds
             /\ opc' = IF k = "commit" THEN "commit" ELSE IF k = "abort" THEN "poll" ELSE "cleanup"
             /\ UNCHANGED <<oreq, oexit, oawait, spc, ivars, nvars, left, cvars, hvars>>

OCommit == /\ opc = "commit" /\ opc' = "poll"
           /\ UNCHANGED <<oreq, oexit, oawait, spc, ivars, nvars, left, cvars, hvars>>

(* cleanupResources: the leaf resources (their order relative to the nested resource is the *)
(* map order of the context and makes no difference here) and nestedArchetype.Close up to    *)
(* its first receive                                                                         *)
NCloseStart ==
    /\ opc = "cleanup"
    /\ oclosed' = oclosed + 1
    /\ istop' = [i \in Inner |-> IF Variant = "seed" /\ hasStopped THEN istop[i] ELSE "lock"]
    /\ awaited' = 0
    /\ IF Variant = "noawait" THEN opc' = "notify" /\ nclosed' = nclosed + 1
       ELSE opc' = "nwait" /\ UNCHANGED nclosed
    /\ UNCHANGED <<oreq, oexit, oawait, spc, ivars, hasStopped, errq, left, iclosed, hvars>>

(* err = multierr.Append(err, <-res.ctxErrCh), NInner times *)
NRecv ==
    /\ opc = "nwait" /\ errq # <<>>
    /\ errq' = Tail(errq) /\ awaited' = awaited + 1
    /\ IF awaited' = NInner \/ (Variant = "firsterr" /\ Head(errq))
       THEN opc' = "notify" /\ nclosed' = nclosed + 1
       ELSE UNCHANGED <<opc, nclosed>>
    /\ UNCHANGED <<oreq, oexit, oawait, spc, ivars, istop, hasStopped, left, oclosed, iclosed, hvars>>

ONotify == /\ opc = "notify"
           /\ opc' = "returned" /\ oawait' = TRUE /\ oreq' = Nil /\ oret' = TRUE
           /\ UNCHANGED <<oexit, spc, ivars, nvars, left, cvars, obegan, stopRet, lateInner>>

(* ------------------------------------------------------------------ outer Stop *)
StopCall(t) == /\ spc[t] = "idle" /\ \A q \in Stops : q < t => spc[q] # "idle"
               /\ spc' = [spc EXCEPT ![t] = "lock"]
               /\ UNCHANGED <<ovars, ivars, nvars, left, cvars, hvars>>

StopAcquire(t) ==
    /\ spc[t] = "lock"
    /\ IF oreq # Nil
       THEN /\ oreq' = (IF oexit THEN oreq ELSE 1) /\ oexit' = TRUE /\ UNCHANGED oawait     \* cases 1a / 1b
       ELSE /\ oexit' = TRUE /\ oawait' = (oawait \/ ~oexit) /\ UNCHANGED oreq              \* cases 2a / 2b
    /\ spc' = [spc EXCEPT ![t] = "wait"]
    /\ UNCHANGED <<opc, ivars, nvars, left, cvars, hvars>>

StopWake(t) == /\ spc[t] = "wait" /\ oawait
               /\ spc' = [spc EXCEPT ![t] = "returned"] /\ stopRet' = TRUE
               /\ UNCHANGED <<ovars, ivars, nvars, left, cvars, obegan, oret, lateInner>>

(* ------------------------------------------------------------------ inner contexts *)
IPoll(i) == /\ ipc[i] = "poll"
            /\ IF ireq[i] = 1 THEN ipc' = [ipc EXCEPT ![i] = "cleanup"] /\ ireq' = [ireq EXCEPT ![i] = 0]
               ELSE ipc' = [ipc EXCEPT ![i] = "gateB"] /\ UNCHANGED ireq
            /\ UNCHANGED <<ovars, spc, iexit, iawait, ierr, nvars, left, cvars, hvars>>

(* the harness opens the gate; during the outer clean-up only while it has budget and the code is quiescent *)
IEnter(i) == /\ ipc[i] = "gateB"
             /\ IF Draining THEN left[i] > 0 /\ Quiescent /\ left' = [left EXCEPT ![i] = left[i] - 1]
                ELSE UNCHANGED left
             /\ ipc' = [ipc EXCEPT ![i] = "body"]
             /\ UNCHANGED <<ovars, spc, ireq, iexit, iawait, ierr, nvars, cvars, hvars>>

IFinish(i, k) == /\ ipc[i] = "body" /\ k \in IKinds
                 /\ ipc' = [ipc EXCEPT ![i] = IF k = "commit" THEN "commit" ELSE "cleanup"]
                 /\ ierr' = [ierr EXCEPT ![i] = (k = "err")]
                 /\ UNCHANGED <<ovars, spc, ireq, iexit, iawait, nvars, left, cvars, hvars>>

ICommit(i) == /\ ipc[i] = "commit"
              /\ ipc' = [ipc EXCEPT ![i] = "poll"]
              /\ lateInner' = (lateInner \/ oret)
              /\ UNCHANGED <<ovars, spc, ireq, iexit, iawait, ierr, nvars, left, cvars, obegan, oret, stopRet>>

ICleanup(i) == /\ ipc[i] = "cleanup"
               /\ ipc' = [ipc EXCEPT ![i] = "notify"] /\ iclosed' = [iclosed EXCEPT ![i] = iclosed[i] + 1]
               /\ UNCHANGED <<ovars, spc, ireq, iexit, iawait, ierr, nvars, left, oclosed, nclosed, hvars>>

INotify(i) == /\ ipc[i] = "notify"
              /\ ipc' = [ipc EXCEPT ![i] = "exit"]
              /\ iawait' = [iawait EXCEPT ![i] = TRUE] /\ ireq' = [ireq EXCEPT ![i] = Nil]
              /\ UNCHANGED <<ovars, spc, iexit, ierr, nvars, left, cvars, hvars>>

(* the goroutine of NewNested after inner.Run() returned *)
IExit(i) == /\ ipc[i] = "exit"
            /\ ipc' = [ipc EXCEPT ![i] = "returned"]
            /\ hasStopped' = TRUE /\ errq' = Append(errq, ierr[i])
            /\ UNCHANGED <<ovars, spc, ireq, iexit, iawait, ierr, istop, awaited, left, cvars, hvars>>

(* `go nestedCtx.Stop()` *)
IStopAcquire(i) ==
    /\ istop[i] = "lock"
    /\ IF ireq[i] # Nil
       THEN /\ ireq' = [ireq EXCEPT ![i] = IF iexit[i] THEN ireq[i] ELSE 1] /\ UNCHANGED iawait
       ELSE /\ iawait' = [iawait EXCEPT ![i] = TRUE] /\ UNCHANGED ireq
    /\ iexit' = [iexit EXCEPT ![i] = TRUE]
    /\ istop' = [istop EXCEPT ![i] = "wait"]
    /\ UNCHANGED <<ovars, spc, ipc, ierr, hasStopped, errq, awaited, left, cvars, hvars>>

IStopWake(i) == /\ istop[i] = "wait" /\ iawait[i]
                /\ istop' = [istop EXCEPT ![i] = "returned"]
                /\ UNCHANGED <<ovars, spc, ivars, hasStopped, errq, awaited, left, cvars, hvars>>

(* ------------------------------------------------------------------ next-state *)
TauOuter == OStart \/ OPoll \/ OCommit \/ NCloseStart \/ NRecv \/ ONotify
TauStop(t) == StopAcquire(t) \/ StopWake(t)
TauInner(i) == IPoll(i) \/ ICommit(i) \/ ICleanup(i) \/ INotify(i) \/ IExit(i) \/ IStopAcquire(i) \/ IStopWake(i)
Tau == TauOuter \/ (\E t \in Stops : TauStop(t)) \/ (\E i \in Inner : TauInner(i))
Env == \/ RunCall \/ Enter \/ (\E k \in OKinds : Finish(k))
       \/ \E t \in Stops : StopCall(t)
       \/ \E i \in Inner : IEnter(i) \/ (\E k \in IKinds : IFinish(i, k))

(* everything that was called has returned, and no inner context is left that the harness could still move: *)
(* such a state may stutter; any other state without successor is a deadlock (TLC's deadlock check is ON)   *)
AllReturned == /\ opc \in {"idle", "returned"}
               /\ \A t \in Stops : spc[t] \in {"idle", "returned"}
               /\ \A i \in Inner : istop[i] \in {"none", "returned"}
Settled == AllReturned /\ UNCHANGED vars

Next == Tau \/ Env \/ Settled
Spec == Init /\ [][Next]_vars

Fairness == /\ WF_vars(TauOuter) /\ WF_vars(Enter) /\ WF_vars(\E k \in OKinds : Finish(k))
            /\ \A t \in Stops : WF_vars(TauStop(t))
            /\ \A i \in Inner : WF_vars(TauInner(i)) /\ WF_vars(IEnter(i)) /\ WF_vars(\E k \in IKinds : IFinish(i, k))
FairSpec == Spec /\ Fairness

(* ------------------------------------------------------------------ properties *)
TypeOK == /\ opc \in {"idle", "start", "poll", "gateB", "body", "commit", "cleanup", "nwait", "notify", "returned"}
          /\ oreq \in {Nil, 0, 1} /\ awaited \in 0..NInner /\ Len(errq) <= NInner
          /\ \A i \in Inner : ireq[i] \in {Nil, 0, 1} /\ left[i] \in 0..Budget

(* nothing is ever closed twice *)
ClosedAtMostOnce == oclosed <= 1 /\ nclosed <= 1 /\ \A i \in Inner : iclosed[i] <= 1
(* when a started outer run has ended, every resource has been closed exactly once: the outer ones, the nested *)
(* resource, and the resources of EVERY inner context -- whose Run has returned                                *)
ClosedOnReturn == oret => /\ oclosed = 1 /\ nclosed = 1
                          /\ \A i \in Inner : iclosed[i] = 1 /\ ipc[i] = "returned"
(* no inner section commits after the outer Run returned *)
NoLateInnerCommit == ~lateInner
(* a Stop call on the outer context has returned => the outer archetype is not running and never will *)
StopMeansStopped == stopRet => opc \in {"idle", "start", "returned"} /\ oexit
(* ctxErrCh never overflows (its capacity is the number of inner contexts) and is drained by a complete Close *)
ErrChDrained == (oret /\ Variant = "ok") => errq = <<>>

EveryStopReturns == \A t \in Stops : (spc[t] = "lock") ~> (spc[t] = "returned")
CleanupCompletes == (opc = "cleanup") ~> (opc = "returned")
InnerStopsReturn == \A i \in Inner : (istop[i] = "lock") ~> (istop[i] = "returned")
=============================================================================
