CONSTANTS
  NInner = 2
  NStop = 2
  Budget = 2
  Variant = "ok"
SPECIFICATION Spec
INVARIANTS TypeOK ClosedAtMostOnce ClosedOnReturn NoLateInnerCommit StopMeansStopped ErrChDrained
