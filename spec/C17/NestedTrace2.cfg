CONSTANTS
  NInner = 2
  NStop = 5
  Budget = 9
  Variant = "ok"
INIT TInit
NEXT TNext
INVARIANTS Accepted
CHECK_DEADLOCK FALSE
