INIT OInit
NEXT ONext
INVARIANTS Judge
CHECK_DEADLOCK FALSE
