CONSTANTS
  NStop = 3
  NRun = 2
  Variant = "pinned"
SPECIFICATION Spec
INVARIANTS TypeOK RunsAtMostOnce
CHECK_DEADLOCK FALSE
