INIT OInit
NEXT ONext
INVARIANTS RunsAtMostOnce NoCommitAfterStopReturned ClosedExactlyOnce DistinctOutcomes EveryStopReturns NoInnerCommitAfterRunReturned StopsAtLabelBoundary
CHECK_DEADLOCK FALSE
