INIT OInit
NEXT ONext
INVARIANTS RunsAtMostOnce NoCommitAfterStopReturned ClosedExactlyOnce DistinctOutcomes EveryStopReturns StopsAtLabelBoundary
CHECK_DEADLOCK FALSE
