------------------------------ MODULE Lifecycle ------------------------------
(* M-spec for C17: the lock / channel protocol of distsys/mpcalctx.go (Run, Stop,      *)
(* cleanupResources), one action per lock region / blocking point.                    *)
(*                                                                                    *)
(*   runStateLock  -> lock   (0 = free, t = held by Stop thread t blocked on the send) *)
(*   exitRequested -> exitReq                                                         *)
(*   requestExit   -> req    (-1 = nil, 0 / 1 = buffered channel holding 0 / 1 token)  *)
(*   awaitExit     -> awaitClosed                                                     *)
(*   hasRun        -> hasRun (only read by the repaired Run, see Variant)             *)
(*                                                                                    *)
(* Every lock region of the code is straight-line except Stop case 1a, whose channel  *)
(* send can block while the lock is held; so lock regions are single actions and the  *)
(* only state in which the lock is observably held is spc[t] = "send".                *)
(*                                                                                    *)
(* Environment (harness) actions: RunCall, StopCall, Enter, Finish, CloseOpen -- the   *)
(* harness gates BeginCriticalSection ("gateB"), the section body ("body") and Close  *)
(* of one instrumented resource ("gateC"). Everything else is a step of the code.     *)
(*                                                                                    *)
(* Variant: "pinned" = the tree as checked out; "fixA" = Stop case 1a sets            *)
(* exitRequested (patches/C17-fix-stop-deadlock.diff); "fixB" = Run refuses a context *)
(* that has run (patches/C17-fix-run-twice.diff); "fixed" = both.                     *)
EXTENDS Naturals, FiniteSets, Sequences

CONSTANTS NStop, NRun, Variant

Stops == 1..NStop
Runs  == 1..NRun
FixA  == Variant \in {"fixA", "fixed"}
FixB  == Variant \in {"fixB", "fixed"}

EndKinds == {"done", "assert", "errlabel", "reserr", "preerr"}
Kinds    == {"commit", "abort"} \cup EndKinds

VARIABLES lock, exitReq, hasRun, req, awaitClosed,   \* MPCalContext fields
          rpc, spc,                                   \* control state of Run calls / Stop calls
          rres,                                       \* result of each Run call
          ending,                                     \* how the loop of the running Run ended
          closeCnt,                                   \* number of times the resources were closed
          began,                                      \* Run calls that executed (part of) a section
          stopRet, lateCommit, badClose               \* history flags for the properties
vars == <<lock, exitReq, hasRun, req, awaitClosed, rpc, spc, rres, ending, closeCnt, began,
          stopRet, lateCommit, badClose>>

Init == /\ lock = 0 /\ exitReq = FALSE /\ hasRun = FALSE /\ req = 0 - 1 /\ awaitClosed = FALSE
        /\ rpc = [r \in Runs |-> "idle"] /\ spc = [t \in Stops |-> "idle"]
        /\ rres = [r \in Runs |-> "none"]
        /\ ending = "none" /\ closeCnt = 0 /\ began = {}
        /\ stopRet = FALSE /\ lateCommit = FALSE /\ badClose = FALSE

Nil == 0 - 1

(* ------------------------------------------------------------------ Run *)
RunCall(r) == /\ rpc[r] = "idle"
              /\ \A q \in Runs : q < r => rpc[q] # "idle"        \* symmetry: calls in index order
              /\ rpc' = [rpc EXCEPT ![r] = "check"]
              /\ UNCHANGED <<lock, exitReq, hasRun, req, awaitClosed, spc, rres, ending, closeCnt,
                             began, stopRet, lateCommit, badClose>>

(* hasAlreadyClosed(): one lock region *)
RunCheck(r) ==
    /\ rpc[r] = "check" /\ lock = 0
    /\ IF req # Nil \/ (FixB /\ hasRun)
       THEN /\ rpc' = [rpc EXCEPT ![r] = "returned"] /\ rres' = [rres EXCEPT ![r] = "panic-already"]
            /\ UNCHANGED <<req, hasRun, ending>>
       ELSE IF exitReq
       THEN /\ rpc' = [rpc EXCEPT ![r] = "returned"] /\ rres' = [rres EXCEPT ![r] = "norun"]
            /\ UNCHANGED <<req, hasRun, ending>>
       ELSE /\ req' = 0 /\ hasRun' = TRUE /\ ending' = "none"
            /\ rpc' = [rpc EXCEPT ![r] = "poll"] /\ UNCHANGED rres
    /\ UNCHANGED <<lock, exitReq, awaitClosed, spc, closeCnt, began, stopRet, lateCommit, badClose>>

(* loop head: select on requestExit with default *)
RunPoll(r) ==
    /\ rpc[r] = "poll"
    /\ IF req = 1
       THEN /\ req' = 0 /\ ending' = "stopped" /\ rpc' = [rpc EXCEPT ![r] = "cleanup"] /\ UNCHANGED began
       ELSE /\ rpc' = [rpc EXCEPT ![r] = "gateB"] /\ began' = began \cup {r} /\ UNCHANGED <<req, ending>>
    /\ UNCHANGED <<lock, exitReq, hasRun, awaitClosed, spc, rres, closeCnt, stopRet, lateCommit, badClose>>

Enter(r) == /\ rpc[r] = "gateB"
            /\ rpc' = [rpc EXCEPT ![r] = "body"]
            /\ UNCHANGED <<lock, exitReq, hasRun, req, awaitClosed, spc, rres, ending, closeCnt, began,
                           stopRet, lateCommit, badClose>>

Finish(r, k) ==
    /\ rpc[r] = "body" /\ k \in Kinds
    /\ IF k = "commit" THEN rpc' = [rpc EXCEPT ![r] = "commit"] /\ UNCHANGED ending
       ELSE IF k = "abort" THEN rpc' = [rpc EXCEPT ![r] = "poll"] /\ UNCHANGED ending
       ELSE rpc' = [rpc EXCEPT ![r] = "cleanup"] /\ ending' = k
    /\ UNCHANGED <<lock, exitReq, hasRun, req, awaitClosed, spc, rres, closeCnt, began,
                   stopRet, lateCommit, badClose>>

RunCommit(r) == /\ rpc[r] = "commit"
                /\ rpc' = [rpc EXCEPT ![r] = "poll"]
                /\ lateCommit' = (lateCommit \/ stopRet)
                /\ UNCHANGED <<lock, exitReq, hasRun, req, awaitClosed, spc, rres, ending, closeCnt,
                               began, stopRet, badClose>>

(* deferred function: cleanupResources() reaches the gated resource *)
RunCleanup(r) == /\ rpc[r] = "cleanup"
                 /\ rpc' = [rpc EXCEPT ![r] = "gateC"]
                 /\ UNCHANGED <<lock, exitReq, hasRun, req, awaitClosed, spc, rres, ending, closeCnt,
                                began, stopRet, lateCommit, badClose>>

CloseOpen(r) == /\ rpc[r] = "gateC"
                /\ rpc' = [rpc EXCEPT ![r] = "notify"]
                /\ closeCnt' = closeCnt + 1
                /\ UNCHANGED <<lock, exitReq, hasRun, req, awaitClosed, spc, rres, ending, began,
                               stopRet, lateCommit, badClose>>

(* deferred function: notification lock region *)
RunNotify(r) ==
    /\ rpc[r] = "notify" /\ lock = 0
    /\ IF awaitClosed
       THEN /\ badClose' = TRUE /\ rres' = [rres EXCEPT ![r] = "panic-close"]   \* close of closed channel
            /\ UNCHANGED <<awaitClosed, req>>
       ELSE /\ awaitClosed' = TRUE /\ req' = Nil /\ rres' = [rres EXCEPT ![r] = ending]
            /\ UNCHANGED badClose
    /\ rpc' = [rpc EXCEPT ![r] = "returned"]
    /\ UNCHANGED <<lock, exitReq, hasRun, spc, ending, closeCnt, began, stopRet, lateCommit>>

(* ------------------------------------------------------------------ Stop *)
StopCall(t) == /\ spc[t] = "idle"
               /\ \A q \in Stops : q < t => spc[q] # "idle"
               /\ spc' = [spc EXCEPT ![t] = "lock"]
               /\ UNCHANGED <<lock, exitReq, hasRun, req, awaitClosed, rpc, rres, ending, closeCnt,
                              began, stopRet, lateCommit, badClose>>

(* the lock region of Stop up to (not including) the channel send *)
StopAcquire(t) ==
    /\ spc[t] = "lock" /\ lock = 0
    /\ IF req # Nil
       THEN IF ~exitReq
            THEN /\ spc' = [spc EXCEPT ![t] = "send"] /\ lock' = t            \* case 1a
                 /\ exitReq' = FixA
                 /\ UNCHANGED awaitClosed
            ELSE /\ spc' = [spc EXCEPT ![t] = "wait"]                        \* case 1b
                 /\ UNCHANGED <<lock, exitReq, awaitClosed>>
       ELSE IF ~exitReq
            THEN /\ exitReq' = TRUE /\ awaitClosed' = TRUE                     \* case 2a
                 /\ spc' = [spc EXCEPT ![t] = "wait"] /\ UNCHANGED lock
            ELSE /\ spc' = [spc EXCEPT ![t] = "wait"]                        \* case 2b
                 /\ UNCHANGED <<lock, exitReq, awaitClosed>>
    /\ UNCHANGED <<hasRun, req, rpc, rres, ending, closeCnt, began, stopRet, lateCommit, badClose>>

(* ctx.requestExit <- struct{}{} : blocks while the buffer is full, lock held *)
StopSend(t) == /\ spc[t] = "send" /\ req = 0
               /\ req' = 1 /\ lock' = 0 /\ spc' = [spc EXCEPT ![t] = "wait"]
               /\ UNCHANGED <<exitReq, hasRun, awaitClosed, rpc, rres, ending, closeCnt, began,
                              stopRet, lateCommit, badClose>>

(* <-ctx.awaitExit *)
StopWake(t) == /\ spc[t] = "wait" /\ awaitClosed
               /\ spc' = [spc EXCEPT ![t] = "returned"] /\ stopRet' = TRUE
               /\ UNCHANGED <<lock, exitReq, hasRun, req, awaitClosed, rpc, rres, ending, closeCnt,
                              began, lateCommit, badClose>>

(* ------------------------------------------------------------------ next-state *)
TauRun(r)  == RunCheck(r) \/ RunPoll(r) \/ RunCommit(r) \/ RunCleanup(r) \/ RunNotify(r)
TauStop(t) == StopAcquire(t) \/ StopSend(t) \/ StopWake(t)
Tau == (\E r \in Runs : TauRun(r)) \/ (\E t \in Stops : TauStop(t))
Env == \/ \E r \in Runs : RunCall(r) \/ Enter(r) \/ CloseOpen(r) \/ (\E k \in Kinds : Finish(r, k))
       \/ \E t \in Stops : StopCall(t)

(* guards of the code's own steps, written out (used for "quiescent") *)
TauEnabled ==
    \/ \E r \in Runs : \/ rpc[r] \in {"poll", "commit", "cleanup"}
                       \/ (rpc[r] \in {"check", "notify"} /\ lock = 0)
    \/ \E t \in Stops : \/ (spc[t] = "lock" /\ lock = 0)
                        \/ (spc[t] = "send" /\ req = 0)
                        \/ (spc[t] = "wait" /\ awaitClosed)
Quiescent == ~TauEnabled

AllSettled == /\ \A r \in Runs : rpc[r] \in {"idle", "returned"}
              /\ \A t \in Stops : spc[t] \in {"idle", "returned"}
(* a state in which everything that was called has returned may stutter; any other state *)
(* without a successor is a deadlock of the protocol (TLC's deadlock check is ON)        *)
Settled == AllSettled /\ UNCHANGED vars

Next == Tau \/ Env \/ Settled
Spec == Init /\ [][Next]_vars

Fairness == /\ \A r \in Runs : /\ WF_vars(TauRun(r)) /\ WF_vars(Enter(r)) /\ WF_vars(CloseOpen(r))
                               /\ WF_vars(\E k \in Kinds : Finish(r, k))
            /\ \A t \in Stops : WF_vars(TauStop(t))
FairSpec == Spec /\ Fairness

(* ------------------------------------------------------------------ properties *)
InLoop(r) == rpc[r] \in {"poll", "gateB", "body", "commit", "cleanup", "gateC", "notify"}

TypeOK == /\ lock \in 0..NStop /\ req \in {Nil, 0, 1} /\ closeCnt \in 0..(NRun + 1)
          /\ \A t \in Stops : (lock = t) <=> (spc[t] = "send")

RunsAtMostOnce   == Cardinality(began) <= 1 /\ Cardinality({r \in Runs : InLoop(r)}) <= 1
NoLateCommit     == ~lateCommit
ClosedAtMostOnce == closeCnt <= 1 /\ ~badClose
ClosedOnReturn   == \A r \in Runs : rres[r] \in (EndKinds \cup {"stopped"}) => closeCnt = 1
(* a Stop call has returned => the archetype is not running and will never run *)
StopMeansStopped == (\E t \in Stops : spc[t] = "returned") =>
                        /\ \A r \in Runs : ~InLoop(r)
                        /\ (exitReq \/ (FixB /\ hasRun))
(* the single-element buffer of requestExit is never written while full *)
SendNeverBlocks  == \A t \in Stops : spc[t] = "send" => req = 0

EveryStopReturns == \A t \in Stops : (spc[t] = "lock") ~> (spc[t] = "returned")
=============================================================================
