------------------------------ MODULE MCNested ------------------------------
(* Exhaustive design-level check of NestedLifecycle.tla (TLC, deadlock check ON).       *)
(* MCNested.cfg          Variant = "ok": invariants, no deadlock                         *)
(* MCNestedLive.cfg      Variant = "ok": liveness (every Stop returns, the clean-up       *)
(*                       completes) under weak fairness of the code and of the gates     *)
(* MCNestedSeed.cfg      Variant = "seed": TLC is EXPECTED to find the deadlock (Close    *)
(*                       waits for an inner context nobody asked to stop)                *)
(* MCNestedFirstErr.cfg  Variant = "firsterr": ClosedOnReturn is EXPECTED to fail         *)
(* MCNestedNoAwait.cfg   Variant = "noawait": ClosedOnReturn is EXPECTED to fail          *)
EXTENDS NestedLifecycle, TLC
=============================================================================
