CONSTANTS
  NStop = 3
  NRun = 2
  Variant = "fixed"
INIT GInit
NEXT GNext
CHECK_DEADLOCK FALSE
