------------------------------ MODULE LifecycleTrace ------------------------------
(* M-level trace specification (I->S): the events recorded from the real MPCalContext  *)
(* must be a behaviour of Lifecycle.tla. Observable events are tied to the action that  *)
(* produces them; lock regions and channel operations of the code are not observable    *)
(* and are taken freely between events (TTau), so TLC searches for an interleaving.     *)
(* "obs" lines carry the goroutine states the harness saw when the code was quiescent   *)
(* (Stop call parked on the mutex / on the channel send / on the channel receive; Run    *)
(* parked at a harness gate or on the mutex) and must equal the projection of the       *)
(* model state. A trace this spec rejects is MODEL DRIFT, never a verdict.              *)
EXTENDS Lifecycle, TLC, Json

Trace == ndJsonDeserialize("trace.ndjson")
VARIABLE l
tvars == <<vars, l>>

T == Trace[l]
Ev(e) == l <= Len(Trace) /\ Trace[l].e = e /\ l' = l + 1

TInit == Init /\ l = 1

TCase == /\ Ev("case") /\ PrintT(<<"CASE", l>>)
         /\ lock' = 0 /\ exitReq' = FALSE /\ hasRun' = FALSE /\ req' = Nil /\ awaitClosed' = FALSE
         /\ rpc' = [r \in Runs |-> "idle"] /\ spc' = [t \in Stops |-> "idle"]
         /\ rres' = [r \in Runs |-> "none"]
         /\ ending' = "none" /\ closeCnt' = 0 /\ began' = {}
         /\ stopRet' = FALSE /\ lateCommit' = FALSE /\ badClose' = FALSE

TRunCall  == Ev("runcall") /\ T.r \in Runs /\ RunCall(T.r)
TRunRet   == /\ Ev("runret") /\ T.r \in Runs /\ rpc[T.r] = "returned"
             /\ (T.panic \in {"already", "refused"}) <=> (rres[T.r] = "panic-already")
             /\ (T.panic = "other") <=> (rres[T.r] = "panic-close")
             /\ UNCHANGED vars
TStopCall == Ev("stopcall") /\ T.t \in Stops /\ StopCall(T.t)
TStopRet  == Ev("stopret") /\ T.t \in Stops /\ StopWake(T.t)
TBegin    == Ev("begin") /\ T.r \in Runs /\ req # 1 /\ RunPoll(T.r)
TEnter    == Ev("enter") /\ T.r \in Runs /\ Enter(T.r)
TSecEnd   == Ev("secend") /\ T.r \in Runs /\ Finish(T.r, T.kind)
TCommit   == Ev("commit") /\ \E r \in Runs : RunCommit(r)
TCloseGate == Ev("closegate") /\ \E r \in Runs : RunCleanup(r)
TCloseOpen == Ev("closeopen") /\ \E r \in Runs : CloseOpen(r)

SProj(t) == CASE spc[t] = "idle" -> "idle" [] spc[t] = "lock" -> "mutex" [] spc[t] = "send" -> "send"
              [] spc[t] = "wait" -> "recv" [] OTHER -> "ret"
RProj(r) == CASE rpc[r] = "idle" -> "idle" [] rpc[r] \in {"check", "notify"} -> "mutex"
              [] rpc[r] = "returned" -> "ret" [] OTHER -> rpc[r]
TObs == /\ Ev("obs") /\ Quiescent
        /\ \A t \in Stops : SProj(t) = IF t <= Len(T.s) THEN T.s[t] ELSE "idle"
        /\ \A r \in Runs : RProj(r) = IF r <= Len(T.r) THEN T.r[r] ELSE "idle"
        /\ UNCHANGED vars
TEnd == /\ Ev("end")
        /\ (T.why = "complete") => AllSettled
        /\ (T.why = "deadlock") => (Quiescent /\ ~AllSettled)
        /\ UNCHANGED vars
TSkip == /\ l <= Len(Trace) /\ Trace[l].e \in {"stopblocked", "create", "close", "note"}
         /\ l' = l + 1 /\ UNCHANGED vars

(* unobservable steps of the code *)
TTau == /\ UNCHANGED l
        /\ \/ \E r \in Runs : RunCheck(r) \/ RunNotify(r) \/ (req = 1 /\ RunPoll(r))
           \/ \E t \in Stops : StopAcquire(t) \/ StopSend(t)

TNext == TCase \/ TRunCall \/ TRunRet \/ TStopCall \/ TStopRet \/ TBegin \/ TEnter \/ TSecEnd \/ TCommit
         \/ TCloseGate \/ TCloseOpen \/ TObs \/ TEnd \/ TSkip \/ TTau

(* always TRUE; reports that some interleaving consumed every line *)
Accepted == IF l = Len(Trace) + 1 THEN PrintT(<<"ACCEPTED", l>>) ELSE TRUE
=============================================================================
