CONSTANTS
  NInner = 2
  NStop = 2
  Budget = 2
  Variant = "seed"
SPECIFICATION Spec
INVARIANTS TypeOK ClosedAtMostOnce ClosedOnReturn NoLateInnerCommit StopMeansStopped
