------------------------------ MODULE NestedTrace ------------------------------
(* M-level trace specification (I->S) for the nested cases (mode nproto): the events    *)
(* recorded from the real outer MPCalContext, the real nestedArchetype resource and its  *)
(* real inner contexts must be a behaviour of NestedLifecycle.tla (Variant "ok").        *)
(* As in LifecycleTrace, observable events are tied to the action that produces them,    *)
(* lock regions, channel operations and the goroutines started by NewNested / Close are  *)
(* unobserved and taken freely (TTau; TLC searches), and the "obs" lines (where the      *)
(* harness saw Run, every Stop call and every inner context parked when the whole        *)
(* process was quiescent) must equal the projection of the model state.                  *)
(* A trace this spec rejects is MODEL DRIFT, never a verdict.                            *)
EXTENDS NestedLifecycle, TLC, Json

Trace == ndJsonDeserialize("trace.ndjson")
VARIABLE l
tvars == <<vars, l>>

T == Trace[l]
Ev(e) == l <= Len(Trace) /\ Trace[l].e = e /\ l' = l + 1

TInit == Init /\ l = 1

TCase == /\ Ev("case") /\ PrintT(<<"CASE", l>>)
         /\ opc' = "idle" /\ oreq' = Nil /\ oexit' = FALSE /\ oawait' = FALSE
         /\ spc' = [t \in Stops |-> "idle"]
         /\ ipc' = [i \in Inner |-> "gateB"]
         /\ ireq' = [i \in Inner |-> 0] /\ iexit' = [i \in Inner |-> FALSE] /\ iawait' = [i \in Inner |-> FALSE]
         /\ istop' = [i \in Inner |-> "none"] /\ ierr' = [i \in Inner |-> FALSE]
         /\ hasStopped' = FALSE /\ errq' = <<>> /\ awaited' = 0
         /\ left' = [i \in Inner |-> Budget]
         /\ oclosed' = 0 /\ nclosed' = 0 /\ iclosed' = [i \in Inner |-> 0]
         /\ obegan' = FALSE /\ oret' = FALSE /\ stopRet' = FALSE /\ lateInner' = FALSE

TRunCall  == Ev("runcall") /\ RunCall
TRunRet   == Ev("runret") /\ opc = "returned" /\ T.panic = "none" /\ UNCHANGED vars
TStopCall == Ev("stopcall") /\ T.t \in Stops /\ StopCall(T.t)
TStopRet  == Ev("stopret") /\ T.t \in Stops /\ StopWake(T.t)
TBegin    == Ev("begin") /\ oreq # 1 /\ OPoll
TEnter    == Ev("enter") /\ Enter
TSecEnd   == Ev("secend") /\ Finish(T.kind)
TCommit   == Ev("commit") /\ OCommit
(* the first begin of an inner context happens inside NewNested (the initial state has it at its gate) *)
TIBegin   == /\ Ev("ibegin") /\ T.i \in Inner
             /\ IF T.n = 1 THEN UNCHANGED vars ELSE ireq[T.i] # 1 /\ IPoll(T.i)
TIEnter   == Ev("ienter") /\ T.i \in Inner /\ IEnter(T.i)
TISecEnd  == Ev("isecend") /\ T.i \in Inner /\ IFinish(T.i, T.kind)
TICommit  == Ev("icommit") /\ T.i \in Inner /\ ICommit(T.i)
(* Close of resource "c" of inner context i marks its clean-up; Close of the nested resource is logged when it *)
(* returns, i.e. after the last receive and before the outer context notifies its exit                         *)
InnerC(i) == CASE i = 1 -> "in1.c" [] i = 2 -> "in2.c" [] i = 3 -> "in3.c" [] OTHER -> "in4.c"
TClose == /\ Ev("close")
          /\ IF \E i \in Inner : T.res = InnerC(i) THEN ICleanup(CHOOSE i \in Inner : T.res = InnerC(i))
             ELSE IF T.res = "nst" THEN opc = "notify" /\ UNCHANGED vars
             ELSE UNCHANGED vars

SProj(t) == CASE spc[t] = "idle" -> "idle" [] spc[t] = "wait" -> "recv" [] spc[t] = "returned" -> "ret" [] OTHER -> "?"
RProj == CASE opc = "nwait" -> "nclose" [] opc = "returned" -> "ret" [] OTHER -> opc
IProj(i) == IF ipc[i] = "returned" THEN "gone" ELSE ipc[i]
TObs == /\ Ev("obs") /\ Quiescent
        /\ \A t \in Stops : SProj(t) = IF t <= Len(T.s) THEN T.s[t] ELSE "idle"
        /\ IF Len(T.r) = 0 THEN opc = "idle" ELSE Len(T.r) = 1 /\ RProj = T.r[1]
        /\ Len(T.i) = NInner /\ \A i \in Inner : IProj(i) = T.i[i]
        /\ UNCHANGED vars
TEnd == /\ Ev("end")
        /\ (T.why = "complete") => AllReturned
        /\ (T.why = "deadlock") => (Quiescent /\ ~AllReturned)
        /\ UNCHANGED vars
TSkip == /\ l <= Len(Trace) /\ Trace[l].e \in {"stopblocked", "create", "note"}
         /\ l' = l + 1 /\ UNCHANGED vars

(* unobservable steps of the code *)
TTau == /\ UNCHANGED l
        /\ \/ OStart \/ (oreq = 1 /\ OPoll) \/ NCloseStart \/ NRecv \/ ONotify
           \/ \E t \in Stops : StopAcquire(t)
           \/ \E i \in Inner : (ireq[i] = 1 /\ IPoll(i)) \/ INotify(i) \/ IExit(i) \/ IStopAcquire(i) \/ IStopWake(i)

TNext == TCase \/ TRunCall \/ TRunRet \/ TStopCall \/ TStopRet \/ TBegin \/ TEnter \/ TSecEnd \/ TCommit
         \/ TIBegin \/ TIEnter \/ TISecEnd \/ TICommit \/ TClose \/ TObs \/ TEnd \/ TSkip \/ TTau

(* always TRUE; reports that some interleaving consumed every line *)
Accepted == IF l = Len(Trace) + 1 THEN PrintT(<<"ACCEPTED", l>>) ELSE TRUE
=============================================================================
