CONSTANTS
  NInner = 2
  NStop = 1
  Budget = 1
  Variant = "ok"
INIT GInit
NEXT GNext
CHECK_DEADLOCK FALSE
