------------------------------ MODULE MCLifecycleGen ------------------------------
(* Generator configuration (TLC mode 3, -dump dot): the harness issues one command    *)
(* (environment action) at a time and only when the code is quiescent, so environment *)
(* actions are guarded by Quiescent; the code's own steps (Tau) are unconstrained.    *)
(* "last" names the command that led to a state (bounded, not a history of the run),  *)
(* so the dumped graph carries the command of every edge. checks/C17.py derives walks *)
(* from the initial state that cover every (quiescent state, command) edge and the    *)
(* driver replays each walk on the real MPCalContext.                                 *)
EXTENDS Lifecycle, TLC

VARIABLE last
gvars == <<vars, last>>

GInit == Init /\ last = "init"

GEnv == /\ Quiescent
        /\ \/ \E r \in Runs : RunCall(r) /\ last' = "run"
           \/ \E t \in Stops : StopCall(t) /\ last' = "stop"
           \/ \E r \in Runs : Enter(r) /\ last' = "enter"
           \/ \E r \in Runs : \E k \in Kinds : Finish(r, k) /\ last' = "finish:" \o k
           \/ \E r \in Runs : CloseOpen(r) /\ last' = "closeopen"
GTau == Tau /\ last' = "tau"
GNext == GEnv \/ GTau
=============================================================================
