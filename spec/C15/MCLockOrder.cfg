CONSTANTS
  defaultInitValue = defaultInitValue
  NumClients = 2
INIT HInit
NEXT HNext
INVARIANTS MutualExclusion ServedInArrivalOrder
PROPERTY GrantOnlyToWaiting
CHECK_DEADLOCK FALSE
