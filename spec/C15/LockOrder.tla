------------------------------ MODULE LockOrder ------------------------------
(* P-level statement of C15 on top of the repository's locksvc.tla (unchanged).   *)
(* Two history variables record the order in which lock requests reach the server *)
(* and the order in which grants are issued; they are functions of the step, so a  *)
(* recorded execution of the generated Go determines them.                         *)
EXTENDS locksvc

VARIABLES arrivals, served
hvars == <<vars, arrivals, served>>

NewGrant(c) == CopiesIn(GrantMsg, network'[c]) > CopiesIn(GrantMsg, network[c])
Granted == {c \in ClientSet : NewGrant(c)}

HInit == Init /\ arrivals = <<>> /\ served = <<>>
(* how the history variables follow a step (a function of vars and vars' only) *)
HStep == /\ arrivals' = IF \E s \in ServerSet : pc[s] = "serverReceive" /\ pc'[s] = "serverRespond" /\ msg'[s].type = LockMsg
                        THEN Append(arrivals, msg'[ServerID].from) ELSE arrivals
         /\ served' = IF Granted = {} THEN served ELSE Append(served, CHOOSE c \in Granted : TRUE)
HNext == Next /\ HStep
HSpec == HInit /\ [][HNext]_hvars

(* no two clients hold the lock at the same time (as written in locksvc.tla) *)
MutualExclusion == Safety

(* waiting clients are served in the order their requests reached the server *)
ServedInArrivalOrder ==
    /\ Len(served) <= Len(arrivals)
    /\ \A i \in 1..Len(served) : served[i] = arrivals[i]

(* the lock is granted only to a client that requested it and has not yet been served, *)
(* one grant at a time                                                                 *)
GrantStep ==
    /\ Cardinality(Granted) <= 1
    /\ \A c \in Granted :
        /\ \E i \in 1..Len(arrivals') : arrivals'[i] = c          \* it asked
        /\ \A i \in 1..Len(served) : served[i] # c                 \* not served before
        /\ ~hasLock[c]
        /\ CopiesIn(GrantMsg, network[c]) = 0
GrantOnlyToWaiting == [][GrantStep]_hvars
=============================================================================
