------------------------------- MODULE TwoPC -------------------------------
(* M-spec for C11: implementation-shaped model of distsys/resources/twopc.go.          *)
(* One action per lock region / linearization point of the Go code:                     *)
(*   Read, Write            ReadValue / WriteValue                                      *)
(*   PCCall, PCStart        PreCommit: the call; back-off check + doPreCommit up to the *)
(*                          broadcast                                                    *)
(*   Deliver / DropReq / DropResp / Dup   the ReplicaHandle (Receive + receiveInternal) *)
(*   Release                a response reaches the proposer's broadcast goroutine        *)
(*   Wake                   an Abort/Commit goroutine re-checks shouldRetry after error  *)
(*   PCDecide               doPreCommit after the broadcast: success or rollback         *)
(*   RollbackDone           "PreCommitFail" region                                       *)
(*   CommitStart/CommitDone Commit, "FinishCommit" region                                *)
(*   AbortCall/AbortDone    Abort (with rollback if the section had pre-committed)       *)
(* Two switches describe the pinned tree:                                                *)
(*   ValueEq = FALSE  senders / values compared by Go `==` on decoded requests (RPC):    *)
(*                    never equal; senderTimes keyed by pointer: the filter never fires  *)
(*   Filter  = FALSE  no sender-time filter (LocalReplicaHandle calls receiveInternal)   *)
(*   CommitRetry = FALSE  a Commit that met a transport error is not sent again once the *)
(*                    proposer's own version moved                                        *)
(* The repaired protocol is ValueEq = TRUE, Filter = TRUE, CommitRetry = TRUE on both     *)
(* transports.                                                                            *)
(* A fourth variant is selected by a definition override in the configuration:           *)
(*   RejVal <- RejValWorking   a reject reply carries the working value instead of the   *)
(*                    committed one (a lagging proposer installs an uncommitted write)    *)
(* and a fifth one the same way:                                                         *)
(*   AbortResend <- AbortResendUntilQuorum   an Abort that met a transport error is not  *)
(*                    sent again once its broadcast has its quorum of answers: a replica  *)
(*                    that accepted the PreCommit and misses the Abort stays captured     *)
EXTENDS Integers, Sequences, FiniteSets, TLC

CONSTANTS Nodes, Writers, MaxSect, MaxVer, DropBudget, DupBudget, Filter, ValueEq, SoloTries,
          CommitRetry,  \* TRUE (repaired): a Commit that met an error is sent again until a newer version supersedes it;
                        \* FALSE (pinned tree): only while the proposer's own version is unchanged, i.e. never once the
                        \* commit completed locally -- a replica that misses one Commit stays captured
          SplitPC       \* TRUE: the call of PreCommit and the doPreCommit region are separate steps (back-off sleep)

VARIABLES value, oldValue, version, cs, tpc, acc, stimes, attempts, clock,   \* per node (Go fields)
          op, need, rem, bc, ov, sect,                                      \* per node: proposer control state
          reqs, resps,                                                      \* network (held by the gating transport)
          drops, dups,                                                      \* fault budgets used
          winners, readv, stale, asserts,                                   \* ghosts for the P-level properties
          phase, solo, solotries, solocommits,                              \* solo phase (bounded progress)
          act                                                               \* label of the last action (schedule export)

nodevars  == <<value, oldValue, version, cs, tpc, acc, stimes, attempts, clock>>
ctlvars   == <<op, need, rem, bc, ov, sect>>
netvars   == <<reqs, resps, drops, dups>>
ghostvars == <<winners, readv, stale, asserts>>
solovars  == <<phase, solo, solotries, solocommits>>
vars      == <<nodevars, ctlvars, netvars, ghostvars, solovars, act>>
\* everything except the label: VIEW of exhaustive runs
view      == <<nodevars, ctlvars, netvars, ghostvars, solovars>>

N == Cardinality(Nodes)
Peers(p) == Nodes \ {p}
\* broadcast(): len(replicas) even -> len/2, odd -> len/2+1 (with the proposer itself: a majority of N)
Required == IF (N - 1) % 2 = 0 THEN (N - 1) \div 2 ELSE (N - 1) \div 2 + 1

NoAcc == [from |-> 0, ver |-> 0, val |-> 0, st |-> 0]
NewVal(p, k) == p * 100 + k

CanAccept(s) == s \in {"inCS", "notInCS", "failedPC", "acceptedNew"}
Failed(s)    == s \in {"acceptedNew", "failedPC"}
SenderEq(x, y) == ValueEq /\ x = y
ValEq(x, y)    == ValueEq /\ x = y

Quiet == reqs = {} /\ resps = {} /\ \A n \in Nodes : op[n] = "idle"

Init ==
  /\ value = [n \in Nodes |-> 0] /\ oldValue = [n \in Nodes |-> 0] /\ version = [n \in Nodes |-> 0]
  /\ cs = [n \in Nodes |-> "notInCS"] /\ tpc = [n \in Nodes |-> "initial"] /\ acc = [n \in Nodes |-> NoAcc]
  /\ stimes = [n \in Nodes |-> [m \in Nodes |-> 0]] /\ attempts = [n \in Nodes |-> 0] /\ clock = [n \in Nodes |-> 0]
  /\ op = [n \in Nodes |-> "idle"] /\ need = [n \in Nodes |-> 0] /\ rem = [n \in Nodes |-> 0]
  /\ bc = [n \in Nodes |-> 0] /\ ov = [n \in Nodes |-> 0] /\ sect = [n \in Nodes |-> 0]
  /\ reqs = {} /\ resps = {} /\ drops = 0 /\ dups = 0
  /\ winners = [v \in 1..(MaxVer + 1) |-> {}] /\ readv = [n \in Nodes |-> 0] /\ stale = FALSE /\ asserts = {}
  /\ phase = "free" /\ solo = 0 /\ solotries = 0 /\ solocommits = 0
  /\ act = <<"init">>

-----------------------------------------------------------------------------
(* acceptNewValue, as a state update on node n given the current per-node functions *)
AN_version(n, ver)  == [version EXCEPT ![n] = ver]
AcceptNew(n, val, ver, tpc0) ==
  /\ version'  = [version EXCEPT ![n] = ver]
  /\ value'    = [value EXCEPT ![n] = val]
  /\ oldValue' = [oldValue EXCEPT ![n] = val]
  /\ attempts' = [attempts EXCEPT ![n] = 0]
  /\ tpc'      = [tpc0 EXCEPT ![n] = IF tpc0[n] = "accepted" /\ acc[n].ver <= ver THEN "initial" ELSE tpc0[n]]
  /\ cs'       = [cs EXCEPT ![n] = IF cs[n] # "notInCS" THEN "acceptedNew" ELSE cs[n]]

Msgs(p, type, ver, val, st, o) ==
  {[from |-> p, to |-> a, type |-> type, ver |-> ver, val |-> val, st |-> st, ov |-> o, sl |-> FALSE] : a \in Peers(p)}

Tag(m) == <<m.from, m.to, m.type, m.ver, m.st>>

-----------------------------------------------------------------------------
(* local operations of a section, called by MPCalContext.Run (or the driver) *)

MayStart(p) == /\ p \in Writers /\ op[p] = "idle"
               /\ IF phase = "free" THEN sect[p] < MaxSect ELSE p = solo /\ solotries < SoloTries /\ solocommits = 0

Read(p) ==
  /\ MayStart(p)
  /\ ~Failed(cs[p])                       \* always true when idle
  /\ cs' = [cs EXCEPT ![p] = IF cs[p] = "notInCS" THEN "inCS" ELSE cs[p]]
  /\ readv' = [readv EXCEPT ![p] = version[p]]
  /\ op' = [op EXCEPT ![p] = "rd"]
  /\ sect' = [sect EXCEPT ![p] = sect[p] + 1]
  /\ solotries' = IF phase = "solo" THEN solotries + 1 ELSE solotries
  /\ act' = <<"read", p>>
  /\ UNCHANGED <<value, oldValue, version, tpc, acc, stimes, attempts, clock, need, rem, bc, ov, netvars,
                 winners, stale, asserts, phase, solo, solocommits>>

Write(p) ==
  /\ op[p] = "rd"
  /\ IF Failed(cs[p])
       THEN /\ op' = [op EXCEPT ![p] = "failed"] /\ UNCHANGED value
            /\ act' = <<"write", p, "err">>
       ELSE /\ op' = [op EXCEPT ![p] = "insect"]
            /\ value' = [value EXCEPT ![p] = NewVal(p, sect[p])]
            /\ act' = <<"write", p, "ok">>
  /\ UNCHANGED <<oldValue, version, cs, tpc, acc, stimes, attempts, clock, need, rem, bc, ov, sect, netvars,
                 ghostvars, solovars>>

(* PreCommit() returns a channel at once; its goroutine sleeps (exponential back-off) before the doPreCommit   *)
(* region. While it sleeps the node behaves exactly as inside the section ("pcsleep" differs from "insect"   *)
(* only in that the section can no longer be given up), so exhaustive runs merge the two steps (SplitPC =   *)
(* FALSE); trace validation needs them apart.                                                                *)
PCCall(p) ==
  /\ SplitPC /\ op[p] = "insect"
  /\ op' = [op EXCEPT ![p] = "pcsleep"]
  /\ act' = <<"pccall", p>>
  /\ UNCHANGED <<nodevars, need, rem, bc, ov, sect, netvars, ghostvars, solovars>>

PCStart(p) ==
  /\ op[p] = (IF SplitPC THEN "pcsleep" ELSE "insect")
  /\ IF Failed(cs[p]) \/ tpc[p] = "accepted"
       THEN /\ op' = [op EXCEPT ![p] = "failed"]
            /\ act' = <<"pcstart", p, 0, 0>>
            /\ UNCHANGED <<cs, clock, reqs, need, rem, bc>>
       ELSE /\ cs' = [cs EXCEPT ![p] = "inPC"]
            /\ clock' = [clock EXCEPT ![p] = clock[p] + 1]
            /\ reqs' = reqs \cup Msgs(p, "PreCommit", version[p] + 1, value[p], clock[p] + 1, version[p])
            /\ need' = [need EXCEPT ![p] = Required] /\ rem' = [rem EXCEPT ![p] = N - 1]
            /\ bc' = [bc EXCEPT ![p] = clock[p] + 1]
            /\ op' = [op EXCEPT ![p] = "pc"]
            /\ act' = <<"pcstart", p, N - 1, clock[p] + 1>>
  /\ UNCHANGED <<value, oldValue, version, tpc, acc, stimes, attempts, ov, sect, resps, drops, dups,
                 ghostvars, solovars>>

(* rollback(): makeAbort + broadcastAbortOrCommit *)
StartAbortBroadcast(p, nextop) ==
  /\ clock' = [clock EXCEPT ![p] = clock[p] + 1]
  /\ reqs' = reqs \cup Msgs(p, "Abort", version[p] + 1, 0, clock[p] + 1, version[p])
  /\ need' = [need EXCEPT ![p] = Required] /\ rem' = [rem EXCEPT ![p] = N - 1]
  /\ bc' = [bc EXCEPT ![p] = clock[p] + 1] /\ ov' = [ov EXCEPT ![p] = version[p]]
  /\ op' = [op EXCEPT ![p] = nextop]

PCDecide(p) ==
  /\ op[p] = "pc" /\ (need[p] = 0 \/ rem[p] < need[p])
  /\ IF need[p] # 0 \/ cs[p] = "acceptedNew"
       THEN /\ StartAbortBroadcast(p, "rollback")
            /\ act' = <<"int", p, "rollback", N - 1, clock[p] + 1>>
            /\ UNCHANGED <<cs, attempts, asserts>>
       ELSE /\ asserts' = IF cs[p] # "inPC" THEN asserts \cup {"cs changed during PreCommit"} ELSE asserts
            /\ cs' = [cs EXCEPT ![p] = "hasPC"]
            /\ attempts' = [attempts EXCEPT ![p] = 0]
            /\ op' = [op EXCEPT ![p] = "prepared"]
            /\ act' = <<"int", p, "prepared", 0, 0>>
            /\ UNCHANGED <<clock, reqs, need, rem, bc, ov>>
  /\ UNCHANGED <<value, oldValue, version, tpc, acc, stimes, sect, resps, drops, dups, winners, readv, stale, solovars>>

RollbackDone(p) ==
  /\ op[p] = "rollback" /\ need[p] = 0
  /\ cs' = [cs EXCEPT ![p] = "failedPC"]
  /\ attempts' = [attempts EXCEPT ![p] = attempts[p] + 1]
  /\ op' = [op EXCEPT ![p] = "failed"]
  /\ act' = <<"int", p, "pcfailed", 0, 0>>
  /\ UNCHANGED <<value, oldValue, version, tpc, acc, stimes, clock, need, rem, bc, ov, sect, netvars, ghostvars, solovars>>

AbortCall(p) ==
  /\ op[p] \in {"rd", "insect", "failed", "prepared"}
  /\ phase = "solo" => op[p] = "failed"      \* the solo writer gives up a section only when it failed
  /\ value' = [value EXCEPT ![p] = oldValue[p]]
  /\ IF cs[p] = "hasPC"
       THEN /\ StartAbortBroadcast(p, "abortrb")
            /\ act' = <<"abort", p, N - 1, clock[p] + 1>>
            /\ UNCHANGED cs
       ELSE /\ cs' = [cs EXCEPT ![p] = "notInCS"]
            /\ op' = [op EXCEPT ![p] = "idle"]
            /\ act' = <<"abort", p, 0, 0>>
            /\ UNCHANGED <<clock, reqs, need, rem, bc, ov>>
  /\ UNCHANGED <<oldValue, version, tpc, acc, stimes, attempts, sect, resps, drops, dups, ghostvars, solovars>>

AbortDone(p) ==
  /\ op[p] = "abortrb" /\ need[p] = 0
  /\ cs' = [cs EXCEPT ![p] = "notInCS"]
  /\ op' = [op EXCEPT ![p] = "idle"]
  /\ act' = <<"int", p, "aborted", 0, 0>>
  /\ UNCHANGED <<value, oldValue, version, tpc, acc, stimes, attempts, clock, need, rem, bc, ov, sect, netvars, ghostvars, solovars>>

CommitStart(p) ==
  /\ op[p] = "prepared"
  /\ asserts' = asserts \cup (IF cs[p] # "hasPC" THEN {"Commit() called from CS state " \o cs[p]} ELSE {})
                        \cup (IF tpc[p] = "accepted" THEN {"Commit() called, but we have already accepted a PreCommit"} ELSE {})
  /\ clock' = [clock EXCEPT ![p] = clock[p] + 1]
  /\ reqs' = reqs \cup Msgs(p, "Commit", version[p] + 1, value[p], clock[p] + 1, version[p])
  /\ need' = [need EXCEPT ![p] = Required] /\ rem' = [rem EXCEPT ![p] = N - 1]
  /\ bc' = [bc EXCEPT ![p] = clock[p] + 1] /\ ov' = [ov EXCEPT ![p] = version[p]]
  /\ op' = [op EXCEPT ![p] = "commit"]
  /\ winners' = [winners EXCEPT ![version[p] + 1] = @ \cup {<<p, value[p]>>}]
  /\ stale' = (stale \/ readv[p] # version[p])
  /\ act' = <<"commit", p, N - 1, clock[p] + 1>>
  /\ UNCHANGED <<value, oldValue, version, cs, tpc, acc, stimes, attempts, sect, resps, drops, dups, readv, solovars>>

CommitDone(p) ==
  /\ op[p] = "commit" /\ need[p] = 0
  /\ IF version[p] = ov[p]
       THEN /\ oldValue' = [oldValue EXCEPT ![p] = value[p]]
            /\ version' = [version EXCEPT ![p] = version[p] + 1]
       ELSE UNCHANGED <<oldValue, version>>
  /\ cs' = [cs EXCEPT ![p] = "notInCS"]
  /\ op' = [op EXCEPT ![p] = "idle"]
  /\ solocommits' = IF phase = "solo" THEN solocommits + 1 ELSE solocommits
  /\ act' = <<"int", p, "committed", 0, 0>>
  /\ UNCHANGED <<value, tpc, acc, stimes, attempts, clock, need, rem, bc, ov, sect, netvars, ghostvars, phase, solo, solotries>>

-----------------------------------------------------------------------------
(* the acceptor: TwoPCReceiver.Receive (filter) + receiveInternal, one region *)

Ignored(a, m) == Filter /\ ValueEq /\ stimes[a][m.from] > m.st

\* makeReject(): a reject reply carries the replica's version and its last COMMITTED value (oldValue, never the
\* working value of a section in flight): a proposer that has fallen behind catches up from it (Learn / AcceptNew in
\* Release). RejValWorking is the model variant "the reply carries the working value" (seed C11-A); a configuration
\* selects it with  RejVal <- RejValWorking  (RWGen.tla / RWReplay.tla: schedule generators and vacuity guards).
RejVal(a)        == oldValue[a]
RejValWorking(a) == value[a]
RejectOf(a)  == [err |-> FALSE, acc |-> FALSE, rver |-> version[a], rval |-> RejVal(a)]
AcceptResp   == [err |-> FALSE, acc |-> TRUE, rver |-> 0, rval |-> 0]
ErrResp      == [err |-> TRUE, acc |-> FALSE, rver |-> 0, rval |-> 0]

\* the response receiveInternal gives to m in the current state of a
RespOf(a, m) ==
  IF Ignored(a, m) THEN AcceptResp
  ELSE IF m.ver < version[a] + 1 THEN RejectOf(a)
  ELSE IF m.type = "PreCommit" THEN
         IF \/ (tpc[a] = "accepted" /\ acc[a].ver = m.ver /\ SenderEq(acc[a].from, m.from) /\ ValEq(acc[a].val, m.val))
            \/ (CanAccept(cs[a]) /\ (tpc[a] = "initial" \/ acc[a].ver < m.ver
                                      \/ (acc[a].ver = m.ver /\ SenderEq(acc[a].from, m.from))))
           THEN AcceptResp ELSE RejectOf(a)
  ELSE AcceptResp

\* the state change of a on m
Process(a, m) ==
  IF Ignored(a, m) THEN UNCHANGED <<value, oldValue, version, cs, tpc, acc, stimes, attempts>>
  ELSE
  /\ stimes' = [stimes EXCEPT ![a][m.from] = IF Filter /\ ValueEq THEN m.st ELSE @]
  /\ IF m.ver < version[a] + 1 THEN UNCHANGED <<value, oldValue, version, cs, tpc, acc, attempts>>
     ELSE IF m.type = "PreCommit" THEN
       /\ IF /\ ~(tpc[a] = "accepted" /\ acc[a].ver = m.ver /\ SenderEq(acc[a].from, m.from) /\ ValEq(acc[a].val, m.val))
             /\ CanAccept(cs[a])
             /\ (tpc[a] = "initial" \/ acc[a].ver < m.ver \/ (acc[a].ver = m.ver /\ SenderEq(acc[a].from, m.from)))
            THEN /\ tpc' = [tpc EXCEPT ![a] = "accepted"]
                 /\ acc' = [acc EXCEPT ![a] = [from |-> m.from, ver |-> m.ver, val |-> m.val, st |-> m.st]]
            ELSE UNCHANGED <<tpc, acc>>
       /\ UNCHANGED <<value, oldValue, version, cs, attempts>>
     ELSE IF m.type = "Commit" THEN
       /\ AcceptNew(a, m.val, m.ver, tpc) /\ UNCHANGED acc
     ELSE \* Abort
       /\ tpc' = [tpc EXCEPT ![a] = IF SenderEq(m.from, acc[a].from) /\ tpc[a] = "accepted" THEN "initial" ELSE tpc[a]]
       /\ UNCHANGED <<value, oldValue, version, cs, acc, attempts>>

RespRec(m, r) == [from |-> m.from, to |-> m.to, type |-> m.type, ver |-> m.ver, val |-> m.val, st |-> m.st, ov |-> m.ov,
                  err |-> r.err, acc |-> r.acc, rver |-> r.rver, rval |-> r.rval]

NetOK == phase = "free" \/ TRUE

Deliver(m) ==
  /\ m \in reqs /\ ~m.sl
  /\ Process(m.to, m)
  /\ reqs' = reqs \ {m}
  /\ resps' = resps \cup {RespRec(m, RespOf(m.to, m))}
  /\ act' = <<"dlv">> \o Tag(m) \o <<IF RespOf(m.to, m).acc THEN "acc" ELSE "rej">>
  /\ UNCHANGED <<clock, ctlvars, drops, dups, ghostvars, solovars>>

\* the request is lost: the proposer gets an error, the acceptor sees nothing
DropReq(m) ==
  /\ phase = "free" /\ drops < DropBudget
  /\ m \in reqs /\ ~m.sl
  /\ reqs' = reqs \ {m}
  /\ resps' = resps \cup {RespRec(m, ErrResp)}
  /\ drops' = drops + 1
  /\ act' = <<"dropreq">> \o Tag(m)
  /\ UNCHANGED <<nodevars, ctlvars, dups, ghostvars, solovars>>

\* the response is lost: the acceptor processed the request, the proposer gets an error
DropResp(m) ==
  /\ phase = "free" /\ drops < DropBudget
  /\ m \in reqs /\ ~m.sl
  /\ Process(m.to, m)
  /\ reqs' = reqs \ {m}
  /\ resps' = resps \cup {RespRec(m, ErrResp)}
  /\ drops' = drops + 1
  /\ act' = <<"dropresp">> \o Tag(m)
  /\ UNCHANGED <<clock, ctlvars, dups, ghostvars, solovars>>

\* the request is delivered twice: this is the extra copy, its response is discarded
Dup(m) ==
  /\ phase = "free" /\ dups < DupBudget
  /\ m \in reqs /\ ~m.sl
  /\ Process(m.to, m)
  /\ dups' = dups + 1
  /\ act' = <<"dup">> \o Tag(m)
  /\ UNCHANGED <<clock, ctlvars, reqs, resps, drops, ghostvars, solovars>>

-----------------------------------------------------------------------------
(* a response reaches the proposer: handler of doPreCommit / loop of broadcastAbortOrCommit *)

Counts(p, r) == r.st = bc[p] /\ op[p] \in {"pc", "rollback", "abortrb", "commit"}
Learn(p, r)  == ~r.err /\ ~r.acc /\ r.rver > version[p]

\* broadcastAbortOrCommit, an Abort whose Send returned a transport error: the goroutine of that replica sleeps 1 s and
\* sends the Abort again while the proposer's version is unchanged (ShouldRetry), whether or not broadcast() already
\* returned with its quorum -- the replica may hold the PreCommit this Abort revokes, and nobody else will release it.
\* AbortResendUntilQuorum is the model variant "the goroutine ends when the error arrives after the quorum answered"
\* (seed C11-B; the isDone callback of broadcast()); a configuration selects it with
\* AbortResend <- AbortResendUntilQuorum  (LAReplay.tla, MC3LostAbort.cfg: vacuity guards / schedule generators).
BroadcastOpen(p, r) == r.st = bc[p] /\ op[p] \in {"rollback", "abortrb"} /\ need[p] > 0
AbortResend(p, r)            == TRUE
AbortResendUntilQuorum(p, r) == BroadcastOpen(p, r)

Release(r) ==
  /\ r \in resps
  /\ resps' = resps \ {r}
  /\ LET p == r.from IN
     /\ IF Learn(p, r) THEN AcceptNew(p, r.rval, r.rver, tpc)
                       ELSE UNCHANGED <<value, oldValue, version, cs, tpc, attempts>>
     /\ IF r.type = "PreCommit"
          THEN /\ UNCHANGED reqs
               /\ IF Counts(p, r) /\ ~(need[p] = 0 \/ rem[p] < need[p])
                    THEN /\ need' = [need EXCEPT ![p] = IF ~r.err /\ r.acc THEN need[p] - 1 ELSE need[p]]
                         /\ rem' = [rem EXCEPT ![p] = rem[p] - 1]
                    ELSE UNCHANGED <<need, rem>>
          ELSE IF r.err /\ r.type = "Abort" /\ ~AbortResend(p, r)
                 THEN \* variant only: the goroutine gives the replica up (its answer is not awaited any more)
                      UNCHANGED <<reqs, need, rem>>
          ELSE IF r.err
                 THEN \* sleep 1 s, then shouldRetry(): modelled by Wake
                      /\ reqs' = reqs \cup {[from |-> r.from, to |-> r.to, type |-> r.type, ver |-> r.ver, val |-> r.val,
                                             st |-> r.st, ov |-> r.ov, sl |-> TRUE]}
                      /\ UNCHANGED <<need, rem>>
                 ELSE /\ UNCHANGED reqs
                      /\ IF Counts(p, r) /\ need[p] > 0
                           THEN need' = [need EXCEPT ![p] = need[p] - 1] /\ rem' = [rem EXCEPT ![p] = rem[p] - 1]
                           ELSE UNCHANGED <<need, rem>>
  /\ act' = <<"rel">> \o Tag(r) \o <<IF r.err THEN "err" ELSE IF r.acc THEN "acc" ELSE "rej">>
  /\ UNCHANGED <<acc, stimes, clock, op, bc, ov, sect, drops, dups, ghostvars, solovars>>

ShouldRetry(m) == IF CommitRetry /\ m.type = "Commit" THEN version[m.from] <= m.ver ELSE version[m.from] = m.ov

Wake(m) ==
  /\ m \in reqs /\ m.sl
  /\ IF ShouldRetry(m)
       THEN /\ reqs' = (reqs \ {m}) \cup {[m EXCEPT !.sl = FALSE]}
            /\ act' = <<"wake">> \o Tag(m) \o <<"resend">>
            /\ UNCHANGED <<need, rem>>
       ELSE /\ reqs' = reqs \ {m}
            /\ act' = <<"wake">> \o Tag(m) \o <<"stop">>
            /\ IF m.st = bc[m.from] /\ op[m.from] \in {"rollback", "abortrb", "commit"} /\ need[m.from] > 0
                 THEN need' = [need EXCEPT ![m.from] = @ - 1] /\ rem' = [rem EXCEPT ![m.from] = @ - 1]
                 ELSE UNCHANGED <<need, rem>>
  /\ UNCHANGED <<nodevars, op, bc, ov, sect, resps, drops, dups, ghostvars, solovars>>

-----------------------------------------------------------------------------
(* solo phase: from a quiet state one writer retries alone, no faults: it must commit within SoloTries sections *)
GoSolo(p) ==
  /\ SoloTries > 0 /\ phase = "free" /\ Quiet /\ p \in Writers
  /\ phase' = "solo" /\ solo' = p /\ solotries' = 0 /\ solocommits' = 0
  /\ act' = <<"solo", p>>
  /\ UNCHANGED <<nodevars, ctlvars, netvars, ghostvars>>

Next ==
  \/ \E p \in Writers : Read(p) \/ Write(p) \/ PCCall(p) \/ PCStart(p) \/ PCDecide(p) \/ RollbackDone(p)
                        \/ AbortCall(p) \/ AbortDone(p) \/ CommitStart(p) \/ CommitDone(p) \/ GoSolo(p)
  \/ \E m \in reqs : Deliver(m) \/ DropReq(m) \/ DropResp(m) \/ Dup(m) \/ Wake(m)
  \/ \E r \in resps : Release(r)

Spec == Init /\ [][Next]_vars

Fair == /\ \A p \in Writers : WF_vars(PCStart(p) \/ PCDecide(p) \/ RollbackDone(p) \/ AbortDone(p) \/ CommitStart(p) \/ CommitDone(p)
                                      \/ Write(p) \/ (op[p] = "failed" /\ AbortCall(p)))
        /\ WF_vars(\E m \in reqs : Deliver(m) \/ Wake(m))
        /\ WF_vars(\E r \in resps : Release(r))
FairSpec == Spec /\ Fair

VerBound == \A n \in Nodes : version[n] <= MaxVer

-----------------------------------------------------------------------------
(* M => P: the properties of OneCopy.tla stated on the model *)

\* at most one proposer (and one value) starts a Commit for each version
OneWinnerPerVersion == \A v \in DOMAIN winners : Cardinality(winners[v]) <= 1
\* replicas at the same version expose the same committed value, and it is the winner's
SameValuePerVersion ==
  /\ \A a, b \in Nodes : version[a] = version[b] => oldValue[a] = oldValue[b]
  /\ \A a \in Nodes : version[a] > 0 /\ version[a] \in DOMAIN winners =>
        \A w \in winners[version[a]] : w[2] = oldValue[a]
\* a section that commits read the version just below the one it installs
StaleReadAborts == ~stale
NoAssertFails == asserts = {}
VersionsMonotone == [][\A n \in Nodes : version'[n] >= version[n]]_vars

\* a replica that holds an accepted PreCommit of p is either still needed by p, about to be told, or obsolete
Holding(a) == tpc[a] = "accepted"
StillProposing(p, a) == /\ op[p] \in {"pc", "prepared", "commit"}
                        /\ version[p] + 1 = acc[a].ver
AbortComing(p, a) == \/ \E m \in reqs : m.from = p /\ m.to = a /\ m.type \in {"Abort", "Commit"} /\ m.st > acc[a].st
                     \/ \E r \in resps : r.from = p /\ r.to = a /\ r.err /\ r.type \in {"Abort", "Commit"} /\ r.st > acc[a].st
                     \/ (op[p] = "pc" /\ bc[p] = acc[a].st)
                     \/ (op[p] = "pc" /\ \E m \in reqs : m.from = p /\ m.to = a /\ m.type = "PreCommit" /\ m.st = bc[p])
Obsolete(a) == \E n \in Nodes : version[n] >= acc[a].ver
Released == \A a \in Nodes : Holding(a) =>
               LET p == acc[a].from IN StillProposing(p, a) \/ AbortComing(p, a) \/ Obsolete(a)

\* bounded progress: a writer that retries alone from a quiet state, all messages delivered, commits
SoloProgress == (phase = "solo" /\ Quiet /\ solotries = SoloTries) => solocommits >= 1

\* under fair delivery and fair retries every behaviour of the bounded model comes to rest
Settles == <>[](Quiet)
=============================================================================
