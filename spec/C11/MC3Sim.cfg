CONSTANTS
  Nodes = {1, 2, 3}
  Writers = {1, 2}
  MaxSect = 2
  MaxVer = 7
  DropBudget = 1
  DupBudget = 1
  Filter = TRUE
  ValueEq = TRUE
  SoloTries = 2
  SplitPC = FALSE
  CommitRetry = TRUE
INIT Init
NEXT Next
ACTION_CONSTRAINT SimScope
INVARIANTS OneWinnerPerVersion SameValuePerVersion StaleReadAborts NoAssertFails Released SoloProgress
CHECK_DEADLOCK FALSE
