CONSTANTS
  Nodes = {1, 2, 3, 4, 5, 6, 7}
  Writers = {1, 2, 3, 4}
  MaxSect = 2
  MaxVer = 11
  DropBudget = 2
  DupBudget = 2
  Filter = TRUE
  ValueEq = TRUE
  SoloTries = 2
  SplitPC = FALSE
  CommitRetry = TRUE
INIT Init
NEXT Next
ACTION_CONSTRAINT SimScope
INVARIANTS OneWinnerPerVersion SameValuePerVersion StaleReadAborts NoAssertFails Released SoloProgress
CHECK_DEADLOCK FALSE
