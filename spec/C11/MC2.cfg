CONSTANTS
  Nodes = {1, 2}
  Writers = {1, 2}
  MaxSect = 2
  MaxVer = 6
  DropBudget = 1
  DupBudget = 1
  Filter = TRUE
  ValueEq = TRUE
  SoloTries = 2
  SplitPC = FALSE
  CommitRetry = TRUE
INIT Init
NEXT Next
VIEW view
INVARIANTS OneWinnerPerVersion SameValuePerVersion StaleReadAborts NoAssertFails Released SoloProgress
PROPERTIES VersionsMonotone
CHECK_DEADLOCK FALSE
