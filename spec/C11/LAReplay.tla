------------------------------ MODULE LAReplay ------------------------------
(* The lost-Abort schedule (found by TLC: MC3LostAbort.cfg, thorough tier) replayed step *)
(* by step on TwoPC.tla: proposer 2 pre-commits version 1 (replicas 1 and 3 accept) and  *)
(* gives the section up; its Abort to replica 1 meets one transport error, replica 3     *)
(* answers, the broadcast has its quorum and Abort() returns; only then does the error   *)
(* reach the goroutine that talks to replica 1.                                          *)
(*   AbortResend <- AbortResendUntilQuorum (seed C11-B): the goroutine ends, replica 1   *)
(*     keeps the accepted PreCommit of a proposal that no longer exists; every section   *)
(*     of writer 1 aborts before it sends anything: Released and SoloProgress violated;  *)
(*   AbortResend (repaired tree): the goroutine sleeps and sends the Abort again, so the *)
(*     system is not quiet after the error and the step "solo" is not enabled: the       *)
(*     schedule cannot be followed (LAResend below goes on with the re-sent Abort and    *)
(*     ends with writer 1 committing in its first section).                              *)
EXTENDS TwoPC

Prefix == <<
  <<"read", 2>>, <<"write", 2, "ok">>, <<"pcstart", 2, 2, 1>>,
  <<"dlv", 2, 1, "PreCommit", 1, 1, "acc">>, <<"dlv", 2, 3, "PreCommit", 1, 1, "acc">>,
  <<"rel", 2, 1, "PreCommit", 1, 1, "acc">>, <<"int", 2, "prepared", 0, 0>>,
  <<"rel", 2, 3, "PreCommit", 1, 1, "acc">>,
  <<"abort", 2, 2, 2>>,                                      \* the section is given up: Abort to 1 and 3
  <<"dropreq", 2, 1, "Abort", 1, 2>>,                        \* the Abort to replica 1 is lost
  <<"dlv", 2, 3, "Abort", 1, 2, "acc">>, <<"rel", 2, 3, "Abort", 1, 2, "acc">>,
  <<"int", 2, "aborted", 0, 0>>,                             \* quorum: Abort() returns, broadcast() is done
  <<"rel", 2, 1, "Abort", 1, 2, "err">> >>                   \* the error reaches the goroutine of replica 1

\* variant: nothing is sent any more, the system is quiet; writer 1 retries alone
LA == Prefix \o <<
  <<"solo", 1>>,
  <<"read", 1>>, <<"write", 1, "ok">>, <<"pcstart", 1, 0, 0>>, <<"abort", 1, 0, 0>>,
  <<"read", 1>>, <<"write", 1, "ok">>, <<"pcstart", 1, 0, 0>>, <<"abort", 1, 0, 0>> >>

\* repaired: after the retry sleep the Abort is sent again and releases replica 1; writer 1 commits at once
LAResend == Prefix \o <<
  <<"wake", 2, 1, "Abort", 1, 2, "resend">>,
  <<"dlv", 2, 1, "Abort", 1, 2, "acc">>, <<"rel", 2, 1, "Abort", 1, 2, "acc">>,
  <<"solo", 1>>,
  <<"read", 1>>, <<"write", 1, "ok">>, <<"pcstart", 1, 2, 1>>,
  <<"dlv", 1, 2, "PreCommit", 1, 1, "acc">>, <<"dlv", 1, 3, "PreCommit", 1, 1, "acc">>,
  <<"rel", 1, 2, "PreCommit", 1, 1, "acc">>, <<"int", 1, "prepared", 0, 0>>,
  <<"rel", 1, 3, "PreCommit", 1, 1, "acc">>,
  <<"commit", 1, 2, 2>>,
  <<"dlv", 1, 2, "Commit", 1, 2, "acc">>, <<"dlv", 1, 3, "Commit", 1, 2, "acc">>,
  <<"rel", 1, 2, "Commit", 1, 2, "acc">>, <<"int", 1, "committed", 0, 0>>,
  <<"rel", 1, 3, "Commit", 1, 2, "acc">> >>

CONSTANT Sched          \* "LA" or "LAResend"
S == IF Sched = "LA" THEN LA ELSE LAResend

VARIABLE k
RInit == Init /\ k = 0
RNext == \/ k < Len(S) /\ k' = k + 1 /\ Next /\ act' = S[k + 1]
         \/ k = Len(S) /\ UNCHANGED <<vars, k>>              \* with CHECK_DEADLOCK: a deadlock = a step that cannot be followed
Followed == k = Len(S)
NotFollowed == ~Followed
\* the repaired model follows LAResend to its end, where the solo writer has committed
EndsCommitted == Followed => (phase = "solo" /\ solocommits = 1 /\ Quiet)
=============================================================================
