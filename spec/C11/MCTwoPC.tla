------------------------------ MODULE MCTwoPC ------------------------------
(* Model-checking wrapper of TwoPC.tla (constants are set per configuration). *)
EXTENDS TwoPC
=============================================================================
