------------------------------ MODULE MCTwoPC ------------------------------
(* Model-checking wrapper of TwoPC.tla (constants are set per configuration). *)
EXTENDS TwoPC

\* scope of the "double winner without the sender-time filter" search (MC3PinnedLocal.cfg):
\* writer 2 runs one section, sections are given up only once prepared or failed
DWScope == /\ sect'[2] <= 1
           /\ act'[1] = "abort" => op[act'[2]] \in {"prepared", "failed"}
           /\ act'[1] # "solo"

\* simulation runs that export schedules: keep the random walks interesting (no section is
\* given up before its PreCommit, the solo phase starts when every writer used its sections)
\* and in step with the code: a proposer's internal region (which the real goroutine enters as soon as
\* its broadcast is decided) is never delayed behind other steps
IntEnabled(p) == \/ (op[p] = "pc" /\ (need[p] = 0 \/ rem[p] < need[p]))
                 \/ (op[p] \in {"rollback", "abortrb", "commit"} /\ need[p] = 0)
SimScope == /\ act'[1] = "abort" => op[act'[2]] \in {"prepared", "failed"}
            /\ act'[1] = "solo" => \A w \in Writers : sect[w] = MaxSect
            /\ (\E p \in Writers : IntEnabled(p)) => act'[1] = "int"
=============================================================================
