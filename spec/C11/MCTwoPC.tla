------------------------------ MODULE MCTwoPC ------------------------------
(* Model-checking wrapper of TwoPC.tla (constants are set per configuration). *)
EXTENDS TwoPC

\* scope of the "double winner without the sender-time filter" search (MC3PinnedLocal.cfg):
\* writer 2 runs one section, sections are given up only once prepared or failed
DWScope == /\ sect'[2] <= 1
           /\ act'[1] = "abort" => op[act'[2]] \in {"prepared", "failed"}
           /\ act'[1] # "solo"

\* simulation runs that export schedules: keep the random walks interesting (no section is
\* given up before its PreCommit, the solo phase starts when every writer used its sections)
SimScope == /\ act'[1] = "abort" => op[act'[2]] \in {"prepared", "failed"}
            /\ act'[1] = "solo" => \A w \in Writers : sect[w] = MaxSect
=============================================================================
