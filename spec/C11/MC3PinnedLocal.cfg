\* vacuity guard / regression guard: WITHOUT the sender-time filter (LocalReplicaHandle on the
\* pinned tree) a late Abort releases a replica that re-accepted the proposer: two winners.
CONSTANTS
  Nodes = {1, 2, 3}
  Writers = {1, 2}
  MaxSect = 2
  MaxVer = 5
  DropBudget = 0
  DupBudget = 0
  Filter = FALSE
  ValueEq = TRUE
  SoloTries = 0
  SplitPC = FALSE
  CommitRetry = TRUE
INIT Init
NEXT Next
VIEW view
ACTION_CONSTRAINT DWScope
INVARIANTS OneWinnerPerVersion
CHECK_DEADLOCK FALSE
