INIT OInit
NEXT ONext0
INVARIANTS SameValuePerVersion OneWinnerPerVersion VersionsMonotone StaleReadAborts Released Progress NoPanic
CHECK_DEADLOCK FALSE
