CONSTANTS
  Nodes = {1, 2, 3}
  Writers = {1, 2}
  MaxSect = 1
  MaxVer = 4
  DropBudget = 0
  DupBudget = 0
  Filter = TRUE
  ValueEq = TRUE
  SoloTries = 0
  SplitPC = FALSE
  CommitRetry = TRUE
SPECIFICATION FairSpec
PROPERTIES Settles
CHECK_DEADLOCK FALSE
