\* vacuity guard / schedule search: on the variant "an Abort that met a transport error is not sent again once its
\* broadcast has its quorum" (seed C11-B) one lost message leaves a replica captured by a proposal that was given up.
CONSTANTS
  Nodes = {1, 2, 3}
  Writers = {1, 2}
  MaxSect = 1
  MaxVer = 4
  DropBudget = 1
  DupBudget = 0
  Filter = TRUE
  ValueEq = TRUE
  SoloTries = 2
  SplitPC = FALSE
  CommitRetry = TRUE
  AbortResend <- AbortResendUntilQuorum
INIT Init
NEXT Next
VIEW view
INVARIANTS SoloProgress
CHECK_DEADLOCK FALSE
