CONSTANTS
  Nodes = {1, 2, 3}
  Writers = {1, 2}
  MaxSect = 1
  MaxVer = 4
  DropBudget = 1
  DupBudget = 0
  Filter = TRUE
  ValueEq = TRUE
  SoloTries = 2
  SplitPC = FALSE
  CommitRetry = TRUE
  AbortResend <- AbortResendUntilQuorum
  Sched = "LA"
INIT RInit
NEXT RNext
INVARIANTS Released
CHECK_DEADLOCK FALSE
