------------------------------ MODULE OneCopyObs ------------------------------
(* P-level trace specification: folds the events recorded from real NewTwoPC replicas *)
(* (harness/cmd/c11drv) into the state of OneCopy.tla; the invariants are the verdict. *)
EXTENDS OneCopy, Json

Trace == ndJsonDeserialize("trace.ndjson")
VARIABLE l
ovars == <<pvars, l>>

OInit == l = 1 /\ PInitFor(1)

Ev == Trace[l]
Is(e) == l <= Len(Trace) /\ Trace[l].e = e /\ l' = l + 1

Ignored == {"write", "commitstart", "abortstart", "rel", "dropreq", "st", "drift", "hang", "end", "gap"}

ONext0 ==
  \/ Is("case") /\ PReset(Ev.n)
  \/ Is("read") /\ ORead(Ev)
  \/ Is("pcstart") /\ OPCStart(Ev)
  \/ Is("pc") /\ OPC(Ev)
  \/ Is("commit") /\ OCommitDone(Ev)
  \/ Is("abort") /\ OAbortDone(Ev)
  \/ Is("req") /\ OReq(Ev)
  \/ Is("dlv") /\ ODlv(Ev)
  \/ Is("rsp") /\ ORsp(Ev)
  \/ Is("obs") /\ OObs(Ev)
  \/ Is("solo") /\ OSolo(Ev)
  \/ Is("soloend") /\ OSoloEnd(Ev)
  \/ Is("panic") /\ OPanic(Ev)
  \/ l <= Len(Trace) /\ Trace[l].e \in Ignored /\ l' = l + 1 /\ UNCHANGED pvars
=============================================================================
