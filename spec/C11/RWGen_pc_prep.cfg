CONSTANTS
  Nodes = {1, 2, 3}
  Writers = {1, 2}
  MaxSect = 2
  MaxVer = 5
  DropBudget = 0
  DupBudget = 0
  Filter = TRUE
  ValueEq = TRUE
  SoloTries = 0
  SplitPC = FALSE
  CommitRetry = TRUE
  RejVal <- RejValWorking
  LearnType = "PreCommit"
  DirtyOps = {"pc", "prepared", "commit"}
INIT Init
NEXT Next
VIEW view
ACTION_CONSTRAINT GenScope
INVARIANTS GenInv
CHECK_DEADLOCK FALSE
