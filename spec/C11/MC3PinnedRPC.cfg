CONSTANTS
  Nodes = {1, 2, 3}
  Writers = {1, 2}
  MaxSect = 2
  MaxVer = 5
  DropBudget = 0
  DupBudget = 0
  Filter = TRUE
  ValueEq = FALSE
  SoloTries = 2
  SplitPC = FALSE
INIT Init
NEXT Next
VIEW view
INVARIANTS Released
CHECK_DEADLOCK FALSE
