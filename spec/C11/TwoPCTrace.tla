------------------------------ MODULE TwoPCTrace ------------------------------
(* M-level trace specification (I->S): a recorded execution of real NewTwoPC replicas  *)
(* must be a behaviour of TwoPC.tla. Logged events select the corresponding action of  *)
(* the model; the proposer's internal regions (PCStart after the back-off sleep, PCDecide, RollbackDone, AbortDone,      *)
(* CommitDone, a retry loop that stops) leave no event and may happen at any time.     *)
(* A case that cannot be followed is model drift (never a verdict): TSkip abandons it. *)
(* Every case followed to its end prints <<"CONFORMS", case>>.                          *)
EXTENDS TwoPC, Json

Trace == ndJsonDeserialize("trace.ndjson")
VARIABLES l, nxt, cid,
          todo,     \* per writer: "abort" / "commit" once the driver's goroutine was told to call it, until the call begins
          early     \* ids of deliveries the model performed at the "dlv" event (the replica processes a request
                    \* somewhere between the events "dlv" and "rsp")
tvars == <<vars, l, nxt, cid, todo, early>>

Ev == Trace[l]
At(e) == l <= Len(Trace) /\ Trace[l].e = e /\ l' = l + 1 /\ UNCHANGED <<nxt, cid>>
Is(e) == At(e) /\ UNCHANGED <<todo, early>>

TInit == Init /\ l = 1 /\ nxt = 1 /\ cid = "" /\ todo = [n \in Nodes |-> ""] /\ early = {}

Reset ==
  /\ value' = [n \in Nodes |-> 0] /\ oldValue' = [n \in Nodes |-> 0] /\ version' = [n \in Nodes |-> 0]
  /\ cs' = [n \in Nodes |-> "notInCS"] /\ tpc' = [n \in Nodes |-> "initial"] /\ acc' = [n \in Nodes |-> NoAcc]
  /\ stimes' = [n \in Nodes |-> [m \in Nodes |-> 0]] /\ attempts' = [n \in Nodes |-> 0] /\ clock' = [n \in Nodes |-> 0]
  /\ op' = [n \in Nodes |-> "idle"] /\ need' = [n \in Nodes |-> 0] /\ rem' = [n \in Nodes |-> 0]
  /\ bc' = [n \in Nodes |-> 0] /\ ov' = [n \in Nodes |-> 0] /\ sect' = [n \in Nodes |-> 0]
  /\ reqs' = {} /\ resps' = {} /\ drops' = 0 /\ dups' = 0
  /\ winners' = [v \in 1..(MaxVer + 1) |-> {}] /\ readv' = [n \in Nodes |-> 0] /\ stale' = FALSE /\ asserts' = {}
  /\ phase' = "free" /\ solo' = 0 /\ solotries' = 0 /\ solocommits' = 0
  /\ act' = <<"init">>

TCase == /\ l <= Len(Trace) /\ Trace[l].e = "case"
         /\ l' = l + 1 /\ nxt' = l + Trace[l].len /\ cid' = Trace[l].case /\ todo' = [n \in Nodes |-> ""] /\ early' = {}
         /\ Reset

\* abandon the current case (drift): continue with the next one
TSkip == /\ l <= Len(Trace) /\ Trace[l].e # "case" /\ l' = nxt /\ UNCHANGED <<vars, nxt, cid, todo, early>>

MatchReq(m) == /\ m.from = Ev.from /\ m.to = Ev.to /\ m.type = Ev.t /\ m.ver = Ev.ver /\ m.st = Ev.st
               /\ (Ev.t = "Abort" \/ m.val = Ev.val)
RespIs(a, m) == LET r == RespOf(a, m) IN ~Ev.err /\ r.acc = Ev.acc /\ r.rver = Ev.rver /\ r.rval = Ev.rval

TRead   == Is("read") /\ Ev.ok /\ Ev.val = value[Ev.p] /\ Read(Ev.p)
TWrite  == Is("write") /\ Write(Ev.p) /\ (Ev.ok <=> op'[Ev.p] = "insect") /\ (Ev.ok => value'[Ev.p] = Ev.val)
TPCSt   == Is("pcstart") /\ PCCall(Ev.p)
TReq    == /\ Is("req")
           /\ \E m \in reqs : /\ MatchReq(m)
                              /\ IF m.sl THEN Wake(m) /\ [m EXCEPT !.sl = FALSE] \in reqs'
                                         ELSE UNCHANGED vars
DoDeliver(m) == CASE Ev.kind = "dlv" -> Deliver(m)
                   [] Ev.kind = "dropresp" -> DropResp(m)
                   [] Ev.kind = "dup" -> Dup(m)
TDlv    == /\ At("dlv") /\ UNCHANGED todo
           /\ \/ UNCHANGED <<vars, early>>
              \/ /\ early' = early \cup {<<Ev.id, Ev.kind>>}
                 /\ \E m \in reqs : MatchReq(m) /\ ~m.sl /\ DoDeliver(m)
TRsp    == /\ At("rsp") /\ UNCHANGED todo
           /\ IF <<Ev.id, Ev.kind>> \in early
                THEN /\ early' = early \ {<<Ev.id, Ev.kind>>}
                     /\ UNCHANGED vars
                     /\ Ev.kind = "dlv" =>
                           \E r \in resps : /\ r.from = Ev.from /\ r.to = Ev.to /\ r.type = Ev.t /\ r.ver = Ev.ver /\ r.st = Ev.st
                                             /\ ~Ev.err /\ ~r.err /\ r.acc = Ev.acc /\ r.rver = Ev.rver /\ r.rval = Ev.rval
                ELSE /\ UNCHANGED early
                     /\ \E m \in reqs : MatchReq(m) /\ ~m.sl /\ RespIs(m.to, m) /\ DoDeliver(m)
TDropRq == Is("dropreq") /\ \E m \in reqs : MatchReq(m) /\ ~m.sl /\ DropReq(m)
TRel    == /\ Is("rel")
           /\ \E r \in resps : /\ r.from = Ev.from /\ r.to = Ev.to /\ r.type = Ev.t /\ r.ver = Ev.ver /\ r.st = Ev.st
                               /\ Ev.res = (IF r.err THEN "err" ELSE IF r.acc THEN "acc" ELSE "rej")
                               /\ Release(r)
TPC     == Is("pc") /\ op[Ev.p] = (IF Ev.ok THEN "prepared" ELSE "failed") /\ UNCHANGED vars
\* Commit() and Abort() are called from a goroutine of the driver: the event says the call was ordered,
\* the call itself (CommitStart / AbortCall of the model) begins some time later
TCommSt == At("commitstart") /\ UNCHANGED early /\ todo[Ev.p] = "" /\ todo' = [todo EXCEPT ![Ev.p] = "commit"] /\ UNCHANGED vars
TComm   == Is("commit") /\ op[Ev.p] = "idle" /\ todo[Ev.p] = "" /\ UNCHANGED vars
TAbSt   == At("abortstart") /\ UNCHANGED early /\ todo[Ev.p] = "" /\ todo' = [todo EXCEPT ![Ev.p] = "abort"] /\ UNCHANGED vars
TAb     == Is("abort") /\ op[Ev.p] = "idle" /\ todo[Ev.p] = "" /\ UNCHANGED vars
TObs    == Is("obs") /\ version[Ev.n] = Ev.ver /\ oldValue[Ev.n] = Ev.val /\ UNCHANGED vars
TSt     == /\ Is("st")
           /\ value[Ev.n] = Ev.value /\ oldValue[Ev.n] = Ev.oldValue /\ version[Ev.n] = Ev.version
           /\ cs[Ev.n] = Ev.cs /\ tpc[Ev.n] = Ev.tpc /\ acc[Ev.n].from = Ev.accFrom /\ acc[Ev.n].ver = Ev.accVer
           /\ UNCHANGED vars
TSolo   == Is("solo") /\ GoSolo(Ev.p)
TNoop   == l <= Len(Trace) /\ Trace[l].e \in {"soloend", "drift", "gap"} /\ l' = l + 1 /\ UNCHANGED <<vars, nxt, cid, todo, early>>
TEnd    == Is("end") /\ PrintT(<<"CONFORMS", cid>>) /\ UNCHANGED vars

Hidden  == /\ UNCHANGED <<l, nxt, cid, early>>
           /\ \/ UNCHANGED todo /\ \E p \in Writers : PCStart(p) \/ PCDecide(p) \/ RollbackDone(p) \/ AbortDone(p) \/ CommitDone(p)
              \/ UNCHANGED todo /\ \E m \in reqs : m.sl /\ ~ShouldRetry(m) /\ Wake(m)
              \/ \E p \in Writers : /\ todo[p] # "" /\ todo' = [todo EXCEPT ![p] = ""]
                                      /\ IF todo[p] = "commit" THEN CommitStart(p) ELSE AbortCall(p)

TNext0 == TCase \/ TSkip \/ TRead \/ TWrite \/ TPCSt \/ TReq \/ TDlv \/ TRsp \/ TDropRq \/ TRel \/ TPC \/ TCommSt \/ TComm
          \/ TAbSt \/ TAb \/ TObs \/ TSt \/ TSolo \/ TNoop \/ TEnd \/ Hidden
=============================================================================
