------------------------------ MODULE RWReplay ------------------------------
(* Vacuity / regression guard that costs a few states, and the source of the directed   *)
(* schedules "a lagging proposer's stale request reaches a replica that has an          *)
(* uncommitted local write in flight". The six schedules are the counterexamples TLC    *)
(* finds with RWGen.tla on the model variant RejVal <- RejValWorking (one per kind of   *)
(* stale request x state of the rejecting replica; the searches themselves run in the   *)
(* thorough tier and, two of them, in the quick tier). Here they are replayed step by   *)
(* step on TwoPC.tla, all of them in one TLC run (one initial state per schedule):      *)
(*   RWReplayWorking.cfg    (RejVal <- RejValWorking) every schedule can be followed    *)
(*       to its end (otherwise: deadlock) and ends in a state in which two replicas     *)
(*       hold different values for one version (EndsBad);                               *)
(*   RWReplayCommitted.cfg  (the reply carries oldValue) every schedule can be followed *)
(*       as well, the M => P invariants hold in every state, and the schedule is        *)
(*       written to rw_<name>.ndjson: these files are the cases replayed on the code.   *)
EXTENDS TwoPC, Json

Scheds == <<
  \* stale PreCommit; the rejecting replica has written, not yet pre-committed (its section is given up later)
  [name |-> "pc_insect", steps |-> <<
    <<"read", 1>>, <<"write", 1, "ok">>, <<"pcstart", 1, 2, 1>>,
    <<"read", 2>>, <<"write", 2, "ok">>, <<"pcstart", 2, 2, 1>>,
    <<"dlv", 1, 3, "PreCommit", 1, 1, "acc">>, <<"rel", 1, 3, "PreCommit", 1, 1, "acc">>,
    <<"int", 1, "prepared", 0, 0>>, <<"commit", 1, 2, 2>>,
    <<"dlv", 1, 3, "Commit", 1, 2, "acc">>, <<"rel", 1, 3, "Commit", 1, 2, "acc">>,
    <<"int", 1, "committed", 0, 0>>,                          \* version 1 = 101 at {1, 3}; Commit 1 -> 2 still on its way
    <<"read", 1>>, <<"write", 1, "ok">>,                      \* replica 1: working value 102, committed value 101
    <<"dlv", 2, 1, "PreCommit", 1, 1, "rej">>,                \* the stale PreCommit of 2 (version 0) is rejected by 1
    <<"rel", 2, 1, "PreCommit", 1, 1, "rej">> >>],            \* 2 catches up to version 1 from the reply
  \* stale PreCommit; the rejecting replica has its next PreCommit in flight (it commits 102 as version 2 later)
  [name |-> "pc_prep", steps |-> <<
    <<"read", 1>>, <<"write", 1, "ok">>, <<"read", 2>>, <<"pcstart", 1, 2, 1>>,
    <<"write", 2, "ok">>, <<"pcstart", 2, 2, 1>>,
    <<"dlv", 1, 3, "PreCommit", 1, 1, "acc">>, <<"rel", 1, 3, "PreCommit", 1, 1, "acc">>,
    <<"int", 1, "prepared", 0, 0>>, <<"commit", 1, 2, 2>>,
    <<"dlv", 1, 3, "Commit", 1, 2, "acc">>, <<"rel", 1, 3, "Commit", 1, 2, "acc">>,
    <<"int", 1, "committed", 0, 0>>,
    <<"read", 1>>, <<"write", 1, "ok">>, <<"pcstart", 1, 2, 3>>,
    <<"dlv", 2, 1, "PreCommit", 1, 1, "rej">>, <<"rel", 2, 1, "PreCommit", 1, 1, "rej">> >>],
  \* stale Abort (rollback of a PreCommit that lost): the reply to the Abort teaches the proposer
  [name |-> "ab_insect", steps |-> <<
    <<"read", 1>>, <<"write", 1, "ok">>, <<"pcstart", 1, 2, 1>>,
    <<"read", 2>>, <<"write", 2, "ok">>, <<"pcstart", 2, 2, 1>>,
    <<"dlv", 1, 2, "PreCommit", 1, 1, "rej">>, <<"dlv", 2, 3, "PreCommit", 1, 1, "acc">>,
    <<"dlv", 1, 3, "PreCommit", 1, 1, "rej">>, <<"rel", 1, 2, "PreCommit", 1, 1, "rej">>,
    <<"rel", 2, 3, "PreCommit", 1, 1, "acc">>, <<"int", 2, "prepared", 0, 0>>, <<"commit", 2, 2, 2>>,
    <<"dlv", 2, 3, "Commit", 1, 2, "acc">>, <<"rel", 1, 3, "PreCommit", 1, 1, "rej">>,
    <<"int", 1, "rollback", 2, 2>>,                           \* 1 revokes its PreCommit: Abort (version 1) to 2 and 3
    <<"rel", 2, 3, "Commit", 1, 2, "acc">>, <<"int", 2, "committed", 0, 0>>,
    <<"read", 2>>, <<"write", 2, "ok">>,
    <<"dlv", 1, 2, "Abort", 1, 2, "rej">>, <<"rel", 1, 2, "Abort", 1, 2, "rej">> >>],
  [name |-> "ab_prep", steps |-> <<
    <<"read", 1>>, <<"write", 1, "ok">>, <<"pcstart", 1, 2, 1>>,
    <<"read", 2>>, <<"write", 2, "ok">>, <<"pcstart", 2, 2, 1>>,
    <<"dlv", 1, 3, "PreCommit", 1, 1, "acc">>, <<"dlv", 2, 1, "PreCommit", 1, 1, "rej">>,
    <<"rel", 2, 1, "PreCommit", 1, 1, "rej">>, <<"dlv", 2, 3, "PreCommit", 1, 1, "rej">>,
    <<"rel", 2, 3, "PreCommit", 1, 1, "rej">>, <<"int", 2, "rollback", 2, 2>>,
    <<"rel", 1, 3, "PreCommit", 1, 1, "acc">>, <<"int", 1, "prepared", 0, 0>>, <<"commit", 1, 2, 2>>,
    <<"dlv", 1, 3, "Commit", 1, 2, "acc">>, <<"rel", 1, 3, "Commit", 1, 2, "acc">>,
    <<"int", 1, "committed", 0, 0>>,
    <<"read", 1>>, <<"write", 1, "ok">>,
    <<"dlv", 2, 1, "Abort", 1, 2, "rej">>, <<"pcstart", 1, 2, 3>>,
    <<"rel", 2, 1, "Abort", 1, 2, "rej">> >>],
  \* stale Commit (the Commit reaches the replica twice): the committer itself catches up from the reply to the
  \* second copy, before its own FinishCommit region
  [name |-> "cm_insect", steps |-> <<
    <<"read", 1>>, <<"write", 1, "ok">>, <<"pcstart", 1, 2, 1>>,
    <<"dlv", 1, 2, "PreCommit", 1, 1, "acc">>, <<"rel", 1, 2, "PreCommit", 1, 1, "acc">>,
    <<"int", 1, "prepared", 0, 0>>, <<"commit", 1, 2, 2>>,
    <<"dup", 1, 2, "Commit", 1, 2>>,
    <<"read", 2>>, <<"write", 2, "ok">>,
    <<"dlv", 1, 2, "Commit", 1, 2, "rej">>, <<"rel", 1, 2, "Commit", 1, 2, "rej">> >>],
  [name |-> "cm_prep", steps |-> <<
    <<"read", 1>>, <<"write", 1, "ok">>, <<"pcstart", 1, 2, 1>>,
    <<"dlv", 1, 2, "PreCommit", 1, 1, "acc">>, <<"rel", 1, 2, "PreCommit", 1, 1, "acc">>,
    <<"int", 1, "prepared", 0, 0>>, <<"commit", 1, 2, 2>>,
    <<"dup", 1, 2, "Commit", 1, 2>>,
    <<"read", 2>>, <<"write", 2, "ok">>, <<"pcstart", 2, 2, 1>>,
    <<"dlv", 1, 2, "Commit", 1, 2, "rej">>, <<"rel", 1, 2, "Commit", 1, 2, "rej">> >>] >>

VARIABLES k, which
S == Scheds[which].steps

RInit == Init /\ k = 0 /\ which \in 1..Len(Scheds)
RNext == \/ k < Len(S) /\ k' = k + 1 /\ which' = which /\ Next /\ act' = S[k + 1]
         \/ k = Len(S) /\ UNCHANGED <<vars, k, which>>      \* the end; a schedule that cannot be followed deadlocks
Followed == k = Len(S)

\* variant: at the end of every schedule two replicas hold different values for one version
EndsBad  == Followed => ~SameValuePerVersion
\* repaired model: the followed schedule is handed to the check
Exported == Followed => ndJsonSerialize("rw_" \o Scheds[which].name \o ".ndjson", S)
=============================================================================
