------------------------------- MODULE OneCopy -------------------------------
(* P-spec for C11: the two-phase-commit variable behaves as one copy and does not       *)
(* livelock. State = what is observable at the public surface of the resource:           *)
(*   inst      pairs <<version, value>> exposed by any replica (GetState / GetVersion,   *)
(*             or the ReadValue that opens a section) or carried by a Commit request      *)
(*             that crossed a ReplicaHandle                                               *)
(*   creq      pairs <<version, value>> carried by a Commit request: what a replica       *)
(*             exposes as version v > 0 must be what some proposer committed as v         *)
(*   win       pairs <<version, proposer>>: who sent a Commit for that version            *)
(*   lastver   per replica, the last version it exposed                                   *)
(*   rd        per writer, the value (and version, when known) its open section read      *)
(*   busy      per replica, "its own PreCommit is in flight or succeeded and is not yet   *)
(*             committed / aborted" (between the call of PreCommit and the return of a    *)
(*             failed PreCommit, of Commit or of Abort)                                   *)
(*   hold/abt/cmt  per replica: PreCommits it answered with accept, the latest answered   *)
(*             Abort per proposer, the highest answered Commit                            *)
(* The operations are the observable events; each takes the event record ev. Nothing here *)
(* depends on how twopc.go is written: the only protocol notions are the messages of the  *)
(* public ReplicaHandle interface (type, version, value, sender, sender time).            *)
EXTENDS Integers, Sequences, FiniteSets, TLC

VARIABLES nodes, inst, creq, win, lastver, rd, cver, busy, hold, abt, cmt, open, solo, solotries, solocommits, soloK, bad
pvars == <<nodes, inst, creq, win, lastver, rd, cver, busy, hold, abt, cmt, open, solo, solotries, solocommits, soloK, bad>>

InitialValue == 0
Max(a, b) == IF a > b THEN a ELSE b

PInitFor(n) ==
  /\ nodes = 1..n
  /\ inst = {} /\ creq = {} /\ win = {}
  /\ lastver = [x \in 1..n |-> 0]
  /\ rd = [x \in 1..n |-> [val |-> InitialValue, ver |-> 0]]
  /\ cver = [x \in 1..n |-> 0]
  /\ busy = [x \in 1..n |-> FALSE]
  /\ hold = [x \in 1..n |-> {}]
  /\ abt = [x \in 1..n |-> [y \in 1..n |-> 0]]
  /\ cmt = [x \in 1..n |-> 0]
  /\ open = {}
  /\ solo = 0 /\ solotries = 0 /\ solocommits = 0 /\ soloK = 0
  /\ bad = {}

PReset(n) ==
  /\ nodes' = 1..n
  /\ inst' = {} /\ creq' = {} /\ win' = {}
  /\ lastver' = [x \in 1..n |-> 0]
  /\ rd' = [x \in 1..n |-> [val |-> InitialValue, ver |-> 0]]
  /\ cver' = [x \in 1..n |-> 0]
  /\ busy' = [x \in 1..n |-> FALSE]
  /\ hold' = [x \in 1..n |-> {}]
  /\ abt' = [x \in 1..n |-> [y \in 1..n |-> 0]]
  /\ cmt' = [x \in 1..n |-> 0]
  /\ open' = {}
  /\ solo' = 0 /\ solotries' = 0 /\ solocommits' = 0 /\ soloK' = 0
  /\ bad' = {}

\* the value installed for version v as far as it is known (version 0 is the initial value)
ValuesOf(v) == IF v = 0 THEN {InitialValue} ELSE {x[2] : x \in {y \in inst : y[1] = v}}

\* ---- a replica may refuse a PreCommit for the version it expects only for one of these reasons
Live(a, h) == abt[a][h.from] < h.st /\ cmt[a] < h.ver
Justified(a, from, ver, id) ==
  \/ busy[a]
  \/ \E h \in hold[a] : Live(a, h) /\ h.ver >= ver /\ (h.from # from \/ h.ver > ver)
  \/ \E o \in open : o.to = a /\ o.id # id /\ o.t = "PreCommit"

\* ---------------------------------------------------------------- operations (observable events)
Unch(vs) == UNCHANGED vs

\* the ReadValue that opens a section (the replica is outside any section: what it returns is its committed value);
\* ev.ver is the replica's version when GetVersion gave the same answer before and after the call, otherwise -1
Exposes(ver, val) == IF ver > 0 THEN {<<ver, val>>} ELSE {}
BadExposure(ver, val) == (ver = 0 /\ val # InitialValue) \/ (ver > 0 /\ <<ver, val>> \notin creq)
ORead(ev) ==
  /\ rd' = [rd EXCEPT ![ev.p] = [val |-> ev.val, ver |-> ev.ver]]
  /\ inst' = IF ev.ok THEN inst \cup Exposes(ev.ver, ev.val) ELSE inst
  /\ bad' = bad \cup (IF ev.ok /\ BadExposure(ev.ver, ev.val) THEN {"SameValuePerVersion"} ELSE {})
  /\ UNCHANGED <<nodes, creq, win, lastver, cver, busy, hold, abt, cmt, open, solo, solotries, solocommits, soloK>>

OPCStart(ev) ==
  /\ busy' = [busy EXCEPT ![ev.p] = TRUE]
  /\ open' = {IF o.to = ev.p THEN [o EXCEPT !.j = TRUE] ELSE o : o \in open}
  /\ solotries' = IF solo = ev.p THEN solotries + 1 ELSE solotries
  /\ UNCHANGED <<nodes, inst, creq, win, lastver, rd, cver, hold, abt, cmt, solo, solocommits, soloK, bad>>

OPC(ev) ==
  /\ busy' = [busy EXCEPT ![ev.p] = IF ev.ok THEN busy[ev.p] ELSE FALSE]
  /\ UNCHANGED <<nodes, inst, creq, win, lastver, rd, cver, hold, abt, cmt, open, solo, solotries, solocommits, soloK, bad>>

OCommitDone(ev) ==
  /\ busy' = [busy EXCEPT ![ev.p] = FALSE]
  /\ lastver' = [lastver EXCEPT ![ev.p] = Max(lastver[ev.p], cver[ev.p])]
  /\ solocommits' = IF solo = ev.p THEN solocommits + 1 ELSE solocommits
  /\ UNCHANGED <<nodes, inst, creq, win, rd, cver, hold, abt, cmt, open, solo, solotries, soloK, bad>>

OAbortDone(ev) ==
  /\ busy' = [busy EXCEPT ![ev.p] = FALSE]
  /\ UNCHANGED <<nodes, inst, creq, win, lastver, rd, cver, hold, abt, cmt, open, solo, solotries, solocommits, soloK, bad>>

\* a request leaves a proposer; the first Commit request of a proposer for a version names the version and
\* value its open section installs (later ones are the same Commit sent again after a transport error)
OReq(ev) ==
  /\ IF ev.t = "Commit"
       THEN /\ inst' = inst \cup {<<ev.ver, ev.val>>}
            /\ creq' = creq \cup {<<ev.ver, ev.val>>}
            /\ win' = win \cup {<<ev.ver, ev.from>>}
            /\ IF <<ev.ver, ev.from>> \in win
                 THEN UNCHANGED <<cver, bad>>
                 ELSE /\ cver' = [cver EXCEPT ![ev.from] = ev.ver]
                      /\ bad' = bad \cup
                           (IF \/ (rd[ev.from].ver >= 0 /\ rd[ev.from].ver # ev.ver - 1)
                               \/ (ValuesOf(ev.ver - 1) # {} /\ rd[ev.from].val \notin ValuesOf(ev.ver - 1))
                             THEN {"StaleReadAborts"} ELSE {})
       ELSE UNCHANGED <<inst, creq, win, cver, bad>>
  /\ UNCHANGED <<nodes, lastver, rd, busy, hold, abt, cmt, open, solo, solotries, solocommits, soloK>>

\* the transport hands the request to the replica (the replica processes it between this event and ORsp)
ODlv(ev) ==
  /\ open' = open \cup {[id |-> ev.id, to |-> ev.to, t |-> ev.t, kind |-> ev.kind,
                         j |-> Justified(ev.to, ev.from, ev.ver, ev.id)]}
  /\ UNCHANGED <<nodes, inst, creq, win, lastver, rd, cver, busy, hold, abt, cmt, solo, solotries, solocommits, soloK, bad>>

ORsp(ev) ==
  LET mine == {o \in open : o.id = ev.id /\ o.kind = ev.kind}
      jd   == \E o \in mine : o.j IN
  /\ open' = open \ mine
  /\ hold' = IF ev.t = "PreCommit" /\ (ev.acc \/ ev.err)
               THEN [hold EXCEPT ![ev.to] = @ \cup {[from |-> ev.from, ver |-> ev.ver, st |-> ev.st]}] ELSE hold
  /\ abt' = IF ev.t = "Abort" /\ ev.acc THEN [abt EXCEPT ![ev.to][ev.from] = Max(@, ev.st)] ELSE abt
  /\ cmt' = IF ev.t = "Commit" /\ ev.acc THEN [cmt EXCEPT ![ev.to] = Max(@, ev.ver)] ELSE cmt
  /\ bad' = bad \cup
       (IF /\ ev.t = "PreCommit" /\ ~ev.err /\ ~ev.acc /\ ev.rver + 1 = ev.ver
           /\ ~jd /\ ~Justified(ev.to, ev.from, ev.ver, ev.id)
         THEN {"Released"} ELSE {})
  /\ UNCHANGED <<nodes, inst, creq, win, lastver, rd, cver, busy, solo, solotries, solocommits, soloK>>

\* a replica exposes (version, committed value)
OObs(ev) ==
  /\ lastver' = [lastver EXCEPT ![ev.n] = Max(@, Max(ev.ver, ev.gv))]
  /\ inst' = IF ev.ver > 0 THEN inst \cup {<<ev.ver, ev.val>>} ELSE inst
  /\ bad' = bad \cup (IF ev.ver < lastver[ev.n] \/ ev.gv < ev.ver THEN {"VersionsMonotone"} ELSE {})
                \cup (IF BadExposure(ev.ver, ev.val) THEN {"SameValuePerVersion"} ELSE {})
  /\ UNCHANGED <<nodes, creq, win, rd, cver, busy, hold, abt, cmt, open, solo, solotries, solocommits, soloK>>

OSolo(ev) ==
  /\ solo' = ev.p /\ solotries' = 0 /\ solocommits' = 0 /\ soloK' = ev.tries
  /\ UNCHANGED <<nodes, inst, creq, win, lastver, rd, cver, busy, hold, abt, cmt, open, bad>>

\* end of a solo phase: the writer retried alone from a quiet state with every message delivered
OSoloEnd(ev) ==
  /\ bad' = bad \cup (IF solo = ev.p /\ solocommits = 0 /\ solotries >= soloK THEN {"Progress"} ELSE {})
  /\ solo' = 0
  /\ UNCHANGED <<nodes, inst, creq, win, lastver, rd, cver, busy, hold, abt, cmt, open, solotries, solocommits, soloK>>

OPanic(ev) ==
  /\ bad' = bad \cup {"NoPanic"}
  /\ UNCHANGED <<nodes, inst, creq, win, lastver, rd, cver, busy, hold, abt, cmt, open, solo, solotries, solocommits, soloK>>

\* ---------------------------------------------------------------- the property
Functional(S) == \A x, y \in S : x[1] = y[1] => x[2] = y[2]
\* every replica installs the same value for each version: the one its winner committed
SameValuePerVersion == Functional(inst) /\ "SameValuePerVersion" \notin bad
\* at most one proposer wins each version
OneWinnerPerVersion == Functional(win)
\* versions only grow
VersionsMonotone == "VersionsMonotone" \notin bad
\* a section that read a value which was overwritten before it committed aborts
StaleReadAborts == "StaleReadAborts" \notin bad
\* a rejected or aborted proposal is released by the replicas that accepted it
Released == "Released" \notin bad
\* ... so contenders keep making progress
Progress == "Progress" \notin bad
NoPanic == "NoPanic" \notin bad
=============================================================================
