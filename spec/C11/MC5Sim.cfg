CONSTANTS
  Nodes = {1, 2, 3, 4, 5}
  Writers = {1, 2, 3}
  MaxSect = 2
  MaxVer = 9
  DropBudget = 2
  DupBudget = 1
  Filter = TRUE
  ValueEq = TRUE
  SoloTries = 2
  SplitPC = FALSE
  CommitRetry = TRUE
INIT Init
NEXT Next
ACTION_CONSTRAINT SimScope
INVARIANTS OneWinnerPerVersion SameValuePerVersion StaleReadAborts NoAssertFails Released SoloProgress
CHECK_DEADLOCK FALSE
