------------------------------- MODULE RWGen -------------------------------
(* Schedule generator for the class "a reply carries working instead of committed       *)
(* state" (seed C11-A). The configurations select the model variant RejVal <-            *)
(* RejValWorking (a reject reply carries the replica's working value) and TLC searches   *)
(* for the shortest behaviour in which                                                   *)
(*   - a proposer that has fallen behind catches up from the reject reply to a stale     *)
(*     request of type LearnType (PreCommit / Abort / Commit: the three places of        *)
(*     twopc.go that call acceptNewValue on a reply), and                                *)
(*   - the replica that rejected it is at that moment inside its own section with a      *)
(*     write that is not committed, in one of the proposer states DirtyOps,              *)
(* so that two replicas hold different values for one version (SameValuePerVersion       *)
(* violated on the variant). The counterexample is exported through `act` and replayed   *)
(* on real replicas over both transports; the unchanged code must pass it (there the     *)
(* reply carries oldValue and the schedule is a behaviour of the repaired model as well, *)
(* see RWReplay.tla), a code base with the defect ends with replicas that report         *)
(* different values for one version.                                                     *)
(* One configuration per member of the family: RWGen_<type>_<dirty>.cfg.                 *)
EXTENDS TwoPC
CONSTANTS LearnType,     \* type of the stale request whose reject reply teaches the lagging proposer
          DirtyOps       \* proposer states (op) of the rejecting replica

IntEnabled(p) == \/ (op[p] = "pc" /\ (need[p] = 0 \/ rem[p] < need[p]))
                 \/ (op[p] \in {"rollback", "abortrb", "commit"} /\ need[p] = 0)

\* a step in which a proposer catches up from a reject reply
Learns == act'[1] = "rel" /\ act'[7] = "rej" /\ version'[act'[2]] # version[act'[2]]

\* scope of the search: sections are given up only once prepared or failed; a proposer's internal region is
\* not delayed (as in the schedules of the simulation runs); only one writer runs a second section; every
\* catch-up step except the wanted kind is cut off (TLC still evaluates the invariant on the cut-off states:
\* GenInv asks for the wanted kind again)
GenScope ==
  /\ act'[1] = "abort" => op[act'[2]] \in {"prepared", "failed"}
  /\ (\E p \in Writers : IntEnabled(p)) => act'[1] = "int"
  /\ \A p, q \in Writers : p # q => sect'[p] <= 1 \/ sect'[q] <= 1
  /\ Learns => /\ act'[4] = LearnType
               /\ op[act'[3]] \in DirtyOps
               /\ value[act'[3]] # oldValue[act'[3]]

Wanted == /\ act[1] = "rel" /\ act[4] = LearnType /\ act[7] = "rej"
          /\ op[act[3]] \in DirtyOps
GenInv == SameValuePerVersion \/ ~Wanted
=============================================================================
