CONSTANTS
  Nodes = {1, 2, 3}
  Writers = {1, 2}
  MaxSect = 1
  MaxVer = 4
  DropBudget = 0
  DupBudget = 0
  Filter = TRUE
  ValueEq = TRUE
  SoloTries = 2
  SplitPC = FALSE
  CommitRetry = TRUE
INIT Init
NEXT Next
VIEW view
INVARIANTS OneWinnerPerVersion SameValuePerVersion StaleReadAborts NoAssertFails Released SoloProgress
PROPERTIES VersionsMonotone
CHECK_DEADLOCK FALSE
