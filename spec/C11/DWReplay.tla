------------------------------ MODULE DWReplay ------------------------------
(* Vacuity / regression guard that costs a few states: the double-winner schedule found *)
(* by TLC on the model without the sender-time filter (MC3PinnedLocal.cfg, thorough    *)
(* tier) is replayed step by step on TwoPC.tla.                                        *)
(*   Filter = FALSE: every step is enabled and OneWinnerPerVersion is violated;        *)
(*   Filter = TRUE:  the late Abort is ignored, replica 3 stays with proposer 1 and    *)
(*                   rejects proposer 2, so the schedule cannot be followed.           *)
EXTENDS TwoPC

DW == <<
  <<"read", 1>>, <<"write", 1, "ok">>, <<"pcstart", 1, 2, 1>>,
  <<"read", 2>>, <<"write", 2, "ok">>, <<"pcstart", 2, 2, 1>>,
  <<"dlv", 1, 3, "PreCommit", 1, 1, "acc">>, <<"rel", 1, 3, "PreCommit", 1, 1, "acc">>,
  <<"int", 1, "prepared", 0, 0>>,
  <<"abort", 1, 2, 2>>,                                      \* the section is given up: Abort to 2 and 3
  <<"dlv", 1, 2, "Abort", 1, 2, "acc">>, <<"rel", 1, 2, "Abort", 1, 2, "acc">>,
  <<"int", 1, "aborted", 0, 0>>,                             \* a majority answered: Abort returns, 1 -> 3 still in flight
  <<"read", 1>>, <<"write", 1, "ok">>, <<"pcstart", 1, 2, 3>>,
  <<"dlv", 1, 3, "PreCommit", 1, 3, "acc">>,                 \* 3 re-accepts proposer 1 ...
  <<"dlv", 1, 3, "Abort", 1, 2, "acc">>,                     \* ... and the late Abort arrives
  <<"rel", 1, 3, "PreCommit", 1, 3, "acc">>, <<"int", 1, "prepared", 0, 0>>, <<"commit", 1, 2, 4>>,
  <<"dlv", 2, 3, "PreCommit", 1, 1, "acc">>, <<"rel", 2, 3, "PreCommit", 1, 1, "acc">>,
  <<"int", 2, "prepared", 0, 0>>, <<"commit", 2, 2, 2>> >>

VARIABLE k
RInit == Init /\ k = 0
RNext == k < Len(DW) /\ k' = k + 1 /\ Next /\ act' = DW[k + 1]
Followed == k = Len(DW)
NotFollowed == ~Followed
=============================================================================
