------------------------------ MODULE LCReplay ------------------------------
(* The lost-Commit schedule found by TLC (MC3Faults with CommitRetry = FALSE) replayed *)
(* step by step on TwoPC.tla: proposer 2 commits version 1; its Commit to replica 1    *)
(* meets one transport error; a majority answers, the commit completes.                *)
(*   CommitRetry = FALSE (pinned tree): the retry loop sees that the proposer's own    *)
(*     version moved and stops; replica 1 keeps the accepted PreCommit for ever, every *)
(*     section of writer 1 aborts before it sends anything: SoloProgress is violated;  *)
(*   CommitRetry = TRUE: the loop does not stop (the step "wake ... stop" is not       *)
(*     enabled), so the schedule cannot be followed.                                   *)
EXTENDS TwoPC

LC == <<
  <<"read", 2>>, <<"write", 2, "ok">>, <<"pcstart", 2, 2, 1>>,
  <<"dlv", 2, 1, "PreCommit", 1, 1, "acc">>, <<"dlv", 2, 3, "PreCommit", 1, 1, "acc">>,
  <<"rel", 2, 1, "PreCommit", 1, 1, "acc">>, <<"int", 2, "prepared", 0, 0>>,
  <<"commit", 2, 2, 2>>,
  <<"dropreq", 2, 1, "Commit", 1, 2>>,                       \* the Commit to replica 1 is lost
  <<"dlv", 2, 3, "Commit", 1, 2, "acc">>,
  <<"rel", 2, 1, "Commit", 1, 2, "err">>,                    \* error: the goroutine sleeps 1 s
  <<"rel", 2, 3, "PreCommit", 1, 1, "acc">>, <<"rel", 2, 3, "Commit", 1, 2, "acc">>,
  <<"int", 2, "committed", 0, 0>>,                           \* majority answered: version[2] = 1
  <<"wake", 2, 1, "Commit", 1, 2, "stop">>,                  \* shouldRetry() is false: replica 1 is never told
  <<"solo", 1>>,
  <<"read", 1>>, <<"write", 1, "ok">>, <<"pcstart", 1, 0, 0>>, <<"abort", 1, 0, 0>>,
  <<"read", 1>>, <<"write", 1, "ok">>, <<"pcstart", 1, 0, 0>>, <<"abort", 1, 0, 0>> >>

VARIABLE k
RInit == Init /\ k = 0
RNext == k < Len(LC) /\ k' = k + 1 /\ Next /\ act' = LC[k + 1]
NotFollowed == k < Len(LC)
=============================================================================
