---------------------------- MODULE ShcounterObs ----------------------------
(* P-level statement of C16 for the shared counter, on top of shcounter.tla (unchanged). *)
(* The shipped spec states only the temporal CntrValueOK == <>[](cntr = NUM_NODES); its   *)
(* safety content is stated here.  zprev is the value of cntr before the last step.       *)
EXTENDS shcounter, Integers

VARIABLES zprev
zhvars == <<vars, zprev>>

HInit == Init /\ zprev = 0
HStep == zprev' = cntr
HNext == Next /\ HStep
HSpec == HInit /\ [][HNext]_zhvars

(* the counter ends at exactly the number of nodes *)
FinalValue == (\A zn \in NODE_SET : pc[zn] = "Done") => cntr = NUM_NODES
(* a node passes its wait label only when the counter has the final value *)
DoneOnlyAtFinalValue == (\E zn \in NODE_SET : pc[zn] = "Done") => cntr = NUM_NODES
(* it never exceeds the number of nodes and never decreases *)
NeverExceeds == cntr <= NUM_NODES
NeverDecreases == cntr >= zprev
(* every node that has done its update has contributed exactly one *)
CountsUpdates == cntr = Cardinality({zn \in NODE_SET : pc[zn] # "update"})
=============================================================================
