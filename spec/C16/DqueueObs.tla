------------------------------ MODULE DqueueObs ------------------------------
(* P-level statement of C16 for the distributed queue, on top of the repository's      *)
(* dqueue.tla (unchanged).  The shipped spec names no safety invariant; the property    *)
(* "each produced item is handed to exactly one requesting consumer, in production      *)
(* order, and no buffer exceeds its bound" is stated here with history variables that   *)
(* are a function of the step (vars, vars') only, so a recorded execution of the         *)
(* generated Go determines them.                                                         *)
(*   zreqs    requests in the order they were put into the producer's mailbox (ids)     *)
(*   zhanded  items in the order they were put into a consumer's mailbox [item, to]     *)
(*   ztaken   items in the order consumers took them out of their mailbox [item, by]    *)
(*   zproc    the value of `processor` after each such take                             *)
(*   zprod    number of committed p2 steps of the producer (one read of the stream each) *)
(*   zcons    number of committed c2 steps of the consumers (one item processed each)     *)
EXTENDS dqueue, Integers, FiniteSets

VARIABLES zreqs, zhanded, ztaken, zproc, zprod, zcons
zhvars == <<vars, zreqs, zhanded, ztaken, zproc, zprod, zcons>>

ZConsumers == 1..NUM_CONSUMERS

(* How a FIFO buffer changed in one step: the least number of elements removed at the  *)
(* head such that the rest is a prefix of the new contents; what follows was appended. *)
ZIsShift(zq, zq2, zk) == /\ Len(zq2) >= Len(zq) - zk
                         /\ SubSeq(zq2, 1, Len(zq) - zk) = SubSeq(zq, zk + 1, Len(zq))
ZPopCount(zq, zq2) == CHOOSE zk \in 0..Len(zq) : ZIsShift(zq, zq2, zk) /\ \A zj \in 0..(zk - 1) : ~ZIsShift(zq, zq2, zj)
ZPopped(zq, zq2) == SubSeq(zq, 1, ZPopCount(zq, zq2))
ZAdded(zq, zq2) == SubSeq(zq2, Len(zq) - ZPopCount(zq, zq2) + 1, Len(zq2))

ZTag(zs, zfield, zc) == [zi \in 1..Len(zs) |-> IF zfield = "to" THEN [item |-> zs[zi], to |-> zc] ELSE [item |-> zs[zi], by |-> zc]]
RECURSIVE ZAllAdded(_), ZAllPopped(_)
ZAllAdded(zc) == IF zc > NUM_CONSUMERS THEN <<>> ELSE ZTag(ZAdded(network[zc], network'[zc]), "to", zc) \o ZAllAdded(zc + 1)
ZAllPopped(zc) == IF zc > NUM_CONSUMERS THEN <<>> ELSE ZTag(ZPopped(network[zc], network'[zc]), "by", zc) \o ZAllPopped(zc + 1)

HInit == Init /\ zreqs = <<>> /\ zhanded = <<>> /\ ztaken = <<>> /\ zproc = <<>> /\ zprod = 0 /\ zcons = 0
HStep == /\ zreqs' = zreqs \o ZAdded(network[PRODUCER], network'[PRODUCER])
         /\ zhanded' = zhanded \o ZAllAdded(1)
         /\ ztaken' = ztaken \o ZAllPopped(1)
         /\ zproc' = zproc \o [zi \in 1..Len(ZAllPopped(1)) |-> processor']
         /\ zprod' = IF pc[PRODUCER] = "p2" /\ pc'[PRODUCER] # "p2" THEN zprod + 1 ELSE zprod
         /\ zcons' = zcons + Cardinality({zc \in ZConsumers : pc[zc] = "c2" /\ pc'[zc] # "c2"})
HNext == Next /\ HStep
HSpec == HInit /\ [][HNext]_zhvars

ZItems(zs) == [zi \in 1..Len(zs) |-> zs[zi].item]
ZHandedTo(zc) == ZItems(SelectSeq(zhanded, LAMBDA zh : zh.to = zc))
ZTakenBy(zc) == ZItems(SelectSeq(ztaken, LAMBDA zt : zt.by = zc))

(* no buffer exceeds its bound *)
BufferBound == \A zid \in DOMAIN network : Len(network[zid]) <= BUFFER_SIZE

(* every item read from the stream is handed on exactly once, in the order of the stream: *)
(* the k-th hand-over carries the k-th element of the (cyclic) stream, the stream has      *)
(* advanced exactly as far as items were handed on, one hand-over per production step      *)
HandedInProductionOrder ==
    /\ \A zk \in 1..Len(zhanded) : zhanded[zk].item = zk % BUFFER_SIZE
    /\ stream = Len(zhanded) % BUFFER_SIZE
    /\ Len(zhanded) = zprod

(* the k-th item goes to the consumer that made the k-th request (so: to a consumer that *)
(* asked, to one consumer only, and never more items than requests)                       *)
HandedToRequester ==
    /\ Len(zhanded) <= Len(zreqs)
    /\ \A zk \in 1..Len(zhanded) : zhanded[zk].to = zreqs[zk] /\ zreqs[zk] \in ZConsumers

(* a consumer takes exactly the items handed to it, once each, in order; what it has not *)
(* taken yet is still in its mailbox                                                      *)
TakenOnceInOrder == \A zc \in ZConsumers : ZTakenBy(zc) \o network[zc] = ZHandedTo(zc)

(* every processing step takes one item out of the mailbox, and that item is the one passed to the processor *)
ProcessedAsTaken == /\ Len(zproc) = Len(ztaken)
                    /\ Len(ztaken) = zcons
                    /\ \A zk \in 1..Len(ztaken) : zproc[zk] = ztaken[zk].item

(* state constraints for the exhaustive design-level runs (the history grows for ever) *)
ZBound3 == Len(zreqs) <= 3
ZBound5 == Len(zreqs) <= 5
ZBound8 == Len(zreqs) <= 8
=============================================================================
