----------------------------- MODULE ShopcartObs -----------------------------
(* P-level statement of C16 for the shopping cart (add-wins observed-remove set), on top *)
(* of shopcart.tla (unchanged).  StrongConvergence and QueryOK are the spec's; here:      *)
(* equal knowledge => equal READ values (the AWORSet read, Query), and -- the instantiated *)
(* workload only adds -- the add clocks (per-element vector counters) never decrease and   *)
(* no replica's read loses an element while no remove tag exists.  zprev is crdt before    *)
(* the last step.                                                                          *)
EXTENDS shopcart, Integers

VARIABLES zprev
zhvars == <<vars, zprev>>

HInit == Init /\ zprev = crdt
HStep == zprev' = crdt
HNext == Next /\ HStep
HSpec == HInit /\ [][HNext]_zhvars

EqualKnowledgeEqualReads == \A zi, zj \in NodeSet : (c[zi] = c[zj]) => (Query(crdt[zi]) = Query(crdt[zj]))

ZNoRemoves(zr) == \A zn \in NodeSet : \A ze \in DOMAIN zr[zn].remMap : zr[zn].remMap[ze] = Null
CountersNeverDecrease ==
    (ZNoRemoves(zprev) /\ ZNoRemoves(crdt)) =>
        \A zn \in NodeSet : /\ \A ze \in DOMAIN zprev[zn].addMap : \A zk \in NodeSet : crdt[zn].addMap[ze][zk] >= zprev[zn].addMap[ze][zk]
                            /\ Query(zprev[zn]) \subseteq Query(crdt[zn])
=============================================================================
