----------------------------- MODULE GcounterObs -----------------------------
(* P-level statement of C16 for the grow-only counter system, on top of gcounter.tla     *)
(* (unchanged).  StrongConvergence (equal causal history => equal replica state) is the  *)
(* spec's; here: equal knowledge => equal READ values (the LocalGCntr read, SUM), and     *)
(* counters never decrease.  zprev is localcntrs before the last step.                    *)
EXTENDS gcounter, Integers

VARIABLES zprev
zhvars == <<vars, zprev>>

HInit == Init /\ zprev = localcntrs
HStep == zprev' = localcntrs
HNext == Next /\ HStep
HSpec == HInit /\ [][HNext]_zhvars

ZRead(zi) == SUM(localcntrs[zi], DOMAIN localcntrs[zi])
ZReadPrev(zi) == SUM(zprev[zi], DOMAIN zprev[zi])

(* replicas with equal knowledge read equal values *)
EqualKnowledgeEqualReads == \A zi, zj \in NODE_SET : (c[zi] = c[zj]) => (ZRead(zi) = ZRead(zj))
(* no entry of a replica's vector, and so no replica's value, ever decreases *)
CountersNeverDecrease == \A zi \in NODE_SET : /\ \A zj \in DOMAIN zprev[zi] : zj \in DOMAIN localcntrs[zi] /\ localcntrs[zi][zj] >= zprev[zi][zj]
                                             /\ ZRead(zi) >= ZReadPrev(zi)
(* a replica never counts more increments than were made (each node increments once) *)
NoInventedIncrements == \A zi \in NODE_SET : ZRead(zi) <= Cardinality({zn \in NODE_SET : pc[zn] # "update"})
=============================================================================
