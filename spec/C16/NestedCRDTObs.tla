---------------------------- MODULE NestedCRDTObs ----------------------------
(* P-level statement of C16 for the CRDT resource written in MPCal (NestedCRDTImpl.tla,  *)
(* with the grow-only-counter operators the shipped test wires in: state = function from  *)
(* replica id to count, COMBINE_FN = pointwise max, VIEW_FN = sum; see the table's named   *)
(* rewrites).  MonotonicState and StateSanity are the spec's.  Here "knowledge" is made    *)
(* explicit with history variables that are functions of the step:                         *)
(*   zprev    state before the last step                                                   *)
(*   zpend    per replica: increments written in the open critical section (WRITE_REQs     *)
(*            taken out of in[r] since the last COMMIT/ABORT)                               *)
(*   zown     per replica: increments committed through it (sum of zpend at COMMIT_REQs)   *)
(*   zknow    per replica: the increments <<origin, k>> it has been told about -- its own  *)
(*            committed ones and those contained in every message it took from network[r]  *)
EXTENDS NestedCRDTImpl

VARIABLES zprev, zpend, zown, zknow
zhvars == <<vars, zprev, zpend, zown, zknow>>

ZIsShift(zq, zq2, zk) == /\ Len(zq2) >= Len(zq) - zk
                         /\ SubSeq(zq2, 1, Len(zq) - zk) = SubSeq(zq, zk + 1, Len(zq))
ZPopCount(zq, zq2) == CHOOSE zk \in 0..Len(zq) : ZIsShift(zq, zq2, zk) /\ \A zj \in 0..(zk - 1) : ~ZIsShift(zq, zq2, zj)
ZPopped(zq, zq2) == SubSeq(zq, 1, ZPopCount(zq, zq2))

(* the increments a counter state stands for *)
ZIncs(zs) == UNION {{<<zo, zk>> : zk \in 1..zs[zo]} : zo \in DOMAIN zs}
ZGet(zs, zo) == IF zo \in DOMAIN zs THEN zs[zo] ELSE 0

(* the request replica zr takes out of its input cell in this step ("" if none) *)
ZTaken(zr) == IF in[zr] # EMPTY_CELL /\ in'[zr] = EMPTY_CELL THEN in[zr].tpe ELSE ""

HInit == /\ Init /\ zprev = state
         /\ zpend = [zr \in RESOURCE_IDS |-> 0] /\ zown = [zr \in RESOURCE_IDS |-> 0]
         /\ zknow = [zr \in RESOURCE_IDS |-> {}]
HStep == /\ zprev' = state
         /\ zpend' = [zr \in RESOURCE_IDS |-> CASE ZTaken(zr) = WRITE_REQ -> zpend[zr] + in[zr].value
                                                [] ZTaken(zr) \in {ABORT_REQ, COMMIT_REQ} -> 0
                                                [] OTHER -> zpend[zr]]
         /\ zown' = [zr \in RESOURCE_IDS |-> IF ZTaken(zr) = COMMIT_REQ THEN zown[zr] + zpend[zr] ELSE zown[zr]]
         /\ zknow' = [zr \in RESOURCE_IDS |->
                        zknow[zr] \cup (IF ZTaken(zr) = COMMIT_REQ THEN {<<zr, zk>> : zk \in 1..(zown[zr] + zpend[zr])} ELSE {})
                                  \cup UNION {ZIncs(ZPopped(network[zr], network'[zr])[zi]) : zi \in 1..ZPopCount(network[zr], network'[zr])}]
HNext == Next /\ HStep
HSpec == HInit /\ [][HNext]_zhvars

(* counters never decrease (MonotonicState of the spec, as a state predicate over zprev), *)
(* and neither does the value a replica reads                                              *)
MonotonicStateInv == \A zr \in RESOURCE_IDS : \A zk \in DOMAIN zprev[zr] : zk \in DOMAIN state[zr] /\ zprev[zr][zk] <= state[zr][zk]
ViewNeverDecreases == \A zr \in RESOURCE_IDS : VIEW_FN(zprev[zr]) <= VIEW_FN(state[zr])

(* a replica's state is exactly the join of what it has been told: nothing lost, nothing invented *)
StateIsKnowledge == \A zr \in RESOURCE_IDS : ZIncs(state[zr]) = zknow[zr]
(* replicas with equal knowledge read equal values *)
EqualKnowledgeEqualReads == \A zr1, zr2 \in RESOURCE_IDS : (zknow[zr1] = zknow[zr2]) => (VIEW_FN(state[zr1]) = VIEW_FN(state[zr2]))
(* no replica and no message in flight counts more increments of an origin than were committed there *)
NoInventedIncrements ==
    \A zr \in RESOURCE_IDS : \A zo \in RESOURCE_IDS :
        /\ ZGet(state[zr], zo) <= zown[zo]
        /\ \A zi \in 1..Len(network[zr]) : ZGet(network[zr][zi], zo) <= zown[zo]
(* no channel exceeds its bound *)
BufferBound == \A zr \in DOMAIN network : Len(network[zr]) <= BUFFER_SIZE
(* StateSanity of the spec sums over SETS of values (equal values collapse); the intended bound, per replica: *)
RECURSIVE ZSumF(_, _)
ZSumF(zf, zd) == IF zd = {} THEN 0 ELSE LET zx == CHOOSE zy \in zd : TRUE IN zf[zx] + ZSumF(zf, zd \ {zx})
ViewBoundedByWrites == \A zr \in RESOURCE_IDS : VIEW_FN(state[zr]) <= ZSumF([zn \in NODE_IDS |-> writesPending[zn] + writesAchieved[zn]], NODE_IDS)
=============================================================================
