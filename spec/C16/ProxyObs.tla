------------------------------- MODULE ProxyObs -------------------------------
(* P-level statement of C16 for the proxy, on top of pcal's translation of the checked-in *)
(* PlusCal of proxy.tla with the PerfectFD mapping (the table's invariant_spec_rewrites).  *)
(* ProxyOK is the spec's (it looks at the proxy's local proxyResp at label                  *)
(* sendMsgToClient); here the same is stated on what the client is actually told: a         *)
(* response with body FAIL is put into a client's mailbox only in a state in which every    *)
(* backend has failed.  zfailok stays TRUE as long as that was so in every step; zfails and *)
(* zoks count the FAIL / non-FAIL responses (witnesses against vacuity).                    *)
EXTENDS proxy, Integers

VARIABLES zfailok, zfails, zoks
zhvars == <<vars, zfailok, zfails, zoks>>

ZIsShift(zq, zq2, zk) == /\ Len(zq2) >= Len(zq) - zk
                         /\ SubSeq(zq2, 1, Len(zq) - zk) = SubSeq(zq, zk + 1, Len(zq))
ZPopCount(zq, zq2) == CHOOSE zk \in 0..Len(zq) : ZIsShift(zq, zq2, zk) /\ \A zj \in 0..(zk - 1) : ~ZIsShift(zq, zq2, zj)
ZAdded(zq, zq2) == SubSeq(zq2, Len(zq) - ZPopCount(zq, zq2) + 1, Len(zq2))

(* responses put into clients' mailboxes in this step *)
ZRespOf(zc) == ZAdded(network[<<zc, RESP_MSG_TYP>>].queue, network'[<<zc, RESP_MSG_TYP>>].queue)
ZNumResp(zc, zfail) == Len(SelectSeq(ZRespOf(zc), LAMBDA zm : (zm.body = FAIL) = zfail))
RECURSIVE ZSumResp(_, _)
ZSumResp(zc, zfail) == IF zc > NUM_SERVERS + NUM_CLIENTS THEN 0 ELSE ZNumResp(zc, zfail) + ZSumResp(zc + 1, zfail)

(* a backend has failed: it crashed (its link is disabled and it is at failLabel or beyond) *)
ZFailed(zs) == pc[zs] = "failLabel" \/ pc[zs] = "Done"
ZAllFailed == \A zs \in SERVER_SET : ZFailed(zs)

HInit == Init /\ zfailok = TRUE /\ zfails = 0 /\ zoks = 0
HStep == /\ zfails' = zfails + ZSumResp(NUM_SERVERS + 1, TRUE)
         /\ zoks' = zoks + ZSumResp(NUM_SERVERS + 1, FALSE)
         /\ zfailok' = (zfailok /\ (ZSumResp(NUM_SERVERS + 1, TRUE) = 0 \/ ZAllFailed))
HNext == Next /\ HStep
HSpec == HInit /\ [][HNext]_zhvars

(* the proxy reports failure only when every backend has failed *)
FailOnlyWhenAllFailed == zfailok
(* a crashed backend is never reported alive again, and (perfect detector) a backend is  *)
(* suspected only if it has crashed                                                       *)
PerfectDetector == \A zs \in SERVER_SET : fd[zs] => ZFailed(zs)

(* witnesses: these are expected to be VIOLATED by the design-level run (reachability) *)
ZNoFailReported == zfails = 0
ZNoOkReported == zoks = 0
ZNoFailPending == ~(pc[ProxyID] = "sendMsgToClient" /\ proxyResp.body = FAIL)

ZBound2 == zfails + zoks <= 2 /\ \A zc \in CLIENT_SET : input[zc] <= 2
ZBound3 == zfails + zoks <= 3 /\ \A zc \in CLIENT_SET : input[zc] <= 3
=============================================================================
