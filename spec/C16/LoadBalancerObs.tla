--------------------------- MODULE LoadBalancerObs ---------------------------
(* P-level statement of C16 for the load balancer, on top of pcal's translation of the   *)
(* checked-in PlusCal of load_balancer.tla (variables pc, network, in, out, fs, msg,      *)
(* next, msg0, req, resp).  "Every client request is answered by exactly one server":     *)
(* history variables (functions of the step) record the order in which requests reach    *)
(* the load balancer's mailbox, the order in which they are forwarded to servers, and     *)
(* the answers put into the clients' mailboxes together with the server that did it.      *)
(*   zreqs   client ids, in the order their requests entered network[LoadBalancerId]     *)
(*   zfwds   [client, server], in the order requests entered a server's mailbox          *)
(*   zans    [client, server], in the order answers entered a client's mailbox; server    *)
(*           is the server that left label sendPage in that step (0 if there is none)     *)
EXTENDS load_balancer, Integers

VARIABLES zreqs, zfwds, zans
zhvars == <<vars, zreqs, zfwds, zans>>

ZServers == 1..NUM_SERVERS
ZClients == (NUM_SERVERS + 1)..(NUM_SERVERS + NUM_CLIENTS)

ZIsShift(zq, zq2, zk) == /\ Len(zq2) >= Len(zq) - zk
                         /\ SubSeq(zq2, 1, Len(zq) - zk) = SubSeq(zq, zk + 1, Len(zq))
ZPopCount(zq, zq2) == CHOOSE zk \in 0..Len(zq) : ZIsShift(zq, zq2, zk) /\ \A zj \in 0..(zk - 1) : ~ZIsShift(zq, zq2, zj)
ZAdded(zq, zq2) == SubSeq(zq2, Len(zq) - ZPopCount(zq, zq2) + 1, Len(zq2))

(* the server that answers in this step: the one that leaves sendPage *)
ZAnswering == {zs \in ZServers : pc[zs] = "sendPage" /\ pc'[zs] # "sendPage"}
ZAnswerer == IF ZAnswering = {} THEN 0 ELSE CHOOSE zs \in ZAnswering : TRUE

RECURSIVE ZFwdFrom(_), ZAnsFrom(_)
ZFwdFrom(zs) == IF zs > NUM_SERVERS THEN <<>>
                ELSE LET za == ZAdded(network[zs], network'[zs])
                     IN [zi \in 1..Len(za) |-> [client |-> za[zi].client_id, server |-> zs]] \o ZFwdFrom(zs + 1)
ZAnsFrom(zc) == IF zc > NUM_SERVERS + NUM_CLIENTS THEN <<>>
                ELSE LET za == ZAdded(network[zc], network'[zc])
                     IN [zi \in 1..Len(za) |-> [client |-> zc, server |-> ZAnswerer]] \o ZAnsFrom(zc + 1)

HInit == Init /\ zreqs = <<>> /\ zfwds = <<>> /\ zans = <<>>
HStep == /\ zreqs' = zreqs \o LET za == ZAdded(network[LoadBalancerId], network'[LoadBalancerId])
                              IN [zi \in 1..Len(za) |-> za[zi].client_id]
         /\ zfwds' = zfwds \o ZFwdFrom(1)
         /\ zans' = zans \o ZAnsFrom(NUM_SERVERS + 1)
HNext == Next /\ HStep
HSpec == HInit /\ [][HNext]_zhvars

ZClientsOf(zs, zsrv) == LET zsel == SelectSeq(zs, LAMBDA zr : zr.server = zsrv) IN [zi \in 1..Len(zsel) |-> zsel[zi].client]
ZIsPrefix(za, zb) == Len(za) <= Len(zb) /\ \A zi \in 1..Len(za) : za[zi] = zb[zi]
ZCount(zs, zc) == Len(SelectSeq(zs, LAMBDA zr : zr.client = zc))

(* the k-th request that reached the load balancer is the k-th request forwarded: every  *)
(* request is given to one server only, none is invented                                  *)
ForwardedOnce == /\ Len(zfwds) <= Len(zreqs)
                 /\ \A zk \in 1..Len(zfwds) : zfwds[zk].client = zreqs[zk] /\ zfwds[zk].server \in ZServers

(* every answer is given by a server, and each server answers exactly the requests that  *)
(* were forwarded to it, once each, in order                                               *)
AnsweredByItsServer == /\ \A zk \in 1..Len(zans) : zans[zk].server \in ZServers
                       /\ \A zs \in ZServers : ZIsPrefix(ZClientsOf(zans, zs), ZClientsOf(zfwds, zs))

(* a client never gets more answers than it made requests *)
AnsweredAtMostOnce == \A zc \in ZClients : /\ ZCount(zans, zc) <= ZCount(zfwds, zc)
                                           /\ ZCount(zfwds, zc) <= Len(SelectSeq(zreqs, LAMBDA zr : zr = zc))

ZBound3 == Len(zreqs) <= 3
ZBound4 == Len(zreqs) <= 4
ZBound6 == Len(zreqs) <= 6
=============================================================================
