CONSTANTS
  Tier = "quick"
  Seed = 1
  FamLo = 1
  FamHi = 0
INIT OInit
NEXT ONext
