------------------------------ MODULE OpsOracle ------------------------------
(* C03 P-spec: TLC is the reference evaluator of every operator of the Go runtime       *)
(* library distsys/tla (tla.Module* in symbols.go, syntax helpers in builtins.go,        *)
(* MakeFunction/MakeRecordSet/MakeFunctionSet/ApplyFunction/SelectElement in value.go).  *)
(*                                                                                      *)
(* A ROW is (operator, lambda name, argument terms).  Rows are generated family by      *)
(* family: a family is an operator applied to the cross product of argument classes of   *)
(* the value universe (ValTerms), together with what TLA+/TLC says about definedness:    *)
(*   mode "ok"   : TLC evaluates every row of the family to a value                      *)
(*   mode "err"  : TLC reports an error on every row                                     *)
(*   mode "part" : the row is defined iff Def(op, lam, values)                           *)
(* and whether a *loud* failure of the library is admissible although TLC has a value    *)
(* (restr = "seqfn": a sequence where a function is required or vice versa;              *)
(*  restr = "except": EXCEPT on a key outside the domain) -- the two documented          *)
(* restrictions named in the property.                                                   *)
(*                                                                                      *)
(* The "ok" side of Def is anchored in TLC because TLC evaluates every defined row here  *)
(* (Expected); the "error" side is anchored by evaluating rows one by one in the TLC     *)
(* REPL (RowTxt is the TLA+ source text of the row).                                     *)
EXTENDS ValTerms, SequencesExt, Json

CONSTANTS Tier,   \* "quick" | "thorough"
          Seed,   \* VERIF_SEED (selects the samples of the thorough tier)
          FamLo, FamHi   \* the range of families whose rows are generated (FamHi = 0: up to the last one);
                         \* the judge runs on slices of the table, the design-level run on all of it

Thorough == Tier = "thorough"

(* ======================================================================== universe *)
Bools == <<TB(TRUE), TB(FALSE)>>
IntsSmall == [zi \in 1..7 |-> TI(zi - 4)]                       \* -3..3
IntsEdge  == <<TI(MinInt), TI(MinInt + 1), TI(MaxInt - 1), TI(MaxInt)>>
IntsMore  == <<TI(-5), TI(5), TI(7), TI(-7), TI(46340), TI(46341), TI(-46341), TI(65536), TI(-65536), TI(1073741824)>>
Ints == IntsSmall \o IntsEdge \o (IF Thorough THEN IntsMore ELSE <<>>)
IdxInts == [zi \in 1..7 |-> TI(zi - 2)]                         \* -1..5 (indices, keys)
Strs == <<TS(""), TS("a"), TS("b")>>

SetsI == <<SI(<<>>), SI(<<1>>), SI(<<2>>), SI(<<1, 2>>), SI(<<1, 3>>), SI(<<2, 3>>), SI(<<1, 2, 3>>),
           SI(<<0>>), SI(<<-1, 2>>), SI(<<3, 1, 2>>), SI(<<MaxInt>>), SI(<<MinInt, 0>>), SI(<<1, 2, 3, 4>>)>>
          \o (IF Thorough THEN SetsOf(MapSeq(TI, <<-2, 0, 1, 2, 5>>), 2, 4) ELSE <<>>)
SetsISmall == Take(SetsI, 8)
SetsS == <<SS(<<>>), SS(<<"a">>), SS(<<"b">>), SS(<<"a", "b">>), SS(<<"">>)>>
SetsB == <<SB(<<TRUE>>), SB(<<FALSE>>), SB(<<TRUE, FALSE>>)>>
TupsI == <<QI(<<>>), QI(<<1>>), QI(<<2>>), QI(<<1, 2>>), QI(<<2, 1>>), QI(<<1, 1>>), QI(<<1, 2, 3>>),
           QI(<<3, -1>>), QI(<<5, 6>>)>>
          \o (IF Thorough THEN TupsOf(MapSeq(TI, <<0, 1, 2>>), 3, 3) ELSE <<>>)
TupsS == <<QS(<<"a">>), QS(<<"a", "b">>), QS(<<"">>)>>
TupsM == <<TTup(<<TI(1), TS("a")>>), TTup(<<TB(TRUE), TI(2), TS("b")>>)>>
FnEmpty == TFn(<<>>)
FnsII == <<FII(<<1, 1>>), FII(<<1, 2, 2, 1>>), FII(<<0, 1>>), FII(<<2, 5, 3, 6>>), FII(<<1, 5, 2, 6>>),
           FII(<<-1, 0, 3, 3>>), FII(<<2, 6, 1, 5>>), FnEmpty>>
          \o (IF Thorough THEN FnsOf(MapSeq(TI, <<0, 1, 2, 3>>), MapSeq(TI, <<1, 2, 7>>), 2, 3) ELSE <<>>)
(* functions whose domain is 1..n: the same TLA+ values as tuples *)
Fns1N == <<FII(<<1, 1>>), FII(<<1, 2, 2, 1>>), FII(<<1, 5, 2, 6>>), FII(<<2, 6, 1, 5>>), FnEmpty>>
RecsI == <<Rec1("a", TI(1)), Rec2("a", TI(1), "b", TI(2)), Rec2("b", TI(2), "a", TI(1)), Rec1("a", TI(2)),
           Rec2("a", TI(1), "b", TI(3)), Rec1("b", TI(1))>>
RecsM == <<Rec2("a", TS("x"), "b", TB(TRUE)), Rec2("a", SI(<<1>>), "b", QI(<<1, 2>>)),
           Rec1("a", Rec1("b", TI(1))), Rec2("a", QI(<<>>), "b", SI(<<>>))>>
FnsBI == <<TFn(<<TB(TRUE), TI(1), TB(FALSE), TI(0)>>)>>

SetsSetI == <<TSet(<<SI(<<>>)>>), TSet(<<SI(<<1>>)>>), TSet(<<SI(<<1>>), SI(<<2>>)>>),
              TSet(<<SI(<<1, 2>>), SI(<<2, 3>>)>>), TSet(<<SI(<<>>), SI(<<1>>)>>),
              TSet(<<SI(<<1>>), SI(<<1, 2>>), SI(<<3>>)>>), TSet(<<SI(<<1, 2, 3>>)>>),
              TSet(<<SI(<<2>>), SI(<<1>>)>>), TSet(<<>>)>>
             \o (IF Thorough THEN SetsOf(Take(SetsI, 6), 2, 3) ELSE <<>>)
SetsTupI == <<TSet(<<QI(<<>>)>>), TSet(<<QI(<<1>>)>>), TSet(<<QI(<<1, 2>>), QI(<<2, 1>>)>>),
              TSet(<<QI(<<1>>), QI(<<1, 1>>)>>), TSet(<<QI(<<5, 6>>)>>)>>
SetsFn == <<TSet(<<FII(<<1, 1>>)>>), TSet(<<FII(<<1, 5, 2, 6>>), FII(<<0, 1>>)>>), TSet(<<FnEmpty>>)>>
SetsRec == <<TSet(<<Rec1("a", TI(1))>>), TSet(<<Rec1("a", TI(1)), Rec1("a", TI(2))>>)>>
TupsSet == <<TTup(<<SI(<<1>>), SI(<<2>>)>>), TTup(<<SI(<<>>), SI(<<1, 2>>)>>), TTup(<<SI(<<1>>)>>)>>
TupsTup == <<TTup(<<QI(<<1>>), QI(<<2, 3>>)>>), TTup(<<QI(<<>>)>>), TTup(<<QI(<<1, 2>>), QI(<<1, 2>>)>>)>>
TupsRec == <<TTup(<<Rec1("a", TI(1)), Rec1("a", TI(2))>>)>>
FnsSetKey == <<TFn(<<SI(<<1>>), TI(1), SI(<<1, 2>>), TI(2)>>), TFn(<<SI(<<>>), TI(0)>>)>>
FnsTupKey == <<TFn(<<QI(<<1, 1>>), TI(1), QI(<<1, 2>>), TI(2)>>), TFn(<<QI(<<2, 1>>), TI(7)>>)>>
FnsFn == <<TFn(<<TI(1), FII(<<1, 1>>)>>), TFn(<<TI(1), QI(<<1, 2>>), TI(2), QI(<<>>)>>),
           TFn(<<TI(0), FII(<<0, 1>>), TI(2), FII(<<2, 5, 3, 6>>)>>)>>
RecsNest == <<Rec1("a", Rec1("b", TI(1))), Rec2("a", Rec1("b", TI(1)), "b", Rec2("a", TI(0), "b", TI(5)))>>
(* depth 3 (thorough): built by the combinators, sampled with the seed *)
SetsSetSetI == IF Thorough THEN Sample(SetsOf(Take(SetsSetI, 7), 0, 2), 24, Seed) ELSE <<TSet(<<TSet(<<SI(<<1>>)>>)>>)>>
TupsDeep == IF Thorough THEN Sample(TupsOf(<<SI(<<1>>), QI(<<1, 2>>), Rec1("a", TI(1)), TSet(<<SI(<<>>)>>), TI(0)>>, 1, 2), 20, Seed)
            ELSE <<TTup(<<TSet(<<SI(<<1>>)>>), QI(<<1>>)>>)>>

(* ======================================================================== lambdas *)
(* named predicates / bodies; the Go driver has the same table built from the library   *)
P1(lam, x) == CASE lam = "true" -> TRUE [] lam = "false" -> FALSE
                [] lam = "gt1" -> x > 1 [] lam = "even" -> x % 2 = 0 [] lam = "in12" -> x \in {1, 2}
                [] lam = "eq2" -> x = 2 [] lam = "card1" -> Cardinality(x) = 1 [] lam = "len2" -> Len(x) = 2
                [] lam = "isa" -> x = "a"
P2(lam, x, y) == CASE lam = "lt" -> x < y [] lam = "sum3" -> x + y = 3 [] lam = "neq" -> x # y
B1(lam, x) == CASE lam = "inc" -> x + 1 [] lam = "pair" -> <<x, x>> [] lam = "sing" -> {x}
                [] lam = "mod2" -> x % 2 [] lam = "id" -> x [] lam = "const7" -> 7
B2(lam, x, y) == CASE lam = "add" -> x + y [] lam = "tup" -> <<x, y>>
A1(lam, at) == CASE lam = "set9" -> 9 [] lam = "inc" -> at + 1 [] lam = "id" -> at [] lam = "app0" -> Append(at, 0)
P1Txt(lam, x) == CASE lam = "true" -> "TRUE" [] lam = "false" -> "FALSE"
                [] lam = "gt1" -> x \o " > 1" [] lam = "even" -> x \o " % 2 = 0" [] lam = "in12" -> x \o " \\in {1, 2}"
                [] lam = "eq2" -> x \o " = 2" [] lam = "card1" -> "Cardinality(" \o x \o ") = 1"
                [] lam = "len2" -> "Len(" \o x \o ") = 2" [] lam = "isa" -> x \o " = \"a\""
P2Txt(lam, x, y) == CASE lam = "lt" -> x \o " < " \o y [] lam = "sum3" -> x \o " + " \o y \o " = 3"
                [] lam = "neq" -> x \o " # " \o y
B1Txt(lam, x) == CASE lam = "inc" -> x \o " + 1" [] lam = "pair" -> "<<" \o x \o ", " \o x \o ">>"
                [] lam = "sing" -> "{" \o x \o "}" [] lam = "mod2" -> x \o " % 2" [] lam = "id" -> x [] lam = "const7" -> "7"
B2Txt(lam, x, y) == CASE lam = "add" -> x \o " + " \o y [] lam = "tup" -> "<<" \o x \o ", " \o y \o ">>"
A1Txt(lam) == CASE lam = "set9" -> "9" [] lam = "inc" -> "@ + 1" [] lam = "id" -> "@" [] lam = "app0" -> "Append(@, 0)"

(* ======================================================================== operators *)
Force(S) == {zx \in S : TRUE}      \* TLC keeps a..b, SUBSET S, [S -> T], S \X T, S \cup T ... symbolic (and compares
                                   \* some of them symbolically); force the enumerated set

Apply(op, lam, v) ==
  CASE op = "TRUE" -> TRUE [] op = "FALSE" -> FALSE [] op = "BOOLEAN" -> BOOLEAN [] op = "Zero" -> 0
    [] op = "Assert" -> Assert(v[1], v[2])
    [] op = "ToString" -> v[1]                          \* judged by re-evaluating the printed text
    [] op = "Eq" -> v[1] = v[2]          [] op = "Neq" -> v[1] # v[2]
    [] op = "Not" -> ~v[1]               [] op = "Equiv" -> (v[1] <=> v[2])
    [] op = "Plus" -> v[1] + v[2]        [] op = "Minus" -> v[1] - v[2]
    [] op = "Times" -> v[1] * v[2]       [] op = "Exp" -> v[1] ^ v[2]
    [] op = "Le" -> v[1] <= v[2]         [] op = "Ge" -> v[1] >= v[2]
    [] op = "Lt" -> v[1] < v[2]          [] op = "Gt" -> v[1] > v[2]
    [] op = "DotDot" -> Force(v[1]..v[2])
    [] op = "Div" -> v[1] \div v[2]      [] op = "Mod" -> v[1] % v[2]
    [] op = "Neg" -> -v[1]
    [] op = "In" -> v[1] \in v[2]        [] op = "NotIn" -> v[1] \notin v[2]
    [] op = "Intersect" -> Force(v[1] \cap v[2]) [] op = "Union" -> Force(v[1] \cup v[2])
    [] op = "SubsetEq" -> v[1] \subseteq v[2] [] op = "SetMinus" -> Force(v[1] \ v[2])
    [] op = "SUBSET" -> Force(SUBSET v[1]) [] op = "UNION" -> Force(UNION v[1])
    [] op = "IsFiniteSet" -> IsFiniteSet(v[1]) [] op = "Cardinality" -> Cardinality(v[1])
    [] op = "InSeq" -> v[1] \in Seq(v[2])
    [] op = "Len" -> Len(v[1])           [] op = "Concat" -> v[1] \o v[2]
    [] op = "Append" -> Append(v[1], v[2])
    [] op = "Head" -> Head(v[1])         [] op = "Tail" -> Tail(v[1])
    [] op = "SubSeq" -> SubSeq(v[1], v[2], v[3])
    [] op = "MapsTo" -> (v[1] :> v[2])   [] op = "AtAt" -> (v[1] @@ v[2])
    [] op = "DOMAIN" -> Force(DOMAIN v[1])
    [] op = "Apply" -> v[1][v[2]]
    [] op = "Apply2" -> v[1][v[2], v[3]]
    [] op = "Except1" -> [v[1] EXCEPT ![v[2]] = A1(lam, @)]
    [] op = "Except2" -> [v[1] EXCEPT ![v[2]][v[3]] = A1(lam, @)]
    [] op = "ExceptTwo" -> [v[1] EXCEPT ![v[2]] = A1(lam, @), ![v[3]] = A1(lam, @)]
    [] op = "ExceptT" -> [v[1] EXCEPT ![v[2], v[3]] = A1(lam, @)]
    [] op = "Forall1" -> \A zx \in v[1] : P1(lam, zx)
    [] op = "Exists1" -> \E zx \in v[1] : P1(lam, zx)
    [] op = "Forall2" -> \A zx \in v[1], zy \in v[2] : P2(lam, zx, zy)
    [] op = "Exists2" -> \E zx \in v[1], zy \in v[2] : P2(lam, zx, zy)
    [] op = "Refine" -> {zx \in v[1] : P1(lam, zx)}
    [] op = "Compr1" -> {B1(lam, zx) : zx \in v[1]}
    [] op = "Compr2" -> {B2(lam, zx, zy) : zx \in v[1], zy \in v[2]}
    [] op = "Cross2" -> Force(v[1] \X v[2]) [] op = "Cross3" -> Force(v[1] \X v[2] \X v[3])
    [] op = "Choose" -> CHOOSE zx \in v[1] : P1(lam, zx)
    [] op = "ChooseAny" -> {zx \in v[1] : P1(lam, zx)}   \* the admissible witnesses
    [] op = "MkFn1" -> [zx \in v[1] |-> B1(lam, zx)]
    [] op = "MkFn2" -> [zx \in v[1], zy \in v[2] |-> B2(lam, zx, zy)]
    [] op = "RecSet2" -> Force([a : v[1], b : v[2]])
    [] op = "FnSet" -> Force([v[1] -> v[2]])
    [] op = "SelectAll" -> v[1]                          \* the selected elements must cover the set
    [] op = "SelectOOR" -> v[1]

Bin(a, sym) == "(" \o a[1] \o " " \o sym \o " " \o a[2] \o ")"
RowTxt(op, lam, a) ==
  CASE op = "TRUE" -> "TRUE" [] op = "FALSE" -> "FALSE" [] op = "BOOLEAN" -> "BOOLEAN" [] op = "Zero" -> "0"
    [] op = "Assert" -> "Assert(" \o a[1] \o ", " \o a[2] \o ")"
    [] op = "ToString" -> a[1]
    [] op = "Eq" -> Bin(a, "=")          [] op = "Neq" -> Bin(a, "#")
    [] op = "Not" -> "(~" \o a[1] \o ")" [] op = "Equiv" -> Bin(a, "<=>")
    [] op = "Plus" -> Bin(a, "+")        [] op = "Minus" -> Bin(a, "-")
    [] op = "Times" -> Bin(a, "*")       [] op = "Exp" -> Bin(a, "^")
    [] op = "Le" -> Bin(a, "<=")         [] op = "Ge" -> Bin(a, ">=")
    [] op = "Lt" -> Bin(a, "<")          [] op = "Gt" -> Bin(a, ">")
    [] op = "DotDot" -> "{zx \\in " \o Bin(a, "..") \o " : TRUE}"
    [] op = "Div" -> Bin(a, "\\div")     [] op = "Mod" -> Bin(a, "%")
    [] op = "Neg" -> "(-" \o a[1] \o ")"
    [] op = "In" -> Bin(a, "\\in")       [] op = "NotIn" -> Bin(a, "\\notin")
    [] op = "Intersect" -> Bin(a, "\\cap") [] op = "Union" -> Bin(a, "\\cup")
    [] op = "SubsetEq" -> Bin(a, "\\subseteq") [] op = "SetMinus" -> Bin(a, "\\")
    [] op = "SUBSET" -> "(SUBSET " \o a[1] \o ")" [] op = "UNION" -> "(UNION " \o a[1] \o ")"
    [] op = "IsFiniteSet" -> "IsFiniteSet(" \o a[1] \o ")" [] op = "Cardinality" -> "Cardinality(" \o a[1] \o ")"
    [] op = "InSeq" -> "(" \o a[1] \o " \\in Seq(" \o a[2] \o "))"
    [] op = "Len" -> "Len(" \o a[1] \o ")" [] op = "Concat" -> Bin(a, "\\o")
    [] op = "Append" -> "Append(" \o a[1] \o ", " \o a[2] \o ")"
    [] op = "Head" -> "Head(" \o a[1] \o ")" [] op = "Tail" -> "Tail(" \o a[1] \o ")"
    [] op = "SubSeq" -> "SubSeq(" \o a[1] \o ", " \o a[2] \o ", " \o a[3] \o ")"
    [] op = "MapsTo" -> Bin(a, ":>")     [] op = "AtAt" -> Bin(a, "@@")
    [] op = "DOMAIN" -> "{zx \\in (DOMAIN " \o a[1] \o ") : TRUE}"
    [] op = "Apply" -> a[1] \o "[" \o a[2] \o "]"
    [] op = "Apply2" -> a[1] \o "[" \o a[2] \o ", " \o a[3] \o "]"
    [] op = "Except1" -> "[" \o a[1] \o " EXCEPT ![" \o a[2] \o "] = " \o A1Txt(lam) \o "]"
    [] op = "Except2" -> "[" \o a[1] \o " EXCEPT ![" \o a[2] \o "][" \o a[3] \o "] = " \o A1Txt(lam) \o "]"
    [] op = "ExceptTwo" -> "[" \o a[1] \o " EXCEPT ![" \o a[2] \o "] = " \o A1Txt(lam) \o ", ![" \o a[3] \o "] = " \o A1Txt(lam) \o "]"
    [] op = "ExceptT" -> "[" \o a[1] \o " EXCEPT ![" \o a[2] \o ", " \o a[3] \o "] = " \o A1Txt(lam) \o "]"
    [] op = "Forall1" -> "(\\A zx \\in " \o a[1] \o " : " \o P1Txt(lam, "zx") \o ")"
    [] op = "Exists1" -> "(\\E zx \\in " \o a[1] \o " : " \o P1Txt(lam, "zx") \o ")"
    [] op = "Forall2" -> "(\\A zx \\in " \o a[1] \o ", zy \\in " \o a[2] \o " : " \o P2Txt(lam, "zx", "zy") \o ")"
    [] op = "Exists2" -> "(\\E zx \\in " \o a[1] \o ", zy \\in " \o a[2] \o " : " \o P2Txt(lam, "zx", "zy") \o ")"
    [] op = "Refine" -> "{zx \\in " \o a[1] \o " : " \o P1Txt(lam, "zx") \o "}"
    [] op = "Compr1" -> "{" \o B1Txt(lam, "zx") \o " : zx \\in " \o a[1] \o "}"
    [] op = "Compr2" -> "{" \o B2Txt(lam, "zx", "zy") \o " : zx \\in " \o a[1] \o ", zy \\in " \o a[2] \o "}"
    [] op = "Cross2" -> "{zx \\in " \o Bin(a, "\\X") \o " : TRUE}"
    [] op = "Cross3" -> "{zx \\in (" \o a[1] \o " \\X " \o a[2] \o " \\X " \o a[3] \o ") : TRUE}"
    [] op = "Choose" -> "(CHOOSE zx \\in " \o a[1] \o " : " \o P1Txt(lam, "zx") \o ")"
    [] op = "ChooseAny" -> "{zx \\in " \o a[1] \o " : " \o P1Txt(lam, "zx") \o "}"
    [] op = "MkFn1" -> "[zx \\in " \o a[1] \o " |-> " \o B1Txt(lam, "zx") \o "]"
    [] op = "MkFn2" -> "[zx \\in " \o a[1] \o ", zy \\in " \o a[2] \o " |-> " \o B2Txt(lam, "zx", "zy") \o "]"
    [] op = "RecSet2" -> "{zx \\in [a : " \o a[1] \o ", b : " \o a[2] \o "] : TRUE}"
    [] op = "FnSet" -> "{zx \\in [" \o a[1] \o " -> " \o a[2] \o "] : TRUE}"
    [] op = "SelectAll" -> a[1]
    [] op = "SelectOOR" -> a[1]

(* ======================================================================== definedness *)
Abs(i) == IF i < 0 THEN -i ELSE i      \* never applied to MinInt
TimesOK(a, b) ==
  IF a = 0 \/ b = 0 THEN TRUE
  ELSE IF a = MinInt THEN b = 1 ELSE IF b = MinInt THEN a = 1
  ELSE IF (a > 0) = (b > 0) THEN Abs(a) <= MaxInt \div Abs(b)
  ELSE Abs(a) <= (IF Abs(b) = 1 THEN MaxInt ELSE ((MaxInt \div Abs(b)) + (IF (MaxInt % Abs(b)) + 1 = Abs(b) THEN 1 ELSE 0)))
RECURSIVE PowOK(_, _, _)
PowOK(a, b, acc) == IF b = 0 THEN TRUE ELSE TimesOK(acc, a) /\ PowOK(a, b - 1, acc * a)
IsSeqDom(f) == DOMAIN f = 1..Cardinality(DOMAIN f)

Def(op, lam, v) ==
  CASE op = "Assert" -> v[1]
    [] op = "Plus" -> IF v[2] >= 0 THEN v[1] <= MaxInt - v[2] ELSE v[1] >= MinInt - v[2]
    [] op = "Minus" -> IF v[2] >= 0 THEN v[1] >= MinInt + v[2] ELSE v[1] <= MaxInt + v[2]
    [] op = "Times" -> TimesOK(v[1], v[2])
    [] op = "Exp" -> v[2] >= 0 /\ ~(v[1] = 0 /\ v[2] = 0) /\ PowOK(v[1], v[2], 1)
    [] op = "Div" -> v[2] # 0 /\ ~(v[1] = MinInt /\ v[2] = -1)
    [] op = "Mod" -> v[2] > 0
    [] op = "Neg" -> v[1] # MinInt
    [] op \in {"Eq", "Neq"} ->   \* sets of different element kinds: TLC compares cardinalities first
         ~(Cardinality(v[1]) = Cardinality(v[2]) /\ v[1] # {})
    [] op \in {"In", "NotIn"} -> v[2] = {}
    [] op \in {"Intersect", "SetMinus", "SubsetEq"} -> v[1] = {} \/ v[2] = {}
    [] op = "Union" -> v[1] = {} \/ v[2] = {}
    [] op = "UNION" -> v[1] = {}
    [] op \in {"Head", "Tail"} -> v[1] # <<>>
    [] op = "Len" -> IsSeqDom(v[1])
    [] op = "SubSeq" -> v[2] > v[3] \/ (1 <= v[2] /\ v[3] <= Len(v[1]))
    [] op = "Apply" -> v[2] \in DOMAIN v[1]
    [] op = "Apply2" -> <<v[2], v[3]>> \in DOMAIN v[1]
    [] op = "Choose" -> Cardinality({zx \in v[1] : P1(lam, zx)}) = 1
    [] op \in {"Forall1", "Exists1", "Refine", "Compr1", "MkFn1"} -> v[1] = {}
    [] op \in {"Concat", "Append"} -> IsSeqDom(v[1])
    [] OTHER -> TRUE

(* rows that are not generated at all: CHOOSE with several witnesses is judged by ChooseAny (any   *)
(* witness, the same one for every insertion order), CHOOSE proper only with 0 or 1 witnesses      *)
Keep(op, lam, v) ==
  CASE op = "Choose" -> Cardinality({zx \in v[1] : P1(lam, zx)}) <= 1
    [] op = "ChooseAny" -> Cardinality({zx \in v[1] : P1(lam, zx)}) > 1
    [] OTHER -> TRUE

(* ======================================================================== families *)
F(op, lam, cls, args, mode, restr) ==
  [op |-> op, lam |-> lam, cls |-> cls, args |-> args, tuples |-> <<>>, mode |-> mode, restr |-> restr]
(* a family given by an explicit list of argument tuples instead of a cross product *)
FT(op, lam, cls, tuples, mode, restr) ==
  [op |-> op, lam |-> lam, cls |-> cls, args |-> <<>>, tuples |-> tuples, mode |-> mode, restr |-> restr]
Same(op, cls, L) == F(op, "", cls \o "," \o cls, <<L, L>>, "ok", "")

EqFams(op) == <<
  Same(op, "bool", Bools), Same(op, "int", Ints), Same(op, "str", Strs), Same(op, "set(int)", SetsI),
  Same(op, "set(str)", SetsS), Same(op, "tup(int)", TupsI), Same(op, "tup(str)", TupsS), Same(op, "fn(int,int)", FnsII),
  Same(op, "rec(int)", RecsI), Same(op, "set(set(int))", SetsSetI), Same(op, "set(tup(int))", SetsTupI),
  Same(op, "tup(set(int))", TupsSet), Same(op, "tup(tup(int))", TupsTup), Same(op, "fn(set,int)", FnsSetKey),
  Same(op, "fn(tup,int)", FnsTupKey), Same(op, "set(set(set(int)))", SetsSetSetI),
  \* a tuple and the function with domain 1..n are the same TLA+ value
  F(op, "", "tup,fn", <<TupsI, FnsII>>, "ok", ""), F(op, "", "fn,tup", <<FnsII, TupsI>>, "ok", ""),
  F(op, "", "set(tup),set(fn)", <<SetsTupI, SetsFn>>, "ok", ""),
  \* values of different kinds: TLC reports an error
  F(op, "", "int,str", <<Ints, Strs>>, "err", ""), F(op, "", "bool,int", <<Bools, IntsSmall>>, "err", ""),
  F(op, "", "str,bool", <<Strs, Bools>>, "err", ""), F(op, "", "set,tup", <<SetsI, TupsI>>, "err", ""),
  F(op, "", "int,set", <<IntsSmall, SetsI>>, "err", ""), F(op, "", "str,tup", <<Strs, TupsS>>, "err", ""),
  F(op, "", "set(int),set(str)", <<SetsI, SetsS>>, "part", "") >>

ArithFams(op) == <<
  F(op, "", "int,int", <<Ints, Ints>>, "part", ""),
  F(op, "", "int,str", <<IntsSmall, Strs>>, "err", ""), F(op, "", "bool,int", <<Bools, IntsSmall>>, "err", ""),
  F(op, "", "set,int", <<SetsISmall, IntsSmall>>, "err", "") >>
ExpInts == MapSeq(TI, <<-2, -1, 0, 1, 2, 3, 5, 30, 31, 32>>)
CmpFams(op) == <<
  F(op, "", "int,int", <<Ints, Ints>>, "ok", ""),
  F(op, "", "int,str", <<IntsSmall, Strs>>, "err", ""), F(op, "", "tup,int", <<TupsI, IntsSmall>>, "err", "") >>
InFams(op) == <<
  F(op, "", "int,set(int)", <<Ints, SetsI>>, "ok", ""), F(op, "", "str,set(str)", <<Strs, SetsS>>, "ok", ""),
  F(op, "", "bool,set(bool)", <<Bools, SetsB>>, "ok", ""), F(op, "", "set(int),set(set(int))", <<SetsI, SetsSetI>>, "ok", ""),
  F(op, "", "tup,set(tup)", <<TupsI, SetsTupI>>, "ok", ""), F(op, "", "fn,set(tup)", <<FnsII, SetsTupI>>, "ok", ""),
  F(op, "", "tup,set(fn)", <<TupsI, SetsFn>>, "ok", ""), F(op, "", "rec,set(rec)", <<RecsI, SetsRec>>, "ok", ""),
  F(op, "", "set(set(int)),set(set(set(int)))", <<SetsSetI, SetsSetSetI>>, "ok", ""),
  F(op, "", "int,set(str)", <<IntsSmall, SetsS>>, "part", ""), F(op, "", "str,set(int)", <<Strs, SetsISmall>>, "part", ""),
  F(op, "", "int,int", <<IntsSmall, IntsSmall>>, "err", ""), F(op, "", "int,tup", <<IntsSmall, TupsI>>, "err", ""),
  F(op, "", "int,fn", <<IntsSmall, FnsII>>, "err", "") >>
SetBinFams(op) == <<
  Same(op, "set(int)", SetsI), Same(op, "set(str)", SetsS), Same(op, "set(set(int))", SetsSetI),
  F(op, "", "set(tup),set(fn)", <<SetsTupI, SetsFn>>, "ok", ""), F(op, "", "set(fn),set(tup)", <<SetsFn, SetsTupI>>, "ok", ""),
  F(op, "", "set(int),set(str)", <<SetsISmall, SetsS>>, "part", ""),
  F(op, "", "set,int", <<SetsISmall, IntsSmall>>, "err", ""), F(op, "", "int,set", <<IntsSmall, SetsISmall>>, "err", ""),
  F(op, "", "set,tup", <<SetsISmall, TupsI>>, "err", "") >>
Un(op, cls, L, mode, restr) == F(op, "", cls, <<L>>, mode, restr)
QLams1 == <<"true", "false", "gt1", "even", "in12", "eq2">>
QuantFams(op) ==
  [zi \in 1..Len(QLams1) |-> F(op, QLams1[zi], "set(int)", <<SetsI>>, "ok", "")] \o
  << F(op, "card1", "set(set(int))", <<SetsSetI>>, "ok", ""), F(op, "len2", "set(tup)", <<SetsTupI>>, "ok", ""),
     F(op, "isa", "set(str)", <<SetsS>>, "ok", ""), F(op, "true", "set(str)", <<SetsS>>, "ok", ""),
     F(op, "gt1", "set(str)", <<SetsS>>, "part", ""), F(op, "card1", "set(int)", <<SetsISmall>>, "part", ""),
     F(op, "true", "int", <<IntsSmall>>, "err", ""), F(op, "true", "tup", <<TupsI>>, "err", "") >>
Quant2Fams(op) == <<
  F(op, "lt", "set(int),set(int)", <<SetsI, SetsI>>, "ok", ""), F(op, "sum3", "set(int),set(int)", <<Take(SetsI, 10), Take(SetsI, 10)>>, "ok", ""),
  F(op, "neq", "set(str),set(str)", <<SetsS, SetsS>>, "ok", ""),
  F(op, "lt", "set,int", <<SetsISmall, IntsSmall>>, "err", "") >>
B1Lams == <<"inc", "pair", "sing", "mod2", "id", "const7">>
Body1Fams(op) ==
  [zi \in 1..Len(B1Lams) |-> F(op, B1Lams[zi], "set(int)", <<Take(SetsI, 10) \o <<SI(<<1, 2, 3, 4>>)>> >>, "ok", "")] \o
  << F(op, "sing", "set(set(int))", <<SetsSetI>>, "ok", ""), F(op, "pair", "set(str)", <<SetsS>>, "ok", ""),
     F(op, "id", "set(tup)", <<SetsTupI>>, "ok", ""), F(op, "inc", "set(str)", <<SetsS>>, "part", ""),
     F(op, "id", "int", <<IntsSmall>>, "err", ""), F(op, "id", "tup", <<TupsI>>, "err", "") >>
Body2Fams(op) == <<
  F(op, "add", "set(int),set(int)", <<Take(SetsI, 10), Take(SetsI, 10)>>, "ok", ""),
  F(op, "tup", "set(int),set(str)", <<Take(SetsI, 10), SetsS>>, "ok", ""),
  F(op, "tup", "set,int", <<SetsISmall, IntsSmall>>, "err", "") >>
SeqLike == TupsI \o TupsS \o TupsM \o TupsSet \o TupsTup \o TupsDeep
A1Lams == <<"set9", "inc", "id">>

Families == FlatSeq(<<
  << F("TRUE", "", "", <<>>, "ok", ""), F("FALSE", "", "", <<>>, "ok", ""), F("BOOLEAN", "", "", <<>>, "ok", ""),
     F("Zero", "", "", <<>>, "ok", ""),
     F("Assert", "", "bool,str", <<Bools, Strs>>, "part", ""), F("Assert", "", "int,str", <<IntsSmall, Strs>>, "err", ""),
     Un("Not", "bool", Bools, "ok", ""), Un("Not", "int", IntsSmall, "err", ""), Un("Not", "str", Strs, "err", ""),
     Un("Not", "set", SetsISmall, "err", ""),
     Same("Equiv", "bool", Bools), F("Equiv", "", "bool,int", <<Bools, IntsSmall>>, "err", ""),
     F("Equiv", "", "int,int", <<IntsSmall, IntsSmall>>, "err", "") >>,
  EqFams("Eq"), EqFams("Neq"),
  ArithFams("Plus"), ArithFams("Minus"), ArithFams("Times"), ArithFams("Div"), ArithFams("Mod"),
  << F("Exp", "", "int,int", <<Ints, ExpInts>>, "part", ""), F("Exp", "", "int,str", <<IntsSmall, Strs>>, "err", ""),
     Un("Neg", "int", Ints, "part", ""), Un("Neg", "str", Strs, "err", ""), Un("Neg", "bool", Bools, "err", ""),
     Un("Neg", "set", SetsISmall, "err", "") >>,
  CmpFams("Le"), CmpFams("Ge"), CmpFams("Lt"), CmpFams("Gt"),
  << F("DotDot", "", "int,int", <<IntsSmall, IntsSmall>>, "ok", ""),
     \* (an interval whose upper bound is MaxInt cannot be enumerated by TLC itself, so it is not in the table)
     FT("DotDot", "", "int,int(edge)", << <<TI(MaxInt), TI(MaxInt - 1)>>, <<TI(MinInt), TI(MinInt + 1)>>, <<TI(MinInt), TI(MinInt)>>,
            <<TI(MaxInt), TI(MinInt)>>, <<TI(MaxInt - 3), TI(MaxInt - 1)>>, <<TI(3), TI(MinInt)>> >>, "ok", ""),
     F("DotDot", "", "int,str", <<IntsSmall, Strs>>, "err", ""), F("DotDot", "", "set,int", <<SetsISmall, IntsSmall>>, "err", "") >>,
  InFams("In"), InFams("NotIn"),
  SetBinFams("Intersect"), SetBinFams("Union"), SetBinFams("SubsetEq"), SetBinFams("SetMinus"),
  << Un("SUBSET", "set(int)", SetsI, "ok", ""), Un("SUBSET", "set(str)", SetsS, "ok", ""),
     Un("SUBSET", "set(set(int))", SetsSetI, "ok", ""), Un("SUBSET", "set(tup)", SetsTupI, "ok", ""),
     Un("SUBSET", "int", IntsSmall, "err", ""), Un("SUBSET", "tup", TupsI, "err", ""), Un("SUBSET", "fn", FnsII, "err", ""),
     Un("UNION", "set(set(int))", SetsSetI, "ok", ""), Un("UNION", "set(set(set(int)))", SetsSetSetI, "ok", ""),
     Un("UNION", "set(int)", SetsI, "part", ""), Un("UNION", "set(tup)", Tail(SetsTupI), "err", ""),
     Un("UNION", "int", IntsSmall, "err", ""),
     Un("IsFiniteSet", "set(int)", SetsI, "ok", ""), Un("IsFiniteSet", "set(set(int))", SetsSetI, "ok", ""),
     Un("IsFiniteSet", "int", IntsSmall, "err", ""), Un("IsFiniteSet", "tup", TupsI, "err", ""),
     Un("Cardinality", "set(int)", SetsI, "ok", ""), Un("Cardinality", "set(str)", SetsS, "ok", ""),
     Un("Cardinality", "set(set(int))", SetsSetI, "ok", ""), Un("Cardinality", "set(tup)", SetsTupI, "ok", ""),
     Un("Cardinality", "int", IntsSmall, "err", ""), Un("Cardinality", "tup", TupsI, "err", ""),
     Un("Cardinality", "fn", FnsII, "err", ""),
     F("InSeq", "", "tup,set(int)", <<TupsI, SetsI>>, "ok", ""), F("InSeq", "", "tup(str),set(str)", <<TupsS, SetsS>>, "ok", ""),
     Un("Len", "tup", SeqLike, "ok", ""), Un("Len", "fn", FnsII, "part", "seqfn"), Un("Len", "int", IntsSmall, "err", ""),
     Un("Len", "set", SetsISmall, "err", ""), Un("Len", "rec", RecsI, "err", ""),
     F("Concat", "", "tup,tup", <<SeqLike, Take(SeqLike, 12)>>, "ok", ""),
     F("Concat", "", "fn,tup", <<FnsII, Take(TupsI, 4)>>, "part", "seqfn"),
     F("Concat", "", "tup,fn", <<Take(TupsI, 4), Fns1N>>, "ok", "seqfn"),
     F("Concat", "", "tup,int", <<TupsI, IntsSmall>>, "err", ""), F("Concat", "", "set,tup", <<SetsISmall, TupsI>>, "err", ""),
     F("Append", "", "tup,int", <<SeqLike, IntsSmall>>, "ok", ""), F("Append", "", "tup,str", <<TupsI \o TupsS, Strs>>, "ok", ""),
     F("Append", "", "tup,set", <<TupsS, SetsISmall>>, "ok", ""), F("Append", "", "fn,int", <<FnsII, Take(IntsSmall, 2)>>, "part", "seqfn"),
     F("Append", "", "int,int", <<IntsSmall, IntsSmall>>, "err", ""), F("Append", "", "set,int", <<SetsISmall, IntsSmall>>, "err", ""),
     Un("Head", "tup", SeqLike, "part", ""), Un("Head", "fn", Take(Fns1N, 4), "ok", "seqfn"), Un("Head", "int", IntsSmall, "err", ""),
     Un("Head", "set", SetsISmall, "err", ""),
     Un("Tail", "tup", SeqLike, "part", ""), Un("Tail", "fn", Take(Fns1N, 4), "ok", "seqfn"), Un("Tail", "int", IntsSmall, "err", ""),
     Un("Tail", "set", SetsISmall, "err", ""),
     F("SubSeq", "", "tup,int,int", <<TupsI \o TupsS, IdxInts, IdxInts>>, "part", ""),
     F("SubSeq", "", "tup,str,int", <<Take(TupsI, 3), Strs, Take(IdxInts, 3)>>, "err", ""),
     F("SubSeq", "", "set,int,int", <<Take(SetsI, 3), Take(IdxInts, 3), Take(IdxInts, 3)>>, "err", ""),
     F("MapsTo", "", "int,int", <<IntsSmall, IntsSmall>>, "ok", ""), F("MapsTo", "", "str,set", <<Strs, SetsISmall>>, "ok", ""),
     F("MapsTo", "", "set,tup", <<SetsISmall, TupsI>>, "ok", ""), F("MapsTo", "", "tup,bool", <<TupsI, Bools>>, "ok", ""),
     F("AtAt", "", "fn,fn", <<FnsII, FnsII>>, "ok", ""), F("AtAt", "", "rec,rec", <<RecsI \o RecsM, RecsI \o RecsM>>, "ok", ""),
     F("AtAt", "", "fn(set),fn(set)", <<FnsSetKey, FnsSetKey>>, "ok", ""),
     F("AtAt", "", "tup,fn", <<Take(TupsI, 6), Fns1N>>, "ok", "seqfn"), F("AtAt", "", "tup,tup", <<TupsI, TupsI>>, "ok", "seqfn"),
     F("AtAt", "", "fn,int", <<FnsII, IntsSmall>>, "err", ""), F("AtAt", "", "set,fn", <<SetsISmall, FnsII>>, "err", ""),
     Un("DOMAIN", "fn", FnsII, "ok", ""), Un("DOMAIN", "rec", RecsI \o RecsM, "ok", ""), Un("DOMAIN", "fn(set)", FnsSetKey, "ok", ""),
     Un("DOMAIN", "fn(tup)", FnsTupKey, "ok", ""), Un("DOMAIN", "fn(bool)", FnsBI, "ok", ""), Un("DOMAIN", "tup", SeqLike, "ok", "seqfn"),
     Un("DOMAIN", "int", IntsSmall, "err", ""), Un("DOMAIN", "set", SetsISmall, "err", ""), Un("DOMAIN", "str", Strs, "err", ""),
     F("Apply", "", "fn,int", <<FnsII, IdxInts>>, "part", ""), F("Apply", "", "tup,int", <<SeqLike, IdxInts>>, "part", ""),
     F("Apply", "", "rec,str", <<RecsI \o RecsM, Strs>>, "part", ""), F("Apply", "", "fn(set),set", <<FnsSetKey, SetsI>>, "part", ""),
     F("Apply", "", "fn(tup),tup", <<FnsTupKey, TupsI>>, "part", ""), F("Apply", "", "fn(bool),bool", <<FnsBI, Bools>>, "ok", ""),
     F("Apply", "", "fn(fn),int", <<FnsFn, IdxInts>>, "part", ""),
     F("Apply", "", "fn(tup),fn", <<FnsTupKey, FnsII>>, "part", "seqfn"),
     F("Apply", "", "int,int", <<IntsSmall, IntsSmall>>, "err", ""), F("Apply", "", "set,int", <<SetsISmall, IntsSmall>>, "err", ""),
     F("Apply", "", "tup,str", <<Tail(TupsI), Strs>>, "err", ""),
     F("Apply2", "", "fn(tup),int,int", <<FnsTupKey, Take(IdxInts, 4), Take(IdxInts, 4)>>, "part", "") >>,
  [zi \in 1..Len(A1Lams) |-> F("Except1", A1Lams[zi], "fn,int", <<FnsII, IdxInts>>, "ok", "except")],
  [zi \in 1..Len(A1Lams) |-> F("Except1", A1Lams[zi], "tup,int", <<TupsI, IdxInts>>, "ok", "except")],
  << F("Except1", "set9", "rec,str", <<RecsI \o RecsM, Strs>>, "ok", "except"),
     F("Except1", "inc", "rec,str", <<RecsI, Strs>>, "ok", "except"),
     F("Except1", "app0", "fn(tup),int", <<<<FnsFn[2]>>, Take(IdxInts, 5)>>, "ok", "except"),
     F("Except1", "set9", "fn(set),set", <<FnsSetKey, SetsISmall>>, "ok", "except"),
     F("Except1", "set9", "fn(tup),tup", <<FnsTupKey, TupsI>>, "ok", "except"),
     F("Except1", "set9", "int,int", <<IntsSmall, IntsSmall>>, "err", ""), F("Except1", "set9", "set,int", <<SetsISmall, IntsSmall>>, "err", ""),
     F("Except2", "set9", "fn(fn),int,int", <<FnsFn, Take(IdxInts, 5), Take(IdxInts, 5)>>, "ok", "except"),
     F("Except2", "inc", "fn(fn),int,int", <<FnsFn, Take(IdxInts, 5), Take(IdxInts, 5)>>, "ok", "except"),
     F("Except2", "set9", "tup(tup),int,int", <<TupsTup, Take(IdxInts, 5), Take(IdxInts, 5)>>, "ok", "except"),
     F("Except2", "set9", "rec(rec),str,str", <<RecsNest, Strs, Strs>>, "ok", "except"),
     F("ExceptTwo", "set9", "fn,int,int", <<FnsII, Take(IdxInts, 5), Take(IdxInts, 5)>>, "ok", "except"),
     F("ExceptTwo", "inc", "fn,int,int", <<FnsII, Take(IdxInts, 5), Take(IdxInts, 5)>>, "ok", "except"),
     F("ExceptTwo", "inc", "tup,int,int", <<TupsI, Take(IdxInts, 5), Take(IdxInts, 5)>>, "ok", "except"),
     F("ExceptT", "set9", "fn(tup),int,int", <<FnsTupKey, Take(IdxInts, 4), Take(IdxInts, 4)>>, "ok", "except") >>,
  QuantFams("Forall1"), QuantFams("Exists1"), QuantFams("Refine"),
  Quant2Fams("Forall2"), Quant2Fams("Exists2"),
  Body1Fams("Compr1"), Body1Fams("MkFn1"), Body2Fams("Compr2"), Body2Fams("MkFn2"),
  << F("Cross2", "", "set(int),set(int)", <<Take(SetsI, 10), Take(SetsI, 10)>>, "ok", ""),
     F("Cross2", "", "set(int),set(str)", <<SetsI, SetsS>>, "ok", ""), F("Cross2", "", "set(set),set(tup)", <<SetsSetI, SetsTupI>>, "ok", ""),
     F("Cross3", "", "set(bool),set(int),set(str)", <<SetsB, Take(SetsI, 7), SetsS>>, "ok", ""),
     F("Cross2", "", "int,set", <<IntsSmall, SetsISmall>>, "err", ""), F("Cross2", "", "set,tup", <<SetsISmall, TupsI>>, "err", "") >>,
  [zi \in 1..Len(QLams1) |-> F("Choose", QLams1[zi], "set(int)", <<SetsI>>, "part", "")],
  [zi \in 1..Len(QLams1) |-> F("ChooseAny", QLams1[zi], "set(int)", <<SetsI>>, "part", "")],
  << F("Choose", "card1", "set(set(int))", <<SetsSetI>>, "part", ""), F("Choose", "len2", "set(tup)", <<SetsTupI>>, "part", ""),
     F("Choose", "isa", "set(str)", <<SetsS>>, "part", ""), F("ChooseAny", "true", "set(str)", <<SetsS>>, "part", ""),
     F("ChooseAny", "true", "set(set(int))", <<SetsSetI>>, "part", ""), F("ChooseAny", "true", "set(tup)", <<SetsTupI>>, "part", ""),
     F("Choose", "true", "int", <<IntsSmall>>, "err", ""), F("Choose", "true", "tup", <<TupsI>>, "err", ""),
     F("RecSet2", "", "set(int),set(str)", <<Take(SetsI, 10), SetsS>>, "ok", ""), F("RecSet2", "", "set(set),set(tup)", <<SetsSetI, SetsTupI>>, "ok", ""),
     F("RecSet2", "", "int,set", <<IntsSmall, SetsISmall>>, "err", ""), F("RecSet2", "", "set,tup", <<SetsISmall, TupsI>>, "err", ""),
     F("FnSet", "", "set(int),set(int)", <<Take(SetsI, 7), Take(SetsI, 7)>>, "ok", ""), F("FnSet", "", "set(str),set(bool)", <<SetsS, SetsB>>, "ok", ""),
     F("FnSet", "", "set(int),set(set(int))", <<Take(SetsI, 4), Take(SetsSetI, 5)>>, "ok", ""),
     F("FnSet", "", "int,set", <<IntsSmall, SetsISmall>>, "err", ""), F("FnSet", "", "set,tup", <<SetsISmall, TupsI>>, "err", ""),
     Un("SelectAll", "set(int)", SetsI, "ok", ""), Un("SelectAll", "set(str)", SetsS, "ok", ""), Un("SelectAll", "set(set(int))", SetsSetI, "ok", ""),
     Un("SelectAll", "set(tup)", SetsTupI, "ok", ""), Un("SelectOOR", "set(int)", SetsI, "err", ""), Un("SelectOOR", "int", IntsSmall, "err", ""),
     Un("ToString", "bool", Bools, "ok", ""), Un("ToString", "int", Ints, "ok", ""), Un("ToString", "str", Strs, "ok", ""),
     Un("ToString", "set(int)", SetsI, "ok", ""), Un("ToString", "tup", SeqLike, "ok", ""), Un("ToString", "fn", FnsII, "ok", ""),
     Un("ToString", "rec", RecsI \o RecsM, "ok", ""), Un("ToString", "set(set(int))", SetsSetI, "ok", ""),
     Un("ToString", "fn(set)", FnsSetKey \o FnsTupKey \o FnsFn, "ok", "") >>
>>)

(* ======================================================================== rows *)
ArgTuples(ar) ==
  IF Len(ar) = 0 THEN << <<>> >>
  ELSE IF Len(ar) = 1 THEN [zk \in 1..Len(ar[1]) |-> <<ar[1][zk]>>]
  ELSE IF Len(ar) = 2 THEN
       [zk \in 1..(Len(ar[1]) * Len(ar[2])) |->
          <<ar[1][((zk - 1) \div Len(ar[2])) + 1], ar[2][((zk - 1) % Len(ar[2])) + 1]>>]
  ELSE [zk \in 1..(Len(ar[1]) * Len(ar[2]) * Len(ar[3])) |->
          <<ar[1][((zk - 1) \div (Len(ar[2]) * Len(ar[3]))) + 1],
            ar[2][(((zk - 1) \div Len(ar[3])) % Len(ar[2])) + 1],
            ar[3][((zk - 1) % Len(ar[3])) + 1]>>]

(* ChooseAny rows carry the same set under three insertion orders: CHOOSE depends on the value only *)
RowArgs(f, tup) == IF f.op = "ChooseAny" THEN <<tup[1], RevDeep(tup[1]), Rot(tup[1])>> ELSE tup

RowsOfFam(zf) ==
  LET f == Families[zf]
      tups == IF Len(f.tuples) > 0 THEN f.tuples ELSE ArgTuples(f.args)
      all == [zk \in 1..Len(tups) |->
               LET vals == [zi \in 1..Len(tups[zk]) |-> Val(tups[zk][zi])] IN
               [fam |-> zf, op |-> f.op, lam |-> f.lam, cls |-> f.cls, restr |-> f.restr, mode |-> f.mode,
                args |-> RowArgs(f, tups[zk]),
                keep |-> IF f.op \in {"Choose", "ChooseAny"} /\ f.mode = "part" THEN Keep(f.op, f.lam, vals) ELSE TRUE,
                def |-> IF f.mode = "ok" THEN TRUE ELSE IF f.mode = "err" THEN FALSE
                        ELSE IF f.op = "ChooseAny" THEN TRUE ELSE Def(f.op, f.lam, vals)]]
  IN SelectSeq(all, LAMBDA r : r.keep)

FamLast == IF FamHi = 0 THEN Len(Families) ELSE FamHi
Rows == FlatSeq([zk \in 1..(FamLast - FamLo + 1) |-> RowsOfFam(FamLo + zk - 1)])
NRows == Len(Rows)

TxtOf(r) == RowTxt(r.op, r.lam, [zi \in 1..Len(r.args) |-> Txt(r.args[zi])])   \* TLA+ source text of the row
RowVals(r) == [zi \in 1..Len(r.args) |-> Val(r.args[zi])]
Expected(zi) == Apply(Rows[zi].op, Rows[zi].lam, RowVals(Rows[zi]))

(* design-level run: every defined row is evaluated by TLC (an evaluation error here means the    *)
(* Def predicate is wrong and aborts the run), and the table is exported for the Go driver.        *)
(* Printed form of a value.  TLC prints a function in the order its domain happens to be stored;   *)
(* comparing a value with itself makes TLC normalise it (deeply, in place), after which equal      *)
(* values print equally -- PrintCanonical below checks exactly that on the whole table.             *)
NStr(v) == IF v = v THEN ToString(v) ELSE "?"
ExpStr == [zi \in 1..NRows |-> IF Rows[zi].def THEN NStr(Expected(zi)) ELSE "ERR"]
Export ==
  /\ ndJsonSerialize("rows.ndjson",
        [zi \in 1..NRows |-> [id |-> zi, fam |-> Rows[zi].fam, op |-> Rows[zi].op, lam |-> Rows[zi].lam, cls |-> Rows[zi].cls,
                              restr |-> Rows[zi].restr, mode |-> Rows[zi].mode, def |-> Rows[zi].def,
                              args |-> Rows[zi].args, txt |-> TxtOf(Rows[zi]), exp |-> ExpStr[zi]]])
  /\ PrintT(<<"C03 rows", NRows, "families", Len(Families)>>)

(* The design-level model: one initial state per row.  On every defined row of an operator whose *)
(* results are of one kind per family, TLC checks that printing is canonical inside a TLC process: *)
(* two results print equally iff TLC's = says they are equal.  The judge (OpsJudge) relies on      *)
(* exactly this when it compares the printed form of the library's result with TLC's.              *)
CanonOps == {"TRUE", "FALSE", "BOOLEAN", "Zero", "Eq", "Neq", "Not", "Equiv", "Plus", "Minus", "Times", "Exp",
             "Le", "Ge", "Lt", "Gt", "DotDot", "Div", "Mod", "Neg", "In", "NotIn", "Intersect", "Union",
             "SubsetEq", "SetMinus", "SUBSET", "UNION", "IsFiniteSet", "Cardinality", "InSeq", "Len", "DOMAIN",
             "Forall1", "Exists1", "Forall2", "Exists2", "Refine", "Compr1", "Compr2", "Cross2", "Cross3",
             "MkFn1", "MkFn2", "RecSet2", "FnSet", "AtAt", "MapsTo"}
MinN(a, b) == IF a < b THEN a ELSE b
VARIABLE row
OInit == row \in 1..NRows
ONext == UNCHANGED row
PrintCanonical ==
  (Rows[row].def /\ Rows[row].op \in CanonOps /\ Rows[row].cls \notin {"set(int),set(str)", "rec,rec"}) =>
     \A zj \in (row + 1)..MinN(row + 24, NRows) :
        (Rows[zj].fam = Rows[row].fam /\ Rows[zj].def) =>
           ((ExpStr[row] = ExpStr[zj]) <=> (Expected(row) = Expected(zj)))
(* a defined row has a value (forces the evaluation; an error aborts TLC = wrong Def predicate) *)
DefinedHasValue == Rows[row].def => ExpStr[row] # "ERR"
=============================================================================
