------------------------------ MODULE MCOpsOracle ------------------------------
(* design-level run of OpsOracle: evaluates every defined row, exports rows.ndjson *)
EXTENDS OpsOracle
ASSUME Export
=============================================================================
