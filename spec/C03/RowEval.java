import java.io.BufferedReader;
import java.io.InputStreamReader;
import java.io.PrintStream;

import tla2sany.semantic.FormalParamNode;
import tla2sany.semantic.ModuleNode;
import tla2sany.semantic.OpDefNode;
import tlc2.tool.TLCState;
import tlc2.tool.impl.FastTool;
import tlc2.util.Context;
import tlc2.value.IValue;
import tlc2.value.impl.IntValue;
import util.SimpleFilenameToStream;
import util.ToolIO;

/**
 * RowEval <dir> <module> <operator>: loads the module with TLC (tla2tools.jar) once and evaluates
 * operator(i) with TLC's evaluator for every integer i read from stdin, catching TLC's evaluation
 * errors per row. Output, one line per row: "R <i> VALUE <printed value>" or "R <i> ERROR <message>".
 */
public class RowEval {
    public static void main(String[] args) throws Exception {
        final String dir = args[0], module = args[1], opName = args[2];
        final PrintStream out = System.out;
        ToolIO.setMode(ToolIO.TOOL);
        ToolIO.reset();
        final FastTool tool = new FastTool(module, module, new SimpleFilenameToStream(dir));
        final ModuleNode root = tool.getSpecProcessor().getRootModule();
        final OpDefNode def = root.getOpDef(opName);
        if (def == null) {
            out.println("FATAL no operator " + opName);
            System.exit(2);
        }
        final FormalParamNode[] ps = def.getParams();
        final BufferedReader in = new BufferedReader(new InputStreamReader(System.in));
        final Thread t = new Thread(null, () -> {
            try {
                String line;
                out.println("READY");
                while ((line = in.readLine()) != null) {
                    line = line.trim();
                    if (line.isEmpty()) continue;
                    final int i = Integer.parseInt(line);
                    try {
                        final Context c = Context.Empty.cons(ps[0], IntValue.gen(i));
                        final IValue v = tool.eval(def.getBody(), c, TLCState.Empty);
                        out.println("R " + i + " VALUE " + String.valueOf(v).replace('\n', ' '));
                    } catch (Throwable e) {
                        String m = String.valueOf(e.getMessage());
                        out.println("R " + i + " ERROR " + e.getClass().getSimpleName() + ": " + m.replace('\n', ' '));
                    }
                }
                out.println("DONE");
                out.flush();
            } catch (Throwable e) {
                out.println("FATAL " + e);
            }
        }, "roweval", 1L << 29);
        t.start();
        t.join();
        System.exit(0);
    }
}
