CONSTANTS
  Tier = "quick"
  Seed = 1
  Start = 1
INIT JInit
NEXT JNext
CHECK_DEADLOCK FALSE
