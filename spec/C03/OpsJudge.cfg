CONSTANTS
  Tier = "quick"
  Seed = 1
  FamLo = 1
  FamHi = 0
  Start = 1
INIT JInit
NEXT JNext
CHECK_DEADLOCK FALSE
