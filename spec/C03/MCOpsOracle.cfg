CONSTANTS
  Tier = "quick"
  Seed = 1
INIT OInit
NEXT ONext
INVARIANTS PrintCanonical DefinedHasValue
CHECK_DEADLOCK FALSE
