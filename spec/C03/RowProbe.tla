------------------------------ MODULE RowProbe ------------------------------
(* Evaluated row by row, inside one TLC process, by RowEval.java: an evaluation error of TLC is   *)
(* caught per row, so "TLC reports an error on this row" is established by TLC's own evaluator    *)
(* on the very expression of the table (Apply on the row's values), for every predicted-error row.*)
EXTENDS OpsOracle
Probe(zi) == NStr(Expected(zi))
=============================================================================
