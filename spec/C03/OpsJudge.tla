------------------------------ MODULE OpsJudge ------------------------------
(* C03 verdicts.  Reads what the real library did on every row (go.ndjson, written by the     *)
(* Go driver c03drv; the printed results are the definitions G<id> of the generated module     *)
(* GoResults) and states the property per row:                                                  *)
(*   - where TLC has a value the library returns the same value (AGREE), or fails loudly with   *)
(*     a TLA+ type error and the row falls under one of the two documented restrictions         *)
(*     (LOUD_RESTRICTION);                                                                      *)
(*   - where TLC reports an error the library fails loudly with a TLA+ type error (BOTH_LOUD);   *)
(*   - it never hangs.                                                                          *)
(* Values are compared through their printed forms *inside this TLC process* (TLC evaluates the *)
(* text the library result was printed as, and prints both sides itself): comparing strings      *)
(* never raises TLC's "values of different kinds" error, and OpsOracle!PrintCanonical shows the  *)
(* printed form is canonical.  One state per judged row; the verdict of each row is printed.     *)
EXTENDS OpsOracle, GoResults

CONSTANT Start          \* first entry of go.ndjson to judge (resume after an unevaluable result)

GoRes == ndJsonDeserialize("go.ndjson")

Match(r, id) ==
  CASE r.op = "ChooseAny" ->       \* every reported choice is a witness
         LET g == Got(id) ws == {NStr(zw) : zw \in Apply(r.op, r.lam, RowVals(r))} IN
         Len(g) = 3 /\ \A zj \in 1..3 : NStr(g[zj]) \in ws
    [] r.op = "SelectAll" ->       \* indices 0..n-1 select n different members
         LET g == Got(id) e == Apply(r.op, r.lam, RowVals(r)) IN
         Len(g) = Cardinality(e) /\ {NStr(g[zj]) : zj \in 1..Len(g)} = {NStr(zx) : zx \in e}
    [] OTHER -> NStr(Got(id)) = NStr(Apply(r.op, r.lam, RowVals(r)))
(* CHOOSE is a function of the set: the same witness whatever the insertion order of the set *)
ChooseStable(id) == LET g == Got(id) IN \A zj \in 1..3 : NStr(g[zj]) = NStr(g[1])

Verdict(k) ==
  LET g == GoRes[k] r == Rows[g.id] IN
  IF g.out = "hang" THEN "HANG"
  ELSE IF g.out = "unsupported" THEN "UNSUPPORTED"
  ELSE IF r.def THEN
         IF g.out = "value" THEN (IF ~Match(r, g.id) THEN "WRONG_VALUE"
                                  ELSE IF r.op = "ChooseAny" /\ ~ChooseStable(g.id) THEN "CHOOSE_ORDER_DEPENDENT"
                                  ELSE "AGREE")
         ELSE IF g.out = "tlaerr" THEN (IF r.restr # "" THEN "LOUD_RESTRICTION" ELSE "LOUD_WHERE_VALUE")
         ELSE "PANIC_WHERE_VALUE"
  ELSE IF g.out = "value" THEN "VALUE_WHERE_ERROR"
       ELSE IF g.out = "tlaerr" THEN "BOTH_LOUD" ELSE "PANIC_NOT_TLA_ERROR"

(* the property, per judged row *)
Holds(k) == Verdict(k) \in {"AGREE", "LOUD_RESTRICTION", "BOTH_LOUD"}

VARIABLE l
JInit == l = Start /\ row = 0
JNext == /\ l <= Len(GoRes)
         /\ PrintT(<<"V", GoRes[l].id, Verdict(l)>>)
         /\ l' = l + 1 /\ UNCHANGED row
=============================================================================
