CONSTANTS
  defaultInitValue = defaultInitValue
  ExploreFail = FALSE
  Debug = FALSE
  NumServers = 3
  NumClients = 1
  BufferSize = 3
  MaxTerm = 7
  MaxCommitIndex = 3
  MaxNodeFail = 0
  LogConcat = 2
  LogPop = 1
  LeaderTimeoutReset = TRUE
  NumRequests = 1
  AllStrings = {"s1", "s2"}
CONSTRAINT MCConstraint
INIT FInit
NEXT FNext
CHECK_DEADLOCK FALSE
