import sys, os, re, subprocess, json
sys.path.insert(0, '/verif/lib')
import tracegen as T
os.chdir('/tmp/build/co/goal')
def fields(state):
    # state: "[v1 |-> e1, v2 |-> e2, ...]" -> list of (name, expr) split at top level
    import importlib.util
    spec = importlib.util.spec_from_file_location("c08", "/verif/checks/C08.py"); c08 = importlib.util.module_from_spec(spec); spec.loader.exec_module(c08)
    out = []
    for f in c08._split_fields(state[1:-1]):
        k, v = f.split(" |-> ", 1)
        out.append((k, v))
    return out
def run_stage(k, goal, prev_out, depth=200, seed=1, timeout=600):
    behs = T.parse_tlc_states(open(prev_out).read())
    last = behs[-1]["state"]
    init = " /\\ ".join("%s = %s" % (n, e) for n, e in fields(last))
    open("RaftStage%d.tla" % k, "w").write("---- MODULE RaftStage%d ----\nEXTENDS RaftGoals\nSInit == %s\n====\n" % (k, init))
    cfg = open("base.cfg").read().replace("INIT FInit", "INIT SInit") + "INVARIANT %s\n" % goal
    open("g%d.cfg" % k, "w").write(cfg)
    cmd = ["java", "-XX:+UseParallelGC", "-Xss64m", "-cp", "/opt/veriftools/tla/tla2tools.jar:/opt/veriftools/tla/CommunityModules-deps.jar", "tlc2.TLC",
           "-metadir", "/tmp/build/co/goal/meta%d" % k, "-noGenerateSpecTE", "-config", "g%d.cfg" % k, "-workers", "6", "-deadlock",
           "-simulate", "num=1000000", "-depth", str(depth), "-seed", str(seed), "RaftStage%d" % k]
    try:
        p = subprocess.run(cmd, stdout=open("g%d.out" % k, "w"), stderr=subprocess.STDOUT, timeout=timeout)
    except subprocess.TimeoutExpired:
        print("stage", k, "timeout"); return False
    txt = open("g%d.out" % k).read()
    ok = "Invariant %s is violated" % goal in txt
    print("stage", k, goal, "found" if ok else "NOT found", len(T.parse_tlc_states(txt)), "states;", re.findall(r"(\d+) states checked", txt)[-1:] )
    return ok
if __name__ == "__main__":
    k = int(sys.argv[1]); goal = sys.argv[2]; prev = sys.argv[3]
    run_stage(k, goal, prev, depth=int(sys.argv[4]) if len(sys.argv) > 4 else 200, seed=int(sys.argv[5]) if len(sys.argv) > 5 else 1)
