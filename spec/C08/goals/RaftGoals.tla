------------------------------ MODULE RaftGoals ------------------------------
EXTENDS RaftFIFO
(* hazard preconditions used as test purposes: TLC searches, stage by stage, for a behaviour that reaches them *)
ZAgree(zL, zk) == Cardinality({zL} \cup {zv \in ServerSet : matchIndex[zL][zv] >= zk}) * 2 > NumServers
Fig8Pre == \E zL \in ServerSet : \E zk \in 1..Len(log[zL]) :
              /\ state[zL] = Leader
              /\ zk > commitIndex[zL]
              /\ log[zL][zk].term < currentTerm[zL]
              /\ ZLastTerm(log[zL]) = currentTerm[zL]
              /\ ZAgree(zL, zk)
              /\ \E zs \in ServerSet : ZElectable(zs) /\ (Len(log[zs]) < zk \/ log[zs][zk] # log[zL][zk])
ZQuiet == \A zi \in ServerSet : commitIndex[zi] = 0
(* stage 1: a leader holds one entry of its own term that nobody else has *)
G1 == /\ ZQuiet
      /\ \E zL \in ServerSet : /\ state[zL] = Leader /\ Len(log[zL]) = 1 /\ log[zL][1].term = currentTerm[zL]
                               /\ \A zv \in ServerSet \ {zL} : log[zv] = <<>>
(* stage 2: another server leads a later term with one own entry; the first entry survives on its author only *)
G2 == /\ ZQuiet
      /\ \E zL, zS \in ServerSet : /\ zL # zS /\ Len(log[zL]) = 1 /\ Len(log[zS]) = 1
                                   /\ state[zS] = Leader /\ log[zS][1].term = currentTerm[zS]
                                   /\ log[zL][1].term < log[zS][1].term
                                   /\ \A zv \in ServerSet \ {zL, zS} : log[zv] = <<>>
(* stage 3: the author of the older entry leads again (newer term), the other entry still only on its author *)
G3 == /\ ZQuiet
      /\ \E zL, zS \in ServerSet : /\ zL # zS /\ Len(log[zS]) = 1 /\ Len(log[zL]) >= 1
                                   /\ state[zL] = Leader /\ currentTerm[zL] > log[zS][1].term
                                   /\ log[zL][1].term < log[zS][1].term
                                   /\ \A zv \in ServerSet \ {zL, zS} : (log[zv] = <<>> \/ log[zv] = <<log[zL][1]>>)

ZPair(zL, zS) == /\ zL # zS /\ Len(log[zS]) = 1 /\ Len(log[zL]) >= 1 /\ log[zL][1].term < log[zS][1].term
                 /\ \A zv \in ServerSet \ {zL, zS} : (log[zv] = <<>> \/ log[zv] = <<log[zL][1]>>)
G2a == ZQuiet /\ \E zL, zS \in ServerSet : ZPair(zL, zS) /\ state[zL] = Candidate /\ currentTerm[zL] > log[zS][1].term
G2b == ZQuiet /\ \E zL, zS \in ServerSet : ZPair(zL, zS) /\ state[zL] = Candidate /\ currentTerm[zL] > log[zS][1].term
                    /\ \E zv \in ServerSet \ {zL, zS} : votedFor[zv] = zL /\ currentTerm[zv] = currentTerm[zL]
G3a == ZQuiet /\ \E zL, zS \in ServerSet : ZPair(zL, zS) /\ state[zL] = Leader /\ currentTerm[zL] > log[zS][1].term
                    /\ \E zv \in ServerSet \ {zL, zS} : log[zv] = <<log[zL][1]>> /\ matchIndex[zL][zv] >= 1
NoG2a == ~G2a
NoG2b == ~G2b
NoG3a == ~G3a

G3x == ZQuiet /\ \E zL, zS \in ServerSet : ZPair(zL, zS) /\ state[zL] = Leader /\ currentTerm[zL] > log[zS][1].term
                    /\ \E zv \in ServerSet \ {zL, zS} : log[zv] = <<log[zL][1]>>
NoG3x == ~G3x
NoG1 == ~G1
NoG2 == ~G2
NoG3 == ~G3
NoFig8Pre == ~Fig8Pre
=============================================================================
