------------------------------ MODULE RaftAhead ------------------------------
(* Oracles for C08 stated on the variables of the shipped raftkvs.tla (unchanged). *)
EXTENDS raftkvs

(* Look-ahead form of LeaderCompleteness (a stronger oracle, implied for every reachable state of a    *)
(* correct design: whoever could win an election right now - its log is at least as up-to-date as the *)
(* log of every member of some quorum - would become a leader of a later term a few steps from here,  *)
(* so it must already hold every committed entry). A defect in the commit rule shows here in the very *)
(* state in which the wrong entry is committed, long before a conflicting leader is actually elected.  *)
ZLastTerm(zl) == IF Len(zl) = 0 THEN 0 ELSE zl[Len(zl)].term
ZUpToDate(zs, zv) == \/ ZLastTerm(log[zs]) > ZLastTerm(log[zv])
                     \/ /\ ZLastTerm(log[zs]) = ZLastTerm(log[zv])
                        /\ Len(log[zs]) >= Len(log[zv])
ZElectable(zs) == \E zQ \in SUBSET ServerSet :
                      /\ zs \in zQ
                      /\ Cardinality(zQ) * 2 > NumServers
                      /\ \A zv \in zQ : ZUpToDate(zs, zv)
ElectableComplete ==
    \A zi \in ServerSet : \A zk \in 1..commitIndex[zi] :
        zk <= Len(log[zi]) =>
            \A zs \in ServerSet : ZElectable(zs) => (zk <= Len(log[zs]) /\ log[zs][zk] = log[zi][zk])
=============================================================================
