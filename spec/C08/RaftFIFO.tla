------------------------------ MODULE RaftFIFO ------------------------------
(* The shipped raftkvs.tla models network[d].queue as a bag: any two messages may  *)
(* overtake each other, also on one sender-to-receiver link. C08/C09 quantify over   *)
(* per-link FIFO delivery ("as the mailboxes guarantee"). This module keeps every    *)
(* label and mapping macro of raftkvs.tla unchanged and only removes the behaviours  *)
(* in which a message overtakes an earlier message of the same sender: order[d] is   *)
(* the content of network[d].queue in send order, and a step may remove a message    *)
(* only if it is the earliest one from its msource.                                   *)
EXTENDS RaftAhead

VARIABLE order
fvars == <<vars, order>>

Cnt(zb, zx) == IF zx \in DOMAIN zb THEN zb[zx] ELSE 0
Added(zd)   == {zx \in DOMAIN network'[zd].queue : Cnt(network'[zd].queue, zx) > Cnt(network[zd].queue, zx)}
Removed(zd) == {zx \in DOMAIN network[zd].queue  : Cnt(network[zd].queue, zx)  > Cnt(network'[zd].queue, zx)}
FirstFrom(zs, zsrc) == LET zI == {zi \in 1..Len(zs) : zs[zi].msource = zsrc}
                       IN IF zI = {} THEN 0 ELSE Min(zI)
RemoveAt(zs, zi) == SubSeq(zs, 1, zi - 1) \o SubSeq(zs, zi + 1, Len(zs))

RemOK(zd) == IF Removed(zd) = {} THEN TRUE
             ELSE LET zx == CHOOSE zy \in Removed(zd) : TRUE
                      zi == FirstFrom(order[zd], zx.msource)
                  IN zi > 0 /\ order[zd][zi] = zx
NewOrder(zd) == LET zo == IF Removed(zd) = {} THEN order[zd]
                          ELSE LET zx == CHOOSE zy \in Removed(zd) : TRUE
                               IN RemoveAt(order[zd], FirstFrom(order[zd], zx.msource))
                IN IF Added(zd) = {} THEN zo ELSE Append(zo, CHOOSE zy \in Added(zd) : TRUE)

FInit == Init /\ order = [zd \in NodeSet |-> <<>>]
FNext == /\ Next
         /\ \A zd \in NodeSet : RemOK(zd)
         /\ order' = [zd \in NodeSet |-> NewOrder(zd)]
FSpec == FInit /\ [][FNext]_fvars

(* order is consistent with the bag (sanity of the wrapper itself) *)
OrderOK == \A zd \in NodeSet :
    /\ Len(order[zd]) = BagCardinality(network[zd].queue)
    /\ \A zi \in 1..Len(order[zd]) : order[zd][zi] \in DOMAIN network[zd].queue

FLeaderAppendOnly == [][\A i \in ServerSet:
                        (state[i] = Leader /\ state'[i] = Leader)
                            => log[i] = SubSeq(log'[i], 1, Len(log[i]))]_fvars
=============================================================================
