CONSTANTS
  defaultInitValue = defaultInitValue
  ExploreFail = FALSE
  Debug = FALSE
  NumServers = 2
  NumClients = 1
  BufferSize = 2
  MaxTerm = 3
  MaxCommitIndex = 2
  MaxNodeFail = 0
  LogConcat = 2
  LogPop = 1
  LeaderTimeoutReset = TRUE
  NumRequests = 1
  AllStrings = {"s1", "s2"}
CONSTRAINT MCConstraint
INIT FInit
NEXT FNext
INVARIANT ElectionSafety
INVARIANT LogMatching
INVARIANT LeaderCompleteness
INVARIANT StateMachineSafety
INVARIANT ApplyLogOK
INVARIANT plogOK
INVARIANT OrderOK
INVARIANT ElectableComplete
PROPERTY FLeaderAppendOnly
CHECK_DEADLOCK FALSE
