CONSTANTS
  defaultInitValue = defaultInitValue
  ExploreFail = TRUE
  Debug = FALSE
  NumServers = 3
  NumClients = 1
  BufferSize = 3
  MaxTerm = 3
  MaxCommitIndex = 2
  MaxNodeFail = 1
  LogConcat = 2
  LogPop = 1
  LeaderTimeoutReset = TRUE
  NumRequests = 1
  AllStrings = {"s1", "s2"}
CONSTRAINT MCConstraint
INIT FInit
NEXT FNext
INVARIANT ElectionSafety
INVARIANT LogMatching
INVARIANT LeaderCompleteness
INVARIANT StateMachineSafety
INVARIANT ApplyLogOK
INVARIANT plogOK
INVARIANT OrderOK
INVARIANT ElectableComplete
PROPERTY FLeaderAppendOnly
CHECK_DEADLOCK FALSE
