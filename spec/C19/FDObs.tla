------------------------------ MODULE FDObs ------------------------------
(* P-level trace specification for C19: folds what harness/cmd/c19drv recorded from the     *)
(* REAL Monitor / SingleFailureDetector and evaluates the property on it. It uses only the   *)
(* property's vocabulary of FD.tla (FailCond, OkCond and the history counters of Bk, driven  *)
(* by what the harness did and saw); it does not predict the detector's state, so the        *)
(* verdict does not depend on how mainLoop is written.                                       *)
(*                                                                                          *)
(* Event lines (ndjson):                                                                     *)
(*   case id mode nd na watch iv T ...                                                       *)
(*   monup | monclose | netup d | stall d | unstall d | start a | end a how                  *)
(*   det d obs | step d obs nc o | timeout d obs nc | netdown d obs                          *)
(*        obs = the hold point detector d was next seen at: "dial" (a dial attempt),         *)
(*        "ask" (an IsAlive request arrived; nc: first request of a new connection),         *)
(*        "srv" (the real monitor answered o), "-" (none)                                    *)
(*   read d v pm     ReadValue returned v ("T" | "F" | "A" abort | "E" error) after pm       *)
(*                   thousandths of a polling interval; d was parked, no timer could fire    *)
(*   dread d v pm phase   direct mode (no relay): a read while "run"ning / after it "ended"  *)
(*   closerace crashed   Monitor.Close was called while connections kept arriving (child     *)
(*                   process); crashed: the process died inside the Monitor                   *)
(*   endcase why     "complete" | "disturbed" | "stuck" | "harness"                          *)
(* An iteration of d has ENDED when the next one is seen to begin ("dial", or "ask" on an     *)
(* established connection): mainLoop is sequential. That is the only inference made.         *)
EXTENDS FD, Sequences, Json

Trace == ndJsonDeserialize("trace.ndjson")

VARIABLES l, st,
          pin,      \* [Dets -> BOOLEAN] an iteration of d is known to be running
          oks,      \* [Dets -> BOOLEAN] ... and the monitor's answer to it has been released
          lastv,    \* [Dets -> last value read since the current iteration began, "-" if none]
          viol,     \* "" or the name of the violated part of the property
          skip,     \* the rest of the case is not judged (abandoned / direct mode bookkeeping)
          sawT, sawB,                 \* direct mode
          nst, minst, nsf, minsf, nab, minab  \* number / fastest of the reads that returned TRUE, FALSE, aborted
                                              \* (durations in thousandths of a polling interval)
ovars == <<l, st, pin, oks, lastv, viol, skip, sawT, sawB, nst, minst, nsf, minsf, nab, minab>>

MCWatch1 == [d \in Dets |-> 1]
MCWatch2 == [d \in Dets |-> IF d = 1 THEN 1 ELSE 2]

T == Trace[l]
Ev(e) == l <= Len(Trace) /\ Trace[l].e = e /\ l' = l + 1
Big == 1000000000

OInit == /\ l = 1 /\ st = InitSt /\ pin = [d \in Dets |-> FALSE] /\ oks = [d \in Dets |-> FALSE]
         /\ lastv = [d \in Dets |-> "-"] /\ viol = "" /\ skip = TRUE /\ sawT = FALSE /\ sawB = FALSE
         /\ nst = 0 /\ minst = Big /\ nsf = 0 /\ minsf = Big /\ nab = 0 /\ minab = Big

OCase == /\ Ev("case")
         /\ st' = InitSt /\ pin' = [d \in Dets |-> FALSE] /\ oks' = [d \in Dets |-> FALSE]
         /\ lastv' = [d \in Dets |-> "-"] /\ skip' = FALSE /\ sawT' = FALSE /\ sawB' = FALSE
         /\ UNCHANGED <<viol, nst, minst, nsf, minsf, nab, minab>>

OSkip == /\ l <= Len(Trace) /\ skip /\ T.e # "case" /\ l' = l + 1
         /\ UNCHANGED <<st, pin, oks, lastv, viol, skip, sawT, sawB, nst, minst, nsf, minsf, nab, minab>>

OEnd == /\ ~skip /\ Ev("endcase") /\ skip' = TRUE
        /\ UNCHANGED <<st, pin, oks, lastv, viol, sawT, sawB, nst, minst, nsf, minsf, nab, minab>>

Keep == UNCHANGED <<viol, skip, sawT, sawB, nst, minst, nsf, minsf, nab, minab>>

PEnd(s, d) == IF pin[d] THEN Bk(s, s, d, IF oks[d] THEN "endok" ELSE "endfail") ELSE s
PBegin(s, d) == Bk(s, s, d, "begin")
IsBegin(r) == r.obs = "dial" \/ (r.obs = "ask" /\ ~r.nc)

\* what was seen of detector d after the command, applied to state s
ObsStep(s, d) ==
    IF IsBegin(T)
    THEN /\ st' = PBegin(PEnd(s, d), d)
         /\ pin' = [pin EXCEPT ![d] = TRUE] /\ oks' = [oks EXCEPT ![d] = FALSE]
         /\ lastv' = [lastv EXCEPT ![d] = "-"]
    ELSE IF T.obs = "ask"
    THEN /\ st' = Env(s, [s EXCEPT !.conn[d] = "open"])
         /\ UNCHANGED <<pin, oks, lastv>>
    ELSE IF T.obs = "srv"
    THEN /\ st' = s /\ oks' = [oks EXCEPT ![d] = (T.o # "err")] /\ UNCHANGED <<pin, lastv>>
    ELSE st' = s /\ UNCHANGED <<pin, oks, lastv>>

OEnv == /\ ~skip /\ Keep /\ UNCHANGED <<pin, oks, lastv>>
        /\ \/ Ev("monup") /\ st' = MonUp(st)
           \/ Ev("monclose") /\ st' = MonClose(st)
           \/ Ev("netup") /\ st' = NetUp(st, T.d)
           \/ Ev("stall") /\ st' = Stall(st, T.d)
           \/ Ev("unstall") /\ st' = Unstall(st, T.d)
           \/ Ev("start") /\ st' = ArchStart(st, T.a)
           \/ Ev("end") /\ st' = ArchEnd(st, T.a, T.how)

ODet == /\ ~skip /\ Keep
        /\ \/ Ev("det") /\ ObsStep(DetStart(st, T.d), T.d)
           \/ Ev("step") /\ ObsStep(st, T.d)
           \/ Ev("timeout") /\ ObsStep(st, T.d)
           \/ Ev("netdown") /\ ObsStep(NetDown(st, T.d), T.d)

MustT(d) == FailCond(st, d) /\ st.fcnt[d] >= 1
MustF(d) == OkCond(st, d) /\ st.acnt[d] >= 1

Timing(v, pm) ==
    IF v = "T"
    THEN nst' = nst + 1 /\ minst' = Min(minst, pm) /\ UNCHANGED <<nsf, minsf, nab, minab>>
    ELSE IF v = "F"
    THEN nsf' = nsf + 1 /\ minsf' = Min(minsf, pm) /\ UNCHANGED <<nst, minst, nab, minab>>
    ELSE IF v = "A"
    THEN nab' = nab + 1 /\ minab' = Min(minab, pm) /\ UNCHANGED <<nst, minst, nsf, minsf>>
    ELSE UNCHANGED <<nst, minst, nsf, minsf, nab, minab>>

ORead == /\ ~skip /\ Ev("read")
         /\ LET d == T.d  v == T.v IN
            /\ viol' = IF viol # "" THEN viol
                       ELSE IF v = "E" THEN "ReadError"
                       ELSE IF MustT(d) /\ v # "T" THEN "Completeness"
                       ELSE IF MustF(d) /\ v # "F" THEN "Accuracy"
                       ELSE IF st.pdone[d] /\ v = "A" THEN "Initialised"
                       ELSE IF lastv[d] # "-" /\ lastv[d] # v THEN "ReadPure"
                       ELSE ""
            /\ lastv' = [lastv EXCEPT ![d] = v]
            /\ Timing(v, T.pm)
         /\ UNCHANGED <<st, pin, oks, skip, sawT, sawB>>

\* direct mode: only what no delay can falsify
ODRead == /\ ~skip /\ Ev("dread")
          /\ LET v == T.v IN
             /\ viol' = IF viol # "" THEN viol
                        ELSE IF v = "E" THEN "ReadError"
                        ELSE IF T.phase = "ended" /\ sawT /\ v # "T" THEN "Completeness"
                        ELSE IF sawB /\ v = "A" THEN "Initialised"
                        ELSE ""
             /\ sawT' = (sawT \/ (T.phase = "ended" /\ v = "T"))
             /\ sawB' = (sawB \/ v \in {"T", "F"})
             /\ Timing(v, T.pm)
          /\ UNCHANGED <<st, pin, oks, lastv, skip>>

\* monitor shutdown must not take the process (and the archetypes it runs) down
OCloseRace == /\ ~skip /\ Ev("closerace")
              /\ viol' = IF viol # "" THEN viol ELSE IF T.crashed THEN "MonitorCrash" ELSE ""
              /\ UNCHANGED <<st, pin, oks, lastv, skip, sawT, sawB, nst, minst, nsf, minsf, nab, minab>>

ONext == OCase \/ OSkip \/ OEnd \/ OEnv \/ ODet \/ ORead \/ ODRead \/ OCloseRace

Completeness == viol # "Completeness"
Accuracy == viol # "Accuracy"
Initialised == viol # "Initialised"
ReadPure == viol # "ReadPure"
ReadError == viol # "ReadError"
MonitorCrash == viol # "MonitorCrash"
\* "never delays a critical section by more than one polling interval": the fastest of many
\* reads that returned TRUE, and of many that returned FALSE, takes less than half an interval (so
\* ReadValue does not sleep in the steady state), the
\* fastest of many uninitialised reads less than two (load only ever makes a read slower)
ReadSteadyFast == (nst >= 40 => minst < 500) /\ (nsf >= 40 => minsf < 500)
ReadAbortBounded == nab >= 25 => minab < 2000
=============================================================================
