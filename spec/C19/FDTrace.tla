------------------------------ MODULE FDTrace ------------------------------
(* M-level trace specification (conformance): what c19drv did and saw must be a behaviour   *)
(* of the gated compositions of FD.tla (FDGated.tla) -- the hold point every detector is     *)
(* next seen at, what the real monitor answered, what RunArchetype / Close returned, and the *)
(* value of every read must be exactly what FD.tla's state predicts. A rejection is model    *)
(* drift (DESIGN section 3), not a verdict; the verdicts are FDObs.tla's.                    *)
EXTENDS FDGated, Sequences, Json

Trace == ndJsonDeserialize("trace.ndjson")

VARIABLES l, st, skip
tvars == <<l, st, skip>>

MCWatch1 == [d \in Dets |-> 1]
MCWatch2 == [d \in Dets |-> IF d = 1 THEN 1 ELSE 2]

T == Trace[l]
Ev(e) == l <= Len(Trace) /\ Trace[l].e = e /\ l' = l + 1

TInit == l = 1 /\ st = InitSt /\ skip = TRUE
TCase == Ev("case") /\ st' = InitSt /\ skip' = (T.mode # "gated")
TSkip == l <= Len(Trace) /\ skip /\ T.e # "case" /\ l' = l + 1 /\ UNCHANGED <<st, skip>>
TEnd  == ~skip /\ Ev("endcase") /\ skip' = TRUE /\ UNCHANGED st

\* the observation of detector d recorded on line T is what state s predicts
Sees(s, d) == /\ T.obs = Obs(s, d)
              /\ T.obs = "srv" => T.o = s.out[d]
              /\ T.obs = "ask" => T.asked = Watch[d]

Ret(how) == IF how = "normal" THEN "nil" ELSE IF how = "error" THEN "err" ELSE "panic"

TEnv == /\ ~skip /\ UNCHANGED skip
        /\ \/ Ev("monup") /\ EnMonUp(st) /\ st' = MonUp(st)
           \/ Ev("monclose") /\ EnMonClose(st) /\ T.ret = "nil" /\ st' = MonClose(st)
           \/ Ev("netup") /\ EnNetUp(st, T.d) /\ st' = NetUp(st, T.d)
           \/ Ev("stall") /\ EnStall(st, T.d) /\ st' = Stall(st, T.d)
           \/ Ev("unstall") /\ EnUnstall(st, T.d) /\ st' = Unstall(st, T.d)
           \/ Ev("start") /\ EnArchStart(st, T.a) /\ st' = ArchStart(st, T.a)
           \/ Ev("end") /\ EnArchEnd(st, T.a) /\ T.ret = Ret(T.how) /\ st' = ArchEnd(st, T.a, T.how)

TDet == /\ ~skip /\ UNCHANGED skip
        /\ \/ Ev("det") /\ EnGDet(st, T.d) /\ st' = GDet(st, T.d) /\ Sees(st', T.d)
           \/ /\ Ev("step") /\ EnGStep(st, T.d) /\ st' = GStep(st, T.d) /\ Sees(st', T.d)
              /\ T.obs = "ask" => (T.nc <=> st.ph[T.d] = "dialing")
           \/ Ev("timeout") /\ EnGTimeout(st, T.d) /\ st' = GTimeout(st, T.d) /\ Sees(st', T.d) /\ ~T.nc
           \/ /\ Ev("netdown") /\ EnGNetDown(st, T.d) /\ st' = GNetDown(st, T.d)
              /\ IF st.ph[T.d] \in {"asked", "served"} THEN Sees(st', T.d) ELSE T.obs = "-"

TRead == /\ ~skip /\ Ev("read") /\ EnRead(st, T.d) /\ T.v = ReadVal(st, T.d)
         /\ st' = Read(st, T.d) /\ UNCHANGED skip

TNext == TCase \/ TSkip \/ TEnd \/ TEnv \/ TDet \/ TRead

\* the property holds of the model state along the recorded behaviour as well
TCompleteness == CompletenessSt(st)
TAccuracy == AccuracySt(st)
=============================================================================
