CONSTANTS
  Archs = {1}
  Dets = {1, 2}
  Watch <- MCWatch1
  Variant = "ok"
INIT Init
NEXT Next
INVARIANTS TypeOK Completeness Completeness2 Accuracy Initialised Recovery
PROPERTIES ReadPure
CHECK_DEADLOCK FALSE
