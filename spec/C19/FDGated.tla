------------------------------ MODULE FDGated ------------------------------
(* The harness' view of FD.tla ("gated semantics").                                         *)
(*                                                                                          *)
(* harness/cmd/c19drv owns the network between every detector and its monitor: the          *)
(* detector's address is a host name resolved by the driver (every dial attempt is seen and  *)
(* held at the name lookup) and leads to a relay in front of the real Monitor (every         *)
(* IsAlive request is seen and held on arrival, and again after the real Monitor has         *)
(* answered). A created detector is therefore always parked at one of three hold points      *)
(* (ph = "dialing" | "asked" | "served") and only moves when the driver lets it; the         *)
(* iterations that perform no I/O (ErrShutdown on a cut connection) cannot be held and are   *)
(* folded into the command that makes them possible. Each harness command is a composition   *)
(* of FD.tla's transformers:                                                                 *)
(*   det d       create the detector, wait for its first dial attempt                        *)
(*   step d      release the current hold, wait for the next hold of d                       *)
(*   timeout d   (stalled) wait until the next request of d arrives while the previous one   *)
(*               is still unanswered: the detector's time-out has fired                      *)
(*   netdown d   close the relay's listener and cut its connections; a call in flight fails  *)
(*               and the detector is next seen dialling                                      *)
(*   monup, monclose, netup d, stall d, unstall d, start a, end a how, read d                *)
EXTENDS FD

\* after an iteration has ended: the iterations without I/O happen unobserved, then the next
\* one with I/O begins and is held
SettleBegin(s, d) ==
    LET s1 == IF IsBrokenBegin(s, d) THEN BrokenPoll(s, d, TRUE) ELSE s
    IN BeginIO(s1, d)

EnGDet(s, d) == EnDetStart(s, d)
GDet(s, d) == SettleBegin(DetStart(s, d), d)

EnGStep(s, d) == \/ s.ph[d] = "dialing"
                 \/ EnServe(s, d)
                 \/ (s.ph[d] = "served" /\ EnComplete(s, d))
GStep(s, d) ==
    IF s.ph[d] = "dialing"
    THEN LET s1 == DialDone(s, d) IN IF s1.ph[d] = "asked" THEN s1 ELSE SettleBegin(s1, d)
    ELSE IF s.ph[d] = "asked" THEN Serve(s, d)
    ELSE SettleBegin(Complete(s, d), d)

EnGTimeout(s, d) == EnTimeout(s, d)
GTimeout(s, d) == SettleBegin(Timeout(s, d), d)

EnGNetDown(s, d) == EnNetDown(s, d)
GNetDown(s, d) ==
    LET s1 == NetDown(s, d)
    IN IF s1.out[d] = "cut" THEN SettleBegin(Complete(s1, d), d) ELSE s1

\* what the driver sees of detector d after a command: the hold point it is parked at
Obs(s, d) == IF s.det[d] = "none" THEN "-"
             ELSE IF s.ph[d] = "dialing" THEN "dial"
             ELSE IF s.ph[d] = "asked" THEN "ask"
             ELSE IF s.ph[d] = "served" THEN "srv" ELSE "idle"

\* every created detector is parked
Parked(s) == \A d \in Dets : s.det[d] # "none" => s.ph[d] # "idle"
=============================================================================
