CONSTANTS
  Archs = {1}
  Dets = {1}
  StallDets = {1}
  Watch <- MCWatch1
  Variant = "ok"
INIT GInit
NEXT GNext
VIEW GenView
INVARIANTS GParked GCompleteness GAccuracy GInitialised
CHECK_DEADLOCK FALSE
