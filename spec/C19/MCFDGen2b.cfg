CONSTANTS
  Archs = {1, 2}
  Dets = {1, 2}
  StallDets = {}
  Watch <- MCWatch2
  Variant = "ok"
INIT GInit
NEXT GNext
INVARIANTS GParked GCompleteness GAccuracy GInitialised
CHECK_DEADLOCK FALSE
