------------------------------ MODULE FD ------------------------------
(* C19 -- Monitor / SingleFailureDetector of distsys/resources/fd.go.                    *)
(*                                                                                        *)
(* P and M coincide (DESIGN section 6, C19): the state is what fd.go keeps                 *)
(*   lsn     Monitor listener: "none" (ListenAndServe not called), "up", "closed" (Close)  *)
(*   mst[a]  Monitor.states[a]: "absent" | "alive" | "failed" | "finished"                 *)
(*   det[d]  SingleFailureDetector.state: "none" (not created) | "uninit" | "alive" |      *)
(*           "failed" | "finished"                                                         *)
(*   conn[d] the detector's rpc.Client: "nil" | "open" | "broken" (connection cut, the     *)
(*           client may not have noticed yet) | "shut" (client is in shutdown state)       *)
(*   redial[d], ph[d] (phase of the running mainLoop iteration: "idle" | "dialing" |       *)
(*           "asked" (request sent, not answered) | "served" (reply computed by the        *)
(*           monitor, not yet processed by the detector)), out[d] (that reply)             *)
(* plus the environment the property quantifies over                                      *)
(*   run[a]  ground truth about archetype a: "idle" | "running" | "ended"                  *)
(*   net[d]  network between detector d and the monitor: "up" | "down" (process-death      *)
(*           equivalent: nothing listens and every connection is gone)                     *)
(*   stall[d] the monitor's host does not answer d any more (requests are swallowed)       *)
(* and history counters that let the property be stated as invariants (fin, fcnt, cdone,   *)
(* ain, acnt, pdone; see Bk).                                                              *)
(*                                                                                        *)
(* The whole state is ONE record `st`; every action is a guard En*(s, ..) plus a state     *)
(* transformer (an operator from records to records). That makes the three users of this   *)
(* module agree by construction:                                                           *)
(*   MCFD      free interleaving of all atomic steps (design level, exhaustive)            *)
(*   MCFDGen   the harness' commands = compositions of the same transformers (generator)   *)
(*   FDTrace   the same compositions matched against what the real code did (I->S)         *)
EXTENDS Naturals, FiniteSets, TLC

CONSTANTS Archs, Dets, Watch, Variant
\* Variant = "ok" is fd.go as written. The other values are deliberately broken designs
\* used to show that the invariants are not vacuous (each must be rejected by TLC):
\*   "finished_alive"  ReadValue treats finished as alive
\*   "timeout_stuck"   an RPC timeout leaves the previous state in place
\*   "dialfail_stuck"  a dial error leaves the previous state in place
\*   "panic_alive"     RunArchetype does not record a panic
\*   "noredial"        ErrShutdown never sets reDial
\*   "read_inits"      ReadValue of an uninitialised detector marks it alive
\*   "start_absent"    RunArchetype does not record alive before running the archetype

ASSUME Watch \in [Dets -> Archs] /\ Dets \subseteq Nat \ {0}

Min(a, b) == IF a < b THEN a ELSE b

InitSt == [lsn |-> "none",
           net |-> [d \in Dets |-> "up"], stall |-> [d \in Dets |-> FALSE],
           mst |-> [a \in Archs |-> "absent"], run |-> [a \in Archs |-> "idle"],
           det |-> [d \in Dets |-> "none"], conn |-> [d \in Dets |-> "nil"],
           redial |-> [d \in Dets |-> FALSE], ph |-> [d \in Dets |-> "idle"],
           out |-> [d \in Dets |-> "-"],
           fin |-> [d \in Dets |-> FALSE], fcnt |-> [d \in Dets |-> 0], cdone |-> [d \in Dets |-> 0],
           ain |-> [d \in Dets |-> FALSE], acnt |-> [d \in Dets |-> 0], ocnt |-> [d \in Dets |-> 0],
           pdone |-> [d \in Dets |-> FALSE]]

TypeOKSt(s) ==
    /\ s.lsn \in {"none", "up", "closed"}
    /\ s.net \in [Dets -> {"up", "down"}] /\ s.stall \in [Dets -> BOOLEAN]
    /\ s.mst \in [Archs -> {"absent", "alive", "failed", "finished"}]
    /\ s.run \in [Archs -> {"idle", "running", "ended"}]
    /\ s.det \in [Dets -> {"none", "uninit", "alive", "failed", "finished"}]
    /\ s.conn \in [Dets -> {"nil", "open", "broken", "shut"}]
    /\ s.redial \in [Dets -> BOOLEAN]
    /\ s.ph \in [Dets -> {"idle", "dialing", "asked", "served"}]
    /\ s.out \in [Dets -> {"-", "alive", "failed", "finished", "notfound", "cut"}]
    /\ s.fin \in [Dets -> BOOLEAN] /\ s.ain \in [Dets -> BOOLEAN] /\ s.pdone \in [Dets -> BOOLEAN]
    /\ s.fcnt \in [Dets -> 0..1] /\ s.acnt \in [Dets -> 0..1] /\ s.cdone \in [Dets -> 0..2]
    /\ s.ocnt \in [Dets -> 0..3]

(* ------------------------------------------------------------------ the property's vocabulary *)

\* the monitor can be reached by d: an established connection keeps being served after
\* Monitor.Close (only the listener is closed), otherwise a new connection must be possible
Reachable(s, d) == /\ s.net[d] = "up" /\ ~s.stall[d]
                   /\ (s.conn[d] = "open" \/ s.lsn = "up")
\* "has crashed, finished, or its monitor has become unreachable"
FailCond(s, d) == s.run[Watch[d]] = "ended" \/ ~Reachable(s, d)
\* "while it runs and its monitor is reachable"
OkCond(s, d) == s.run[Watch[d]] = "running" /\ Reachable(s, d)

\* SingleFailureDetector.ReadValue: "A" = ErrCriticalSectionAborted, "T"/"F" = the TLA+ booleans
ReadVal(s, d) == IF s.det[d] = "uninit" THEN "A"
                 ELSE IF s.det[d] = "alive" THEN "F"
                 ELSE IF s.det[d] = "finished" /\ Variant = "finished_alive" THEN "F"
                 ELSE "T"

(* History counters. t = s with the base fields already updated; bd = the detector whose  *)
(* mainLoop iteration ("poll") begins / ends in this step (any value outside Dets: none);  *)
(* kind: "env" | "begin" | "endok" (ended with a reply from the monitor) | "endfail"       *)
(* (dial error, RPC error, timeout) | "both" (an iteration that begins and fails in one    *)
(* step: ErrShutdown).                                                                     *)
(*   fin[d]   the running iteration of d began while FailCond(d) held, and it still holds  *)
(*   fcnt[d]  iterations that began and ended while FailCond(d) held continuously (max 1)  *)
(*   cdone[d] iterations that ended while FailCond(d) held continuously (max 2)            *)
(*   ain/acnt the same for OkCond(d) and iterations that ended with a reply                *)
(*   ocnt[d]  iterations that began and ended (any outcome) while OkCond(d) held (max 3)   *)
(*   pdone[d] some iteration of d has ended                                                *)
Ends == {"endok", "endfail", "both"}
Bk(s, t, bd, kind) ==
    [t EXCEPT
       !.fin   = [d \in Dets |-> IF ~FailCond(t, d) THEN FALSE
                                 ELSE IF d = bd /\ kind = "begin" THEN TRUE
                                 ELSE IF d = bd /\ kind \in Ends THEN FALSE ELSE s.fin[d]],
       !.fcnt  = [d \in Dets |-> IF ~FailCond(t, d) THEN 0
                                 ELSE IF d = bd /\ ((kind \in {"endok", "endfail"} /\ s.fin[d]) \/ kind = "both")
                                      THEN 1 ELSE s.fcnt[d]],
       !.cdone = [d \in Dets |-> IF ~FailCond(t, d) THEN 0
                                 ELSE IF d = bd /\ kind \in Ends THEN Min(2, s.cdone[d] + 1) ELSE s.cdone[d]],
       !.ain   = [d \in Dets |-> IF ~OkCond(t, d) THEN FALSE
                                 ELSE IF d = bd /\ kind = "begin" THEN TRUE
                                 ELSE IF d = bd /\ kind \in Ends THEN FALSE ELSE s.ain[d]],
       !.acnt  = [d \in Dets |-> IF ~OkCond(t, d) THEN 0
                                 ELSE IF d = bd /\ kind = "endok" /\ s.ain[d] THEN 1 ELSE s.acnt[d]],
       !.ocnt  = [d \in Dets |-> IF ~OkCond(t, d) THEN 0
                                 ELSE IF d = bd /\ ((kind \in {"endok", "endfail"} /\ s.ain[d]) \/ kind = "both")
                                      THEN Min(3, s.ocnt[d] + 1) ELSE s.ocnt[d]],
       !.pdone = [d \in Dets |-> s.pdone[d] \/ (d = bd /\ kind \in Ends)]]

NoDet == 0   \* Dets are positive integers
Env(s, t) == Bk(s, t, NoDet, "env")

(* ------------------------------------------------------------------ environment actions *)

EnMonUp(s) == s.lsn = "none"
MonUp(s) == Env(s, [s EXCEPT !.lsn = "up"])                       \* go mon.ListenAndServe()

EnMonClose(s) == s.lsn = "up"
MonClose(s) == Env(s, [s EXCEPT !.lsn = "closed"])                \* mon.Close(): listener only

EnNetDown(s, d) == s.net[d] = "up"
\* the connection (if any) is cut; a call in flight fails with an I/O error
NetDown(s, d) ==
    LET infl == s.ph[d] \in {"asked", "served"}
    IN Env(s, [s EXCEPT !.net[d] = "down",
                        !.conn[d] = IF @ = "open" THEN "broken" ELSE @,
                        !.out[d] = IF infl THEN "cut" ELSE @,
                        !.ph[d] = IF infl THEN "served" ELSE @])
EnNetUp(s, d) == s.net[d] = "down"
NetUp(s, d) == Env(s, [s EXCEPT !.net[d] = "up"])

EnStall(s, d) == ~s.stall[d] /\ s.net[d] = "up"
Stall(s, d) == Env(s, [s EXCEPT !.stall[d] = TRUE])
EnUnstall(s, d) == s.stall[d]
Unstall(s, d) == Env(s, [s EXCEPT !.stall[d] = FALSE])

EnArchStart(s, a) == s.run[a] = "idle"
ArchStart(s, a) == Env(s, [s EXCEPT !.run[a] = "running", !.mst[a] = IF Variant = "start_absent" THEN @ ELSE "alive"])   \* RunArchetype: setState(alive); ctx.Run()
EnArchEnd(s, a) == s.run[a] = "running"
\* how: "normal" (Run returned nil: Done or Stop) | "error" | "panic"
ArchEnd(s, a, how) ==
    Env(s, [s EXCEPT !.run[a] = "ended",
                     !.mst[a] = IF how = "normal" THEN "finished"
                                ELSE IF how = "panic" /\ Variant = "panic_alive" THEN "alive"
                                ELSE "failed"])
Hows == {"normal", "error", "panic"}

EnDetStart(s, d) == s.det[d] = "none"
DetStart(s, d) == Env(s, [s EXCEPT !.det[d] = "uninit"])          \* NewSingleFailureDetector: go mainLoop()

(* ------------------------------------------------------------------ one mainLoop iteration *)

EnBegin(s, d) == s.det[d] # "none" /\ s.ph[d] = "idle"
NeedsDial(s, d) == s.conn[d] = "nil" \/ s.redial[d]
\* the iteration will fail without any I/O (or on a dead socket): client.Go on a cut connection
IsBrokenBegin(s, d) == EnBegin(s, d) /\ ~NeedsDial(s, d) /\ s.conn[d] \in {"broken", "shut"}
\* rd: whether this failing call sets reDial. A client that has noticed the cut answers
\* ErrShutdown (rd = TRUE); one that has not yet noticed fails with an I/O error (rd = FALSE)
\* and is "shut" afterwards.
BrokenPoll(s, d, rd) ==
    Bk(s, [s EXCEPT !.det[d] = "failed", !.conn[d] = "shut",
                    !.redial[d] = IF Variant = "noredial" THEN FALSE ELSE rd], d, "both")
EnBrokenPoll(s, d, rd) == IsBrokenBegin(s, d) /\ (rd \/ s.conn[d] = "broken")
\* an iteration that performs I/O begins: ensureClient dials, or the request is sent
EnBeginIO(s, d) == EnBegin(s, d) /\ ~IsBrokenBegin(s, d)
BeginIO(s, d) == Bk(s, [s EXCEPT !.ph[d] = IF NeedsDial(s, d) THEN "dialing" ELSE "asked"], d, "begin")

EnDialDone(s, d) == s.ph[d] = "dialing"
DialOK(s, d) == s.lsn = "up" /\ s.net[d] = "up"
DialDone(s, d) ==
    IF DialOK(s, d)
    THEN Env(s, [s EXCEPT !.conn[d] = "open", !.redial[d] = FALSE, !.ph[d] = "asked"])
    ELSE Bk(s, [s EXCEPT !.det[d] = IF Variant = "dialfail_stuck" THEN @ ELSE "failed", !.ph[d] = "idle"], d, "endfail")

Answer(s, a) == IF s.mst[a] = "absent" THEN "notfound" ELSE s.mst[a]  \* MonitorRPCReceiver.IsAlive
EnServe(s, d) == s.ph[d] = "asked" /\ ~s.stall[d]
Serve(s, d) == Env(s, [s EXCEPT !.out[d] = Answer(s, Watch[d]), !.ph[d] = "served"])

EnComplete(s, d) == s.ph[d] = "served" /\ (s.out[d] = "cut" \/ ~s.stall[d])
Complete(s, d) ==
    Bk(s, [s EXCEPT !.det[d] = IF s.out[d] \in {"alive", "failed", "finished"} THEN s.out[d] ELSE "failed",
                    !.ph[d] = "idle", !.out[d] = "-"],
       d, IF s.out[d] = "cut" THEN "endfail" ELSE "endok")

\* time.After(res.timeout) fires; only a stalled monitor lets that happen in this model
EnTimeout(s, d) == s.ph[d] \in {"asked", "served"} /\ s.stall[d] /\ s.out[d] # "cut"
Timeout(s, d) ==
    Bk(s, [s EXCEPT !.det[d] = IF Variant = "timeout_stuck" THEN @ ELSE "failed", !.ph[d] = "idle", !.out[d] = "-"],
       d, "endfail")

EnRead(s, d) == s.det[d] # "none"
Read(s, d) == IF Variant = "read_inits" /\ s.det[d] = "uninit" THEN [s EXCEPT !.det[d] = "alive"] ELSE s

(* ------------------------------------------------------------------ the property, as invariants *)

\* Completeness: an iteration that began after the archetype ended / became unreachable has
\* ended  =>  the detector reports failed -- and keeps doing so while the condition lasts
CompletenessSt(s) == \A d \in Dets : (s.det[d] # "none" /\ FailCond(s, d) /\ s.fcnt[d] >= 1) => ReadVal(s, d) = "T"
\* the same bound counted in completed iterations: the 2nd one completed after the event, at the latest
Completeness2St(s) == \A d \in Dets : (s.det[d] # "none" /\ FailCond(s, d) /\ s.cdone[d] >= 2) => ReadVal(s, d) = "T"
\* Accuracy: from the first successful poll on, while it runs and the monitor is reachable
AccuracySt(s) == \A d \in Dets : (OkCond(s, d) /\ s.acnt[d] >= 1) => ReadVal(s, d) = "F"
\* "settles": three iterations inside an uninterrupted running-and-reachable period are enough to
\* report alive again (I/O error on the cut connection, ErrShutdown + reDial, successful poll).
\* This is the bounded form of "settles to accurate answers"; the binding cannot count the
\* iterations that perform no I/O, so it is a design-level invariant only (see findings/C19.md).
RecoverySt(s) == \A d \in Dets : (OkCond(s, d) /\ s.ocnt[d] >= 3) => ReadVal(s, d) = "F"
\* the detector is initialised by its first completed iteration, whatever its outcome
InitialisedSt(s) == \A d \in Dets : s.pdone[d] => ReadVal(s, d) # "A"
=============================================================================
