CONSTANTS
  Archs = {1, 2}
  Dets = {1, 2}
  Watch <- MCWatch1
  Variant = "ok"
INIT TInit
NEXT TNext
CHECK_DEADLOCK FALSE
