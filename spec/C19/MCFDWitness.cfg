CONSTANTS
  Archs = {1, 2}
  Dets = {1}
  Watch <- MCWatch1
  Variant = "ok"
INIT Init
NEXT Next
INVARIANTS NeverMustTrue NeverMustFalse
CHECK_DEADLOCK FALSE
