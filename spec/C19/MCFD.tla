------------------------------ MODULE MCFD ------------------------------
(* Design level (TLC mode 1): every interleaving of the atomic steps of FD.tla -- monitor   *)
(* start/close, network cut/heal, stall, archetype start / end (normal, error, panic),       *)
(* detector start, and the sub-steps of every mainLoop iteration (begin, dial done, served,  *)
(* completed, timed out, failing on a cut connection with and without reDial) and reads.     *)
(* All state components are finite, so the search is exhaustive for ANY number of polls.     *)
EXTENDS FD

VARIABLE st

MCWatch2 == [d \in Dets |-> IF d = 1 THEN 1 ELSE 2]     \* two detectors, two archetypes, d watches a = d
MCWatch1 == [d \in Dets |-> 1]                          \* every detector watches archetype 1

Init == st = InitSt

Next ==
    \/ EnMonUp(st) /\ st' = MonUp(st)
    \/ EnMonClose(st) /\ st' = MonClose(st)
    \/ \E d \in Dets :
          \/ EnNetDown(st, d) /\ st' = NetDown(st, d)
          \/ EnNetUp(st, d) /\ st' = NetUp(st, d)
          \/ EnStall(st, d) /\ st' = Stall(st, d)
          \/ EnUnstall(st, d) /\ st' = Unstall(st, d)
          \/ EnDetStart(st, d) /\ st' = DetStart(st, d)
          \/ EnBeginIO(st, d) /\ st' = BeginIO(st, d)
          \/ \E rd \in BOOLEAN : EnBrokenPoll(st, d, rd) /\ st' = BrokenPoll(st, d, rd)
          \/ EnDialDone(st, d) /\ st' = DialDone(st, d)
          \/ EnServe(st, d) /\ st' = Serve(st, d)
          \/ EnComplete(st, d) /\ st' = Complete(st, d)
          \/ EnTimeout(st, d) /\ st' = Timeout(st, d)
          \/ EnRead(st, d) /\ st' = Read(st, d)
    \/ \E a \in Archs :
          \/ EnArchStart(st, a) /\ st' = ArchStart(st, a)
          \/ \E how \in Hows : EnArchEnd(st, a) /\ st' = ArchEnd(st, a, how)

TypeOK == TypeOKSt(st)
Completeness == CompletenessSt(st)
Completeness2 == Completeness2St(st)
Accuracy == AccuracySt(st)
Initialised == InitialisedSt(st)
Recovery == RecoverySt(st)
\* "reading never changes what it reports": a Read step changes nothing
ReadPure == [][\A d \in Dets : (EnRead(st, d) /\ st' = Read(st, d)) => st' = st]_st

\* vacuity witnesses (negations are checked to be VIOLATED in MCFDWitness.cfg)
NeverMustTrue == ~ \E d \in Dets : st.det[d] # "none" /\ FailCond(st, d) /\ st.fcnt[d] >= 1
NeverMustFalse == ~ \E d \in Dets : OkCond(st, d) /\ st.acnt[d] >= 1
=============================================================================
