CONSTANTS
  Archs = {1, 2}
  Dets = {1, 2}
  Watch <- MCWatch1
  Variant = "ok"
INIT OInit
NEXT ONext
INVARIANTS Completeness Accuracy Initialised ReadPure ReadError MonitorCrash ReadSteadyFast ReadAbortBounded
CHECK_DEADLOCK FALSE
