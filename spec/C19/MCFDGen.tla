------------------------------ MODULE MCFDGen ------------------------------
(* Generator (TLC mode 3, -dump dot): the state graph of the harness commands of            *)
(* FDGated.tla. "last" names the command that led to a state (it is not a history), so the   *)
(* dumped graph carries the command of every edge; checks/C19.py derives walks from the      *)
(* initial state that cover every (state, command) edge, plus seeded random walks, and the   *)
(* driver performs each walk on the real Monitor / SingleFailureDetector.                    *)
(* The history counters are projected away (GenView): they do not influence which commands  *)
(* are possible.                                                                             *)
EXTENDS FDGated, Sequences

CONSTANTS StallDets          \* detectors whose monitor may stall (they get a short RPC timeout)

VARIABLES st, last

MCWatch1 == [d \in Dets |-> 1]
MCWatch2 == [d \in Dets |-> IF d = 1 THEN 1 ELSE 2]

ToS(n) == IF n = 1 THEN "1" ELSE IF n = 2 THEN "2" ELSE "3"

GInit == st = InitSt /\ last = "init"

GNext ==
    \/ EnMonUp(st) /\ st' = MonUp(st) /\ last' = "monup"
    \/ EnMonClose(st) /\ st' = MonClose(st) /\ last' = "monclose"
    \/ \E d \in Dets :
          \/ EnGNetDown(st, d) /\ st' = GNetDown(st, d) /\ last' = "netdown:" \o ToS(d)
          \/ EnNetUp(st, d) /\ st' = NetUp(st, d) /\ last' = "netup:" \o ToS(d)
          \/ d \in StallDets /\ EnStall(st, d) /\ st' = Stall(st, d) /\ last' = "stall:" \o ToS(d)
          \/ EnUnstall(st, d) /\ st' = Unstall(st, d) /\ last' = "unstall:" \o ToS(d)
          \/ EnGDet(st, d) /\ st' = GDet(st, d) /\ last' = "det:" \o ToS(d)
          \/ EnGStep(st, d) /\ st' = GStep(st, d) /\ last' = "step:" \o ToS(d)
          \/ EnGTimeout(st, d) /\ st' = GTimeout(st, d) /\ last' = "timeout:" \o ToS(d)
          \/ EnRead(st, d) /\ st' = Read(st, d) /\ last' = "read:" \o ToS(d)
    \/ \E a \in Archs :
          \/ EnArchStart(st, a) /\ st' = ArchStart(st, a) /\ last' = "start:" \o ToS(a)
          \/ \E how \in Hows : EnArchEnd(st, a) /\ st' = ArchEnd(st, a, how) /\ last' = "end:" \o ToS(a) \o ":" \o how

GenView == <<st.lsn, st.net, st.stall, st.mst, st.run, st.det, st.conn, st.redial, st.ph, st.out, last>>

GParked == Parked(st)
\* the property holds of the gated compositions as well (they are behaviours of FD.tla)
GCompleteness == CompletenessSt(st)
GAccuracy == AccuracySt(st)
GInitialised == InitialisedSt(st)
=============================================================================
