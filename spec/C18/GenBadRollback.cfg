CONSTANTS
  Fix = "vars-rollback"
  N = 3
  Shared = {"x"}
  Locals = {}
  Pairs <- P31
  Tcp = FALSE
  MaxAtt = 4
  MaxPer = 2
  MaxOps = 2
  MaxChain = 1
  Aborts = TRUE
  SendLast = FALSE
  Record = TRUE
  OnlyBad = TRUE
INIT Init
NEXT Next
VIEW GenView
CHECK_DEADLOCK FALSE
