CONSTANTS
  Fix = "vars-rollback"
  N = 3
  Shared = {"x","y"}
  Locals = {}
  Pairs <- P31
  Tcp = FALSE
  MaxAtt = 5
  MaxPer = 2
  MaxOps = 2
  MaxChain = 2
  Aborts = TRUE
  SendLast = FALSE
  Record = TRUE
  OnlyBad = TRUE
INIT Init
NEXT Next
CHECK_DEADLOCK FALSE
