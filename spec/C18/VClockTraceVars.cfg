CONSTANT Fix = "vars"
INIT TInit
NEXT TNext
INVARIANT Conforms
CHECK_DEADLOCK FALSE
