------------------------------ MODULE MCVClock ------------------------------
(* Design level: every program and every interleaving of critical-section attempts (one     *)
(* attempt at a time, as under the scheduler gate) of N contexts over shared variables,     *)
(* archetype locals, channels and TCP mailboxes within small bounds, run on the M-spec of   *)
(* the clock plumbing (VClock.tla). Property: Causal -- when an attempt ends, its logged    *)
(* clock dominates the clock LOGGED for every attempt that wrote or relayed a value it read.*)
(* The same module is the random program generator (-simulate, Record = TRUE): each         *)
(* behaviour is printed as one case for harness/cmd/c18drv.                                 *)
EXTENDS VClock, Json

CONSTANTS N,          \* contexts 1..N
          Shared,     \* names of shared variables (subset of {"x", "y"})
          Locals,     \* names of archetype-local variables (subset of {"v", "w"})
          Pairs,      \* channels <<i, j>> from context i to context j
          Tcp,        \* TRUE: every context has a TCP mailbox
          MaxAtt,     \* attempts in total
          MaxPer,     \* attempts per context
          MaxOps,     \* reads/writes per attempt
          MaxChain,   \* longest relay chain
          Aborts,     \* TRUE: attempts may abort
          SendLast,   \* TRUE: after a TCP send an attempt does nothing that can grow its clock (no read, no shared
                      \* variable access): excludes the shape for which no small repair exists
          Record,     \* TRUE: keep the program text (generator mode)
          OnlyBad     \* generator mode: print only behaviours on which THIS model (Fix) violates Causal, i.e. TLC's
                      \* counterexamples become the programs replayed on the real runtime

VARIABLES S, cur, k, total, nops, reads, wrote, val, wval, chq, tq, ctaken, ttaken, csent, tsent, wlog, ok,
          opl, commits, hist, emitted
vars == <<S, cur, k, total, nops, reads, wrote, val, wval, chq, tq, ctaken, ttaken, csent, tsent, wlog, ok,
          opl, commits, hist, emitted>>

Ctx == 1..N
Tok0 == <<0, 0>>
ShCell(x) == "sh." \o x
LoCell(c, x) == "c" \o ToString(c) \o "." \o x
Tokens(ch) == {ch[i] : i \in 1..Len(ch)}
Last(s) == s[Len(s)]
NoOp == [o |-> "", r |-> "", i |-> 0, rel |-> 0]

Init == /\ S = S0 /\ cur = 0 /\ k = [c \in Ctx |-> 0] /\ total = 0 /\ nops = 0 /\ reads = <<>> /\ wrote = {}
        /\ val = [x \in {ShCell(x) : x \in Shared} \cup {LoCell(c, x) : c \in Ctx, x \in Locals} |-> <<Tok0>>]
        /\ wval = <<>> /\ chq = [p \in Pairs |-> <<>>] /\ tq = [c \in Ctx |-> <<>>]
        /\ ctaken = [p \in Pairs |-> 0] /\ ttaken = 0 /\ csent = <<>> /\ tsent = <<>>
        /\ wlog = <<>> /\ ok = TRUE
        /\ opl = <<>> /\ commits = [c \in Ctx |-> 0] /\ hist = <<>> /\ emitted = FALSE

Start(c) == /\ cur = 0 /\ total < MaxAtt /\ k[c] < MaxPer
            /\ S' = Begin(S, c) /\ cur' = c /\ k' = [k EXCEPT ![c] = @ + 1] /\ total' = total + 1
            /\ nops' = 0 /\ reads' = <<>> /\ wrote' = {} /\ wval' = <<>>
            /\ ctaken' = [p \in Pairs |-> 0] /\ ttaken' = 0 /\ csent' = <<>> /\ tsent' = <<>> /\ opl' = <<>>
            /\ UNCHANGED <<val, chq, tq, wlog, ok, commits, hist, emitted>>

InAttempt == cur # 0 /\ nops < MaxOps
(* after a TCP send nothing that can make the sink's clock grow: no read of any kind, no access to a shared variable *)
MayRead == ~(SendLast /\ tsent # <<>>)
NewTok == <<cur, k[cur]>>     \* all writes of an attempt are logged with one clock: the attempt is the token
Chain(r) == (IF r = 0 THEN <<>> ELSE reads[r]) \o <<NewTok>>
Relayable == {0} \cup {r \in 1..Len(reads) : reads[r] # <<>>}
Op(o, r, i, rel) == IF Record THEN Append(opl, [o |-> o, r |-> r, i |-> i, rel |-> rel]) ELSE opl
Stay == UNCHANGED <<cur, k, total, val, chq, tq, wlog, ok, commits, hist, emitted>>

CellsOf(c) == {[cell |-> ShCell(x), o |-> "s", r |-> x] : x \in Shared} \cup {[cell |-> LoCell(c, x), o |-> "l", r |-> x] : x \in Locals}
CurVal(cell) == IF cell \in DOMAIN wval THEN wval[cell] ELSE val[cell]

ReadVar(cd) == /\ InAttempt /\ MayRead /\ cd \in CellsOf(cur)
               /\ S' = Var(S, cur, cd.cell) /\ reads' = Append(reads, CurVal(cd.cell)) /\ nops' = nops + 1
               /\ opl' = Op("r" \o cd.o, cd.r, 0, 0)
               /\ UNCHANGED <<wrote, wval, ctaken, ttaken, csent, tsent>> /\ Stay
WriteVar(cd, r) == /\ InAttempt /\ cd \in CellsOf(cur) /\ r \in Relayable /\ (cd.o = "s" => MayRead) /\ Len(Chain(r)) <= MaxChain
                   /\ S' = Var(S, cur, cd.cell) /\ wval' = Put(wval, cd.cell, Chain(r))
                   /\ reads' = Append(reads, <<>>) /\ wrote' = wrote \cup {NewTok} /\ nops' = nops + 1
                   /\ opl' = Op("w" \o cd.o, cd.r, 0, r)
                   /\ UNCHANGED <<ctaken, ttaken, csent, tsent>> /\ Stay
SendChan(j, r) == /\ InAttempt /\ <<cur, j>> \in Pairs /\ r \in Relayable /\ Len(Chain(r)) <= MaxChain
                  /\ S' = Send(S, cur, "chan", NewTok) /\ csent' = Append(csent, [p |-> <<cur, j>>, ch |-> Chain(r)])
                  /\ reads' = Append(reads, <<>>) /\ wrote' = wrote \cup {NewTok} /\ nops' = nops + 1
                  /\ opl' = Op("so", "", j, r)
                  /\ UNCHANGED <<wval, ctaken, ttaken, tsent>> /\ Stay
RecvChan(i) == /\ InAttempt /\ MayRead /\ <<i, cur>> \in Pairs /\ ctaken[<<i, cur>>] < Len(chq[<<i, cur>>])
               /\ LET ch == chq[<<i, cur>>][ctaken[<<i, cur>>] + 1]
                  IN S' = Recv(S, cur, "chan", Last(ch)) /\ reads' = Append(reads, ch)
               /\ ctaken' = [ctaken EXCEPT ![<<i, cur>>] = @ + 1] /\ nops' = nops + 1
               /\ opl' = Op("ri", "", i, 0)
               /\ UNCHANGED <<wrote, wval, ttaken, csent, tsent>> /\ Stay
SendTcp(j, r) == /\ InAttempt /\ Tcp /\ j \in Ctx \ {cur} /\ r \in Relayable /\ Len(Chain(r)) <= MaxChain
                 /\ S' = Send(S, cur, "tcp", NewTok) /\ tsent' = Append(tsent, [d |-> j, ch |-> Chain(r)])
                 /\ reads' = Append(reads, <<>>) /\ wrote' = wrote \cup {NewTok} /\ nops' = nops + 1
                 /\ opl' = Op("st", "", j, r)
                 /\ UNCHANGED <<wval, ctaken, ttaken, csent>> /\ Stay
RecvTcp == /\ InAttempt /\ MayRead /\ Tcp /\ ttaken < Len(tq[cur])
           /\ LET ch == tq[cur][ttaken + 1]
              IN S' = Recv(S, cur, "tcp", Last(ch)) /\ reads' = Append(reads, ch)
           /\ ttaken' = ttaken + 1 /\ nops' = nops + 1
           /\ opl' = Op("rt", "", 0, 0)
           /\ UNCHANGED <<wrote, wval, ctaken, csent, tsent>> /\ Stay

RECURSIVE Deliver(_, _, _)
Deliver(q, sends, i) == IF i > Len(sends) THEN q
                        ELSE Deliver([q EXCEPT ![sends[i].p] = Append(@, sends[i].ch)], sends, i + 1)
RECURSIVE DeliverT(_, _, _)
DeliverT(q, sends, i) == IF i > Len(sends) THEN q
                         ELSE DeliverT([q EXCEPT ![sends[i].d] = Append(@, sends[i].ch)], sends, i + 1)
Drop(s, n) == SubSeq(s, n + 1, Len(s))

Finish(ab) ==
    /\ cur # 0 /\ (ab => Aborts)
    /\ LET fin == Logged(S, cur)
           good == \A i \in 1..Len(reads) : \A t \in Tokens(reads[i]) : t \in DOMAIN wlog => Dominates(fin, wlog[t])
       IN /\ ok' = (ok /\ good)
          /\ wlog' = [t \in DOMAIN wlog \cup wrote |-> IF t \in wrote THEN fin ELSE wlog[t]]
    /\ S' = End(S, cur, ab)
    /\ IF ab THEN UNCHANGED <<val, chq, tq>>
       ELSE /\ val' = [c \in DOMAIN val |-> IF c \in DOMAIN wval THEN wval[c] ELSE val[c]]
            /\ chq' = Deliver([p \in Pairs |-> Drop(chq[p], ctaken[p])], csent, 1)
            /\ tq' = DeliverT([tq EXCEPT ![cur] = Drop(@, ttaken)], tsent, 1)
    /\ cur' = 0 /\ nops' = 0 /\ reads' = <<>> /\ wrote' = {} /\ wval' = <<>>
    /\ ctaken' = [p \in Pairs |-> 0] /\ ttaken' = 0 /\ csent' = <<>> /\ tsent' = <<>> /\ opl' = <<>>
    /\ IF Record
       THEN /\ commits' = IF ab THEN commits ELSE [commits EXCEPT ![cur] = @ + 1]
            /\ hist' = Append(hist, [c |-> cur, sec |-> commits[cur] + 1, ops |-> opl, ab |-> ab,
                                     next |-> commits[cur] + 2])
       ELSE UNCHANGED <<commits, hist>>
    /\ UNCHANGED <<k, total, emitted>>

(* generator mode: print the finished behaviour as one case *)
Emit == /\ Record /\ ~emitted /\ cur = 0 /\ total = MaxAtt /\ (OnlyBad => ~ok)
        /\ PrintT("C18CASE " \o ToJson([n |-> N, atts |-> hist]))
        /\ emitted' = TRUE
        /\ UNCHANGED <<S, cur, k, total, nops, reads, wrote, val, wval, chq, tq, ctaken, ttaken, csent, tsent, wlog, ok,
                       opl, commits, hist>>

Next == \/ \E c \in Ctx : Start(c)
        \/ \E cd \in CellsOf(cur) : ReadVar(cd) \/ \E r \in 0..MaxOps : WriteVar(cd, r)
        \/ \E j \in Ctx : (\E r \in 0..MaxOps : SendChan(j, r) \/ SendTcp(j, r)) \/ RecvChan(j)
        \/ RecvTcp
        \/ Finish(FALSE) \/ Finish(TRUE)
        \/ Emit

Causal == ok

(* generator by exhaustive search (GenBadRollback.cfg): Record = TRUE with the program text hidden from    *)
(* the fingerprint, so TLC visits every history-free state once and each bad final state emits the        *)
(* program of the first path that reached it (run with -workers 1: breadth-first, deterministic).          *)
GenView == <<S, cur, k, total, nops, reads, wrote, val, wval, chq, tq, ctaken, ttaken, csent, tsent, wlog, ok, emitted>>

(* what the repaired runtime guarantees for the clock of a variable: no step makes it smaller -- in       *)
(* particular an aborted attempt leaves it at least at the clock logged for the last commit that touched  *)
(* the variable. Holds for Fix = "none" and "vars"; the seeded variant "vars-rollback" breaks it.         *)
VarClocksMonotone == [][\A zc \in DOMAIN S.vclk : zc \in DOMAIN S'.vclk /\ Dominates(S'.vclk[zc], S.vclk[zc])]_vars

(* channel topologies for the configuration files (a cfg cannot contain tuples) *)
P0 == {}
P12 == {<<1, 2>>}
P12_23 == {<<1, 2>>, <<2, 3>>}
P12_21 == {<<1, 2>>, <<2, 1>>}
P31 == {<<3, 1>>}
PAll == {<<1, 2>>, <<2, 1>>, <<1, 3>>, <<3, 1>>, <<2, 3>>, <<3, 2>>}
=============================================================================
