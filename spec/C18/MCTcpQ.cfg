CONSTANTS
  Fix = "vars"
  N = 3
  Shared = {"x"}
  Locals = {}
  Pairs <- P0
  Tcp = TRUE
  MaxAtt = 3
  MaxPer = 1
  MaxOps = 2
  MaxChain = 2
  Aborts = FALSE
  SendLast = TRUE
  Record = FALSE
  OnlyBad = FALSE
INIT Init
NEXT Next
INVARIANT Causal
PROPERTY VarClocksMonotone
CHECK_DEADLOCK FALSE
