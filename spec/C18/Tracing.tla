------------------------------ MODULE Tracing ------------------------------
(* P-spec of C18 as a trace specification ("I->S").                                       *)
(*                                                                                        *)
(* Input (trace.ndjson, written by harness/cmd/c18drv): executions of the real runtime     *)
(* with tracing enabled, one critical-section attempt per line, in the order in which the  *)
(* scheduler gate let the attempts run (one at a time, so this order IS the interleaving). *)
(* Each attempt line carries                                                               *)
(*   ops   the ground truth: the reads/writes the body really performed through            *)
(*         iface.Read / iface.Write (resource, indices, value, kind and cell key), ab =    *)
(*         whether the runtime aborted the attempt; values are tuples of unique tokens, so *)
(*         op.ch (the token chain) names every attempt that wrote or relayed the value;    *)
(*   logs  the raw JSON events the runtime's recorder emitted during that attempt (the     *)
(*         format TraceLink consumes: archetypeName, self, csElements, clock, isAbort).    *)
(* TLC folds the lines and evaluates the five parts of the property on every attempt.      *)
EXTENDS Naturals, Sequences, FiniteSets, TLC, Json

CONSTANT Report   \* TRUE: print one JSON verdict per failing line and keep folding (diagnosis run)

Trace == ndJsonDeserialize("trace.ndjson")

VARIABLES l,      \* next line to consume
          ctxs,   \* contexts of the current case: <<[a |-> archetype name, s |-> self (TLA+ text)], ...>>
          cnt,    \* cnt[c] = attempts of context c consumed so far
          comm,   \* committed store: cell key -> value text (archetype locals incl. .pc, shared variables)
          wclk,   \* token -> clock LOGGED for the attempt that wrote it (i.e. its clock at the end of the attempt)
          v       \* verdict on the line just consumed
vars == <<l, ctxs, cnt, comm, wclk, v>>

AllTrue == [once |-> TRUE, exact |-> TRUE, hints |-> TRUE, replay |-> TRUE, own |-> TRUE, causal |-> TRUE,
            badCausal |-> {}, badEl |-> 0]

---------------------------------------------------------------------------------
(* vector clocks as logged: [[["A","1"],2], [["B","3"],1]]  ->  function (name, self) -> n *)
ClockOf(ev) == LET s == ev.clock
                   D == {s[i][1] : i \in 1..Len(s)}
               IN [k \in D |-> LET i == CHOOSE j \in 1..Len(s) : s[j][1] = k IN s[i][2]]
Get(clk, k) == IF k \in DOMAIN clk THEN clk[k] ELSE 0
Dominates(a, b) == \A k \in DOMAIN b : Get(a, k) >= b[k]

CtxKey(c) == <<ctxs[c].a, ctxs[c].s>>

(* one logged element equals one performed operation *)
SameEl(e, o, self) ==
    /\ e.tag = o.t
    /\ e.name.prefix = o.p /\ e.name.name = o.n /\ e.name.self = self
    /\ e.indices = o.ix
    /\ e.value = o.v

FirstBad(els, ops, self) ==
    IF Len(els) # Len(ops) THEN Len(els) + Len(ops) + 1
    ELSE LET B == {i \in 1..Len(els) : ~SameEl(els[i], ops[i], self)}
         IN IF B = {} THEN 0 ELSE CHOOSE i \in B : \A j \in B : i <= j

(* fold of the LOGGED elements over the store of variable cells: previous-value hints and   *)
(* reads of archetype-local state. The cell key comes from the ground truth (the log and    *)
(* the ground truth name the same resource and indices, checked by ExactElements first).    *)
RECURSIVE FoldEls(_, _, _, _)
FoldEls(els, ops, i, acc) ==
    IF i > Len(els) THEN acc
    ELSE LET e == els[i]
             o == ops[i]
             known == o.key \in DOMAIN acc.st
         IN IF o.kind \notin {"local", "shared"} THEN FoldEls(els, ops, i + 1, acc)
            ELSE IF e.tag = "read"
            THEN FoldEls(els, ops, i + 1,
                         [acc EXCEPT !.replay = @ /\ (o.kind = "local" => (known /\ acc.st[o.key] = e.value))])
            ELSE LET hintOk == IF "oldValue" \in DOMAIN e
                                THEN known /\ e.oldValue = acc.st[o.key]
                                ELSE o.kind # "local"      \* archetype-local variables always carry the hint
                 IN FoldEls(els, ops, i + 1,
                            [acc EXCEPT !.hint = @ /\ hintOk, !.st = (o.key :> e.value) @@ @])

Tokens(ch) == {ch[i] : i \in 1..Len(ch)}

---------------------------------------------------------------------------------
Init == /\ l = 1 /\ ctxs = <<>> /\ cnt = <<>> /\ comm = <<>> /\ wclk = <<>> /\ v = AllTrue

Ev(e) == l <= Len(Trace) /\ Trace[l].e = e /\ l' = l + 1

Say(verdict) == IF Report /\ verdict # AllTrue
                THEN PrintT("C18V " \o ToJson([l |-> l, once |-> verdict.once, exact |-> verdict.exact,
                                               hints |-> verdict.hints, replay |-> verdict.replay,
                                               own |-> verdict.own, causal |-> verdict.causal,
                                               badCausal |-> verdict.badCausal, badEl |-> verdict.badEl]))
                ELSE TRUE

NewCase == /\ Ev("case")
           /\ ctxs' = Trace[l].ctxs
           /\ cnt' = [c \in 1..Len(Trace[l].ctxs) |-> 0]
           /\ comm' = Trace[l].init
           /\ wclk' = <<>>
           /\ v' = AllTrue

Skip == /\ Ev("infra") /\ UNCHANGED <<ctxs, cnt, comm, wclk>> /\ v' = AllTrue

(* no event may appear outside an attempt (after the last one / for the Done label) *)
EndCase == /\ Ev("end")
           /\ LET x == Trace[l].extra
                  verdict == [AllTrue EXCEPT !.once = \A i \in 1..Len(x) : x[i] = 0]
              IN v' = verdict /\ Say(verdict)
           /\ UNCHANGED <<ctxs, cnt, comm, wclk>>

Attempt ==
    /\ Ev("att")
    /\ LET A == Trace[l]
           c == A.c
           k == cnt[c] + 1
           once == Len(A.logs) = 1
       IN IF ~once
          THEN LET verdict == [AllTrue EXCEPT !.once = FALSE] IN
               /\ v' = verdict /\ Say(verdict)
               /\ cnt' = [cnt EXCEPT ![c] = k]
               /\ UNCHANGED <<comm, wclk>>
          ELSE LET L == A.logs[1]
                   clk == ClockOf(L)
                   bad == FirstBad(L.csElements, A.ops, ctxs[c].s)
                   exact == /\ L.archetypeName = ctxs[c].a /\ L.self = ctxs[c].s
                            /\ L.isAbort = A.ab
                            /\ bad = 0
                   f == IF bad = 0
                        THEN FoldEls(L.csElements, A.ops, 1, [st |-> comm, hint |-> TRUE, replay |-> TRUE])
                        ELSE [st |-> comm, hint |-> TRUE, replay |-> TRUE]
                   badC == UNION {{<<i, t>> : t \in {u \in Tokens(A.ops[i].ch) :
                                                        u \in DOMAIN wclk /\ ~Dominates(clk, wclk[u])}} :
                                  i \in {j \in 1..Len(A.ops) : A.ops[j].t = "read"}}
                   newToks == {A.ops[i].ch[Len(A.ops[i].ch)] :
                                  i \in {j \in 1..Len(A.ops) : A.ops[j].t = "write" /\ Len(A.ops[j].ch) > 0}}
                   verdict == [once |-> TRUE, exact |-> exact, hints |-> f.hint, replay |-> f.replay,
                               own |-> Get(clk, CtxKey(c)) = k, causal |-> badC = {},
                               badCausal |-> badC, badEl |-> bad]
               IN /\ v' = verdict /\ Say(verdict)
                  /\ cnt' = [cnt EXCEPT ![c] = k]
                  /\ comm' = IF L.isAbort \/ bad # 0 THEN comm ELSE f.st
                  /\ wclk' = [t \in DOMAIN wclk \cup newToks |-> IF t \in newToks THEN clk ELSE wclk[t]]
    /\ UNCHANGED ctxs

Next == NewCase \/ Skip \/ EndCase \/ Attempt

---------------------------------------------------------------------------------
(* C18, part by part *)
OncePerAttempt == v.once      \* exactly one event per attempt (committed or aborted), none outside attempts
ExactElements  == v.exact     \* archetype, self, outcome, and the sequence of reads/writes with indices and values
OldValueHints  == v.hints     \* hint = previous value of that variable cell; always present for archetype locals
ReplayLocals   == v.replay    \* folding the committed writes reproduces every logged read of archetype-local state
OwnClock       == v.own       \* own component of the logged clock = number of the attempt
Causal         == v.causal    \* reader's clock dominates the logged clock of every writer/relayer of the value read
=============================================================================
