CONSTANTS
  Fix = "none"
  N = 3
  Shared = {"x"}
  Locals = {}
  Pairs <- P12
  Tcp = TRUE
  MaxAtt = 6
  MaxPer = 3
  MaxOps = 2
  MaxChain = 3
  Aborts = TRUE
  SendLast = FALSE
  Record = TRUE
  OnlyBad = TRUE
INIT Init
NEXT Next
CHECK_DEADLOCK FALSE
