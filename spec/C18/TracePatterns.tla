------------------------------ MODULE TracePatterns ------------------------------
(* Directed family of small communication patterns for C18 (2-4 contexts, <= 4 sections     *)
(* each). TLC evaluates the family and exports it (cases.ndjson) for harness/cmd/c18drv,    *)
(* which runs every case on the real runtime under the scheduler gate. A case is the        *)
(* global schedule: the sequence of critical-section attempts in the order they run.        *)
(*   att = [c, sec, ops, ab, next]   context, section label, operations, body aborts after  *)
(*                                   its ops, section to go to on commit (0 = Done)         *)
(*   op  = [o, r, i, rel]            rl/wl local r; rf/wf local f[i]; rs/ws shared r;        *)
(*                                   rm/wm shared m[i]; so/ri channel to/from peer i;        *)
(*                                   st TCP send to i; rt TCP receive (own mailbox);         *)
(*                                   rel = position of an earlier read op whose value this   *)
(*                                   write relays (the chain of writer tokens is extended)   *)
(* Edge kinds: "sh" shared variable x, "sy" shared variable y, "shm" cell of the shared      *)
(* function m, "ch" Output->InputChan, "tcp" TCP mailbox.                                    *)
EXTENDS Naturals, Sequences, TLC, Json

O(o, r, i, rel) == [o |-> o, r |-> r, i |-> i, rel |-> rel]
rl(x) == O("rl", x, 0, 0)
wl(x) == O("wl", x, 0, 0)
wlr(x, rel) == O("wl", x, 0, rel)
rf(i) == O("rf", "", i, 0)
wf(i) == O("wf", "", i, 0)

(* write / read over an edge of kind K from context a to context b *)
Put(K, a, b, rel) == CASE K = "sh"  -> O("ws", "x", 0, rel)
                       [] K = "sy"  -> O("ws", "y", 0, rel)
                       [] K = "shm" -> O("wm", "", 1, rel)
                       [] K = "ch"  -> O("so", "", b, rel)
                       [] K = "tcp" -> O("st", "", b, rel)
Take(K, a, b) ==      CASE K = "sh"  -> O("rs", "x", 0, 0)
                       [] K = "sy"  -> O("rs", "y", 0, 0)
                       [] K = "shm" -> O("rm", "", 1, 0)
                       [] K = "ch"  -> O("ri", "", a, 0)
                       [] K = "tcp" -> O("rt", "", 0, 0)

A(c, sec, ops, next) == [c |-> c, sec |-> sec, ops |-> ops, ab |-> FALSE, next |-> next]
X(c, sec, ops) == [c |-> c, sec |-> sec, ops |-> ops, ab |-> TRUE, next |-> sec]
Case(id, n, atts) == [id |-> id, n |-> n, atts |-> atts]

Kinds == <<"sh", "shm", "ch", "tcp">>
(* a second edge of a different medium, used for the "witness" C -> A *)
Other(K) == CASE K = "sh" -> "sy" [] K = "shm" -> "sy" [] K = "ch" -> "tcp" [] K = "tcp" -> "ch"

(* T1  direct edge 1 -> 2 *)
T1(K) == Case("direct:" \o K, 2,
              << A(1, 1, <<Put(K, 1, 2, 0)>>, 0), A(2, 1, <<Take(K, 1, 2)>>, 0) >>)

(* T2  write, THEN witness something from elsewhere in the same section (DESIGN section 8 #13):       *)
(*     3 writes J(3->1); 1 writes K(1->2) and then reads J; 2 reads K                                  *)
T2(K, J) == Case("write-then-witness:" \o K \o ":via=" \o J, 3,
              << A(3, 1, <<Put(J, 3, 1, 0)>>, 0),
                 A(1, 1, <<Put(K, 1, 2, 0), Take(J, 3, 1)>>, 0),
                 A(2, 1, <<Take(K, 1, 2)>>, 0) >>)
(* T2w the later operation is a WRITE of a shared variable (it witnesses the variable's clock too)   *)
T2w(K) == Case("write-then-write-shared:" \o K, 3,
              << A(3, 1, <<Put("sy", 3, 1, 0)>>, 0),
                 A(1, 1, <<Put(K, 1, 2, 0), Put("sy", 1, 3, 0)>>, 0),
                 A(2, 1, <<Take(K, 1, 2)>>, 0) >>)
(* T2o witness first, then write: fine on every tree *)
T2o(K, J) == Case("witness-then-write:" \o K \o ":via=" \o J, 3,
              << A(3, 1, <<Put(J, 3, 1, 0)>>, 0),
                 A(1, 1, <<Take(J, 3, 1), Put(K, 1, 2, 0)>>, 0),
                 A(2, 1, <<Take(K, 1, 2)>>, 0) >>)

(* T3  relay 1 -> 2 -> 3 in one section of 2 (the value is forwarded, chain of length 2)             *)
T3(K, J) == Case("relay2:" \o K \o ":" \o J, 3,
              << A(1, 1, <<Put(K, 1, 2, 0)>>, 0),
                 A(2, 1, <<Take(K, 1, 2), Put(J, 2, 3, 1)>>, 0),
                 A(3, 1, <<Take(J, 2, 3)>>, 0) >>)
(* T4  relay of length 3 with a hop through an archetype-local variable and a second section         *)
T4(K, J) == Case("relay3-local-hop:" \o K \o ":" \o J, 3,
              << A(1, 1, <<Put(K, 1, 2, 0)>>, 2),
                 A(2, 1, <<Take(K, 1, 2), wlr("v", 1)>>, 2),
                 A(2, 2, <<rl("v"), Put(J, 2, 3, 1)>>, 0),
                 A(3, 1, <<Take(J, 2, 3), Put(K, 3, 1, 1)>>, 0),
                 A(1, 2, <<Take(K, 3, 1)>>, 0) >>)

(* T5  aborts: after a write (the value must not escape, the retry writes a fresh one), after a read  *)
(*     (the value is read again), with the attempts of another context in between                     *)
T5(K) == Case("aborts:" \o K, 2,
              << X(1, 1, <<wl("v"), Put(K, 1, 2, 0)>>),
                 A(1, 1, <<wl("v"), Put(K, 1, 2, 0)>>, 2),
                 X(2, 1, <<Take(K, 1, 2), wl("w")>>),
                 A(1, 2, <<rl("v")>>, 0),
                 A(2, 1, <<Take(K, 1, 2), wlr("w", 1)>>, 2),
                 A(2, 2, <<rl("w")>>, 0) >>)
(* T6  write-then-witness where the first attempt of the writer aborts after the witness              *)
T6(K, J) == Case("abort-after-witness:" \o K \o ":via=" \o J, 3,
              << A(3, 1, <<Put(J, 3, 1, 0)>>, 0),
                 X(1, 1, <<Put(K, 1, 2, 0), Take(J, 3, 1)>>),
                 A(1, 1, <<Put(K, 1, 2, 0)>>, 0),
                 A(2, 1, <<Take(K, 1, 2)>>, 0) >>)
(* T7  two writers, one reader; the reader reads twice in one section                                 *)
T7(K) == Case("two-writers:" \o K, 3,
              << A(1, 1, <<Put(K, 1, 3, 0)>>, 0),
                 A(2, 1, <<Put(K, 2, 3, 0)>>, 0),
                 A(3, 1, <<Take(K, 1, 3)>>, 2),
                 A(3, 2, <<Take(K, 2, 3)>>, 0) >>)
(* T8  ping-pong over four sections                                                                   *)
T8(K) == Case("ping-pong:" \o K, 2,
              << A(1, 1, <<Put(K, 1, 2, 0)>>, 2),
                 A(2, 1, <<Take(K, 1, 2), Put(K, 2, 1, 1)>>, 2),
                 A(1, 2, <<Take(K, 2, 1), Put(K, 1, 2, 1)>>, 3),
                 A(2, 2, <<Take(K, 1, 2)>>, 0),
                 A(1, 3, <<rl("v")>>, 0) >>)

(* T9  (seed C18-B) write-then-witness, then an ABORTED attempt is the next access to the variable,     *)
(*     then a fresh reader reads it. The aborted attempt reads or writes the variable and is made by   *)
(*     the writer itself (its next section), by the later reader, or by a third context. The clock of  *)
(*     the variable must not go back below the clock logged for the writer's commit: the reader's      *)
(*     clock has to contain what the writer witnessed (the producer's component) after its write.      *)
(*     K = "sh" | "shm"; J = medium of the witnessed value; by = "writer" | "reader" | "third";        *)
(*     mode = "r" (read-then-abort) | "w" (write-then-abort). The producer is the last context.        *)
T9(K, J, by, mode) ==
    LET n == IF by = "third" THEN 4 ELSE 3
        p == n
        a == CASE by = "writer" -> 1 [] by = "reader" -> 2 [] by = "third" -> 3
        touch == IF mode = "r" THEN Take(K, 1, a) ELSE Put(K, a, 2, 0)
    IN Case("abort-next-access:" \o K \o ":via=" \o J \o ":by=" \o by \o ":" \o mode, n,
              << A(p, 1, <<Put(J, p, 1, 0)>>, 0),
                 A(1, 1, <<Put(K, 1, 2, 0), Take(J, p, 1)>>, IF by = "writer" THEN 2 ELSE 0),
                 X(a, IF by = "writer" THEN 2 ELSE 1, <<touch>>),
                 A(2, 1, <<Take(K, 1, 2)>>, 0) >>)
(* T9h the same with the value relayed on: reader 2 stores it in an archetype local, forwards it from  *)
(*     its next section over a channel to 3; every reader down the chain must dominate the writer      *)
T9h(K, J) == Case("abort-next-access-relay-local-hop:" \o K \o ":via=" \o J, 4,
              << A(4, 1, <<Put(J, 4, 1, 0)>>, 0),
                 A(1, 1, <<Put(K, 1, 2, 0), Take(J, 4, 1)>>, 2),
                 X(1, 2, <<Take(K, 1, 1)>>),
                 A(2, 1, <<Take(K, 1, 2), wlr("v", 1)>>, 2),
                 A(2, 2, <<rl("v"), Put("ch", 2, 3, 1)>>, 0),
                 A(3, 1, <<Take("ch", 2, 3)>>, 0) >>)
(* T9c two aborted accesses in a row and a committed READ in between heal nothing they should not:     *)
(*     abort by a third context, abort by the writer, then the reader                                   *)
T9c(K, J) == Case("abort-next-access-twice:" \o K \o ":via=" \o J, 4,
              << A(4, 1, <<Put(J, 4, 1, 0)>>, 0),
                 A(1, 1, <<Put(K, 1, 2, 0), Take(J, 4, 1)>>, 2),
                 X(3, 1, <<Put(K, 3, 2, 0)>>),
                 X(1, 2, <<Take(K, 1, 1), Put(K, 1, 2, 1)>>),
                 A(2, 1, <<Take(K, 1, 2)>>, 0) >>)

(* archetype-local state only: hints, read-your-writes, indexed cells, aborted writes, loops          *)
L1 == Case("locals:hints-chain", 2,
           << A(1, 1, <<wl("v"), wl("v"), rl("v"), wlr("w", 3), rl("w")>>, 2),
              A(1, 2, <<rl("v"), rl("w"), wl("w")>>, 0) >>)
L2 == Case("locals:indexed", 2,
           << A(1, 1, <<wf(1), rf(1), rf(2), wf(2), wf(1)>>, 2),
              X(1, 2, <<wf(2), rf(2)>>),
              A(1, 2, <<rf(1), rf(2)>>, 0) >>)
L3 == Case("locals:abort-rollback", 2,
           << A(1, 1, <<wl("v")>>, 2),
              X(1, 2, <<rl("v"), wl("v"), wl("w"), rl("v")>>),
              X(1, 2, <<rl("v"), rl("w")>>),
              A(1, 2, <<rl("v"), wl("v")>>, 2),
              A(1, 2, <<rl("v")>>, 0),
              A(2, 1, <<rl("v")>>, 0) >>)
L4 == Case("locals:no-ops-sections", 2,
           << A(1, 1, <<>>, 1), A(1, 1, <<>>, 2), X(1, 2, <<>>), A(1, 2, <<>>, 0), A(2, 1, <<>>, 0) >>)
(* an empty channel: the read aborts the attempt inside the runtime (timeout), nothing but .pc logged *)
E1 == Case("chan:empty-read-aborts", 2,
           << X(2, 1, <<Take("ch", 1, 2)>>),
              A(1, 1, <<Put("ch", 1, 2, 0)>>, 0),
              A(2, 1, <<Take("ch", 1, 2)>>, 0) >>)
(* shared function cells share one clock: write m[1], another context reads m[2] then m[1]            *)
M1 == Case("shared:indexed-cells", 3,
           << A(1, 1, <<O("wm", "", 1, 0), O("wm", "", 2, 0)>>, 0),
              A(2, 1, <<O("rm", "", 2, 0), O("wm", "", 2, 1)>>, 0),
              A(3, 1, <<O("rm", "", 1, 0), O("rm", "", 2, 0)>>, 0) >>)
(* mixed media in one section: receive on TCP, forward on a channel and store in a shared variable    *)
X1 == Case("mixed:tcp-chan-shared", 3,
           << A(1, 1, <<O("st", "", 2, 0)>>, 0),
              A(2, 1, <<O("rt", "", 0, 0), O("ws", "x", 0, 1), O("so", "", 3, 1)>>, 0),
              A(3, 1, <<O("ri", "", 2, 0), O("rs", "x", 0, 0)>>, 0) >>)

SeqOf(f(_), s) == [i \in 1..Len(s) |-> f(s[i])]
T2all == [i \in 1..Len(Kinds) |-> T2(Kinds[i], Other(Kinds[i]))]
T2same == << T2("sh", "ch"), T2("ch", "sh"), T2("tcp", "sh"), T2("shm", "tcp") >>
T2oall == [i \in 1..Len(Kinds) |-> T2o(Kinds[i], Other(Kinds[i]))]
T3all == << T3("sh", "sy"), T3("ch", "ch"), T3("tcp", "tcp"), T3("ch", "tcp"), T3("tcp", "sh"), T3("shm", "ch") >>
T4all == << T4("ch", "ch"), T4("tcp", "tcp"), T4("sh", "ch"), T4("ch", "shm") >>
T6all == << T6("sh", "sy"), T6("ch", "sh"), T6("tcp", "sh") >>

T9by == <<"writer", "reader", "third">>
T9all == [i \in 1..12 |->
            LET K == IF i <= 6 THEN "sh" ELSE "shm"
                by == T9by[((i - 1) % 6) \div 2 + 1]
                mode == IF i % 2 = 1 THEN "r" ELSE "w"
                J == CASE K = "sh" /\ mode = "r" -> "ch" [] K = "sh" /\ mode = "w" -> "sy"
                       [] K = "shm" /\ mode = "r" -> "sy" [] K = "shm" /\ mode = "w" -> "tcp"
            IN T9(K, J, by, mode)]

Cases == SeqOf(T1, Kinds) \o T2all \o T2same \o SeqOf(T2w, Kinds) \o T2oall \o T3all \o T4all
         \o SeqOf(T5, Kinds) \o T6all \o SeqOf(T7, Kinds) \o SeqOf(T8, Kinds)
         \o T9all \o << T9h("sh", "ch"), T9c("shm", "ch") >>
         \o << L1, L2, L3, L4, E1, M1, X1 >>

ASSUME ndJsonSerialize("cases.ndjson", Cases)
ASSUME PrintT(<<"C18 directed cases", Len(Cases)>>)

VARIABLE done
Init == done = FALSE
Next == done' = TRUE /\ ~done
=============================================================================
