------------------------------ MODULE VClock ------------------------------
(* M-spec (implementation shaped) of the vector-clock plumbing of the PGo runtime:         *)
(*   trace/vclock_sink.go   Inc at the start of every attempt, Witness on reads            *)
(*   archetypeinterface.go  Write wraps the value with the sink's clock AT WRITE TIME,     *)
(*                          Read witnesses the clock carried by the value                   *)
(*   archetyperesource.go   a variable (archetype local, LocalShared, and every indexed     *)
(*                          cell of it) owns ONE clock; reading merges the reader's clock   *)
(*                          into it, writing merges it into the writer's                    *)
(*   resources/channels.go  OutputChan stamps the buffered values in Commit                 *)
(*   resources/tcpmailboxes.go  the value goes on the wire when written, with the clock it  *)
(*                          has then; an aborted read re-queues it merged with the reader   *)
(*   mpcalctx.go            commit()/abort() log the attempt with the sink's clock at END   *)
(* The operators work on a state record S and are used by                                   *)
(*   MCVClock.tla     all programs x schedules within bounds, property Causal               *)
(*   VClockTrace.tla  conformance of the clocks logged by the real runtime (drift)          *)
EXTENDS Naturals, Sequences, FiniteSets, TLC

CONSTANT Fix    \* "none": the pinned tree;  "vars": variables re-stamped with the committing clock
                \* (patches/C18-fix-restamp-variable-clock-on-commit.diff) -- the repaired runtime;
                \* "vars-rollback": DELIBERATELY BROKEN variant of "vars" (seed C18-B): Commit snapshots the
                \* variable's clock BEFORE the re-stamp and Abort restores that snapshot, so an aborted attempt
                \* takes the variable's clock back below the clock logged for its last committed writer.
                \* Used only as a vacuity guard (MCVarsRollback.cfg must be rejected on Causal) and as a
                \* generator of counterexample programs (GenBadRollback.cfg).

Max(a, b) == IF a >= b THEN a ELSE b
Get(clk, k) == IF k \in DOMAIN clk THEN clk[k] ELSE 0
Merge(a, b) == [k \in DOMAIN a \cup DOMAIN b |-> Max(Get(a, k), Get(b, k))]
Inc(a, k) == [j \in DOMAIN a \cup {k} |-> IF j = k THEN Get(a, k) + 1 ELSE a[j]]
Dominates(a, b) == \A k \in DOMAIN b : Get(a, k) >= b[k]
Empty == <<>>     \* the empty clock (a function with empty domain)

At(f, k) == IF k \in DOMAIN f THEN f[k] ELSE Empty
Put(f, k, x) == [j \in DOMAIN f \cup {k} |-> IF j = k THEN x ELSE f[j]]

(* S = [sink  : context key -> clock,                                                        *)
(*      vclk  : clock cell (variable) -> clock,                                              *)
(*      msg   : token -> clock travelling with the message whose last token it is,           *)
(*      dirty : set of clock cells touched by the attempt in flight,                         *)
(*      out   : set of [tok, kind, clk] written to a channel/mailbox by the attempt in flight,*)
(*      inp   : set of [tok, kind] read from a channel/mailbox by the attempt in flight,     *)
(*      old   : clock cell -> snapshot restored by Abort; ONLY used by Fix = "vars-rollback"  *)
(*              (stays empty otherwise: the runtime keeps no second clock per variable)]      *)
(* What the runtime does with a variable's clock (LocalArchetypeResource.clock):              *)
(*   it only ever GROWS. Reads and writes merge (Var); a commit merges the committing clock   *)
(*   (Fix = "vars"); an ABORTED attempt rolls back the VALUE but leaves the CLOCK as it is -- *)
(*   in particular the clock never goes back below the clock logged for the last commit that  *)
(*   touched the variable (MCVClock!VarClocksMonotone, checked as a step property).           *)
S0 == [sink |-> <<>>, vclk |-> <<>>, msg |-> <<>>, dirty |-> {}, out |-> {}, inp |-> {}, old |-> <<>>]

Begin(S, c) == [S EXCEPT !.sink = Put(@, c, Inc(At(S.sink, c), c)), !.dirty = {}, !.out = {}, !.inp = {}]

(* read or write of a variable cell: afterwards both clocks are the union *)
Var(S, c, cell) == LET n == Merge(At(S.vclk, cell), At(S.sink, c))
                   IN [S EXCEPT !.vclk = Put(@, cell, n), !.sink = Put(@, c, n), !.dirty = @ \cup {cell}]

Send(S, c, kind, tok) == [S EXCEPT !.out = @ \cup {[tok |-> tok, kind |-> kind, clk |-> At(S.sink, c)]}]

Recv(S, c, kind, tok) == [S EXCEPT !.sink = Put(@, c, Merge(At(S.sink, c), At(S.msg, tok))),
                                   !.inp = @ \cup {[tok |-> tok, kind |-> kind]}]

Logged(S, c) == At(S.sink, c)     \* the clock of the event, commit or abort

End(S, c, aborted) ==
    LET fin == At(S.sink, c) IN
    IF aborted
    THEN \* sends are dropped; a value read from a TCP mailbox goes back merged with the reader's clock
         LET back == {m.tok : m \in {x \in S.inp : x.kind = "tcp"}}
             \* the clocks of the variables touched by the aborted attempt stay as they are (they may keep
             \* what the aborted reader/writer merged into them: larger is safe); only the seeded variant
             \* restores the snapshot taken by the last commit
             vclkA == IF Fix = "vars-rollback"
                      THEN [v \in DOMAIN S.vclk |-> IF v \in S.dirty THEN At(S.old, v) ELSE S.vclk[v]]
                      ELSE S.vclk
         IN
         [S EXCEPT !.msg = [t \in DOMAIN S.msg |-> IF t \in back THEN Merge(S.msg[t], fin) ELSE S.msg[t]],
                   !.vclk = vclkA, !.dirty = {}, !.out = {}, !.inp = {}]
    ELSE LET sent == {m.tok : m \in S.out}
             clkOf(t) == LET m == CHOOSE x \in S.out : x.tok = t IN IF m.kind = "chan" THEN fin ELSE m.clk
             msg2 == [t \in DOMAIN S.msg \cup sent |-> IF t \in sent THEN clkOf(t) ELSE S.msg[t]]
             vclk2 == IF Fix \in {"vars", "vars-rollback"}
                      THEN [v \in DOMAIN S.vclk |-> IF v \in S.dirty THEN Merge(S.vclk[v], fin) ELSE S.vclk[v]]
                      ELSE S.vclk
             \* seeded variant: the snapshot is the clock BEFORE the re-stamp (the write-time stamp)
             old2 == IF Fix = "vars-rollback"
                     THEN [v \in DOMAIN S.old \cup S.dirty |-> IF v \in S.dirty THEN S.vclk[v] ELSE S.old[v]]
                     ELSE S.old
         IN [S EXCEPT !.msg = msg2, !.vclk = vclk2, !.old = old2, !.dirty = {}, !.out = {}, !.inp = {}]
=============================================================================
