CONSTANTS
  Fix = "none"
  N = 3
  Shared = {"x","y"}
  Locals = {"v"}
  Pairs <- PAll
  Tcp = TRUE
  MaxAtt = 7
  MaxPer = 3
  MaxOps = 3
  MaxChain = 3
  Aborts = TRUE
  SendLast = FALSE
  Record = TRUE
  OnlyBad = TRUE
INIT Init
NEXT Next
CHECK_DEADLOCK FALSE
