------------------------------ MODULE VClockTrace ------------------------------
(* M-level conformance: the clocks logged by the real runtime (trace.ndjson, see Tracing.tla) *)
(* are those the M-spec VClock.tla computes for the same operations. A mismatch is model     *)
(* DRIFT (the implementation no longer matches the transcription), never a verdict.          *)
(* Run with Fix = "none" (pinned tree) and Fix = "vars" (repaired tree).                      *)
EXTENDS VClock, Json

Trace == ndJsonDeserialize("trace.ndjson")
VARIABLES l, ctxs, S, conf
tvars == <<l, ctxs, S, conf>>

ClockOf(ev) == LET s == ev.clock
                   D == {s[i][1] : i \in 1..Len(s)}
               IN [k \in D |-> LET i == CHOOSE j \in 1..Len(s) : s[j][1] = k IN s[i][2]]
CtxKey(c) == <<ctxs[c].a, ctxs[c].s>>
Last(s) == s[Len(s)]

RECURSIVE Ops(_, _, _, _)
Ops(St, c, ops, i) ==
    IF i > Len(ops) THEN St
    ELSE LET o == ops[i]
             St2 == IF o.kind \in {"local", "shared"} THEN Var(St, c, o.ck)
                    ELSE IF o.kind \notin {"chan", "tcp"} \/ Len(o.ch) = 0 THEN St   \* resources without clocks
                    ELSE IF o.t = "write" THEN Send(St, c, o.kind, Last(o.ch))
                    ELSE Recv(St, c, o.kind, Last(o.ch))
         IN Ops(St2, c, ops, i + 1)

TInit == l = 1 /\ ctxs = <<>> /\ S = S0 /\ conf = TRUE
Ev(e) == l <= Len(Trace) /\ Trace[l].e = e /\ l' = l + 1
TCase == Ev("case") /\ ctxs' = Trace[l].ctxs /\ S' = S0 /\ conf' = TRUE
TSkip == (Ev("infra") \/ Ev("end")) /\ UNCHANGED <<ctxs, S>> /\ conf' = TRUE
TAtt == /\ Ev("att")
        /\ LET A == Trace[l]
               c == CtxKey(A.c)
               St == Ops(Begin(S, c), c, A.ops, 1)
           IN /\ conf' = (Len(A.logs) = 1 => ClockOf(A.logs[1]) = Logged(St, c))
              /\ S' = End(St, c, A.ab)
        /\ UNCHANGED ctxs
TNext == TCase \/ TSkip \/ TAtt

Conforms == conf
=============================================================================
