CONSTANTS
  Fix = "none"
  N = 3
  Shared = {"x","y"}
  Locals = {}
  Pairs <- P0
  Tcp = FALSE
  MaxAtt = 6
  MaxPer = 3
  MaxOps = 2
  MaxChain = 3
  Aborts = TRUE
  SendLast = FALSE
  Record = TRUE
  OnlyBad = TRUE
INIT Init
NEXT Next
CHECK_DEADLOCK FALSE
