CONSTANTS
  Fix = "vars"
  N = 3
  Shared = {"x","y"}
  Locals = {}
  Pairs = {}
  Tcp = FALSE
  MaxAtt = 4
  MaxPer = 2
  MaxOps = 3
  MaxChain = 2
  Aborts = TRUE
  SendLast = FALSE
  Record = FALSE
INIT Init
NEXT Next
INVARIANT Causal
CHECK_DEADLOCK FALSE
