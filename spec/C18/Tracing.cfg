CONSTANT Report = FALSE
INIT Init
NEXT Next
INVARIANTS OncePerAttempt ExactElements OldValueHints ReplayLocals OwnClock Causal
CHECK_DEADLOCK FALSE
