CONSTANTS
  Fix = "vars-rollback"
  N = 3
  Shared = {"x"}
  Locals = {}
  Pairs <- P31
  Tcp = FALSE
  MaxAtt = 4
  MaxPer = 2
  MaxOps = 2
  MaxChain = 1
  Aborts = TRUE
  SendLast = FALSE
  Record = FALSE
  OnlyBad = FALSE
INIT Init
NEXT Next
INVARIANT Causal
CHECK_DEADLOCK FALSE
