CONSTANT Fix = "none"
INIT TInit
NEXT TNext
INVARIANT Conforms
CHECK_DEADLOCK FALSE
