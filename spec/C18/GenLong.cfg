CONSTANTS
  Fix = "vars"
  N = 3
  Shared = {"x","y"}
  Locals = {"v"}
  Pairs <- PAll
  Tcp = TRUE
  MaxAtt = 12
  MaxPer = 4
  MaxOps = 4
  MaxChain = 4
  Aborts = TRUE
  SendLast = FALSE
  Record = TRUE
INIT Init
NEXT Next
CHECK_DEADLOCK FALSE
