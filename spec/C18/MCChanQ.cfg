CONSTANTS
  Fix = "vars"
  N = 2
  Shared = {"x"}
  Locals = {"v"}
  Pairs <- P12
  Tcp = FALSE
  MaxAtt = 3
  MaxPer = 2
  MaxOps = 2
  MaxChain = 3
  Aborts = TRUE
  SendLast = FALSE
  Record = FALSE
  OnlyBad = FALSE
INIT Init
NEXT Next
INVARIANT Causal
PROPERTY VarClocksMonotone
CHECK_DEADLOCK FALSE
