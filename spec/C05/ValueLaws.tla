------------------------------ MODULE ValueLaws ------------------------------
(* C05 P-spec: value equality, hashing, printing and wire encoding are coherent.            *)
(*                                                                                          *)
(* The universe is the constructor universe of ValTerms (shared with C03), grouped in       *)
(* CLASSES of mutually comparable values (TLC refuses to compare values of different kinds),*)
(* every value present under several construction orders (RevDeep / Rot / Dup variants:     *)
(* other insertion order, duplicated insertion).                                            *)
(*   - TLC's = on Val(s), Val(t) is the equality oracle (TlcEq);                            *)
(*   - MEq is the implementation-shaped model (M-spec) of tla.Value.Equal: structural,      *)
(*     order-insensitive for sets and functions, and -- the library's deliberate deviation  *)
(*     -- treating a tuple and a function with domain 1..n as different kinds;              *)
(*   - the design-level theorem checked by TLC on every pair of a class:                    *)
(*         TlcEq(s, t)  <=>  MEq(AsFn(s), AsFn(t))                                          *)
(*     i.e. the modelled equality is TLA+ equality up to exactly that representation split. *)
(* The laws on what the real library did are stated in ValueLawsObs.                        *)
EXTENDS ValTerms, SequencesExt, Json

CONSTANTS Tier, Seed
Thorough == Tier = "thorough"

(* ------------------------------------------------------------------ classes *)
RECURSIVE Uniq(_)
Uniq(q) == IF Len(q) = 0 THEN <<>>
           ELSE LET zr == Uniq(SubSeq(q, 1, Len(q) - 1)) IN
                IF \E zi \in 1..Len(zr) : zr[zi] = q[Len(q)] THEN zr ELSE Append(zr, q[Len(q)])
Variants(L) == Uniq(FlatSeq([zi \in 1..Len(L) |-> <<L[zi], RevDeep(L[zi]), Rot(L[zi]), Dup(L[zi])>>]))

StrsAscii == <<TS(""), TS("a"), TS("b"), TS("ab"), TS("a b"), TS(" "), TS("\""), TS("\\"), TS("a\"b\\c"),
               TS("~!@#$%^&*()_+{}|:<>?`-=[];',./"), TS("{1, 2}"), TS("<<>>"), TS("TRUE"), TS("0"), TS("\\in"), TS("(* c *)")>>
StrsCollide == <<TS("costarring"), TS("liquid"), TS("declinate"), TS("macallums"), TS("altarage"), TS("zinke")>>
IntsC == MapSeq(TI, <<-3, -1, 0, 1, 2, 3, 7, MinInt, MinInt + 1, MaxInt - 1, MaxInt>>)
I123 == MapSeq(TI, <<1, 2, 3>>)
SetsI == SetsOf(MapSeq(TI, <<-1, 1, 2, 3>>), 0, 4) \o <<SI(<<MinInt, 0>>), SI(<<MaxInt>>)>>
SetsS == SetsOf(<<TS("a"), TS("b"), TS("")>>, 0, 3) \o <<SS(<<"\"", "\\", "a b">>)>>
SeqFnI ==  \* tuples of integers and functions integer -> integer: comparable in TLC
  TupsOf(MapSeq(TI, <<1, 2>>), 0, 2) \o <<QI(<<5, 6>>), QI(<<1, 2, 3>>), QI(<<-1>>)>> \o
  <<FII(<<1, 1>>), FII(<<1, 2, 2, 1>>), FII(<<1, 5, 2, 6>>), FII(<<0, 1>>), FII(<<2, 5, 3, 6>>), FII(<<-1, 0, 3, 3>>),
    FII(<<1, 1, 2, 1>>), FII(<<1, 1, 2, 2, 3, 3>>), FII(<<3, 3, 1, 1, 2, 2>>), TFn(<<>>), FII(<<1, -1>>), FII(<<2, 1>>)>>
RecsI == <<Rec1("a", TI(1)), Rec2("a", TI(1), "b", TI(2)), Rec2("a", TI(2), "b", TI(1)), Rec1("b", TI(1)), Rec1("a", TI(2)),
           TFn(<<TS("a"), TI(1), TS("b"), TI(2), TS("c"), TI(3)>>), Rec1("a b", TI(0)), Rec1("", TI(0))>>
SetsSetI == SetsOf(<<SI(<<>>), SI(<<1>>), SI(<<2>>), SI(<<1, 2>>), SI(<<2, 1>>)>>, 0, 3)
SetsSeqFn == SetsOf(<<QI(<<>>), QI(<<1>>), QI(<<1, 2>>), FII(<<1, 1>>), FII(<<1, 1, 2, 2>>), FII(<<0, 1>>), TFn(<<>>)>>, 0, 2)
TupsSetI == TupsOf(<<SI(<<>>), SI(<<1, 2>>), SI(<<2, 1>>), SI(<<3>>)>>, 1, 2)
TupsStr == TupsOf(<<TS("a"), TS(""), TS("\"")>>, 1, 2)
FnsSetKey == <<TFn(<<SI(<<1>>), TI(1), SI(<<1, 2>>), TI(2)>>), TFn(<<SI(<<2, 1>>), TI(2), SI(<<1>>), TI(1)>>), TFn(<<SI(<<>>), TI(0)>>),
               TFn(<<SI(<<1, 2>>), TI(1), SI(<<1>>), TI(2)>>)>>
FnsTupKey == <<TFn(<<QI(<<1, 1>>), TI(1), QI(<<1, 2>>), TI(2)>>), TFn(<<QI(<<1, 2>>), TI(2), QI(<<1, 1>>), TI(1)>>),
               TFn(<<FII(<<1, 1, 2, 1>>), TI(1), QI(<<1, 2>>), TI(2)>>), TFn(<<QI(<<2, 1>>), TI(7)>>)>>
RecsNest == <<Rec2("a", SI(<<1, 2>>), "b", QI(<<1, 2>>)), Rec2("b", QI(<<1, 2>>), "a", SI(<<2, 1>>)),
              Rec2("a", SI(<<1, 2>>), "b", FII(<<1, 1, 2, 2>>)), Rec1("a", Rec1("b", TI(1))),
              Rec2("a", SI(<<1>>), "b", QI(<<>>)), Rec2("a", SI(<<1>>), "b", TFn(<<>>))>>
(* messages as the generated systems send them *)
Msgs == <<TFn(<<TS("type"), TS("req"), TS("from"), TS("c1"), TS("body"), TS("x")>>),
          TFn(<<TS("from"), TS("c1"), TS("body"), TS("x"), TS("type"), TS("req")>>),
          TFn(<<TS("type"), TS("ack"), TS("from"), TS("c1"), TS("body"), TS("")>>),
          TFn(<<TS("type"), TS("req"), TS("from"), TS("c2"), TS("body"), TS("x")>>)>>
Deep3 == IF Thorough
         THEN Sample(SetsOf(Take(SetsSetI, 9), 0, 2), 30, Seed)
         ELSE <<TSet(<<TSet(<<SI(<<1>>)>>), TSet(<<>>)>>), TSet(<<TSet(<<SI(<<1>>), SI(<<>>)>>)>>), TSet(<<TSet(<<SI(<<>>), SI(<<1>>)>>)>>)>>
DeepTup == IF Thorough
           THEN Sample(TupsOf(<<TTup(<<SI(<<1>>), QI(<<1>>)>>), TTup(<<SI(<<1>>), FII(<<1, 1>>)>>), TTup(<<SI(<<>>), QI(<<>>)>>)>>, 1, 2), 12, Seed)
           ELSE <<TTup(<<TTup(<<SI(<<1>>), QI(<<1>>)>>)>>), TTup(<<TTup(<<SI(<<1>>), FII(<<1, 1>>)>>)>>)>>

C(name, L) == [name |-> name, terms |-> IF Thorough THEN Variants(L) ELSE Variants(Take(L, 20))]
Classes == <<
  C("bool", <<TB(TRUE), TB(FALSE)>>), C("int", IntsC), C("str", StrsAscii),
  C("set(int)", SetsI), C("set(str)", SetsS), C("seq|fn(int)", SeqFnI), C("rec(int)", RecsI),
  C("set(set(int))", SetsSetI), C("set(seq|fn)", SetsSeqFn), C("tup(set(int))", TupsSetI), C("tup(str)", TupsStr),
  C("fn(set,int)", FnsSetKey), C("fn(seq,int)", FnsTupKey), C("rec(nested)", RecsNest), C("rec(msg)", Msgs),
  C("set(set(set(int)))", Deep3), C("tup(tup(mixed))", DeepTup),
  \* unequal strings with equal 32-bit FNV-1a hashes (the library's string hash): a map that compares only
  \* hashes, or mishandles a bucket with several keys, confuses them (added after seed C05-C)
  C("str(colliding hashes)", StrsCollide) >>
NC == Len(Classes)
Off == [zc \in 1..(NC + 1) |-> IF zc = 1 THEN 0 ELSE LET S[zk \in 0..NC] == IF zk = 0 THEN 0 ELSE S[zk - 1] + Len(Classes[zk].terms) IN S[zc - 1]]
NV == Off[NC + 1]
ClsOf(zi) == CHOOSE zc \in 1..NC : Off[zc] < zi /\ zi <= Off[zc + 1]
T == [zi \in 1..NV |-> LET zc == ClsOf(zi) IN Classes[zc].terms[zi - Off[zc]]]
Cls == [zi \in 1..NV |-> ClsOf(zi)]
VV == [zi \in 1..NV |-> Val(T[zi])]

(* ------------------------------------------------------------------ pairs *)
(* every unordered pair inside a class (with the diagonal), plus for every value three values of *)
(* other classes chosen with the seed                                                            *)
SamePairs == FlatSeq([zc \in 1..NC |->
               FlatSeq([zi \in 1..Len(Classes[zc].terms) |->
                  [zj \in 1..(Len(Classes[zc].terms) - zi + 1) |-> <<Off[zc] + zi, Off[zc] + zi + zj - 1>>]])])
Other(zi, zk) == LET zj == ((zi * 7 + zk * 131 + (Seed % 1000) * 17) % NV) + 1 IN
                 IF Cls[zj] = Cls[zi] THEN (IF zj + Len(Classes[Cls[zi]].terms) <= NV THEN zj + Len(Classes[Cls[zi]].terms)
                                            ELSE ((zj + NV - Len(Classes[Cls[zi]].terms) - 1) % NV) + 1)
                 ELSE zj
CrossPairs == SelectSeq(FlatSeq([zi \in 1..NV |-> [zk \in 1..3 |-> <<zi, Other(zi, zk)>>]]),
                        LAMBDA p : Cls[p[1]] # Cls[p[2]])
Pairs == SamePairs \o CrossPairs
NP == Len(Pairs)
SameCls(p) == Cls[Pairs[p][1]] = Cls[Pairs[p][2]]

(* ------------------------------------------------------------------ equality: oracle and model *)
TlcEq(p) == VV[Pairs[p][1]] = VV[Pairs[p][2]]        \* only evaluated inside a class

RECURSIVE MEq(_, _)
Eff(t, zi) == \A zj \in (zi + 1)..(Len(t.a) \div 2) : ~MEq(t.a[2 * zi - 1], t.a[2 * zj - 1])   \* binding zi is not overridden
MEq(s, t) ==
  IF s.k # t.k THEN FALSE
  ELSE CASE s.k \in {"bool", "int"} -> s.n = t.n
         [] s.k = "str" -> s.s = t.s
         [] s.k = "tup" -> Len(s.a) = Len(t.a) /\ \A zi \in 1..Len(s.a) : MEq(s.a[zi], t.a[zi])
         [] s.k = "set" -> /\ \A zi \in 1..Len(s.a) : \E zj \in 1..Len(t.a) : MEq(s.a[zi], t.a[zj])
                           /\ \A zj \in 1..Len(t.a) : \E zi \in 1..Len(s.a) : MEq(s.a[zi], t.a[zj])
         [] s.k = "fn" ->
              LET zn == Len(s.a) \div 2 zm == Len(t.a) \div 2 IN
              /\ \A zi \in 1..zn : Eff(s, zi) => \E zj \in 1..zm : Eff(t, zj) /\ MEq(s.a[2 * zi - 1], t.a[2 * zj - 1]) /\ MEq(s.a[2 * zi], t.a[2 * zj])
              /\ \A zj \in 1..zm : Eff(t, zj) => \E zi \in 1..zn : Eff(s, zi) /\ MEq(s.a[2 * zi - 1], t.a[2 * zj - 1]) /\ MEq(s.a[2 * zi], t.a[2 * zj])
(* every tuple rewritten as the function with domain 1..n it denotes *)
RECURSIVE AsFn(_)
AsFn(t) ==
  CASE t.k = "tup" -> TFn([zi \in 1..(2 * Len(t.a)) |-> IF zi % 2 = 1 THEN TI((zi + 1) \div 2) ELSE AsFn(t.a[zi \div 2])])
    [] t.k = "set" -> TSet(MapSeq(AsFn, t.a))
    [] t.k = "fn"  -> TFn(MapSeq(AsFn, t.a))
    [] OTHER -> t
ModelEq(p) == MEq(T[Pairs[p][1]], T[Pairs[p][2]])
ModelEqUpToSeqFn(p) == MEq(AsFn(T[Pairs[p][1]]), AsFn(T[Pairs[p][2]]))
(* the pair is equal in TLA+ but consists of a tuple on one side and a function on the other *)
SeqFnMix(p) == SameCls(p) /\ ModelEqUpToSeqFn(p) /\ ~ModelEq(p)

NStr(v) == IF v = v THEN ToString(v) ELSE "?"      \* normalised printed form (see OpsOracle)

(* ------------------------------------------------------------------ export for the Go driver *)
Export ==
  /\ ndJsonSerialize("vals.ndjson", [zi \in 1..NV |-> [id |-> zi, cls |-> Classes[Cls[zi]].name, term |-> T[zi], txt |-> Txt(T[zi])]])
  /\ ndJsonSerialize("pairs.ndjson", [zp \in 1..NP |-> [p |-> zp, i |-> Pairs[zp][1], j |-> Pairs[zp][2], same |-> SameCls(zp)]])
  /\ PrintT(<<"C05 values", NV, "pairs", NP, "classes", NC>>)

(* ------------------------------------------------------------------ design-level model *)
VARIABLE pair
LInit == pair \in 1..NP
LNext == UNCHANGED pair
(* the modelled equality is TLA+ equality up to the tuple/function representation split *)
ModelIsTlaEqualityUpToSeqFn == SameCls(pair) => (TlcEq(pair) <=> ModelEqUpToSeqFn(pair))
ModelSound == (SameCls(pair) /\ ModelEq(pair)) => TlcEq(pair)
(* printed forms are canonical inside a TLC process (the judge compares printed forms) *)
PrintCanonical == SameCls(pair) => (TlcEq(pair) <=> (NStr(VV[Pairs[pair][1]]) = NStr(VV[Pairs[pair][2]])))
(* the TLA+ source text of a term denotes the value (Txt is what evidence samples show) *)
=============================================================================
