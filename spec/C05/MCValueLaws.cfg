CONSTANTS
  Tier = "quick"
  Seed = 1
INIT LInit
NEXT LNext
INVARIANTS ModelIsTlaEqualityUpToSeqFn ModelSound PrintCanonical
CHECK_DEADLOCK FALSE
