------------------------------ MODULE ValueLawsObs ------------------------------
(* C05 verdicts: the laws of the property evaluated by TLC on what the real library did     *)
(* (observations recorded by c05drv; the texts printed by the library are the definitions   *)
(* of the generated module GoVals, which TLC parses and evaluates).                          *)
(*   pairs   : Equal is symmetric, agrees with TLC's = inside a class, is FALSE across       *)
(*             kinds; equal values hash equally; set membership, function lookup,            *)
(*             hashmap.HashMap and immutable.Map(ValueHasher) agree with Equal               *)
(*   values  : String() is a TLA+ expression denoting the value; other construction routes   *)
(*             give an equal value with the same hash; a gob round trip (encoder/decoder on  *)
(*             a pipe) decodes to the same value (judged by TLC on the decoded value's       *)
(*             printed form), Equal both ways, same hash, same String() denotation           *)
(*   causal  : the same with vector-clock wrapping at top level and at every nesting level;  *)
(*             the clock survives wrapping, re-wrapping (merge) and the wire                 *)
(*   classes : a set / hashmap of all members of a class has as many members as TLC's set    *)
(* One state per judged observation; the verdict of each is printed for the check.          *)
EXTENDS ValueLaws, GoVals

CONSTANT Start

PairsGo   == ndJsonDeserialize("pairs_go.ndjson")
ValsGo    == ndJsonDeserialize("vals_go.ndjson")
CausalGo  == ndJsonDeserialize("causal_go.ndjson")
ClassesGo == ndJsonDeserialize("classes_go.ndjson")
ClocksGo  == ndJsonDeserialize("clocks_go.ndjson")

Containers(g) ==
  IF g.eq /\ ~g.he THEN "HASH_DIFFERS_ON_EQUAL_VALUES"
  ELSE IF g.ins # g.eq THEN "SET_MEMBERSHIP_DISAGREES_WITH_EQUAL"
  ELSE IF g.fn # g.eq THEN "FUNCTION_LOOKUP_DISAGREES_WITH_EQUAL"
  ELSE IF g.hm # g.eq THEN "HASHMAP_DISAGREES_WITH_EQUAL"
  ELSE IF g.im # g.eq THEN "IMMUTABLE_MAP_DISAGREES_WITH_EQUAL"
  ELSE "OK"

PairVerdict(g) ==
  IF g.panic # "" THEN "PANIC"
  ELSE IF g.eq # g.eqr THEN "EQUAL_NOT_SYMMETRIC"
  ELSE IF SameCls(g.p) THEN
         IF g.eq # TlcEq(g.p)
         THEN (IF SeqFnMix(g.p) /\ ~g.eq THEN "EQUAL_SPLITS_TUPLE_AND_FUNCTION" ELSE "EQUAL_DIFFERS_FROM_TLA")
         ELSE Containers(g)
  ELSE IF g.eq THEN "EQUAL_ACROSS_KINDS" ELSE Containers(g)
(* conformance to the implementation-shaped model of Equal (a mismatch is drift, not a verdict) *)
PairDrift(g) == IF g.panic = "" /\ g.eq # ModelEq(g.p) THEN "DRIFT" ELSE "CONFORMS"

Denotes(e, zi) == NStr(e) = NStr(VV[zi])

ValVerdict(g) ==
  IF g.panic # "" THEN "PANIC"
  ELSE IF ~Denotes(Str(g.id), g.id) THEN "PRINTED_FORM_DENOTES_ANOTHER_VALUE"
  ELSE IF ~g.alteq THEN "CONSTRUCTION_ROUTE_CHANGES_VALUE"
  ELSE IF ~g.althe THEN "CONSTRUCTION_ROUTE_CHANGES_HASH"
  ELSE IF g.gerr # "" THEN "GOB_ERROR"
  ELSE IF ~Denotes(Dec(g.id), g.id) THEN "GOB_DECODES_TO_ANOTHER_VALUE"
  ELSE IF ~g.geq THEN "GOB_DECODED_NOT_EQUAL"
  ELSE IF ~g.ghe THEN "GOB_DECODED_HASH_DIFFERS"
  ELSE IF ~Denotes(GStr(g.id), g.id) THEN "GOB_DECODED_PRINTS_ANOTHER_VALUE"
  ELSE "OK"

CausalVerdict(g) ==
  IF g.panic # "" THEN "PANIC"
  ELSE IF ~g.wrapped THEN "NOT_WRAPPED"
  ELSE IF ~g.weq THEN "WRAPPED_NOT_EQUAL_TO_PLAIN"
  ELSE IF ~g.whe THEN "WRAPPED_HASH_DIFFERS"
  ELSE IF ~g.deq THEN "NESTED_WRAPPED_NOT_EQUAL_TO_PLAIN"
  ELSE IF ~g.dhe THEN "NESTED_WRAPPED_HASH_DIFFERS"
  ELSE IF ~Denotes(WStr(g.id), g.id) THEN "WRAPPED_PRINTS_ANOTHER_VALUE"
  ELSE IF ~Denotes(DStr(g.id), g.id) THEN "NESTED_WRAPPED_PRINTS_ANOTHER_VALUE"
  ELSE IF ~g.strip THEN "STRIP_CHANGES_VALUE"
  ELSE IF ~g.wins THEN "WRAPPED_SET_MEMBERSHIP_DISAGREES"
  ELSE IF ~g.whm THEN "WRAPPED_HASHMAP_DISAGREES"
  ELSE IF ~g.clock THEN "CLOCK_CHANGED_BY_WRAPPING"
  ELSE IF ~g.rewrap THEN "REWRAP_DOES_NOT_MERGE_CLOCKS"
  ELSE IF g.gwerr # "" \/ g.gderr # "" THEN "GOB_ERROR"
  ELSE IF ~Denotes(GW(g.id), g.id) \/ ~Denotes(GD(g.id), g.id) THEN "GOB_DECODES_TO_ANOTHER_VALUE"
  ELSE IF ~g.gweq \/ ~g.gdeq THEN "GOB_DECODED_NOT_EQUAL"
  ELSE IF ~g.gwhe \/ ~g.gdhe THEN "GOB_DECODED_HASH_DIFFERS"
  ELSE IF ~g.gwclock \/ ~g.gdclock THEN "GOB_LOSES_CLOCK"
  ELSE "OK"

ClsIdx(name) == CHOOSE zc \in 1..NC : Classes[zc].name = name
ClsCard(zc) == Cardinality({VV[zi] : zi \in (Off[zc] + 1)..Off[zc + 1]})
(* the class contains a tuple and a function denoting the same value *)
ClsMix(zc) == \E zp \in 1..NP : Cls[Pairs[zp][1]] = zc /\ SeqFnMix(zp)
ClassVerdict(g) ==
  LET zc == ClsIdx(g.cls) IN
  IF g.panic # "" THEN "PANIC"
  ELSE IF g.setlen # ClsCard(zc) \/ g.card # ClsCard(zc) \/ g.hmkeys # ClsCard(zc)
       THEN (IF ClsMix(zc) /\ g.setlen > ClsCard(zc) THEN "EQUAL_SPLITS_TUPLE_AND_FUNCTION" ELSE "SET_SIZE_DIFFERS_FROM_TLA")
  ELSE IF ~g.allfound THEN "MEMBER_NOT_FOUND_UNDER_OTHER_CONSTRUCTION"
  ELSE IF g.gerr # "" THEN "GOB_ERROR"
  ELSE IF g.gsetlen # g.setlen \/ ~g.gseteq THEN "GOB_DECODES_TO_ANOTHER_VALUE"
  ELSE "OK"

ClockVerdict(g) ==
  IF g.panic # "" THEN "PANIC" ELSE IF g.err # "" THEN "GOB_ERROR"
  ELSE IF ~g.same THEN "GOB_LOSES_CLOCK" ELSE IF ~g.merge_comm THEN "CLOCK_MERGE_NOT_COMMUTATIVE" ELSE "OK"

VARIABLE l
JInit == l = Start /\ pair = 0
(* the observations of all phases are consumed in one pass: pairs, classes, clocks, values, causal *)
NPg == Len(PairsGo)
NCg == NPg + Len(ClassesGo)
NKg == NCg + Len(ClocksGo)
NVg == NKg + Len(ValsGo)
NUg == NVg + Len(CausalGo)
Item(zl) ==
  IF zl <= NPg THEN <<"V", "pair", PairsGo[zl].p, PairVerdict(PairsGo[zl]), PairDrift(PairsGo[zl])>>
  ELSE IF zl <= NCg THEN <<"V", "class", zl - NPg, ClassVerdict(ClassesGo[zl - NPg]), "-">>
  ELSE IF zl <= NKg THEN <<"V", "clock", ClocksGo[zl - NCg].n, ClockVerdict(ClocksGo[zl - NCg]), "-">>
  ELSE IF zl <= NVg THEN <<"V", "val", ValsGo[zl - NKg].id, ValVerdict(ValsGo[zl - NKg]), "-">>
  ELSE <<"V", "causal", CausalGo[zl - NVg].id, CausalVerdict(CausalGo[zl - NVg]), "-">>
JNext == l <= NUg /\ PrintT(Item(l)) /\ l' = l + 1 /\ UNCHANGED pair
=============================================================================
