------------------------------ MODULE MCValueLaws ------------------------------
(* design-level run of ValueLaws: exports the universe, checks the model of equality on every pair *)
EXTENDS ValueLaws
ASSUME Export
=============================================================================
