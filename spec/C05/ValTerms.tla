------------------------------ MODULE ValTerms ------------------------------
(* The value universe shared by C03 (operators) and C05 (value laws).                   *)
(*                                                                                      *)
(* A *term* is a constructor tree: it says HOW a value is built (which constructor,     *)
(* which insertion order), so that the Go driver can build the same value with the      *)
(* public constructors of distsys/tla (MakeSet / MakeTuple / MakeRecord ...), while TLC *)
(* builds the TLA+ value it denotes with Val(t).  All terms are records with the same   *)
(* four fields of fixed kinds, so TLC can serialise them (Json) without ever comparing  *)
(* values of different kinds.                                                           *)
(*   k = "bool" (n = 0/1) | "int" (n) | "str" (s) | "set" (a = members, in insertion    *)
(*       order, duplicates allowed) | "tup" (a = elements) | "fn" (a = k1,v1,k2,v2,...  *)
(*       in insertion order; a record is a "fn" with string keys)                       *)
EXTENDS Integers, Sequences, FiniteSets, TLC

MaxInt == 2147483647
MinInt == (-2147483647) - 1

TB(b)   == [k |-> "bool", s |-> "", n |-> IF b THEN 1 ELSE 0, a |-> <<>>]
TI(i)   == [k |-> "int",  s |-> "", n |-> i, a |-> <<>>]
TS(str) == [k |-> "str",  s |-> str, n |-> 0, a |-> <<>>]
TSet(a) == [k |-> "set",  s |-> "", n |-> 0, a |-> a]
TTup(a) == [k |-> "tup",  s |-> "", n |-> 0, a |-> a]
TFn(a)  == [k |-> "fn",   s |-> "", n |-> 0, a |-> a]

(* shorthands *)
MapSeq(f(_), q) == [zi \in 1..Len(q) |-> f(q[zi])]
SI(q)  == TSet(MapSeq(TI, q))          \* set of integers, insertion order q
SS(q)  == TSet(MapSeq(TS, q))
SB(q)  == TSet(MapSeq(TB, q))
QI(q)  == TTup(MapSeq(TI, q))          \* tuple of integers
QS(q)  == TTup(MapSeq(TS, q))
FII(q) == TFn(MapSeq(TI, q))           \* function int -> int, q = <<k1, v1, k2, v2, ...>>
RI(q)  == TFn([zi \in 1..Len(q) |-> IF zi % 2 = 1 THEN TS(q[zi][1]) ELSE TI(q[zi][1])])  \* record, q = << <<"a">>, <<1>>, ...>>
Rec2(k1, t1, k2, t2) == TFn(<<TS(k1), t1, TS(k2), t2>>)
Rec1(k1, t1) == TFn(<<TS(k1), t1>>)

(* ------------------------------------------------------------------ denotation *)
RECURSIVE Val(_)
Val(t) ==
  CASE t.k = "bool" -> (t.n = 1)
    [] t.k = "int"  -> t.n
    [] t.k = "str"  -> t.s
    [] t.k = "set"  -> {Val(t.a[zi]) : zi \in 1..Len(t.a)}
    [] t.k = "tup"  -> [zi \in 1..Len(t.a) |-> Val(t.a[zi])]
    [] t.k = "fn"   ->
         LET zn == Len(t.a) \div 2
             zk == [zi \in 1..zn |-> Val(t.a[2 * zi - 1])]
             zv == [zi \in 1..zn |-> Val(t.a[2 * zi])]
         IN  \* a later binding of an equal key overrides an earlier one (builder semantics)
             [zx \in {zk[zi] : zi \in 1..zn} |->
                 zv[CHOOSE zi \in 1..zn : zk[zi] = zx /\ \A zj \in (zi + 1)..zn : zk[zj] # zx]]

(* ------------------------------------------------------------------ TLA+ source text of a term *)
(* Used for the per-row evaluation in the TLC REPL (error rows) and in evidence samples. *)
RECURSIVE JoinTxt(_, _)
JoinTxt(q, sep) == IF Len(q) = 0 THEN "" ELSE IF Len(q) = 1 THEN q[1]
                   ELSE q[1] \o sep \o JoinTxt(Tail(q), sep)

IntTxt(i) == IF i = MinInt THEN "((-2147483647) - 1)"
             ELSE IF i < 0 THEN "(" \o ToString(i) \o ")" ELSE ToString(i)

RECURSIVE Txt(_)
Txt(t) ==
  CASE t.k = "bool" -> IF t.n = 1 THEN "TRUE" ELSE "FALSE"
    [] t.k = "int"  -> IntTxt(t.n)
    [] t.k = "str"  -> ToString(t.s)
    [] t.k = "set"  -> "{" \o JoinTxt([zi \in 1..Len(t.a) |-> Txt(t.a[zi])], ", ") \o "}"
    [] t.k = "tup"  -> "<<" \o JoinTxt([zi \in 1..Len(t.a) |-> Txt(t.a[zi])], ", ") \o ">>"
    [] t.k = "fn"   ->
         IF Len(t.a) = 0 THEN "[zz \\in {} |-> zz]"
         ELSE \* g @@ f: the LEFT operand wins, so later bindings go to the left
              "(" \o JoinTxt([zi \in 1..(Len(t.a) \div 2) |->
                       LET zj == (Len(t.a) \div 2) + 1 - zi IN
                       "(" \o Txt(t.a[2 * zj - 1]) \o " :> " \o Txt(t.a[2 * zj]) \o ")"], " @@ ") \o ")"

(* ------------------------------------------------------------------ construction-order variants *)
RevSeq(q) == [zi \in 1..Len(q) |-> q[Len(q) + 1 - zi]]
RevPairs(q) == LET zn == Len(q) \div 2 IN
               [zi \in 1..Len(q) |-> LET zp == zn - ((zi + 1) \div 2) + 1 IN
                                     IF zi % 2 = 1 THEN q[2 * zp - 1] ELSE q[2 * zp]]
(* same value, other insertion order / duplicated insertion *)
RECURSIVE RevDeep(_)
RevDeep(t) ==
  CASE t.k = "set" -> TSet(RevSeq(MapSeq(RevDeep, t.a)))
    [] t.k = "tup" -> TTup(MapSeq(RevDeep, t.a))
    [] t.k = "fn"  -> TFn(RevPairs(MapSeq(RevDeep, t.a)))
    [] OTHER -> t
Dup(t) ==
  CASE t.k = "set" /\ Len(t.a) > 0 -> TSet(t.a \o <<t.a[1]>>)
    [] t.k = "fn"  /\ Len(t.a) > 0 -> TFn(t.a \o <<t.a[1], t.a[2]>>)
    [] OTHER -> t
Rot(t) ==
  CASE t.k = "set" /\ Len(t.a) > 1 -> TSet(Tail(t.a) \o <<t.a[1]>>)
    [] t.k = "fn"  /\ Len(t.a) > 2 -> TFn(SubSeq(t.a, 3, Len(t.a)) \o <<t.a[1], t.a[2]>>)
    [] OTHER -> t

(* ------------------------------------------------------------------ combinators *)
RECURSIVE FlatSeq(_)
FlatSeq(qq) == IF Len(qq) = 0 THEN <<>> ELSE qq[1] \o FlatSeq(Tail(qq))

(* all index sequences i1 < i2 < ... < ic over 1..n with lo <= c <= hi, in a fixed order *)
RECURSIVE IncSeqs(_, _, _)
IncSeqs(from, n, c) ==
  IF c = 0 THEN << <<>> >>
  ELSE FlatSeq([zi \in 1..(IF n >= from THEN n - from + 1 ELSE 0) |->
         LET zf == from + zi - 1 IN
         MapSeq(LAMBDA q : <<zf>> \o q, IncSeqs(zf + 1, n, c - 1))])
Pick(L, idx) == [zi \in 1..Len(idx) |-> L[idx[zi]]]
SetsOf(L, lo, hi) == FlatSeq([zc \in 1..(hi - lo + 1) |->
                        MapSeq(LAMBDA idx : TSet(Pick(L, idx)), IncSeqs(1, Len(L), lo + zc - 1))])
(* all sequences over L of length exactly c *)
RECURSIVE AllSeqs(_, _)
AllSeqs(n, c) == IF c = 0 THEN << <<>> >>
                 ELSE FlatSeq([zi \in 1..n |-> MapSeq(LAMBDA q : <<zi>> \o q, AllSeqs(n, c - 1))])
TupsOf(L, lo, hi) == FlatSeq([zc \in 1..(hi - lo + 1) |->
                        MapSeq(LAMBDA idx : TTup(Pick(L, idx)), AllSeqs(Len(L), lo + zc - 1))])
(* functions with domain = every increasing selection of c keys, values assigned round-robin *)
FnsOf(K, V, lo, hi) == FlatSeq([zc \in 1..(hi - lo + 1) |->
                        MapSeq(LAMBDA idx : TFn([zi \in 1..(2 * Len(idx)) |->
                                  IF zi % 2 = 1 THEN K[idx[(zi + 1) \div 2]]
                                  ELSE V[((idx[zi \div 2] + zi) % Len(V)) + 1]]),
                               IncSeqs(1, Len(K), lo + zc - 1))])
Take(L, n) == IF Len(L) <= n THEN L ELSE SubSeq(L, 1, n)
(* deterministic sample of at most cap elements of L, spread by the seed *)
Sample(L, cap, seed) ==
  IF Len(L) <= cap THEN L
  ELSE LET zstep == Len(L) \div cap
           zoff == (seed % 1000) % zstep
       IN [zi \in 1..cap |-> L[(zi - 1) * zstep + zoff + 1]]

=============================================================================
