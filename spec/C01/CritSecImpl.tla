------------------------------ MODULE CritSecImpl ------------------------------
(* C01, implementation-shaped model of distsys/mpcalctx.go Run/commit/abort and of *)
(* the per-resource snapshot discipline (value/oldValue, buffer/backlogBuffer,      *)
(* readBacklog/readsInProgress, hasOldValue, ...):                                  *)
(*                                                                                  *)
(*   cur[r]   what resource r would show to the next operation                      *)
(*   old[r]   what r restores when its Abort is called                              *)
(*   dirty    MPCalContext.dirtyResourceHandles                                     *)
(*                                                                                  *)
(* Read/Write mark the handle dirty BEFORE touching the resource; commit() calls    *)
(* PreCommit on every dirty handle and, only if none failed, Commit on every dirty  *)
(* handle; abort() calls Abort on every dirty handle. The model runs in lock-step   *)
(* with the property-level CritSec.tla; TLC checks that the mechanism implements    *)
(* the abstract store (ImplAgrees). The two design switches let TLC show that the   *)
(* check is not vacuous: with either of them FALSE, ImplAgrees is violated.         *)
EXTENDS CritSec

CONSTANTS DirtyOnRead,           \* Read marks the handle dirty (archetypeinterface.go Read)
          AbortOnPreCommitError  \* commit() stops after a failed PreCommit and Run aborts

VARIABLES cur, old, dirty
ivars == <<vars, cur, old, dirty>>

IInit == Init /\ cur = Init0 /\ old = Init0 /\ dirty = {}

Marks(op) == op.o # "rd" \/ DirtyOnRead

AbortAll(d) == /\ cur' = [r \in Res |-> IF r \in d THEN old[r] ELSE cur[r]]
               /\ old' = old /\ dirty' = {}
CommitAll(d) == /\ cur' = [r \in Res |-> IF r \in d THEN Forget(r, cur[r]) ELSE cur[r]]
                /\ old' = [r \in Res |-> IF r \in d THEN Forget(r, cur[r]) ELSE old[r]]
                /\ dirty' = {}

IFeed(r) == Feed(r) /\ cur' = [cur EXCEPT ![r] = @ \o <<0>>] /\ old' = [old EXCEPT ![r] = @ \o <<0>>]
            /\ UNCHANGED dirty
IBegin == Begin /\ UNCHANGED <<cur, old, dirty>>
IDoOp(r, op) ==
  /\ DoOp(r, op)
  /\ LET ap == Apply(KindOf[r], cur[r], op)
         d  == IF Marks(op) THEN dirty \cup {r} ELSE dirty IN
     IF ap.ok THEN cur' = [cur EXCEPT ![r] = ap.st] /\ dirty' = d /\ old' = old
     ELSE AbortAll(d)
IInjOp(r, op, m) ==
  /\ InjOp(r, op, m)
  /\ LET d == IF Marks(op) THEN dirty \cup {r} ELSE dirty
         c == IF m = "post" THEN [cur EXCEPT ![r] = Apply(KindOf[r], cur[r], op).st] ELSE cur IN
     /\ cur' = [q \in Res |-> IF q \in d THEN old[q] ELSE c[q]] /\ old' = old /\ dirty' = {}
IFailBody == FailBody /\ AbortAll(dirty)
IFailPre(r, m) == FailPre(r, m) /\ IF AbortOnPreCommitError THEN AbortAll(dirty) ELSE CommitAll(dirty)
ICommit == Commit /\ CommitAll(dirty)

INext == \/ \E r \in Res : IFeed(r)
         \/ IBegin
         \/ \E r \in Res : \E op \in OpsOf(r) : IDoOp(r, op)
         \/ \E r \in Res : \E op \in OpsOf(r) : \E m \in {"pre", "post"} : IInjOp(r, op, m)
         \/ IFailBody
         \/ \E r \in Res : \E m \in {"pre", "post"} : IFailPre(r, m)
         \/ ICommit

(* AbortInvisible + CommitAll + RedeliverySameOrder + NoPhantomSend at design level: *)
(* between attempts every resource shows, and would restore, exactly the committed   *)
(* abstract state; inside an attempt it shows the working copy                       *)
ImplAgrees == /\ phase = "idle" => cur = store /\ old = store /\ dirty = {}
              /\ phase = "open" => cur = work
=============================================================================
