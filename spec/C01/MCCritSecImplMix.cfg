CONSTANTS
  Res <- MixRes
  KindOf <- MixKind
  Init0 <- MixInit
  Vals <- V2
  MaxOps = 2
  MaxIn = 2
  MaxLog = 2
  MaxCtr = 2
  EdgeFile = ""
  DirtyOnRead = TRUE
  AbortOnPreCommitError = TRUE
INIT IInit
NEXT INext
INVARIANTS TypeOK IdleClean InputPrefix ImplAgrees
CHECK_DEADLOCK FALSE
