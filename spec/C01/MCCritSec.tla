------------------------------ MODULE MCCritSec ------------------------------
(* Abstract configurations (sets of resource instances with kinds) over which     *)
(* CritSec.tla is explored and exported. One .cfg per configuration.              *)
EXTENDS CritSec

V2 == {0, 1}
V3 == {0, 1, 2}

\* G1: two cells, an input stream, an output stream
G1Res  == {"a", "b", "i", "o"}
G1Kind == [a |-> "cell", b |-> "cell", i |-> "in", o |-> "out"]
G1Init == [a |-> <<0>>, b |-> <<0>>, i |-> <<>>, o |-> <<>>]
\* G2: a function-valued variable accessed through indices, a cell, an output stream
G2Res  == {"f", "a", "o"}
G2Kind == [f |-> "fn", a |-> "cell", o |-> "out"]
G2Init == [f |-> <<0, 0>>, a |-> <<0>>, o |-> <<>>]
\* G3: raftkvs resources: persistent log, a cell, the defaulting input channel
G3Res  == {"g", "a", "c"}
G3Kind == [g |-> "log", a |-> "cell", c |-> "cin"]
G3Init == [g |-> <<>>, a |-> <<0>>, c |-> <<>>]
\* G4: CRDT counter, a cell, an output stream
G4Res  == {"n", "a", "o"}
G4Kind == [n |-> "ctr", a |-> "cell", o |-> "out"]
G4Init == [n |-> <<0>>, a |-> <<0>>, o |-> <<>>]
\* G5: relaxed mailboxes: a cell, an input stream, an output stream that cannot be rolled back
G5Res  == {"a", "i", "x"}
G5Kind == [a |-> "cell", i |-> "in", x |-> "rout"]
G5Init == [a |-> <<0>>, i |-> <<>>, x |-> <<>>]
\* G6: persistent wrapper, a cell, an input stream
G6Res  == {"p", "a", "i"}
G6Kind == [p |-> "pcell", a |-> "cell", i |-> "in"]
G6Init == [p |-> <<0, 0>>, a |-> <<0>>, i |-> <<>>]
=============================================================================
