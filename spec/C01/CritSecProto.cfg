INIT OInit
NEXT ONext
INVARIANTS AbortInvisible CommitAll ReadOwnWrite NoPhantomSend RedeliverySameOrder CommitAfterFailure NoPanic ProtoOK
CHECK_DEADLOCK FALSE
