INIT PInit
NEXT PNext
INVARIANTS ProtoOK
CHECK_DEADLOCK FALSE
