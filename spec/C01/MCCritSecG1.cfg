CONSTANTS
  Res <- G1Res
  KindOf <- G1Kind
  Init0 <- G1Init
  Vals <- V2
  MaxOps = 2
  MaxIn = 2
  MaxLog = 2
  MaxCtr = 2
  EdgeFile = "edges-G1.ndjson"
INIT Init
NEXT Next
INVARIANTS TypeOK IdleClean InputPrefix
PROPERTIES AtomicEnd
CHECK_DEADLOCK FALSE
