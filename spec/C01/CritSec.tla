------------------------------ MODULE CritSec ------------------------------
(* C01, property level: an abstract transactional store.                          *)
(*                                                                                *)
(*   store  committed abstract state of every resource instance                   *)
(*   work   working copy of the attempt in flight                                 *)
(*                                                                                *)
(* An attempt (one execution of a label) is Begin, then operations, then exactly  *)
(* one of: Commit (store' = work), or a failure -- FailBody (false await), an     *)
(* operation refused by its resource (really: DoOp on an empty input stream;      *)
(* injected: InjOp, before or after the resource performed it), a pre-commit      *)
(* refused (FailPre) -- after which store is unchanged and the next attempt       *)
(* starts from store again (inputs re-offered in order, buffered sends dropped).  *)
(*                                                                                *)
(* The module is used three ways:                                                 *)
(*  1. exhaustively (TLC BFS) as the design-level statement of the property and   *)
(*     as the base of the implementation-shaped model CritSecImpl.tla;            *)
(*  2. as GENERATOR: every transition evaluated by TLC is appended to EdgeFile    *)
(*     (JSON, one labelled edge per line); the harness covers every edge by walks *)
(*     from Init and replays each walk on real archetype resources;               *)
(*  3. through CritSecOps!Apply, which CritSecObs.tla uses to judge recordings.   *)
EXTENDS CritSecOps, Json, CSV

CONSTANTS
  Res,        \* resource instance names (strings)
  KindOf,     \* [Res -> Kinds]
  Init0,      \* [Res -> Seq(Int)] initial committed state
  Vals,       \* values written to cells
  MaxOps,     \* operations per attempt
  MaxIn,      \* bound on undelivered messages of an input stream
  MaxLog,     \* bound on the length of a log
  MaxCtr,     \* bound on a counter
  EdgeFile    \* "" = do not export; otherwise the ndjson file the edges go to

VARIABLES store, work, phase, nops, touched, sent
vars == <<store, work, phase, nops, touched, sent>>

(* In the generator the delivered contents of an output stream are forgotten at   *)
(* commit: they influence no later behaviour, and keeping them would make the     *)
(* graph infinite. Concrete message values are assigned when a walk is made       *)
(* concrete; the recorded execution is judged with the full contents.             *)
Forget(r, st) == IF KindOf[r] \in StreamOut THEN <<>> ELSE st

Op(o, i, a) == [o |-> o, i |-> i, a |-> a]

OpsOf(r) ==
  LET k == KindOf[r] st == work[r] IN
  CASE k \in {"cell", "pcell"} -> {Op("rd", 0, <<>>)} \cup {Op("wr", 0, <<v>>) : v \in Vals}
    [] k = "fn"  -> {Op("rd", j, <<>>) : j \in 0..Len(st)}
                    \cup {Op("wr", j, <<v>>) : j \in 1..Len(st), v \in Vals}
                    \cup {Op("wr", 0, [j \in 1..Len(st) |-> v]) : v \in Vals}
    [] k \in StreamIn  -> {Op("rd", 0, <<>>)}
    [] k \in StreamOut -> {Op("wr", 0, <<0>>)}
    [] k = "log" -> {Op("rd", j, <<>>) : j \in 0..Len(st)}
                    \cup (IF Len(st) < MaxLog THEN {Op("wr", 0, <<0>>)} ELSE {})
                    \cup (IF Len(st) + 2 <= MaxLog THEN {Op("wr", 0, <<0, 0>>)} ELSE {})
                    \cup {Op("pop", 0, <<c>>) : c \in 1..Len(st)}
    [] k = "ctr" -> {Op("rd", 0, <<>>)} \cup (IF st[1] < MaxCtr THEN {Op("wr", 0, <<1>>)} ELSE {})

Sid(s, w, p, n, t, x) == ToString(<<s, w, p, n, t, x>>)
Emit(act) ==
  IF EdgeFile = "" THEN TRUE
  ELSE CSVWrite("%1$s", <<ToJson([from |-> Sid(store, work, phase, nops, touched, sent),
                                   to   |-> Sid(store', work', phase', nops', touched', sent'),
                                   idle |-> (phase' = "idle"),
                                   act  |-> act])>>, EdgeFile)

Init == /\ store = Init0 /\ work = Init0 /\ phase = "idle" /\ nops = 0 /\ touched = {} /\ sent = FALSE

EndAttempt(newstore) ==
  /\ store' = newstore /\ work' = newstore /\ phase' = "idle" /\ nops' = 0 /\ touched' = {} /\ sent' = FALSE

(* the environment delivers one more message to an input stream (between attempts) *)
Feed(r) == /\ phase = "idle" /\ KindOf[r] \in StreamIn /\ Len(store[r]) < MaxIn
           /\ EndAttempt([store EXCEPT ![r] = @ \o <<0>>])
           /\ Emit([t |-> "feed", r |-> r])

Begin == /\ phase = "idle" /\ phase' = "open" /\ UNCHANGED <<store, work, nops, touched, sent>>
         /\ Emit([t |-> "begin"])

(* after a message left through a relaxed mailbox the section can no longer fail  *)
(* (documented restriction of relaxedmailboxes.go): nothing that may be refused   *)
MayFail == ~sent
CanRefuse(r) == KindOf[r] = "in"

DoOp(r, op) ==
  /\ phase = "open" /\ nops < MaxOps /\ (sent => ~CanRefuse(r))
  /\ LET ap == Apply(KindOf[r], work[r], op) IN
     IF ap.ok
     THEN /\ work' = [work EXCEPT ![r] = ap.st] /\ nops' = nops + 1 /\ touched' = touched \cup {r}
          /\ sent' = (sent \/ KindOf[r] = "rout") /\ UNCHANGED <<store, phase>>
     ELSE EndAttempt(store)         \* refused by the resource: the attempt is over, nothing happened
  /\ Emit([t |-> "op", r |-> r, o |-> op.o, i |-> op.i, a |-> op.a, inj |-> ""])

(* a fault-injecting decorator refuses the operation before ("pre") or after      *)
(* ("post") the resource performed it                                             *)
InjOp(r, op, m) ==
  /\ phase = "open" /\ nops < MaxOps /\ MayFail /\ (KindOf[r] = "rout" => m = "pre")
  /\ Apply(KindOf[r], work[r], op).ok
  /\ EndAttempt(store)
  /\ Emit([t |-> "op", r |-> r, o |-> op.o, i |-> op.i, a |-> op.a, inj |-> m])

FailBody == /\ phase = "open" /\ MayFail /\ EndAttempt(store) /\ Emit([t |-> "end", how |-> "body"])

FailPre(r, m) == /\ phase = "open" /\ MayFail /\ r \in touched /\ EndAttempt(store)
                 /\ Emit([t |-> "end", how |-> "pre", r |-> r, m |-> m])

Commit == /\ phase = "open" /\ EndAttempt([r \in Res |-> Forget(r, work[r])])
          /\ Emit([t |-> "end", how |-> "commit"])

Next == \/ \E r \in Res : Feed(r)
        \/ Begin
        \/ \E r \in Res : \E op \in OpsOf(r) : DoOp(r, op)
        \/ \E r \in Res : \E op \in OpsOf(r) : \E m \in {"pre", "post"} : InjOp(r, op, m)
        \/ FailBody
        \/ \E r \in Res : \E m \in {"pre", "post"} : FailPre(r, m)
        \/ Commit

Spec == Init /\ [][Next]_vars

-----------------------------------------------------------------------------
TypeOK == /\ phase \in {"idle", "open"} /\ nops \in 0..MaxOps /\ touched \subseteq Res
          /\ \A r \in Res : Len(store[r]) >= 0 /\ Len(work[r]) >= 0
(* between attempts nothing of an attempt is left over *)
IdleClean == phase = "idle" => work = store /\ touched = {} /\ nops = 0
(* an attempt ends either leaving the committed state untouched or installing      *)
(* exactly the working copy, for all resources at once (action property)          *)
AtomicEnd == [][(phase = "open" /\ phase' = "idle") =>
                   \/ store' = store
                   \/ store' = [r \in Res |-> Forget(r, work[r])]]_vars
(* inputs consumed by an attempt are a prefix of what was on offer *)
InputPrefix == \A r \in Res : KindOf[r] \in StreamIn =>
                  \E n \in 0..Len(store[r]) : work[r] = SubSeq(store[r], n + 1, Len(store[r]))
=============================================================================
