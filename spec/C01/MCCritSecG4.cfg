CONSTANTS
  Res <- G4Res
  KindOf <- G4Kind
  Init0 <- G4Init
  Vals <- V2
  MaxOps = 2
  MaxIn = 2
  MaxLog = 2
  MaxCtr = 2
  EdgeFile = "edges-G4.ndjson"
INIT Init
NEXT Next
INVARIANTS TypeOK IdleClean InputPrefix
PROPERTIES AtomicEnd
CHECK_DEADLOCK FALSE
