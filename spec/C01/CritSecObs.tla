------------------------------ MODULE CritSecObs ------------------------------
(* C01, property-level judge of executions recorded from the REAL code.            *)
(* The driver (harness/cmd/c01drv) runs hand-built archetypes over real resources  *)
(* under the real MPCalContext.Run and records, per case (one archetype run):      *)
(*   case  kinds and initial contents of the resource instances                    *)
(*   feed  the environment delivered messages to an input stream                   *)
(*   att   ONE attempt of a critical section:                                      *)
(*           ops   the iface.Read / iface.Write calls in order, each with the      *)
(*                 value the code returned (res) and whether the resource refused  *)
(*                 it (ok = FALSE)                                                 *)
(*           fail  "body": the body returned ErrCriticalSectionAborted (a false    *)
(*                 await); "pre": a PreCommit was refused; "": neither             *)
(*           out   what Run did with the attempt: "commit" or "abort" (taken from  *)
(*                 the context's own TraceRecorder event)                          *)
(*           obs   committed state observed OUT OF BAND after the attempt          *)
(*                 (GetState, files, database, Go channel, the peer's mailbox...); *)
(*                 for output streams: the messages that left since the last look; *)
(*           sync  every message committed so far has been waited for              *)
(*   obs   an observation outside an attempt (initially, and after Run returned)   *)
(*   panic the code under test panicked                                            *)
(* This module folds the events into the abstract store of CritSec.tla (using the  *)
(* same CritSecOps!Apply) and states C01 as invariants of the recorded history.    *)
(* It never gets stuck on a well-formed recording: every deviation of the code is  *)
(* an invariant violation with a name, not a rejected trace.                       *)
EXTENDS CritSecOps, Json

Trace == ndJsonDeserialize("trace.ndjson")

VARIABLES l,        \* next line to consume
          kinds,    \* [resource -> kind] of the current case
          store,    \* committed abstract state: what C01 says it must be
          seen,     \* messages observed leaving each output stream so far
          lastEnd,  \* outcome of the previous attempt
          bad, badr, badop \* first violated clause of C01 in this case ("" = none), the resource and operation involved
ovars == <<l, kinds, store, seen, lastEnd, bad, badr, badop>>

Ev(e) == l <= Len(Trace) /\ Trace[l].e = e /\ l' = l + 1

OInit == /\ l = 1 /\ kinds = <<>> /\ store = <<>> /\ seen = <<>> /\ lastEnd = "none"
         /\ bad = "" /\ badr = "" /\ badop = 0

OCase == /\ Ev("case")
         /\ kinds' = Trace[l].kinds /\ store' = Trace[l].init
         /\ seen' = [r \in DOMAIN Trace[l].kinds |-> <<>>]
         /\ lastEnd' = "none" /\ bad' = "" /\ badr' = "" /\ badop' = 0

OFeed == /\ Ev("feed")
         /\ store' = [store EXCEPT ![Trace[l].r] = @ \o Trace[l].a]
         /\ UNCHANGED <<kinds, seen, lastEnd, bad, badr, badop>>

(* ---- one attempt: fold its operations over the working copy ---- *)
Acc(w, wr, f, b, br, bo) == [work |-> w, wrote |-> wr, failed |-> f, bad |-> b, badr |-> br, badop |-> bo]
FlagA(acc, tag, r, j) == IF acc.bad = "" THEN [acc EXCEPT !.bad = tag, !.badr = r, !.badop = j] ELSE acc

ReadTag(acc, r) == IF r \in acc.wrote THEN "ReadOwnWrite"
                   ELSE IF kinds[r] \in StreamIn THEN "RedeliverySameOrder"
                   ELSE IF lastEnd = "abort" THEN "AbortInvisible" ELSE "CommitAll"

StepOp(acc, e, j) ==
  LET k  == kinds[e.r]
      op == [o |-> e.o, i |-> e.i, a |-> e.a]
      wf == WellFormed(k, acc.work[e.r], op)
      ap == IF wf THEN Apply(k, acc.work[e.r], op) ELSE Refused(acc.work[e.r]) IN
  IF ~e.ok THEN [acc EXCEPT !.failed = TRUE]        \* any resource may refuse any operation at any time
  ELSE IF ~ap.ok THEN FlagA(acc, ReadTag(acc, e.r), e.r, j)   \* the code produced a value where there is none
  ELSE LET a1 == [acc EXCEPT !.work = [acc.work EXCEPT ![e.r] = ap.st],
                             !.wrote = IF op.o # "rd" \/ k \in StreamIn THEN acc.wrote \cup {e.r} ELSE acc.wrote] IN
       IF op.o = "rd" /\ e.res # ap.res THEN FlagA(a1, ReadTag(acc, e.r), e.r, j) ELSE a1

RECURSIVE FoldOps(_, _, _)
FoldOps(ops, j, acc) == IF j > Len(ops) THEN acc ELSE FoldOps(ops, j + 1, StepOp(acc, ops[j], j))

(* ---- the observation after an attempt ---- *)
ObsTag(out) == IF out = "abort" THEN "AbortInvisible" ELSE "CommitAll"
Seen(sn, o) == [r \in DOMAIN sn |-> IF r \in DOMAIN o /\ kinds[r] \in StreamOut THEN sn[r] \o o[r] ELSE sn[r]]
Judge(acc, st, sn, o, sync, out) ==
  LET rs      == DOMAIN o
      phantom == {r \in rs : kinds[r] \in StreamOut /\ ~IsPrefix(sn[r], st[r])}
      lost    == {r \in rs : kinds[r] \in StreamOut /\ sync /\ sn[r] # st[r]} \ phantom
      differ  == {r \in rs : kinds[r] \notin StreamOut /\ o[r] # st[r]} IN
  IF phantom # {} THEN FlagA(acc, "NoPhantomSend", CHOOSE r \in phantom : TRUE, 0)
  ELSE IF differ # {} THEN FlagA(acc, ObsTag(out), CHOOSE r \in differ : TRUE, 0)
  ELSE IF lost # {} THEN FlagA(acc, "CommitAll", CHOOSE r \in lost : TRUE, 0)
  ELSE acc

OAtt == /\ Ev("att")
        /\ LET e   == Trace[l]
               a0  == FoldOps(e.ops, 1, Acc(store, {}, e.fail # "", bad, badr, badop))
               a1  == IF e.out = "commit" /\ a0.failed THEN FlagA(a0, "CommitAfterFailure", "", 0) ELSE a0
               st  == IF e.out = "commit" THEN a1.work ELSE store
               sn  == Seen(seen, e.obs)
               a2  == Judge(a1, st, sn, e.obs, e.sync, e.out) IN
           /\ store' = st /\ seen' = sn /\ lastEnd' = e.out
           /\ bad' = a2.bad /\ badr' = a2.badr /\ badop' = a2.badop
        /\ UNCHANGED kinds

OObs == /\ Ev("obs")
        /\ LET e  == Trace[l]
               sn == Seen(seen, e.obs)
               a  == Judge(Acc(store, {}, FALSE, bad, badr, badop), store, sn, e.obs, e.sync,
                           IF lastEnd = "none" THEN "commit" ELSE lastEnd) IN
           seen' = sn /\ bad' = a.bad /\ badr' = a.badr /\ badop' = a.badop
        /\ UNCHANGED <<kinds, store, lastEnd>>

OPanic == /\ Ev("panic") /\ bad' = (IF bad = "" THEN "NoPanic" ELSE bad)
          /\ UNCHANGED <<kinds, store, seen, lastEnd, badr, badop>>

(* bookkeeping lines of the driver that carry no observation *)
OSkip == /\ l <= Len(Trace) /\ Trace[l].e \in {"watchdog", "partial", "setup"} /\ l' = l + 1
         /\ UNCHANGED <<kinds, store, seen, lastEnd, bad, badr, badop>>

ONext == OCase \/ OFeed \/ OAtt \/ OObs \/ OPanic \/ OSkip

(* ---- C01 on the recorded history ---- *)
AbortInvisible      == bad # "AbortInvisible"       \* after a failed attempt every observable equals its value after the last commit
CommitAll           == bad # "CommitAll"            \* after a commit every touched resource shows the section's effects
ReadOwnWrite        == bad # "ReadOwnWrite"         \* inside a section the code sees its own earlier effects
NoPhantomSend       == bad # "NoPhantomSend"        \* only committed sends are delivered, in order
RedeliverySameOrder == bad # "RedeliverySameOrder"  \* consumed inputs of a failed attempt are offered again, in order
CommitAfterFailure  == bad # "CommitAfterFailure"   \* an attempt in which something was refused never commits
NoPanic             == bad # "NoPanic"              \* a refused operation leads to a retry, not to a crash
=============================================================================
