------------------------------ MODULE CritSecObs ------------------------------
(* C01, property-level judge of executions recorded from the REAL code.            *)
(* The driver (harness/cmd/c01drv) runs hand-built archetypes over real resources  *)
(* under the real MPCalContext.Run and records, per case (one archetype run):      *)
(*   case   kinds and initial contents of the resource instances                   *)
(*   feed   the environment delivered messages to an input stream                  *)
(*   begin  an attempt of a critical section starts                                *)
(*   op     iface.Read / iface.Write with the value the code returned (res) and    *)
(*          whether the resource refused it (ok = FALSE)                           *)
(*   fail   the body returned ErrCriticalSectionAborted / a pre-commit was refused *)
(*   end    what Run did with the attempt (commit or abort, from the TraceRecorder)*)
(*   obs    committed state observed out of band after the attempt (GetState,      *)
(*          files on disk, the database, the Go channel, the peer mailbox, ...)    *)
(*   panic  the code under test panicked                                           *)
(* This module folds the events into the abstract store of CritSec.tla (using the  *)
(* same CritSecOps!Apply) and states C01 as invariants of the recorded history.    *)
(* It never gets stuck on a well-formed recording: every deviation of the code is  *)
(* an invariant violation with a name, not a rejected trace.                       *)
EXTENDS CritSecOps, Json

Trace == ndJsonDeserialize("trace.ndjson")

VARIABLES l,        \* next line to consume
          kinds,    \* [resource -> kind] of the current case
          store,    \* committed abstract state (what C01 says it must be)
          work,     \* working copy of the attempt in flight
          seen,     \* messages observed leaving each output stream so far
          phase, failed, lastEnd, wrote,
          bad, badr \* first violated clause of C01 in this case ("" = none) and the resource involved
ovars == <<l, kinds, store, work, seen, phase, failed, lastEnd, wrote, bad, badr>>

Ev(e) == l <= Len(Trace) /\ Trace[l].e = e /\ l' = l + 1
Flag(tag, r) == IF bad = "" THEN bad' = tag /\ badr' = r ELSE UNCHANGED <<bad, badr>>

OInit == /\ l = 1 /\ kinds = <<>> /\ store = <<>> /\ work = <<>> /\ seen = <<>> /\ phase = "idle"
         /\ failed = FALSE /\ lastEnd = "none" /\ wrote = {} /\ bad = "" /\ badr = ""

OCase == /\ Ev("case")
         /\ kinds' = Trace[l].kinds /\ store' = Trace[l].init /\ work' = Trace[l].init
         /\ seen' = [r \in DOMAIN Trace[l].kinds |-> <<>>]
         /\ phase' = "idle" /\ failed' = FALSE /\ lastEnd' = "none" /\ wrote' = {} /\ bad' = "" /\ badr' = ""

OFeed == /\ Ev("feed")
         /\ store' = [store EXCEPT ![Trace[l].r] = @ \o Trace[l].a] /\ work' = store'
         /\ UNCHANGED <<kinds, seen, phase, failed, lastEnd, wrote, bad, badr>>

OBegin == /\ Ev("begin") /\ phase' = "open" /\ work' = store /\ failed' = FALSE /\ wrote' = {}
          /\ UNCHANGED <<kinds, store, seen, lastEnd, bad, badr>>

ReadTag(r) == IF r \in wrote THEN "ReadOwnWrite"
              ELSE IF kinds[r] \in StreamIn THEN "RedeliverySameOrder"
              ELSE IF lastEnd = "abort" THEN "AbortInvisible" ELSE "CommitAll"

OOp == /\ Ev("op")
       /\ LET e  == Trace[l]
              k  == kinds[e.r]
              op == [o |-> e.o, i |-> e.i, a |-> e.a]
              wf == WellFormed(k, work[e.r], op)
              ap == IF wf THEN Apply(k, work[e.r], op) ELSE Refused(work[e.r]) IN
          IF ~e.ok                    \* any resource may refuse any operation at any time
          THEN failed' = TRUE /\ UNCHANGED <<work, wrote, bad, badr>>
          ELSE IF ~ap.ok              \* the code produced a value where there is none to produce
          THEN /\ Flag(IF k \in StreamIn THEN "RedeliverySameOrder" ELSE ReadTag(e.r), e.r)
               /\ UNCHANGED <<work, wrote, failed>>
          ELSE /\ work' = [work EXCEPT ![e.r] = ap.st]
               /\ wrote' = IF op.o # "rd" \/ k \in StreamIn THEN wrote \cup {e.r} ELSE wrote
               /\ IF op.o = "rd" /\ e.res # ap.res THEN Flag(ReadTag(e.r), e.r) ELSE UNCHANGED <<bad, badr>>
               /\ UNCHANGED failed
       /\ UNCHANGED <<kinds, store, seen, phase, lastEnd>>

OFail == /\ Ev("fail") /\ failed' = TRUE
         /\ UNCHANGED <<kinds, store, work, seen, phase, lastEnd, wrote, bad, badr>>

OEnd == /\ Ev("end")
        /\ IF Trace[l].out = "commit"
           THEN /\ store' = work /\ work' = work
                /\ IF failed THEN Flag("CommitAfterFailure", "") ELSE UNCHANGED <<bad, badr>>
           ELSE /\ store' = store /\ work' = store /\ UNCHANGED <<bad, badr>>
        /\ lastEnd' = Trace[l].out /\ phase' = "idle"
        /\ UNCHANGED <<kinds, seen, failed, wrote>>

ObsTag == IF lastEnd = "abort" THEN "AbortInvisible" ELSE "CommitAll"
OObs == /\ Ev("obs")
        /\ LET e  == Trace[l]
               rs == DOMAIN e.s
               sn == [r \in DOMAIN seen |-> IF r \in rs /\ kinds[r] \in StreamOut THEN seen[r] \o e.s[r] ELSE seen[r]]
               phantom == {r \in rs : kinds[r] \in StreamOut /\ ~IsPrefix(sn[r], store[r])}
               lost    == {r \in rs : kinds[r] \in StreamOut /\ e.sync /\ sn[r] # store[r]} \ phantom
               differ  == {r \in rs : kinds[r] \notin StreamOut /\ e.s[r] # store[r]} IN
           /\ seen' = sn
           /\ IF phantom # {} THEN Flag("NoPhantomSend", CHOOSE r \in phantom : TRUE)
              ELSE IF differ # {} THEN Flag(ObsTag, CHOOSE r \in differ : TRUE)
              ELSE IF lost # {} THEN Flag("CommitAll", CHOOSE r \in lost : TRUE)
              ELSE UNCHANGED <<bad, badr>>
        /\ UNCHANGED <<kinds, store, work, phase, failed, lastEnd, wrote>>

OPanic == /\ Ev("panic") /\ Flag("NoPanic", "")
          /\ UNCHANGED <<kinds, store, work, seen, phase, failed, lastEnd, wrote>>

ONext == OCase \/ OFeed \/ OBegin \/ OOp \/ OFail \/ OEnd \/ OObs \/ OPanic

(* ---- C01 on the recorded history ---- *)
AbortInvisible      == bad # "AbortInvisible"       \* after a failed attempt every observable equals its value after the last commit
CommitAll           == bad # "CommitAll"            \* after a commit every touched resource shows the section's effects
ReadOwnWrite        == bad # "ReadOwnWrite"         \* inside a section the code sees its own earlier effects
NoPhantomSend       == bad # "NoPhantomSend"        \* only committed sends are delivered, in order
RedeliverySameOrder == bad # "RedeliverySameOrder"  \* consumed inputs of a failed attempt are offered again, in order
CommitAfterFailure  == bad # "CommitAfterFailure"   \* an attempt in which something was refused never commits
NoPanic             == bad # "NoPanic"              \* a refused operation leads to a retry, not to a crash
=============================================================================
