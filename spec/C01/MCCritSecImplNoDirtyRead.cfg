CONSTANTS
  Res <- StrRes
  KindOf <- StrKind
  Init0 <- StrInit
  Vals <- V2
  MaxOps = 2
  MaxIn = 2
  MaxLog = 2
  MaxCtr = 2
  EdgeFile = ""
  DirtyOnRead = FALSE
  AbortOnPreCommitError = TRUE
INIT IInit
NEXT INext
INVARIANTS TypeOK IdleClean InputPrefix ImplAgrees
CHECK_DEADLOCK FALSE
