------------------------------ MODULE CritSecProto ------------------------------
(* C01, M-level conformance of the recorded executions to the protocol of          *)
(* MPCalContext.Run (CritSecImpl.tla), checked in the same pass as the P-level      *)
(* judgement of CritSecObs.tla: per attempt and per resource handle, the            *)
(* fault-injecting decorators recorded the calls they received, in order (field     *)
(* "calls" of every "att" event) --                                                 *)
(* R/W/I (ReadValue / WriteValue / Index), P (PreCommit), C (Commit), A (Abort).    *)
(* Run must call, on exactly the handles the section touched: PreCommit then Commit *)
(* if the attempt committed; Abort (possibly after PreCommit) if it did not; and    *)
(* nothing on untouched handles. A violation of ProtoOK is MODEL DRIFT (the code no *)
(* longer follows the modelled mechanism), not a violation of C01: the case is then *)
(* judged again by CritSecObs.tla alone.                                            *)
EXTENDS CritSecObs

IsOp(x)  == x \in {"R", "W", "I"}
IsEnd(x) == x \in {"P", "C", "A"}
Good(out, cs) ==
  LET ops  == SelectSeq(cs, IsOp)
      tail == SelectSeq(cs, IsEnd) IN
  /\ cs = ops \o tail                                  \* no operation after the end of the attempt began
  /\ IF ops = <<>> THEN tail = <<>>                    \* untouched handles are left alone
     ELSE IF out = "commit" THEN tail = <<"P", "C">>
     ELSE tail \in {<<"A">>, <<"P", "A">>}

ProtoOK == (l > 1 /\ Trace[l - 1].e = "att") =>
              \A p \in DOMAIN Trace[l - 1].calls : Good(Trace[l - 1].out, Trace[l - 1].calls[p])
=============================================================================
