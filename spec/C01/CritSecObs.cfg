INIT OInit
NEXT ONext
INVARIANTS AbortInvisible CommitAll ReadOwnWrite NoPhantomSend RedeliverySameOrder CommitAfterFailure NoPanic
CHECK_DEADLOCK FALSE
