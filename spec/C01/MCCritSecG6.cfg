CONSTANTS
  Res <- G6Res
  KindOf <- G6Kind
  Init0 <- G6Init
  Vals <- V2
  MaxOps = 2
  MaxIn = 2
  MaxLog = 2
  MaxCtr = 2
  EdgeFile = "edges-G6.ndjson"
INIT Init
NEXT Next
INVARIANTS TypeOK IdleClean InputPrefix
PROPERTIES AtomicEnd
CHECK_DEADLOCK FALSE
