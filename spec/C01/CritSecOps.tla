------------------------------ MODULE CritSecOps ------------------------------
(* Sequential meaning of the operations a critical section can perform on one     *)
(* resource instance, per abstract resource kind. Shared by the generator / design *)
(* model (CritSec.tla) and by the specification that judges executions recorded    *)
(* from the real code (CritSecObs.tla).                                            *)
(*                                                                                 *)
(* The abstract state of EVERY resource instance is a sequence of integers:        *)
(*   cell   <<v>>              one value (local, map element, shared variable,     *)
(*                             file, 2PC variable, nested-archetype cell)          *)
(*   pcell  <<v, d>>           a cell plus the value persisted at its last commit  *)
(*   fn     <<v1, .., vn>>     a local holding a function 1..n -> value, accessed  *)
(*                             as a whole or through an index                      *)
(*   in     <<m1, .., mk>>     input stream: messages still to be delivered        *)
(*   cin    <<m1, .., mk>>     input stream that yields a default (-1) when empty  *)
(*   out    <<m1, .., mk>>     output stream: messages delivered so far            *)
(*   rout   (as out)           output stream that sends at once (relaxed mailbox)  *)
(*   log    <<e1, .., ek>>     append/pop log (raftkvs PersistentLog)              *)
(*   ctr    <<n>>              grow-only counter (CRDT GCounter, single node)      *)
(*                                                                                 *)
(* An operation is a record [o, i, a]: o \in {"rd", "wr", "pop"}, i = index        *)
(* (0 = the whole resource), a = argument sequence.                                *)
(* Apply(k, st, op) = [ok, res, st]: ok = FALSE means the resource must refuse the *)
(* operation in this state (empty input stream).                                   *)
EXTENDS Integers, Sequences, FiniteSets, TLC

Kinds == {"cell", "pcell", "fn", "in", "cin", "out", "rout", "log", "ctr"}
StreamIn  == {"in", "cin"}
StreamOut == {"out", "rout"}

R(ok, res, st) == [ok |-> ok, res |-> res, st |-> st]
Refused(st) == R(FALSE, <<>>, st)

Upd(st, i, v) == [j \in 1..Len(st) |-> IF j = i THEN v ELSE st[j]]

Apply(k, st, op) ==
  CASE k = "cell" ->
         IF op.o = "rd" THEN R(TRUE, st, st) ELSE R(TRUE, <<>>, <<op.a[1]>>)
    [] k = "pcell" ->
         IF op.o = "rd" THEN R(TRUE, <<st[1]>>, st) ELSE R(TRUE, <<>>, <<op.a[1], op.a[1]>>)
    [] k = "fn" ->
         IF op.o = "rd"
         THEN IF op.i = 0 THEN R(TRUE, st, st) ELSE R(TRUE, <<st[op.i]>>, st)
         ELSE IF op.i = 0 THEN R(TRUE, <<>>, op.a) ELSE R(TRUE, <<>>, Upd(st, op.i, op.a[1]))
    [] k = "in" ->
         IF st = <<>> THEN Refused(st) ELSE R(TRUE, <<Head(st)>>, Tail(st))
    [] k = "cin" ->
         IF st = <<>> THEN R(TRUE, <<-1>>, st) ELSE R(TRUE, <<Head(st)>>, Tail(st))
    [] k \in StreamOut -> R(TRUE, <<>>, st \o op.a)
    [] k = "log" ->
         IF op.o = "rd"
         THEN IF op.i = 0 THEN R(TRUE, st, st) ELSE R(TRUE, <<st[op.i]>>, st)
         ELSE IF op.o = "wr" THEN R(TRUE, <<>>, st \o op.a)
         ELSE R(TRUE, <<>>, SubSeq(st, 1, Len(st) - op.a[1]))
    [] k = "ctr" ->
         IF op.o = "rd" THEN R(TRUE, st, st) ELSE R(TRUE, <<>>, <<st[1] + op.a[1]>>)

(* the operation is meaningful for the kind in this state (never generated / never *)
(* recorded otherwise)                                                             *)
WellFormed(k, st, op) ==
  CASE k \in {"cell", "pcell", "ctr"} -> op.o \in {"rd", "wr"} /\ op.i = 0 /\ (op.o = "wr" => Len(op.a) = 1)
    [] k = "fn"  -> /\ op.o \in {"rd", "wr"} /\ op.i \in 0..Len(st)
                    /\ (op.o = "wr" => Len(op.a) = IF op.i = 0 THEN Len(st) ELSE 1)
    [] k \in StreamIn  -> op.o = "rd" /\ op.i = 0
    [] k \in StreamOut -> op.o = "wr" /\ op.i = 0 /\ Len(op.a) = 1
    [] k = "log" -> \/ op.o = "rd" /\ op.i \in 0..Len(st)
                    \/ op.o = "wr" /\ op.i = 0
                    \/ op.o = "pop" /\ op.i = 0 /\ Len(op.a) = 1 /\ op.a[1] \in 0..Len(st)
    [] OTHER -> FALSE

IsPrefix(s, t) == Len(s) <= Len(t) /\ \A j \in 1..Len(s) : s[j] = t[j]
=============================================================================
