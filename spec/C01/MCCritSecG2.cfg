CONSTANTS
  Res <- G2Res
  KindOf <- G2Kind
  Init0 <- G2Init
  Vals <- V2
  MaxOps = 2
  MaxIn = 2
  MaxLog = 2
  MaxCtr = 2
  EdgeFile = "edges-G2.ndjson"
INIT Init
NEXT Next
INVARIANTS TypeOK IdleClean InputPrefix
PROPERTIES AtomicEnd
CHECK_DEADLOCK FALSE
