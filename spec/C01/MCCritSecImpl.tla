------------------------------ MODULE MCCritSecImpl ------------------------------
EXTENDS CritSecImpl
V2 == {0, 1}
\* all kinds in one configuration (small bounds) ...
AllRes  == {"a", "f", "i", "o", "g", "n", "p"}
AllKind == [a |-> "cell", f |-> "fn", i |-> "in", o |-> "out", g |-> "log", n |-> "ctr", p |-> "pcell"]
AllInit == [a |-> <<0>>, f |-> <<0, 0>>, i |-> <<>>, o |-> <<>>, g |-> <<>>, n |-> <<0>>, p |-> <<0, 0>>]
\* the non-stream kinds together
MixRes  == {"f", "g", "n", "p"}
MixKind == [f |-> "fn", g |-> "log", n |-> "ctr", p |-> "pcell"]
MixInit == [f |-> <<0, 0>>, g |-> <<>>, n |-> <<0>>, p |-> <<0, 0>>]
\* ... and the stream-heavy one with the relaxed output and the defaulting input
StrRes  == {"a", "i", "c", "o", "x"}
StrKind == [a |-> "cell", i |-> "in", c |-> "cin", o |-> "out", x |-> "rout"]
StrInit == [a |-> <<0>>, i |-> <<>>, c |-> <<>>, o |-> <<>>, x |-> <<>>]
=============================================================================
