CONSTANTS
  Res <- G3Res
  KindOf <- G3Kind
  Init0 <- G3Init
  Vals <- V2
  MaxOps = 2
  MaxIn = 2
  MaxLog = 2
  MaxCtr = 2
  EdgeFile = "edges-G3.ndjson"
INIT Init
NEXT Next
INVARIANTS TypeOK IdleClean InputPrefix
PROPERTIES AtomicEnd
CHECK_DEADLOCK FALSE
