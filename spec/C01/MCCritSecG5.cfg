CONSTANTS
  Res <- G5Res
  KindOf <- G5Kind
  Init0 <- G5Init
  Vals <- V2
  MaxOps = 2
  MaxIn = 2
  MaxLog = 2
  MaxCtr = 2
  EdgeFile = "edges-G5.ndjson"
INIT Init
NEXT Next
INVARIANTS TypeOK IdleClean InputPrefix
PROPERTIES AtomicEnd
CHECK_DEADLOCK FALSE
