---------------------------- MODULE CRDTResource ----------------------------
(* M-spec of C13: distsys/resources/crdt.go, one action per lock region /         *)
(* linearization point.  Written to be bound to the code, deviations included:    *)
(*                                                                                *)
(*   FixMerge = FALSE  merger folds a received state into `value` only (pinned);  *)
(*            = TRUE   ... and into `oldValue` while a section is in flight       *)
(*   ArmAt   = "write" WriteValue sets needBroadcastCount (pinned);               *)
(*           = "commit" Commit sets it (only if the section wrote)                *)
(*   Upfront = FALSE   broadcast() decrements needBroadcastCount per reply        *)
(*           = TRUE    broadcast() takes the count when it starts and gives back  *)
(*                     what it could not deliver when it ends                     *)
(*   SplitStart        (only with Upfront) taking the count and reading the       *)
(*                     stable value are two lock regions -> two actions           *)
(*                                                                                *)
(* CRDT states are knowledge vectors (see CRDTDelivery.tla); Merge = pointwise    *)
(* max, Write at node i = increment component i.                                  *)
(* Virt = nodes played by the harness (spy peers): they commit at once, merge at  *)
(* once and never open sections.                                                  *)
EXTENDS Naturals, Sequences, FiniteSets

CONSTANTS Nodes, Virt, MaxUpd, MaxFail, FixMerge, ArmAt, Upfront, SplitStart,
          Cap      \* [Nodes -> 0..MaxUpd]: how many updates each node may make (bounds the model)

Real == Nodes \ Virt
CapAll  == [i \in Nodes |-> MaxUpd]
CapAsym == [i \in Nodes |-> IF i = 1 THEN MaxUpd ELSE 1]
CapTwo  == [i \in Nodes |-> IF i <= 2 THEN MaxUpd ELSE 0]

VARIABLES value,   \* [Nodes -> Vec]  working state (crdt.value)
          old,     \* [Nodes -> Vec]  crdt.oldValue (Zero when hasOld is FALSE)
          hasOld,  \* [Nodes -> BOOLEAN] section in flight that has written
          nbc,     \* [Nodes -> Nat]  needBroadcastCount
          mq,      \* [Nodes -> Seq(Vec)] mergeValues channel
          bph,     \* [Nodes -> {"idle","armed","wait"}] phase of broadcast()
          owed,    \* [Nodes -> Nat]  (Upfront) count taken by the running broadcast
          dlv,     \* [Nodes -> Nat]  (Upfront) successful replies of the running broadcast
          calls,   \* [Nodes -> [Nodes -> call]] RPC i -> j of the running broadcast of i
          fails,   \* number of injected call failures so far
          flt      \* [Nodes -> [Nodes -> BOOLEAN]] a call i -> j has failed at some time
mvars == <<value, old, hasOld, nbc, mq, bph, owed, dlv, calls, fails, flt>>

Vec  == [Nodes -> 0..MaxUpd]
Zero == [k \in Nodes |-> 0]
Max(a, b) == IF a >= b THEN a ELSE b
Monus(a, b) == IF a >= b THEN a - b ELSE 0
Join(a, b) == [k \in Nodes |-> Max(a[k], b[k])]
Leq(a, b)  == \A k \in Nodes : a[k] <= b[k]

Peers(i)  == Nodes \ {i}
NP(i)     == Cardinality(Peers(i))
Stable(i) == IF hasOld[i] THEN old[i] ELSE value[i]     \* getStableValue
NoCall    == [t |-> "none", v |-> Zero]

Init == /\ value = [i \in Nodes |-> Zero] /\ old = [i \in Nodes |-> Zero]
        /\ hasOld = [i \in Nodes |-> FALSE] /\ nbc = [i \in Nodes |-> 0]
        /\ mq = [i \in Nodes |-> <<>>] /\ bph = [i \in Nodes |-> "idle"]
        /\ owed = [i \in Nodes |-> 0] /\ dlv = [i \in Nodes |-> 0]
        /\ calls = [i \in Nodes |-> [j \in Nodes |-> NoCall]]
        /\ fails = 0 /\ flt = [i \in Nodes |-> [j \in Nodes |-> FALSE]]

----------------------------------------------------------------------------
(* ArchetypeResource methods *)
Write(i) == /\ i \in Real /\ value[i][i] < Cap[i]
            /\ old' = IF hasOld[i] THEN old ELSE [old EXCEPT ![i] = value[i]]
            /\ hasOld' = [hasOld EXCEPT ![i] = TRUE]
            /\ value' = [value EXCEPT ![i][i] = @ + 1]
            /\ nbc' = IF ArmAt = "write" THEN [nbc EXCEPT ![i] = NP(i)] ELSE nbc
            /\ UNCHANGED <<mq, bph, owed, dlv, calls, fails, flt>>

Commit(i) == /\ i \in Real /\ hasOld[i]
             /\ hasOld' = [hasOld EXCEPT ![i] = FALSE] /\ old' = [old EXCEPT ![i] = Zero]
             /\ nbc' = IF ArmAt = "commit" THEN [nbc EXCEPT ![i] = NP(i)] ELSE nbc
             /\ UNCHANGED <<value, mq, bph, owed, dlv, calls, fails, flt>>

Abort(i) == /\ i \in Real /\ hasOld[i]
            /\ value' = [value EXCEPT ![i] = old[i]]
            /\ hasOld' = [hasOld EXCEPT ![i] = FALSE] /\ old' = [old EXCEPT ![i] = Zero]
            /\ UNCHANGED <<nbc, mq, bph, owed, dlv, calls, fails, flt>>

(* a harness-played peer commits an update of its own *)
VWrite(k) == /\ k \in Virt /\ value[k][k] < Cap[k]
             /\ value' = [value EXCEPT ![k][k] = @ + 1]
             /\ UNCHANGED <<old, hasOld, nbc, mq, bph, owed, dlv, calls, fails, flt>>

(* a harness-played peer k calls ReceiveValue of the real node j with its state, *)
(* and merges the reply                                                           *)
Inject(k, j) == /\ k \in Virt /\ j \in Real
                /\ mq' = [mq EXCEPT ![j] = Append(@, value[k])]
                /\ value' = [value EXCEPT ![k] = Join(@, Stable(j))]
                /\ UNCHANGED <<old, hasOld, nbc, bph, owed, dlv, calls, fails, flt>>

----------------------------------------------------------------------------
(* runBroadcasts / broadcast *)
SendAll(i) == calls' = [calls EXCEPT ![i] = [j \in Nodes |->
                  IF j \in Peers(i) THEN [t |-> "req", v |-> Stable(i)] ELSE NoCall]]

BcastStart(i) ==
    /\ i \in Real /\ bph[i] = "idle" /\ nbc[i] > 0
    /\ IF Upfront
       THEN /\ owed' = [owed EXCEPT ![i] = nbc[i]] /\ nbc' = [nbc EXCEPT ![i] = 0]
            /\ dlv' = [dlv EXCEPT ![i] = 0]
            /\ IF SplitStart
               THEN bph' = [bph EXCEPT ![i] = "armed"] /\ UNCHANGED calls
               ELSE bph' = [bph EXCEPT ![i] = "wait"] /\ SendAll(i)
       ELSE /\ bph' = [bph EXCEPT ![i] = "wait"] /\ SendAll(i)
            /\ UNCHANGED <<owed, nbc, dlv>>
    /\ UNCHANGED <<value, old, hasOld, mq, fails, flt>>

BcastSend(i) == /\ i \in Real /\ bph[i] = "armed"
                /\ bph' = [bph EXCEPT ![i] = "wait"] /\ SendAll(i)
                /\ UNCHANGED <<value, old, hasOld, nbc, mq, owed, dlv, fails, flt>>

(* CRDTRPCReceiver.ReceiveValue at j for the call of i: enqueue, reply stable(j) *)
PeerRecv(i, j) ==
    /\ calls[i][j].t = "req"
    /\ IF j \in Real
       THEN /\ mq' = [mq EXCEPT ![j] = Append(@, calls[i][j].v)]
            /\ calls' = [calls EXCEPT ![i][j] = [t |-> "rep", v |-> Stable(j)]]
            /\ UNCHANGED value
       ELSE /\ value' = [value EXCEPT ![j] = Join(@, calls[i][j].v)]
            /\ calls' = [calls EXCEPT ![i][j] = [t |-> "rep", v |-> Join(value[j], calls[i][j].v)]]
            /\ UNCHANGED mq
    /\ UNCHANGED <<old, hasOld, nbc, bph, owed, dlv, fails, flt>>

(* the call i -> j fails (connection error / peer down); the peer sees nothing *)
PeerFail(i, j) == /\ calls[i][j].t = "req" /\ fails < MaxFail
                  /\ calls' = [calls EXCEPT ![i][j] = [t |-> "err", v |-> Zero]]
                  /\ fails' = fails + 1 /\ flt' = [flt EXCEPT ![i][j] = TRUE]
                  /\ UNCHANGED <<value, old, hasOld, nbc, mq, bph, owed, dlv>>

(* broadcast() consumes the outcome of the call to j *)
BcastReply(i, j) ==
    /\ bph[i] = "wait" /\ calls[i][j].t \in {"rep", "err"}
    /\ LET ok     == calls[i][j].t = "rep"
           isLast == \A k \in Nodes \ {j} : calls[i][k].t = "none"
           dlv2   == IF ok THEN dlv[i] + 1 ELSE dlv[i]
           nbc1   == IF ok /\ ~Upfront THEN Monus(nbc[i], 1) ELSE nbc[i]
           nbc2   == IF isLast /\ Upfront THEN Max(nbc1, Monus(owed[i], dlv2)) ELSE nbc1
       IN /\ mq' = IF ok THEN [mq EXCEPT ![i] = Append(@, calls[i][j].v)] ELSE mq
          /\ nbc' = [nbc EXCEPT ![i] = nbc2]
          /\ dlv' = [dlv EXCEPT ![i] = IF isLast THEN 0 ELSE IF Upfront THEN dlv2 ELSE 0]
          /\ owed' = [owed EXCEPT ![i] = IF isLast THEN 0 ELSE @]
          /\ bph' = [bph EXCEPT ![i] = IF isLast THEN "idle" ELSE "wait"]
    /\ calls' = [calls EXCEPT ![i][j] = NoCall]
    /\ UNCHANGED <<value, old, hasOld, fails, flt>>

(* merger goroutine *)
MergeStep(i) == /\ i \in Real /\ mq[i] # <<>>
                /\ value' = [value EXCEPT ![i] = Join(@, Head(mq[i]))]
                /\ old' = IF FixMerge /\ hasOld[i] THEN [old EXCEPT ![i] = Join(@, Head(mq[i]))] ELSE old
                /\ mq' = [mq EXCEPT ![i] = Tail(@)]
                /\ UNCHANGED <<hasOld, nbc, bph, owed, dlv, calls, fails, flt>>

Next == \/ \E i \in Nodes : Write(i) \/ Commit(i) \/ Abort(i) \/ VWrite(i) \/ BcastStart(i)
                             \/ BcastSend(i) \/ MergeStep(i)
        \/ \E i, j \in Nodes : Inject(i, j) \/ PeerRecv(i, j) \/ PeerFail(i, j) \/ BcastReply(i, j)

Fair == /\ \A i \in Nodes : WF_mvars(BcastStart(i)) /\ WF_mvars(BcastSend(i)) /\ WF_mvars(MergeStep(i))
        /\ \A i, j \in Nodes : WF_mvars(PeerRecv(i, j)) /\ WF_mvars(BcastReply(i, j))

Spec == Init /\ [][Next]_mvars /\ Fair

----------------------------------------------------------------------------
(* refinement mapping to the P-spec *)
P_own  == [i \in Nodes |-> Stable(i)[i]]
P_infl == [i \in Nodes |-> value[i][i] - Stable(i)[i]]
P_seen == [i \in Nodes |-> [k \in Nodes |-> IF k = i THEN 0 ELSE value[i][k]]]
P == INSTANCE CRDTDelivery WITH own <- P_own, infl <- P_infl, seen <- P_seen

PSafety       == P!PSafety
OnlyCommitted == P!OnlyCommitted

TypeOK == /\ value \in [Nodes -> Vec] /\ old \in [Nodes -> Vec]
          /\ \A i \in Nodes : Leq(Stable(i), value[i]) \/ ~FixMerge

(* nothing on the wire or in a queue contains an update of a section in flight *)
NoInflightBroadcast ==
    /\ \A i, j \in Nodes : calls[i][j].t \in {"req", "rep"} => Leq(calls[i][j].v, P_own)
    /\ \A i \in Nodes : \A n \in 1..Len(mq[i]) : Leq(mq[i][n], P_own)

(* every committed update reaches every peer whose link never failed *)
Delivered == \A i, j \in Nodes : \A c \in 1..MaxUpd :
                 i # j => ((P_own[i] >= c) ~> (P_seen[j][i] >= c \/ flt[i][j]))
Converged == <>[](\A i, j \in Nodes : i # j => (P_seen[j][i] = P_own[i] \/ flt[i][j]))
=============================================================================
