-------------------------- MODULE CRDTResourceTrace --------------------------
(* M-level trace specification (conformance): the events of the *gated* cases   *)
(* of harness/cmd/c13drv must be a behaviour of CRDTResource.tla, with the      *)
(* abstract state compared wherever the code shows it: every read is value[i],  *)
(* every state on the wire is the `v` of the corresponding call. A trace that   *)
(* is not accepted is model drift (the code no longer is what CRDTResource      *)
(* says), never a verdict -- verdicts come from CRDTObs.tla.                    *)
EXTENDS CRDTResource, TLC, Json

Trace == ndJsonDeserialize("trace.ndjson")

VARIABLES l, kind
tvars == <<mvars, l, kind>>

Pow10(k) == IF k = 1 THEN 1 ELSE IF k = 2 THEN 10 ELSE 100
Vw(e) == IF kind = "gc" THEN [k \in Nodes |-> (e.n \div Pow10(k)) % 10]
         ELSE [k \in Nodes |-> Cardinality({x \in 1..Len(e.s) : e.s[x] \div 100 = k})]

T == Trace[l]
Ev(e) == l <= Len(Trace) /\ Trace[l].e = e /\ l' = l + 1
Keep == UNCHANGED mvars

TInit == Init /\ l = 1 /\ kind = "gc"

TCase == /\ Ev("case") /\ kind' = T.kind
         /\ value' = [i \in Nodes |-> Zero] /\ old' = [i \in Nodes |-> Zero]
         /\ hasOld' = [i \in Nodes |-> FALSE] /\ nbc' = [i \in Nodes |-> 0]
         /\ mq' = [i \in Nodes |-> <<>>] /\ bph' = [i \in Nodes |-> "idle"]
         /\ owed' = [i \in Nodes |-> 0] /\ dlv' = [i \in Nodes |-> 0]
         /\ calls' = [i \in Nodes |-> [j \in Nodes |-> NoCall]]
         /\ fails' = 0 /\ flt' = [i \in Nodes |-> [j \in Nodes |-> FALSE]]

TickSilent(i) == i \in Real /\ bph[i] = "idle" /\ nbc[i] = 0 /\ Keep

(* merger takes the queue in order; the order in which broadcast() consumes the *)
(* replies of one tick (map iteration) is not modelled, so any queued copy of   *)
(* the merged state is accepted                                                  *)
MergeSeen(i, v) ==
    /\ i \in Real
    /\ \E x \in 1..Len(mq[i]) :
         /\ mq[i][x] = v
         /\ \A y \in 1..(x - 1) : mq[i][y] # v
         /\ mq' = [mq EXCEPT ![i] = SubSeq(@, 1, x - 1) \o SubSeq(@, x + 1, Len(@))]
    /\ value' = [value EXCEPT ![i] = Join(@, v)]
    /\ old' = IF FixMerge /\ hasOld[i] THEN [old EXCEPT ![i] = Join(@, v)] ELSE old
    /\ UNCHANGED <<hasOld, nbc, bph, owed, dlv, calls, fails, flt>>

TStep ==
    \/ Ev("write") /\ Write(T.i) /\ UNCHANGED kind
    \/ Ev("commit") /\ Commit(T.i) /\ UNCHANGED kind
    \/ Ev("abort") /\ Abort(T.i) /\ UNCHANGED kind
    \/ Ev("vwrite") /\ VWrite(T.i) /\ UNCHANGED kind
    \/ Ev("tick") /\ (IF T.sent THEN BcastStart(T.i) ELSE TickSilent(T.i)) /\ UNCHANGED kind
    \/ Ev("send") /\ calls[T.i][T.j] = [t |-> "req", v |-> Vw(T)] /\ Keep /\ UNCHANGED kind
    \/ Ev("deliver") /\ (IF T.i \in Virt THEN Inject(T.i, T.j)
                         ELSE calls[T.i][T.j].v = Vw(T) /\ PeerRecv(T.i, T.j)) /\ UNCHANGED kind
    \/ Ev("reply") /\ (T.j \in Virt \/ calls[T.j][T.i] = [t |-> "rep", v |-> Vw(T)]) /\ Keep /\ UNCHANGED kind
    \/ Ev("fail") /\ PeerFail(T.i, T.j) /\ UNCHANGED kind
    \/ (Ev("replied") \/ Ev("failed")) /\ BcastReply(T.i, T.j) /\ UNCHANGED kind
    \/ Ev("merged") /\ (IF T.i \in Virt THEN Keep ELSE MergeSeen(T.i, Vw(T))) /\ UNCHANGED kind
    \/ Ev("read") /\ value[T.i] = Vw(T) /\ Keep /\ UNCHANGED kind
    \/ /\ l <= Len(Trace) /\ Trace[l].e \in {"cmd", "skip", "commitdone", "tickarr", "bdone", "settled", "end"}
       /\ l' = l + 1 /\ Keep /\ UNCHANGED kind

TNext == TCase \/ TStep
=============================================================================
