CONSTANTS
  Nodes = {1,2}
  Virt = {}
  MaxUpd = 2
  MaxFail = 0
  FixMerge = TRUE
  ArmAt = "commit"
  Upfront = FALSE
  SplitStart = FALSE
  Cap <- CapAll
SPECIFICATION Spec
INVARIANTS TypeOK NoInflightBroadcast OnlyCommitted
PROPERTIES PSafety Delivered Converged
CHECK_DEADLOCK FALSE
