INIT OInit
NEXT ONext
INVARIANTS NoInflightBroadcast AbortErases OwnUpdateLost ReceivedNeverLost Delivered WellFormed Settles
CHECK_DEADLOCK FALSE
