CONSTANTS
  Nodes = {1,2}
  Virt = {2}
  MaxUpd = 1
  MaxFail = 0
  FixMerge = TRUE
  ArmAt = "commit"
  Upfront = TRUE
  SplitStart = FALSE
  Cap <- CapAll
INIT GInit
NEXT GNext
CONSTRAINT QBound
INVARIANTS NoInflightBroadcast OnlyCommitted
CHECK_DEADLOCK FALSE
