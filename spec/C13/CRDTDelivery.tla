---------------------------- MODULE CRDTDelivery ----------------------------
(* P-spec of C13: what the CRDT *resource* owes its users, independent of how    *)
(* distsys/resources/crdt.go is written.                                         *)
(*                                                                               *)
(* Every update is identified by (origin node, sequence number). State-based     *)
(* CRDTs ship whole states, so what a node knows of origin k is a prefix 1..c of *)
(* k's updates: knowledge is a vector  Nodes -> Nat.                             *)
(*   own[i]   number of updates of node i in committed critical sections         *)
(*   infl[i]  number of updates of the section node i has in flight (0 = none)   *)
(*   seen[i]  what node i has merged of the *other* nodes (seen[i][i] unused)    *)
(* A read at node i returns the CRDT value of  View(i).                          *)
EXTENDS Naturals, FiniteSets

CONSTANTS Nodes, MaxUpd

VARIABLES own, infl, seen
pvars == <<own, infl, seen>>

Vec  == [Nodes -> 0..MaxUpd]
Zero == [k \in Nodes |-> 0]
Max(a, b) == IF a >= b THEN a ELSE b
Join(a, b) == [k \in Nodes |-> Max(a[k], b[k])]
Leq(a, b)  == \A k \in Nodes : a[k] <= b[k]
(* merge at node j: the own component is not driven by what peers say *)
JoinAt(j, a, v) == [k \in Nodes |-> IF k = j THEN a[k] ELSE Max(a[k], v[k])]

View(i) == [k \in Nodes |-> IF k = i THEN own[i] + infl[i] ELSE seen[i][k]]

PInit == own = Zero /\ infl = Zero /\ seen = [i \in Nodes |-> Zero]

PWrite(i)  == /\ own[i] + infl[i] < MaxUpd
              /\ infl' = [infl EXCEPT ![i] = @ + 1] /\ UNCHANGED <<own, seen>>
PCommit(i) == /\ own' = [own EXCEPT ![i] = @ + infl[i]]
              /\ infl' = [infl EXCEPT ![i] = 0] /\ UNCHANGED seen
(* "updates of an aborted section disappear" -- and nothing else does *)
PAbort(i)  == /\ infl' = [infl EXCEPT ![i] = 0] /\ UNCHANGED <<own, seen>>
(* a node learns, from a peer, only updates of committed sections: updates of a   *)
(* section in flight are never broadcast. Any order, duplication, staleness.      *)
(* a whole one-update section at once (used for harness-played peers) *)
PUpdate(i) == /\ infl[i] = 0 /\ own[i] < MaxUpd
              /\ own' = [own EXCEPT ![i] = @ + 1] /\ UNCHANGED <<infl, seen>>
PMerge(j)  == /\ \E v \in Vec : Leq(v, own) /\ seen' = [seen EXCEPT ![j] = JoinAt(j, @, v)]
              /\ UNCHANGED <<own, infl>>

PNext == \E i \in Nodes : PWrite(i) \/ PCommit(i) \/ PAbort(i) \/ PUpdate(i) \/ PMerge(i)

(* Safety part of the statement: every step of the resource is one of the above. *)
(* In particular seen[i] never shrinks (ReceivedNeverLost, across commit AND      *)
(* abort), an abort changes nothing but infl (AbortErases), and                   *)
PSafety == PInit /\ [][PNext]_pvars

OnlyCommitted == \A j, k \in Nodes : j # k => seen[j][k] <= own[k]

(* Liveness part: every committed update reaches every (connected) peer; hence   *)
(* once updates stop all views agree.                                             *)
Delivered == \A i, j \in Nodes : \A c \in 1..MaxUpd :
                 i # j => ((own[i] >= c) ~> (seen[j][i] >= c))
Converged == <>[](\A i, j \in Nodes : i # j => seen[j][i] = own[i])
=============================================================================
