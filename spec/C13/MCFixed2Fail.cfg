CONSTANTS
  Nodes = {1,2}
  Virt = {}
  MaxUpd = 2
  MaxFail = 1
  FixMerge = TRUE
  ArmAt = "commit"
  Upfront = TRUE
  SplitStart = TRUE
  Cap <- CapAll
SPECIFICATION Spec
INVARIANTS TypeOK NoInflightBroadcast OnlyCommitted
PROPERTIES PSafety Delivered Converged
CHECK_DEADLOCK FALSE
