CONSTANTS
  Nodes = {1,2}
  Virt = {}
  MaxUpd = 3
  MaxFail = 0
  FixMerge = TRUE
  ArmAt = "commit"
  Upfront = TRUE
  SplitStart = TRUE
  Cap <- CapAll
SPECIFICATION Spec
INVARIANTS TypeOK NoInflightBroadcast OnlyCommitted
PROPERTIES PSafety Delivered Converged
CHECK_DEADLOCK FALSE
