CONSTANTS
  Nodes = {1,2,3}
  Virt = {}
  MaxUpd = 1
  MaxFail = 0
  FixMerge = TRUE
  ArmAt = "commit"
  Upfront = TRUE
  SplitStart = FALSE
  Cap <- CapTwo
SPECIFICATION Spec
INVARIANTS TypeOK NoInflightBroadcast OnlyCommitted
PROPERTIES PSafety Delivered Converged
CHECK_DEADLOCK FALSE
