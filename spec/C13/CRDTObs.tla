------------------------------ MODULE CRDTObs ------------------------------
(* P-level trace specification of C13: folds the events recorded from real       *)
(* resources.NewCRDT instances (harness/cmd/c13drv) into the state of             *)
(* CRDTDelivery.tla -- own / infl / seen -- and evaluates the statement of C13 on *)
(* every event. It knows nothing of how crdt.go is written.                       *)
(*                                                                                *)
(* Views: the driver gives every node its own, recognisable updates, so a read    *)
(* (or the Read() of a state seen on the wire) decodes to a knowledge vector:     *)
(*   kind "gc" (GCounter): node k adds 10^(k-1) per update; digit k of the read   *)
(*   kind "aw" (AWORSet):  node k adds elements 100k+1, 100k+2, ...               *)
EXTENDS Naturals, Sequences, FiniteSets, TLC, Json

Trace == ndJsonDeserialize("trace.ndjson")

Nodes == 1..3
Zero  == [k \in Nodes |-> 0]
Max(a, b) == IF a >= b THEN a ELSE b

VARIABLES l,      \* next line of the trace
          hdr,    \* the "case" line of the current case
          own, infl, seen,   \* as in CRDTDelivery
          pend,   \* [Nodes -> vector] join of everything handed to node j for merging
          outst,  \* [Nodes -> Nat] states handed to j and not yet reported merged
          age,    \* [Nodes -> Nat] ticker iterations of i begun since its last commit returned
          dirty,  \* [Nodes -> [Nodes -> BOOLEAN]] a call i -> j failed since i's last commit
          final,  \* the settle condition was reached (counted in events, see OSettled)
          unsettled, \* a "settled" line whose precondition does not hold in the events
          viol    \* first part of the statement violated, or "none"
ovars == <<l, hdr, own, infl, seen, pend, outst, age, dirty, final, unsettled, viol>>

NoDirty == [i \in Nodes |-> [j \in Nodes |-> FALSE]]
NoHdr   == [kind |-> "gc", nn |-> 0, virt |-> <<>>, gated |-> FALSE]

OInit == /\ l = 1 /\ hdr = NoHdr /\ own = Zero /\ infl = Zero /\ seen = [i \in Nodes |-> Zero]
         /\ pend = [i \in Nodes |-> Zero] /\ outst = Zero /\ age = Zero /\ dirty = NoDirty
         /\ final = FALSE /\ unsettled = FALSE /\ viol = "none"

----------------------------------------------------------------------------
Pow10(k) == IF k = 1 THEN 1 ELSE IF k = 2 THEN 10 ELSE 100
VecGC(n) == [k \in Nodes |-> (n \div Pow10(k)) % 10]
VecAW(s) == [k \in Nodes |-> Cardinality({x \in 1..Len(s) : s[x] \div 100 = k})]
(* the elements of origin k present are exactly 100k+1 .. 100k+c (states are whole) *)
WellAW(s) == \A x \in 1..Len(s) : /\ (s[x] \div 100) \in Nodes
                                  /\ (s[x] % 100) \in 1..VecAW(s)[s[x] \div 100]
                                  /\ \A y \in 1..Len(s) : s[x] = s[y] => x = y
Vw(e)   == IF hdr.kind = "gc" THEN VecGC(e.n) ELSE VecAW(e.s)
Well(e) == IF hdr.kind = "gc" THEN e.n < 1000 ELSE WellAW(e.s)

IsVirt(i) == \E x \in 1..Len(hdr.virt) : hdr.virt[x] = i
InCase(i) == i \in 1..hdr.nn
RealN     == {i \in Nodes : InCase(i) /\ ~IsVirt(i)}

Flag(name) == IF viol = "none" THEN name ELSE viol
Ev(e) == l <= Len(Trace) /\ Trace[l].e = e /\ l' = l + 1
T == Trace[l]

OCase == /\ Ev("case")
         /\ hdr' = [kind |-> T.kind, nn |-> T.nn, virt |-> T.virt, gated |-> T.gated]
         /\ own' = Zero /\ infl' = Zero /\ seen' = [i \in Nodes |-> Zero]
         /\ pend' = [i \in Nodes |-> Zero] /\ outst' = Zero /\ age' = Zero /\ dirty' = NoDirty
         /\ final' = FALSE /\ unsettled' = FALSE /\ viol' = "none"

OWrite == /\ Ev("write") /\ infl' = [infl EXCEPT ![T.i] = @ + 1]
          /\ UNCHANGED <<hdr, own, seen, pend, outst, age, dirty, final, unsettled, viol>>
(* logged before Commit is called: from here on the updates may be broadcast *)
OCommit == /\ Ev("commit") /\ own' = [own EXCEPT ![T.i] = @ + infl[T.i]]
           /\ infl' = [infl EXCEPT ![T.i] = 0]
           /\ UNCHANGED <<hdr, seen, pend, outst, age, dirty, final, unsettled, viol>>
(* logged after Commit returned: ticks are counted from here *)
OCommitDone == /\ Ev("commitdone") /\ age' = [age EXCEPT ![T.i] = 0]
               /\ dirty' = [dirty EXCEPT ![T.i] = [j \in Nodes |-> FALSE]]
               /\ UNCHANGED <<hdr, own, infl, seen, pend, outst, final, unsettled, viol>>
OAbort == /\ Ev("abort") /\ infl' = [infl EXCEPT ![T.i] = 0]
          /\ UNCHANGED <<hdr, own, seen, pend, outst, age, dirty, final, unsettled, viol>>
OVWrite == /\ Ev("vwrite") /\ own' = [own EXCEPT ![T.i] = @ + 1]
           /\ UNCHANGED <<hdr, infl, seen, pend, outst, age, dirty, final, unsettled, viol>>

(* a state node i put on the wire (broadcast call, or reply to a peer's call):   *)
(* it must consist of committed updates only                                      *)
OSent == /\ (Ev("send") \/ Ev("reply"))
         /\ viol' = IF ~Well(T) THEN Flag("WellFormed")
                    ELSE IF \E k \in Nodes : Vw(T)[k] > own[k] THEN Flag("NoInflightBroadcast")
                    ELSE viol
         (* "reply" is logged when ReceiveValue of node T.i has returned: the state handed to *)
         (* it is in its queue from here on; its ticks are counted from here               *)
         /\ age' = IF T.e = "reply" THEN [age EXCEPT ![T.i] = 0] ELSE age
         /\ UNCHANGED <<hdr, own, infl, seen, pend, outst, dirty, final, unsettled>>

(* a state is handed to node j's ReceiveValue (deliver: i -> j) / returned to the *)
(* broadcasting node i as reply of j (replied): it will be merged there           *)
OHand == /\ (Ev("deliver") \/ Ev("replied"))
         /\ LET to == IF T.e = "deliver" THEN T.j ELSE T.i IN
            /\ pend' = [pend EXCEPT ![to] = [k \in Nodes |-> Max(@[k], Vw(T)[k])]]
            /\ outst' = [outst EXCEPT ![to] = @ + 1]
            /\ age' = [age EXCEPT ![to] = 0]
         /\ UNCHANGED <<hdr, own, infl, seen, dirty, final, unsettled, viol>>

OFail == /\ Ev("fail") /\ dirty' = [dirty EXCEPT ![T.i][T.j] = TRUE]
         /\ UNCHANGED <<hdr, own, infl, seen, pend, outst, age, final, unsettled, viol>>

OTickArr == /\ Ev("tickarr") /\ age' = [age EXCEPT ![T.i] = @ + 1]
            /\ UNCHANGED <<hdr, own, infl, seen, pend, outst, dirty, final, unsettled, viol>>

(* hook: node i has merged this state. In gated cases the driver is sequential, so *)
(* from here on node i must show it (ReceivedNeverLost is then checked against     *)
(* what was merged, not only against what was last read).                          *)
OMerged == /\ Ev("merged")
           /\ outst' = [outst EXCEPT ![T.i] = IF @ > 0 THEN @ - 1 ELSE 0]
           /\ seen' = IF hdr.gated
                      THEN [seen EXCEPT ![T.i] = [k \in Nodes |-> IF k = T.i THEN @[k] ELSE Max(@[k], Vw(T)[k])]]
                      ELSE seen
           /\ UNCHANGED <<hdr, own, infl, pend, age, dirty, final, unsettled, viol>>

ReadVerdict(i, v) ==
    IF ~Well(T) THEN "WellFormed"
    ELSE IF v[i] > own[i] + infl[i] THEN "AbortErases"           \* an update that was aborted (or never made) shows
    ELSE IF v[i] < own[i] + infl[i] THEN "OwnUpdateLost"          \* a local update is missing
    ELSE IF \E k \in Nodes \ {i} : v[k] > own[k] THEN "NoInflightBroadcast"  \* knows an uncommitted update of k
    ELSE IF \E k \in Nodes \ {i} : v[k] < seen[i][k] THEN "ReceivedNeverLost"
    ELSE IF final /\ \E k \in RealN \ {i} : ~dirty[k][i] /\ v[k] # own[k] THEN "Delivered"
    ELSE "none"

ORead == /\ Ev("read")
         /\ LET v == Vw(T) r == ReadVerdict(T.i, Vw(T)) IN
            /\ viol' = IF r = "none" THEN viol ELSE Flag(r)
            /\ seen' = [seen EXCEPT ![T.i] = [k \in Nodes |-> IF k = T.i THEN @[k] ELSE Max(@[k], v[k])]]
         /\ UNCHANGED <<hdr, own, infl, pend, outst, age, dirty, final, unsettled>>

(* the driver claims quiescence; it counts only if the events bear it out: no     *)
(* section is in flight and every real node began >= 3 ticker iterations after    *)
(* its last commit returned and after the last state was handed to it (so >= 2    *)
(* whole broadcasts started after the commit), and every state handed to it was   *)
(* reported merged -- or, failing such reports, it began >= 50 iterations (the    *)
(* generous bound in protocol events of DESIGN section 3). Then every committed   *)
(* update must be everywhere.                                                     *)
SettleOK == \A i \in RealN : /\ infl[i] = 0 /\ age[i] >= 3
                             /\ (outst[i] = 0 \/ age[i] >= 50)
OSettled == /\ Ev("settled")
            /\ final' = SettleOK /\ unsettled' = (unsettled \/ ~SettleOK)
            /\ UNCHANGED <<hdr, own, infl, seen, pend, outst, age, dirty, viol>>

OOther == /\ l <= Len(Trace)
          /\ Trace[l].e \in {"cmd", "skip", "tick", "bdone", "failed", "end", "drift"}
          /\ l' = l + 1
          /\ UNCHANGED <<hdr, own, infl, seen, pend, outst, age, dirty, final, unsettled, viol>>

ONext == OCase \/ OWrite \/ OCommit \/ OCommitDone \/ OAbort \/ OVWrite \/ OSent \/ OHand
         \/ OFail \/ OTickArr \/ OMerged \/ ORead \/ OSettled \/ OOther

----------------------------------------------------------------------------
(* one invariant per clause of the statement, so TLC names what failed *)
NoInflightBroadcast == viol # "NoInflightBroadcast"
AbortErases         == viol # "AbortErases"
OwnUpdateLost       == viol # "OwnUpdateLost"
ReceivedNeverLost   == viol # "ReceivedNeverLost"
Delivered           == viol # "Delivered"
WellFormed          == viol # "WellFormed"
(* not a verdict: the driver's settle claim was not borne out by the events *)
Settles             == ~unsettled
=============================================================================
