------------------------------- MODULE MCCRDT -------------------------------
(* design-level model checking of CRDTResource against CRDTDelivery *)
EXTENDS CRDTResource
=============================================================================
