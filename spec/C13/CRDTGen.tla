------------------------------ MODULE CRDTGen ------------------------------
(* Generator: the behaviours of CRDTResource, with the driver command that      *)
(* produces each step recorded in `last` (so the dot dump of TLC carries it).   *)
(* One command = one thing harness/cmd/c13drv can force on the real code:        *)
(*   W/C/A i  WriteValue / Commit / Abort          V k   update of a played peer *)
(*   T i      one gated iteration of runBroadcasts (silent when nothing is owed) *)
(*   P i j    let the held call i -> j reach ReceiveValue of j                   *)
(*   X i j    fail the held call i -> j             B i j release its outcome    *)
(*   M i      one gated step of merger              I k j played peer k calls j  *)
EXTENDS CRDTResource

VARIABLE last
gvars == <<mvars, last>>

GInit == Init /\ last = <<"init">>

TickSilent(i) == i \in Real /\ bph[i] = "idle" /\ nbc[i] = 0 /\ UNCHANGED mvars

GNext == \/ \E i \in Nodes :
              \/ Write(i) /\ last' = <<"W", i>>
              \/ Commit(i) /\ last' = <<"C", i>>
              \/ Abort(i) /\ last' = <<"A", i>>
              \/ VWrite(i) /\ last' = <<"V", i>>
              \/ BcastStart(i) /\ last' = <<"T", i>>
              \/ TickSilent(i) /\ last' = <<"T", i>>
              \/ MergeStep(i) /\ last' = <<"M", i>>
         \/ \E i, j \in Nodes :
              \/ Inject(i, j) /\ last' = <<"I", i, j>>
              \/ PeerRecv(i, j) /\ last' = <<"P", i, j>>
              \/ PeerFail(i, j) /\ last' = <<"X", i, j>>
              \/ BcastReply(i, j) /\ last' = <<"B", i, j>>

(* keep the queues of the generator small: the interesting orders need <= 2 *)
QBound == \A i \in Nodes : Len(mq[i]) <= 2
=============================================================================
