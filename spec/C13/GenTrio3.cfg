CONSTANTS
  Nodes = {1,2,3}
  Virt = {}
  MaxUpd = 1
  MaxFail = 1
  FixMerge = TRUE
  ArmAt = "commit"
  Upfront = TRUE
  SplitStart = FALSE
  Cap <- CapAll
INIT GInit
NEXT GNext
CONSTRAINT QBound
INVARIANTS NoInflightBroadcast OnlyCommitted
CHECK_DEADLOCK FALSE
