CONSTANTS
  Nodes = {1,2}
  Virt = {}
  MaxUpd = 9
  MaxFail = 1000
  FixMerge = TRUE
  ArmAt = "commit"
  Upfront = TRUE
  SplitStart = FALSE
  Cap <- CapAll
INIT TInit
NEXT TNext
CHECK_DEADLOCK FALSE
