INIT LInit
NEXT LNext
INVARIANT NotAllLinearized
CHECK_DEADLOCK FALSE
