------------------------------ MODULE KVLin ------------------------------
(* Linearizability of recorded Put/Get histories with respect to one key-value map, *)
(* decided as a search by TLC (DESIGN 4.6).                                          *)
(* hist.ndjson: one history per line: {"ops": [op, ...]}; an op is                   *)
(*   [c, kind ("put"|"get"), key, val, inv, ret, ok, rval]                            *)
(* inv/ret are stamps from one global order (ret = 0: still pending at the end);      *)
(* for completed ops ok/rval is what the client was told.                            *)
(* A history is accepted iff its completed operations (and any subset of the pending *)
(* Puts) can be applied one at a time, each at some point between its invocation and *)
(* its response, so that every Get is told the latest preceding Put of its key (or    *)
(* not-found) and every Put is told its own value.                                   *)
EXTENDS Naturals, Sequences, FiniteSets, TLC, Json

Hist == ndJsonDeserialize("hist.ndjson")
N == Len(Hist)

VARIABLES h, done, kv
lvars == <<h, done, kv>>

Ops == IF h <= N THEN Hist[h].ops ELSE <<>>
Completed == {i \in 1..Len(Ops) : Ops[i].ret # 0}
EmptyKV == [zk \in {} |-> ""]

LInit == h = 1 /\ done = {} /\ kv = EmptyKV

ResultOK(op) ==
    IF op.ret = 0 THEN TRUE
    ELSE IF op.kind = "put" THEN op.ok /\ op.rval = op.val
    ELSE /\ op.ok = (op.key \in DOMAIN kv)
         /\ op.ok => op.rval = kv[op.key]

(* real time: everything that returned before op was invoked is already linearized *)
MayGoNext(i) == \A j \in Completed \ done : j # i => ~(Ops[j].ret < Ops[i].inv)

Lin(i) == /\ i \notin done
          /\ (Ops[i].ret = 0 => Ops[i].kind = "put")      \* a pending Get has no effect: never needed
          /\ MayGoNext(i)
          /\ ResultOK(Ops[i])
          /\ done' = done \cup {i}
          /\ kv' = IF Ops[i].kind = "put" THEN (Ops[i].key :> Ops[i].val) @@ kv ELSE kv
          /\ h' = h

Advance == /\ h <= N /\ Completed \subseteq done
           /\ PrintT(<<"LINEARIZABLE", h>>)
           /\ h' = h + 1 /\ done' = {} /\ kv' = EmptyKV

LNext == Advance \/ (h <= N /\ ~(Completed \subseteq done) /\ \E i \in 1..Len(Ops) : Lin(i))

(* violated exactly when every history has been linearized *)
NotAllLinearized == h <= N
=============================================================================
