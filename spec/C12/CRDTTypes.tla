------------------------------ MODULE CRDTTypes ------------------------------
(* C12 P-spec as a machine: NRep replicas perform local updates and merge each other's *)
(* states pairwise, in any order, any number of times; states can also be captured     *)
(* ("snapshot" = a message in flight, gob-encoded) and delivered later, repeatedly and  *)
(* out of order (stale delivery).  State = knowledge only, so this module is also the   *)
(* GENERATOR of the histories replayed on the real code: TLC enumerates the complete    *)
(* graph (act is hidden by the VIEW) and logs every transition (LogEdge); simulation    *)
(* mode adds long random histories (CRDTSim.tla).                                       *)
EXTENDS CRDTSem, Json, CSV, SequencesExt

CONSTANTS Kind,      \* "gcounter" | "set"  (the set histories are replayed on AWORSet and on LWWSet)
          NRep, NElem, Amts, MaxUpd, MaxSnap

Reps  == 1..NRep
Elems == 1..NElem
Slots == 1..MaxSnap

Upds == IF Kind = "gcounter" THEN {[op |-> "inc", e |-> 0, amt |-> a] : a \in Amts}
        ELSE {[op |-> o, e |-> e, amt |-> 0] : o \in {"add", "rem"}, e \in Elems}

VARIABLES know,   \* know[r]: knowledge of replica r
          pool,   \* pool[s]: knowledge of the snapshot held in slot s
          nupd,   \* number of updates performed so far (= last event id)
          act     \* the action that led here (label for the generator; not part of the state)
pvars == <<know, pool, nupd>>

Act(a, r, q, op, e, amt) == [a |-> a, r |-> r, q |-> q, op |-> op, e |-> e, amt |-> amt]

PInit == /\ know = [r \in Reps |-> {}]
         /\ pool = [s \in Slots |-> {}]
         /\ nupd = 0
         /\ act = Act("init", 0, 0, "", 0, 0)

Update(r, u) == /\ nupd < MaxUpd
                /\ nupd' = nupd + 1
                /\ know' = [know EXCEPT ![r] = @ \cup {NewEv(@, nupd + 1, r, u.op, u.e, u.amt)}]
                /\ UNCHANGED pool
                /\ act' = Act("upd", r, 0, u.op, u.e, u.amt)
\* r merges the current state of q (also when it brings nothing new: duplication)
Merge(r, q) == /\ r # q
               /\ know' = [know EXCEPT ![r] = @ \cup know[q]]
               /\ UNCHANGED <<pool, nupd>>
               /\ act' = Act("merge", r, q, "", 0, 0)
\* the current state of q is captured in slot s (a message is sent; it stays deliverable for ever)
Snap(q, s) == /\ pool[s] # know[q]
              /\ pool' = [pool EXCEPT ![s] = know[q]]
              /\ UNCHANGED <<know, nupd>>
              /\ act' = Act("snap", q, s, "", 0, 0)
\* r receives the message in slot s (possibly stale, possibly again)
Deliver(r, s) == /\ know' = [know EXCEPT ![r] = @ \cup pool[s]]
                 /\ UNCHANGED <<pool, nupd>>
                 /\ act' = Act("deliver", r, s, "", 0, 0)

PNext == \/ \E r \in Reps, u \in Upds : Update(r, u)
         \/ \E r, q \in Reps : Merge(r, q)
         \/ \E q \in Reps, s \in Slots : Snap(q, s)
         \/ \E r \in Reps, s \in Slots : Deliver(r, s)

(* Property-level facts about knowledge (checked by TLC; they are what makes "state is a *)
(* function of knowledge" equivalent to the semilattice laws + inflation):                *)
\* who knows an event knows every earlier event of the same author (states are shipped whole)
AuthorPrefix == \A r \in Reps : \A x \in know[r] : \A y \in know[x.r] :
                   (y.r = x.r /\ y.id < x.id) => y \in know[r]
\* a remove observes, per author, a prefix of that author's adds of the element
PrefixObserved == \A r \in Reps : \A x \in know[r] : x.op = "rem" =>
                    \A a \in AddsOf(know[r], x.e) : a.id \in x.obs =>
                       \A b \in AddsOf(know[r], x.e) : (b.r = a.r /\ b.id < a.id) => b.id \in x.obs
\* knowledge only grows
Monotone == [][\A r \in Reps : know[r] \subseteq know'[r]]_pvars

\* generator: one JSON line per transition of the complete graph.  The state identifier is a
\* canonical string (sorted sequences of ids; TLC prints un-normalised sets/records in any order).
SortIds(S) == SetToSortSeq(S, LAMBDA a, b : a < b)
SId(k, p, n) ==
    LET all == UNION {k[r] : r \in Reps}
        ev(i) == CHOOSE x \in all : x.id = i
    IN ToString(<< [i \in 1..n |-> <<ev(i).r, ev(i).op, ev(i).e, ev(i).amt, SortIds(ev(i).obs)>>],
                   [r \in Reps |-> SortIds({x.id : x \in k[r]})],
                   [s \in Slots |-> SortIds({x.id : x \in p[s]})] >>)
LogEdge == CSVWrite("%1$s", <<ToJson([src |-> SId(know, pool, nupd), dst |-> SId(know', pool', nupd'), act |-> act'])>>,
                    "edges.ndjson")
=============================================================================
