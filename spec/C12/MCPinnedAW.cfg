CONSTANTS
  Kind = "set"
  Impl = "aworset-pinned"
  NRep = 2
  NElem = 1
  Amts = {0}
  MaxUpd = 4
  MaxSnap = 1
INIT MCInit
NEXT MCNext
VIEW mvars
INVARIANTS PrefixObserved AuthorPrefix ReadAgree StateFn Commutative Idempotent Associative MergeReads
PROPERTIES Inflation Monotone
CHECK_DEADLOCK FALSE
