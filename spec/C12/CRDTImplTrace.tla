------------------------------ MODULE CRDTImplTrace ------------------------------
(* C12, M-level trace specification (conformance only: a rejection is model DRIFT, never a *)
(* verdict).  The same recorded values are recomputed with the transcription of the Go      *)
(* code (CRDTImpl.tla); the canonical dump taken from the real value's gob form and its      *)
(* Read() must equal the model's.                                                            *)
EXTENDS CRDTImpl, Json

Trace == ndJsonDeserialize("trace.ndjson")

VARIABLES l, impl, RS, ES, ms, rd, dm, nid
tvars == <<l, impl, RS, ES, ms, rd, dm, nid>>

TInit == l = 1 /\ impl = "" /\ RS = {} /\ ES = {} /\ ms = <<>> /\ rd = <<>> /\ dm = <<>> /\ nid = 0

Ln == Trace[l]

TCase == /\ l <= Len(Trace) /\ Ln.e = "case"
         /\ l' = l + 1 /\ impl' = Ln.kind /\ RS' = 1..Ln.nrep /\ ES' = 1..Ln.nelem
         /\ ms' = <<>> /\ rd' = <<>> /\ dm' = <<>> /\ nid' = 0

MOf(ln) == IF ln.f = "init" THEN MInit(impl, RS, ES)
           ELSE IF ln.f = "write" THEN MWrite(impl, ms[ln.a], ln.r, ln.op, ln.el, ln.amt, nid + 1)
           ELSE IF ln.f = "merge" THEN MMerge(impl, ms[ln.a], ms[ln.b])
           ELSE ms[ln.a]

TVal == /\ l <= Len(Trace) /\ Ln.e = "val"
        /\ Ln.v = Len(ms) + 1
        /\ l' = l + 1
        /\ ms' = Append(ms, MOf(Ln))
        /\ nid' = IF Ln.f = "write" THEN nid + 1 ELSE nid
        /\ rd' = Append(rd, [rk |-> Ln.rk, rn |-> Ln.rn, rs |-> Ln.rs])
        /\ dm' = Append(dm, [ok |-> Ln.dok, d |-> Ln.d])
        /\ UNCHANGED <<impl, RS, ES>>

TNext == TCase \/ TVal

cur == Len(ms)
SeqRange(s) == {s[i] : i \in 1..Len(s)}

DumpOK == (cur > 0 /\ dm[cur].ok) => (dm[cur].d.x = 0 /\ dm[cur].d.s = ms[cur])
MReadOK == cur > 0 =>
    IF impl = "gcounter" THEN rd[cur].rk = "num" /\ rd[cur].rn = MReadNum(impl, ms[cur])
    ELSE rd[cur].rk = "set" /\ SeqRange(rd[cur].rs) = MReadSet(impl, ms[cur])
=============================================================================
