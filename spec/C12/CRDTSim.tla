------------------------------ MODULE CRDTSim ------------------------------
(* Generator, simulation mode: long random histories of CRDTTypes.tla beyond the exhaustive *)
(* bounds.  hist records the actions; a history is exported (one JSON line) when it reaches   *)
(* SimLen actions.  Run with  -simulate num=N -depth SimLen+2.                                *)
EXTENDS CRDTTypes

CONSTANT SimLen
VARIABLE hist

SInit == PInit /\ hist = <<>>
\* the export is part of the step taken FROM a complete history, so it happens once per
\* generated behaviour (an invariant would also fire on the successors TLC merely considered)
SNext == IF Len(hist) >= SimLen
         THEN CSVWrite("%1$s", <<ToJson(hist)>>, "sim.ndjson") /\ UNCHANGED <<know, pool, nupd, act, hist>>
         ELSE PNext /\ hist' = Append(hist, act')
=============================================================================
