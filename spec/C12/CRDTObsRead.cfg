INIT OInit
NEXT ONext
INVARIANTS ReadOK
CHECK_DEADLOCK FALSE
