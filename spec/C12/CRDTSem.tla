------------------------------ MODULE CRDTSem ------------------------------
(* C12, property level: the DECLARED meaning of the three CRDT data types of          *)
(* distsys/resources, independent of how the Go code encodes them.                     *)
(*                                                                                     *)
(* A value (replica state, message in flight, result of any merge) is characterised    *)
(* by its KNOWLEDGE: the set of update events it has (transitively) received.          *)
(*   event == [id, r, op, e, amt, obs]                                                 *)
(*     id   unique, increasing in real time (the driver performs updates one at a      *)
(*          time, so id order = order of time.Now() = LWW stamp order)                 *)
(*     r    replica that performed the update (writes are tagged with the writer id)   *)
(*     op   "inc" (counter) | "add" | "rem" (sets);  e element (0 for inc);  amt       *)
(*     obs  for a remove: ids of the adds of e known to the remover (what it observed) *)
(* Merging is union of knowledge, so on knowledge merge is trivially commutative,      *)
(* associative and idempotent; the property says the implementation state and its      *)
(* Read() are FUNCTIONS OF THE KNOWLEDGE with the declared value:                      *)
(*   counter  = sum of all increments known                                            *)
(*   aworset  = elements having an add that no known remove observed                   *)
(*   lww      = elements whose latest known add/remove is an add                       *)
EXTENDS Naturals, FiniteSets, Sequences, TLC

MkEv(id, r, op, e, amt, obs) == [id |-> id, r |-> r, op |-> op, e |-> e, amt |-> amt, obs |-> obs]

AddsOf(K, e) == {x \in K : x.op = "add" /\ x.e = e}

\* the event created by update (op, e, amt) performed by replica r whose knowledge is K
NewEv(K, id, r, op, e, amt) ==
    MkEv(id, r, op, e, amt, IF op = "rem" THEN {x.id : x \in AddsOf(K, e)} ELSE {})

RECURSIVE SumAmt(_)
SumAmt(K) == IF K = {} THEN 0 ELSE LET x == CHOOSE y \in K : TRUE IN x.amt + SumAmt(K \ {x})

Observed(K) == UNION {x.obs : x \in K}
ElemsOf(K)  == {x.e : x \in K}

ReadCounter(K) == SumAmt(K)
ReadAW(K)  == {e \in ElemsOf(K) : \E a \in AddsOf(K, e) : a.id \notin Observed(K)}
LastOf(K, e) == CHOOSE x \in K : x.e = e /\ \A y \in K : y.e = e => y.id <= x.id
ReadLWW(K) == {e \in ElemsOf(K) : LastOf(K, e).op = "add"}

IsCounter(kind) == kind = "gcounter"
\* declared read of knowledge K for data type kind (a number for the counter, a set otherwise)
PReadSet(kind, K) == IF kind = "aworset" THEN ReadAW(K) ELSE ReadLWW(K)
=============================================================================
