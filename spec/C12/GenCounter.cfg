CONSTANTS
  Kind = "gcounter"
  NRep = 2
  NElem = 1
  Amts = {1, 2}
  MaxUpd = 3
  MaxSnap = 1
INIT PInit
NEXT PNext
VIEW pvars
ACTION_CONSTRAINT LogEdge
INVARIANTS AuthorPrefix
CHECK_DEADLOCK FALSE
