------------------------------ MODULE MCCRDT ------------------------------
(* Design level: the implementation-shaped data types (CRDTImpl) run in lock step with    *)
(* the knowledge machine (CRDTTypes); TLC checks, for every history within the bounds,     *)
(* that M implies P: reads are the declared reads, the state is a function of the          *)
(* knowledge (hence delivery order and duplication do not matter), merge is commutative,   *)
(* associative, idempotent on all reachable states, and every step is an inflation.        *)
EXTENDS CRDTTypes, CRDTImpl

CONSTANT Impl       \* which transcription: "gcounter" | "aworset" | "lww" | "aworset-pinned" | "lww-pinned"

VARIABLES ms,       \* ms[r]: implementation state of replica r
          mpool     \* mpool[s]: implementation state captured in slot s
mvars == <<know, pool, nupd, ms, mpool>>

MCInit == /\ PInit
          /\ ms = [r \in Reps |-> MInit(Impl, Reps, Elems)]
          /\ mpool = [s \in Slots |-> MInit(Impl, Reps, Elems)]

MCNext ==
    \/ \E r \in Reps, u \in Upds :
          /\ Update(r, u)
          /\ ms' = [ms EXCEPT ![r] = MWrite(Impl, @, r, u.op, u.e, u.amt, nupd + 1)]
          /\ UNCHANGED mpool
    \/ \E r, q \in Reps :
          /\ Merge(r, q)
          /\ ms' = [ms EXCEPT ![r] = MMerge(Impl, @, ms[q])]
          /\ UNCHANGED mpool
    \/ \E q \in Reps, s \in Slots :
          /\ Snap(q, s)
          /\ mpool' = [mpool EXCEPT ![s] = ms[q]]
          /\ UNCHANGED ms
    \/ \E r \in Reps, s \in Slots :
          /\ Deliver(r, s)
          /\ ms' = [ms EXCEPT ![r] = MMerge(Impl, @, mpool[s])]
          /\ UNCHANGED mpool

\* all values that exist in the current global state: [k |-> knowledge, m |-> impl state]
Vals == {[k |-> know[r], m |-> ms[r]] : r \in Reps} \cup {[k |-> pool[s], m |-> mpool[s]] : s \in Slots}

MReadOf(m) == IF Impl = "gcounter" THEN MReadNum(Impl, m) ELSE MReadSet(Impl, m)
PReadOf(K) == IF Impl = "gcounter" THEN ReadCounter(K)
              ELSE IF IsAW(Impl) THEN ReadAW(K) ELSE ReadLWW(K)

ReadAgree   == \A x \in Vals : MReadOf(x.m) = PReadOf(x.k)
StateFn     == \A x, y \in Vals : x.k = y.k => x.m = y.m
Commutative == \A x, y \in Vals : MMerge(Impl, x.m, y.m) = MMerge(Impl, y.m, x.m)
Idempotent  == \A x \in Vals : MMerge(Impl, x.m, x.m) = x.m
Associative == \A x, y, z \in Vals :
                 MMerge(Impl, MMerge(Impl, x.m, y.m), z.m) = MMerge(Impl, x.m, MMerge(Impl, y.m, z.m))
MergeReads  == \A x, y \in Vals : MReadOf(MMerge(Impl, x.m, y.m)) = PReadOf(x.k \cup y.k)
\* every step (update, merge, delivery) moves every replica up the merge order
Inflation   == [][\A r \in Reps : MMerge(Impl, ms[r], ms'[r]) = ms'[r]]_mvars
=============================================================================
