------------------------------ MODULE CRDTObs ------------------------------
(* C12, P-level trace specification (verdicts).  Folds the values recorded from the REAL  *)
(* resources.GCounter / AWORSet / LWWSet (one ndjson line per value: how it was computed    *)
(* from earlier values, what Read() returned, canonical dump of its state) and evaluates    *)
(* the property on them.  Each value gets its KNOWLEDGE from the declared semantics         *)
(* (CRDTSem.tla): init = {}, write = operand + the new event, merge = union, gob = same.    *)
(*   ReadOK   Read() is the declared read of the knowledge (sum of increments / add not      *)
(*            observed by a remove / latest op is an add)                                    *)
(*   StateFn  two values with the same knowledge have the same Read() and the same state:    *)
(*            this IS commutativity, associativity, idempotence of Merge, inflation of       *)
(*            Write (s \/ w = w), identity of the gob round trip, and independence of        *)
(*            delivery order and duplication, on the states actually reached                 *)
(* Independent of CRDTImpl.tla: the verdict does not depend on how the types are encoded.    *)
EXTENDS CRDTSem, Json

Trace == ndJsonDeserialize("trace.ndjson")

VARIABLES l,      \* next line to consume
          kind,   \* data type of the current case
          K,      \* K[v]: knowledge of value v
          rd,     \* rd[v]: what Read() returned
          dm,     \* dm[v]: canonical state dump
          nid     \* number of writes so far = id of the last event
ovars == <<l, kind, K, rd, dm, nid>>

OInit == l = 1 /\ kind = "" /\ K = <<>> /\ rd = <<>> /\ dm = <<>> /\ nid = 0

Ln == Trace[l]

OCase == /\ l <= Len(Trace) /\ Ln.e = "case"
         /\ l' = l + 1 /\ kind' = Ln.kind /\ K' = <<>> /\ rd' = <<>> /\ dm' = <<>> /\ nid' = 0

\* events of author r are made on a value that holds all earlier events of r (harness obligation)
WriterOK(ln) == \A i \in 1..Len(K) : \A x \in K[i] : x.r = ln.r => x \in K[ln.a]

KOf(ln) == IF ln.f = "init" THEN {}
           ELSE IF ln.f = "write" THEN K[ln.a] \cup {NewEv(K[ln.a], nid + 1, ln.r, ln.op, ln.el, ln.amt)}
           ELSE IF ln.f = "merge" THEN K[ln.a] \cup K[ln.b]
           ELSE K[ln.a]

OVal == /\ l <= Len(Trace) /\ Ln.e = "val"
        /\ Ln.v = Len(K) + 1
        /\ Ln.f \in {"init", "write", "merge", "gob"}
        /\ Ln.f = "write" => WriterOK(Ln)
        /\ l' = l + 1
        /\ K' = Append(K, KOf(Ln))
        /\ nid' = IF Ln.f = "write" THEN nid + 1 ELSE nid
        /\ rd' = Append(rd, [rk |-> Ln.rk, rn |-> Ln.rn, rs |-> Ln.rs])
        /\ dm' = Append(dm, [ok |-> Ln.dok, d |-> Ln.d])
        /\ UNCHANGED kind

ONext == OCase \/ OVal

cur == Len(K)
SeqRange(s) == {s[i] : i \in 1..Len(s)}

ReadOK == cur > 0 =>
    IF IsCounter(kind) THEN rd[cur].rk = "num" /\ rd[cur].rn = ReadCounter(K[cur])
    ELSE rd[cur].rk = "set" /\ SeqRange(rd[cur].rs) = PReadSet(kind, K[cur])

StateFn == cur > 0 =>
    \A i \in 1..(cur - 1) : K[i] = K[cur] =>
        /\ rd[i] = rd[cur]
        /\ (dm[i].ok /\ dm[cur].ok) => dm[i].d = dm[cur].d
=============================================================================
