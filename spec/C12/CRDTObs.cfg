INIT OInit
NEXT ONext
INVARIANTS ReadOK StateFn
CHECK_DEADLOCK FALSE
