CONSTANTS
  Kind = "set"
  NRep = 3
  NElem = 2
  Amts = {0}
  MaxUpd = 8
  MaxSnap = 2
  SimLen = 16
INIT SInit
NEXT SNext
CHECK_DEADLOCK FALSE
