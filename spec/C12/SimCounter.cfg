CONSTANTS
  Kind = "gcounter"
  NRep = 3
  NElem = 1
  Amts = {0, 1, 2, 5}
  MaxUpd = 8
  MaxSnap = 2
  SimLen = 16
INIT SInit
NEXT SNext
CHECK_DEADLOCK FALSE
