------------------------------ MODULE CRDTImpl ------------------------------
(* C12 M-spec: transcription of the Go data types (distsys/resources/gcounter.go,       *)
(* aworset.go, lww.go) as pure operators over a normalised state.  Implementation        *)
(* shaped: a mismatch between the real code and this module is DRIFT, never a verdict.    *)
(*                                                                                       *)
(* Normalised state over replica indices RS = 1..n and element indices ES = 1..m          *)
(* (a missing map key = zero; this is also what the driver dumps from the gob form):      *)
(*   gcounter   [RS -> Nat]                          partial count per writer id          *)
(*   aworset    [ES -> [add : [RS -> Nat], rem : [RS -> Nat]]]   vector clocks            *)
(*   lww        [ES -> [add : Nat, rem : Nat]]       stamp = id of the update (time.Now()) *)
(* impl names:  "gcounter", "aworset", "lww" = the tree with patches/C12-fix-*.diff;      *)
(*              "aworset-pinned", "lww-pinned" = the pinned tree (kept to show that TLC    *)
(*              finds the defects on the model: see MCPinned*.cfg)                        *)
EXTENDS Naturals, FiniteSets, Sequences, TLC

Max(a, b) == IF a > b THEN a ELSE b
Zero(RS)  == [r \in RS |-> 0]
VInc(v, r)   == [v EXCEPT ![r] = @ + 1]
VMerge(v, w) == [r \in DOMAIN v |-> Max(v[r], w[r])]
VLeq(v, w)   == \A r \in DOMAIN v : v[r] <= w[r]
\* vclock.compare of aworset.go
Cmp(v, w) == IF v = w THEN "EQ" ELSE IF VLeq(v, w) THEN "LT" ELSE IF VLeq(w, v) THEN "GT" ELSE "CC"
IsZ(v) == \A r \in DOMAIN v : v[r] = 0

RECURSIVE SumF(_, _)
SumF(f, S) == IF S = {} THEN 0 ELSE LET x == CHOOSE y \in S : TRUE IN f[x] + SumF(f, S \ {x})

IsAW(impl)  == impl \in {"aworset", "aworset-pinned"}
IsLWW(impl) == impl \in {"lww", "lww-pinned"}

MInit(impl, RS, ES) ==
    IF impl = "gcounter" THEN Zero(RS)
    ELSE IF IsAW(impl) THEN [e \in ES |-> [add |-> Zero(RS), rem |-> Zero(RS)]]
    ELSE [e \in ES |-> [add |-> 0, rem |-> 0]]

------------------------------------------------------------------------------
\* AWORSet as repaired (two clocks per element, nothing is ever forgotten)
AWWrite(s, r, op, e) ==
    IF op = "add" THEN [s EXCEPT ![e].add = VInc(@, r)]
    ELSE IF IsZ(s[e].add) THEN s
    ELSE [s EXCEPT ![e].rem = VMerge(@, s[e].add)]
AWMerge(s, t) == [e \in DOMAIN s |-> [add |-> VMerge(s[e].add, t[e].add), rem |-> VMerge(s[e].rem, t[e].rem)]]
AWRead(s) == {e \in DOMAIN s : ~IsZ(s[e].add) /\ ~VLeq(s[e].add, s[e].rem)}

\* AWORSet of the pinned tree (one live clock per element: either in addMap or in remMap)
AWPWrite(s, r, op, e) ==
    LET Z == [rr \in DOMAIN s[e].add |-> 0] IN
    IF op = "add" THEN
        IF ~IsZ(s[e].add) THEN [s EXCEPT ![e] = [add |-> VInc(s[e].add, r), rem |-> Z]]
        ELSE IF ~IsZ(s[e].rem) THEN [s EXCEPT ![e] = [add |-> VInc(s[e].rem, r), rem |-> Z]]
        ELSE [s EXCEPT ![e] = [add |-> VInc(Z, r), rem |-> Z]]
    ELSE
        IF ~IsZ(s[e].add) THEN [s EXCEPT ![e] = [rem |-> VInc(s[e].add, r), add |-> Z]]
        ELSE IF ~IsZ(s[e].rem) THEN [s EXCEPT ![e] = [rem |-> VInc(s[e].rem, r), add |-> Z]]
        ELSE [s EXCEPT ![e] = [rem |-> VInc(Z, r), add |-> Z]]
AWPMerge(s, t) ==
    [e \in DOMAIN s |->
        LET Z == [rr \in DOMAIN s[e].add |-> 0]
            addK == VMerge(s[e].add, t[e].add)
            remK == VMerge(s[e].rem, t[e].rem)
        IN [add |-> IF ~IsZ(addK) /\ (IsZ(remK) \/ Cmp(addK, remK) # "LT") THEN addK ELSE Z,
            rem |-> IF ~IsZ(remK) /\ (IsZ(addK) \/ Cmp(addK, remK) = "LT") THEN remK ELSE Z]]
AWPRead(s) == {e \in DOMAIN s : ~IsZ(s[e].add) /\ (IsZ(s[e].rem) \/ Cmp(s[e].add, s[e].rem) # "LT")}

------------------------------------------------------------------------------
\* LWWSet; stamp = id of the update (strictly increasing, as time.Now() in one process)
LWWWrite(s, op, e, id) == IF op = "add" THEN [s EXCEPT ![e].add = id] ELSE [s EXCEPT ![e].rem = id]
LWWMerge(s, t)  == [e \in DOMAIN s |-> [add |-> Max(s[e].add, t[e].add), rem |-> Max(s[e].rem, t[e].rem)]]
\* pinned tree: the result of remSet.Set(...) is discarded, remote removals never arrive
LWWPMerge(s, t) == [e \in DOMAIN s |-> [add |-> Max(s[e].add, t[e].add), rem |-> s[e].rem]]
LWWRead(s) == {e \in DOMAIN s : s[e].add # 0 /\ s[e].add >= s[e].rem}

------------------------------------------------------------------------------
MWrite(impl, s, r, op, e, amt, id) ==
    IF impl = "gcounter" THEN [s EXCEPT ![r] = @ + amt]
    ELSE IF impl = "aworset" THEN AWWrite(s, r, op, e)
    ELSE IF impl = "aworset-pinned" THEN AWPWrite(s, r, op, e)
    ELSE LWWWrite(s, op, e, id)
MMerge(impl, s, t) ==
    IF impl = "gcounter" THEN VMerge(s, t)
    ELSE IF impl = "aworset" THEN AWMerge(s, t)
    ELSE IF impl = "aworset-pinned" THEN AWPMerge(s, t)
    ELSE IF impl = "lww" THEN LWWMerge(s, t)
    ELSE LWWPMerge(s, t)
MReadNum(impl, s) == SumF(s, DOMAIN s)
MReadSet(impl, s) ==
    IF impl = "aworset" THEN AWRead(s)
    ELSE IF impl = "aworset-pinned" THEN AWPRead(s)
    ELSE LWWRead(s)
=============================================================================
