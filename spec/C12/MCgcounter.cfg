CONSTANTS
  Kind = "gcounter"
  Impl = "gcounter"
  NRep = 3
  NElem = 1
  Amts = {1, 2}
  MaxUpd = 4
  MaxSnap = 1
INIT MCInit
NEXT MCNext
VIEW mvars
INVARIANTS AuthorPrefix ReadAgree StateFn Commutative Idempotent Associative MergeReads
PROPERTIES Inflation Monotone
CHECK_DEADLOCK FALSE
