INIT TInit
NEXT TNext
INVARIANTS DumpOK MReadOK
CHECK_DEADLOCK FALSE
