CONSTANTS
  Kind = "set"
  NRep = 2
  NElem = 1
  Amts = {0}
  MaxUpd = 4
  MaxSnap = 1
INIT PInit
NEXT PNext
VIEW pvars
ACTION_CONSTRAINT LogEdge
INVARIANTS AuthorPrefix PrefixObserved
CHECK_DEADLOCK FALSE
