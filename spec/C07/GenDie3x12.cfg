CONSTANTS
  NA = 3
  LockOf0 <- L12
  MaxOps = 2
  MaxSec = 0
  Timeouts = TRUE
  Handoff = FALSE
  Eager = TRUE
  Fifo = TRUE
  MaxWait = 3
  UniqueVals = FALSE
  Ghost = FALSE
  Mut = "none"
  MaxDie = 1
  EdgeFile = "edges-GenDie3x12.ndjson"
INIT Init
NEXT Next
CHECK_DEADLOCK FALSE
