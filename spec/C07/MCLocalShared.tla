---------------------------- MODULE MCLocalShared ----------------------------
(* Constants of the exhaustive (design level) and generator configurations of    *)
(* LocalShared.tla. One .cfg per configuration.                                   *)
EXTENDS LocalShared

L12  == <<1, 2>>        \* two variables, one cell each
L123 == <<1, 2, 3>>     \* three variables
L112 == <<1, 1, 2>>     \* a function-valued variable with two cells + a plain one
L11  == <<1, 1>>        \* one function-valued variable, two cells
=============================================================================
