INIT SInit
NEXT SNext
INVARIANTS Sorted SoloProgress SumPreserved
CHECK_DEADLOCK FALSE
