INIT SInit
NEXT SNext
INVARIANTS Sorted SoloProgress SumPreserved NoDirtyRead
CHECK_DEADLOCK FALSE
