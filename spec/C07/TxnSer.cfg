INIT SInit
NEXT SNext
INVARIANTS SoloProgress SumPreserved
CHECK_DEADLOCK FALSE
