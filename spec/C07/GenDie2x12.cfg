CONSTANTS
  NA = 2
  LockOf0 <- L12
  MaxOps = 2
  MaxSec = 0
  Timeouts = TRUE
  Handoff = FALSE
  Eager = TRUE
  Fifo = TRUE
  MaxWait = 2
  UniqueVals = FALSE
  Ghost = FALSE
  Mut = "none"
  MaxDie = 1
  EdgeFile = "edges-GenDie2x12.ndjson"
INIT Init
NEXT Next
CHECK_DEADLOCK FALSE
