CONSTANTS
  NA = 3
  LockOf0 <- L12
  MaxOps = 2
  MaxSec = 1
  Timeouts = TRUE
  Handoff = TRUE
  Eager = FALSE
  Fifo = FALSE
  MaxWait = 3
  UniqueVals = TRUE
  Ghost = TRUE
  Mut = "none"
  MaxDie = 0
  EdgeFile = ""
INIT Init
NEXT Next
CHECK_DEADLOCK TRUE
INVARIANTS TypeOK Serializable QuiescentAgree NoLeak NoIndefiniteBlock
