------------------------------- MODULE TxnSer -------------------------------
(* P-spec of C07 and judge of recorded executions: strict serializability of the  *)
(* committed critical sections over shared variables, as a SEARCH (DESIGN 4.6).   *)
(*                                                                                *)
(* hist.ndjson holds recorded cases. A case is a header line                      *)
(*    {"e":"case", "n":N, "init":[v1..vC], "bank":0|1, "sum":S,                   *)
(*     "deadw":[{"c":cell,"v":value}..], ...}                                     *)
(*        deadw: what was written by sections that ended in a fatal error (the     *)
(*        body returned a failed assertion / resource failure, MPCalContext.Run    *)
(*        returned it and the archetype was gone): such a section never committed, *)
(*        it is NOT an item of the case (cases whose written values are unique)    *)
(* followed by N lines, one per observed item, by increasing end stamp t:         *)
(*    {"e":"txn", "a":sharer, "s":start, "t":end, "ops":[{"k":"r"|"w","c":cell,"v":value}..]}  *)
(*        a COMMITTED critical section of a sharer (a > 0) or an out-of-band       *)
(*        GetState() observation between sections (a = 0, reads only); s is taken  *)
(*        from one atomic counter before the section's first access, t after its   *)
(*        commit completed;                                                       *)
(*    {"e":"solo", "a":sharer, "s":.., "t":.., "outs":[..], "dh":0|1, "ops":[]}    *)
(*        the outcomes of up to K consecutive attempts of a probe section made     *)
(*        while every other sharer was between sections (or dead). dh = 1: the     *)
(*        probe touched only variables last obtained by a sharer that then died    *)
(*        inside its section, without Commit and without Abort.                    *)
(* Nothing about locks appears here: the spec speaks of values read and written.  *)
(*                                                                                *)
(* (the items of a case are listed by increasing end stamp t; invariant Sorted checks it)      *)
(* Lin(i) linearizes item i: allowed iff every item that ended before i started is *)
(* already linearized (real-time order) and each of i's reads returns the latest   *)
(* earlier write (its own included). Every step consumes one line, so a case is    *)
(* strictly serializable iff the search gets through all of its lines; the whole   *)
(* file is accepted iff TLC's BFS reaches depth = number of lines + 1.             *)
(* Aborted sections are not in the file: any effect of theirs that a committed     *)
(* section or an observation saw makes that item impossible to linearize           *)
(* (the drivers write values that are unique per write).                           *)
EXTENDS Naturals, Sequences, FiniteSets, TLC, Json

Trace == ndJsonDeserialize("hist.ndjson")

VARIABLES l, base, done, store, lo
svars == <<l, base, done, store, lo>>

SInit == l = 1 /\ base = 0 /\ done = {} /\ store = <<>> /\ lo = 1

N == IF base = 0 THEN 0 ELSE Trace[base].n
Item(i) == Trace[base + i]

SCase ==
  /\ l <= Len(Trace) /\ Trace[l].e = "case"
  /\ Cardinality(done) = N
  /\ base' = l /\ done' = {} /\ store' = Trace[l].init /\ l' = l + 1 /\ lo' = 1

RECURSIVE Replay(_, _, _)
Replay(ops, i, st) ==
  IF i > Len(ops) THEN [ok |-> TRUE, st |-> st]
  ELSE IF ops[i].k = "r"
       THEN IF st[ops[i].c] = ops[i].v THEN Replay(ops, i + 1, st) ELSE [ok |-> FALSE, st |-> st]
       ELSE Replay(ops, i + 1, [st EXCEPT ![ops[i].c] = ops[i].v])

(* The items of a case are listed by increasing end stamp (checked: Sorted), so the item that *)
(* ended first among those not yet linearized is the first one not in done: lo. Item i may be *)
(* linearized next iff it started before that item ended.                                    *)
RECURSIVE NextLo(_, _)
NextLo(k, d) == IF k > N \/ k \notin d THEN k ELSE NextLo(k + 1, d)

Lin(i) ==
  /\ LET r == Replay(Item(i).ops, 1, store) IN
     /\ r.ok
     /\ store' = r.st
  /\ done' = done \cup {i} /\ l' = l + 1 /\ UNCHANGED base
  /\ lo' = IF i = lo THEN NextLo(lo + 1, done) ELSE lo

SNext ==
  \/ SCase
  \/ /\ base # 0 /\ lo <= N
     /\ \E i \in {j \in lo..N : j \notin done /\ Item(j).s < Item(lo).t} : Lin(i)

Sorted == (base # 0 /\ done = {}) => \A i \in 1..(N - 1) : Item(i).t < Item(i + 1).t

(* ---- progress counted in events, not in time: a probe section attempted while  *)
(* every other sharer is between sections (so nobody can hold a lock legitimately) *)
(* must not be refused access on every one of its K attempts.                      *)
(* Not demanded for the variables a dead sharer took with it (dh = 1): C07 lets a section   *)
(* that cannot obtain access abort without effect; there the item only documents that the   *)
(* attempt RETURNED. If such a probe does get through, its reads are an ordinary "txn" item  *)
(* and must be explained by committed sections alone.                                        *)
SoloProgress ==
  (base # 0 /\ done = {}) =>
     \A i \in 1..N : (Item(i).e = "solo" /\ Item(i).dh = 0) =>
                         \E j \in 1..Len(Item(i).outs) : Item(i).outs[j] # "timeout"

(* ---- no dirty read: a section that ended in a fatal error never committed; nothing it   *)
(* wrote may be read by a committed section of a surviving sharer or shown by GetState().  *)
(* (Implied by the search -- such a read cannot be linearized --, stated on its own so     *)
(* that the verdict names the cause.)                                                      *)
DeadW == {<<Trace[base].deadw[j].c, Trace[base].deadw[j].v>> : j \in 1..Len(Trace[base].deadw)}
NoDirtyRead ==
  (base # 0 /\ done = {}) =>
     \A i \in 1..N : \A j \in 1..Len(Item(i).ops) :
        Item(i).ops[j].k = "r" => <<Item(i).ops[j].c, Item(i).ops[j].v>> \notin DeadW

(* ---- invariant over several shared variables: in a bank case every writer moves *)
(* an amount between two cells, so every section that read all cells saw the sum.  *)
RECURSIVE SumReads(_, _, _)
SumReads(ops, i, seen) ==
  IF i > Len(ops) THEN seen
  ELSE SumReads(ops, i + 1, IF ops[i].k = "r" /\ ops[i].c \notin DOMAIN seen
                               THEN seen @@ (ops[i].c :> ops[i].v) ELSE seen)
RECURSIVE Total(_, _)
Total(f, S) == IF S = {} THEN 0 ELSE LET c == CHOOSE x \in S : TRUE IN f[c] + Total(f, S \ {c})
FirstReads(ops) == SumReads(ops, 1, <<>>)
ReadsBeforeWrites(ops) ==
  \A i \in 1..Len(ops) : ops[i].k = "r" => \A j \in 1..(i - 1) : ops[j].k = "r"
SumPreserved ==
  (base # 0 /\ done = {} /\ Trace[base].bank = 1) =>
     \A i \in 1..N :
        (Item(i).e = "txn" /\ ReadsBeforeWrites(Item(i).ops)) =>
           LET fr == FirstReads(Item(i).ops) IN
           (DOMAIN fr = 1..Len(Trace[base].init)) => Total(fr, DOMAIN fr) = Trace[base].sum
=============================================================================
