CONSTANTS
  NA = 2
  LockOf0 <- L12
  MaxOps = 2
  MaxSec = 0
  Timeouts = FALSE
  Handoff = TRUE
  Eager = TRUE
  Fifo = FALSE
  MaxWait = 1
  UniqueVals = FALSE
  Ghost = FALSE
  Mut = "none"
  MaxDie = 0
  EdgeFile = "edges-GenLong2x12.ndjson"
INIT Init
NEXT Next
CHECK_DEADLOCK FALSE
