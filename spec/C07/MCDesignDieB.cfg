CONSTANTS
  NA = 2
  LockOf0 <- L112
  MaxOps = 3
  MaxSec = 1
  Timeouts = TRUE
  Handoff = TRUE
  Eager = FALSE
  Fifo = FALSE
  MaxWait = 2
  UniqueVals = TRUE
  Ghost = TRUE
  Mut = "none"
  MaxDie = 1
  EdgeFile = ""
INIT Init
NEXT Next
CHECK_DEADLOCK TRUE
INVARIANTS TypeOK Serializable QuiescentAgree NoLeak NoIndefiniteBlock DeadInvisible
