CONSTANTS
  NA = 8
  LockOf0 <- TraceL0
  MaxOps = 99
  MaxSec = 0
  Timeouts = TRUE
  Handoff = TRUE
  Eager = FALSE
  Fifo = FALSE
  MaxWait = 99
  UniqueVals = FALSE
  Ghost = TRUE
  Mut = "none"
  MaxDie = 8
  EdgeFile = ""
INIT TInit
NEXT TNext
INVARIANTS Serializable QuiescentAgree NoLeak
CHECK_DEADLOCK FALSE
