--------------------------- MODULE LocalSharedTrace ---------------------------
(* M-level trace specification (I->S conformance): the events recorded by       *)
(* c07drv in gated mode must be a behaviour of LocalShared.tla, every value read *)
(* must be the one the model holds, and (when the driver could sample it) the    *)
(* occupancy of every manager's lockCh must agree with the model's lock.         *)
(* A rejection is MODEL DRIFT, never a verdict (DESIGN section 3).               *)
(*                                                                               *)
(* trace.ndjson, one event per line:                                             *)
(*   {"e":"case","lockof":[..],"init":[..],...}                                   *)
(*   {"e":"begin","a":a}                                                          *)
(*   {"e":"acc","a":a,"k":k,"c":c,"v":v,"lc":[..]}   access returned at once; v = value read / written *)
(*   {"e":"block","a":a,"k":k,"c":c,"v":v}          access issued, lock held by another sharer        *)
(*   {"e":"grant","a":a,"v":v,"lc":[..]}             the pending access returned normally              *)
(*   {"e":"timeout","a":a,"lc":[..]}                 the pending access returned ErrCriticalSectionAborted, section aborted *)
(*   {"e":"end","a":a,"how":"commit"|"abort","lc":[..]}                            *)
(*   {"e":"obs","m":m,"vals":[..],"lc":[..]}         GetState() of manager m: values of its cells      *)
(*   {"e":"die","a":a,"lc":[..]}                     the body returned a fatal error, Run returned it and closed the resources *)
(* "lc" is the length of each manager's lockCh after the event, or [] if unknown. *)
EXTENDS LocalShared

Trace == ndJsonDeserialize("trace.ndjson")
VARIABLE l
tvars == <<vars, l>>

ToFn(s) == [i \in 1..Len(s) |-> s[i]]

TraceL0 == <<1>>

TInit == l = 1 /\ InitWith(<<1>>, <<0>>)

LcOK(e) == Len(e.lc) = 0 \/ \A m \in LocksOf(lk') : (lock'[m] # 0) = (e.lc[m] = 1)

Reset(e) ==
  LET f == ToFn(e.lockof) v0 == ToFn(e.init) IN
  /\ lk' = f /\ lock' = [m \in LocksOf(f) |-> 0]
  /\ val' = v0 /\ old' = v0 /\ ser' = v0
  /\ ph' = [a \in Arch |-> "idle"] /\ want' = [a \in Arch |-> NoReq]
  /\ nops' = [a \in Arch |-> 0] /\ nsec' = [a \in Arch |-> 0] /\ nw' = [a \in Arch |-> 0]
  /\ log' = [a \in Arch |-> <<>>] /\ bad' = FALSE /\ wq' = <<>>

CellsOfLock(m) == {c \in Cells : lk[c] = m}

Step(e) ==
  CASE e.e = "case"    -> Reset(e)
    [] e.e = "begin"   -> Begin(e.a)
    [] e.e = "acc"     -> AccV(e.a, e.k, e.c, e.v) /\ (e.k = "r" => val[e.c] = e.v) /\ LcOK(e)
    [] e.e = "block"   -> BlockV(e.a, e.k, e.c, e.v)
    [] e.e = "grant"   -> Grant(e.a) /\ (want[e.a].k = "r" => val[want[e.a].c] = e.v) /\ LcOK(e)
    [] e.e = "timeout" -> Timeout(e.a) /\ LcOK(e)
    [] e.e = "end"     -> (IF e.how = "commit" THEN EndCommit(e.a) ELSE EndAbort(e.a)) /\ LcOK(e)
    [] e.e = "die"     -> EndDie(e.a) /\ LcOK(e)
    [] e.e = "obs"     -> /\ ObsOK(e.m) /\ UNCHANGED vars /\ LcOK(e)
                          /\ LET cs == CellsOfLock(e.m) IN
                             \A c \in cs : e.vals[Cardinality({d \in cs : d <= c})] = val[c]
    [] OTHER           -> FALSE

TNext == l <= Len(Trace) /\ l' = l + 1 /\ Step(Trace[l])
=============================================================================
