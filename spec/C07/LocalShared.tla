------------------------------ MODULE LocalShared ------------------------------
(* M-spec (implementation shaped) of distsys/resources/localshared.go: variables  *)
(* shared between the archetypes of one process through a LocalSharedManager.      *)
(*                                                                                 *)
(*   lock[m]   the capacity-1 channel lockCh of manager m: 0 = empty, a = the       *)
(*             sharer whose localShared has hasLock = TRUE                          *)
(*   val[c]    LocalArchetypeResource.value    (working copy, cell c of a manager)  *)
(*   old[c]    LocalArchetypeResource.oldValue (value of the last Commit)           *)
(*   ph[a]     where sharer a's goroutine is: "idle" (between critical sections),   *)
(*             "open" (inside a section body), "wait" (inside acquireWithTimeout)   *)
(*                                                                                 *)
(* A manager may hold several cells (a function-valued variable reached through    *)
(* Index): lk[c] is the manager guarding cell c. One action per linearization      *)
(* point of the Go code:                                                           *)
(*   Begin     MPCalContext.Run enters a critical section body                      *)
(*   Acc       tryEnsureLock finds hasLock, or takes the free lock, then            *)
(*             ReadValue/WriteValue/Index on the inner resource                    *)
(*   Block     tryEnsureLock: the lock is held by another sharer; the goroutine     *)
(*             sits in select { lockCh <- ; <-time.After(timeout) }                 *)
(*   Grant     the holder released: the pending send succeeds, the access happens   *)
(*   Timeout   time.After fired: ErrCriticalSectionAborted, Run calls abort()       *)
(*   EndCommit body returned nil: Commit of every dirty handle (publish, release)   *)
(*   EndAbort  body returned ErrCriticalSectionAborted: Abort (restore, release)    *)
(*   Obs       GetState() by a sharer that holds nothing (blocking acquire)         *)
(*   EndDie    body returned a fatal error (failed assertion, failing resource):     *)
(*             MPCalContext.Run returns it WITHOUT abort(), then Close()s the        *)
(*             resources; localShared.Close() does nothing: the sharer is gone       *)
(*             (ph = "dead"), its locks stay taken for ever, the working copy keeps  *)
(*             the uncommitted writes -- which nobody can read any more              *)
(*                                                                                 *)
(* The module is used three ways (same pattern as spec/C01/CritSec.tla):           *)
(*  1. exhaustively: the design (timed strict 2PL) implies the property: ghost      *)
(*     variables ser/log/bad replay every committing section against the serial     *)
(*     store at its commit point (a point between its first access and its end, so  *)
(*     the serial order is consistent with real time);                             *)
(*  2. as GENERATOR (UniqueVals = FALSE, Ghost = FALSE: the graph is finite and     *)
(*     history free): every transition is appended to EdgeFile; the harness covers  *)
(*     every edge with walks and replays them on real MakeLocalShared() resources;  *)
(*  3. through LocalSharedTrace.tla: recorded gated executions must be behaviours   *)
(*     of this module (conformance; a rejection is model drift, not a verdict).     *)
EXTENDS Naturals, Sequences, FiniteSets, TLC, Json, CSV

CONSTANTS
  NA,         \* number of sharers (archetypes of the process), 1..NA
  LockOf0,    \* sequence: LockOf0[c] = manager guarding cell c
  MaxOps,     \* accesses per section
  MaxSec,     \* sections begun per sharer (0 = unbounded)
  Timeouts,   \* TRUE: acquisition is timed (action Timeout exists)
  Handoff,    \* TRUE: a holder may end its section while another sharer waits for one of its locks
  Eager,      \* TRUE: a released lock always goes to a waiter if there is one (generator);
              \* FALSE: or to nobody -- the waiters' selects may already have chosen the timer
  Fifo,       \* TRUE: only the sharer that has been waiting longest times out (generator: one timeout value per case)
  MaxWait,    \* bound on simultaneous waiters per lock (generator only; exhaustive runs use NA)
  UniqueVals, \* TRUE: every write writes a fresh tag (a * 100 + k); FALSE: writes 0
  Ghost,      \* TRUE: maintain log/ser/bad
  Mut,        \* "none" or the name of a deliberately broken design (vacuity guards);
              \* "close-restore" is a different but property-preserving design of Close()
  MaxDie,     \* bound on the number of sharers that die inside a section (0: nobody dies)
  EdgeFile    \* "" or the ndjson file the labelled edges go to

Arch == 1..NA
VARIABLES lk, lock, val, old, ph, want, nops, nsec, nw, log, ser, bad, wq
vars == <<lk, lock, val, old, ph, want, nops, nsec, nw, log, ser, bad, wq>>

Cells    == DOMAIN lk
LocksOf(f) == {f[c] : c \in DOMAIN f}
Locks    == LocksOf(lk)
NoReq    == [k |-> "-", c |-> 0, v |-> 0]
HeldBy(a) == {m \in Locks : lock[m] = a}
CellsOf(ms) == {c \in Cells : lk[c] \in ms}
Waiters(m) == {b \in Arch : ph[b] = "wait" /\ lk[want[b].c] = m}
Without(q, a) == SelectSeq(q, LAMBDA x : x # a)

(* state identity for the exported graph (records print their fields in construction order, *)
(* so the pending request is flattened into a tuple)                                          *)
WSig(w) == [a \in Arch |-> <<w[a].k, w[a].c>>]
Emit(act) ==
  IF EdgeFile = "" THEN TRUE
  ELSE CSVWrite("%1$s", <<ToJson([from |-> ToString(<<lock, ph, WSig(want), nops, wq>>),
                                   to   |-> ToString(<<lock', ph', WSig(want'), nops', wq'>>),
                                   idle |-> (\A a \in Arch : ph'[a] \in {"idle", "dead"}),
                                   act  |-> act])>>, EdgeFile)

InitWith(f, v0) ==
  /\ lk = f /\ lock = [m \in LocksOf(f) |-> 0]
  /\ val = v0 /\ old = v0 /\ ser = v0
  /\ ph = [a \in Arch |-> "idle"] /\ want = [a \in Arch |-> NoReq]
  /\ nops = [a \in Arch |-> 0] /\ nsec = [a \in Arch |-> 0] /\ nw = [a \in Arch |-> 0]
  /\ log = [a \in Arch |-> <<>>] /\ bad = FALSE /\ wq = <<>>

Init == InitWith(LockOf0, [c \in DOMAIN LockOf0 |-> 0])

(* ------------------------------------------------------------ ghost: serial replay *)
RECURSIVE Replay(_, _, _)
Replay(lg, i, st) ==
  IF i > Len(lg) THEN [ok |-> TRUE, st |-> st]
  ELSE IF lg[i].k = "r"
       THEN IF st[lg[i].c] = lg[i].v THEN Replay(lg, i + 1, st) ELSE [ok |-> FALSE, st |-> st]
       ELSE Replay(lg, i + 1, [st EXCEPT ![lg[i].c] = lg[i].v])

Logged(a, k, c, v) == IF Ghost THEN [log EXCEPT ![a] = Append(@, [k |-> k, c |-> c, v |-> v])] ELSE log

(* ------------------------------------------------------------------------ actions *)
Begin(a) ==
  /\ ph[a] = "idle" /\ (MaxSec = 0 \/ nsec[a] < MaxSec)
  /\ ph' = [ph EXCEPT ![a] = "open"] /\ nops' = [nops EXCEPT ![a] = 0]
  /\ nsec' = [nsec EXCEPT ![a] = IF MaxSec = 0 THEN 0 ELSE @ + 1]
  /\ log' = [log EXCEPT ![a] = <<>>]
  /\ UNCHANGED <<lk, lock, val, old, want, nw, ser, bad, wq>>

(* the access itself, performed by a on cell c with the lock in hand *)
Perform(a, k, c, v) ==
  /\ nops' = [nops EXCEPT ![a] = @ + 1]
  /\ IF k = "r"
     THEN /\ log' = Logged(a, "r", c, val[c]) /\ UNCHANGED <<val, nw>>
     ELSE /\ val' = [val EXCEPT ![c] = v] /\ log' = Logged(a, "w", c, v)
          /\ nw' = [nw EXCEPT ![a] = IF UniqueVals THEN @ + 1 ELSE @]
  /\ lock' = IF Mut = "release-early" THEN [lock EXCEPT ![lk[c]] = 0]   \* lock per access, not per section
             ELSE [lock EXCEPT ![lk[c]] = a]

AccV(a, k, c, v) ==
  /\ ph[a] = "open" /\ nops[a] < MaxOps /\ lock[lk[c]] \in {0, a}
  /\ Perform(a, k, c, v)
  /\ UNCHANGED <<lk, old, ph, want, nsec, ser, bad, wq>>

BlockV(a, k, c, v) ==
  /\ ph[a] = "open" /\ nops[a] < MaxOps /\ lock[lk[c]] \notin {0, a}
  /\ Cardinality(Waiters(lk[c])) < MaxWait
  /\ ph' = [ph EXCEPT ![a] = "wait"] /\ want' = [want EXCEPT ![a] = [k |-> k, c |-> c, v |-> v]]
  /\ wq' = IF Fifo THEN Append(wq, a) ELSE wq
  /\ UNCHANGED <<lk, lock, val, old, nops, nsec, nw, log, ser, bad>>

Grant(a) ==
  /\ ph[a] = "wait" /\ lock[lk[want[a].c]] \in {0, a}
  /\ Perform(a, want[a].k, want[a].c, want[a].v)
  /\ ph' = [ph EXCEPT ![a] = "open"] /\ want' = [want EXCEPT ![a] = NoReq]
  /\ wq' = Without(wq, a)
  /\ UNCHANGED <<lk, old, nsec, ser, bad>>

(* release(): `<-lockCh` moves a waiting sender's token into the channel in the same step, so a *)
(* released lock passes straight to a waiter -- unless that waiter's select has already chosen   *)
(* its timer (it then still sits in the queue, but is skipped).                                  *)
NewHolder(m) == IF Waiters(m) = {} THEN {0}
                ELSE IF Eager \/ ~Timeouts THEN Waiters(m) ELSE Waiters(m) \cup {0}
Handovers(a) == {nh \in [HeldBy(a) -> 0..NA] : \A m \in HeldBy(a) : nh[m] \in NewHolder(m)}
Released(a, nh) == [m \in Locks |-> IF lock[m] = a THEN nh[m] ELSE lock[m]]

(* Abort of every dirty handle: restore the working copy, release *)
AbortEffect(a) ==
  /\ val' = IF Mut = "no-restore" THEN val
            ELSE [c \in Cells |-> IF lk[c] \in HeldBy(a) THEN old[c] ELSE val[c]]
  /\ \E nh \in Handovers(a) : lock' = Released(a, nh)
  /\ wq' = Without(wq, a)
  /\ ph' = [ph EXCEPT ![a] = "idle"] /\ want' = [want EXCEPT ![a] = NoReq]
  /\ log' = [log EXCEPT ![a] = <<>>] /\ nops' = [nops EXCEPT ![a] = 0]
  /\ UNCHANGED <<lk, old, nsec, nw, ser, bad>>

(* the select chose the timer at some moment at which another sharer held the lock; the lock *)
(* may have been released since (to nobody), but it was not handed to a                        *)
Timeout(a) ==
  /\ Timeouts /\ ph[a] = "wait" /\ lock[lk[want[a].c]] # a
  /\ (Fifo => a = Head(wq))
  /\ AbortEffect(a)

MayEnd(a) == Handoff \/ \A m \in HeldBy(a) : Waiters(m) = {}

EndCommit(a) ==
  /\ ph[a] = "open" /\ MayEnd(a)
  /\ old' = [c \in Cells |-> IF lk[c] \in HeldBy(a) THEN val[c] ELSE old[c]]
  /\ \E nh \in Handovers(a) :
       lock' = IF Mut = "commit-leak" /\ Cardinality(HeldBy(a)) > 1
               THEN LET keep == CHOOSE m \in HeldBy(a) : \A m2 \in HeldBy(a) : m2 <= m IN
                    [Released(a, nh) EXCEPT ![keep] = a]
               ELSE Released(a, nh)
  /\ ph' = [ph EXCEPT ![a] = "idle"]
  /\ IF Ghost
     THEN LET r == Replay(log[a], 1, ser) IN
          /\ bad' = (bad \/ ~r.ok) /\ ser' = r.st
     ELSE UNCHANGED <<bad, ser>>
  /\ log' = [log EXCEPT ![a] = <<>>] /\ nops' = [nops EXCEPT ![a] = 0]
  /\ UNCHANGED <<lk, val, want, nsec, nw, wq>>

EndAbort(a) == ph[a] = "open" /\ MayEnd(a) /\ AbortEffect(a)

(* The body returned an error that is neither nil nor ErrCriticalSectionAborted: Run returns   *)
(* it without Commit and without Abort and closes the sharer's resources. The pinned tree's     *)
(* localShared.Close() is empty: every lock the sharer holds stays taken for ever (waiters and  *)
(* later sections of the survivors can only time out, GetState() blocks), val keeps the         *)
(* uncommitted writes, old the last committed value. Nobody waits for a dying sharer to         *)
(* release (it does not), so MayEnd is not required.                                            *)
(*   Mut = "close-release": Close() gives the lock up and leaves val as it is (seed C07-A);     *)
(*   Mut = "close-restore": Close() does what Abort does (restore, release) -- also correct.    *)
Dead == {a \in Arch : ph[a] = "dead"}
EndDie(a) ==
  /\ ph[a] = "open" /\ Cardinality(Dead) < MaxDie
  /\ IF Mut \in {"close-release", "close-restore"}
     THEN /\ val' = IF Mut = "close-release" THEN val
                    ELSE [c \in Cells |-> IF lk[c] \in HeldBy(a) THEN old[c] ELSE val[c]]
          /\ \E nh \in Handovers(a) : lock' = Released(a, nh)
     ELSE UNCHANGED <<val, lock>>
  /\ ph' = [ph EXCEPT ![a] = "dead"]
  /\ log' = [log EXCEPT ![a] = <<>>] /\ nops' = [nops EXCEPT ![a] = 0]
  /\ UNCHANGED <<lk, old, want, nsec, nw, ser, bad, wq>>

ObsOK(m) == lock[m] = 0

NextVal(a) == IF UniqueVals THEN a * 100 + nw[a] + 1 ELSE 0

(* wrappers: TLC labels an edge with the top-level disjunct *)
ABegin(a)      == Begin(a) /\ Emit([t |-> "begin", a |-> a])
AAcc(a, k, c)  == AccV(a, k, c, NextVal(a)) /\ Emit([t |-> "acc", a |-> a, k |-> k, c |-> c])
ABlock(a, k, c) == BlockV(a, k, c, NextVal(a)) /\ Emit([t |-> "block", a |-> a, k |-> k, c |-> c])
AGrant(a)      == Grant(a) /\ Emit([t |-> "grant", a |-> a])
ATimeout(a)    == Timeout(a) /\ Emit([t |-> "timeout", a |-> a])
ACommit(a)     == EndCommit(a) /\ Emit([t |-> "end", a |-> a, how |-> "commit"])
AAbort(a)      == EndAbort(a) /\ Emit([t |-> "end", a |-> a, how |-> "abort"])
ADie(a)        == EndDie(a) /\ Emit([t |-> "die", a |-> a])
AObs(m)        == ObsOK(m) /\ EdgeFile # "" /\ UNCHANGED vars /\ Emit([t |-> "obs", m |-> m])
Finished       == /\ MaxSec # 0
                  /\ \A a \in Arch : ph[a] = "dead" \/ (ph[a] = "idle" /\ nsec[a] = MaxSec)
                  /\ UNCHANGED vars

Next ==
  \/ \E a \in Arch : ABegin(a) \/ AGrant(a) \/ ATimeout(a) \/ ACommit(a) \/ AAbort(a) \/ ADie(a)
  \/ \E a \in Arch, k \in {"r", "w"}, c \in Cells : AAcc(a, k, c) \/ ABlock(a, k, c)
  \/ \E m \in Locks : AObs(m)
  \/ Finished

Spec == Init /\ [][Next]_vars

(* --------------------------------------------------------------------- properties *)
TypeOK ==
  /\ lock \in [Locks -> 0..NA] /\ ph \in [Arch -> {"idle", "open", "wait", "dead"}]
  /\ \A a \in Arch : (ph[a] = "wait") <=> (want[a] # NoReq)

(* C07, first sentence: every committing section is consistent with the serial store at *)
(* its commit point (no lost update, no dirty / non-repeatable read).                   *)
Serializable == ~bad
(* whatever is not locked shows exactly the serial (committed) state: aborted sections  *)
(* left no effect, committed ones all of theirs (invariants over several variables).    *)
QuiescentAgree == \A c \in Cells : lock[lk[c]] = 0 => (val[c] = old[c] /\ (Ghost => old[c] = ser[c]))
(* locks are held by sections in flight only (released in Commit/Abort) -- or, for ever, by a *)
(* sharer that died inside its section (pinned tree; the two Close() variants release)       *)
NoLeak == \A m \in Locks : lock[m] # 0 =>
             (ph[lock[m]] \in {"open", "wait"} \/ (ph[lock[m]] = "dead" /\ Mut = "none"))
(* what a section that ended in a fatal error wrote stays behind its lock: a cell whose working *)
(* copy differs from the committed value is locked (by a section in flight or by the dead)      *)
DeadInvisible == \A c \in Cells : val[c] # old[c] => lock[lk[c]] # 0
(* C07, second sentence: a blocked acquisition always has a way out *)
NoIndefiniteBlock == \A a \in Arch : ph[a] = "wait" => (lock[lk[want[a].c]] \in {0, a} \/ Timeouts)
=============================================================================
