CONSTANTS
  NA = 2
  LockOf0 <- L112
  MaxOps = 3
  MaxSec = 0
  Timeouts = TRUE
  Handoff = FALSE
  Eager = TRUE
  Fifo = TRUE
  MaxWait = 2
  UniqueVals = FALSE
  Ghost = FALSE
  Mut = "none"
  MaxDie = 1
  EdgeFile = "edges-GenDie2x112.ndjson"
INIT Init
NEXT Next
CHECK_DEADLOCK FALSE
