CONSTANT Nodes <- ObsNodes
INIT OInit
NEXT ONext
INVARIANTS FIFO Contiguous RedeliverFirst AllOrNothing LenBound Drained OnlyAborts
CHECK_DEADLOCK FALSE
