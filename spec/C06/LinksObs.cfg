CONSTANT Nodes <- ObsNodes
INIT OInit
NEXT ONext
INVARIANTS FIFO Contiguous RedeliverFirst AllOrNothing LenBound Drained
CHECK_DEADLOCK FALSE
