CONSTANTS
  NS = 1
  Cap = 1
  MaxSeq = 4
  MaxMsg = 2
  MaxRd = 3
  MaxConn = 3
  Mode = "free"
  Variant = "code"
  CommitTO = TRUE
INIT Init
NEXT Next
VIEW MView
INVARIANTS FIFO Contiguous RedeliverFirst AllOrNothing LenBound NoLossAtRest ChanBound SendqParked
CHECK_DEADLOCK FALSE
