CONSTANTS
  NS = 2
  Cap = 1
  SockCap = 1
  MaxSeq = 4
  MaxRd = 2
  MaxConn = 3
  Mode = "gen"
  Redial = "drain"
  Variant = "code"
INIT Init
NEXT Next
VIEW MView
INVARIANTS FIFO RedeliverFirst AllOrNothing LenBound Contiguous NoLossAtRest ChanBound
CHECK_DEADLOCK FALSE
