------------------------------ MODULE LinksObs ------------------------------
(* I->S: folds the events recorded from the real resources (one ndjson line per event,   *)
(* many cases concatenated, each introduced by {"e":"case","fl":flavour,...}) into the    *)
(* Links monitor. The verdicts are the invariants below, evaluated by TLC on every       *)
(* prefix of every recorded execution.                                                   *)
EXTENDS Links, TLC, Json

Trace == ndJsonDeserialize("trace.ndjson")
ObsNodes == 0..9

VARIABLES l, L
ovars == <<l, L>>

OInit == l = 1 /\ L = LInit("tcp")

ONext == /\ l <= Len(Trace)
         /\ l' = l + 1
         /\ L' = IF Trace[l].e = "case" THEN LInit(Trace[l].fl) ELSE LStep(L, Trace[l])

FIFO         == OkFIFO(L)
Contiguous   == OkContiguous(L)
RedeliverFirst == OkRedeliver(L)
AllOrNothing == OkAllOrNothing(L)
LenBound     == OkLen(L)
Drained      == OkDrained(L)
OnlyAborts   == OkNoCrash(L)
=============================================================================
