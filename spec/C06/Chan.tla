-------------------------------- MODULE Chan --------------------------------
(* M-spec of distsys/resources/channels.go (and systems/raftkvs/customch.go, whose        *)
(* CustomInChan differs from InputChan only in yielding TRUE instead of aborting on a     *)
(* time-out): NS senders write through OutputChan resources into one Go channel of         *)
(* capacity Cap, the receiver reads it through an InputChan.                               *)
(*   OutputChan  WriteValue buffers; Abort drops the buffer; Commit pushes the buffered     *)
(*               values one by one (blocking while the channel is full) and then completes *)
(*   InputChan   ReadValue: re-offered values first, then the channel, else time-out        *)
(*               (abort); Abort prepends the values read by the section; Commit forgets them*)
(* Mode "free"/"gen", last/out, Variant as in TCPMailbox.tla. In "gen" mode a Commit is      *)
(* issued only if the channel has room for the whole buffer (the harness issues one         *)
(* command at a time and waits for it); blocked commits are explored in "free" mode and     *)
(* exercised by the stress driver.                                                          *)
EXTENDS Naturals, Sequences, FiniteSets, TLC

CONSTANTS NS, Cap, MaxSeq, MaxMsg, MaxRd, Mode, Variant

Senders == 1..NS
R == NS + 1
MNodes == 0..R
LK == INSTANCE Links WITH Nodes <- MNodes

VARIABLES sst, obuf, nwr, seq, gch, rbuf, inprog, rst, nrd, mon, last, out
vars == <<sst, obuf, nwr, seq, gch, rbuf, inprog, rst, nrd, mon, last, out>>
MView == <<sst, obuf, nwr, seq, gch, rbuf, inprog, rst, nrd, last, out,
           [mon EXCEPT !.lastd = 0, !.abm = 0]>>

Gen == Mode = "gen"
SetLO(c, o) == /\ last' = IF Gen THEN c ELSE ""
               /\ out' = IF Gen THEN o ELSE ""
SetO(o) == /\ last' = IF Gen THEN "tau" ELSE ""
           /\ out' = IF Gen THEN o ELSE ""
KeepO == /\ last' = IF Gen THEN "tau" ELSE ""
         /\ UNCHANGED out

Ev(e, p) == [e |-> e, p |-> p]
EvW(e, p, m) == [e |-> e, p |-> p, to |-> R, m |-> m]
EvR(p, m) == [e |-> "rd", p |-> p, m |-> m]
Mon1(e) == mon' = LK!LStep(mon, e)
Mon2(e1, e2) == mon' = LK!LStep(LK!LStep(mon, e1), e2)

Init == /\ sst = [s \in Senders |-> "idle"] /\ obuf = [s \in Senders |-> <<>>]
        /\ nwr = [s \in Senders |-> 0] /\ seq = [s \in Senders |-> 0]
        /\ gch = <<>> /\ rbuf = <<>> /\ inprog = <<>> /\ rst = "idle" /\ nrd = 0
        /\ mon = LK!LInit("chan") /\ last = (IF Gen THEN "init" ELSE "") /\ out = ""

TauEnabled == \E s \in Senders : sst[s] = "pushing"
CmdOK == Mode = "free" \/ ~TauEnabled

SWrite(s) ==
    /\ CmdOK /\ sst[s] \in {"idle", "insec"} /\ nwr[s] < MaxMsg /\ seq[s] < MaxSeq
    /\ LET m == [s |-> s, q |-> seq[s] + 1] IN
       /\ seq' = [seq EXCEPT ![s] = @ + 1]
       /\ IF Variant = "early"
          THEN /\ Len(gch) < Cap /\ gch' = Append(gch, m) /\ UNCHANGED obuf
          ELSE /\ obuf' = [obuf EXCEPT ![s] = Append(@, m)] /\ UNCHANGED gch
       /\ Mon2(EvW("ws", s, m), EvW("wk", s, m))
    /\ sst' = [sst EXCEPT ![s] = "insec"] /\ nwr' = [nwr EXCEPT ![s] = @ + 1]
    /\ SetLO("W" \o ToString(s), "ok")
    /\ UNCHANGED <<rbuf, inprog, rst, nrd>>

SAbort(s) ==
    /\ CmdOK /\ sst[s] = "insec"
    /\ sst' = [sst EXCEPT ![s] = "idle"] /\ nwr' = [nwr EXCEPT ![s] = 0]
    /\ obuf' = [obuf EXCEPT ![s] = <<>>]
    /\ Mon1(Ev("ab", s)) /\ SetLO("A" \o ToString(s), "a")
    /\ UNCHANGED <<seq, gch, rbuf, inprog, rst, nrd>>

SCommit(s) ==
    /\ CmdOK /\ sst[s] = "insec"
    /\ (Gen => Len(gch) + Len(obuf[s]) <= Cap)
    /\ sst' = [sst EXCEPT ![s] = "pushing"]
    /\ Mon1(Ev("cs", s)) /\ SetLO("C" \o ToString(s), "")
    /\ UNCHANGED <<obuf, nwr, seq, gch, rbuf, inprog, rst, nrd>>

SPush(s) ==
    /\ sst[s] = "pushing" /\ obuf[s] # <<>> /\ Len(gch) < Cap
    /\ gch' = Append(gch, Head(obuf[s])) /\ obuf' = [obuf EXCEPT ![s] = Tail(@)]
    /\ KeepO
    /\ UNCHANGED <<sst, nwr, seq, rbuf, inprog, rst, nrd, mon>>

SDone(s) ==
    /\ sst[s] = "pushing" /\ obuf[s] = <<>>
    /\ sst' = [sst EXCEPT ![s] = "idle"] /\ nwr' = [nwr EXCEPT ![s] = 0]
    /\ Mon1(Ev("ce", s)) /\ SetO("c")
    /\ UNCHANGED <<obuf, seq, gch, rbuf, inprog, rst, nrd>>

AbortedBuf == CASE Variant = "abortappend" -> rbuf \o inprog
                [] Variant = "abortlose" -> rbuf
                [] OTHER -> inprog \o rbuf

RRead ==
    /\ CmdOK /\ nrd < MaxRd
    /\ IF rbuf # <<>>
       THEN /\ rbuf' = Tail(rbuf) /\ inprog' = Append(inprog, Head(rbuf))
            /\ rst' = "insec" /\ nrd' = nrd + 1 /\ UNCHANGED gch
            /\ Mon1(EvR(R, Head(rbuf)))
            /\ SetLO("RD", ToString(Head(rbuf).s) \o "." \o ToString(Head(rbuf).q))
       ELSE IF gch # <<>>
       THEN /\ gch' = Tail(gch) /\ inprog' = Append(inprog, Head(gch)) /\ UNCHANGED rbuf
            /\ rst' = "insec" /\ nrd' = nrd + 1
            /\ Mon1(EvR(R, Head(gch)))
            /\ SetLO("RD", ToString(Head(gch).s) \o "." \o ToString(Head(gch).q))
       ELSE /\ rbuf' = AbortedBuf /\ inprog' = <<>> /\ rst' = "idle" /\ nrd' = 0 /\ UNCHANGED gch
            /\ Mon2(Ev("rt", R), Ev("ab", R))
            /\ SetLO("RD", "to")
    /\ UNCHANGED <<sst, obuf, nwr, seq>>

RAbort ==
    /\ CmdOK /\ rst = "insec"
    /\ rbuf' = AbortedBuf /\ inprog' = <<>> /\ rst' = "idle" /\ nrd' = 0
    /\ Mon1(Ev("ab", R)) /\ SetLO("RA", "a")
    /\ UNCHANGED <<sst, obuf, nwr, seq, gch>>

RCommit ==
    /\ CmdOK /\ rst = "insec"
    /\ inprog' = <<>> /\ rst' = "idle" /\ nrd' = 0
    /\ Mon2(Ev("cs", R), Ev("ce", R)) /\ SetLO("RC", "c")
    /\ UNCHANGED <<sst, obuf, nwr, seq, gch, rbuf>>

Cmd == \/ \E s \in Senders : SWrite(s) \/ SAbort(s) \/ SCommit(s)
       \/ RRead \/ RAbort \/ RCommit
Tau == \E s \in Senders : SPush(s) \/ SDone(s)
Next == Cmd \/ Tau
Spec == Init /\ [][Next]_vars

FIFO         == LK!OkFIFO(mon)
RedeliverFirst == LK!OkRedeliver(mon)
AllOrNothing == LK!OkAllOrNothing(mon)
Contiguous   == LK!OkContiguous(mon)
AtRest == (\A s \in Senders : sst[s] = "idle") /\ gch = <<>> /\ rbuf = <<>> /\ inprog = <<>>
NoLossAtRest == AtRest => LK!Pending(mon, R) = 0
ChanBound == Len(gch) <= Cap
=============================================================================
