CONSTANTS
  NS = 2
  Cap = 3
  MaxSeq = 4
  MaxMsg = 2
  MaxRd = 2
  Mode = "gen"
  Variant = "code"
INIT Init
NEXT Next
VIEW MView
INVARIANTS FIFO RedeliverFirst AllOrNothing Contiguous NoLossAtRest ChanBound
CHECK_DEADLOCK FALSE
