CONSTANTS
  NS = 2
  Cap = 1
  MaxSeq = 2
  MaxMsg = 2
  MaxRd = 2
  MaxConn = 2
  Mode = "free"
  Variant = "code"
  CommitTO = FALSE
INIT Init
NEXT Next
VIEW MView
INVARIANTS FIFO Contiguous RedeliverFirst AllOrNothing LenBound NoLossAtRest ChanBound SendqParked
CHECK_DEADLOCK FALSE
