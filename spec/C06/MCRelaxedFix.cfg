CONSTANTS
  NS = 1
  Cap = 1
  SockCap = 1
  MaxSeq = 5
  MaxRd = 2
  MaxConn = 3
  Mode = "free"
  Redial = "drain"
  Variant = "code"
INIT Init
NEXT Next
VIEW MView
INVARIANTS FIFO RedeliverFirst AllOrNothing LenBound Contiguous NoLossAtRest ChanBound
CHECK_DEADLOCK FALSE
