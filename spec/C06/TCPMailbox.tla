----------------------------- MODULE TCPMailbox -----------------------------
(* M-spec of distsys/resources/tcpmailboxes.go: NS senders (tcpMailboxesRemote), one     *)
(* receiver (tcpMailboxesLocal) with its connection handlers (handleConn), the bounded   *)
(* msgChannel, readBacklog/readsInProgress and the length resource. One action per       *)
(* linearization point of the Go code:                                                   *)
(*   sender    WriteValue (ensureConnection, begin, value)   SWrite / dial failure        *)
(*             Abort                                          SAbort                      *)
(*             PreCommit: send tag, wait for ack              SCommit, SPreAck, SPreTimeout*)
(*             Commit: send tag, wait for ack                 SPreAck, SComAck, SComTimeout*)
(*   handler   one frame of the connection                    HStep (begin/value/pre/com) *)
(*             parked on the full msgChannel                  hst = "push", sendq          *)
(*   receiver  ReadValue (backlog, channel, timeout)          RRead                        *)
(*             length() (moves one record to the backlog)     RLen                         *)
(*             Abort / Commit                                 RAbort / RCommit             *)
(* Every action that is a call into the public resource API also feeds the Links monitor *)
(* (P-spec) with the event the harness decorator would log, so TLC checks M => P.         *)
(* Mode = "free": full concurrency; a wait may time out whenever it is not yet satisfied  *)
(* (timeouts are real time; under load they fire spuriously).                             *)
(* Mode = "gen": generator -- commands (the harness's calls) are issued only when the     *)
(* code is quiescent, a wait times out only if it can never be satisfied; "last"/"out"    *)
(* carry the command and its result so that the dumped graph is a test-case generator.    *)
(* Variant = "code" models the pinned tree; the other variants are deliberate defects     *)
(* used to show that the P-spec is not vacuous.                                           *)
EXTENDS Naturals, Sequences, FiniteSets, TLC

CONSTANTS NS, Cap, MaxSeq, MaxMsg, MaxRd, MaxConn, Mode, Variant, CommitTO
(* MaxSeq bounds the writes of one sender (over all its section attempts), MaxMsg the writes of one *)
(* section, MaxRd the reads of one receiver section; the number of sections is unbounded.          *)

Senders == 1..NS
R == NS + 1
MNodes == 0..R
Conns == Senders \X (1..MaxConn)

LK == INSTANCE Links WITH Nodes <- MNodes

NoM == [s |-> 0, q |-> 0]
Fr(t, m) == [t |-> t, m |-> m]
RECURSIVE CtlIdx(_, _)
CtlIdx(w, i) == IF i > Len(w) THEN 0 ELSE IF w[i].t \in {"pre", "com"} THEN i ELSE CtlIdx(w, i + 1)

VARIABLES sst, conn, nconn, inCS, nwr, seq, veto, sbuf,   \* senders
          wire, ackq, closed, hst, hbuf, hbegun,                \* connections / handlers
          ch, sendq, listening,                                 \* receiver's channel
          backlog, inprog, rst, nrd,                     \* receiver
          mon, last, out

svars == <<sst, conn, nconn, inCS, nwr, seq, veto, sbuf>>
cvars == <<wire, ackq, closed, hst, hbuf, hbegun>>
rvars == <<backlog, inprog, rst, nrd>>
vars == <<svars, cvars, ch, sendq, listening, rvars, mon, last, out>>

(* lastd/abm only refine the class of a violation; hiding them is sound for "some invariant fails" *)
MView == <<svars, cvars, ch, sendq, listening, rvars, last, out,
           [mon EXCEPT !.lastd = 0, !.abm = 0]>>

Gen == Mode = "gen"
SetLO(c, o) == /\ last' = IF Gen THEN c ELSE ""
               /\ out' = IF Gen THEN o ELSE ""
SetO(o) == /\ last' = IF Gen THEN "tau" ELSE ""
           /\ out' = IF Gen THEN o ELSE ""
KeepO == /\ last' = IF Gen THEN "tau" ELSE ""
         /\ UNCHANGED out

Ev(e, p) == [e |-> e, p |-> p]
EvW(e, p, m) == [e |-> e, p |-> p, to |-> R, m |-> m]
EvR(p, m) == [e |-> "rd", p |-> p, m |-> m]
EvL(p, n) == [e |-> "ln", p |-> p, n |-> n]
Mon1(e) == mon' = LK!LStep(mon, e)
Mon2(e1, e2) == mon' = LK!LStep(LK!LStep(mon, e1), e2)
Mon3(e1, e2, e3) == mon' = LK!LStep(LK!LStep(LK!LStep(mon, e1), e2), e3)

Init ==
    /\ sst = [s \in Senders |-> "idle"] /\ conn = [s \in Senders |-> 0]
    /\ nconn = [s \in Senders |-> 0] /\ inCS = [s \in Senders |-> FALSE]
    /\ nwr = [s \in Senders |-> 0]
    /\ seq = [s \in Senders |-> 0] /\ veto = [s \in Senders |-> FALSE]
    /\ sbuf = [s \in Senders |-> <<>>]
    /\ wire = [c \in Conns |-> <<>>] /\ ackq = [c \in Conns |-> <<>>]
    /\ closed = [c \in Conns |-> FALSE] /\ hst = [c \in Conns |-> "none"]
    /\ hbuf = [c \in Conns |-> <<>>] /\ hbegun = [c \in Conns |-> FALSE]
    /\ ch = <<>> /\ sendq = <<>> /\ listening = (Mode = "free")
    /\ backlog = <<>> /\ inprog = <<>> /\ rst = "idle" /\ nrd = 0
    /\ mon = LK!LInit("tcp") /\ last = (IF Gen THEN "init" ELSE "") /\ out = ""

(* ---------------------------------------------------------------- quiescence (gen mode) *)
HandlerCanStep(c) == hst[c] = "run" /\ (CtlIdx(wire[c], 1) > 0 \/ closed[c])
TauEnabled == \/ \E c \in Conns : HandlerCanStep(c)
              \/ \E s \in Senders : sst[s] \in {"prewait", "comwait"}
CmdOK == Mode = "free" \/ ~TauEnabled

(* ---------------------------------------------------------------------------- senders *)
BeginIfIdle(s) == sst[s] \in {"idle", "insec"}

SWrite(s) ==
    /\ CmdOK /\ BeginIfIdle(s) /\ nwr[s] < MaxMsg /\ seq[s] < MaxSeq
    /\ LET m == [s |-> s, q |-> seq[s] + 1] IN
       /\ seq' = [seq EXCEPT ![s] = @ + 1]
       /\ IF conn[s] = 0 /\ ~listening
          THEN \* dial fails: WriteValue returns the abort error, the context aborts the section
               /\ Mon3(EvW("ws", s, m), EvW("wf", s, m), Ev("ab", s))
               /\ sst' = [sst EXCEPT ![s] = "idle"] /\ nwr' = [nwr EXCEPT ![s] = 0]
               /\ inCS' = [inCS EXCEPT ![s] = FALSE] /\ sbuf' = [sbuf EXCEPT ![s] = <<>>]
               /\ SetLO("W" \o ToString(s), "fail")
               /\ UNCHANGED <<conn, nconn, veto, cvars, ch, sendq, listening, rvars>>
          ELSE /\ (conn[s] # 0 \/ nconn[s] < MaxConn)
               /\ LET k == IF conn[s] = 0 THEN nconn[s] + 1 ELSE conn[s]
                      c == <<s, k>>
                      frames == (IF inCS[s] THEN <<>> ELSE <<Fr("begin", NoM)>>) \o <<Fr("val", m)>>
                  IN /\ conn' = [conn EXCEPT ![s] = k]
                     /\ nconn' = [nconn EXCEPT ![s] = IF conn[s] = 0 THEN k ELSE @]
                     /\ hst' = [hst EXCEPT ![c] = IF conn[s] = 0 THEN "run" ELSE @]
                     /\ wire' = [wire EXCEPT ![c] = @ \o frames]
               /\ inCS' = [inCS EXCEPT ![s] = TRUE]
               /\ sbuf' = [sbuf EXCEPT ![s] = Append(@, m)]
               /\ sst' = [sst EXCEPT ![s] = "insec"] /\ nwr' = [nwr EXCEPT ![s] = @ + 1]
               /\ Mon2(EvW("ws", s, m), EvW("wk", s, m))
               /\ SetLO("W" \o ToString(s), "ok")
               /\ UNCHANGED <<veto, ackq, closed, hbuf, hbegun, ch, sendq, listening, rvars>>

SenderAborted(s) ==
    /\ sst' = [sst EXCEPT ![s] = "idle"] /\ nwr' = [nwr EXCEPT ![s] = 0]
    /\ inCS' = [inCS EXCEPT ![s] = FALSE] /\ sbuf' = [sbuf EXCEPT ![s] = <<>>]
    /\ veto' = [veto EXCEPT ![s] = FALSE]

SAbort(s) ==
    /\ CmdOK /\ sst[s] = "insec"
    /\ SenderAborted(s) /\ Mon1(Ev("ab", s))
    /\ SetLO("A" \o ToString(s), "a")
    /\ UNCHANGED <<conn, nconn, seq, cvars, ch, sendq, listening, rvars>>

(* the section's body returns; the context calls PreCommit: tag sent, wait for the ack *)
SCommit(s, v) ==
    /\ CmdOK /\ sst[s] = "insec"
    /\ wire' = [wire EXCEPT ![<<s, conn[s]>>] = Append(@, Fr("pre", NoM))]
    /\ sst' = [sst EXCEPT ![s] = "prewait"] /\ veto' = [veto EXCEPT ![s] = v]
    /\ Mon1(Ev("pc", s))
    /\ SetLO((IF v THEN "V" ELSE "C") \o ToString(s), "")
    /\ UNCHANGED <<conn, nconn, inCS, nwr, seq, sbuf, ackq, closed, hst, hbuf, hbegun,
                   ch, sendq, listening, rvars>>

(* PreCommit got its ack. If another resource of the section vetoes, the context aborts;  *)
(* otherwise it calls Commit, which sends the commit tag and waits for its ack.           *)
SPreAck(s) ==
    /\ sst[s] = "prewait"
    /\ LET c == <<s, conn[s]>> IN
       /\ ackq[c] # <<>> /\ Head(ackq[c]) = "pre"
       /\ ackq' = [ackq EXCEPT ![c] = Tail(@)]
       /\ IF veto[s]
          THEN /\ SenderAborted(s) /\ Mon1(Ev("ab", s)) /\ SetO("v")
               /\ UNCHANGED wire
          ELSE /\ wire' = [wire EXCEPT ![c] = Append(@, Fr("com", NoM))]
               /\ sst' = [sst EXCEPT ![s] = "comwait"]
               /\ Mon1(Ev("cs", s)) /\ KeepO
               /\ UNCHANGED <<nwr, inCS, sbuf, veto>>
    /\ UNCHANGED <<conn, nconn, seq, closed, hst, hbuf, hbegun, ch, sendq, listening, rvars>>

(* the ack does not arrive in time: the connection is dropped, the section aborts *)
PreStuck(s) == LET c == <<s, conn[s]>> IN ackq[c] = <<>> /\ hst[c] \in {"push", "dead"}
SPreTimeout(s) ==
    /\ sst[s] = "prewait"
    /\ LET c == <<s, conn[s]>> IN
       /\ ackq[c] = <<>>
       /\ (Gen => PreStuck(s))
       /\ closed' = [closed EXCEPT ![c] = TRUE]
    /\ conn' = [conn EXCEPT ![s] = 0]
    /\ SenderAborted(s) /\ Mon1(Ev("ab", s)) /\ SetO("t")
    /\ UNCHANGED <<nconn, seq, wire, ackq, hst, hbuf, hbegun, ch, sendq, listening, rvars>>

SComAck(s) ==
    /\ sst[s] = "comwait"
    /\ LET c == <<s, conn[s]>> IN
       /\ ackq[c] # <<>> /\ Head(ackq[c]) = "com"
       /\ ackq' = [ackq EXCEPT ![c] = Tail(@)]
    /\ sst' = [sst EXCEPT ![s] = "idle"] /\ nwr' = [nwr EXCEPT ![s] = 0]
    /\ inCS' = [inCS EXCEPT ![s] = FALSE] /\ sbuf' = [sbuf EXCEPT ![s] = <<>>]
    /\ Mon1(Ev("ce", s)) /\ SetO("c")
    /\ UNCHANGED <<conn, nconn, seq, veto, wire, closed, hst, hbuf, hbegun, ch, sendq,
                   listening, rvars>>

(* Commit must complete: on a time-out it re-dials and re-sends begin, values, commit.   *)
(* Only with CommitTO (connection failure during commit is outside C06's statement).      *)
SComTimeout(s) ==
    /\ CommitTO /\ sst[s] = "comwait" /\ nconn[s] < MaxConn
    /\ LET c == <<s, conn[s]>>
           k2 == nconn[s] + 1
           c2 == <<s, k2>>
       IN /\ ackq[c] = <<>>
          /\ closed' = [closed EXCEPT ![c] = TRUE]
          /\ conn' = [conn EXCEPT ![s] = k2] /\ nconn' = [nconn EXCEPT ![s] = k2]
          /\ hst' = [hst EXCEPT ![c2] = "run"]
          /\ wire' = [wire EXCEPT ![c2] = <<Fr("begin", NoM)>>
                          \o [i \in 1..Len(sbuf[s]) |-> Fr("val", sbuf[s][i])] \o <<Fr("com", NoM)>>]
    /\ KeepO
    /\ UNCHANGED <<sst, inCS, nwr, seq, veto, sbuf, ackq, hbuf, hbegun, ch, sendq, listening,
                   rvars, mon>>

(* --------------------------------------------------------------------------- handlers *)
(* push a batch into msgChannel or park on it (Go: blocked senders queue in FIFO order)   *)
Push(c, b) ==
    IF Len(ch) < Cap
    THEN /\ ch' = Append(ch, b) /\ hbuf' = [hbuf EXCEPT ![c] = <<>>]
         /\ UNCHANGED <<sendq, hst>>
    ELSE /\ sendq' = Append(sendq, c) /\ hst' = [hst EXCEPT ![c] = "push"]
         /\ hbuf' = [hbuf EXCEPT ![c] = b] /\ UNCHANGED ch

(* begin/value frames only touch the handler's private buffer; they are absorbed together *)
(* with the next precommit/commit frame (a sound partial-order reduction)                 *)
RECURSIVE Absorb(_, _)
Absorb(buf, fs) == IF fs = <<>> THEN buf
                   ELSE IF Head(fs).t = "begin"
                        THEN Absorb(IF Variant = "noreset" THEN buf ELSE <<>>, Tail(fs))
                        ELSE Absorb(Append(buf, Head(fs).m), Tail(fs))

HStep(c) ==
    /\ hst[c] = "run" /\ CtlIdx(wire[c], 1) > 0
    /\ LET i == CtlIdx(wire[c], 1)
           f == wire[c][i]
           buf == Absorb(hbuf[c], SubSeq(wire[c], 1, i - 1))
       IN
       /\ wire' = [wire EXCEPT ![c] = SubSeq(@, i + 1, Len(@))]
       /\ IF f.t = "pre"
          THEN /\ ackq' = [ackq EXCEPT ![c] = IF closed[c] THEN @ ELSE Append(@, "pre")]
               /\ hbegun' = [hbegun EXCEPT ![c] = TRUE]
               /\ IF Variant = "pubpre" /\ buf # <<>>
                  THEN Push(c, buf)
                  ELSE /\ hbuf' = [hbuf EXCEPT ![c] = buf] /\ UNCHANGED <<ch, sendq, hst>>
          ELSE /\ ackq' = [ackq EXCEPT ![c] = IF closed[c] THEN @ ELSE Append(@, "com")]
               /\ hbegun' = [hbegun EXCEPT ![c] = FALSE]
               /\ IF buf # <<>> /\ Variant # "pubpre"
                  THEN Push(c, IF Variant = "partial" THEN <<Head(buf)>> ELSE buf)
                  ELSE /\ hbuf' = [hbuf EXCEPT ![c] = <<>>] /\ UNCHANGED <<ch, sendq, hst>>
    /\ KeepO
    /\ UNCHANGED <<svars, closed, listening, rvars, mon>>

HEOF(c) ==
    /\ hst[c] = "run" /\ CtlIdx(wire[c], 1) = 0 /\ closed[c]
    /\ hst' = [hst EXCEPT ![c] = "dead"]
    /\ KeepO
    /\ UNCHANGED <<svars, wire, ackq, closed, hbuf, hbegun, ch, sendq, listening, rvars, mon>>

(* --------------------------------------------------------------------------- receiver *)
(* receiving from msgChannel: Go hands the buffer slot to the first parked sender        *)
PopCh ==
    IF sendq = <<>>
    THEN /\ ch' = Tail(ch) /\ UNCHANGED <<sendq, hst, hbuf>>
    ELSE LET c == Head(sendq) IN
         /\ ch' = Append(Tail(ch), hbuf[c])
         /\ sendq' = Tail(sendq)
         /\ hst' = [hst EXCEPT ![c] = "run"]
         /\ hbuf' = [hbuf EXCEPT ![c] = <<>>]


AbortedBacklog == CASE Variant = "abortappend" -> backlog \o inprog
                    [] Variant = "abortlose" -> backlog
                    [] OTHER -> inprog \o backlog

RRead ==
    /\ CmdOK /\ listening /\ nrd < MaxRd
    /\ IF backlog # <<>>
       THEN /\ backlog' = Tail(backlog) /\ inprog' = Append(inprog, Head(backlog))
            /\ rst' = "insec" /\ nrd' = nrd + 1
            /\ Mon1(EvR(R, Head(backlog)))
            /\ SetLO("RD", ToString(Head(backlog).s) \o "." \o ToString(Head(backlog).q))
            /\ UNCHANGED <<ch, sendq, hst, hbuf>>
       ELSE IF ch # <<>>
       THEN LET rec == Head(ch) IN
            /\ PopCh
            /\ backlog' = Tail(rec) /\ inprog' = Append(inprog, Head(rec))
            /\ rst' = "insec" /\ nrd' = nrd + 1
            /\ Mon1(EvR(R, Head(rec)))
            /\ SetLO("RD", ToString(Head(rec).s) \o "." \o ToString(Head(rec).q))
       ELSE \* nothing arrives within readTimeout: the read aborts the section
            /\ backlog' = AbortedBacklog /\ inprog' = <<>> /\ rst' = "idle" /\ nrd' = 0
            /\ Mon2(Ev("rt", R), Ev("ab", R))
            /\ SetLO("RD", "to")
            /\ UNCHANGED <<ch, sendq, hst, hbuf>>
    /\ UNCHANGED <<svars, wire, ackq, closed, hbegun, listening>>

RLen ==
    /\ CmdOK /\ listening
    /\ rst' = "insec"
    /\ LET pull == backlog = <<>> /\ ch # <<>>
           nb == IF pull THEN Head(ch) ELSE backlog
           n == IF Variant = "lenover" THEN Len(nb) + Len(ch) ELSE Len(nb)
       IN /\ backlog' = nb
          /\ IF pull THEN PopCh ELSE UNCHANGED <<ch, sendq, hst, hbuf>>
          /\ Mon1(EvL(R, n))
          /\ SetLO("LN", ToString(n))
    /\ UNCHANGED <<svars, wire, ackq, closed, hbegun, listening, inprog, nrd>>

RAbort ==
    /\ CmdOK /\ rst = "insec"
    /\ backlog' = AbortedBacklog /\ inprog' = <<>> /\ rst' = "idle" /\ nrd' = 0
    /\ Mon1(Ev("ab", R)) /\ SetLO("RA", "a")
    /\ UNCHANGED <<svars, cvars, ch, sendq, listening>>

RCommit ==
    /\ CmdOK /\ rst = "insec"
    /\ inprog' = <<>> /\ rst' = "idle" /\ nrd' = 0
    /\ Mon2(Ev("cs", R), Ev("ce", R)) /\ SetLO("RC", "c")
    /\ UNCHANGED <<svars, cvars, ch, sendq, listening, backlog>>

(* the receiver's first use of its own mailbox starts the listener *)
Listen ==
    /\ CmdOK /\ ~listening /\ listening' = TRUE
    /\ SetLO("L", "0")
    /\ UNCHANGED <<svars, cvars, ch, sendq, rvars, mon>>

Cmd == \/ \E s \in Senders : SWrite(s) \/ SAbort(s) \/ SCommit(s, FALSE) \/ SCommit(s, TRUE)
       \/ RRead \/ RLen \/ RAbort \/ RCommit \/ Listen
Tau == \/ \E s \in Senders : SPreAck(s) \/ SPreTimeout(s) \/ SComAck(s) \/ SComTimeout(s)
       \/ \E c \in Conns : HStep(c) \/ HEOF(c)
Next == Cmd \/ Tau
Spec == Init /\ [][Next]_vars

(* ------------------------------------------------------------------------ properties *)
(* M => P: the monitor never flags *)
PropertyHolds == mon.bad = ""
FIFO         == LK!OkFIFO(mon)
Contiguous   == LK!OkContiguous(mon)
RedeliverFirst == LK!OkRedeliver(mon)
AllOrNothing == LK!OkAllOrNothing(mon)
LenBound     == LK!OkLen(mon)

(* nothing is lost: whatever the P-spec says is pending is physically somewhere *)
AtRest == /\ \A s \in Senders : sst[s] = "idle"
          /\ \A c \in Conns : CtlIdx(wire[c], 1) = 0 \/ hst[c] # "run"
          /\ sendq = <<>> /\ ch = <<>> /\ backlog = <<>> /\ inprog = <<>>
NoLossAtRest == AtRest => LK!Pending(mon, R) = 0
(* the back-pressure bound: one speculative batch per connection beyond the channel *)
ChanBound == Len(ch) <= Cap
SendqParked == \A i \in 1..Len(sendq) : hst[sendq[i]] = "push" /\ hbuf[sendq[i]] # <<>>
=============================================================================
